(* LowLevel2KProofs.v -- C10-A2 / C16, second layer: the array-level skyline LU (LowLevel2K.v).
   For every Scalar record (no algebraic law is used: this is about indices only):

     ll_sky_build_ok      the constructor after ordering::get -- invperm loop, first traversal,
                          transform loop, resize, second traversal, factorize() -- on a well-formed
                          matrix with 0 < rows, cols <= rows and a perm(n) with entries < n stays
                          inside every array and returns exactly the members computed by
                          Direct.sky_build_perm (or the exception of precondition());
     ll_sky_solve_ok      operator()(rhs, x) on an object with a well-formed profile stays inside
                          every array and returns exactly Direct.sky_solve (x and the scratch y);
     ll_sky_build_solve_ok  the object returned by the constructor satisfies those hypotheses.
   Stages (named lemmas): k_invperm_ok, k_heights_ok, k_ptr_transform_ok, hts_covers (the heights
   of the first traversal cover every entry the second one stores), k_fill_ok, k_dot_sub_ok,
   k_U_col_ok, k_L_row_ok, k_crout_step_ok, k_factorize_ok, k_fwd_sum_ok, k_forward_ok,
   k_bwd_col_ok, k_backward_ok, k_scatter_ok.
   Closed instances over the exact rationals at the end; ll_sky_build_n0: for the 0 x 0 matrix
   factorize() reads D[0] of an empty vector (OutOfBounds), where the list model of Direct.v, whose
   accessors are total, reports the precondition() exception. *)
From Coq Require Import ZArith Lia.
From Amgcl Require Import Scalar Vec Crs Kernels MatOps LowLevel LowLevelProofs LowLevelT LowLevelTProofs
                          MatOpsProofs LowLevel2 LowLevel2Proofs LowLevel2G LowLevel2GProofs
                          DirectUtil CuthillMcKee Direct DirectProofs LowLevel2K.
Local Open Scope nat_scope.
Local Notation zn := Z.of_nat.

(* ------------------------------------------------------------------ generic: simulation of loops *)
Lemma mfor_sim {A St} (R : A -> St) (P : nat -> A -> Prop) (body : nat -> St -> mres St) (g : nat -> A -> A) :
  forall cnt lo a, P lo a ->
  (forall i a, lo <= i < lo + cnt -> P i a -> body i (R a) = Done (R (g i a)) /\ P (Datatypes.S i) (g i a)) ->
  mfor lo cnt body (R a) = Done (R (for_loop lo cnt g a)) /\ P (lo + cnt) (for_loop lo cnt g a).
Proof.
  induction cnt as [|k IH]; intros lo a H0 Hs.
  - rewrite Nat.add_0_r. split; [reflexivity|exact H0].
  - rewrite mfor_step, for_loop_first. destruct (Hs lo a ltac:(lia) H0) as [Hb Hp]. rewrite Hb. cbn [mbind].
    replace (lo + Datatypes.S k) with (Datatypes.S lo + k) by lia.
    apply IH; [exact Hp|]. intros i s Hi. apply Hs. lia.
Qed.

Lemma mfoldl_sim {X A St} (R : A -> St) (P : A -> Prop) (h : X -> St -> mres St) (g : A -> X -> A) :
  forall (l : list X) a, P a ->
  (forall x a, In x l -> P a -> h x (R a) = Done (R (g a x)) /\ P (g a x)) ->
  mfoldl h l (R a) = Done (R (fold_left g l a)) /\ P (fold_left g l a).
Proof.
  induction l as [|x l IH]; intros a H0 Hs.
  - split; [reflexivity|exact H0].
  - cbn [mfoldl fold_left]. destruct (Hs x a (or_introl eq_refl) H0) as [Hb Hp]. rewrite Hb. cbn [mbind].
    apply IH; [exact Hp|]. intros y s Hy. apply Hs. right. exact Hy.
Qed.

Lemma for_loop_shift {St} lo cnt (body : nat -> St -> St) st :
  for_loop lo cnt body st = for_loop 0 cnt (fun t => body (lo + t)) st.
Proof.
  induction cnt as [|k IH]; [reflexivity|]. rewrite !for_loop_S, IH. reflexivity.
Qed.

Lemma for_down_up {St} n (body : nat -> St -> St) : forall st,
  for_down 0 n body st = for_loop 0 n (fun t => body (n - 1 - t)) st.
Proof.
  induction n as [|k IH]; intro st; [reflexivity|].
  rewrite for_down_S, for_loop_first, IH. cbn [Nat.add].
  replace (Datatypes.S k - 1 - 0) with k by lia.
  rewrite (for_loop_shift 1 k). apply for_loop_ext. intros i s Hi. f_equal. lia.
Qed.

(* ------------------------------------------------------------------ checked accesses on filled arrays *)
Lemma mrdz_nat {X} (a : marr X) z m : z = zn m -> mrdz a z = mrd a m.
Proof.
  intros ->. unfold mrdz. destruct (Z.ltb_spec (zn m) 0); [lia|]. rewrite Nat2Z.id. reflexivity.
Qed.
Lemma mwrz_nat {X} (a : marr X) z m v : z = zn m -> mwrz a z v = mwr a m v.
Proof.
  intros ->. unfold mwrz. destruct (Z.ltb_spec (zn m) 0); [lia|]. rewrite Nat2Z.id. reflexivity.
Qed.
Lemma mwr_lset {X} (l : list X) i v : i < length l -> mwr (filled l) i v = Done (filled (lset l i v)).
Proof.
  revert i; induction l as [|a l IH]; intros i H; simpl in *; [lia|].
  destruct i as [|k]; [reflexivity|]. rewrite IH by lia. reflexivity.
Qed.
Lemma mrd_pget (l : list nat) i : i < length l -> mrd (filled l) i = Done (pget l i).
Proof. intro H. apply mrd_filled. exact H. Qed.

(* an int array holding naturals *)
Definition zfilled (l : list nat) : marr Z := filled (map Z.of_nat l).
Lemma zfilled_length l : length (zfilled l) = length l.
Proof. unfold zfilled. rewrite filled_length, map_length. reflexivity. Qed.
Lemma map_lset {X Y} (f : X -> Y) (l : list X) i v : map f (lset l i v) = lset (map f l) i (f v).
Proof. revert i; induction l as [|a l IH]; intros [|i]; simpl; try reflexivity. rewrite IH. reflexivity. Qed.
Lemma mrd_zf (l : list nat) i : i < length l -> mrd (zfilled l) i = Done (zn (pget l i)).
Proof.
  intro H. unfold zfilled. rewrite (mrd_filled _ i 0%Z) by (rewrite map_length; exact H).
  unfold pget. change 0%Z with (zn 0). rewrite map_nth. reflexivity.
Qed.
Lemma mwr_zf (l : list nat) i z v : z = zn v -> i < length l -> mwr (zfilled l) i z = Done (zfilled (lset l i v)).
Proof.
  intros -> H. unfold zfilled. rewrite mwr_lset by (rewrite map_length; exact H). rewrite map_lset. reflexivity.
Qed.
Lemma mrdz_zf (l : list nat) z m : z = zn m -> m < length l -> mrdz (zfilled l) z = Done (zn (pget l m)).
Proof. intros Hz H. rewrite (mrdz_nat _ z m Hz). apply mrd_zf. exact H. Qed.
Lemma mwrz_zf (l : list nat) zi i z v : zi = zn i -> z = zn v -> i < length l ->
  mwrz (zfilled l) zi z = Done (zfilled (lset l i v)).
Proof. intros Hz Hv H. rewrite (mwrz_nat _ zi i _ Hz). apply mwr_zf; assumption. Qed.

Lemma map_repeat_k {X Y} (f : X -> Y) x k : map f (repeat x k) = repeat (f x) k.
Proof. induction k as [|k IH]; simpl; [reflexivity|]. rewrite IH. reflexivity. Qed.

Section Proofs.
Context {S : Scalar}.
Local Notation vec := (vec S).
Local Notation crs := (crs S).

Lemma mrd_vf (l : vec) i : i < length l -> mrd (filled l) i = Done (vget l i).
Proof. intro H. apply mrd_filled. exact H. Qed.
Lemma mrdz_vf (l : vec) z m : z = zn m -> m < length l -> mrdz (filled l) z = Done (vget l m).
Proof. intros Hz H. rewrite (mrdz_nat _ z m Hz). apply mrd_vf. exact H. Qed.
Lemma mwrz_vf (l : vec) z m v : z = zn m -> m < length l -> mwrz (filled l) z v = Done (filled (lset l m v)).
Proof. intros Hz H. rewrite (mwrz_nat _ z m _ Hz). apply mwr_lset. exact H. Qed.
Lemma ird_vf (l : vec) i : i < length l -> ird l i = Done (vget l i).
Proof. intro H. apply ird_ok. exact H. Qed.

(* ------------------------------------------------------------------ stage 1: invperm *)
Lemma inverse_perm_ok n perm :
  length (inverse_perm n perm) = n /\ (0 < n -> forall j, pget (inverse_perm n perm) j < n).
Proof.
  unfold inverse_perm.
  apply (for_loop_inv (fun i ip => i <= n -> length ip = n /\ (0 < n -> forall j, pget ip j < n))) ; [| |lia].
  - intros _. split; [apply repeat_length|]. intros Hn j. unfold pget.
    destruct (Nat.lt_ge_cases j n); [rewrite nth_repeat; exact Hn|].
    rewrite nth_overflow by (rewrite repeat_length; assumption). exact Hn.
  - intros i ip Hi IH _. destruct (IH ltac:(lia)) as [HL Hlt]. split; [rewrite lset_length; exact HL|].
    intros Hn j. rewrite pget_lset. destruct (Nat.eqb (pget perm i) j); [|apply Hlt; exact Hn].
    destruct (Nat.ltb _ _); lia.
Qed.

Lemma k_invperm_ok n perm : length perm = n -> (forall i, i < n -> pget perm i < n) ->
  k_invperm n (filled perm) = Done (filled (inverse_perm n perm)).
Proof.
  intros HL Hp. unfold k_invperm, inverse_perm.
  apply (mfor_sim (@filled nat) (fun _ ip => length ip = n)).
  - apply repeat_length.
  - intros i ip Hi Hip. rewrite mrd_pget by lia. cbn [mbind].
    rewrite mwr_lset by (rewrite Hip; apply Hp; lia). split; [reflexivity|]. rewrite lset_length. exact Hip.
Qed.


(* ------------------------------------------------------------------ profiles *)
Lemma wf_mono n ptr : profile_wf n ptr -> forall i j, i <= j -> j <= n -> pget ptr i <= pget ptr j.
Proof.
  intros [_ H] i j Hij Hj. induction j as [|j IH].
  - replace i with 0 by lia. lia.
  - destruct (Nat.eq_dec i (Datatypes.S j)) as [->|Hne]; [lia|].
    specialize (IH ltac:(lia) ltac:(lia)). destruct (H j ltac:(lia)). lia.
Qed.

(* after the transform loop: ptr[j+1] - ptr[j] is the height recorded for j (none for j = 0) *)
Lemma profile_ptr_gap n h : length h = Datatypes.S n ->
  forall j, j < n -> pget (profile_ptr n h) (Datatypes.S j)
                     = pget (profile_ptr n h) j + (if Nat.eqb j 0 then 0 else pget h j).
Proof.
  intro HL. unfold profile_ptr.
  pose (P := fun k (pl : list nat * nat) =>
     length (fst pl) = Datatypes.S n /\
     (forall j, k <= j -> pget (fst pl) j = pget h j) /\
     snd pl = (if Nat.eqb k 1 then 0 else pget h (k - 1)) /\
     (forall j, j + 1 < k -> pget (fst pl) (Datatypes.S j)
                             = pget (fst pl) j + (if Nat.eqb j 0 then 0 else pget h j))).
  assert (H : P (1 + n) (for_loop 1 n (fun i (pl : list nat * nat) =>
                       let tmp := pget (fst pl) i in
                       (lset (fst pl) i (pget (fst pl) (i - 1) + snd pl), tmp)) (h, 0))).
  { apply (for_loop_inv P).
    - unfold P. cbn [fst snd]. repeat split; try assumption; try reflexivity; intros; lia.
    - intros k [p l] Hk HP. unfold P in *. cbv zeta. cbn [fst snd] in *.
      destruct HP as (HLp & Htail & Hl & Hgap). repeat split.
      + rewrite lset_length. assumption.
      + intros j Hj. rewrite pget_lset. destruct (Nat.eqb_spec k j); [lia|]. apply Htail. lia.
      + destruct (Nat.eqb_spec (Datatypes.S k) 1); [lia|]. replace (Datatypes.S k - 1) with k by lia.
        apply Htail. lia.
      + intros j Hj. destruct (Nat.eq_dec (j + 1) k) as [E|E].
        * rewrite !pget_lset. replace (Datatypes.S j) with k by lia.
          rewrite Nat.eqb_refl. destruct (Nat.eqb_spec k j); [lia|].
          destruct (Nat.ltb_spec k (length p)); [|lia]. replace (k - 1) with j in * by lia.
          rewrite Hl. destruct (Nat.eqb_spec k 1), (Nat.eqb_spec j 0); try lia.
        * rewrite !pget_lset. destruct (Nat.eqb_spec k (Datatypes.S j)); [lia|].
          destruct (Nat.eqb_spec k j); [lia|]. apply Hgap. lia. }
  destruct H as (_ & _ & _ & H). intros j Hj. apply H. lia.
Qed.

Definition R3 (a : vec * vec * vec) : marr S * marr S * marr S :=
  (filled (fst (fst a)), filled (snd (fst a)), filled (snd a)).


(* ------------------------------------------------------------------ stage 5: factorize() *)
Lemma k_dot_sub_ok (L U : vec) zL zU c iL iU cnt s :
  zL = zn iL -> zU = zn iU -> c = cnt -> iL + cnt <= length L -> iU + cnt <= length U ->
  k_dot_sub (filled L) (filled U) zL zU c s = Done (dot_sub L U iL iU cnt s).
Proof.
  intros -> -> -> HL HU. unfold k_dot_sub, dot_sub, for_loop.
  apply (mfor_inv (fun _ _ => True)); [exact I|].
  intros t x Ht _. split; [|exact I].
  rewrite (mrdz_vf L _ (iL + t)) by lia. cbn [mbind].
  rewrite (mrdz_vf U _ (iU + t)) by lia. reflexivity.
Qed.

Section Factor.
Variable n : nat.
Variable ptr : list nat.
Hypothesis Hwf : profile_wf n ptr.
Let nz := pget ptr n.
Let mptr := zfilled ptr.

Lemma f_len : length ptr = Datatypes.S n.
Proof. apply Hwf. Qed.
Lemma f_gap i : i < n -> pget ptr i <= pget ptr (i + 1) /\ pget ptr (i + 1) - pget ptr i <= i.
Proof. intro Hi. rewrite Nat.add_1_r. apply Hwf. exact Hi. Qed.
Lemma f_mono i j : i <= j -> j <= n -> pget ptr i <= pget ptr j.
Proof. apply (wf_mono n ptr Hwf). Qed.

Lemma k_U_col_ok (L D U : vec) k : k + 1 < n -> length L = nz -> length D = n -> length U = nz ->
  k_U_col mptr (filled L) (filled D) k (filled U) = Done (filled (crout_U_col ptr L D k U)) /\
  length (crout_U_col ptr L D k U) = nz.
Proof.
  intros Hk HL HD HU. unfold k_U_col, crout_U_col, mptr.
  pose proof f_len as Hlen.
  rewrite !mrd_zf by lia. cbn [mbind]. cbv zeta.
  pose proof (f_gap (k + 1) Hk) as [G1 G2]. replace (k + 1 + 1) with (k + 2) in * by lia.
  pose proof (f_mono (k + 2) n ltac:(lia) ltac:(lia)) as M2. fold nz in M2.
  set (pk1 := pget ptr (k + 1)) in *. set (pk2 := pget ptr (k + 2)) in *.
  replace (zn k + 1 - zn pk2 + zn pk1)%Z with (zn (k + 1 + pk1 - pk2)) by lia.
  set (ibc := k + 1 + pk1 - pk2) in *.
  replace (Z.to_nat (zn k + 1 - zn ibc)) with (k + 1 - ibc) by lia.
  rewrite (for_loop_shift ibc).
  apply (mfor_sim (@filled S) (fun _ (U : vec) => length U = nz)); [exact HU|].
  intros t U' Ht HU'. cbn [Nat.add] in Ht.
  set (i := ibc + t) in *.
  replace (zn ibc + zn t)%Z with (zn i) by lia.
  destruct (Z.eqb_spec (zn i) 0), (Nat.eqb_spec i 0); try lia; [split; [reflexivity|exact HU']|].
  pose proof (f_gap i ltac:(lia)) as [I1 I2].
  pose proof (f_mono (i + 1) (k + 1) ltac:(lia) ltac:(lia)) as M1. fold pk1 in M1.
  rewrite (mrdz_vf U' _ (pk1 + (i - ibc))) by lia. cbn [mbind].
  rewrite (mrdz_zf ptr _ (i + 1)) by lia. cbn [mbind].
  rewrite (mrdz_zf ptr _ i) by lia. cbn [mbind].
  set (pi0 := pget ptr i) in *. set (pi1 := pget ptr (i + 1)) in *.
  replace (zn i - zn pi1 + zn pi0)%Z with (zn (i + pi0 - pi1)) by lia.
  set (jbr := i + pi0 - pi1) in *.
  rewrite (k_dot_sub_ok L U' _ _ _ (pi0 + Nat.max ibc jbr - jbr) (pk1 + Nat.max ibc jbr - ibc) (i - Nat.max ibc jbr)) by lia.
  cbn [mbind].
  rewrite (mrdz_vf D _ i) by lia. cbn [mbind].
  rewrite (mwrz_vf U' _ (pk1 + (i - ibc))) by lia.
  split; [reflexivity|]. rewrite lset_length. exact HU'.
Qed.


Lemma k_L_row_ok (U L : vec) k : k + 1 < n -> length U = nz -> length L = nz ->
  k_L_row mptr (filled U) k (filled L) = Done (filled (crout_L_row ptr U k L)) /\
  length (crout_L_row ptr U k L) = nz.
Proof.
  intros Hk HU HL. unfold k_L_row, crout_L_row, mptr.
  pose proof f_len as Hlen.
  rewrite !mrd_zf by lia. cbn [mbind]. cbv zeta.
  pose proof (f_gap (k + 1) Hk) as [G1 G2]. replace (k + 1 + 1) with (k + 2) in * by lia.
  pose proof (f_mono (k + 2) n ltac:(lia) ltac:(lia)) as M2. fold nz in M2.
  set (pk1 := pget ptr (k + 1)) in *. set (pk2 := pget ptr (k + 2)) in *.
  replace (zn k + 1 - zn pk2 + zn pk1)%Z with (zn (k + 1 + pk1 - pk2)) by lia.
  set (ibc := k + 1 + pk1 - pk2) in *.
  replace (Z.to_nat (zn k + 1 - zn ibc)) with (k + 1 - ibc) by lia.
  rewrite (for_loop_shift ibc).
  apply (mfor_sim (@filled S) (fun _ (L : vec) => length L = nz)); [exact HL|].
  intros t L' Ht HL'. cbn [Nat.add] in Ht.
  set (i := ibc + t) in *.
  replace (zn ibc + zn t)%Z with (zn i) by lia.
  destruct (Z.eqb_spec (zn i) 0), (Nat.eqb_spec i 0); try lia; [split; [reflexivity|exact HL']|].
  pose proof (f_gap i ltac:(lia)) as [I1 I2].
  pose proof (f_mono (i + 1) (k + 1) ltac:(lia) ltac:(lia)) as M1. fold pk1 in M1.
  rewrite (mrdz_vf L' _ (pk1 + (i - ibc))) by lia. cbn [mbind].
  rewrite (mrdz_zf ptr _ (i + 1)) by lia. cbn [mbind].
  rewrite (mrdz_zf ptr _ i) by lia. cbn [mbind].
  set (pi0 := pget ptr i) in *. set (pi1 := pget ptr (i + 1)) in *.
  replace (zn i - zn pi1 + zn pi0)%Z with (zn (i + pi0 - pi1)) by lia.
  set (jbc := i + pi0 - pi1) in *.
  rewrite (k_dot_sub_ok L' U _ _ _ (pk1 + Nat.max jbc ibc - ibc) (pi0 + Nat.max jbc ibc - jbc) (i - Nat.max jbc ibc)) by lia.
  cbn [mbind].
  rewrite (mwrz_vf L' _ (pk1 + (i - ibc))) by lia.
  split; [reflexivity|]. rewrite lset_length. exact HL'.
Qed.

Definition Pf (a : vec * vec * vec) : Prop :=
  length (fst (fst a)) = nz /\ length (snd (fst a)) = nz /\ length (snd a) = n.
Definition Pfo (o : option (vec * vec * vec)) : Prop := match o with None => True | Some a => Pf a end.

Lemma k_crout_step_ok a k : k + 1 < n -> Pf a ->
  k_crout_step mptr k (R3 a) = Done (option_map R3 (crout_step ptr k a)) /\ Pfo (crout_step ptr k a).
Proof.
  intros Hk Ha. destruct a as [[L U] D]. destruct Ha as (HL & HU & HD). cbn [fst snd] in *.
  unfold k_crout_step, crout_step, R3, mptr. cbn [fst snd].
  pose proof f_len as Hlen.
  rewrite !mrd_zf by lia. cbn [mbind].
  pose proof (f_gap (k + 1) Hk) as [G1 G2]. replace (k + 1 + 1) with (k + 2) in * by lia.
  pose proof (f_mono (k + 2) n ltac:(lia) ltac:(lia)) as M2. fold nz in M2.
  set (pk1 := pget ptr (k + 1)) in *. set (pk2 := pget ptr (k + 2)) in *.
  set (U1 := if Nat.eqb (pk1 + k + 1) pk2 then lset U pk1 (vget D 0 * vget U pk1)%S else U).
  assert (E1 : (if (zn pk1 + zn k + 1 =? zn pk2)%Z
                then d0 <-- mrd (filled D) 0 ;; u <-- mrdz (filled U) (zn pk1) ;; mwrz (filled U) (zn pk1) (d0 * u)%S
                else Done (filled U)) = Done (filled U1) /\ length U1 = nz).
  { unfold U1. destruct (Z.eqb_spec (zn pk1 + zn k + 1) (zn pk2)), (Nat.eqb_spec (pk1 + k + 1) pk2); try lia.
    - rewrite mrd_vf by lia. cbn [mbind].
      rewrite (mrdz_vf U _ pk1) by lia. cbn [mbind].
      rewrite (mwrz_vf U _ pk1) by lia. split; [reflexivity|]. rewrite lset_length. exact HU.
    - split; [reflexivity|exact HU]. }
  destruct E1 as [E1 HU1]. rewrite E1. cbn [mbind].
  destruct (k_U_col_ok L D U1 k Hk HL HD HU1) as [E2 HU2]. fold mptr. rewrite E2. cbn [mbind].
  destruct (k_L_row_ok (crout_U_col ptr L D k U1) L k Hk HU2 HL) as [E3 HL2]. rewrite E3. cbn [mbind].
  rewrite mrd_vf by lia. cbn [mbind].
  rewrite (k_dot_sub_ok _ _ _ _ _ pk1 pk1 (pk2 - pk1)) by lia. cbn [mbind].
  fold U1.
  destruct (is_zero _); [split; [reflexivity|exact I]|].
  rewrite mwr_lset by lia. cbn [mbind option_map].
  split; [reflexivity|]. unfold Pfo, Pf. cbn [fst snd]. rewrite lset_length. repeat split; assumption.
Qed.

Lemma k_factorize_ok a : 0 < n -> Pf a ->
  k_factorize n mptr (R3 a) = Done (option_map R3 (factorize n ptr a)) /\ Pfo (factorize n ptr a).
Proof.
  intros Hn Ha. destruct a as [[L U] D]. destruct Ha as (HL & HU & HD). cbn [fst snd] in *.
  unfold k_factorize, factorize, R3. cbn [fst snd].
  rewrite !mrd_vf by lia. cbn [mbind].
  destruct (is_zero (vget D 0)); [split; [reflexivity|exact I]|].
  rewrite mwr_lset by lia. cbn [mbind].
  replace (Z.to_nat (zn n - 1)) with (n - 1) by lia.
  change (Some (filled L, filled U, filled (lset D 0 (sinv (vget D 0)))))
    with (option_map R3 (Some (L, U, lset D 0 (sinv (vget D 0))))).
  apply (mfor_sim (option_map R3) (fun _ o => Pfo o)).
  - unfold Pfo, Pf. cbn [fst snd]. rewrite lset_length. repeat split; assumption.
  - intros k o Hk Ho. destruct o as [a|]; [|split; [reflexivity|exact I]].
    cbn [option_map]. apply k_crout_step_ok; [lia|exact Ho].
Qed.

End Factor.

(* ------------------------------------------------------------------ operator() *)
Section Solve.
Variable f : skyline S.
Variables rhs : vec.
Let n := sk_n f.
Let ptr := sk_ptr f.
Let nz := pget ptr n.
Hypothesis Hwf : profile_wf (sk_n f) (sk_ptr f).
Hypothesis HL : length (sk_L f) = pget (sk_ptr f) (sk_n f).
Hypothesis HU : length (sk_U f) = pget (sk_ptr f) (sk_n f).
Hypothesis HD : length (sk_D f) = sk_n f.
Hypothesis Hpl : length (sk_perm f) = sk_n f.
Hypothesis Hrhs : forall i, i < sk_n f -> pget (sk_perm f) i < length rhs.

Lemma k_fwd_sum_ok (y : vec) i s : i < n -> length y = n ->
  k_fwd_sum (filled (sk_L f)) (filled y) (zn (pget ptr i)) (zn (pget ptr (i + 1))) i s
  = Done (for_loop (pget ptr i) (pget ptr (i + 1) - pget ptr i)
            (fun k s => (s - vget (sk_L f) k * vget y (i + k - pget ptr (i + 1))%nat)%S) s).
Proof.
  intros Hi Hy. unfold k_fwd_sum. cbv zeta.
  pose proof (f_gap n ptr Hwf i Hi) as [G1 G2].
  pose proof (f_mono n ptr Hwf (i + 1) n ltac:(lia) ltac:(lia)) as M. fold nz in M.
  set (p0 := pget ptr i) in *. set (p1 := pget ptr (i + 1)) in *.
  replace (Z.to_nat (zn p1 - zn p0)) with (p1 - p0) by lia.
  rewrite (for_loop_shift p0). unfold for_loop.
  apply (mfor_inv (fun _ _ => True)); [exact I|].
  intros t x Ht _. split; [|exact I].
  rewrite (mrdz_vf (sk_L f) _ (p0 + t)) by (fold n ptr nz in HL; lia). cbn [mbind].
  rewrite (mrdz_vf y _ (i + (p0 + t) - p1)) by lia. reflexivity.
Qed.

Lemma k_forward_ok (y : vec) : length y = n ->
  k_forward n (filled (sk_perm f)) (zfilled ptr) (filled (sk_L f)) (filled (sk_D f)) rhs (filled y)
  = Done (filled (sky_forward f rhs y)).
Proof.
  intro Hy. unfold k_forward, sky_forward. fold n ptr.
  apply (mfor_sim (@filled S) (fun _ (y : vec) => length y = n)); [exact Hy|].
  intros i y' Hi Hy'. cbv zeta.
  pose proof (f_len n ptr Hwf) as Hlen.
  rewrite mrd_pget by (fold n in Hpl; lia). cbn [mbind].
  rewrite ird_vf by (apply Hrhs; fold n; lia). cbn [mbind].
  rewrite !mrd_zf by lia. cbn [mbind].
  rewrite k_fwd_sum_ok by (try lia; exact Hy'). cbn [mbind].
  rewrite mrd_vf by (fold n in HD; lia). cbn [mbind].
  rewrite mwr_lset by lia. split; [reflexivity|]. rewrite lset_length. exact Hy'.
Qed.

Lemma k_bwd_col_ok (y : vec) j : j < n -> length y = n ->
  k_bwd_col (filled (sk_U f)) (zn (pget ptr j)) (zn (pget ptr (j + 1))) (zn j) (filled y)
  = Done (filled (for_loop (pget ptr j) (pget ptr (j + 1) - pget ptr j)
            (fun k y => let i := j + k - pget ptr (j + 1) in
                        lset y i (vget y i - vget (sk_U f) k * vget y j)%S) y)) /\
    length (for_loop (pget ptr j) (pget ptr (j + 1) - pget ptr j)
            (fun k y => let i := j + k - pget ptr (j + 1) in
                        lset y i (vget y i - vget (sk_U f) k * vget y j)%S) y) = n.
Proof.
  intros Hj Hy. unfold k_bwd_col. cbv zeta.
  pose proof (f_gap n ptr Hwf j Hj) as [G1 G2].
  pose proof (f_mono n ptr Hwf (j + 1) n ltac:(lia) ltac:(lia)) as M. fold nz in M.
  set (p0 := pget ptr j) in *. set (p1 := pget ptr (j + 1)) in *.
  replace (Z.to_nat (zn p1 - zn p0)) with (p1 - p0) by lia.
  rewrite (for_loop_shift p0).
  apply (mfor_sim (@filled S) (fun _ (y : vec) => length y = n)); [exact Hy|].
  intros t y' Ht Hy'.
  rewrite (mrdz_vf y' _ (j + (p0 + t) - p1)) by lia. cbn [mbind].
  rewrite (mrdz_vf (sk_U f) _ (p0 + t)) by (fold n ptr nz in HU; lia). cbn [mbind].
  rewrite (mrdz_vf y' _ j) by lia. cbn [mbind].
  rewrite (mwrz_vf y' _ (j + (p0 + t) - p1)) by lia.
  split; [reflexivity|]. rewrite lset_length. exact Hy'.
Qed.

Lemma k_backward_ok (y : vec) : length y = n ->
  k_backward n (zfilled ptr) (filled (sk_U f)) (filled y) = Done (filled (sky_backward f y)).
Proof.
  intro Hy. unfold k_backward, sky_backward. fold n ptr. rewrite for_down_up.
  apply (mfor_sim (@filled S) (fun _ (y : vec) => length y = n)); [exact Hy|].
  intros t y' Ht Hy'. cbv zeta.
  pose proof (f_len n ptr Hwf) as Hlen.
  replace (zn n - 1 - zn t)%Z with (zn (n - 1 - t)) by lia.
  set (j := n - 1 - t) in *.
  rewrite (mrdz_zf ptr _ j) by lia. cbn [mbind].
  rewrite (mrdz_zf ptr _ (j + 1)) by lia. cbn [mbind].
  apply k_bwd_col_ok; [lia|exact Hy'].
Qed.

Lemma k_scatter_ok (y x : vec) : length y = n -> (forall i, i < n -> pget (sk_perm f) i < length x) ->
  k_scatter n (filled (sk_perm f)) (filled y) (filled x) = Done (filled (sky_scatter f y x)).
Proof.
  intros Hy Hx. unfold k_scatter, sky_scatter. fold n.
  apply (mfor_sim (@filled S) (fun _ (x' : vec) => length x' = length x)); [reflexivity|].
  intros i x' Hi Hx'.
  rewrite mrd_pget by (fold n in Hpl; lia). cbn [mbind].
  rewrite mrd_vf by lia. cbn [mbind].
  rewrite mwr_lset by (rewrite Hx'; apply Hx; lia). split; [reflexivity|]. rewrite lset_length. exact Hx'.
Qed.

Theorem ll_sky_solve_ok_aux (x y : vec) :
  length y = n -> (forall i, i < n -> pget (sk_perm f) i < length x) ->
  ll_sky_solve n (filled (sk_perm f)) (zfilled ptr) (filled (sk_L f)) (filled (sk_U f)) (filled (sk_D f))
               rhs (filled x) (filled y)
  = Done (filled (fst (sky_solve f rhs x y)), filled (snd (sky_solve f rhs x y))).
Proof.
  intros Hy Hx. unfold ll_sky_solve, sky_solve. cbn [fst snd].
  rewrite (k_forward_ok y Hy). cbn [mbind].
  rewrite k_backward_ok by (rewrite sky_forward_length; exact Hy). cbn [mbind].
  rewrite k_scatter_ok; [reflexivity| |exact Hx].
  rewrite sky_backward_length, sky_forward_length. exact Hy.
Qed.

End Solve.

Definition sky_out_of (r : sky_result S) : sky_out S :=
  match r with
  | SkyOk f => KOk (filled (sk_perm f)) (zfilled (sk_ptr f)) (filled (sk_L f)) (filled (sk_U f)) (filled (sk_D f))
  | SkyZeroPivot => KThrow
  | SkyOrdering _ => KThrow
  end.

(* ------------------------------------------------------------------ the constructor *)
Section Build.
Variable A : crs.
Variable perm : list nat.
Let n := nrows A.
Let F := flat_of A.
Hypothesis HA : wf A = true.
Hypothesis Hsq : ncols A <= nrows A.
Hypothesis Hn : 0 < nrows A.
Hypothesis Hpl : length perm = nrows A.
Hypothesis Hpr : forall i, i < nrows A -> pget perm i < nrows A.

Let ip := inverse_perm n perm.
Lemma ip_len : length ip = n.
Proof. apply inverse_perm_ok. Qed.
Lemma ip_lt j : pget ip j < n.
Proof. apply inverse_perm_ok. exact Hn. Qed.
Lemma entry_lt i e : i < n -> In e (nth i (rows A) []) -> fst e < n.
Proof.
  intros Hi Hin. pose proof (row_wf_nth (ncols A) (rows A) i HA) as Hr.
  apply row_wf_iff in Hr. rewrite Forall_forall in Hr. specialize (Hr e Hin). unfold n. lia.
Qed.

(* ---- stage 2: first traversal *)
Definition hh_entry (mip : marr nat) (i : nat) (e : nat * S) (ptr : marr Z) : mres (marr Z) :=
  ni <-- mrd mip i ;;
  nj <-- mrd mip (fst e) ;;
  let newi := zn ni in
  let newj := zn nj in
  if negb (is_zero (snd e)) then
    if (newi >? newj)%Z then
      p <-- mrdz ptr newi ;;
      if (p <? newi - newj)%Z then mwrz ptr newi (newi - newj)%Z else Done ptr
    else if (newi <? newj)%Z then
      p <-- mrdz ptr newj ;;
      if (p <? newj - newi)%Z then mwrz ptr newj (newj - newi)%Z else Done ptr
    else Done ptr
  else Done ptr.

Lemma k_heights_row mip i st : i < n ->
  row_loop (fptr F) i (k_height_entry F mip i) st = mfoldl (hh_entry mip i) (nth i (rows A) []) st.
Proof.
  intro Hi. apply row_loop_flat; [exact Hi|].
  intros j s c v H1 H2. unfold k_height_entry, hh_entry, F. rewrite H1, H2. reflexivity.
Qed.

Lemma hh_entry_ok i e h : i < n -> fst e < n -> length h = Datatypes.S n ->
  hh_entry (filled ip) i e (zfilled h) = Done (zfilled (profile_entry ip i h e)) /\
  length (profile_entry ip i h e) = Datatypes.S n.
Proof.
  intros Hi He Hh. unfold hh_entry, profile_entry.
  rewrite !mrd_pget by (rewrite ip_len; assumption). cbn [mbind].
  pose proof (ip_lt i) as Li. pose proof (ip_lt (fst e)) as Lj.
  set (ni := pget ip i) in *. set (nj := pget ip (fst e)) in *.
  destruct (negb (is_zero (snd e))); [|split; [reflexivity|exact Hh]].
  rewrite Z.gtb_ltb.
  destruct (Z.ltb_spec (zn nj) (zn ni)), (Nat.ltb_spec nj ni); try lia.
  - rewrite (mrdz_zf h (zn ni) ni eq_refl) by lia. cbn [mbind].
    destruct (Z.ltb_spec (zn (pget h ni)) (zn ni - zn nj)), (Nat.ltb_spec (pget h ni) (ni - nj)); try lia.
    + rewrite (mwrz_zf h (zn ni) ni _ (ni - nj)) by lia. split; [reflexivity|]. rewrite lset_length. exact Hh.
    + split; [reflexivity|exact Hh].
  - destruct (Z.ltb_spec (zn ni) (zn nj)), (Nat.ltb_spec ni nj); try lia; [|split; [reflexivity|exact Hh]].
    rewrite (mrdz_zf h (zn nj) nj eq_refl) by lia. cbn [mbind].
    destruct (Z.ltb_spec (zn (pget h nj)) (zn nj - zn ni)), (Nat.ltb_spec (pget h nj) (nj - ni)); try lia.
    + rewrite (mwrz_zf h (zn nj) nj _ (nj - ni)) by lia. split; [reflexivity|]. rewrite lset_length. exact Hh.
    + split; [reflexivity|exact Hh].
Qed.

Let hts := profile_heights n ip A.

Lemma k_heights_ok :
  k_heights F (filled ip) (filled (repeat 0%Z (n + 1))) = Done (zfilled hts).
Proof.
  unfold k_heights, hts, profile_heights.
  replace (filled (repeat 0%Z (n + 1))) with (zfilled (repeat 0 (Datatypes.S n))).
  2:{ unfold zfilled. rewrite map_repeat_k. rewrite Nat.add_1_r. reflexivity. }
  change (fn F) with n.
  apply (mfor_sim zfilled (fun _ h => length h = Datatypes.S n)).
  - apply repeat_length.
  - intros i h Hi Hh. rewrite k_heights_row by lia.
    apply (mfoldl_sim zfilled (fun h => length h = Datatypes.S n)); [exact Hh|].
    intros e h' He Hh'. apply hh_entry_ok; [lia| |exact Hh']. apply (entry_lt i); [lia|exact He].
Qed.

(* ---- stage 3: the transform loop *)
Lemma k_ptr_transform_ok h : length h = Datatypes.S n ->
  k_ptr_transform n (zfilled h) = Done (zfilled (profile_ptr n h)).
Proof.
  intro Hh. unfold k_ptr_transform, profile_ptr.
  pose (R := fun pl : list nat * nat => (zfilled (fst pl), zn (snd pl))).
  change (zfilled h, 0%Z) with (R (h, 0)).
  destruct (mfor_sim R (fun _ pl => length (fst pl) = Datatypes.S n)
     (fun i (st : marr Z * Z) =>
          tmp <-- mrd (fst st) i ;;
          prev <-- mrdz (fst st) (zn i - 1)%Z ;;
          ptr' <-- mwr (fst st) i (prev + snd st)%Z ;;
          Done (ptr', tmp))
     (fun i (pl : list nat * nat) =>
                       let tmp := pget (fst pl) i in
                       (lset (fst pl) i (pget (fst pl) (i - 1) + snd pl), tmp)) n 1 (h, 0) Hh) as [E _].
  - intros i [p l] Hi Hp. cbn [fst snd R] in *.
    rewrite mrd_zf by lia. cbn [mbind].
    rewrite (mrdz_zf p _ (i - 1)) by lia. cbn [mbind].
    rewrite (mwr_zf p i _ (pget p (i - 1) + l)) by lia. cbn [mbind].
    split; [reflexivity|]. rewrite lset_length. exact Hp.
  - rewrite E. reflexivity.
Qed.


(* ---- stage 4: second traversal *)
Let ptr := profile_ptr n hts.
Let nz := pget ptr n.

Lemma hts_ok : heights_ok n hts.
Proof. apply profile_heights_ok. Qed.
Lemma ptr_wf : profile_wf n ptr.
Proof. apply profile_ptr_wf. exact hts_ok. Qed.
Lemma ptr_len : length ptr = Datatypes.S n.
Proof. apply ptr_wf. Qed.
Lemma ptr_gap j : j < n -> pget ptr (Datatypes.S j) = pget ptr j + pget hts j.
Proof.
  intro Hj. unfold ptr. rewrite (profile_ptr_gap n hts (proj1 hts_ok) j Hj).
  destruct (Nat.eqb_spec j 0) as [->|]; [|reflexivity]. pose proof (proj2 hts_ok 0). lia.
Qed.

(* the heights found by the first traversal cover every entry the second traversal stores *)
Definition covers (h : list nat) (i : nat) (e : nat * S) : Prop :=
  is_zero (snd e) = false ->
  (pget ip (fst e) < pget ip i -> pget ip i - pget ip (fst e) <= pget h (pget ip i)) /\
  (pget ip i < pget ip (fst e) -> pget ip (fst e) - pget ip i <= pget h (pget ip (fst e))).

Lemma profile_entry_mono h i (e : nat * S) j : length h = Datatypes.S n -> pget h j <= pget (profile_entry ip i h e) j.
Proof.
  intro Hh. unfold profile_entry.
  pose proof (ip_lt i) as Li. pose proof (ip_lt (fst e)) as Lj.
  set (ni := pget ip i) in *. set (nj := pget ip (fst e)) in *.
  destruct (negb (is_zero (snd e))); [|lia].
  destruct (Nat.ltb_spec nj ni).
  - destruct (Nat.ltb_spec (pget h ni) (ni - nj)); [|lia]. rewrite pget_lset.
    destruct (Nat.eqb_spec ni j) as [<-|]; [|lia]. destruct (Nat.ltb_spec ni (length h)); lia.
  - destruct (Nat.ltb_spec ni nj); [|lia].
    destruct (Nat.ltb_spec (pget h nj) (nj - ni)); [|lia]. rewrite pget_lset.
    destruct (Nat.eqb_spec nj j) as [<-|]; [|lia]. destruct (Nat.ltb_spec nj (length h)); lia.
Qed.

Lemma profile_entry_covers h i (e : nat * S) : length h = Datatypes.S n -> covers (profile_entry ip i h e) i e.
Proof.
  intros Hh Hz. unfold profile_entry. rewrite Hz. cbn [negb].
  pose proof (ip_lt i) as Li. pose proof (ip_lt (fst e)) as Lj.
  set (ni := pget ip i) in *. set (nj := pget ip (fst e)) in *.
  destruct (Nat.ltb_spec nj ni).
  - split; [|lia]. intros _.
    destruct (Nat.ltb_spec (pget h ni) (ni - nj)); [|lia]. rewrite pget_lset, Nat.eqb_refl.
    destruct (Nat.ltb_spec ni (length h)); lia.
  - split; [lia|]. intro Hlt. destruct (Nat.ltb_spec ni nj); [|lia].
    destruct (Nat.ltb_spec (pget h nj) (nj - ni)); [|lia]. rewrite pget_lset, Nat.eqb_refl.
    destruct (Nat.ltb_spec nj (length h)); lia.
Qed.

Lemma covers_mono h h' i e : (forall j, pget h j <= pget h' j) -> covers h i e -> covers h' i e.
Proof.
  intros Hm Hc Hz. destruct (Hc Hz) as [C1 C2]. split; intro Hlt.
  - specialize (C1 Hlt). specialize (Hm (pget ip i)). lia.
  - specialize (C2 Hlt). specialize (Hm (pget ip (fst e))). lia.
Qed.

Lemma fold_covers i : forall (r : list (nat * S)) h, length h = Datatypes.S n ->
  length (fold_left (profile_entry ip i) r h) = Datatypes.S n /\
  (forall j, pget h j <= pget (fold_left (profile_entry ip i) r h) j) /\
  (forall e, In e r -> covers (fold_left (profile_entry ip i) r h) i e).
Proof.
  induction r as [|e r IH]; intros h Hh; cbn [fold_left].
  - split; [exact Hh|]. split; [intro; lia|intros e []].
  - assert (Hh1 : length (profile_entry ip i h e) = Datatypes.S n).
    { unfold profile_entry. repeat match goal with |- context [if ?b then _ else _] => destruct b end;
        rewrite ?lset_length; exact Hh. }
    destruct (IH _ Hh1) as (I1 & I2 & I3). split; [exact I1|]. split.
    + intro j. pose proof (profile_entry_mono h i e j Hh). specialize (I2 j). lia.
    + intros e' [<-|Hin]; [|apply I3; exact Hin].
      apply (covers_mono (profile_entry ip i h e)); [exact I2|]. apply profile_entry_covers. exact Hh.
Qed.

Lemma hts_covers : forall i e, i < n -> In e (nth i (rows A) []) -> covers hts i e.
Proof.
  pose (Q := fun k (h : list nat) => length h = Datatypes.S n /\
     forall i, i < k -> forall e, In e (nth i (rows A) []) -> covers h i e).
  assert (H : Q (0 + n) hts).
  { unfold hts, profile_heights. apply (for_loop_inv Q).
    - split; [apply repeat_length|]. intros; lia.
    - intros k h Hk [Hh Hc]. destruct (fold_covers k (nth k (rows A) []) h Hh) as (I1 & I2 & I3).
      split; [exact I1|]. intros i Hi e He. destruct (Nat.eq_dec i k) as [->|Hne]; [apply I3; exact He|].
      apply (covers_mono h); [exact I2|]. apply Hc; [lia|exact He]. }
  intros i e Hi He. apply (proj2 H i); [lia|exact He].
Qed.

Definition hf_entry (mip : marr nat) (mptr : marr Z) (i : nat) (e : nat * S) (st : marr S * marr S * marr S)
  : mres (marr S * marr S * marr S) :=
  let '(L, U, D) := st in
  ni <-- mrd mip i ;;
  nj <-- mrd mip (fst e) ;;
  let newi := zn ni in
  let newj := zn nj in
  if negb (is_zero (snd e)) then
    if (newi <? newj)%Z then
      p <-- mrdz mptr (newj + 1)%Z ;;
      U' <-- mwrz U (p + newi - newj)%Z (snd e) ;;
      Done (L, U', D)
    else if (newi =? newj)%Z then
      D' <-- mwrz D newi (snd e) ;;
      Done (L, U, D')
    else
      p <-- mrdz mptr (newi + 1)%Z ;;
      L' <-- mwrz L (p + newj - newi)%Z (snd e) ;;
      Done (L', U, D)
  else Done st.

Lemma k_fill_row mip mptr i st : i < n ->
  row_loop (fptr F) i (k_fill_entry F mip mptr i) st = mfoldl (hf_entry mip mptr i) (nth i (rows A) []) st.
Proof.
  intro Hi. apply row_loop_flat; [exact Hi|].
  intros j s c v H1 H2. unfold k_fill_entry, hf_entry, F. destruct s as [[L U] D]. rewrite H1, H2. reflexivity.
Qed.

Definition P3 (a : vec * vec * vec) : Prop :=
  length (fst (fst a)) = nz /\ length (snd (fst a)) = nz /\ length (snd a) = n.

Lemma hf_entry_ok i e a : i < n -> In e (nth i (rows A) []) -> P3 a ->
  hf_entry (filled ip) (zfilled ptr) i e (R3 a) = Done (R3 (fill_entry ip ptr i a e)) /\
  P3 (fill_entry ip ptr i a e).
Proof.
  intros Hi He HP. destruct a as [[L U] D]. destruct HP as (HL & HU & HD). cbn [fst snd] in *.
  pose proof (entry_lt i e Hi He) as Hc. pose proof (hts_covers i e Hi He) as Hcov.
  unfold hf_entry, fill_entry, R3, covers in *. cbn [fst snd].
  rewrite !mrd_pget by (rewrite ip_len; assumption). cbn [mbind].
  pose proof (ip_lt i) as Li. pose proof (ip_lt (fst e)) as Lj.
  set (ni := pget ip i) in *. set (nj := pget ip (fst e)) in *.
  pose proof ptr_len as Hpl'.
  destruct (is_zero (snd e)); cbn [negb]; [split; [reflexivity|repeat split; assumption]|].
  destruct (Hcov eq_refl) as [C1 C2].
  destruct (Z.ltb_spec (zn ni) (zn nj)), (Nat.ltb_spec ni nj); try lia.
  - pose proof (ptr_gap nj Lj) as G. pose proof (wf_mono n ptr ptr_wf (Datatypes.S nj) n ltac:(lia) ltac:(lia)) as M.
    specialize (C2 ltac:(lia)). fold nz in M.
    rewrite (mrdz_zf ptr _ (Datatypes.S nj)) by lia. cbn [mbind].
    rewrite (mwrz_vf U _ (pget ptr (Datatypes.S nj) + ni - nj)) by lia. cbn [mbind].
    split; [reflexivity|]. unfold P3. cbn [fst snd]. rewrite lset_length. repeat split; assumption.
  - destruct (Z.eqb_spec (zn ni) (zn nj)), (Nat.eqb_spec ni nj); try lia.
    + rewrite (mwrz_vf D _ ni) by lia. cbn [mbind].
      split; [reflexivity|]. unfold P3. cbn [fst snd]. rewrite lset_length. repeat split; assumption.
    + pose proof (ptr_gap ni Li) as G. pose proof (wf_mono n ptr ptr_wf (Datatypes.S ni) n ltac:(lia) ltac:(lia)) as M.
      specialize (C1 ltac:(lia)). fold nz in M.
      rewrite (mrdz_zf ptr _ (Datatypes.S ni)) by lia. cbn [mbind].
      rewrite (mwrz_vf L _ (pget ptr (Datatypes.S ni) + nj - ni)) by lia. cbn [mbind].
      split; [reflexivity|]. unfold P3. cbn [fst snd]. rewrite lset_length. repeat split; assumption.
Qed.

Lemma k_fill_ok :
  k_fill F (filled ip) (zfilled ptr) (filled (repeat s0 nz), filled (repeat s0 nz), filled (repeat s0 n))
  = Done (R3 (fill n ip ptr A)) /\ P3 (fill n ip ptr A).
Proof.
  unfold k_fill, fill. fold nz. change (fn F) with n.
  change (filled (repeat s0 nz), filled (repeat s0 nz), filled (repeat s0 n))
    with (R3 (repeat s0 nz, repeat s0 nz, repeat s0 n)).
  destruct (mfor_sim R3 (fun _ a => P3 a)
     (fun i st => row_loop (fptr F) i (k_fill_entry F (filled ip) (zfilled ptr) i) st)
     (fun i lud => fold_left (fill_entry ip ptr i) (nth i (rows A) []) lud) n 0
     (repeat s0 nz, repeat s0 nz, repeat s0 n)) as [E HP].
  - unfold P3. cbn [fst snd]. rewrite !repeat_length. repeat split.
  - intros i a Hi Ha. rewrite k_fill_row by lia.
    apply (mfoldl_sim R3 P3); [exact Ha|].
    intros e a' He Ha'. apply hf_entry_ok; [lia|exact He|exact Ha'].
  - split; [exact E|exact HP].
Qed.


(* ---- the constructor *)
Theorem ll_sky_build_ok_aux : ll_sky_build F perm = Done (sky_out_of (sky_build_perm A perm)).
Proof.
  unfold ll_sky_build, sky_build_perm. cbv zeta. change (fn F) with n. fold n. fold ip. fold hts. fold ptr.
  rewrite (k_invperm_ok n perm Hpl Hpr). cbn [mbind]. fold ip.
  rewrite k_heights_ok. cbn [mbind].
  rewrite (k_ptr_transform_ok hts (proj1 hts_ok)). cbn [mbind]. fold ptr.
  rewrite mrd_zf by (rewrite ptr_len; lia). cbn [mbind]. fold nz.
  destruct (Z.ltb_spec (zn nz) 0); [lia|]. rewrite Nat2Z.id.
  destruct k_fill_ok as [E4 HP]. rewrite E4. cbn [mbind].
  destruct (k_factorize_ok n ptr ptr_wf (fill n ip ptr A) Hn HP) as [E5 _]. rewrite E5. cbn [mbind].
  destruct (factorize n ptr (fill n ip ptr A)) as [[[L U] D]|]; reflexivity.
Qed.

(* the object built by the constructor satisfies the hypotheses of the solve theorem *)
Lemma sky_build_shape_aux f : sky_build_perm A perm = SkyOk f ->
  sk_n f = nrows A /\ sk_perm f = perm /\ profile_wf (sk_n f) (sk_ptr f) /\
  length (sk_L f) = pget (sk_ptr f) (sk_n f) /\ length (sk_U f) = pget (sk_ptr f) (sk_n f) /\
  length (sk_D f) = sk_n f.
Proof.
  unfold sky_build_perm. cbv zeta. fold n. fold ip. fold hts. fold ptr. intro H.
  destruct k_fill_ok as [_ HP].
  destruct (k_factorize_ok n ptr ptr_wf (fill n ip ptr A) Hn HP) as [_ HF].
  destruct (factorize n ptr (fill n ip ptr A)) as [[[L U] D]|]; [|discriminate].
  injection H as <-. cbn [sk_n sk_perm sk_ptr sk_L sk_U sk_D]. destruct HF as (H1 & H2 & H3).
  split; [reflexivity|]. split; [reflexivity|]. split; [exact ptr_wf|].
  split; [exact H1|]. split; [exact H2|exact H3].
Qed.

End Build.
End Proofs.

(* ------------------------------------------------------------------ the theorems *)
(* 1. the constructor (after ordering::get): on a well-formed matrix with at least one row and no
   more columns than rows, and a perm(n) whose entries are < n (it need not be a permutation for
   this), every access is inside its array and the members are exactly those of Direct.v *)
Theorem ll_sky_build_ok {S : Scalar} (A : crs S) (perm : list nat) :
  wf A = true -> ncols A <= nrows A -> 0 < nrows A ->
  length perm = nrows A -> (forall i, i < nrows A -> pget perm i < nrows A) ->
  ll_sky_build (flat_of A) perm = Done (sky_out_of (sky_build_perm A perm)).
Proof. intros. apply ll_sky_build_ok_aux; assumption. Qed.

Corollary ll_sky_build_safe {S : Scalar} (A : crs S) (perm : list nat) :
  wf A = true -> ncols A <= nrows A -> 0 < nrows A ->
  length perm = nrows A -> (forall i, i < nrows A -> pget perm i < nrows A) ->
  ll_sky_build (flat_of A) perm <> OutOfBounds /\ ll_sky_build (flat_of A) perm <> UninitRead /\
  ll_sky_build (flat_of A) perm <> OutOfFuel.
Proof. intros. eapply done_safe. apply ll_sky_build_ok; assumption. Qed.

Theorem sky_build_shape {S : Scalar} (A : crs S) (perm : list nat) f :
  wf A = true -> ncols A <= nrows A -> 0 < nrows A -> length perm = nrows A ->
  sky_build_perm A perm = SkyOk f ->
  sk_n f = nrows A /\ sk_perm f = perm /\ profile_wf (sk_n f) (sk_ptr f) /\
  length (sk_L f) = pget (sk_ptr f) (sk_n f) /\ length (sk_U f) = pget (sk_ptr f) (sk_n f) /\
  length (sk_D f) = sk_n f.
Proof. intros. apply sky_build_shape_aux; assumption. Qed.

(* 2. operator()(rhs, x) *)
Theorem ll_sky_solve_ok {S : Scalar} (f : skyline S) (rhs x y : vec S) :
  profile_wf (sk_n f) (sk_ptr f) ->
  length (sk_L f) = pget (sk_ptr f) (sk_n f) -> length (sk_U f) = pget (sk_ptr f) (sk_n f) ->
  length (sk_D f) = sk_n f -> length (sk_perm f) = sk_n f -> length y = sk_n f ->
  (forall i, i < sk_n f -> pget (sk_perm f) i < length rhs) ->
  (forall i, i < sk_n f -> pget (sk_perm f) i < length x) ->
  ll_sky_solve (sk_n f) (filled (sk_perm f)) (zfilled (sk_ptr f))
               (filled (sk_L f)) (filled (sk_U f)) (filled (sk_D f)) rhs (filled x) (filled y)
  = Done (filled (fst (sky_solve f rhs x y)), filled (snd (sky_solve f rhs x y))).
Proof. intros. apply ll_sky_solve_ok_aux; assumption. Qed.

(* constructor, then any number of calls: the object returned by the constructor satisfies the hypotheses
   of the solve theorem, and the scratch vector keeps its length (sky_solve_scratch_length) *)
Corollary ll_sky_build_solve_ok {S : Scalar} (A : crs S) (perm : list nat) f (rhs x y : vec S) :
  wf A = true -> ncols A <= nrows A -> 0 < nrows A ->
  length perm = nrows A -> (forall i, i < nrows A -> pget perm i < nrows A) ->
  sky_build_perm A perm = SkyOk f ->
  length rhs = nrows A -> length x = nrows A -> length y = nrows A ->
  ll_sky_solve (sk_n f) (filled (sk_perm f)) (zfilled (sk_ptr f))
               (filled (sk_L f)) (filled (sk_U f)) (filled (sk_D f)) rhs (filled x) (filled y)
  = Done (filled (fst (sky_solve f rhs x y)), filled (snd (sky_solve f rhs x y))).
Proof.
  intros HA Hsq Hn Hpl Hpr Hb Hr Hx Hy.
  destruct (sky_build_shape A perm f HA Hsq Hn Hpl Hb) as (E1 & E2 & Hwf & HL & HU & HD).
  apply ll_sky_solve_ok; try assumption; rewrite ?E1, ?E2, ?Hr, ?Hx; assumption.
Qed.

(* ------------------------------------------------------------------ 3. closed instances (exact rationals) *)
(* decidable comparison of outcomes (the normal form of a canonical rational carries an opaque proof
   term: outcomes are compared with seqb, which decides equality on QcS, then turned into equalities) *)
Fixpoint list_eqb {X} (e : X -> X -> bool) (a b : list X) : bool :=
  match a, b with
  | [], [] => true
  | x :: a', y :: b' => e x y && list_eqb e a' b'
  | _, _ => false
  end.
Definition opt_eqb {X} (e : X -> X -> bool) (a b : option X) : bool :=
  match a, b with Some x, Some y => e x y | None, None => true | _, _ => false end.
Definition marr_eqb {X} (e : X -> X -> bool) (a b : marr X) : bool := list_eqb (opt_eqb e) a b.
Definition out_eqb {S : Scalar} (a b : sky_out S) : bool :=
  match a, b with
  | KOk p1 t1 l1 u1 d1, KOk p2 t2 l2 u2 d2 =>
      marr_eqb Nat.eqb p1 p2 && marr_eqb Z.eqb t1 t2 && marr_eqb seqb l1 l2 && marr_eqb seqb u1 u2
      && marr_eqb seqb d1 d2
  | KThrow, KThrow => true
  | _, _ => false
  end.
Definition pair_eqb {X Y} (e1 : X -> X -> bool) (e2 : Y -> Y -> bool) (a b : X * Y) : bool :=
  e1 (fst a) (fst b) && e2 (snd a) (snd b).
Definition mres_eqb {X} (e : X -> X -> bool) (a b : mres X) : bool :=
  match a, b with
  | Done x, Done y => e x y
  | OutOfBounds, OutOfBounds => true
  | UninitRead, UninitRead => true
  | OutOfFuel, OutOfFuel => true
  | _, _ => false
  end.

Lemma list_eqb_sound {X} (e : X -> X -> bool) : (forall x y, e x y = true -> x = y) ->
  forall a b, list_eqb e a b = true -> a = b.
Proof.
  intros He. induction a as [|x a IH]; intros [|y b] H; simpl in H; try discriminate; [reflexivity|].
  apply andb_prop in H as [H1 H2]. f_equal; [apply He; exact H1|apply IH; exact H2].
Qed.
Lemma opt_eqb_sound {X} (e : X -> X -> bool) : (forall x y, e x y = true -> x = y) ->
  forall a b, opt_eqb e a b = true -> a = b.
Proof. intros He [x|] [y|] H; simpl in H; try discriminate; [f_equal; apply He; exact H|reflexivity]. Qed.
Lemma marr_eqb_sound {X} (e : X -> X -> bool) : (forall x y, e x y = true -> x = y) ->
  forall a b : marr X, marr_eqb e a b = true -> a = b.
Proof. intros He. apply list_eqb_sound. apply opt_eqb_sound. exact He. Qed.
Lemma out_eqb_sound {S : Scalar} : seqb_spec S -> forall a b : sky_out S, out_eqb a b = true -> a = b.
Proof.
  intros Hs [p1 t1 l1 u1 d1|] [p2 t2 l2 u2 d2|] H; simpl in H; try discriminate; [|reflexivity].
  repeat (apply andb_prop in H as [H ?]).
  assert (Hq : forall x y : S, seqb x y = true -> x = y) by (intros x y; apply Hs).
  f_equal; [apply (marr_eqb_sound Nat.eqb)|apply (marr_eqb_sound Z.eqb)| | | ]; try (apply (marr_eqb_sound seqb Hq); assumption);
    try assumption; [intros x y; apply Nat.eqb_eq|intros x y; apply Z.eqb_eq].
Qed.
Lemma mres_eqb_sound {X} (e : X -> X -> bool) : (forall x y, e x y = true -> x = y) ->
  forall a b : mres X, mres_eqb e a b = true -> a = b.
Proof. intros He [x| | |] [y| | |] H; simpl in H; try discriminate; try reflexivity. f_equal. apply He. exact H. Qed.
Lemma pair_eqb_sound {X Y} (e1 : X -> X -> bool) (e2 : Y -> Y -> bool) :
  (forall x y, e1 x y = true -> x = y) -> (forall x y, e2 x y = true -> x = y) ->
  forall a b, pair_eqb e1 e2 a b = true -> a = b.
Proof.
  intros H1 H2 [a1 a2] [b1 b2] H. unfold pair_eqb in H. cbn [fst snd] in H.
  apply andb_prop in H as [Ha Hb]. f_equal; [apply H1; exact Ha|apply H2; exact Hb].
Qed.

From Amgcl Require Import QcInst.
Section Examples.
Local Open Scope Z_scope.
Local Notation q z := (qc z 1).
Ltac by_eqb := apply (mres_eqb_sound out_eqb (out_eqb_sound QcS_eqb)); vm_compute; reflexivity.

(* 1 x 1 *)
Definition ex1 : crs QcS := mkCrs 1 [[(0%nat, q 2)]].
Example ll_sky_build_ex1 :
  ll_sky_build (flat_of ex1) [0%nat]
  = Done (KOk (filled [0%nat]) (filled [0; 0]) (filled []) (filled []) (filled [qc 1 2])).
Proof. by_eqb. Qed.
Example ll_sky_build_ex1_agree :
  ll_sky_build (flat_of ex1) [0%nat] = Done (sky_out_of (sky_build_perm ex1 [0%nat])).
Proof. by_eqb. Qed.

(* diagonal 3 x 3 *)
Definition ex3 : crs QcS := mkCrs 3 [[(0%nat, q 2)]; [(1%nat, q 4)]; [(2%nat, q 5)]].
Example ll_sky_build_ex3 :
  ll_sky_build (flat_of ex3) [0; 1; 2]%nat
  = Done (KOk (filled [0; 1; 2]%nat) (filled [0; 0; 0; 0]) (filled []) (filled [])
              (filled [qc 1 2; qc 1 4; qc 1 5])).
Proof. by_eqb. Qed.
Example ll_sky_build_ex3_agree :
  ll_sky_build (flat_of ex3) [0; 1; 2]%nat = Done (sky_out_of (sky_build_perm ex3 [0; 1; 2]%nat)).
Proof. by_eqb. Qed.

(* 4 x 4, unsymmetric pattern, an explicit zero, a duplicate entry, a non-trivial permutation *)
Definition ex4 : crs QcS := mkCrs 4
  [ [(0%nat, q 4); (1%nat, q 1); (3%nat, q 2)];
    [(0%nat, q 1); (1%nat, q 5); (2%nat, q 0)];
    [(2%nat, q 6); (1%nat, q 2); (3%nat, q 1); (3%nat, q 3)];
    [(0%nat, q 1); (3%nat, q 7); (2%nat, q 1)] ].
Definition ex4_perm : list nat := [2; 0; 3; 1]%nat.
Example ll_sky_build_ex4_agree :
  ll_sky_build (flat_of ex4) ex4_perm = Done (sky_out_of (sky_build_perm ex4 ex4_perm)).
Proof. by_eqb. Qed.
(* ... and it is a proper factorisation, not a throw: the offsets *)
Example ll_sky_build_ex4_ptr :
  match ll_sky_build (flat_of ex4) ex4_perm with
  | Done (KOk _ ptr _ _ _) => marr_eqb Z.eqb ptr (filled [0; 0; 0; 2; 5])
  | _ => false
  end = true.
Proof. vm_compute. reflexivity. Qed.
(* build, then solve with junk in x and y: both models agree *)
Example ll_sky_solve_ex4_agree :
  match sky_build_perm ex4 ex4_perm with
  | SkyOk f =>
      let rhs := [q 1; q 2; q 3; q 4] in let x := [q 9; q 9; q 9; q 9] in let y := [q 7; q 7; q 7; q 7] in
      mres_eqb (pair_eqb (marr_eqb seqb) (marr_eqb seqb))
        (ll_sky_solve (sk_n f) (filled (sk_perm f)) (zfilled (sk_ptr f)) (filled (sk_L f)) (filled (sk_U f))
                      (filled (sk_D f)) rhs (filled x) (filled y))
        (Done (filled (fst (sky_solve f rhs x y)), filled (snd (sky_solve f rhs x y))))
  | _ => false
  end = true.
Proof. vm_compute. reflexivity. Qed.

(* zero pivot: the second pivot of [[1 1] [1 1]] vanishes; precondition() throws *)
Definition exz : crs QcS := mkCrs 2 [[(0%nat, q 1); (1%nat, q 1)]; [(0%nat, q 1); (1%nat, q 1)]].
Example ll_sky_build_zero_pivot : ll_sky_build (flat_of exz) [0; 1]%nat = Done KThrow.
Proof. by_eqb. Qed.
Example ll_sky_build_zero_pivot_agree :
  ll_sky_build (flat_of exz) [0; 1]%nat = Done (sky_out_of (sky_build_perm exz [0; 1]%nat)).
Proof. by_eqb. Qed.
(* no entry at (0,0): the first precondition() throws *)
Definition exz0 : crs QcS := mkCrs 2 [[(1%nat, q 1)]; [(0%nat, q 1); (1%nat, q 1)]].
Example ll_sky_build_zero_first : ll_sky_build (flat_of exz0) [0; 1]%nat = Done KThrow.
Proof. by_eqb. Qed.

(* n = 0: factorize() evaluates D[0] on the empty vector D(0) before its loop *)
Definition ex0 : crs QcS := mkCrs 0 [].
Example ll_sky_build_n0 : ll_sky_build (flat_of ex0) [] = OutOfBounds.
Proof. by_eqb. Qed.
(* the list model, whose accessors are total, reads D[0] as zero and reports the exception *)
Example sky_build_perm_n0 : sky_out_of (sky_build_perm ex0 []) = KThrow.
Proof. apply (out_eqb_sound QcS_eqb). vm_compute. reflexivity. Qed.
(* a perm entry out of range is caught by the invperm loop *)
Example ll_sky_build_bad_perm : ll_sky_build (flat_of ex3) [0; 3; 1]%nat = OutOfBounds.
Proof. by_eqb. Qed.
(* more columns than rows: invperm[j] leaves invperm *)
Definition exw : crs QcS := mkCrs 2 [[(0%nat, q 1); (1%nat, q 1)]].
Example ll_sky_build_wide : ll_sky_build (flat_of exw) [0%nat] = OutOfBounds.
Proof. by_eqb. Qed.
End Examples.


(* n = 0 in one statement (used by Properties_C10.v) *)
Lemma ll_sky_build_n0_both :
  ll_sky_build (flat_of ex0) [] = OutOfBounds /\ sky_out_of (sky_build_perm ex0 []) = KThrow.
Proof. exact (conj ll_sky_build_n0 sky_build_perm_n0). Qed.
