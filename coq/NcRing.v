(* NcRing.v -- NON-COMMUTATIVE ring laws as a predicate on a [Scalar] record.

   The algebraic theorems of the relaxation models proved so far assume [Sring S] (Coq's
   [ring_theory]: commutative).  amgcl instantiates the same templates with
   static_matrix<T,b,b> blocks, whose product does not commute: there the ORDER of the operands
   of every product in the code is part of the meaning.  [ncring_theory S] keeps associativity,
   both distributivity laws and both unit laws and DROPS commutativity of [*].
   - every commutative ring is an instance ([ncring_of_ring]);
   - [BlockInst.BlockS S0 b] over a commutative ring S0 is an instance (NcRingBlock.v).
   Proof automation: Coq's [Ncring] library -- the section hypothesis [Hnc : ncring_theory S] is
   turned into a [Ncring.Ring] instance ([ncring_inst]), after which [non_commutative_ring]
   decides equalities by normalising both sides to sums of ordered monomials.  Usage in a
   Section (the Ncring notations "0", "1", "+" ... are deliberately NOT exported to client files):
       Hypothesis Hnc : ncring_theory S.
       Local Instance nci : NcRingInst S := ncring_inst Hnc.
       ... ncr. *)
From Coq Require Import Ncring Ncring_tac.
From Amgcl Require Import Scalar Vec.
Local Open Scope S_scope.

Record ncring_theory (S : Scalar) : Prop := mk_ncring_theory {
  nc_add_0_l   : forall x : S, s0 + x = x;
  nc_add_comm  : forall x y : S, x + y = y + x;
  nc_add_assoc : forall x y z : S, x + (y + z) = (x + y) + z;
  nc_mul_1_l   : forall x : S, s1 * x = x;
  nc_mul_1_r   : forall x : S, x * s1 = x;
  nc_mul_assoc : forall x y z : S, x * (y * z) = (x * y) * z;
  nc_distr_l   : forall x y z : S, (x + y) * z = x * z + y * z;
  nc_distr_r   : forall x y z : S, z * (x + y) = z * x + z * y;
  nc_sub_def   : forall x y : S, x - y = x + - y;
  nc_opp_def   : forall x : S, x + - x = s0 }.

(* a commutative ring is in particular a non-commutative one *)
Lemma ncring_of_ring (S : Scalar) : Sring S -> ncring_theory S.
Proof.
  intros [A0 AC AA M1 MC MA DL SD OD]. constructor; intros; auto.
  - rewrite MC. apply M1.
  - rewrite (MC z (x + y)), DL, (MC x z), (MC y z). reflexivity.
Qed.

Global Instance nc_ops {S : Scalar} : @Ring_ops S s0 s1 sadd smul ssub sopp eq := {}.

Lemma ncring_inst {S : Scalar} (Hnc : ncring_theory S) : @Ring S s0 s1 sadd smul ssub sopp eq nc_ops.
Proof.
  destruct Hnc.
  refine (Build_Ring nc_ops _ _ _ _ _ _ _ _ _ _ _ _ _ _ _);
    unfold addition, multiplication, subtraction, opposite, equality, zero, one, nc_ops;
    try assumption; try typeclasses eauto.
Qed.

Notation NcRingInst S := (@Ncring.Ring S s0 s1 sadd smul ssub sopp (@eq S) nc_ops).
Ltac ncr := non_commutative_ring.

Section NcBasics.
Context {S : Scalar}.
Hypothesis Hnc : ncring_theory S.
Local Instance nci : NcRingInst S := ncring_inst Hnc.

Lemma nc_add_0_r (x : S) : x + s0 = x.
Proof. non_commutative_ring. Qed.
Lemma nc_mul_0_l (x : S) : s0 * x = s0.
Proof. non_commutative_ring. Qed.
Lemma nc_mul_0_r (x : S) : x * s0 = s0.
Proof. non_commutative_ring. Qed.
Lemma nc_sub_diag (x : S) : x - x = s0.
Proof. non_commutative_ring. Qed.
Lemma nc_sub_0_r (x : S) : x - s0 = x.
Proof. non_commutative_ring. Qed.
Lemma nc_add_cancel_l (x y z : S) : x + y = x + z -> y = z.
Proof.
  intro H. assert (E : - x + (x + y) = - x + (x + z)) by (rewrite H; reflexivity).
  assert (Ey : - x + (x + y) = y) by non_commutative_ring.
  assert (Ez : - x + (x + z) = z) by non_commutative_ring.
  rewrite Ey, Ez in E. exact E.
Qed.
Lemma nc_sub_eq_0 (x y : S) : x - y = s0 -> x = y.
Proof.
  intro H. assert (E : x = (x - y) + y) by non_commutative_ring. rewrite E, H. non_commutative_ring.
Qed.

(* ---- finite sums ---- *)
Lemma ncsumn_add (f g : nat -> S) n : sumn (fun i => f i + g i) n = sumn f n + sumn g n.
Proof. induction n as [|n IH]; simpl; [|rewrite IH]; non_commutative_ring. Qed.
Lemma ncsumn_sub (f g : nat -> S) n : sumn (fun i => f i - g i) n = sumn f n - sumn g n.
Proof. induction n as [|n IH]; simpl; [|rewrite IH]; non_commutative_ring. Qed.
Lemma ncsumn_opp (f : nat -> S) n : sumn (fun i => - f i) n = - sumn f n.
Proof. induction n as [|n IH]; simpl; [|rewrite IH]; non_commutative_ring. Qed.
(* scaling from the LEFT and from the RIGHT are different lemmas *)
Lemma ncsumn_scal_l (a : S) (f : nat -> S) n : sumn (fun i => a * f i) n = a * sumn f n.
Proof. induction n as [|n IH]; simpl; [|rewrite IH]; non_commutative_ring. Qed.
Lemma ncsumn_scal_r (a : S) (f : nat -> S) n : sumn (fun i => f i * a) n = sumn f n * a.
Proof. induction n as [|n IH]; simpl; [|rewrite IH]; non_commutative_ring. Qed.
Lemma ncsumn_zero n : sumn (fun _ => @s0 S) n = s0.
Proof. induction n as [|n IH]; simpl; [|rewrite IH]; non_commutative_ring. Qed.
Lemma ncsumn_zero_fun (f : nat -> S) n : (forall i, i < n -> f i = s0) -> sumn f n = s0.
Proof. intro H. rewrite (sumn_ext f (fun _ => s0) n H). apply ncsumn_zero. Qed.
Lemma ncsumn_delta (c : nat) (v : S) n :
  sumn (fun j => if Nat.eqb j c then v else s0) n = if Nat.ltb c n then v else s0.
Proof.
  induction n as [|n IH]; simpl; [reflexivity|]. rewrite IH.
  destruct (Nat.eqb_spec n c) as [->|Hne].
  - rewrite Nat.ltb_irrefl. destruct (Nat.ltb_spec c (Datatypes.S c)); [|lia]. non_commutative_ring.
  - destruct (Nat.ltb_spec c n), (Nat.ltb_spec c (Datatypes.S n)); try lia; non_commutative_ring.
Qed.
Lemma ncsumn_delta' (c : nat) (v : S) n :
  sumn (fun j => if Nat.eqb c j then v else s0) n = if Nat.ltb c n then v else s0.
Proof.
  rewrite <- ncsumn_delta. apply sumn_ext. intros j _. rewrite Nat.eqb_sym. reflexivity.
Qed.
Lemma ncsumn_delta_fun (c : nat) (f : nat -> S) n :
  sumn (fun j => if Nat.eqb j c then f j else s0) n = if Nat.ltb c n then f c else s0.
Proof.
  rewrite <- ncsumn_delta. apply sumn_ext. intros j _.
  destruct (Nat.eqb_spec j c) as [->|]; reflexivity.
Qed.
Lemma ncsumn_swap (f : nat -> nat -> S) n m :
  sumn (fun i => sumn (fun j => f i j) m) n = sumn (fun j => sumn (fun i => f i j) n) m.
Proof.
  induction n as [|n IH]; simpl.
  - symmetry. apply ncsumn_zero.
  - rewrite IH, <- ncsumn_add. reflexivity.
Qed.
(* split a sum over [0,n) at a predicate *)
Lemma ncsumn_split (p : nat -> bool) (f : nat -> S) n :
  sumn f n = sumn (fun j => if p j then f j else s0) n + sumn (fun j => if p j then s0 else f j) n.
Proof.
  rewrite <- ncsumn_add. apply sumn_ext. intros j _. destruct (p j); non_commutative_ring.
Qed.

End NcBasics.
