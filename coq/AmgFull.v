(* AmgFull.v -- hierarchies built ENTIRELY inside the model: amg::do_init (amgcl/amg.hpp:467-512)
   with the transfer operators of every level computed by the coarsening model
   (Coarsen.coarsen_step: aggregation / smoothed aggregation / energy-minimising SA / Ruge-Stuben)
   instead of being supplied.  [build_full] is [Amg.build] with the level's (P, R) taken from
   [coarsen_step]; the policy object's state (eps_strong halved after every level by the smoothed
   variants) is threaded through the levels as the C++ object C does.

   Termination: the while loop of do_init pushes at most max_levels levels
   (if (levels.size() >= prm.max_levels) break), so the recursion is structural in
   k = max_levels - 1 - (levels pushed so far): no fuel, no default.
   A precondition failure of the coarsening (exception out of the constructor) and a model-only
   out-of-bounds verdict are results of their own, not hierarchies. *)
From Amgcl Require Import Scalar Vec Crs Kernels MatOps MatOps2 Aggregates Tentative Coarsen Amg AmgExec.
Local Open Scope S_scope.

Inductive full_result {S : Scalar} :=
| FullOk (ls : list (@ldesc S))
| FullPrecond                       (* the coarsening threw: no hierarchy *)
| FullOob.                          (* model-only: the C++ would index outside an array *)

Section Full.
Context {S : Scalar}.
Local Notation vec := (vec S).
Local Notation crs := (crs S).

(* coarse_operator of the policy class: detail::scaled_galerkin(A, P, R, 1/over_interp) for plain
   aggregation, detail::galerkin otherwise; the same for every level *)
Definition policy_scale (pol : @policy S) : option S :=
  match pol with PolAggregation _ _ s => Some s | _ => None end.
Definition policy_cop (pol : @policy S) : crs -> crs -> crs -> crs := coarse_op_of (policy_scale pol).

Variable coarse_enough : nat.
Variable direct_coarse : bool.
Variable nt : nat.                         (* omp_get_max_threads(), seen by the coarsening kernels *)
Variable cop : crs -> crs -> crs -> crs.
(* uninitialised memory read by the coarsening on level l (diagonal cells of rows without a
   diagonal entry; strength flags of skipped rows before /repo 7bd138f) *)
Variable junk : nat -> vec.
Variable junkf : nat -> flags.
(* what the coarsening WRAPPER does to an operator of the base coarsening before handing it to amg
   (None = it throws): nothing for a coarsening class used directly ([Some]); for
   coarsening::as_scalar on a block backend the conversion of the (row-sorted) scalar operator to
   block values and -- in the expanded view of AmgBlock.v -- back ([as_scalar_prep]) *)
Variable prep : crs -> option crs.

Fixpoint build_full (k : nat) (pol : @policy S) (A : crs) (lev : nat) : @full_result S :=
  if Nat.leb (nrows A) coarse_enough then
    FullOk [if direct_coarse then LSolve A else LLast A]
  else match k with
  | O => FullOk [LLast A]                                  (* levels.size() >= max_levels *)
  | Datatypes.S k' =>
    match coarsen_step nt pol A (junk lev) (junkf lev) with
    | StepEmpty => FullOk [LLast A]                        (* error::empty_level caught by step_down *)
    | StepPrecond => FullPrecond
    | StepOob => FullOob
    | StepOk P R _ pol' =>
      match prep P, prep R with
      | Some Pc, Some Rc =>
        let P' := sort_rows Pc in let R' := sort_rows Rc in
        match build_full k' pol' (sort_rows (cop A P' R')) (Datatypes.S lev) with
        | FullOk tl => FullOk (LMid A P' R' :: tl)
        | e => e
        end
      | _, _ => FullPrecond
      end
    end
  end.

(* the transfer operators the coarsening chooses along the hierarchy (None = empty_level);
   same recursion, hierarchy forgotten *)
Fixpoint full_transfers (k : nat) (pol : @policy S) (A : crs) (lev : nat) : list (option (crs * crs)) :=
  if Nat.leb (nrows A) coarse_enough then []
  else match k with
  | O => []
  | Datatypes.S k' =>
    match coarsen_step nt pol A (junk lev) (junkf lev) with
    | StepOk P R _ pol' =>
      match prep P, prep R with
      | Some Pc, Some Rc =>
        Some (Pc, Rc) :: full_transfers k' pol' (sort_rows (cop A (sort_rows Pc) (sort_rows Rc))) (Datatypes.S lev)
      | _, _ => [None]
      end
    | _ => [None]
    end
  end.

(* "the transfer operators chosen on that level": every LMid of the result carries the sorted
   output of coarsen_step for that level's matrix and the policy state of that level *)
Fixpoint full_chain (pol : @policy S) (lev : nat) (ls : list (@ldesc S)) : Prop :=
  match ls with
  | LMid A P R :: tl =>
    exists P0 R0 Ac pol' Pc Rc, coarsen_step nt pol A (junk lev) (junkf lev) = StepOk P0 R0 Ac pol' /\
      prep P0 = Some Pc /\ prep R0 = Some Rc /\
      P = sort_rows Pc /\ R = sort_rows Rc /\ full_chain pol' (Datatypes.S lev) tl
  | _ :: tl => tl = []             (* a level without transfer operators is the last one *)
  | [] => True
  end.

End Full.

(* amg(M, prm): copy, sort rows, do_init *)
Definition amg_init_full {S : Scalar} (ce : nat) (dc : bool) (ml nt : nat) (junk : nat -> vec S) (junkf : nat -> flags)
  (prep : crs S -> option (crs S)) (pol : @policy S) (M : crs S) : @full_result S :=
  build_full ce dc nt (policy_cop pol) junk junkf prep (ml - 1) pol (sort_rows M) 0.

(* coarsening::as_scalar<C>::type<Backend>::transfer_operators for b x b block values, in the expanded
   view: the base operator X (a scalar matrix) is row-sorted, read through adapter::block_matrix into
   crs<block> (MatOps2.block_matrix; None = "Matrix size is not divisible by block size!") and printed
   expanded again (MatOps2.unblock_matrix: every stored block contributes all its cells, zeros included) *)
Definition as_scalar_prep {S : Scalar} (b : nat) (X : crs S) : option (crs S) :=
  match block_matrix (sort_rows X) b with
  | Some B => Some (unblock_matrix b B)
  | None => None
  end.
