(* KrylovProofs2.v -- helpers shared by the proofs about BiCGStab(L), IDR(s) and LGMRES
   (KrylovProofs2Bl.v, KrylovProofs2Idrs.v), and the remaining LGMRES lemmas. *)
From Amgcl Require Import Scalar Vec Kernels KernelsProofs Krylov KrylovProofs.
From Coq Require Import ZifyBool.
Local Open Scope S_scope.
Local Notation SS := Datatypes.S.

(* solve a vector identity between vmap2/vmap3/map expressions pointwise by ring
   (needs [Add Ring] for the scalar in the calling section) *)
Ltac vec_ring2 :=
  apply nth_error_ext; let i := fresh "i" in intro i;
  repeat (rewrite ?nth_error_vmap2, ?nth_error_vmap3, ?nth_error_map);
  repeat match goal with |- context [nth_error ?v i] => destruct (nth_error v i) end;
  simpl; try reflexivity; try (f_equal; ring).

Section AnyScalar.
Context {S : Scalar}.
Local Notation vec := (vec S).

(* ---------- index maps updated over a range ---------- *)
Lemma upd_neq {X} (m : nat -> X) i v j : j <> i -> upd m i v j = m j.
Proof. intro H. unfold upd. destruct (Nat.eqb j i) eqn:E; [apply Nat.eqb_eq in E; contradiction | reflexivity]. Qed.

Lemma updm_eq (m : nat -> nat -> S) i j v : updm m i j v i j = v.
Proof. unfold updm. rewrite !Nat.eqb_refl. reflexivity. Qed.
Lemma updm_neq (m : nat -> nat -> S) i j v a b : a <> i \/ b <> j -> updm m i j v a b = m a b.
Proof.
  intro H. unfold updm. destruct (Nat.eqb a i) eqn:E1, (Nat.eqb b j) eqn:E2; simpl; try reflexivity.
  apply Nat.eqb_eq in E1. apply Nat.eqb_eq in E2. destruct H; contradiction.
Qed.

Lemma seq_snoc a m : seq a (SS m) = seq a m ++ [(a + m)%nat].
Proof. rewrite seq_S. reflexivity. Qed.

(* for(i = a; i < a+m; ++i) m[i] = g(i, m[i]) : cell i gets g i (old cell i), other cells stay *)
Lemma fold_upd_range {X} (g : nat -> X -> X) a m : forall (m0 : nat -> X),
  let r := fold_left (fun mm i => upd mm i (g i (mm i))) (seq a m) m0 in
  (forall j, (a <= j < a + m)%nat -> r j = g j (m0 j)) /\ (forall j, ~ (a <= j < a + m)%nat -> r j = m0 j).
Proof.
  induction m as [|m IH]; intro m0; cbv zeta.
  - simpl. split; [intros j H; lia | reflexivity].
  - rewrite seq_snoc, fold_left_app. simpl fold_left.
    destruct (IH m0) as (I1 & I2). split.
    + intros j Hj. destruct (Nat.eq_dec j (a + m)%nat) as [->|N].
      * rewrite upd_eq. rewrite I2 by lia. reflexivity.
      * rewrite upd_neq by exact N. apply I1. lia.
    + intros j Hj. rewrite upd_neq by lia. apply I2. lia.
Qed.

Lemma k_clear_length (x : vec) : length (k_clear x) = length x.
Proof. unfold k_clear. apply map_length. Qed.
Lemma k_clear_len_eq (x y : vec) : length x = length y -> k_clear x = k_clear y.
Proof.
  revert y; induction x as [|a x IH]; intros [|b y] H; simpl in *; try discriminate; try reflexivity.
  f_equal. apply IH. congruence.
Qed.
Lemma k_clear_idem (x : vec) : k_clear (k_clear x) = k_clear x.
Proof. apply k_clear_len_eq, k_clear_length. Qed.

Lemma k_axpby_length a (x : vec) b (y : vec) : length x = length y -> length (k_axpby a x b y) = length y.
Proof.
  intro H. unfold k_axpby. destruct (is_zero b); [rewrite map_length; exact H | rewrite vmap2_length; lia].
Qed.

(* ---------- LGMRES: converged initial guess ---------- *)
Theorem lgmres_converged_guess (A P : vec -> vec) prm (f x0 : vec) st nr :
  k_prologue norm_b prm f = Go nr ->
  sltb (true_res norm_b A P (p_left prm) f x0) (smax (p_tol prm * nr) (p_abstol prm)) = true ->
  exists res, fst (lgmres A P prm f x0 st) = KOk (mkRes 0 res x0 false).
Proof.
  intros Hp Hc. unfold lgmres. rewrite Hp. simpl. unfold true_res in Hc.
  destruct (p_left prm); simpl; rewrite Hc; simpl; eexists; reflexivity.
Qed.

Theorem lgmres_trivial_bounds (A P : vec -> vec) prm (f x0 : vec) st r w :
  lgmres A P prm f x0 st = (KOk r, w) -> k_it r <= p_maxiter prm /\ k_oof r = false.
Proof.
  destruct (prologue_cases norm_b prm f) as [(Hp & _) | (nr & Hp)].
  - unfold lgmres. rewrite Hp. intro H; inversion H; subst; simpl. split; [lia|reflexivity].
  - intro H. destruct (lgmres_result_spec A P prm f x0 st nr r w Hp H) as (H1 & H2 & _). auto.
Qed.

End AnyScalar.

(* ---------- ring + linear operators ---------- *)
Section RingLaws.
Context {S : Scalar}.
Local Notation vec := (vec S).
Hypothesis Srt : Sring S.
Hypothesis Seqb : seqb_spec S.
Add Ring SRingK2 : Srt.
Variable n : nat.

(* a linear, length preserving operator maps the zero vector to the zero vector *)
Lemma lin_clear (F : vec -> vec) : (forall v, length v = n -> length (F v) = n) -> linear_on n F ->
  forall z : vec, length z = n -> F (k_clear z) = k_clear z.
Proof.
  intros Fl Flin z Lz.
  assert (Lc : length (k_clear z) = n) by (rewrite k_clear_length; exact Lz).
  pose proof (Flin (- s1) (k_clear z) (k_clear z) Lc Lc) as E.
  replace (vmap2 (fun xi yi => xi + - s1 * yi) (k_clear z) (k_clear z)) with (k_clear z) in E
    by (unfold k_clear; vec_ring2).
  rewrite E. transitivity (k_clear (F (k_clear z))).
  - unfold k_clear. vec_ring2.
  - apply k_clear_len_eq. rewrite Fl; [symmetry; exact Lz | exact Lc].
Qed.

End RingLaws.
