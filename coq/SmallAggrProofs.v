(* SmallAggrProofs.v -- C10: proofs about coq/SmallAggr.v: the array-level remove_small_aggregates equals the list-level
   Aggregates.remove_small (completed by the empty_level throw); what it guarantees (sizes, renumbering without gaps, removed
   ids, partition preserved); the rows of a block aggregate; the guard "every QR block has at least nullspace.cols rows" for
   any block_size; the refutation of the floor-division variant.  R copy loop: SmallAggrRProofs.v. *)
From Coq Require Import ZArith Lia List Bool.
From Amgcl Require Import Scalar Vec Crs Kernels MatOps Aggregates Tentative Coarsen CoarsenProofs
     LowLevel LowLevelT LowLevel2 LowLevel2Proofs LowLevel2G LowLevel2GProofs LowLevel2A LowLevel2AProofs
     TentativeQrGuard SmallAggr SmallAggrRProofs.
Import ListNotations.
Local Open Scope nat_scope.

(* ------------------------------------------------------------------ small facts *)
Lemma map_upd_nth {X Y} (f : X -> Y) (l : list X) i x :
  map f (Aggregates.upd_nth l i x) = Aggregates.upd_nth (map f l) i (f x).
Proof. revert i; induction l as [|a l IH]; intros [|i]; simpl; try reflexivity. rewrite IH. reflexivity. Qed.

Lemma mrdz_filled {X} (l : list X) (a : Z) d : (0 <= a < Z.of_nat (length l))%Z ->
  mrdz (filled l) a = Done (nth (Z.to_nat a) l d).
Proof. intro H. unfold mrdz. destruct (Z.ltb_spec a 0); [lia|]. apply mrd_filled. lia. Qed.

Lemma mwrz_filled {X} (l : list X) (a : Z) v : (0 <= a < Z.of_nat (length l))%Z ->
  mwrz (filled l) a v = Done (filled (Aggregates.upd_nth l (Z.to_nat a) v)).
Proof. intro H. unfold mwrz. destruct (Z.ltb_spec a 0); [lia|]. apply mwr_filled_un. lia. Qed.

(* ------------------------------------------------------------------ 1. counting *)
Lemma rs_count_loop count : forall (l : list Z) (cnt : list nat),
  length cnt = count -> valid_ids count l ->
  mfoldl (fun a c => if Z.eqb a removed then Done c else x <-- mrdz c a ;; mwrz c a (x + 1)%Z) l (filled (map Z.of_nat cnt))
  = Done (filled (map Z.of_nat (fold_left (fun cnt a => if Z.eqb a removed then cnt
                   else Aggregates.upd_nth cnt (Z.to_nat a) (Datatypes.S (nth (Z.to_nat a) cnt 0))) l cnt))).
Proof.
  induction l as [|a l IH]; intros cnt Hl Hv; [reflexivity|].
  cbn [mfoldl fold_left].
  assert (Hv' : valid_ids count l) by (intros x Hx; apply Hv; right; exact Hx).
  destruct (Hv a (or_introl eq_refl)) as [Ha|Ha].
  - subst a. rewrite Z.eqb_refl. cbn [mbind]. apply IH; assumption.
  - replace (Z.eqb a removed) with false by (symmetry; apply Z.eqb_neq; unfold removed; lia).
    rewrite (mrdz_filled (map Z.of_nat cnt) a 0%Z) by (rewrite map_length; lia). cbn [mbind].
    rewrite mwrz_filled by (rewrite map_length; lia).
    replace (nth (Z.to_nat a) (map Z.of_nat cnt) 0%Z + 1)%Z with (Z.of_nat (Datatypes.S (nth (Z.to_nat a) cnt 0))).
    + rewrite <- map_upd_nth. apply IH; [rewrite upd_nth_length; exact Hl|exact Hv'].
    + change 0%Z with (Z.of_nat 0). rewrite map_nth. lia.
Qed.

Lemma ll_rs_count_ok n count (idl : list Z) : length idl = n -> valid_ids count idl ->
  ll_rs_count n (filled idl) (filled (repeat 0%Z count)) = Done (filled (map Z.of_nat (count_members idl count))).
Proof.
  intros Hl Hv. unfold ll_rs_count, count_members. rewrite <- Hl.
  rewrite (mfor_list 0%Z (fun a c => if Z.eqb a removed then Done c else x <-- mrdz c a ;; mwrz c a (x + 1)%Z)).
  - replace (repeat 0%Z count) with (map Z.of_nat (repeat 0 count)) by (clear; induction count as [|c IH]; simpl; [reflexivity|rewrite IH; reflexivity]).
    apply (rs_count_loop count); [apply repeat_length|exact Hv].
  - intros k s Hk. cbn [Nat.add]. rewrite (mrd_filled idl k 0%Z Hk). reflexivity.
Qed.

(* ------------------------------------------------------------------ 2. the map old id -> new id *)
Lemma rs_small_coded bs mina c : rs_small RsCoded bs mina (Z.of_nat c) = Nat.ltb (bs * c) mina.
Proof.
  unfold rs_small. destruct (Nat.ltb_spec (bs * c) mina); [apply Z.ltb_lt|apply Z.ltb_ge]; nia.
Qed.

Lemma rs_map_loop bs mina : forall (todo : list nat) (done : list Z) m,
  mfor (length done) (length todo) (fun i (s : marr Z * nat) =>
      c <-- mrd (fst s) i ;;
      if rs_small RsCoded bs mina c
      then cnt' <-- mwr (fst s) i removed ;; Done (cnt', snd s)
      else cnt' <-- mwr (fst s) i (Z.of_nat (snd s)) ;; Done (cnt', Datatypes.S (snd s)))
    (filled (done ++ map Z.of_nat todo), m)
  = Done (filled (done ++ fst (smap_ref bs mina todo m)), snd (smap_ref bs mina todo m)).
Proof.
  induction todo as [|c todo IH]; intros done m; [reflexivity|].
  cbn [length map]. rewrite mfor_step. cbn [fst snd].
  rewrite filled_app. cbn [filled map].
  rewrite (mrd_app_len (filled done) (Z.of_nat c) _ (length done) (filled_length done)). cbn [mbind].
  rewrite rs_small_coded. cbn [smap_ref]. unfold kept.
  assert (Enext : forall b m',
    mfor (Datatypes.S (length done)) (length todo) (fun i (s : marr Z * nat) =>
      c <-- mrd (fst s) i ;;
      if rs_small RsCoded bs mina c
      then cnt' <-- mwr (fst s) i removed ;; Done (cnt', snd s)
      else cnt' <-- mwr (fst s) i (Z.of_nat (snd s)) ;; Done (cnt', Datatypes.S (snd s)))
      (filled done ++ Some b :: map Some (map Z.of_nat todo), m')
    = Done (filled (done ++ b :: fst (smap_ref bs mina todo m')), snd (smap_ref bs mina todo m'))).
  { intros b m'. specialize (IH (done ++ [b]) m'). rewrite app_length in IH. cbn [length] in IH. rewrite Nat.add_1_r in IH.
    rewrite <- !app_assoc in IH. cbn [app] in IH. rewrite filled_app in IH. exact IH. }
  destruct (Nat.ltb (bs * c) mina); cbn [negb].
  - rewrite (mwr_app_len (filled done) (Some (Z.of_nat c)) _ _ (length done) (filled_length done)). cbn [mbind fst snd].
    rewrite Enext. reflexivity.
  - rewrite (mwr_app_len (filled done) (Some (Z.of_nat c)) _ _ (length done) (filled_length done)). cbn [mbind fst snd].
    rewrite Enext. reflexivity.
Qed.

Lemma ll_rs_map_ok bs mina count (cnt : list nat) : length cnt = count ->
  ll_rs_map RsCoded bs mina count (filled (map Z.of_nat cnt))
  = Done (filled (fst (small_map bs mina cnt)), snd (small_map bs mina cnt)).
Proof.
  intro Hl. unfold ll_rs_map. rewrite <- Hl. rewrite small_map_ref.
  exact (rs_map_loop bs mina cnt [] 0).
Qed.

(* ------------------------------------------------------------------ 3. the update of the ids *)
Lemma rs_update_loop (mp : list Z) : forall (todo done : list Z),
  valid_ids (length mp) todo ->
  mfor (length done) (length todo) (fun i id =>
      a <-- mrd id i ;;
      if Z.eqb a removed then Done id else m <-- mrdz (filled mp) a ;; mwr id i m)
    (filled (done ++ todo))
  = Done (filled (done ++ map (fun a => if Z.eqb a removed then a else nth (Z.to_nat a) mp removed) todo)).
Proof.
  induction todo as [|a todo IH]; intros done Hv; [reflexivity|].
  cbn [length map]. rewrite mfor_step.
  assert (Hv' : valid_ids (length mp) todo) by (intros x Hx; apply Hv; right; exact Hx).
  rewrite filled_app. cbn [filled map].
  rewrite (mrd_app_len (filled done) a _ (length done) (filled_length done)). cbn [mbind].
  assert (Enext : forall b, mfor (Datatypes.S (length done)) (length todo) (fun i id =>
      a <-- mrd id i ;;
      if Z.eqb a removed then Done id else m <-- mrdz (filled mp) a ;; mwr id i m)
      (filled done ++ Some b :: map Some todo)
      = Done (filled (done ++ b :: map (fun a => if Z.eqb a removed then a else nth (Z.to_nat a) mp removed) todo))).
  { intro b. specialize (IH (done ++ [b]) Hv'). rewrite app_length in IH. cbn [length] in IH. rewrite Nat.add_1_r in IH.
    rewrite <- !app_assoc in IH. cbn [app] in IH. rewrite filled_app in IH. exact IH. }
  destruct (Hv a (or_introl eq_refl)) as [Ha|Ha].
  - subst a. rewrite Z.eqb_refl. cbn [mbind]. apply Enext.
  - replace (Z.eqb a removed) with false by (symmetry; apply Z.eqb_neq; unfold removed; lia).
    rewrite (mrdz_filled mp a removed) by lia. cbn [mbind].
    rewrite (mwr_app_len (filled done) (Some a) _ _ (length done) (filled_length done)). cbn [mbind]. apply Enext.
Qed.

Lemma ll_rs_update_ok n (mp idl : list Z) : length idl = n -> valid_ids (length mp) idl ->
  ll_rs_update n (filled mp) (filled idl)
  = Done (filled (map (fun a => if Z.eqb a removed then a else nth (Z.to_nat a) mp removed) idl)).
Proof. intros Hl Hv. unfold ll_rs_update. rewrite <- Hl. exact (rs_update_loop mp idl [] Hv). Qed.

(* ------------------------------------------------------------------ 4. remove_small_aggregates, array level = list level *)
Lemma small_map_length bs mina (cnt : list nat) : length (fst (small_map bs mina cnt)) = length cnt.
Proof. rewrite small_map_ref. destruct (smap_ref_spec bs mina cnt 0) as (I1 & _). exact I1. Qed.

Theorem ll_remove_small_ok n bs mina count (idl : list Z) : length idl = n -> valid_ids count idl ->
  ll_remove_small RsCoded n bs mina count (filled idl) = Done (remove_small_out bs mina count idl).
Proof.
  intros Hl Hv. unfold ll_remove_small, remove_small_out, remove_small. cbn [rs_threshold].
  destruct (Nat.leb_spec mina 1) as [Hle|Hgt].
  - replace (Nat.ltb 1 mina) with false by (symmetry; apply Nat.ltb_ge; exact Hle). reflexivity.
  - replace (Nat.ltb 1 mina) with true by (symmetry; apply Nat.ltb_lt; exact Hgt). cbn [andb fst snd].
    rewrite (ll_rs_count_ok n count idl Hl Hv). cbn [mbind].
    rewrite (ll_rs_map_ok bs mina count) by apply count_members_length. cbn [mbind fst snd].
    destruct (Nat.eqb (snd (small_map bs mina (count_members idl count))) 0); [reflexivity|].
    rewrite (ll_rs_update_ok n) by (try exact Hl; rewrite small_map_length, count_members_length; exact Hv).
    reflexivity.
Qed.

(* ------------------------------------------------------------------ 5. what remove_small_aggregates guarantees *)
Lemma valid_zget count (id : list Z) k : valid_ids count id -> k < length id ->
  zget id k = removed \/ (0 <= zget id k < Z.of_nat count)%Z.
Proof. intros Hv Hk. apply Hv. unfold zget. apply nth_In. exact Hk. Qed.

Theorem remove_small_spec (bs mina count : nat) (id : list Z) :
  valid_ids count id -> 1 < mina ->
  let r := remove_small bs mina count id in
  let small (a : Z) := Nat.ltb (bs * occ id a) mina in
  length (snd r) = length id /\
  valid_ids (fst r) (snd r) /\
  (forall k, k < length id -> zget id k = removed -> zget (snd r) k = removed) /\
  (forall k, k < length id -> zget id k <> removed -> small (zget id k) = true -> zget (snd r) k = removed) /\
  (forall k, k < length id -> zget id k <> removed -> small (zget id k) = false ->
     (0 <= zget (snd r) k < Z.of_nat (fst r))%Z) /\
  (forall k1 k2, k1 < length id -> k2 < length id -> (0 <= zget (snd r) k1)%Z -> (0 <= zget (snd r) k2)%Z ->
     (zget (snd r) k1 = zget (snd r) k2 <-> zget id k1 = zget id k2)) /\
  (forall m', m' < fst r -> 1 <= occ (snd r) (Z.of_nat m') /\ mina <= bs * occ (snd r) (Z.of_nat m')).
Proof.
  intros Hv Hm. cbv zeta.
  destruct (remove_small_big bs mina count id Hv Hm) as (Hv1 & HL1 & Hbig). cbv zeta in Hv1, HL1, Hbig.
  revert Hv1 HL1 Hbig. unfold remove_small.
  replace (Nat.leb mina 1) with false by (symmetry; apply Nat.leb_gt; exact Hm).
  rewrite small_map_ref. set (cnt := count_members id count).
  destruct (smap_ref_spec bs mina cnt 0) as (I1 & I2 & I3 & I4 & I5 & I6). cbv zeta in I1, I2, I3, I4, I5, I6.
  set (mp := fst (smap_ref bs mina cnt 0)) in *. set (c' := snd (smap_ref bs mina cnt 0)) in *. cbn [fst snd].
  assert (HLc : length cnt = count) by apply count_members_length.
  set (f := fun a : Z => if Z.eqb a removed then a else nth (Z.to_nat a) mp removed).
  intros Hv1 HL1 Hbig.
  assert (Hz : forall k, k < length id -> zget (map f id) k = f (zget id k)) by (intros k Hk; apply zget_map_renum; exact Hk).
  assert (Hkept : forall a, (0 <= a < Z.of_nat count)%Z ->
            kept bs mina (nth (Z.to_nat a) cnt 0) = negb (Nat.ltb (bs * occ id a) mina)).
  { intros a Ha. unfold kept. unfold cnt. rewrite (count_members_spec id count (Z.to_nat a) Hv) by lia.
    rewrite Z2Nat.id by lia. reflexivity. }
  assert (Hf_rem : f removed = removed) by (unfold f; rewrite Z.eqb_refl; reflexivity).
  assert (Hf_in : forall a, (0 <= a < Z.of_nat count)%Z -> f a = nth (Z.to_nat a) mp removed).
  { intros a Ha. unfold f. replace (Z.eqb a removed) with false by (symmetry; apply Z.eqb_neq; unfold removed; lia). reflexivity. }
  split; [exact HL1|]. split; [exact Hv1|].
  split. { intros k Hk E. rewrite Hz by exact Hk. rewrite E. exact Hf_rem. }
  split. { intros k Hk Hne Hs. rewrite Hz by exact Hk.
           destruct (valid_zget count id k Hv Hk) as [E|Hr]; [contradiction|].
           rewrite Hf_in by exact Hr. apply I3; [lia|]. rewrite Hkept by exact Hr. rewrite Hs. reflexivity. }
  split. { intros k Hk Hne Hs. rewrite Hz by exact Hk.
           destruct (valid_zget count id k Hv Hk) as [E|Hr]; [contradiction|].
           rewrite Hf_in by exact Hr.
           destruct (I4 (Z.to_nat (zget id k)) ltac:(lia)) as (v & Hv1' & Hv2').
           { rewrite Hkept by exact Hr. rewrite Hs. reflexivity. }
           rewrite Hv1'. lia. }
  split.
  { intros k1 k2 Hk1 Hk2. rewrite !Hz by assumption. intros H1 H2.
    assert (Hcase : forall k, k < length id -> (0 <= f (zget id k))%Z ->
              (0 <= zget id k < Z.of_nat count)%Z /\ kept bs mina (nth (Z.to_nat (zget id k)) cnt 0) = true).
    { intros k Hk H0. destruct (valid_zget count id k Hv Hk) as [E|Hr].
      - rewrite E, Hf_rem in H0. unfold removed in H0. lia.
      - split; [exact Hr|]. destruct (kept bs mina (nth (Z.to_nat (zget id k)) cnt 0)) eqn:Ek; [reflexivity|].
        rewrite Hf_in in H0 by exact Hr. rewrite (I3 (Z.to_nat (zget id k)) ltac:(lia) Ek) in H0. unfold removed in H0. lia. }
    destruct (Hcase k1 Hk1 H1) as [R1 K1]. destruct (Hcase k2 Hk2 H2) as [R2 K2].
    split.
    - rewrite !Hf_in by assumption. intro E.
      assert (Z.to_nat (zget id k1) = Z.to_nat (zget id k2)); [|lia].
      apply I5; try assumption; lia.
    - intro E. rewrite E. reflexivity. }
  intros m' Hm'. specialize (Hbig m' Hm'). split; [|exact Hbig].
  destruct (occ (map f id) (Z.of_nat m')); [nia|lia].
Qed.

(* ------------------------------------------------------------------ 6. the rows of a block aggregate *)
Lemma length_filter_app {X} (p : X -> bool) (a b : list X) :
  length (filter p (a ++ b)) = length (filter p a) + length (filter p b).
Proof. rewrite filter_app, app_length. reflexivity. Qed.

Lemma members_length_filter bs (id : list Z) i :
  length (members bs id i) = length (filter (fun a => Z.leb 0 a && Nat.eqb (Nat.div (Z.to_nat a) bs) i) id).
Proof.
  unfold members.
  rewrite (filter_ext (fun k => Z.leb 0 (zget id k) && Nat.eqb (Nat.div (Z.to_nat (zget id k)) bs) i)
                      (fun k => (fun a => Z.leb 0 a && Nat.eqb (Nat.div (Z.to_nat a) bs) i) (nth (k - 0) id removed))).
  - apply (length_filter_seq (fun a => Z.leb 0 a && Nat.eqb (Nat.div (Z.to_nat a) bs) i) id removed 0).
  - intro k. rewrite Nat.sub_0_r. reflexivity.
Qed.

Lemma expand_one_count bs (a : Z) i : 1 <= bs ->
  length (filter (fun x => Z.leb 0 x && Nat.eqb (Nat.div (Z.to_nat x) bs) i)
                 (map (fun k => (Z.of_nat bs * a + Z.of_nat k)%Z) (seq 0 bs)))
  = if Z.eqb (Z.of_nat i) a then bs else 0.
Proof.
  intro Hbs.
  assert (G : forall n, n <= bs ->
    length (filter (fun x => Z.leb 0 x && Nat.eqb (Nat.div (Z.to_nat x) bs) i)
                   (map (fun k => (Z.of_nat bs * a + Z.of_nat k)%Z) (seq 0 n)))
    = if Z.eqb (Z.of_nat i) a then n else 0).
  { induction n as [|n IH]; intro Hn; [destruct (Z.eqb (Z.of_nat i) a); reflexivity|].
    rewrite seq_S, map_app, length_filter_app, IH by lia. cbn [Nat.add map filter].
    destruct (Z.leb_spec 0 (Z.of_nat bs * a + Z.of_nat n)) as [H0|H0]; cbn [andb].
    - assert (Ha : (0 <= a)%Z) by nia.
      assert (Ed : Nat.div (Z.to_nat (Z.of_nat bs * a + Z.of_nat n)) bs = Z.to_nat a).
      { replace (Z.to_nat (Z.of_nat bs * a + Z.of_nat n)) with (n + Z.to_nat a * bs) by nia.
        rewrite Nat.div_add by lia. rewrite Nat.div_small by lia. reflexivity. }
      rewrite Ed. destruct (Z.eqb_spec (Z.of_nat i) a) as [E|E].
      + replace (Nat.eqb (Z.to_nat a) i) with true by (symmetry; apply Nat.eqb_eq; lia). simpl. lia.
      + replace (Nat.eqb (Z.to_nat a) i) with false by (symmetry; apply Nat.eqb_neq; lia). simpl. lia.
    - destruct (Z.eqb_spec (Z.of_nat i) a) as [E|E]; [nia|simpl; lia]. }
  apply G. lia.
Qed.

Theorem members_expand_length bs (pwid : list Z) i : 1 <= bs ->
  length (members bs (expand_ids bs pwid) i) = bs * occ pwid (Z.of_nat i).
Proof.
  intro Hbs. rewrite members_length_filter. unfold expand_ids, occ.
  induction pwid as [|a l IH]; [simpl; lia|].
  cbn [flat_map filter]. rewrite length_filter_app, IH, (expand_one_count bs a i Hbs).
  destruct (Z.eqb (Z.of_nat i) a); simpl; lia.
Qed.

Lemma expand_ids_1 (l : list Z) : expand_ids 1 l = l.
Proof.
  unfold expand_ids. set (f := fun a : Z => map (fun k => (Z.of_nat 1 * a + Z.of_nat k)%Z) (seq 0 1)).
  induction l as [|a l IH]; [reflexivity|]. cbn [flat_map]. rewrite IH. unfold f. cbn [seq map app]. f_equal. lia.
Qed.

(* ------------------------------------------------------------------ 7. the guard: every QR block has at least cols rows *)
Theorem remove_small_qr_guard bs cols count (id : list Z) :
  1 <= bs -> 1 <= cols -> valid_ids count id -> (forall m, m < count -> 1 <= occ id (Z.of_nat m)) ->
  let r := remove_small bs cols count id in
  forall i, i < fst r -> cols <= length (members bs (expand_ids bs (snd r)) i).
Proof.
  intros Hbs Hc Hv Ho r i Hi. rewrite members_expand_length by exact Hbs.
  destruct (Nat.leb_spec cols 1) as [Hle|Hgt].
  - unfold r, remove_small in *. replace (Nat.leb cols 1) with true in * by (symmetry; apply Nat.leb_le; exact Hle).
    cbn [fst snd] in *. specialize (Ho i Hi). nia.
  - destruct (remove_small_spec bs cols count id Hv Hgt) as (_ & _ & _ & _ & _ & _ & Hbig). cbv zeta in Hbig.
    apply Hbig. exact Hi.
Qed.

(* the copy loop behind every QR block of the aggregates that remove_small_aggregates leaves is memory safe *)
Theorem smallaggr_r_copy_safe {S : Scalar} bs cols count (id : list Z) :
  1 <= bs -> 1 <= cols -> valid_ids count id -> (forall m, m < count -> 1 <= occ id (Z.of_nat m)) ->
  let r := remove_small bs cols count id in
  forall i, i < fst r ->
  let d := length (members bs (expand_ids bs (snd r)) i) in
  forall (rl : list S) (pre mid post : marr S),
    length rl = d * cols -> length mid = cols * cols ->
    r_copy_loop cols d (filled rl) (length pre) (pre ++ mid ++ post) = Done (pre ++ filled (r_values cols d rl) ++ post).
Proof.
  intros Hbs Hc Hv Ho r i Hi d rl pre mid post Hrl Hmid.
  apply r_copy_done; [|exact Hrl|reflexivity|exact Hmid].
  exact (remove_small_qr_guard bs cols count id Hbs Hc Hv Ho i Hi).
Qed.

(* the same guard for the aggregates of the policies (Aggregates.pointwise_aggregates with min_aggregate = nullspace.cols):
   any block_size, any Scalar; generalises TentativeQrGuard.min_aggregate_guard (block_size 1) *)
Lemma partition_valid n count (id : list Z) st : partition_spec n count id st ->
  valid_ids count id /\ (forall m, m < count -> 1 <= occ id (Z.of_nat m)).
Proof.
  intros (HL & HB & HO & _). split.
  - intros a Ha. apply (In_nth _ _ removed) in Ha as (k & Hk & <-). apply (HB k). lia.
  - intros m Hm. destruct (HO m Hm) as (k & Hk & Ek). unfold occ.
    assert (Hin : In (zget id k) (filter (Z.eqb (Z.of_nat m)) id)).
    { apply filter_In. split; [apply nth_In; lia|]. rewrite Ek. apply Z.eqb_refl. }
    destruct (filter (Z.eqb (Z.of_nat m)) id); [destruct Hin|simpl; lia].
Qed.

Theorem pointwise_aggregates_qr_guard {S : Scalar} (eps2 : S) (bs cols : nat) (A : crs S) (junk : vec S) count id st :
  1 <= cols ->
  pointwise_aggregates eps2 bs cols A junk = AggOk count id st ->
  forall i, i < count / bs -> cols <= length (members bs id i).
Proof.
  intros Hc. unfold pointwise_aggregates.
  destruct (Nat.eqb_spec bs 1) as [->|Hb1].
  - destruct (plain_aggregates eps2 A junk) as [| |c0 id0 st0] eqn:EP; try discriminate.
    destruct (plain_aggregates_partition eps2 A junk c0 id0 st0 EP) as (_ & _ & P).
    destruct (partition_valid _ _ _ _ P) as [Hv Ho].
    intro H. injection H as <- <- <-. rewrite Nat.div_1_r. intros i Hi.
    rewrite <- (expand_ids_1 (snd (remove_small 1 cols c0 id0))).
    exact (remove_small_qr_guard 1 cols c0 id0 ltac:(lia) Hc Hv Ho i Hi).
  - destruct (pwm A bs) as [Ap|]; [|discriminate].
    destruct (plain_aggregates eps2 Ap junk) as [| |c0 id0 st0] eqn:EP; try discriminate.
    destruct (plain_aggregates_partition eps2 Ap junk c0 id0 st0 EP) as (_ & _ & P).
    destruct (partition_valid _ _ _ _ P) as [Hv Ho].
    intro H. injection H as <- <- _. intros i Hi.
    destruct bs as [|b]; [rewrite Nat.mul_0_r in Hi; simpl in Hi; lia|].
    rewrite Nat.div_mul in Hi by lia.
    exact (remove_small_qr_guard (Datatypes.S b) cols c0 id0 ltac:(lia) Hc Hv Ho i Hi).
Qed.

(* ------------------------------------------------------------------ 8. the floor-division variant is refuted
   `min_aggregate /= block_size; ... count[i] < min_aggregate`: block_size 2, nullspace.cols 3, one aggregate of one
   node (2 unknowns).  As coded the aggregate is removed and nothing is left (empty_level, no QR at all); the variant
   returns early (3/2 = 1 <= 1), the aggregate survives, its QR block is 2 x 3 and the copy loop reads behind it. *)
Theorem remove_small_floor_variant_refuted {S : Scalar} :
  exists (bs cols count : nat) (id : list Z),
    1 <= bs /\ 1 <= cols /\ valid_ids count id /\ (forall m, m < count -> 1 <= occ id (Z.of_nat m)) /\
    ll_remove_small RsCoded (length id) bs cols count (filled id) = Done RsEmptyLevel /\
    exists count' id',
      ll_remove_small RsFloor (length id) bs cols count (filled id) = Done (RsOk count' (filled id')) /\
      exists i, i < count' /\
        let d := length (members bs (expand_ids bs id') i) in
        d < cols /\
        forall (rl : list S) (base : nat) (bnew : marr S), length rl = d * cols ->
          r_copy_loop cols d (filled rl) base bnew = OutOfBounds.
Proof.
  exists 2, 3, 1, [0%Z]. split; [lia|]. split; [lia|].
  split. { intros a [<-|[]]. right. simpl. lia. }
  split. { intros m Hm. assert (m = 0) by lia. subst m. vm_compute. lia. }
  split; [vm_compute; reflexivity|].
  exists 1, [0%Z]. split; [vm_compute; reflexivity|].
  exists 0. split; [lia|]. cbv zeta.
  assert (Ed : length (members 2 (expand_ids 2 [0%Z]) 0) = 2) by (vm_compute; reflexivity).
  rewrite Ed. split; [lia|].
  intros rl base bnew Hrl. apply r_copy_oob; [lia|lia|exact Hrl].
Qed.

(* a witness that goes through the loops of the variant (threshold 5/2 = 2): block_size 2, nullspace.cols 5, one aggregate
   of two nodes (4 unknowns < 5 vectors) is kept, as coded it is removed *)
Theorem remove_small_floor_variant_refuted_loops {S : Scalar} :
  exists (bs cols count : nat) (id : list Z),
    1 <= bs /\ 1 <= cols /\ valid_ids count id /\ (forall m, m < count -> 1 <= occ id (Z.of_nat m)) /\
    ll_remove_small RsCoded (length id) bs cols count (filled id) = Done (RsOk 1 (filled [0; removed; removed; 0; 0]%Z)) /\
    exists count' id',
      ll_remove_small RsFloor (length id) bs cols count (filled id) = Done (RsOk count' (filled id')) /\
      exists i, i < count' /\
        let d := length (members bs (expand_ids bs id') i) in
        d < cols /\
        forall (rl : list S) (base : nat) (bnew : marr S), length rl = d * cols ->
          r_copy_loop cols d (filled rl) base bnew = OutOfBounds.
Proof.
  exists 2, 5, 2, [0; 1; 1; 0; 0]%Z. split; [lia|]. split; [lia|].
  split. { intros a Ha. right. simpl in Ha. destruct Ha as [<-|[<-|[<-|[<-|[<-|[]]]]]]; simpl; lia. }
  split. { intros m Hm. assert (m = 0 \/ m = 1) as [-> | ->] by lia; vm_compute; lia. }
  split; [vm_compute; reflexivity|].
  exists 2, [0; 1; 1; 0; 0]%Z. split; [vm_compute; reflexivity|].
  exists 1. split; [lia|]. cbv zeta.
  assert (Ed : length (members 2 (expand_ids 2 [0; 1; 1; 0; 0]%Z) 1) = 4) by (vm_compute; reflexivity).
  rewrite Ed. split; [lia|].
  intros rl base bnew Hrl. apply r_copy_oob; [lia|lia|exact Hrl].
Qed.
