(* AmgProofs10.v -- property C02-B1, contraction in quadratic-form form (ordered ring).
   J_g(x) = <A x, x> - 2 <g, x> is the energy functional of the level (for A u = g it equals
   <A (x-u), x-u> - <A u, u>, so J decreases exactly when the energy norm of the error does).
   Theorem: every cycle decreases J, strictly whenever the residual g - A x is non-zero, provided
     - the smoothers decrease J (strictly for the pre-smoother on non-zero residuals),
     - R = P^T, A symmetric, and the next level matrix is the Galerkin form <A P u, P u> = <A_c u, u>,
     - the coarsest solve decreases J (true for the exact solve of a positive semi-definite A).
   The induction needs no inverse, no spectral argument: the energy decrease of the coarse cycle
   started at 0 is exactly what makes the coarse-grid correction decrease the fine energy. *)
From Amgcl Require Import Scalar Vec Crs Kernels KernelsProofs MatOps MatOpsProofs Relax DenseSolve
  Amg AmgExec AmgProofs AmgProofs2 AmgProofs3 AmgProofs4 AmgProofs5 AmgProofs6 AmgProofs7 AmgProofs9.
Local Open Scope S_scope.

Section B1.
Context {S : Scalar}.
Local Notation vec := (vec S).
Local Notation crs := (crs S).
Local Notation level := (@level S).
Local Notation sweep := (@sweep S).
Hypothesis Srt : Sring S.
Hypothesis Seqb : seqb_spec S.
Add Ring SRingA10 : Srt.
Local Notation ip := (@ip S).

(* the order, through the record's operator< : x <= 0 and x < 0 *)
Definition le0 (x : S) : Prop := sltb s0 x = false.
Definition lt0 (x : S) : Prop := sltb x s0 = true.
Hypothesis le0_0 : le0 s0.
Hypothesis le0_add : forall a b : S, le0 a -> le0 b -> le0 (a + b).
Hypothesis lt0_add : forall a b : S, lt0 a -> le0 b -> lt0 (a + b).
Hypothesis lt0_le0 : forall a : S, lt0 a -> le0 a.

Definition two : S := s1 + s1.

Section Level.
Variable n : nat.
Variable A : crs.
Hypothesis WA : wf A = true.
Hypothesis NA : nrows A = n.
Hypothesis SA : sym_mat n A.

Local Notation res := (res n A).
Local Notation z := (z n).
Local Notation it_len := (it_len n).

Definition J (g x : vec) : S := qA n A x x - two * ip n g x.
Definition dJ (g x x' : vec) : S := J g x' - J g x.

Definition it_dec (Phi : iteration) : Prop :=
  forall g x, length g = n -> length x = n -> le0 (dJ g x (Phi g x)).
Definition it_sdec (Phi : iteration) : Prop :=
  forall g x, length g = n -> length x = n -> res g x <> z -> lt0 (dJ g x (Phi g x)).

Lemma dJ_comp g x x1 x2 : dJ g x x2 = dJ g x1 x2 + dJ g x x1.
Proof. unfold dJ. ring. Qed.

Lemma comp_dec Phi2 Phi1 : it_len Phi1 -> it_dec Phi1 -> it_dec Phi2 -> it_dec (comp Phi2 Phi1).
Proof.
  intros L1 D1 D2 g x Lg Lx. unfold comp. rewrite (dJ_comp g x (Phi1 g x)).
  apply le0_add; [apply D2; auto|apply D1; auto].
Qed.

Lemma comp_sdec Phi2 Phi1 : it_len Phi1 -> it_sdec Phi1 -> it_dec Phi2 -> it_sdec (comp Phi2 Phi1).
Proof.
  intros L1 D1 D2 g x Lg Lx Hr. unfold comp. rewrite (dJ_comp g x (Phi1 g x)).
  rewrite (Radd_comm Srt). apply lt0_add; [apply D1; auto|apply D2; auto].
Qed.

Lemma id_dec : it_dec (fun _ x => x).
Proof. intros g x _ _. unfold dJ. replace (J g x - J g x) with (@s0 S) by ring. exact le0_0. Qed.

Lemma sdec_dec Phi : it_dec Phi -> it_sdec Phi -> it_dec Phi.
Proof. auto. Qed.

Lemma itpow_dec k Phi : it_len Phi -> it_dec Phi -> it_dec (itpow k Phi).
Proof.
  intros HL HD. induction k as [|k IH]; [exact id_dec|].
  intros g x Lg Lx. change (itpow (Datatypes.S k) Phi g x) with (comp (itpow k Phi) Phi g x).
  apply (comp_dec (itpow k Phi) Phi HL HD IH); assumption.
Qed.

Lemma itpow_sdec k Phi : it_len Phi -> it_dec Phi -> it_sdec Phi -> it_sdec (itpow (Datatypes.S k) Phi).
Proof.
  intros HL HD HS g x Lg Lx Hr.
  change (itpow (Datatypes.S k) Phi g x) with (comp (itpow k Phi) Phi g x).
  apply (comp_sdec (itpow k Phi) Phi HL HS (itpow_dec k Phi HL HD)); assumption.
Qed.

(* bilinearity of the quadratic form, through entries *)
Lemma Ax_add (x p x2 : vec) i : (forall j, j < n -> vget x2 j = vget x j + vget p j) ->
  Ax A x2 i = Ax A x i + Ax A p i.
Proof.
  intro H. destruct SA as [HcA _]. unfold Ax. rewrite HcA, <- (sumn_add Srt). apply sumn_ext.
  intros j Hj. rewrite (H j Hj). ring.
Qed.

Lemma qA_add_l (x p x2 y : vec) : (forall j, j < n -> vget x2 j = vget x j + vget p j) ->
  qA n A x2 y = qA n A x y + qA n A p y.
Proof.
  intro H. unfold qA. rewrite <- (sumn_add Srt). apply sumn_ext. intros i Hi.
  rewrite (Ax_add x p x2 i H). ring.
Qed.

Lemma qA_add_r (x y q y2 : vec) : (forall j, j < n -> vget y2 j = vget y j + vget q j) ->
  qA n A x y2 = qA n A x y + qA n A x q.
Proof.
  intro H. unfold qA. rewrite <- (sumn_add Srt). apply sumn_ext. intros i Hi. rewrite (H i Hi). ring.
Qed.

Lemma qA_sym (x y : vec) : qA n A x y = qA n A y x.
Proof. destruct SA as [HcA HsA]. apply (qA_adj Srt A A n n x y HcA HcA HsA). Qed.

(* energy change of an additive update x2 = x + p :  <A p, p> - 2 <g - A x, p> *)
Lemma dJ_update (g x p x2 : vec) : length g = n -> length x = n -> length p = n ->
  (forall j, j < n -> vget x2 j = vget x j + vget p j) ->
  dJ g x x2 = qA n A p p - two * ip n (res g x) p.
Proof.
  intros Lg Lx Lp H. unfold dJ, J.
  rewrite (qA_add_l x p x2 x2 H), (qA_add_r x x p x2 H), (qA_add_r p x p x2 H).
  rewrite (ip_sym Srt n g x2), (ip_lin_l Srt n s1 x s1 p x2 g) by (intros j Hj; rewrite (H j Hj); ring).
  rewrite (ip_res_l Srt n A WA NA SA g x p Lg Lx Lp).
  rewrite (qA_sym p x), (ip_sym Srt n x g), (ip_sym Srt n p g). unfold two. ring.
Qed.

(* --- the coarse-grid correction decreases the energy when the coarse operator does, started
   from zero, for the Galerkin coarse matrix --- *)
Section Cgc.
Variable n' : nat.
Variables R P Ac : crs.
Variable Bc : vec -> vec.
Hypothesis WR : wf R = true.
Hypothesis WP : wf P = true.
Hypothesis NR : nrows R = n'.
Hypothesis NP : nrows P = n.
Hypothesis HT : transp n n' R P.
Definition mv (M : crs) (u : vec) : vec := map (fun r => dotrow r u) (rows M).
Hypothesis gal : forall u, length u = n' -> qA n A (mv P u) (mv P u) = qA n' Ac u u.
Hypothesis Bc_dec : forall w, length w = n' -> le0 (qA n' Ac (Bc w) (Bc w) - two * ip n' w (Bc w)).
Hypothesis Bc_len : forall w, length w = n' -> length (Bc w) = n'.

Lemma cgc_dec : it_dec (cgc n A n' R P Bc).
Proof.
  intros g x Lg Lx. destruct HT as (HcR & HcP & Htr).
  set (w := restr n' R (res g x)). set (u := Bc w).
  assert (Lw : length w = n') by apply restr_length.
  assert (Lu : length u = n') by (apply Bc_len, Lw).
  assert (Lp : length (mv P u) = n) by (unfold mv; rewrite map_length; exact NP).
  assert (Lr : length (res g x) = n) by (apply (res_length n A NA SA); exact Lg).
  assert (Ep : forall i, i < n -> vget (mv P u) i = Ax P u i)
    by (intros i Hi; apply (dotrows_get Srt); [exact WP|rewrite NP; exact Hi]).
  rewrite (dJ_update g x (mv P u) (cgc n A n' R P Bc g x) Lg Lx Lp).
  2:{ intros j Hj. rewrite (cgc_get Srt Seqb n A n' R P Bc WP NP g x j Lx Hj). fold w. fold u.
      rewrite (Ep j Hj). ring. }
  rewrite (gal u Lu).
  (* <res, P u> = <R res, u> = <w, u> *)
  assert (E : ip n (res g x) (mv P u) = ip n' w u).
  { rewrite (ip_sym Srt n (res g x) (mv P u)), (ip_Ax n P u (mv P u) (res g x) Ep).
    rewrite (qA_adj Srt P R n n' u (res g x) HcP HcR) by (intros i j Hi Hj; symmetry; apply Htr; assumption).
    symmetry. apply ip_Ax. intros i Hi. unfold w, restr.
    rewrite (spmv_spec Srt Seqb) by (auto; rewrite ?vzero_length; congruence). ring. }
  rewrite E. apply Bc_dec, Lw.
Qed.
End Cgc.

(* the value at x = 0 *)
Lemma J_zero g : J g z = s0.
Proof.
  unfold J. rewrite (ip_sym Srt n g z), (ip_zero_l Srt n g).
  replace (qA n A z z) with (@s0 S); [ring|]. symmetry. unfold qA.
  rewrite (sumn_ext _ (fun _ => s0)); [apply (sumn_zero Srt)|].
  intros i _. unfold AmgProofs7.z. rewrite vget_vzero. ring.
Qed.

Lemma dec_at_zero Phi : it_dec Phi -> forall g, length g = n ->
  le0 (qA n A (Phi g z) (Phi g z) - two * ip n g (Phi g z)).
Proof.
  intros HD g Lg. pose proof (HD g z Lg (Lz n)) as H. unfold dJ in H. rewrite J_zero in H.
  unfold J in H. replace (qA n A (Phi g z) (Phi g z) - two * ip n g (Phi g z))
    with (qA n A (Phi g z) (Phi g z) - two * ip n g (Phi g z) - s0) by ring. exact H.
Qed.

End Level.

(* ------------------------------------------------------------------ *)
(* the hierarchy *)
Section Hier.
Variables k nc : nat.     (* npre = npost = k, ncycle = nc *)

Fixpoint hier_dec (lvls : list level) : Prop :=
  match lvls with
  | [] => True
  | l :: rest =>
    let n := nrows (lA l) in
    sweep_ok n (lpre l) /\ sweep_ok n (lpost l) /\
    wf (lA l) = true /\ sym_mat n (lA l) /\
    it_dec n (lA l) (sm n (lpre l)) /\ it_dec n (lA l) (sm n (lpost l)) /\
    match rest with
    | [] => forall sv, lsolve l = Some sv -> solve_ok n sv /\ it_dec n (lA l) sv
    | nxt :: _ => wf (lR l) = true /\ wf (lP l) = true /\
                  nrows (lR l) = nrows (lA nxt) /\ nrows (lP l) = n /\
                  transp n (nrows (lA nxt)) (lR l) (lP l) /\
                  (forall u, length u = nrows (lA nxt) ->
                     qA n (lA l) (mv (lP l) u) (mv (lP l) u) = qA (nrows (lA nxt)) (lA nxt) u u)
    end /\ hier_dec rest
  end.

Lemma hier_dec_wf lvls : hier_dec lvls -> hier_wf lvls.
Proof.
  induction lvls as [|l rest IH]; intro H; [exact I|].
  cbn [hier_dec] in H. destruct H as (H1 & H2 & _ & _ & _ & _ & Hm & Hr).
  cbn [hier_wf]. split; [exact H1|]. split; [exact H2|]. split; [|apply IH, Hr].
  destruct rest as [|nxt rest']; [intros sv E; apply (Hm sv E)|apply Hm].
Qed.

Lemma it_dec_ext n A Phi Psi : (forall f x, length f = n -> length x = n -> Psi f x = Phi f x) ->
  it_dec n A Phi -> it_dec n A Psi.
Proof. intros E H g x Lg Lx. rewrite (E g x Lg Lx). apply H; assumption. Qed.

Lemma it_sdec_ext n A Phi Psi : (forall f x, length f = n -> length x = n -> Psi f x = Phi f x) ->
  it_sdec n A Phi -> it_sdec n A Psi.
Proof. intros E H g x Lg Lx Hr. rewrite (E g x Lg Lx). apply H; assumption. Qed.

(* every cycle decreases the energy of its level *)
Theorem Cyc_dec lvls : hier_dec lvls -> lvls <> [] ->
  it_dec (top_n lvls) (lA (hd (mkLevel empty_crs empty_crs empty_crs (fun _ x t => (x, t)) (fun _ x t => (x, t)) None) lvls))
         (Cyc k nc lvls).
Proof.
  induction lvls as [|l rest IH]; intros Hh Hne; [congruence|].
  pose proof (hier_dec_wf _ Hh) as Hwf.
  cbn [hier_dec] in Hh. destruct Hh as (Hpre & Hpost & WA & HsA & Dpre & Dpost & Hmid & Hrest).
  cbn [top_n hd]. set (n := nrows (lA l)) in *.
  assert (NA : nrows (lA l) = n) by reflexivity.
  pose proof (sm_len n _ Hpre) as Lpre. pose proof (sm_len n _ Hpost) as Lpost.
  pose proof (itpow_len n k _ Lpre) as LPpre. pose proof (itpow_len n k _ Lpost) as LPpost.
  pose proof (itpow_dec n (lA l) k _ Lpre Dpre) as DPpre.
  pose proof (itpow_dec n (lA l) k _ Lpost Dpost) as DPpost.
  destruct rest as [|nxt rest'].
  - assert (Ec : forall f x, length f = n -> length x = n -> Cyc k nc [l] f x =
              match lsolve l with
              | Some sv => sv f x
              | None => comp (itpow k (sm n (lpost l))) (itpow k (sm n (lpre l))) f x end).
    { intros f x Lf Lx. unfold Cyc. apply (cyc_last_eq k nc l Hwf); auto. apply (zscr_wf [l]). }
    destruct (lsolve l) as [sv|] eqn:El.
    + apply (it_dec_ext n (lA l) sv); [exact Ec|]. apply (Hmid sv eq_refl).
    + apply (it_dec_ext n (lA l) (comp (itpow k (sm n (lpost l))) (itpow k (sm n (lpre l))))); [exact Ec|].
      apply comp_dec; assumption.
  - destruct Hmid as (WR & WP & NR & NP & HT & Hgal).
    set (n' := nrows (lA nxt)) in *.
    pose proof Hwf as (_ & _ & _ & Hwf').
    specialize (IH Hrest ltac:(discriminate)). cbn [top_n hd] in IH. fold n' in IH.
    set (Bc := fun h => Cyc k nc (nxt :: rest') h (vzero n')).
    assert (Bc_len : forall h, length h = n' -> length (Bc h) = n').
    { intros h Lh. unfold Bc. apply (Cyc_len Seqb k nc (nxt :: rest') Hwf'); [exact Lh|apply vzero_length]. }
    assert (NAc : nrows (lA nxt) = n') by reflexivity.
    assert (SAc : sym_mat n' (lA nxt)) by (cbn [hier_dec] in Hrest; apply Hrest).
    assert (WAc : wf (lA nxt) = true) by (cbn [hier_dec] in Hrest; apply Hrest).
    assert (Bc_dec : forall w, length w = n' ->
              le0 (qA n' (lA nxt) (Bc w) (Bc w) - two * ip n' w (Bc w))).
    { intros w Lw. apply (dec_at_zero n' (lA nxt) (Cyc k nc (nxt :: rest')) IH w Lw). }
    pose proof (cgc_dec n (lA l) WA NA HsA n' (lR l) (lP l) (lA nxt) Bc WR WP NR NP HT Hgal Bc_dec Bc_len) as Dcgc.
    pose proof (cgc_len n (lA l) n' (lR l) (lP l) Bc) as Lcgc.
    assert (Lbody : it_len n (body_it k l n' Bc)) by (apply comp_len; [|apply comp_len]; assumption).
    assert (Dbody : it_dec n (lA l) (body_it k l n' Bc)).
    { unfold body_it. fold n. apply comp_dec; [apply comp_len; assumption| |exact DPpost].
      apply comp_dec; assumption. }
    assert (Ec : forall f x, length f = n -> length x = n ->
              Cyc k nc (l :: nxt :: rest') f x = itpow nc (body_it k l n' Bc) f x).
    { intros f x Lf Lx. unfold Cyc. apply (cyc_mid_eq Seqb k nc l nxt rest' Hwf); auto. apply zscr_wf. }
    apply (it_dec_ext n (lA l) (itpow nc (body_it k l n' Bc))); [exact Ec|].
    apply itpow_dec; assumption.
Qed.

End Hier.

(* strict decrease: npre = npost = k + 1 >= 1, ncycle = nc + 1 >= 1, the top-level pre-smoother
   (resp. the solver of a one-level hierarchy) strict on non-zero residuals *)
Definition top_strict (lvls : list level) : Prop :=
  match lvls with
  | [] => False
  | l :: rest =>
    it_sdec (nrows (lA l)) (lA l) (sm (nrows (lA l)) (lpre l)) /\
    match rest with
    | [] => forall sv, lsolve l = Some sv -> it_sdec (nrows (lA l)) (lA l) sv
    | _ => True
    end
  end.

Theorem Cyc_sdec k nc lvls : hier_dec lvls -> top_strict lvls ->
  it_sdec (top_n lvls) (lA (hd (mkLevel empty_crs empty_crs empty_crs (fun _ x t => (x, t)) (fun _ x t => (x, t)) None) lvls))
          (Cyc (Datatypes.S k) (Datatypes.S nc) lvls).
Proof.
  destruct lvls as [|l rest]; intros Hh Hs; [destruct Hs|].
  pose proof (hier_dec_wf _ Hh) as Hwf.
  pose proof Hh as Hh0.
  cbn [hier_dec] in Hh. destruct Hh as (Hpre & Hpost & WA & HsA & Dpre & Dpost & Hmid & Hrest).
  cbn [top_strict] in Hs. destruct Hs as [Spre Ssv].
  cbn [top_n hd]. set (n := nrows (lA l)) in *.
  assert (NA : nrows (lA l) = n) by reflexivity.
  set (kk := Datatypes.S k). set (ncc := Datatypes.S nc).
  pose proof (sm_len n _ Hpre) as Lpre. pose proof (sm_len n _ Hpost) as Lpost.
  pose proof (itpow_len n kk _ Lpre) as LPpre. pose proof (itpow_len n kk _ Lpost) as LPpost.
  pose proof (itpow_dec n (lA l) kk _ Lpre Dpre) as DPpre.
  pose proof (itpow_dec n (lA l) kk _ Lpost Dpost) as DPpost.
  pose proof (itpow_sdec n (lA l) k _ Lpre Dpre Spre) as SPpre. fold kk in SPpre.
  destruct rest as [|nxt rest'].
  - assert (Ec : forall f x, length f = n -> length x = n -> Cyc kk ncc [l] f x =
              match lsolve l with
              | Some sv => sv f x
              | None => comp (itpow kk (sm n (lpost l))) (itpow kk (sm n (lpre l))) f x end).
    { intros f x Lf Lx. unfold Cyc. apply (cyc_last_eq kk ncc l Hwf); auto. apply (zscr_wf [l]). }
    destruct (lsolve l) as [sv|] eqn:El.
    + apply (it_sdec_ext n (lA l) sv); [exact Ec|]. apply (Ssv sv eq_refl).
    + apply (it_sdec_ext n (lA l) (comp (itpow kk (sm n (lpost l))) (itpow kk (sm n (lpre l))))); [exact Ec|].
      apply comp_sdec; assumption.
  - destruct Hmid as (WR & WP & NR & NP & HT & Hgal).
    set (n' := nrows (lA nxt)) in *.
    pose proof Hwf as (_ & _ & _ & Hwf').
    pose proof (Cyc_dec kk ncc (nxt :: rest') Hrest ltac:(discriminate)) as IH. cbn [top_n hd] in IH. fold n' in IH.
    set (Bc := fun h => Cyc kk ncc (nxt :: rest') h (vzero n')).
    assert (Bc_len : forall h, length h = n' -> length (Bc h) = n').
    { intros h Lh. unfold Bc. apply (Cyc_len Seqb kk ncc (nxt :: rest') Hwf'); [exact Lh|apply vzero_length]. }
    assert (Bc_dec : forall w, length w = n' ->
              le0 (qA n' (lA nxt) (Bc w) (Bc w) - two * ip n' w (Bc w))).
    { intros w Lw. apply (dec_at_zero n' (lA nxt) (Cyc kk ncc (nxt :: rest')) IH w Lw). }
    pose proof (cgc_dec n (lA l) WA NA HsA n' (lR l) (lP l) (lA nxt) Bc WR WP NR NP HT Hgal Bc_dec Bc_len) as Dcgc.
    pose proof (cgc_len n (lA l) n' (lR l) (lP l) Bc) as Lcgc.
    assert (Lbody : it_len n (body_it kk l n' Bc)) by (apply comp_len; [|apply comp_len]; assumption).
    assert (Dbody : it_dec n (lA l) (body_it kk l n' Bc)).
    { unfold body_it. fold n. apply comp_dec; [apply comp_len; assumption| |exact DPpost].
      apply comp_dec; assumption. }
    assert (Sbody : it_sdec n (lA l) (body_it kk l n' Bc)).
    { unfold body_it. fold n. apply comp_sdec; [apply comp_len; assumption| |exact DPpost].
      apply comp_sdec; assumption. }
    assert (Ec : forall f x, length f = n -> length x = n ->
              Cyc kk ncc (l :: nxt :: rest') f x = itpow ncc (body_it kk l n' Bc) f x).
    { intros f x Lf Lx. unfold Cyc. apply (cyc_mid_eq Seqb kk ncc l nxt rest' Hwf); auto. apply zscr_wf. }
    apply (it_sdec_ext n (lA l) (itpow ncc (body_it kk l n' Bc))); [exact Ec|].
    apply itpow_sdec; assumption.
Qed.

(* ------------------------------------------------------------------ *)
(* the preconditioner apply (pre_cycles = pc + 1) *)
Definition top_A (lvls : list level) : crs :=
  lA (hd (mkLevel empty_crs empty_crs empty_crs (fun _ x t => (x, t)) (fun _ x t => (x, t)) None) lvls).

Theorem apply_energy k nc pc lvls : hier_dec lvls -> lvls <> [] ->
  forall scr g x, scratch_wf lvls scr -> length g = top_n lvls -> length x = top_n lvls ->
  let B := fst (apply k k nc (Datatypes.S pc) lvls scr g x) in
  le0 (qA (top_n lvls) (top_A lvls) B B - two * ip (top_n lvls) g B).
Proof.
  intros Hh Hne scr g x Hs Lg Lx B. unfold B.
  pose proof (hier_dec_wf _ Hh) as Hw.
  rewrite (apply_it Seqb k nc pc lvls Hw scr g x Hs Lg Lx).
  pose proof (Cyc_dec k nc lvls Hh Hne) as HD. fold (top_A lvls) in HD.
  apply (dec_at_zero (top_n lvls) (top_A lvls) (itpow (Datatypes.S pc) (Cyc k nc lvls))); [|exact Lg].
  apply itpow_dec; [apply (Cyc_len Seqb k nc lvls Hw)|exact HD].
Qed.

(* strict: <A B g, B g> < 2 <g, B g> for g <> 0 *)
Theorem apply_energy_strict k nc pc lvls : hier_dec lvls -> top_strict lvls ->
  wf (top_A lvls) = true -> sym_mat (top_n lvls) (top_A lvls) ->
  forall scr g x, scratch_wf lvls scr -> length g = top_n lvls -> length x = top_n lvls ->
  g <> vzero (top_n lvls) ->
  let B := fst (apply (Datatypes.S k) (Datatypes.S k) (Datatypes.S nc) (Datatypes.S pc) lvls scr g x) in
  lt0 (qA (top_n lvls) (top_A lvls) B B - two * ip (top_n lvls) g B).
Proof.
  intros Hh Hst WA SA scr g x Hs Lg Lx Hg B. unfold B.
  assert (Hne : lvls <> []) by (destruct lvls; [destruct Hst|discriminate]).
  pose proof (hier_dec_wf _ Hh) as Hw.
  rewrite (apply_it Seqb _ _ pc lvls Hw scr g x Hs Lg Lx).
  pose proof (Cyc_dec (Datatypes.S k) (Datatypes.S nc) lvls Hh Hne) as HD. fold (top_A lvls) in HD.
  pose proof (Cyc_sdec k nc lvls Hh Hst) as HS. fold (top_A lvls) in HS.
  set (n := top_n lvls) in *. set (A := top_A lvls) in *.
  assert (NA : nrows A = n) by (unfold A, n, top_A; destruct lvls; [congruence|reflexivity]).
  pose proof (itpow_sdec n A pc _ (Cyc_len Seqb _ _ lvls Hw) HD HS g (vzero n) Lg (vzero_length n)) as H.
  assert (Hr : res n A g (z n) <> z n) by (rewrite (res_zero Srt n A WA NA SA g Lg); exact Hg).
  specialize (H Hr). unfold dJ in H.
  pose proof (J_zero n A g) as JZ. unfold AmgProofs7.z in JZ. rewrite JZ in H. unfold J in H.
  match goal with |- lt0 ?e => replace e with (e - s0) by ring end. exact H.
Qed.

(* error form: if A u = g then the energy change is the change of <A (x - u), x - u> *)
Lemma dJ_error n (A : crs) (g x x' u : vec) : wf A = true -> nrows A = n -> sym_mat n A ->
  length g = n -> length x = n -> length x' = n -> length u = n ->
  (forall i, i < n -> Ax A u i = vget g i) ->
  dJ n A g x x' =
  qA n A (vlin s1 x' (sopp s1) u) (vlin s1 x' (sopp s1) u) -
  qA n A (vlin s1 x (sopp s1) u) (vlin s1 x (sopp s1) u).
Proof.
  intros WA NA SA Lg Lx Lx' Lu Hu.
  assert (E : forall y, length y = n ->
            qA n A (vlin s1 y (sopp s1) u) (vlin s1 y (sopp s1) u) =
            qA n A y y - two * ip n g y + qA n A u u).
  { intros y Ly.
    assert (Hy : forall j, j < n -> vget (vlin s1 y (sopp s1) u) j = vget y j + vget (vlin s0 y (sopp s1) u) j).
    { intros j Hj. rewrite !(vlin_get Srt) by congruence. ring. }
    assert (Hm : forall j, vget (vlin s0 y (sopp s1) u) j = sopp s1 * vget u j).
    { intro j. rewrite (vlin_get Srt) by congruence. ring. }
    set (d := vlin s1 y (sopp s1) u) in *. set (m := vlin s0 y (sopp s1) u) in *.
    rewrite (qA_add_l n A SA y m d d Hy), (qA_add_r n A y y m d Hy), (qA_add_r n A m y m d Hy).
    assert (EA : forall i, Ax A m i = sopp s1 * Ax A u i).
    { intro i. unfold Ax. rewrite <- (sumn_scal Srt). apply sumn_ext. intros j _. rewrite Hm. ring. }
    assert (Em : forall v, qA n A m v = sopp (qA n A u v)).
    { intro v. unfold qA. transitivity (sumn (fun i => sopp s1 * (Ax A u i * vget v i)) n).
      - apply sumn_ext. intros i _. rewrite EA. ring.
      - rewrite (sumn_scal Srt). ring. }
    assert (Ev : forall v, qA n A v m = sopp (qA n A v u)).
    { intro v. rewrite (qA_sym n A SA v m), Em. rewrite (qA_sym n A SA u v). reflexivity. }
    rewrite !Ev, !Em. rewrite (qA_sym n A SA u y).
    assert (Eg : qA n A y u = ip n g y).
    { rewrite (qA_sym n A SA y u). unfold qA, AmgProofs6.ip. apply sumn_ext. intros i Hi.
      rewrite (Hu i Hi). reflexivity. }
    rewrite Eg. unfold two. ring. }
  unfold dJ, J. rewrite (E x' Lx'), (E x Lx). ring.
Qed.

(* ------------------------------------------------------------------ *)
(* the Galerkin condition of hier_dec holds for the model's coarse operator *)
Lemma Ax_ext (M : crs) (v v' : vec) i : (forall j, vget v j = vget v' j) -> Ax M v i = Ax M v' i.
Proof. intro H. unfold Ax. apply sumn_ext. intros j _. rewrite H. reflexivity. Qed.

Lemma Ax_out (M : crs) (x : vec) i : nrows M <= i -> Ax M x i = s0.
Proof.
  intro H. unfold Ax. rewrite (sumn_ext _ (fun _ => s0)); [apply (sumn_zero Srt)|].
  intros j _. rewrite (mget_out_of_range M i j H). ring.
Qed.

Lemma mv_get (M : crs) (x : vec) i : wf M = true -> vget (mv M x) i = Ax M x i.
Proof.
  intro WM. destruct (Nat.lt_ge_cases i (nrows M)) as [Hi|Hi].
  - apply (dotrows_get Srt); assumption.
  - rewrite (Ax_out M x i Hi). unfold vget, mv. apply nth_overflow. rewrite map_length. exact Hi.
Qed.

(* a product acts as the composition *)
Lemma spgemm_Ax (M N : crs) srt (x : vec) i : wf M = true -> wf N = true ->
  Ax (spgemm_saad M N srt) x i = Ax M (mv N x) i.
Proof.
  intros WM WN. unfold Ax at 1. replace (ncols (spgemm_saad M N srt)) with (ncols N) by reflexivity.
  rewrite (sumn_ext _ (fun j => sumn (fun kk => mget M i kk * mget N kk j * vget x j) (ncols M))).
  2:{ intros j _. rewrite (spgemm_saad_dense_all Srt M N srt i j WM). apply (sumn_mul_r Srt). }
  rewrite (sumn_swap Srt). unfold Ax. apply sumn_ext. intros kk _.
  rewrite (mv_get N x kk WN). unfold Ax. rewrite <- (sumn_scal Srt). apply sumn_ext. intros j _. ring.
Qed.

Theorem galerkin_energy (A P R : crs) n n' : wf A = true -> wf P = true -> wf R = true ->
  nrows P = n -> transp n n' R P ->
  forall u : vec, qA n A (mv P u) (mv P u) = qA n' (sort_rows (galerkin A P R)) u u.
Proof.
  intros WA WP WR NP (HcR & HcP & Htr) u.
  set (pu := mv P u). set (w := mv A pu).
  (* rhs = sum_i (R w)_i u_i *)
  assert (E2 : qA n' (sort_rows (galerkin A P R)) u u = qA n' R w u).
  { unfold qA. apply sumn_ext. intros i _. f_equal.
    transitivity (Ax (galerkin A P R) u i).
    - unfold Ax. replace (ncols (sort_rows (galerkin A P R))) with (ncols (galerkin A P R)) by reflexivity.
      apply sumn_ext. intros j _. rewrite (sort_rows_dense Srt). reflexivity.
    - unfold galerkin. rewrite (spgemm_Ax R (spgemm_saad A P false) false u i WR (spgemm_saad_wf A P false WP)).
      apply Ax_ext. intro j. rewrite (mv_get _ u j (spgemm_saad_wf A P false WP)).
      rewrite (spgemm_Ax A P false u j WA WP). unfold w. rewrite (mv_get A pu j WA). reflexivity. }
  rewrite E2.
  (* lhs = <w, P u> = sum_i (R w)_i u_i *)
  transitivity (ip n w pu).
  - unfold qA, AmgProofs6.ip. apply sumn_ext. intros i _. unfold w. rewrite (mv_get A pu i WA). reflexivity.
  - rewrite (ip_sym Srt n w pu).
    rewrite (ip_Ax n P u pu w) by (intros i _; unfold pu; apply (mv_get P u i WP)).
    apply (qA_adj Srt P R n n' u w HcP HcR). intros i j Hi Hj. symmetry. apply Htr; assumption.
Qed.

End B1.

(* ------------------------------------------------------------------ *)
(* the exact coarse solve decreases the energy of a positive semi-definite matrix (field) *)
Section B1Solve.
Context {S : Scalar}.
Local Notation vec := (vec S).
Local Notation crs := (crs S).
Hypothesis Sft : Sfield S.
Hypothesis Seqb : seqb_spec S.
Let Srt : Sring S := F_R Sft.
Add Ring SRingA10b : Srt.
Hypothesis le0_0 : le0 (@s0 S).

(* <A v, v> >= 0 *)
Definition psd (n : nat) (A : crs) : Prop := forall v : vec, length v = n -> le0 (sopp (qA n A v v)).

Lemma qA_zero_l n (A : crs) (v y : vec) : (forall j, vget v j = s0) -> qA n A v y = s0.
Proof.
  intro H. unfold qA. rewrite (sumn_ext _ (fun _ => s0)); [apply (sumn_zero Srt)|].
  intros i _. unfold Ax. rewrite (sumn_ext _ (fun _ => s0)).
  - rewrite (sumn_zero Srt). ring.
  - intros j _. rewrite H. ring.
Qed.

Theorem exact_solve_dec (A : crs) : ncols A = nrows A -> wf A = true -> sym_mat (nrows A) A ->
  psd (nrows A) A -> it_dec (nrows A) A (mk_solve_exact A).
Proof.
  intros Hsq WA SA Hpsd g x Lg Lx. unfold mk_solve_exact.
  destruct (dense_solve A g) as [u|] eqn:E.
  - assert (Lu : length u = nrows A) by (apply (dense_solve_length A g u E)).
    rewrite (dJ_error Srt (nrows A) A g x u u WA eq_refl SA Lg Lx Lu Lu
               (dense_solve_correct Sft Seqb A g u Hsq Lg E)).
    rewrite (qA_zero_l (nrows A) A (vlin s1 u (sopp s1) u))
      by (intro j; rewrite (vlin_get Srt) by reflexivity; ring).
    match goal with |- le0 (s0 - ?q) => replace (s0 - q) with (sopp q) by ring end.
    apply Hpsd. apply vlin_length; assumption.
  - unfold dJ. match goal with |- le0 ?e => replace e with (@s0 S) by ring end. exact le0_0.
Qed.

End B1Solve.
