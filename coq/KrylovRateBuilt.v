(* KrylovRateBuilt.v -- C01, last clause, for hierarchies BUILT by the model (Amg.amg_init with the Galerkin
   coarse operator, standard smoothers, exact coarse solve) under the hypotheses of C02_built_contracts_wdd:
   Richardson preconditioned with any V(k,k) / W(k,k) cycle (k >= 1, pre_cycles >= 1) strictly decreases the
   energy of the error as long as the residual is not zero.  Ordered field (the smoother conditions of
   AmgSmooth3.lvl_ok need it); [sabs v * sabs v = v * v] as in C02. *)
From Amgcl Require Import Scalar Vec Crs Kernels KernelsProofs MatOps MatOpsProofs Relax RelaxProofs DenseSolve
  Amg AmgExec AmgProofs AmgProofs2 AmgProofs3 AmgProofs4 AmgProofs5 AmgProofs6 AmgProofs7 AmgProofs8
  AmgProofs9 AmgProofs10 AmgOrder AmgProofs11 AmgProofs12 AmgSmooth AmgSmooth2 AmgSmooth3
  Krylov KrylovRef KrylovProofs KrylovRate KrylovRateAmg.
From Coq Require Import Lia.
Local Open Scope S_scope.

Section Built.
Context {S : Scalar}.
Local Notation vec := (vec S).
Local Notation crs := (crs S).
Hypothesis Sft : Sfield S.
Hypothesis Seqb : seqb_spec S.
Hypothesis Ord : ordered S.
Hypothesis Habs2 : forall v : S, sabs v * sabs v = v * v.
Hypothesis Hadj : forall v : S, sadj v = v.   (* real value types: math::adjoint = id (SPAI-0 accumulates adjoint(a_ii)) *)
Let Srt : Sring S := F_R Sft.

Theorem richardson_built_amg_strict kd ce dc ml ts (M : crs) k nc pc :
  let ls := amg_init ce dc ml (@galerkin S) ts M in
  descs_ok kd ls -> top_strict_desc kd ls -> top_smoothed ls ->
  (* side conditions of C02_apply_linear_built *)
  wf M = true -> ts_wf (nrows M) ts ->
  (forall A, In (LSolve A) ls -> ncols A = nrows A /\ solvable A = true) ->
  let lvls := std_levels kd ls in
  let n := nrows M in
  let A := mat_op (sort_rows M) in
  let B := amg_B (Datatypes.S k) (Datatypes.S k) (Datatypes.S nc) (Datatypes.S pc) lvls in
  forall prm (u x0 : vec) junk nr r w,
  length u = n -> length x0 = n -> p_damping prm = s1 ->
  k_prologue norm_a prm (A u) = Go nr ->
  richardson A B prm (A u) x0 junk = (KOk r, w) ->
  forall i, k_it r = Datatypes.S i ->
  A (vsub u (rich_iter A B s1 (A u) i x0)) <> vzero n ->
  forall j, j <= i ->
  olt (qA n (sort_rows M) (vsub u (k_x r)) (vsub u (k_x r)))
      (qA n (sort_rows M) (vsub u (rich_iter A B s1 (A u) j x0)) (vsub u (rich_iter A B s1 (A u) j x0))).
Proof.
  intros ls Hd Hs Ht WM Hts Hsol lvls n A B prm u x0 junk nr r w Lu Lx Hdm Hp Hr i Hi Hne j Hj.
  destruct (amg_init_chain ce dc ml (@galerkin S) ts M) as [Hc Hh]. fold ls in Hc, Hh.
  destruct (std_levels_wf kd (@galerkin S) ls galerkin_shape Hc) as (Hwf & Hnn & _). fold lvls in Hwf, Hnn.
  pose proof (std_levels_lin Srt Seqb kd ce dc ml None ts M WM Hts Hsol) as Hlin.
  change (hier_lin lvls) in Hlin.
  assert (En : top_n lvls = n).
  { unfold lvls, std_levels. rewrite (top_n_inst _ _ _ _ Hh). apply sort_rows_nrows. }
  assert (Hl : lvl_ok kd (sort_rows M)).
  { destruct ls as [|l tl]; [destruct Hh|]. simpl in Hh. rewrite <- Hh. apply (descs_ok_A kd l tl Hd). }
  destruct Hl as (WA & SA & _). rewrite sort_rows_nrows in SA.
  destruct (built_contracts2 Sft Seqb Ord Habs2 Hadj kd ce dc ml ts M k nc pc Hd Hs Ht) as (HJ & _).
  assert (BL : forall v, length v = n -> length (B v) = n).
  { intros v Lv. unfold B. rewrite <- En in *. apply (amg_B_len Seqb _ _ _ _ lvls Hwf Hnn v Lv). }
  assert (BZ : B (vzero n) = vzero n).
  { unfold B. rewrite <- En. apply (amg_B_zero Srt Seqb _ _ _ _ lvls Hwf Hnn Hlin). }
  apply (richardson_strict_of_C02 Srt Seqb Ord n (sort_rows M) WA (sort_rows_nrows M) SA B BL BZ)
    with (prm := prm) (junk := junk) (nr := nr) (w := w) (k := i); auto.
  intros g Lg Hg. unfold B, amg_B. rewrite En.
  apply (HJ (zscr lvls) g (vzero n) (zscr_wf lvls) Lg (vzero_length n) Hg).
Qed.

End Built.
