(* Pmis.v -- C12-B: the distributed PMIS aggregation of amgcl/mpi/coarsening/pmis.hpp (block_size = 1,
   no near-null space) as a global, round-based state machine over a world of ranks.
   Definitions only; proofs: PmisProofs.v.

   World.  The unknowns 0..n-1 are distributed in contiguous strips, [parts] = list of the ranks'
   sizes (zeros allowed), [owner parts c] = the rank that owns c (Dist.v).  The state of the
   aggregation is ONE list indexed by the global unknown; entry c is what the owner of c holds in
   (loc_state[c], loc_owner[c]).  What a rank knows about the unknowns of other ranks (rem_state) is
   refreshed by Sp.exchange at the end of every round, so at the beginning of a round it is the
   owners' state [st0]; during the round a rank changes its copy only by claiming a ghost for a
   new aggregate (rem_state[k] = id), which is kept as the rank-private list [lp_gh].

   What the MPI runtime does is modelled as in Dist.v (trusted): the point-to-point messages of a
   round arrive completely, and every rank applies them in the order of its neighbour list
   (Sp.send.nbr, increasing rank), each message in the order it was filled; Sp.exchange delivers
   the owners' current values; the Allreduce of n_undone gives every rank the same sum.

   pmis.hpp                                             here
   -------------------------------------------------    -----------------------------------------
   conn_strength (337-415)                              conn
   squared_interface (144-333): S_loc, S_rem            sq_loc, sq_rem (same order of first occurrence)
   aggregates 449-463  remove lonely nodes              init_state
   aggregates 482-626  the PMIS rounds                  step / local_pass / round / rounds
   aggregates 628-703  drop empty aggregates            used_ids / new_id / renumber
   tentative_prolongation 974-1007 (no nullspace)       columns *)
From Amgcl Require Import Scalar Vec Crs MatOps Dist.
Local Open Scope S_scope.

(* ------------------------------------------------------------------------------------------ *)
(* strength of connection (needs the values)                                                   *)
Section Strength.
Context {S : Scalar}.

(* backend::diagonal(A_loc): the first entry of row i in column i; a row without one leaves the
   (uninitialised) vector entry untouched: [junk] *)
Definition dia_of (junk : S) (A : crs S) (i : nat) : S :=
  match first_col (nth i (rows A) []) i with Some v => v | None => junk end.

(* S_loc.val[j] = (c == i || (eps_dia_i * D[c] < v * v)),  eps_dia_i = eps_squared * D[i];
   for a remote entry only the second test (c != i there) *)
Definition strong_entry (junk : S) (A : crs S) (eps2 : S) (i : nat) (e : nat * S) : bool :=
  Nat.eqb (fst e) i || sltb ((eps2 * dia_of junk A i) * dia_of junk A (fst e)) (snd e * snd e).

(* the pattern of the strength matrix, rows in storage order, global columns *)
Definition conn (junk : S) (A : crs S) (eps2 : S) : list (list nat) :=
  map (fun ir => map fst (filter (strong_entry junk A eps2 (fst ir)) (snd ir))) (indexed (rows A)).
End Strength.

(* ------------------------------------------------------------------------------------------ *)
(* the graph part: everything below works on the pattern G (list of rows of global columns)     *)

Definition memb (x : nat) (l : list nat) : bool := existsb (Nat.eqb x) l.
(* keep the first occurrence of every element, in order (the marker arrays of squared_interface) *)
Definition dedup (l : list nat) : list nat :=
  fold_left (fun acc x => if memb x acc then acc else acc ++ [x]) l [].

Section Graph.
Variable parts : list nat.
Variable G : list (list nat).

Definition nnodes : nat := psum parts.
Definition rk (c : nat) : nat := owner parts c.
Definition same_rank (i c : nat) : bool := Nat.eqb (rk i) (rk c).
Definition grow (i : nat) : list nat := nth i G [].
(* A_loc / A_rem of the strength matrix: row i split by the owner of the column *)
Definition cl (i : nat) : list nat := filter (same_rank i) (grow i).
Definition cr (i : nat) : list nat := filter (fun c => negb (same_rank i c)) (grow i).
(* a row as shipped by remote_rows(): local part first, then the remote part *)
Definition nbr_row (c : nat) : list nat := cl c ++ cr c.

(* squared_interface, compute phase (264-329): remote / local columns of row i of G*G;
   S_loc is only filled for rows that have a remote column in the square *)
Definition sq_rem (i : nat) : list nat :=
  dedup (flat_map cr (cl i) ++
         flat_map (fun ca => filter (fun c => negb (same_rank i c)) (nbr_row ca)) (cr i)).
Definition sq_loc (i : nat) : list nat :=
  if is_nil (sq_rem i) then []
  else dedup (flat_map cl (cl i) ++ flat_map (fun ca => filter (same_rank i) (nbr_row ca)) (cr i)).

(* ---------------------------------------------------------------- states *)
Inductive pst := Undone | Deleted | Agg (id : nat).
Record pnode := mkNode { n_st : pst; n_own : option nat }.     (* loc_state, loc_owner (-1 = None) *)
Definition dflt_node : pnode := mkNode Deleted None.

Definition is_undone (p : pnode) : bool := match n_st p with Undone => true | _ => false end.
Definition is_deleted (p : pnode) : bool := match n_st p with Deleted => true | _ => false end.

Fixpoint upd {X} (l : list X) (c : nat) (v : X) : list X :=
  match l, c with
  | [], _ => []
  | _ :: t, O => v :: t
  | h :: t, Datatypes.S k => h :: upd t k v
  end.
Definition getn (l : list pnode) (c : nat) : pnode := nth c l dflt_node.

(* "Remove lonely nodes" (449-463): wl + wr == 1 *)
Definition lonely (i : nat) : bool := Nat.eqb (length (cl i) + length (sq_rem i)) 1.
Definition init_state : list pnode :=
  map (fun i => mkNode (if lonely i then Deleted else Undone) None) (seq 0 nnodes).

(* ---------------------------------------------------------------- one rank, one round *)
Record lpass := mkLp {
  lp_cur  : list pnode;          (* the world state; this rank writes its own unknowns only *)
  lp_gh   : list nat;            (* ghosts whose rem_state this rank has set to an id in this round *)
  lp_na   : nat;                 (* naggr of this rank *)
  lp_msgs : list (nat * nat)     (* send_pts: (global unknown, id), in the order of the push_backs *)
}.

(* rem_state[c] == undone as seen by the rank during the round *)
Definition ghost_undone (st0 : list pnode) (gh : list nat) (c : nat) : bool :=
  is_undone (getn st0 c) && negb (memb c gh).

Definition claim (r id : nat) (cur : list pnode) (c : nat) : list pnode := upd cur c (mkNode (Agg id) (Some r)).
Definition claim_if_undone (r id : nat) (cur : list pnode) (c : nat) : list pnode :=
  if is_undone (getn cur c) then claim r id cur c else cur.

Definition step (r : nat) (st0 : list pnode) (lp : lpass) (i : nat) : lpass :=
  if negb (is_undone (getn (lp_cur lp) i)) then lp
  else if negb (is_nil (sq_rem i)) then
    (* boundary point (490-551) *)
    if existsb (fun c => ghost_undone st0 (lp_gh lp) c && Nat.ltb r (rk c)) (sq_rem i) then lp
    else
      let id := lp_na lp in
      let cur1 := claim r id (lp_cur lp) i in
      (* A gives immediate neighbours: unconditionally *)
      let cur2 := fold_left (fun cu c => if Nat.eqb c i then cu else claim r id cu c) (cl i) cur1 in
      let gh2 := lp_gh lp ++ cr i in
      let ms2 := lp_msgs lp ++ map (fun c => (c, id)) (cr i) in
      (* S gives removed neighbours: the undone ones *)
      let cur3 := fold_left (fun cu c => if Nat.eqb c i then cu else claim_if_undone r id cu c) (sq_loc i) cur2 in
      let '(gh3, ms3) := fold_left (fun (a : list nat * list (nat * nat)) c =>
                                      if ghost_undone st0 (fst a) c then (fst a ++ [c], snd a ++ [(c, id)]) else a)
                                   (sq_rem i) (gh2, ms2) in
      mkLp cur3 gh3 (Datatypes.S id) ms3
  else
    (* inner point (553-581) *)
    let id := lp_na lp in
    let cur1 := claim r id (lp_cur lp) i in
    let '(cur2, nbr) := fold_left (fun (a : list pnode * list nat) c =>
                                     if Nat.eqb c i || is_deleted (getn (fst a) c) then a
                                     else (claim r id (fst a) c, snd a ++ [c]))
                                  (cl i) (cur1, []) in
    let cur3 := fold_left (fun cu k => fold_left (fun cu' c => if Nat.eqb c k then cu' else claim_if_undone r id cu' c) (cl k) cu)
                          nbr cur2 in
    mkLp cur3 (lp_gh lp) (Datatypes.S id) (lp_msgs lp).

Definition local_pass (r : nat) (st0 cur : list pnode) (na : nat) : lpass :=
  fold_left (step r st0) (seq (pbeg parts r) (psize parts r)) (mkLp cur [] na []).

(* ---------------------------------------------------------------- one round of the world *)
Record world := mkWorld { w_st : list pnode; w_na : list nat }.

(* all ranks sweep (each reads the other ranks' unknowns from the state of the beginning of the round) *)
Definition sweep_f (w : world) (a : list pnode * list nat * list (list (nat * nat))) (r : nat) :=
  let '(cur, nas, msgs) := a in
  let lp := local_pass r (w_st w) cur (nth r nas 0%nat) in
  (lp_cur lp, upd nas r (lp_na lp), msgs ++ [lp_msgs lp]).
Definition sweep (w : world) : list pnode * list nat * list (list (nat * nat)) :=
  fold_left (sweep_f w) (seq 0 (length parts)) (w_st w, w_na w, []).

(* the receive loop (594-611): senders in increasing rank order, each message in order;
   loc_owner[c] = sender, loc_state[c] = id, unconditionally *)
Definition deliver (cur : list pnode) (msgs : list (list (nat * nat))) : list pnode :=
  fold_left (fun cu dm => fold_left (fun cu' m => upd cu' (fst m) (mkNode (Agg (snd m)) (Some (fst dm)))) (snd dm) cu)
            (indexed msgs) cur.

Definition round (w : world) : world :=
  let '(cur, nas, msgs) := sweep w in mkWorld (deliver cur msgs) nas.

Definition any_undone (st : list pnode) : bool := existsb is_undone st.

(* while(true) { sweep; exchange; if (0 == allreduce(n_undone)) break; } *)
Fixpoint rounds (fuel : nat) (w : world) : option world :=
  match fuel with
  | O => None
  | Datatypes.S k => let w' := round w in if any_undone (w_st w') then rounds k w' else Some w'
  end.

Definition count_undone (st : list pnode) : nat := length (filter is_undone st).
Definition init_world : world := mkWorld init_state (map (fun _ => 0%nat) parts).
(* fuel: one round per undone unknown, and the do-while runs at least once *)
Definition pmis_fuel : nat := Datatypes.S (count_undone init_state).

(* ---------------------------------------------------------------- drop empty aggregates (628-703) *)
(* the unknowns rank r can see: its own and the ghosts of S (Sp.recv = all columns of S_rem) *)
Definition own_nodes (r : nat) : list nat := seq (pbeg parts r) (psize parts r).
Definition ghosts (r : nat) : list nat := dedup (flat_map sq_rem (own_nodes r)).
Definition member (st : list pnode) (r k c : nat) : bool :=
  match n_st (getn st c), n_own (getn st c) with
  | Agg id, Some o => Nat.eqb o r && Nat.eqb id k
  | _, _ => false
  end.
Definition used (st : list pnode) (r k : nat) : bool :=
  existsb (member st r k) (own_nodes r ++ ghosts r).
(* new_id after the partial sum: number of used ids below k *)
Definition new_id (st : list pnode) (r k : nat) : nat :=
  length (filter (used st r) (seq 0 k)).

(* own unknowns are renumbered in place (651-655); ghosts owned by the rank get a message (661-694) *)
Definition renumber_node (st : list pnode) (c : nat) (p : pnode) : pnode :=
  match n_st p, n_own p with
  | Agg id, Some o =>
      if Nat.eqb o (rk c) || memb c (ghosts o) then mkNode (Agg (new_id st o id)) (Some o) else p
  | _, _ => p
  end.
Definition renumber (w : world) : world :=
  mkWorld (map (fun cp => renumber_node (w_st w) (fst cp) (snd cp)) (indexed (w_st w)))
          (map (fun rn => new_id (w_st w) (fst rn) (snd rn)) (indexed (w_na w))).

(* ---------------------------------------------------------------- the result *)
(* tentative_prolongation without near-null space: column = state + exclusive_sum(naggr)[owner] *)
Definition column (w : world) (c : nat) : option nat :=
  match n_st (getn (w_st w) c), n_own (getn (w_st w) c) with
  | Agg id, Some o => Some (pbeg (w_na w) o + id)%nat
  | _, _ => None
  end.

Definition pmis : option (world) :=
  match rounds pmis_fuel init_world with
  | None => None
  | Some w => Some (renumber w)
  end.

Definition pmis_columns : option (list (option nat) * list nat) :=
  match pmis with
  | None => None
  | Some w => Some (map (column w) (seq 0 nnodes), w_na w)
  end.

End Graph.
