(* AmgBlockCycleSym4Cheb.v -- C02, block Chebyshev: the coefficient part of cheby_coefs_herm (AmgBlockCycleSym3Cheb.v) discharged.
   At static_matrix<T,b,b> over a field T (decidable equality, sinv 0 = 0, the pivot order of InversePivot.v, a ring
   involution sadj) the set  emb_sc = { c I : sadj c = c }  of embedded self-conjugate base scalars is closed under
   + - * unary-, math::inverse (emb_inv: inverse(c I) = c^-1 I through the LU model of detail::inverse; the zero block fails
   the assertion and takes the documented default 0 = sinv 0), the literals 2, 1/2, 1/4, std::max, and contains every
   math::norm value as soon as the Frobenius norm of T is self-conjugate.  Hence
     - (c, d) of the constructor and all alpha_k, beta_k of solve() are in emb_sc when lower, higher and the spectral radius
       estimate are (emb_sc_cd / emb_sc_al / emb_sc_be), so they are central and hermitian (emb_sc_central_herm);
     - the Gershgorin estimate of spectral_radius<scale>(A, 0) is in emb_sc (emb_sc_gershgorin, norm self-conjugate);
     - cheby_coefs_herm_embedded: cheby_coefs_herm from embedded lower / higher / Gershgorin bound + hermitian scaling
       entries (third conjunct unchanged); scale = false: nothing left (cheby_coefs_herm_embedded_noscale);
     - block_apply_herm_cheby_scalar_bounds[_norm|_noscale] and the closed forms at BlockS QcS b;
     - non-vacuity on exBH' (non-commuting 2 x 2 blocks). *)
From Coq Require Import ZifyBool.
From Amgcl Require Import Scalar Vec Crs Kernels KernelsProofs MatOps MatOpsProofs Relax DenseSolve
  Amg AmgExec AmgProofs AmgProofs2 AmgProofs3 AmgProofs4 AmgProofs6 AmgProofs7 NcRing NcKernels AmgBlockNc Cheby ChebyProofs
  BlockRelaxProofsCheby AmgBlockCycle AmgBlockCycleProofs AmgBlockCycleLin AmgBlockCycleSym AmgBlockCycleSym2
  AmgBlockCycleSym2Gs AmgBlockCycleSym2Built AmgCycleSymCheb AmgBlockCycleSym3Cheb.
From Amgcl Require Import DirectUtil Inverse StaticMat StaticMatProofs BlockInst BlockKernels NcRingBlock NcRingBlockInv
  InverseTwoSided BlockMatOpsProofs.
Local Open Scope S_scope.
Local Notation SS := Datatypes.S.

Section EmbClosed.
Variable S0 : Scalar.
Variable b : nat.
Hypothesis Sft : Sfield S0.
Hypothesis Seqb0 : seqb_spec S0.
Hypothesis sinv_0 : sinv (@s0 S0) = s0.
Hypothesis Hb : 0 < b.
Hypothesis Olt_irrefl : forall a : S0, sltb a a = false.
Hypothesis Olt_trans : forall a c d : S0, sltb a c = true -> sltb c d = true -> sltb a d = true.
Hypothesis Oabs_0 : sabs (@s0 S0) = s0.
Hypothesis Oabs_pos : forall x : S0, x <> s0 -> sltb s0 (sabs x) = true.
Hypothesis sadj_add0 : forall x y : S0, sadj (x + y) = sadj x + sadj y.
Hypothesis sadj_mul0 : forall x y : S0, sadj (x * y) = sadj x * sadj y.
Hypothesis sadj_invol0 : forall x : S0, sadj (sadj x) = x.
Let Srt : Sring S0 := F_R Sft.
Add Ring SRing4Cheb : Srt.
Add Field SField4Cheb : Sft.
Local Notation B := (BlockS S0 b).
Local Notation emb := (blk_embed S0 b).
Let HncB : ncring_theory B := BlockS_ncring S0 b Srt.

(* ---------- blk_embed is a homomorphism for every operation the constructor / solve() use ---------- *)
Lemma emb_add (x y : S0) : (emb x : B) + emb y = emb (x + y).
Proof. symmetry. apply (blk_embed_add S0 b Srt). Qed.
Lemma emb_mul (x y : S0) : (emb x : B) * emb y = emb (x * y).
Proof. symmetry. apply (blk_embed_mul S0 b Srt). Qed.
Lemma emb_sub (x y : S0) : (emb x : B) - emb y = emb (x - y).
Proof.
  cbn [ssub BlockS]. apply (blk_ext_get S0 b). intros i j Hi Hj.
  rewrite (blk_get_sub S0 b), !(blk_get_embed S0 b) by assumption. destruct (Nat.eqb i j); ring.
Qed.
Lemma emb_opp (x : S0) : - (emb x : B) = emb (- x).
Proof.
  cbn [sopp BlockS]. apply (blk_ext_get S0 b). intros i j Hi Hj.
  rewrite (blk_get_neg S0 b), !(blk_get_embed S0 b) by assumption. destruct (Nat.eqb i j); ring.
Qed.
Lemma emb_0 : (@s0 B) = emb s0.
Proof. symmetry. apply (blk_embed_0 S0 b). Qed.
Lemma emb_1 : (@s1 B) = emb s1.
Proof. symmetry. apply (blk_embed_1 S0 b). Qed.

Lemma blk_inverse_zero_none : blk_inverse (blk_zero S0 b) = None.
Proof.
  destruct (blk_inverse (blk_zero S0 b)) as [y|] eqn:E; [|reflexivity]. exfalso.
  pose proof (blk_inverse_right S0 b Sft Seqb0 sinv_0 _ _ E) as R.
  assert (G : blk_get (blk_mul S0 b (blk_zero S0 b) y) 0 0 = blk_get (blk_id S0 b) 0 0) by (rewrite R; reflexivity).
  change (blk_mul S0 b (blk_zero S0 b) y) with ((@s0 B) * (y : B)) in G.
  rewrite (nc_mul_0_l HncB) in G. change (@s0 B) with (blk_zero S0 b) in G.
  rewrite (blk_get_zero S0 b), (blk_get_id S0 b) in G by assumption. cbn [Nat.eqb] in G.
  apply (F_1_neq_0 Sft). symmetry. exact G.
Qed.

Theorem emb_inv (c : S0) : sinv (emb c : B) = emb (sinv c).
Proof.
  destruct (seqb c s0) eqn:Ec.
  - apply Seqb0 in Ec. subst c. rewrite sinv_0. rewrite (blk_embed_0 S0 b).
    cbn [sinv BlockS]. unfold blk_inv. rewrite blk_inverse_zero_none. reflexivity.
  - assert (Hc : c <> s0) by (intro Z; apply Seqb0 in Z; congruence).
    assert (L : blk_mul S0 b (emb (sinv c)) (emb c) = blk_id S0 b).
    { rewrite <- (blk_embed_mul S0 b Srt), <- (blk_embed_1 S0 b). f_equal. field. exact Hc. }
    destruct (blk_inverse_of_left_inverse S0 b Sft Seqb0 sinv_0 Olt_irrefl Olt_trans Oabs_0 Oabs_pos _ _ L) as (z & Ez).
    pose proof (blk_inverse_right S0 b Sft Seqb0 sinv_0 _ _ Ez) as R.
    cbn [sinv BlockS]. unfold blk_inv. rewrite Ez.
    pose proof (nc_mul_assoc _ HncB (emb (sinv c) : B) (emb c : B) (z : B)) as A.
    pose proof (nc_mul_1_r _ HncB (emb (sinv c) : B)) as A1. pose proof (nc_mul_1_l _ HncB (z : B)) as A2.
    cbn [smul s1 BlockS] in A, A1, A2. rewrite R, L, A1, A2 in A. symmetry. exact A.
Qed.

(* ---------- self-conjugate base scalars are closed under the field operations ---------- *)
Lemma sadj0_0 : sadj (@s0 S0) = s0.
Proof. exact (adj_0 (ncring_of_ring S0 Srt) sadj_add0). Qed.
Lemma sadj0_1 : sadj (@s1 S0) = s1.
Proof.
  transitivity (sadj (s1 * sadj (@s1 S0))).
  - rewrite sadj_mul0, sadj_invol0. ring.
  - replace (s1 * sadj (@s1 S0)) with (sadj (@s1 S0)) by ring. apply sadj_invol0.
Qed.
Lemma sadj0_opp (x : S0) : sadj (- x) = - sadj x.
Proof.
  assert (E : sadj (- x) + sadj x = s0) by (rewrite <- sadj_add0; replace (- x + x) with (@s0 S0) by ring; apply sadj0_0).
  transitivity (sadj (- x) + sadj x - sadj x); [ring|]. rewrite E. ring.
Qed.
Lemma sadj0_sub (x y : S0) : sadj (x - y) = sadj x - sadj y.
Proof. replace (x - y) with (x + - y) by ring. rewrite sadj_add0, sadj0_opp. ring. Qed.
Lemma sadj0_inv (x : S0) : sadj (sinv x) = sinv (sadj x).
Proof.
  destruct (seqb x s0) eqn:Ex.
  - apply Seqb0 in Ex. subst x. rewrite sinv_0, sadj0_0, sinv_0. reflexivity.
  - assert (Hx : x <> s0) by (intro Z; apply Seqb0 in Z; congruence).
    assert (Hax : sadj x <> s0).
    { intro Z. apply Hx. rewrite <- (sadj_invol0 x), Z. apply sadj0_0. }
    assert (E : sadj (sinv x) * sadj x = s1).
    { rewrite <- sadj_mul0. replace (sinv x * x) with (@s1 S0) by (field; exact Hx). apply sadj0_1. }
    transitivity (sadj (sinv x) * sadj x * sinv (sadj x)); [field; exact Hax|]. rewrite E. ring.
Qed.

(* the set of embedded self-conjugate base scalars *)
Definition emb_sc (a : B) : Prop := exists c : S0, a = emb c /\ sadj c = c.

Lemma emb_sc_0 : emb_sc s0.
Proof. exists s0. split; [apply emb_0|apply sadj0_0]. Qed.
Lemma emb_sc_1 : emb_sc s1.
Proof. exists s1. split; [apply emb_1|apply sadj0_1]. Qed.
Lemma emb_sc_add x y : emb_sc x -> emb_sc y -> emb_sc (x + y).
Proof. intros (c & -> & Hc) (d & -> & Hd). exists (c + d). split; [apply emb_add|]. rewrite sadj_add0, Hc, Hd. reflexivity. Qed.
Lemma emb_sc_sub x y : emb_sc x -> emb_sc y -> emb_sc (x - y).
Proof. intros (c & -> & Hc) (d & -> & Hd). exists (c - d). split; [apply emb_sub|]. rewrite sadj0_sub, Hc, Hd. reflexivity. Qed.
Lemma emb_sc_opp x : emb_sc x -> emb_sc (- x).
Proof. intros (c & -> & Hc). exists (- c). split; [apply emb_opp|]. rewrite sadj0_opp, Hc. reflexivity. Qed.
Lemma emb_sc_mul x y : emb_sc x -> emb_sc y -> emb_sc (x * y).
Proof. intros (c & -> & Hc) (d & -> & Hd). exists (c * d). split; [apply emb_mul|]. rewrite sadj_mul0, Hc, Hd. reflexivity. Qed.
Lemma emb_sc_inv x : emb_sc x -> emb_sc (sinv x).
Proof. intros (c & -> & Hc). exists (sinv c). split; [apply emb_inv|]. rewrite sadj0_inv, Hc. reflexivity. Qed.
Lemma emb_sc_div x y : emb_sc x -> emb_sc y -> emb_sc (sdiv x y).
Proof. intros Hx Hy. change (sdiv x y) with (x * sinv y). apply emb_sc_mul; [exact Hx|apply emb_sc_inv, Hy]. Qed.

(* an embedded self-conjugate scalar is central and hermitian *)
Lemma emb_sc_central_herm x : emb_sc x -> central (S := B) x /\ sadj x = x.
Proof.
  intros (c & -> & Hc). destruct (scale_herm_embed S0 b Srt c Hc sadj0_0) as [E1 E2]. split; [exact E2|exact E1].
Qed.

(* ---------- the literals, (c, d), alpha_k, beta_k ---------- *)
Lemma emb_sc_two : emb_sc (@c_two B).
Proof. unfold c_two. apply emb_sc_add; apply emb_sc_1. Qed.
Lemma emb_sc_half : emb_sc (@c_half B).
Proof. unfold c_half. apply emb_sc_inv, emb_sc_two. Qed.
Lemma emb_sc_quarter : emb_sc (@c_quarter B).
Proof. unfold c_quarter. apply emb_sc_inv, emb_sc_add; apply emb_sc_two. Qed.

Lemma emb_sc_cd (hi0 lower higher : B) : emb_sc hi0 -> emb_sc lower -> emb_sc higher ->
  emb_sc (fst (cheby_cd c_half hi0 lower higher)) /\ emb_sc (snd (cheby_cd c_half hi0 lower higher)).
Proof.
  intros H0 Hl Hh. unfold cheby_cd. cbn [fst snd]. split.
  - apply emb_sc_mul; [apply emb_sc_half|]. apply emb_sc_sub; apply emb_sc_mul; assumption.
  - apply emb_sc_mul; [apply emb_sc_half|]. apply emb_sc_add; apply emb_sc_mul; assumption.
Qed.

Lemma emb_sc_coef (c d : B) k alpha : emb_sc c -> emb_sc d -> emb_sc alpha ->
  emb_sc (fst (cheby_coef c_two c_quarter c d k alpha)) /\ emb_sc (snd (cheby_coef c_two c_quarter c d k alpha)).
Proof.
  intros Hc Hd Ha. pose proof emb_sc_two as H2. pose proof emb_sc_quarter as H4.
  destruct k as [|[|k]]; cbn [cheby_coef fst snd].
  - split; [apply emb_sc_inv, Hd|apply emb_sc_0].
  - assert (E : emb_sc (c_two * d * sinv (c_two * d * d - c * c))).
    { apply emb_sc_mul; [apply emb_sc_mul; assumption|]. apply emb_sc_inv, emb_sc_sub.
      - apply emb_sc_mul; [apply emb_sc_mul; assumption|assumption].
      - apply emb_sc_mul; assumption. }
    split; [exact E|]. apply emb_sc_sub; [apply emb_sc_mul; assumption|apply emb_sc_1].
  - assert (E : emb_sc (sinv (d - c_quarter * alpha * c * c))).
    { apply emb_sc_inv, emb_sc_sub; [assumption|].
      apply emb_sc_mul; [apply emb_sc_mul; [apply emb_sc_mul; assumption|assumption]|assumption]. }
    split; [exact E|]. apply emb_sc_sub; [apply emb_sc_mul; assumption|apply emb_sc_1].
Qed.

Lemma emb_sc_alph (c d : B) k : emb_sc c -> emb_sc d -> emb_sc (alph c d k).
Proof.
  intros Hc Hd. induction k as [|k IH]; cbn [alph]; [apply emb_sc_0|].
  apply (proj1 (emb_sc_coef c d k _ Hc Hd IH)).
Qed.
Lemma emb_sc_al (c d : B) k : emb_sc c -> emb_sc d -> emb_sc (al c d k).
Proof. intros Hc Hd. unfold al. apply (proj1 (emb_sc_coef c d k _ Hc Hd (emb_sc_alph c d k Hc Hd))). Qed.
Lemma emb_sc_be (c d : B) k : emb_sc c -> emb_sc d -> emb_sc (be c d k).
Proof. intros Hc Hd. unfold be. apply (proj2 (emb_sc_coef c d k _ Hc Hd (emb_sc_alph c d k Hc Hd))). Qed.

(* ---------- the Gershgorin bound: sums / products / maxima of Frobenius norms, all embedded base scalars ---------- *)
Lemma emb_sc_abs (Hnorm : forall l : vec S0, sadj (sm_norm l) = sm_norm l) (x : B) : emb_sc (sabs x).
Proof. exists (sm_norm (blk_list x)). split; [reflexivity|apply Hnorm]. Qed.
Lemma emb_sc_max (x y : B) : emb_sc x -> emb_sc y -> emb_sc (smax x y).
Proof. intros Hx Hy. unfold smax. destruct (sltb x y); assumption. Qed.

Lemma emb_sc_gersh_row (Hnorm : forall l : vec S0, sadj (sm_norm l) = sm_norm l) scale i (r : row B) :
  emb_sc (gersh_row scale i r).
Proof.
  unfold gersh_row.
  assert (G : forall (r : row B) (sd : B * B), emb_sc (fst sd) ->
            emb_sc (fst (fold_left (fun (sd : B * B) e =>
              (fst sd + sabs (snd e), if scale && Nat.eqb (fst e) i then snd e else snd sd)) r sd))).
  { clear r. induction r as [|e r IH]; intros sd Hsd; cbn [fold_left]; [exact Hsd|].
    apply IH. cbn [fst]. apply emb_sc_add; [exact Hsd|apply emb_sc_abs, Hnorm]. }
  specialize (G r (s0, s1) emb_sc_0).
  destruct (fold_left _ r (s0, s1)) as [s dia]. cbn [fst] in G.
  destruct scale; [|exact G]. apply emb_sc_mul; [exact G|apply emb_sc_abs, Hnorm].
Qed.

Theorem emb_sc_gershgorin (Hnorm : forall l : vec S0, sadj (sm_norm l) = sm_norm l) scale (A : crs B) :
  emb_sc (gershgorin scale A).
Proof.
  unfold gershgorin. cbv zeta.
  assert (G : forall (l : list (nat * row B)) (em : B), emb_sc em ->
            emb_sc (fold_left (fun (em : B) ir => smax em (gersh_row scale (fst ir) (snd ir))) l em)).
  { induction l as [|ir l IH]; intros em Hem; cbn [fold_left]; [exact Hem|].
    apply IH, emb_sc_max; [exact Hem|apply emb_sc_gersh_row, Hnorm]. }
  specialize (G (indexed (rows A)) s0 emb_sc_0).
  set (emax := fold_left _ (indexed (rows A)) s0) in *.
  pose proof (emb_sc_max s0 emax emb_sc_0 G) as Hr.
  destruct (sltb (smax s0 emax) s0); [apply emb_sc_add; apply emb_sc_1|exact Hr].
Qed.

(* ---------- cheby_coefs_herm from embedded bounds ---------- *)
Lemma mu_None_herm i : sadj (mu (S := B) None i) = mu None i.
Proof. unfold mu, ch_prec. exact (proj2 (emb_sc_central_herm s1 emb_sc_1)). Qed.

Theorem cheby_coefs_herm_emb_sc degree (lower higher : B) scale (A : crs B) :
  emb_sc lower -> emb_sc higher -> emb_sc (gershgorin scale A) ->
  (forall i, i < nrows A ->
     sadj (mu (snd (cheby_setup scale A (gershgorin scale A) lower higher (vzero (nrows A)))) i) =
     mu (snd (cheby_setup scale A (gershgorin scale A) lower higher (vzero (nrows A)))) i) ->
  cheby_coefs_herm (S := B) degree lower higher scale A.
Proof.
  intros Hl Hh Hg Hmu. unfold cheby_coefs_herm. cbv zeta.
  unfold cheby_setup in *.
  destruct (emb_sc_cd (gershgorin scale A) lower higher Hg Hl Hh) as [Hc Hd].
  destruct (cheby_cd c_half (gershgorin scale A) lower higher) as [c d]. cbn [fst snd] in *.
  split; [|split].
  - intros k _. apply emb_sc_central_herm, emb_sc_al; assumption.
  - intros k _. apply emb_sc_central_herm, emb_sc_be; assumption.
  - exact Hmu.
Qed.

Theorem cheby_coefs_herm_embedded degree (lo hi : S0) scale (A : crs B) :
  sadj lo = lo -> sadj hi = hi ->
  (exists rho : S0, gershgorin scale A = emb rho /\ sadj rho = rho) ->
  (forall i, i < nrows A ->
     sadj (mu (snd (cheby_setup scale A (gershgorin scale A) (emb lo : B) (emb hi) (vzero (nrows A)))) i) =
     mu (snd (cheby_setup scale A (gershgorin scale A) (emb lo : B) (emb hi) (vzero (nrows A)))) i) ->
  cheby_coefs_herm (S := B) degree (emb lo) (emb hi) scale A.
Proof.
  intros Hlo Hhi Hg Hmu. apply cheby_coefs_herm_emb_sc; [exists lo; auto|exists hi; auto|exact Hg|exact Hmu].
Qed.

(* scale = false: no scaling vector, nothing is left *)
Theorem cheby_coefs_herm_embedded_noscale degree (lo hi : S0) (A : crs B) :
  sadj lo = lo -> sadj hi = hi ->
  (exists rho : S0, gershgorin false A = emb rho /\ sadj rho = rho) ->
  cheby_coefs_herm (S := B) degree (emb lo) (emb hi) false A.
Proof.
  intros Hlo Hhi Hg. apply cheby_coefs_herm_embedded; try assumption.
  intros i _. unfold cheby_setup. destruct (cheby_cd _ _ _ _) as [c d]. cbn [snd]. apply mu_None_herm.
Qed.

(* ---------- the cycle: hierarchies of amg_init smoothed by chebyshev with embedded lower / higher ---------- *)
Let Seqb_B : seqb_spec B := BlockS_eqb S0 b Seqb0.

Theorem block_apply_herm_cheby_scalar_bounds degree (lo hi : S0) scale ce ml (sc : option B) ts (M : crs B) k nc pc :
  sadj lo = lo -> sadj hi = hi ->
  scale_herm sc -> wf M = true -> herm_mat (nrows M) M -> ts_herm (nrows M) ts ->
  (forall l, In l (amg_init ce false ml (coarse_op_of sc) ts M) ->
     (exists rho : S0, gershgorin scale (ld_A l) = emb rho /\ sadj rho = rho) /\
     (forall i, i < nrows (ld_A l) ->
        sadj (mu (snd (cheby_setup scale (ld_A l) (gershgorin scale (ld_A l)) (emb lo : B) (emb hi)
                         (vzero (nrows (ld_A l))))) i) =
        mu (snd (cheby_setup scale (ld_A l) (gershgorin scale (ld_A l)) (emb lo : B) (emb hi)
                   (vzero (nrows (ld_A l))))) i)) ->
  let lvls := block_levels S0 b (R5Cheby (S := B) degree (emb lo) (emb hi) scale)
                (amg_init ce false ml (coarse_op_of sc) ts M) in
  forall scr1 scr2 f g x1 x2,
  scratch_wf lvls scr1 -> scratch_wf lvls scr2 ->
  length f = nrows M -> length g = nrows M -> length x1 = nrows M -> length x2 = nrows M ->
  ipH (S := B) (nrows M) (fst (apply k k nc (Datatypes.S pc) lvls scr1 f x1)) g =
  ipH (S := B) (nrows M) f (fst (apply k k nc (Datatypes.S pc) lvls scr2 g x2)).
Proof.
  intros Hlo Hhi Hsc WM SM Hts Hlv.
  apply (block_apply_herm_cheby S0 b Srt Seqb0 Hb sadj_add0 sadj_mul0 sadj_invol0 degree (emb lo) (emb hi) scale
           ce ml sc ts M k nc pc Hsc WM SM Hts).
  intros l Hl. destruct (Hlv l Hl) as [Hg Hmu]. apply cheby_coefs_herm_embedded; assumption.
Qed.

(* when the Frobenius norm of the base type is self-conjugate (a real number) the Gershgorin bound IS an embedded
   self-conjugate scalar (emb_sc_gershgorin): only the scaling entries are left ... *)
Theorem block_apply_herm_cheby_scalar_bounds_norm (Hnorm : forall l : vec S0, sadj (sm_norm l) = sm_norm l)
  degree (lo hi : S0) scale ce ml (sc : option B) ts (M : crs B) k nc pc :
  sadj lo = lo -> sadj hi = hi ->
  scale_herm sc -> wf M = true -> herm_mat (nrows M) M -> ts_herm (nrows M) ts ->
  (forall l, In l (amg_init ce false ml (coarse_op_of sc) ts M) ->
     forall i, i < nrows (ld_A l) ->
        sadj (mu (snd (cheby_setup scale (ld_A l) (gershgorin scale (ld_A l)) (emb lo : B) (emb hi)
                         (vzero (nrows (ld_A l))))) i) =
        mu (snd (cheby_setup scale (ld_A l) (gershgorin scale (ld_A l)) (emb lo : B) (emb hi)
                   (vzero (nrows (ld_A l))))) i) ->
  let lvls := block_levels S0 b (R5Cheby (S := B) degree (emb lo) (emb hi) scale)
                (amg_init ce false ml (coarse_op_of sc) ts M) in
  forall scr1 scr2 f g x1 x2,
  scratch_wf lvls scr1 -> scratch_wf lvls scr2 ->
  length f = nrows M -> length g = nrows M -> length x1 = nrows M -> length x2 = nrows M ->
  ipH (S := B) (nrows M) (fst (apply k k nc (Datatypes.S pc) lvls scr1 f x1)) g =
  ipH (S := B) (nrows M) f (fst (apply k k nc (Datatypes.S pc) lvls scr2 g x2)).
Proof.
  intros Hlo Hhi Hsc WM SM Hts Hlv.
  apply (block_apply_herm_cheby_scalar_bounds degree lo hi scale ce ml sc ts M k nc pc Hlo Hhi Hsc WM SM Hts).
  intros l Hl. split; [exact (emb_sc_gershgorin Hnorm scale (ld_A l))|exact (Hlv l Hl)].
Qed.

(* ... and without diagonal scaling (scale = false, the amgcl default) NO per-level hypothesis is left *)
Theorem block_apply_herm_cheby_scalar_bounds_noscale (Hnorm : forall l : vec S0, sadj (sm_norm l) = sm_norm l)
  degree (lo hi : S0) ce ml (sc : option B) ts (M : crs B) k nc pc :
  sadj lo = lo -> sadj hi = hi ->
  scale_herm sc -> wf M = true -> herm_mat (nrows M) M -> ts_herm (nrows M) ts ->
  let lvls := block_levels S0 b (R5Cheby (S := B) degree (emb lo) (emb hi) false)
                (amg_init ce false ml (coarse_op_of sc) ts M) in
  forall scr1 scr2 f g x1 x2,
  scratch_wf lvls scr1 -> scratch_wf lvls scr2 ->
  length f = nrows M -> length g = nrows M -> length x1 = nrows M -> length x2 = nrows M ->
  ipH (S := B) (nrows M) (fst (apply k k nc (Datatypes.S pc) lvls scr1 f x1)) g =
  ipH (S := B) (nrows M) f (fst (apply k k nc (Datatypes.S pc) lvls scr2 g x2)).
Proof.
  intros Hlo Hhi Hsc WM SM Hts.
  apply (block_apply_herm_cheby_scalar_bounds_norm Hnorm degree lo hi false ce ml sc ts M k nc pc Hlo Hhi Hsc WM SM Hts).
  intros l _ i _. unfold cheby_setup. destruct (cheby_cd _ _ _ _) as [c d]. cbn [snd]. apply mu_None_herm.
Qed.

(* ---------- boolean form of the two per-level hypotheses ---------- *)
Lemma is_embedb_emb_sc (a : B) : is_embedb S0 b a = true -> emb_sc a.
Proof.
  unfold is_embedb. intro H. apply andb_prop in H as [H1 H2]. apply Seqb_B in H1. apply Seqb0 in H2.
  exists (blk_get a 0 0). split; assumption.
Qed.
Definition cheby_bounds_hermb (lo hi : S0) (scale : bool) (A : crs B) : bool :=
  is_embedb S0 b (gershgorin scale A) &&
  forallb (fun i => seqb (s := B)
             (sadj (mu (snd (cheby_setup scale A (gershgorin scale A) (emb lo : B) (emb hi) (vzero (nrows A)))) i))
             (mu (snd (cheby_setup scale A (gershgorin scale A) (emb lo : B) (emb hi) (vzero (nrows A)))) i))
          (seq 0 (nrows A)).
Lemma cheby_bounds_hermb_ok lo hi scale (A : crs B) : cheby_bounds_hermb lo hi scale A = true ->
  (exists rho : S0, gershgorin scale A = emb rho /\ sadj rho = rho) /\
  (forall i, i < nrows A ->
     sadj (mu (snd (cheby_setup scale A (gershgorin scale A) (emb lo : B) (emb hi) (vzero (nrows A)))) i) =
     mu (snd (cheby_setup scale A (gershgorin scale A) (emb lo : B) (emb hi) (vzero (nrows A)))) i).
Proof.
  unfold cheby_bounds_hermb. intro H. apply andb_prop in H as [H1 H2]. split.
  - exact (is_embedb_emb_sc _ H1).
  - rewrite forallb_forall in H2. intros i Hi. apply Seqb_B, H2, in_seq. lia.
Qed.

End EmbClosed.

(* ================================================================== *)
(* closed at the exact rationals (trivial conjugation), every block size *)
From Coq Require Import QArith Qcanon.
From Amgcl Require Import QcInst InversePivotQc AmgBlockCycleExample.
Local Close Scope Qc_scope.
Local Close Scope Q_scope.
Local Open Scope S_scope.

Theorem block_apply_herm_cheby_scalar_bounds_Qc (b : nat) (Hb : 0 < b)
  degree (lo hi : QcS) scale ce ml (sc : option (BlockS QcS b)) ts (M : crs (BlockS QcS b)) k nc pc :
  scale_herm sc -> wf M = true -> herm_mat (nrows M) M -> ts_herm (nrows M) ts ->
  (forall l, In l (amg_init ce false ml (coarse_op_of sc) ts M) ->
     (exists rho : QcS, gershgorin scale (ld_A l) = blk_embed QcS b rho /\ sadj rho = rho) /\
     (forall i, i < nrows (ld_A l) ->
        sadj (mu (snd (cheby_setup scale (ld_A l) (gershgorin scale (ld_A l)) (blk_embed QcS b lo : BlockS QcS b)
                         (blk_embed QcS b hi) (vzero (nrows (ld_A l))))) i) =
        mu (snd (cheby_setup scale (ld_A l) (gershgorin scale (ld_A l)) (blk_embed QcS b lo : BlockS QcS b)
                   (blk_embed QcS b hi) (vzero (nrows (ld_A l))))) i)) ->
  let lvls := block_levels QcS b (R5Cheby (S := BlockS QcS b) degree (blk_embed QcS b lo) (blk_embed QcS b hi) scale)
                (amg_init ce false ml (coarse_op_of sc) ts M) in
  forall scr1 scr2 f g x1 x2,
  scratch_wf lvls scr1 -> scratch_wf lvls scr2 ->
  length f = nrows M -> length g = nrows M -> length x1 = nrows M -> length x2 = nrows M ->
  ipH (S := BlockS QcS b) (nrows M) (fst (apply k k nc (Datatypes.S pc) lvls scr1 f x1)) g =
  ipH (S := BlockS QcS b) (nrows M) f (fst (apply k k nc (Datatypes.S pc) lvls scr2 g x2)).
Proof.
  exact (block_apply_herm_cheby_scalar_bounds QcS b QcS_field QcS_eqb eq_refl Hb
           InversePivotQc.QcS_lt_irrefl InversePivotQc.QcS_lt_trans InversePivotQc.QcS_abs_0 InversePivotQc.QcS_abs_pos
           (fun _ _ => eq_refl) (fun _ _ => eq_refl) (fun _ => eq_refl)
           degree lo hi scale ce ml sc ts M k nc pc eq_refl eq_refl).
Qed.
Print Assumptions block_apply_herm_cheby_scalar_bounds_Qc.

(* the Gershgorin bound of a rational block matrix is an embedded rational: only the scaling entries are left *)
Theorem block_apply_herm_cheby_scaled_Qc (b : nat) (Hb : 0 < b)
  degree (lo hi : QcS) scale ce ml (sc : option (BlockS QcS b)) ts (M : crs (BlockS QcS b)) k nc pc :
  scale_herm sc -> wf M = true -> herm_mat (nrows M) M -> ts_herm (nrows M) ts ->
  (forall l, In l (amg_init ce false ml (coarse_op_of sc) ts M) ->
     forall i, i < nrows (ld_A l) ->
        sadj (mu (snd (cheby_setup scale (ld_A l) (gershgorin scale (ld_A l)) (blk_embed QcS b lo : BlockS QcS b)
                         (blk_embed QcS b hi) (vzero (nrows (ld_A l))))) i) =
        mu (snd (cheby_setup scale (ld_A l) (gershgorin scale (ld_A l)) (blk_embed QcS b lo : BlockS QcS b)
                   (blk_embed QcS b hi) (vzero (nrows (ld_A l))))) i) ->
  let lvls := block_levels QcS b (R5Cheby (S := BlockS QcS b) degree (blk_embed QcS b lo) (blk_embed QcS b hi) scale)
                (amg_init ce false ml (coarse_op_of sc) ts M) in
  forall scr1 scr2 f g x1 x2,
  scratch_wf lvls scr1 -> scratch_wf lvls scr2 ->
  length f = nrows M -> length g = nrows M -> length x1 = nrows M -> length x2 = nrows M ->
  ipH (S := BlockS QcS b) (nrows M) (fst (apply k k nc (Datatypes.S pc) lvls scr1 f x1)) g =
  ipH (S := BlockS QcS b) (nrows M) f (fst (apply k k nc (Datatypes.S pc) lvls scr2 g x2)).
Proof.
  exact (block_apply_herm_cheby_scalar_bounds_norm QcS b QcS_field QcS_eqb eq_refl Hb
           InversePivotQc.QcS_lt_irrefl InversePivotQc.QcS_lt_trans InversePivotQc.QcS_abs_0 InversePivotQc.QcS_abs_pos
           (fun _ _ => eq_refl) (fun _ _ => eq_refl) (fun _ => eq_refl) (fun _ => eq_refl)
           degree lo hi scale ce ml sc ts M k nc pc eq_refl eq_refl).
Qed.
Print Assumptions block_apply_herm_cheby_scaled_Qc.

(* scale = false: no smoother hypothesis at all *)
Theorem block_apply_herm_cheby_noscale_Qc (b : nat) (Hb : 0 < b)
  degree (lo hi : QcS) ce ml (sc : option (BlockS QcS b)) ts (M : crs (BlockS QcS b)) k nc pc :
  scale_herm sc -> wf M = true -> herm_mat (nrows M) M -> ts_herm (nrows M) ts ->
  let lvls := block_levels QcS b (R5Cheby (S := BlockS QcS b) degree (blk_embed QcS b lo) (blk_embed QcS b hi) false)
                (amg_init ce false ml (coarse_op_of sc) ts M) in
  forall scr1 scr2 f g x1 x2,
  scratch_wf lvls scr1 -> scratch_wf lvls scr2 ->
  length f = nrows M -> length g = nrows M -> length x1 = nrows M -> length x2 = nrows M ->
  ipH (S := BlockS QcS b) (nrows M) (fst (apply k k nc (Datatypes.S pc) lvls scr1 f x1)) g =
  ipH (S := BlockS QcS b) (nrows M) f (fst (apply k k nc (Datatypes.S pc) lvls scr2 g x2)).
Proof.
  exact (block_apply_herm_cheby_scalar_bounds_noscale QcS b QcS_field QcS_eqb eq_refl Hb
           InversePivotQc.QcS_lt_irrefl InversePivotQc.QcS_lt_trans InversePivotQc.QcS_abs_0 InversePivotQc.QcS_abs_pos
           (fun _ _ => eq_refl) (fun _ _ => eq_refl) (fun _ => eq_refl) (fun _ => eq_refl)
           degree lo hi ce ml sc ts M k nc pc eq_refl eq_refl).
Qed.
Print Assumptions block_apply_herm_cheby_noscale_Qc.

Print Assumptions emb_inv.
Print Assumptions emb_sc_gershgorin.
Print Assumptions cheby_coefs_herm_embedded.
Print Assumptions cheby_coefs_herm_embedded_noscale.
Print Assumptions block_apply_herm_cheby_scalar_bounds.
Print Assumptions block_apply_herm_cheby_scalar_bounds_norm.
Print Assumptions block_apply_herm_cheby_scalar_bounds_noscale.

(* non-vacuity on the hierarchy exBH' of AmgBlockCycleExample.v (non-commuting 2 x 2 blocks, smoother on the coarsest
   level): for lo = 1/30, hi = 1 the hypotheses of block_apply_herm_cheby_scalar_bounds[_Qc] hold on both levels with and
   without diagonal scaling -- the Gershgorin bound is an embedded rational (is_embedb), the scaling entries are
   hermitian -- and the conclusion for the V(1,1)-cycle with chebyshev of degree 2 WITH diagonal scaling, evaluated inside Coq
   (scale = false: Properties_C02.C02_example_blocks_chebyshev_symmetric) *)
Example block_cheby_scalar_bounds_example :
  let lo := qc 1 30 in let hi := qc 1 1 in
  let Bop := fun scale f =>
    fst (apply 1 1 1 1 (block_levels QcS 2 (R5Cheby (S := B2) 2 (blk_embed QcS 2 lo) (blk_embed QcS 2 hi) scale) exBH')
           (map (@fresh_scratch B2) exBH') f exBZ) in
  scale_herm (S := B2) (Some exBhalf) /\ wf exBM = true /\ herm_mat (S := B2) (nrows exBM) exBM /\
  ts_herm (S := B2) (nrows exBM) exBTs /\
  length exBH' = 2 /\
  (forall l, In l exBH' -> forall scale : bool,
     (exists rho : QcS, gershgorin scale (ld_A l) = blk_embed QcS 2 rho /\ sadj rho = rho) /\
     (forall i, i < nrows (ld_A l) ->
        sadj (mu (snd (cheby_setup scale (ld_A l) (gershgorin scale (ld_A l)) (blk_embed QcS 2 lo : B2)
                         (blk_embed QcS 2 hi) (vzero (nrows (ld_A l))))) i) =
        mu (snd (cheby_setup scale (ld_A l) (gershgorin scale (ld_A l)) (blk_embed QcS 2 lo : B2)
                   (blk_embed QcS 2 hi) (vzero (nrows (ld_A l))))) i)) /\
  (* the bound is not a trivial one: on the finest level it is 10 I (scale = false) *)
  gershgorin (S := B2) false exBM <> s0 /\
  seqb (s := B2) (ipH (S := B2) 3 (Bop true exBF) exBG) (ipH (S := B2) 3 exBF (Bop true exBG)) = true.
Proof.
  cbv zeta.
  split; [apply (scale_herm_embed QcS 2 QcS_ring); reflexivity|].
  split; [vm_compute; reflexivity|].
  split; [apply (herm_matb_ok (BlockS_eqb QcS 2 QcS_eqb)); vm_compute; reflexivity|].
  split; [apply (ts_hermb_ok (BlockS_eqb QcS 2 QcS_eqb)); vm_compute; reflexivity|].
  split; [vm_compute; reflexivity|].
  split.
  { assert (H : forallb (fun l => cheby_bounds_hermb QcS 2 (qc 1 30) (qc 1 1) true (ld_A l) &&
                                 cheby_bounds_hermb QcS 2 (qc 1 30) (qc 1 1) false (ld_A l)) exBH' = true)
      by (vm_compute; reflexivity).
    rewrite forallb_forall in H. intros l Hl scale. specialize (H l Hl). apply andb_prop in H as [Ht Hf].
    destruct scale; apply (cheby_bounds_hermb_ok QcS 2 QcS_eqb (Nat.lt_0_succ 1)); assumption. }
  split.
  { intro Z. apply (BlockS_eqb QcS 2 QcS_eqb) in Z. vm_compute in Z. discriminate Z. }
  vm_cast_no_check (@eq_refl bool true).     (* evaluated once, at Qed *)
Qed.
Print Assumptions block_cheby_scalar_bounds_example.
