(* AmgScale3.v -- property C02-B2, part 3 (field, c <> 0): the modelled smoothers and the exact
   coarse solve of c*A applied to (f, x) are those of A applied to (f/c, x):
     damped Jacobi   dia(c A) = dia(A)/c            (rows with a non-zero first diagonal entry)
     SPAI-0          m(c A)   = m(A)/c              (|v|^2 = v^2, non-zero row norms)
     Gauss-Seidel    row relaxation by row relaxation (rows with a non-zero last diagonal entry)
     exact solve     Gauss-Jordan of [cA | f] and of [A | f/c] run in lock step
   hence (AmgScale2.apply_scaled) for the hierarchy built from c*M with the transfer operators of M
       apply (build (c M)) f = (1/c) * apply (build M) f.
   Rows WITHOUT a usable diagonal are excluded for a reason: damped Jacobi / Gauss-Seidel then
   use the identity as diagonal (is_zero branch of diagonal(), D = identity in gs_row), and the
   identity does not scale (C02_scaling_needs_diagonal in Properties_C02.v). *)
From Amgcl Require Import Scalar Vec Crs Kernels KernelsProofs MatOps MatOpsProofs Relax RelaxProofs DenseSolve
  Amg AmgExec AmgProofs AmgProofs2 AmgProofs3 AmgProofs4 AmgProofs5 AmgProofs9 AmgScale AmgScale2.
Local Open Scope S_scope.

Section ScaleSmooth.
Context {S : Scalar}.
Local Notation vec := (vec S).
Local Notation row := (row S).
Local Notation crs := (crs S).
Local Notation level := (@level S).
Local Notation ldesc := (@ldesc S).
Local Notation sweep := (@sweep S).
Hypothesis Sft : Sfield S.
Hypothesis Seqb : seqb_spec S.
Let Srt : Sring S := F_R Sft.
Add Ring SRingSc3 : Srt.
Add Field SFieldSc3 : Sft.

Variable c : S.
Hypothesis Hc : c <> s0.
Let ci : S := sinv c.

Lemma Hci : c * ci = s1.
Proof. unfold ci. field. exact Hc. Qed.

Local Notation sce := (sce c).
Local Notation vsc := (@vsc S).

Lemma mul_c_zero (v : S) : c * v = s0 -> v = s0.
Proof. intro H. transitivity (ci * (c * v)); [unfold ci; field; exact Hc|]. rewrite H. ring. Qed.

Lemma is_zero_scale (v : S) : is_zero (c * v) = is_zero v.
Proof.
  unfold is_zero. destruct (seqb v s0) eqn:E.
  - apply Seqb in E. subst v. apply Seqb. ring.
  - destruct (seqb (c * v) s0) eqn:E'; [|reflexivity]. apply Seqb in E'. apply mul_c_zero in E'.
    subst v. rewrite (proj2 (Seqb s0 s0) eq_refl) in E. discriminate.
Qed.

Lemma nz_is_zero (d : S) : d <> s0 -> is_zero d = false.
Proof. intro H. destruct (is_zero d) eqn:E; [|reflexivity]. apply (is_zero_true Seqb) in E. contradiction. Qed.

(* ------------------------------------------------------------------ *)
(* sweeps of the form x + w * dia .* (rhs - A x): damped Jacobi and SPAI-0 *)
Lemma diag_sweep_sim (w : S) (dia dia' : vec) (A : crs) : wf A = true ->
  length dia = nrows A -> length dia' = nrows A ->
  (forall i, i < nrows A -> vget dia' i = vget dia i * ci) ->
  sweep_sim ci (nrows A) (fun rhs x t => jacobi_sweep w dia' (mscale A c) rhs x t)
                         (fun rhs x t => jacobi_sweep w dia A rhs x t).
Proof.
  intros WA Ld Ld' Hd f x t t' Lf Lx Lt Lt'.
  assert (WA' : wf (mscale A c) = true) by (apply mscale_wf, WA).
  assert (NA' : nrows (mscale A c) = nrows A) by apply mscale_nrows.
  assert (Lfc : length (vsc ci f) = nrows A) by (rewrite vsc_length; exact Lf).
  apply vec_ext.
  - unfold jacobi_sweep. cbn [fst]. rewrite !vmul_length; rewrite ?residual_length, ?NA'; congruence.
  - unfold jacobi_sweep at 1. cbn [fst]. rewrite vmul_length by (rewrite ?residual_length, ?NA'; congruence).
    rewrite Ld'. intros i Hi.
    change (vmul w dia' (residual f (mscale A c) x t') s1 x)
      with (fst (jacobi_sweep w dia' (mscale A c) f x t')).
    rewrite (jacobi_sweep_gen Sft Seqb w dia' (mscale A c) f x t' i) by (rewrite ?NA'; assumption).
    rewrite (jacobi_sweep_gen Sft Seqb w dia A (vsc ci f) x t i) by assumption.
    rewrite (Ax_mscale Srt), (Hd i Hi), (vsc_get Srt).
    transitivity (w * vget dia i * (ci * vget f i - (c * ci) * Ax A x i) + vget x i); [ring|].
    rewrite Hci. ring.
Qed.

(* --- damped Jacobi --- *)
Lemma first_col_sce (r : row) i :
  first_col (map sce r) i = match first_col r i with Some d => Some (d * c) | None => None end.
Proof.
  induction r as [|[c' v'] r IH]; [reflexivity|]. cbn [map AmgScale.sce fst snd first_col].
  destruct (Nat.eqb c' i); [reflexivity|exact IH].
Qed.

(* every row has a first diagonal entry, and it is not zero *)
Definition jacobi_scalable (A : crs) : Prop :=
  forall i, i < nrows A -> exists d, first_col (nth i (rows A) []) i = Some d /\ d <> s0.

Lemma jacobi_dia_mscale (A : crs) (junk junk' : vec) : jacobi_scalable A ->
  forall i, i < nrows A ->
  vget (jacobi_setup (mscale A c) junk') i = vget (jacobi_setup A junk) i * ci.
Proof.
  intros HA i Hi. destruct (HA i Hi) as (d & Ed & Hd). unfold jacobi_setup.
  rewrite !diagonal_spec by (rewrite ?mscale_nrows; exact Hi).
  rewrite mscale_nth_row, first_col_sce, Ed. unfold diag_val.
  assert (Hdc : d * c <> s0).
  { intro E. apply Hd. apply mul_c_zero. rewrite (Rmul_comm Srt). exact E. }
  rewrite (nz_is_zero d Hd), (nz_is_zero (d * c) Hdc). unfold ci. field. split; assumption.
Qed.

Theorem jacobi_sweep_sim (w : S) (A : crs) (junk junk' : vec) : wf A = true -> jacobi_scalable A ->
  sweep_sim ci (nrows A)
    (fun rhs x t => jacobi_sweep w (jacobi_setup (mscale A c) junk') (mscale A c) rhs x t)
    (fun rhs x t => jacobi_sweep w (jacobi_setup A junk) A rhs x t).
Proof.
  intros WA HA. apply diag_sweep_sim; [exact WA|apply jacobi_setup_length| |].
  - rewrite jacobi_setup_length. apply mscale_nrows.
  - apply jacobi_dia_mscale, HA.
Qed.

(* --- SPAI-0 --- *)
Hypothesis Habs2 : forall v : S, sabs v * sabs v = v * v.
(* real value types: math::adjoint is the identity (spai0.hpp accumulates adjoint(a_ii) since the repair of
   finding C06-spai0-no-conj; for complex c the relation would be m(c A) = m(A) / c only up to conj(c)/c) *)
Hypothesis Hadj : forall v : S, sadj v = v.

Lemma row_norm2_acc (r : row) (a : S) :
  fold_left (fun acc (e : nat * S) => acc + sabs (snd e) * sabs (snd e)) r a = a + row_norm2 r.
Proof.
  unfold row_norm2. revert a; induction r as [|e r IH]; intro a; simpl; [ring|].
  rewrite IH, (IH (s0 + _)). ring.
Qed.

Lemma row_norm2_sce (r : row) : row_norm2 (map sce r) = row_norm2 r * (c * c).
Proof.
  induction r as [|e r IH]; [unfold row_norm2; simpl; ring|].
  unfold row_norm2 in *. cbn [map fold_left]. rewrite !row_norm2_acc. unfold row_norm2. rewrite IH.
  cbn [AmgScale.sce snd]. rewrite (Habs2 (snd e * c)), (Habs2 (snd e)). ring.
Qed.

(* no row has the squared norm zero (over an ordered field: no stored row is entirely zero) *)
Definition spai0_scalable (A : crs) : Prop :=
  forall i, i < nrows A -> row_norm2 (nth i (rows A) []) <> s0.

Lemma spai0_mscale (A : crs) : spai0_scalable A -> forall i, i < nrows A ->
  vget (spai0_setup (mscale A c)) i = vget (spai0_setup A) i * ci.
Proof.
  intros HA i Hi.
  rewrite !(fun B k => spai0_setup_get_id B k Hadj) by (rewrite ?mscale_nrows; exact Hi).
  rewrite mscale_nth_row, row_norm2_sce, (mscale_dense Srt). unfold ci. field.
  split; [exact Hc|apply HA, Hi].
Qed.

Theorem spai0_sweep_sim (A : crs) : wf A = true -> spai0_scalable A ->
  sweep_sim ci (nrows A)
    (fun rhs x t => spai0_sweep (spai0_setup (mscale A c)) (mscale A c) rhs x t)
    (fun rhs x t => spai0_sweep (spai0_setup A) A rhs x t).
Proof.
  intros WA HA.
  apply (diag_sweep_sim s1 (spai0_setup A) (spai0_setup (mscale A c)) A WA).
  - apply spai0_setup_length.
  - rewrite spai0_setup_length. apply mscale_nrows.
  - apply spai0_mscale, HA.
Qed.

(* --- Gauss-Seidel --- *)
Lemma gsoff_sce i (r : row) (x : vec) : gsoff i (map sce r) x = gsoff i r x * c.
Proof.
  induction r as [|e r IH]; simpl; [ring|]. rewrite IH. destruct (Nat.eqb (fst e) i); ring.
Qed.

Lemma gsD_sce_acc i (r : row) : forall D, gsD i (map sce r) (D * c) = gsD i r D * c.
Proof.
  unfold gsD. induction r as [|e r IH]; intro D; [reflexivity|]. cbn [map fold_left AmgScale.sce fst snd].
  destruct (Nat.eqb (fst e) i); apply IH.
Qed.

Lemma gsD_sce i (r : row) : In i (map fst r) -> forall D D', gsD i (map sce r) D' = gsD i r D * c.
Proof.
  induction r as [|e r IH]; intros Hin D D'; [destruct Hin|].
  change (gsD i (map sce (e :: r)) D') with
    (gsD i (map sce r) (if Nat.eqb (fst e) i then snd e * c else D')).
  change (gsD i (e :: r) D) with (gsD i r (if Nat.eqb (fst e) i then snd e else D)).
  destruct (Nat.eqb_spec (fst e) i) as [E|E].
  - apply gsD_sce_acc.
  - apply IH. destruct Hin as [H|H]; [contradiction|exact H].
Qed.

(* every row has a diagonal entry and the last one (the one the sweep uses) is not zero *)
Definition gs_scalable (A : crs) : Prop :=
  forall i, i < nrows A ->
    In i (map fst (nth i (rows A) [])) /\ gsD i (nth i (rows A) []) s1 <> s0.

Lemma gs_row_sce i (r : row) (f x : vec) : In i (map fst r) -> gsD i r s1 <> s0 ->
  gs_row i (map sce r) f x = gs_row i r (vsc ci f) x.
Proof.
  intros Hin Hd. rewrite !(gs_row_eq Srt). f_equal.
  rewrite (gsD_sce i r Hin s1 s1), gsoff_sce, (vsc_get Srt). unfold ci. field. split; assumption.
Qed.

Lemma gs_sweep_mscale (A : crs) (f : vec) fwd : gs_scalable A -> forall x : vec,
  gs_sweep (mscale A c) f x fwd = gs_sweep A (vsc ci f) x fwd.
Proof.
  intros HA. unfold gs_sweep. rewrite mscale_nrows.
  assert (Ho : Forall (fun i => i < nrows A) (if fwd then seq 0 (nrows A) else rev (seq 0 (nrows A)))).
  { apply Forall_forall. intros i Hi. destruct fwd; [|apply in_rev in Hi]; apply in_seq in Hi; lia. }
  revert Ho. generalize (if fwd then seq 0 (nrows A) else rev (seq 0 (nrows A))). intro order.
  induction order as [|i order IH]; intros Ho x; [reflexivity|]. cbn [fold_left].
  inversion Ho as [|? ? Hi Ho']; subst. destruct (HA i Hi) as [Hin Hd].
  rewrite mscale_nth_row, (gs_row_sce i _ f x Hin Hd). apply IH, Ho'.
Qed.

Theorem gs_sweep_sim (A : crs) fwd : gs_scalable A ->
  sweep_sim ci (nrows A) (fun rhs x t => (gs_sweep (mscale A c) rhs x fwd, t))
                         (fun rhs x t => (gs_sweep A rhs x fwd, t)).
Proof. intros HA f x t t' _ _ _ _. cbn [fst]. apply gs_sweep_mscale, HA. Qed.

Lemma gs_diag_ok_scalable (A : crs) : AmgProofs8.gs_diag_ok A -> gs_scalable A.
Proof.
  intros H i Hi. destruct (H i Hi) as [Hd He]. split; [|exact Hd].
  destruct (in_dec Nat.eq_dec i (map fst (nth i (rows A) []))) as [Hin|Hnin]; [exact Hin|].
  exfalso. unfold mget in He. rewrite (rget_notin Srt _ i Hnin) in He. apply Hd. symmetry. exact He.
Qed.

(* ------------------------------------------------------------------ *)
(* the exact coarse solve *)
Lemma upd2_map_r (g g' : S -> S -> S) (h : S -> S) (p r : vec) :
  (forall pv rv, g pv (h rv) = h (g' pv rv)) -> upd2 g p (map h r) = map h (upd2 g' p r).
Proof.
  intro H. revert r; induction p as [|a p IH]; intros [|b r]; simpl; try reflexivity.
  rewrite H, IH. reflexivity.
Qed.

Lemma pick_pivot_vsc k (l : list vec) :
  pick_pivot k (map (vsc c) l) =
  match pick_pivot k l with Some (p, rest) => Some (vsc c p, map (vsc c) rest) | None => None end.
Proof.
  induction l as [|r l IH]; [reflexivity|]. cbn [map pick_pivot].
  rewrite (vsc_get Srt), is_zero_scale. destruct (is_zero (vget r k)); [|reflexivity].
  rewrite IH. destruct (pick_pivot k l) as [[p rest]|]; reflexivity.
Qed.

Lemma gj_vsc steps : forall k (done todo : list vec),
  gj steps k done (map (vsc c) todo) = gj steps k done todo.
Proof.
  induction steps as [|steps IH]; intros k done todo; [reflexivity|]. cbn [gj].
  rewrite pick_pivot_vsc. destruct (pick_pivot k todo) as [[p rest]|] eqn:E; [|reflexivity].
  destruct (pick_spec k todo p rest E) as (Hz & _). apply (is_zero_false Seqb) in Hz.
  assert (Ep : scale_row (sinv (vget (vsc c p) k)) (vsc c p) = scale_row (sinv (vget p k)) p).
  { unfold scale_row, AmgScale2.vsc. rewrite map_map. apply map_ext. intro v.
    change (vget (map (fun y : S => c * y) p) k) with (vget (vsc c p) k). rewrite (vsc_get Srt).
    field. split; assumption. }
  cbv zeta. rewrite Ep. set (p' := scale_row (sinv (vget p k)) p).
  rewrite map_map.
  rewrite (map_ext (fun r => sub_row (vsc c r) (vget (vsc c r) k) p')
                   (fun r => vsc c (sub_row r (vget r k) p'))).
  - rewrite <- (map_map (fun r => sub_row r (vget r k) p') (vsc c)). apply IH.
  - intro r. rewrite (vsc_get Srt). unfold sub_row, AmgScale2.vsc.
    apply upd2_map_r. intros pv rv. ring.
Qed.

Lemma dense_rows_mscale (A : crs) : dense_rows (mscale A c) = map (vsc c) (dense_rows A).
Proof.
  unfold dense_rows. rewrite mscale_rows, mscale_ncols, !map_map. apply map_ext. intro r.
  unfold AmgScale2.vsc. rewrite map_map. apply map_ext. intro j.
  unfold AmgScale.sce. rewrite (rget_map_scale Srt). ring.
Qed.

Lemma aug_vsc (D : list vec) : forall f : vec,
  map (fun rb => fst rb ++ [snd rb]) (combine (map (vsc c) D) f) =
  map (vsc c) (map (fun rb => fst rb ++ [snd rb]) (combine D (vsc ci f))).
Proof.
  induction D as [|d D IH]; intros [|fi f]; try reflexivity.
  cbn [map combine AmgScale2.vsc fst snd]. f_equal; [|apply IH].
  unfold AmgScale2.vsc. rewrite map_app. cbn [map]. f_equal. f_equal.
  transitivity ((c * ci) * fi); [rewrite Hci; ring|ring].
Qed.

Theorem dense_solve_mscale (A : crs) (f : vec) : dense_solve (mscale A c) f = dense_solve A (vsc ci f).
Proof.
  unfold dense_solve. rewrite mscale_nrows, dense_rows_mscale, aug_vsc, gj_vsc. reflexivity.
Qed.

Theorem solve_exact_sim (A : crs) :
  solve_sim ci (nrows A) (mk_solve_exact (mscale A c)) (mk_solve_exact A).
Proof. intros f x _ _. unfold mk_solve_exact. rewrite dense_solve_mscale. reflexivity. Qed.

Lemma solvable_mscale (A : crs) : solvable (mscale A c) = solvable A.
Proof.
  unfold solvable. rewrite dense_solve_mscale, mscale_nrows.
  replace (vsc ci (vzero (nrows A))) with (@vzero S (nrows A)); [reflexivity|].
  unfold AmgScale2.vsc, vzero. induction (nrows A) as [|m IH]; [reflexivity|].
  cbn [repeat map]. rewrite <- IH. f_equal. ring.
Qed.

(* ------------------------------------------------------------------ *)
(* the instantiated hierarchy *)
Definition kind_scalable (k : @relax_kind S) (A : crs) : Prop :=
  match k with
  | RJacobi _ => jacobi_scalable A
  | RSpai0 => spai0_scalable A
  | RGS => gs_scalable A
  end.

Lemma mk_relax_std_sim (k : @relax_kind S) (A : crs) : wf A = true -> kind_scalable k A ->
  sweep_sim ci (nrows A) (fst (mk_relax_std k (mscale A c))) (fst (mk_relax_std k A)) /\
  sweep_sim ci (nrows A) (snd (mk_relax_std k (mscale A c))) (snd (mk_relax_std k A)).
Proof.
  intros WA HA. destruct k as [w| |]; cbn [mk_relax_std fst snd kind_scalable] in *.
  - split; apply jacobi_sweep_sim; assumption.
  - split; apply spai0_sweep_sim; assumption.
  - split; apply gs_sweep_sim; assumption.
Qed.

Lemma id_sweep_sim n : sweep_sim ci n (fun (_ x t : vec) => (x, t)) (fun (_ x t : vec) => (x, t)).
Proof. intros f x t t' _ _ _ _. reflexivity. Qed.

(* level by level: matrices well formed, smoothed levels scalable *)
Fixpoint descs_scalable (k : @relax_kind S) (ls : list ldesc) : Prop :=
  match ls with
  | [] => True
  | LMid A P R :: tl => wf A = true /\ kind_scalable k A /\ wf R = true /\ descs_scalable k tl
  | LLast A :: tl => wf A = true /\ kind_scalable k A /\ descs_scalable k tl
  | LSolve A :: tl => wf A = true /\ descs_scalable k tl
  end.

Theorem std_levels_sim (k : @relax_kind S) (ls : list ldesc) : descs_scalable k ls ->
  hier_sim c ci (std_levels k (map (dsc c) ls)) (std_levels k ls).
Proof.
  unfold std_levels. induction ls as [|l tl IH]; intro H; [exact I|].
  cbn [map hier_sim].
  destruct l as [A P R|A|A]; cbn [descs_scalable] in H; cbn [dsc instantiate lA lP lR lpre lpost lsolve].
  - destruct H as (WA & HA & WR & Htl). destruct (mk_relax_std_sim k A WA HA) as [S1 S2].
    repeat split; auto.
  - destruct H as (WA & HA & Htl). destruct (mk_relax_std_sim k A WA HA) as [S1 S2].
    repeat split; auto; try (intros _; reflexivity).
  - destruct H as (WA & Htl).
    repeat split; auto using id_sweep_sim, solve_exact_sim; try (intros _; reflexivity).
Qed.

(* B2, closed form: the hierarchy built from c*M with the transfer operators of M, same smoother
   kind and parameters, applied to f, gives the preconditioner of M applied to f/c -- and, the
   preconditioner being linear, (1/c) times the preconditioner of M applied to f.
   Any npre, npost, ncycle, pre_cycles = pc + 1; Galerkin or re-scaled Galerkin coarse operators. *)
Theorem built_apply_sim k ce dc ml sc ts (M : crs) npre npost ncycle pc :
  let ls := amg_init ce dc ml (coarse_op_of sc) ts M in
  let ls' := amg_init ce dc ml (coarse_op_of sc) ts (mscale M c) in
  descs_scalable k ls ->
  forall scr' scr f x x', scratch_wf (std_levels k ls') scr' -> scratch_wf (std_levels k ls) scr ->
  length f = nrows M -> length x = nrows M -> length x' = nrows M ->
  fst (apply npre npost ncycle (Datatypes.S pc) (std_levels k ls') scr' f x') =
  fst (apply npre npost ncycle (Datatypes.S pc) (std_levels k ls) scr (vsc ci f) x).
Proof.
  intros ls ls' Hd scr' scr f x x' Hs' Hs Lf Lx Lx'.
  assert (E' : ls' = map (dsc c) ls).
  { unfold ls', ls. apply (amg_init_mscale c ce dc ml _ (coarse_op_of_scales Srt c sc)). }
  destruct (amg_init_chain ce dc ml (coarse_op_of sc) ts M) as [Hch Hh]. fold ls in Hch, Hh.
  destruct (amg_init_chain ce dc ml (coarse_op_of sc) ts (mscale M c)) as [Hch' Hh']. fold ls' in Hch', Hh'.
  destruct (std_levels_wf k _ ls (coarse_op_of_shape sc) Hch) as (Hw & Hne & _).
  destruct (std_levels_wf k _ ls' (coarse_op_of_shape sc) Hch') as (Hw' & _ & _).
  assert (En : top_n (std_levels k ls) = nrows M).
  { unfold std_levels. rewrite (top_n_inst _ _ _ _ Hh). apply sort_rows_nrows. }
  pose proof (std_levels_sim k ls Hd) as Hsim. rewrite <- E' in Hsim.
  apply (apply_sim Srt Seqb c ci Hci npre npost ncycle pc _ _ Hsim Hw' Hw Hne); congruence.
Qed.

Theorem built_apply_scaled k ce dc ml sc ts (M : crs) npre npost ncycle pc :
  let ls := amg_init ce dc ml (coarse_op_of sc) ts M in
  let ls' := amg_init ce dc ml (coarse_op_of sc) ts (mscale M c) in
  wf M = true -> ts_wf (nrows M) ts ->
  (forall A, In (LSolve A) ls -> ncols A = nrows A /\ solvable A = true) ->
  descs_scalable k ls ->
  forall scr' scr f x x', scratch_wf (std_levels k ls') scr' -> scratch_wf (std_levels k ls) scr ->
  length f = nrows M -> length x = nrows M -> length x' = nrows M ->
  fst (apply npre npost ncycle (Datatypes.S pc) (std_levels k ls') scr' f x') =
  vsc ci (fst (apply npre npost ncycle (Datatypes.S pc) (std_levels k ls) scr f x)).
Proof.
  intros ls ls' WM Hts Hsol Hd scr' scr f x x' Hs' Hs Lf Lx Lx'.
  assert (E' : ls' = map (dsc c) ls).
  { unfold ls', ls. apply (amg_init_mscale c ce dc ml _ (coarse_op_of_scales Srt c sc)). }
  destruct (amg_init_chain ce dc ml (coarse_op_of sc) ts M) as [Hch Hh]. fold ls in Hch, Hh.
  destruct (amg_init_chain ce dc ml (coarse_op_of sc) ts (mscale M c)) as [Hch' Hh']. fold ls' in Hch', Hh'.
  destruct (std_levels_wf k _ ls (coarse_op_of_shape sc) Hch) as (_ & Hne & _).
  destruct (std_levels_wf k _ ls' (coarse_op_of_shape sc) Hch') as (Hw' & _ & _).
  pose proof (std_levels_lin Srt Seqb k ce dc ml sc ts M WM Hts Hsol) as Hl. fold ls in Hl.
  assert (En : top_n (std_levels k ls) = nrows M).
  { unfold std_levels. rewrite (top_n_inst _ _ _ _ Hh). apply sort_rows_nrows. }
  pose proof (std_levels_sim k ls Hd) as Hsim. rewrite <- E' in Hsim.
  apply (apply_scaled Srt Seqb c ci Hci npre npost ncycle pc _ _ Hsim Hw' Hl Hne); congruence.
Qed.

End ScaleSmooth.
