(* Spai0Inst.v -- the two laws of math::adjoint that the SPAI-0 statements with `sadj (mget A i i)` need
   (sadj (a + b) = sadj a + sadj b, sadj 0 = 0; RelaxProofs.spai0_sweep_spec_sadj, BlockRelaxProofs.nc_spai0_sweep_spec_sadj)
   discharged at the value types of the tie:
     QcS                    sadj = id                         (real value types: the statement from before the repair)
     ComplexS S0            conjugation                       (ComplexInst.conj_add, conj_0; S0 any commutative ring)
     BlockS S0 b            transpose of the cell-wise adjoint (BlockMatOpsProofs.BlockS_adj_add, BlockS_adj_0)
   Repair of finding C06-spai0-no-conj (spai0.hpp: num += math::adjoint(v)). *)
From Amgcl Require Import Scalar QcInst Vec Crs Kernels KernelsProofs MatOps Relax RelaxProofs ComplexInst
  StaticMat BlockInst NcRing NcRingBlock NcKernels BlockRelaxProofs BlockMatOpsProofs.
Local Open Scope S_scope.

Lemma QcS_adj_id (a : T QcS) : sadj a = a.
Proof. reflexivity. Qed.

Theorem spai0_sweep_Qc (A : crs QcS) (rhs x tmp : vec QcS) i :
  wf A = true ->
  length rhs = nrows A -> length x = nrows A -> length tmp = nrows A -> i < nrows A ->
  vget (fst (spai0_sweep (spai0_setup A) A rhs x tmp)) i =
  vget x i + sinv (row_norm2 (nth i (rows A) [])) * mget A i i * (vget rhs i - Ax A x i).
Proof. exact (spai0_sweep_spec_id QcS_field QcS_eqb A rhs x tmp i QcS_adj_id). Qed.

Section ComplexValues.
Variable S0 : Scalar.
Hypothesis Srt : Sring S0.
Hypothesis Seqb0 : seqb_spec S0.
Local Notation C := (ComplexS S0).

Theorem spai0_sweep_complex (A : crs C) (rhs x tmp : vec C) i :
  wf A = true ->
  length rhs = nrows A -> length x = nrows A -> length tmp = nrows A -> i < nrows A ->
  vget (fst (spai0_sweep (spai0_setup A) A rhs x tmp)) i =
  vget x i + sinv (row_norm2 (nth i (rows A) [])) * sadj (mget A i i) * (vget rhs i - Ax A x i).
Proof.
  exact (nc_spai0_sweep_spec_sadj (ncring_of_ring C (ComplexS_ring S0 Srt)) (ComplexS_eqb S0 Seqb0)
           A rhs x tmp i (conj_add S0 Srt) (conj_0 S0 Srt)).
Qed.

Theorem spai0_setup_complex (A : crs C) i : i < nrows A ->
  vget (spai0_setup A) i = sinv (row_norm2 (nth i (rows A) [])) * sadj (mget A i i).
Proof.
  exact (nc_spai0_setup_get_sadj (ncring_of_ring C (ComplexS_ring S0 Srt)) A i (conj_add S0 Srt) (conj_0 S0 Srt)).
Qed.
End ComplexValues.

Section BlockValues.
Variable S0 : Scalar.
Variable b : nat.
Hypothesis Srt : Sring S0.
Hypothesis Seqb0 : seqb_spec S0.
Hypothesis sadj_add0 : forall x y : S0, sadj (x + y) = sadj x + sadj y.
Local Notation B := (BlockS S0 b).

Theorem spai0_sweep_blocks (A : crs B) (rhs x tmp : vec B) i :
  wf A = true ->
  length rhs = nrows A -> length x = nrows A -> length tmp = nrows A -> i < nrows A ->
  vget (fst (spai0_sweep (spai0_setup A) A rhs x tmp)) i =
  vget x i + sinv (row_norm2 (nth i (rows A) [])) * sadj (mget A i i) * (vget rhs i - Ax A x i).
Proof.
  exact (nc_spai0_sweep_spec_sadj (BlockS_ncring S0 b Srt) (BlockS_eqb S0 b Seqb0)
           A rhs x tmp i (BlockS_adj_add S0 b sadj_add0) (BlockS_adj_0 S0 b Srt sadj_add0)).
Qed.
End BlockValues.

Theorem spai0_sweep_blocks_Qc (b : nat) (A : crs (BlockS QcS b)) (rhs x tmp : vec (BlockS QcS b)) i :
  wf A = true ->
  length rhs = nrows A -> length x = nrows A -> length tmp = nrows A -> i < nrows A ->
  vget (fst (spai0_sweep (spai0_setup A) A rhs x tmp)) i =
  vget x i + sinv (row_norm2 (nth i (rows A) [])) * sadj (mget A i i) * (vget rhs i - Ax A x i).
Proof. exact (spai0_sweep_blocks QcS b QcS_ring QcS_eqb (fun _ _ => eq_refl) A rhs x tmp i). Qed.

Theorem spai0_sweep_complex_Qc (A : crs CQcS) (rhs x tmp : vec CQcS) i :
  wf A = true ->
  length rhs = nrows A -> length x = nrows A -> length tmp = nrows A -> i < nrows A ->
  vget (fst (spai0_sweep (spai0_setup A) A rhs x tmp)) i =
  vget x i + sinv (row_norm2 (nth i (rows A) [])) * sadj (mget A i i) * (vget rhs i - Ax A x i).
Proof. exact (spai0_sweep_complex QcS QcS_ring QcS_eqb A rhs x tmp i). Qed.
