(* AmgBlockCycleSym4Solve.v -- C02 for block value types: the coarse direct solver [mk_solve_block] relative to the
   predicate "column vector" (static_matrix<T,b,1> embedded as a block whose columns 1..b-1 are zero), stated
   algebraically as  v_i * E_00 = v_i  with the matrix unit E_00.
     (1) the solver returns column vectors (when the incoming x is one: the failure branch returns x);
     (2) on column-shaped right-hand sides the solver of a hermitian block matrix is self-adjoint for the block-valued
         form ipH (AmgBlockCycleSym3Solve.v refutes the statement for arbitrary block vectors). *)
From Coq Require Import QArith Qcanon.
From Amgcl Require Import QcInst AmgBlockCycleExample.
From Amgcl Require Import Scalar Vec Crs Kernels KernelsProofs MatOps MatOpsProofs Relax DenseSolve
  Amg AmgExec AmgProofs AmgProofs2 AmgProofs3 AmgProofs4 AmgProofs5 AmgProofs9 NcRing NcKernels NcKernelsProofs
  AmgBlockNc AmgBlockCycle AmgBlockCycleProofs AmgBlockCycleLin AmgBlockCycleSym
  DirectUtil Inverse StaticMat StaticMatProofs BlockInst BlockKernels NcRingBlock BlockMatOpsProofs BlockProofs.
Local Close Scope Qc_scope.
Local Close Scope Q_scope.
Local Open Scope S_scope.

Section BlockSolveCol.
Variable S0 : Scalar.
Variable b : nat.
Hypothesis Srt : Sring S0.
Hypothesis Hb : 0 < b.
Hypothesis sadj_add0 : forall x y : S0, sadj (x + y) = sadj x + sadj y.
Add Ring SRingBSC : Srt.
Local Notation B := (BlockS S0 b).
Let HncB : ncring_theory B := BlockS_ncring S0 b Srt.
Let Hnc0 : ncring_theory S0 := ncring_of_ring S0 Srt.

(* the matrix unit E_00 *)
Definition blk_e00 : B := blk_of_fun S0 b (fun i j => if Nat.eqb i 0 && Nat.eqb j 0 then s1 else s0).
(* column vectors: every entry is fixed by right multiplication with E_00 *)
Definition colvecB (v : vec B) : Prop :=
  forall i, smul (s := B) (vget (S := B) v i) blk_e00 = vget (S := B) v i.

Lemma blk_get_e00 i j : i < b -> j < b -> blk_get blk_e00 i j = if Nat.eqb i 0 && Nat.eqb j 0 then s1 else s0.
Proof. intros Hi Hj. unfold blk_e00. apply (blk_get_of_fun S0 b); assumption. Qed.

(* x * E_00 keeps column 0 and clears the other columns *)
Lemma blk_get_mul_e00 (x : B) r s : r < b -> s < b ->
  blk_get (smul (s := B) x blk_e00) r s = if Nat.eqb s 0 then blk_get x r 0 else s0.
Proof.
  intros Hr Hs. cbn [smul BlockS]. rewrite (blk_get_mul S0 b) by assumption.
  rewrite (sumn_ext _ (fun k => blk_get x r k * (if Nat.eqb k 0 then (if Nat.eqb s 0 then s1 else s0) else s0))).
  2:{ intros k Hk. rewrite blk_get_e00 by assumption. destruct (Nat.eqb k 0), (Nat.eqb s 0); reflexivity. }
  rewrite (sumn_delta_r' S0 Srt). apply Nat.ltb_lt in Hb. rewrite Hb.
  destruct (Nat.eqb s 0); ring.
Qed.

Lemma blk_e00_idem : smul (s := B) blk_e00 blk_e00 = blk_e00.
Proof.
  apply (blk_ext_get S0 b). intros i j Hi Hj. rewrite blk_get_mul_e00 by assumption.
  rewrite !blk_get_e00 by assumption. destruct (Nat.eqb i 0), (Nat.eqb j 0); reflexivity.
Qed.

Lemma colvecB_cells (v : vec B) : colvecB v ->
  forall i r s, r < b -> s < b -> s <> 0 -> blk_get (vget (S := B) v i) r s = s0.
Proof.
  intros H i r s Hr Hs Hne. rewrite <- (H i). rewrite blk_get_mul_e00 by assumption.
  destruct (Nat.eqb_spec s 0); [contradiction|reflexivity].
Qed.

(* every inhabitant of the carrier of BlockS is a well-formed b x b buffer: no side condition on the entries *)
Lemma colvecB_intro (v : vec B) :
  (forall i, i < length v -> forall r s, r < b -> s < b -> s <> 0 -> blk_get (vget (S := B) v i) r s = s0) ->
  colvecB v.
Proof.
  intros H i. destruct (Nat.ltb_spec i (@length (T B) v)) as [Hi|Hi].
  - apply (blk_ext_get S0 b). intros r s Hr Hs. rewrite blk_get_mul_e00 by assumption.
    destruct (Nat.eqb_spec s 0) as [->|Hne]; [reflexivity|]. symmetry. apply H; assumption.
  - unfold vget. rewrite nth_overflow by exact Hi. apply (nc_mul_0_l HncB).
Qed.

Lemma colvecB_is_col (v : vec B) : colvecB v <-> forall i, is_col S0 b (vget (S := B) v i).
Proof.
  split.
  - intros H i r s Hr Hs. apply colvecB_cells; try assumption; lia.
  - intro H. apply colvecB_intro. intros i _ r s Hr Hs Hne. apply H; lia.
Qed.

Lemma bvec_of_flat_colvec (y : vec S0) : colvecB (bvec_of_flat S0 b y).
Proof. apply colvecB_is_col. intro i. apply (bvec_of_flat_is_col S0 b). Qed.

(* (1) the coarse solve returns column vectors *)
Theorem mk_solve_block_colvec (A : crs B) (rhs x : vec B) : colvecB x -> colvecB (mk_solve_block S0 b A rhs x).
Proof.
  intro Hx. unfold mk_solve_block.
  destruct (dense_solve (bexpand S0 b A) (flat_of_bvec S0 b rhs)) as [y|]; [apply bvec_of_flat_colvec|exact Hx].
Qed.

(* ---- the expanded matrix, cell by cell ---- *)
Lemma rget_run (c : nat) (g : nat -> S0) n j :
  rget (map (fun t => (c + t, g t)%nat) (seq 0 n)) j = if Nat.leb c j && Nat.ltb j (c + n)%nat then g (j - c)%nat else s0.
Proof.
  induction n as [|n IH].
  - simpl map. rewrite Nat.add_0_r, (nc_rget_nil (S := S0)).
    destruct (Nat.leb_spec c j), (Nat.ltb_spec j c); try lia; reflexivity.
  - rewrite seq_S, map_app, (nc_rget_app Hnc0), IH. simpl map. rewrite (nc_rget_single Hnc0). simpl Nat.add.
    destruct (Nat.eqb_spec (c + n)%nat j) as [E|E].
    + subst j. replace (c + n - c)%nat with n by lia.
      destruct (Nat.leb_spec c (c + n)%nat), (Nat.ltb_spec (c + n)%nat (c + n)%nat), (Nat.ltb_spec (c + n)%nat (c + Datatypes.S n)%nat);
        try lia; cbn [andb]; ring.
    + destruct (Nat.leb_spec c j), (Nat.ltb_spec j (c + n)%nat), (Nat.ltb_spec j (c + Datatypes.S n)%nat);
        try lia; cbn [andb]; ring.
Qed.

Lemma rget_bexpand_row (R : row B) r J s : r < b -> s < b ->
  rget (bexpand_row S0 b R r) (J * b + s)%nat = blk_get (rget (S := B) R J) r s.
Proof.
  intros Hr Hs. induction R as [|e R IH].
  - simpl. symmetry. apply (blk_get_zero S0 b); assumption.
  - unfold bexpand_row in *. simpl flat_map. rewrite (nc_rget_app Hnc0), IH.
    rewrite (nc_rget_cons HncB). cbn [sadd BlockS]. rewrite (blk_get_add S0 b) by assumption. f_equal.
    etransitivity; [exact (rget_run (fst e * b)%nat (fun t => blk_get (snd e) r t) b (J * b + s)%nat)|]. cbv beta.
    destruct (Nat.eqb_spec (fst e) J) as [E|E].
    + rewrite E. replace (J * b + s - J * b)%nat with s by lia.
      destruct (Nat.leb_spec (J * b)%nat (J * b + s)%nat), (Nat.ltb_spec (J * b + s)%nat (J * b + b)%nat); try lia. reflexivity.
    + replace (Nat.leb (fst e * b)%nat (J * b + s)%nat && Nat.ltb (J * b + s)%nat (fst e * b + b)%nat) with false.
      * symmetry. apply (blk_get_zero S0 b); assumption.
      * symmetry. apply andb_false_iff.
        destruct (Nat.leb_spec (fst e * b)%nat (J * b + s)%nat); [|left; reflexivity].
        destruct (Nat.ltb_spec (J * b + s)%nat (fst e * b + b)%nat); [|right; reflexivity].
        exfalso. apply E. nia.
Qed.

(* entry (I*b+r, J*b+s) of the expanded matrix is cell (r,s) of block (I,J) *)
Theorem mget_bexpand (A : crs B) I J r s : I < nrows A -> r < b -> s < b ->
  mget (bexpand S0 b A) (I * b + r)%nat (J * b + s)%nat = blk_get (mget (S := B) A I J) r s.
Proof.
  intros HI Hr Hs. unfold mget at 1. unfold bexpand. cbn [rows].
  rewrite (nth_flat_map_const (fun R => map (bexpand_row S0 b R) (seq 0 b)) (rows A) b I r [] [])
    by (try assumption; intro R; rewrite map_length, seq_length; reflexivity).
  rewrite nth_map_seq by exact Hr. apply rget_bexpand_row; assumption.
Qed.

(* the product with the expanded matrix, read block-wise *)
Theorem Ax_bexpand (A : crs B) (y : vec S0) I r : I < nrows A -> r < b ->
  Ax (bexpand S0 b A) y (I * b + r)%nat =
  sumn (fun J => sumn (fun s => blk_get (mget (S := B) A I J) r s * vget y (J * b + s)%nat) b) (ncols A).
Proof.
  intros HI Hr. unfold Ax. cbn [bexpand ncols].
  rewrite <- (sumn_flat S0 b Srt Hb). apply sumn_ext. intros J _. apply sumn_ext. intros s Hs.
  rewrite mget_bexpand by assumption. reflexivity.
Qed.

(* a hermitian block matrix expands to a hermitian scalar matrix *)
Theorem bexpand_herm (A : crs B) : herm_mat (S := B) (nrows A) A ->
  herm_mat (S := S0) (nrows A * b)%nat (bexpand S0 b A).
Proof.
  intros [Hc Hh]. split; [cbn [bexpand ncols]; rewrite Hc; reflexivity|].
  intros i j Hi Hj.
  destruct (idx_split _ _ _ Hi) as (HI & Hr & Ei). destruct (idx_split _ _ _ Hj) as (HJ & Hs & Ej).
  rewrite Ei, Ej. rewrite !mget_bexpand by assumption.
  rewrite (Hh _ _ HI HJ). apply (BlockS_adj_get S0 b); assumption.
Qed.

(* ---- the block-valued form on column vectors ---- *)
Lemma sadj_00 : sadj (@s0 S0) = s0.
Proof. exact (adj_0 Hnc0 sadj_add0). Qed.
Lemma flat_of_bvec_get (x : vec B) i k : i < @length (T B) x -> k < b ->
  vget (flat_of_bvec S0 b x) (i * b + k)%nat = blk_get (vget (S := B) x i) k 0.
Proof.
  intros Hi Hk. unfold flat_of_bvec, vget at 1.
  rewrite (nth_flat_map_const (fun a : blk S0 b => blk_col0 a) x b i k (@s0 B) s0)
    by (try assumption; intro a; apply (blk_col0_length S0 b)).
  apply (blk_col0_get S0 b). exact Hk.
Qed.

(* off the (0,0) cell the form vanishes on column vectors ... *)
Theorem ipH_colvec_cell_zero (x y : vec B) n r s : r < b -> s < b -> colvecB x -> colvecB y ->
  (r <> 0 \/ s <> 0) -> blk_get (ipH (S := B) n x y) r s = s0.
Proof.
  intros Hr Hs Hx Hy Hne. rewrite (ipH_block_cell S0 b) by assumption.
  apply (ncsumn_zero_fun Hnc0). intros i _. apply (ncsumn_zero_fun Hnc0). intros k Hk.
  destruct Hne as [Hne|Hne].
  - rewrite (colvecB_cells x Hx i k r Hk Hr Hne), sadj_00. ring.
  - rewrite (colvecB_cells y Hy i k s Hk Hs Hne). ring.
Qed.

(* ... and the (0,0) cell is the scalar hermitian form of the flattened vectors *)
Theorem ipH_colvec_cell00 (x y : vec B) n : @length (T B) x = n -> @length (T B) y = n ->
  blk_get (ipH (S := B) n x y) 0 0 = ipH (S := S0) (n * b)%nat (flat_of_bvec S0 b x) (flat_of_bvec S0 b y).
Proof.
  intros Lx Ly. rewrite (ipH_block_cell S0 b) by assumption.
  unfold ipH. rewrite <- (sumn_flat S0 b Srt Hb). apply sumn_ext. intros i Hi. apply sumn_ext. intros k Hk.
  rewrite !flat_of_bvec_get by (try assumption; lia). reflexivity.
Qed.

End BlockSolveCol.

Section BlockSolveColField.
Variable S0 : Scalar.
Variable b : nat.
Hypothesis Sft : Sfield S0.
Hypothesis Seqb0 : seqb_spec S0.
Hypothesis Hb : 0 < b.
Hypothesis sadj_add0 : forall x y : S0, sadj (x + y) = sadj x + sadj y.
Hypothesis sadj_mul0 : forall x y : S0, sadj (x * y) = sadj x * sadj y.
Let Srt : Sring S0 := F_R Sft.
Add Ring SRingBSCF : Srt.
Local Notation B := (BlockS S0 b).
Let Hnc0 : ncring_theory S0 := ncring_of_ring S0 Srt.

(* ---- the anti form of the scalar adjoint law ---- *)
Lemma sadj_mul_anti0 : forall x y : S0, sadj (x * y) = sadj y * sadj x.
Proof. intros x y. rewrite sadj_mul0. ring. Qed.

(* the exact solve of a hermitian scalar matrix is self-adjoint for the scalar hermitian form *)
Theorem dense_solve_herm (E : crs S0) (F G u w : vec S0) N : nrows E = N -> herm_mat (S := S0) N E ->
  length F = N -> length G = N -> dense_solve E F = Some u -> dense_solve E G = Some w ->
  ipH (S := S0) N u G = ipH (S := S0) N F w.
Proof.
  intros HN [Hc Hh] LF LG Eu Ew.
  assert (Hsq : ncols E = nrows E) by congruence.
  rewrite (ipH_Ax_r N E w G u)
    by (intros j Hj; symmetry; apply (dense_solve_correct Sft Seqb0 E G w Hsq); congruence).
  rewrite (ipH_Ax_l N E u F w)
    by (intros j Hj; symmetry; apply (dense_solve_correct Sft Seqb0 E F u Hsq); congruence).
  symmetry. apply (qL_adj Hnc0 sadj_add0 sadj_mul_anti0 E E N N u w Hc Hc).
  intros i j Hi Hj. apply Hh; assumption.
Qed.

(* (2) on column-shaped right-hand sides the coarse solve of a hermitian block matrix is self-adjoint *)
Theorem mk_solve_block_symH_col (A : crs B) :
  wf A = true -> herm_mat (S := B) (nrows A) A -> solvable_block S0 b A = true ->
  forall f g x y : vec B,
  @length (T B) f = nrows A -> @length (T B) g = nrows A -> @length (T B) x = nrows A -> @length (T B) y = nrows A ->
  colvecB S0 b f -> colvecB S0 b g ->
  ipH (S := B) (nrows A) (mk_solve_block S0 b A f x) g = ipH (S := B) (nrows A) f (mk_solve_block S0 b A g y).
Proof.
  intros _ HA Hs f g x y Lf Lg _ _ Cf Cg. unfold mk_solve_block.
  set (E := bexpand S0 b A). set (n := nrows A) in *.
  assert (HnE : nrows E = (n * b)%nat) by apply (bexpand_nrows S0 b).
  assert (HE : herm_mat (S := S0) (n * b)%nat E) by (apply (bexpand_herm S0 b Srt Hb); exact HA).
  assert (HsqE : ncols E = nrows E) by (rewrite HnE; apply HE).
  assert (LfE : length (flat_of_bvec S0 b f) = nrows E) by (rewrite (flat_of_bvec_length S0 b), HnE, Lf; reflexivity).
  assert (LgE : length (flat_of_bvec S0 b g) = nrows E) by (rewrite (flat_of_bvec_length S0 b), HnE, Lg; reflexivity).
  assert (HsE : solvable E = true).
  { unfold solvable_block in Hs. unfold solvable. rewrite HnE. exact Hs. }
  destruct (solvable_all Srt E _ HsqE LfE HsE) as [u Eu]. destruct (solvable_all Srt E _ HsqE LgE HsE) as [w Ew].
  rewrite Eu, Ew.
  assert (Lu : length u = (n * b)%nat) by (rewrite (dense_solve_length _ _ _ Eu); exact HnE).
  assert (Lw : length w = (n * b)%nat) by (rewrite (dense_solve_length _ _ _ Ew); exact HnE).
  assert (Lbu : @length (T B) (bvec_of_flat S0 b u) = n)
    by (rewrite (bvec_of_flat_length S0 b), Lu; apply Nat.div_mul; lia).
  assert (Lbw : @length (T B) (bvec_of_flat S0 b w) = n)
    by (rewrite (bvec_of_flat_length S0 b), Lw; apply Nat.div_mul; lia).
  apply (blk_ext_get S0 b). intros r s Hr Hs'.
  destruct (Nat.eq_dec r 0) as [->|Hr0]; [destruct (Nat.eq_dec s 0) as [->|Hs0]|].
  - rewrite !(ipH_colvec_cell00 S0 b Srt Hb) by assumption.
    rewrite !(flat_of_bvec_of_flat S0 b) by (rewrite ?Lu, ?Lw, Nat.div_mul by lia; reflexivity).
    apply (dense_solve_herm E _ _ u w (n * b)%nat HnE HE); congruence.
  - rewrite !(ipH_colvec_cell_zero S0 b Srt Hb sadj_add0); auto using (bvec_of_flat_colvec S0 b Srt Hb).
  - rewrite !(ipH_colvec_cell_zero S0 b Srt Hb sadj_add0); auto using (bvec_of_flat_colvec S0 b Srt Hb).
Qed.

End BlockSolveColField.

(* non-vacuity: the right-hand sides of AmgBlockCycleSym3Solve.block_solve_sym_on_columns are column vectors,
   a full block is not *)
Example colvecB_example : colvecB QcS 2 [bcol 1 2; bcol 3 4] /\ ~ colvecB QcS 2 [bq 0 1 0 0].
Proof.
  split.
  - intro i. apply (proj1 (BlockS_eqb QcS 2 QcS_eqb _ _)).
    destruct i as [|[|[|i]]]; vm_compute; reflexivity.
  - intro H. specialize (H 0). apply (proj2 (BlockS_eqb QcS 2 QcS_eqb _ _)) in H. vm_compute in H. discriminate H.
Qed.
