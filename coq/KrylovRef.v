(* KrylovRef.v -- independent textbook formulations of the Krylov methods: pure
   recurrences over immutable vectors, no workspaces, no first-iteration flags, no
   in-place updates, no is_zero shortcuts.  Used (i) as the right-hand side of the
   C05 equivalence theorems (KrylovProofs.v) and (ii), extracted, as the reference
   the implementation's iterates are compared with.
   The stopping rule (relative tolerance on the carried residual norm, zero
   right-hand side) is the documented one; results are (iterations, ||r||/||f||, x);
   [None] = the method breaks down (rho = 0 or omega = 0 in BiCGStab). *)
From Amgcl Require Import Scalar Vec.
From Coq Require Import QArith_base.
Local Close Scope Q_scope.
Local Open Scope S_scope.

Section Ref.
Context {S : Scalar}.
Local Notation vec := (vec S).
Local Notation SS := Datatypes.S.

Fixpoint zipw (f : S -> S -> S) (x y : vec) : vec :=
  match x, y with
  | a :: x', b :: y' => f a b :: zipw f x' y'
  | _, _ => []
  end.
Definition vadd : vec -> vec -> vec := zipw sadd.
Definition vsub : vec -> vec -> vec := zipw ssub.
Definition vscal (a : S) (x : vec) : vec := map (fun xi => a * xi) x.
Definition vzeros (x : vec) : vec := map (fun _ => s0) x.
Fixpoint rdot (x y : vec) : S :=
  match x, y with
  | a :: x', b :: y' => a * sadj b + rdot x' y'
  | _, _ => s0
  end.
Definition rnorm (x : vec) : S := ssqrt (sabs (rdot x x)).   (* ||x|| (pseudo-root in QcS) *)

Definition rtiny : S := (sofQ (2 # 1)%Q * seps) * sofQ (1 # 1)%Q.

(* zero right-hand side: x = 0, zero iterations *)
Definition with_rhs (ns : bool) (f x0 : vec) (k : S -> option (nat * S * vec)) : option (nat * S * vec) :=
  let nf := rnorm f in
  if sltb nf rtiny then (if ns then k s1 else Some (0, nf, vzeros x0)) else k nf.

(* ---------------- Richardson: x <- x + omega P (f - A x) ---------------- *)
Definition rich_step (A P : vec -> vec) (omega : S) (f x : vec) : vec :=
  vadd x (vscal omega (P (vsub f (A x)))).
Fixpoint rich_iter (A P : vec -> vec) (omega : S) (f : vec) (k : nat) (x : vec) : vec :=
  match k with O => x | SS k' => rich_step A P omega f (rich_iter A P omega f k' x) end.

Fixpoint rich_loop (A P : vec -> vec) (omega : S) (f : vec) (eps : S) (fuel k : nat) (x : vec) : nat * vec :=
  match fuel with
  | O => (k, x)
  | SS fl => if sltb eps (sabs (rnorm (vsub f (A x))))
             then rich_loop A P omega f eps fl (SS k) (rich_step A P omega f x) else (k, x)
  end.
Definition richardson_ref (A P : vec -> vec) (omega : S) (maxiter : nat) (tol abstol : S) (ns : bool)
           (f x0 : vec) : option (nat * S * vec) :=
  with_rhs ns f x0 (fun nf =>
    let eps := smax (tol * nf) abstol in
    let '(k, x) := rich_loop A P omega f eps maxiter 0 x0 in
    Some (k, rnorm (vsub f (A x)) / nf, x)).

(* ---------------- preconditioned CG (Barrett et al., fig. 2.5) ---------------- *)
(* state at the head of step k: x_k, r_k, the search direction p_k and rz = <r_k, z_k> *)
Fixpoint cg_ref_loop (A P : vec -> vec) (eps : S) (fuel k : nat) (x r p : vec) (rz : S) : nat * vec * vec :=
  match fuel with
  | O => (k, x, r)
  | SS fl =>
    if sltb eps (sabs (rnorm r)) then
      let q := A p in
      let alpha := rz / rdot q p in
      let x' := vadd x (vscal alpha p) in
      let r' := vsub r (vscal alpha q) in
      let z' := P r' in
      let rz' := rdot r' z' in
      cg_ref_loop A P eps fl (SS k) x' r' (vadd z' (vscal (rz' / rz) p)) rz'
    else (k, x, r)
  end.
Definition cg_ref (A P : vec -> vec) (maxiter : nat) (tol abstol : S) (ns : bool) (f x0 : vec)
  : option (nat * S * vec) :=
  with_rhs ns f x0 (fun nf =>
    let eps := smax (tol * nf) abstol in
    let r0 := vsub f (A x0) in
    let z0 := P r0 in
    let '(k, x, r) := cg_ref_loop A P eps maxiter 0 x0 r0 z0 (rdot r0 z0) in
    Some (k, rnorm r / nf, x)).

(* ---------------- BiCGStab (van der Vorst; Barrett et al., fig. 2.10) ----------------
   K = preconditioned operator, Y = map from the direction to the update of x:
   right: K v = A (P v), Y v = P v;   left: K v = P (A v), Y v = v, r = P (f - A x). *)
Inductive bsr := BsFail | BsDone (k : nat) (res : S) (x : vec)
               | BsNext (x r v : vec) (alpha omega res : S).
(* the two half steps with direction p and rho = <r, rhat> *)
Definition bs_ref_body (K Y : vec -> vec) (eps : S) (rhat : vec) (k : nat) (x r p : vec) (rho : S) : bsr :=
  let v := K p in
  let alpha := rho / rdot rhat v in
  let h := vadd x (vscal alpha (Y p)) in
  let s := vsub r (vscal alpha v) in
  if sltb eps (rnorm s) then
    let t := K s in
    let omega := rdot t s / rdot t t in
    if is_zero omega then BsFail
    else let r' := vsub s (vscal omega t) in
         BsNext (vadd h (vscal omega (Y s))) r' v alpha omega (rnorm r')
  else BsDone (SS k) (rnorm s) h.

Fixpoint bs_ref_loop (K Y : vec -> vec) (eps : S) (rhat : vec) (fuel k : nat)
         (x r p v : vec) (rho alpha omega res : S) : option (nat * S * vec) :=
  (* (x, r) current iterate and residual; p, v, rho, alpha, omega from the previous step *)
  match fuel with
  | O => Some (k, res, x)
  | SS fl =>
    if sltb eps res then
      if is_zero rho then None
      else
        let rho' := rdot r rhat in
        let beta := (rho' * alpha) / (rho * omega) in
        let p' := vadd r (vscal beta (vsub p (vscal omega v))) in
        match bs_ref_body K Y eps rhat k x r p' rho' with
        | BsFail => None
        | BsDone k' res' x' => Some (k', res', x')
        | BsNext x' r' v' alpha' omega' res' => bs_ref_loop K Y eps rhat fl (SS k) x' r' p' v' rho' alpha' omega' res'
        end
    else Some (k, res, x)
  end.

Definition bicgstab_ref (A P : vec -> vec) (left : bool) (maxiter : nat) (tol abstol : S) (ns ca : bool)
           (f x0 : vec) : option (nat * S * vec) :=
  let K := fun v => if left then P (A v) else A (P v) in
  let Y := fun v => if left then v else P v in
  with_rhs ns f x0 (fun nf =>
    let eps := smax (nf * tol) abstol in
    let r0 := if left then P (vsub f (A x0)) else vsub f (A x0) in
    let res0 := rnorm r0 in
    let fin := fun o : option (nat * S * vec) =>
                 match o with Some (k, res, x) => Some (k, res / nf, x) | None => None end in
    match maxiter with
    | O => Some (0, res0 / nf, x0)
    | SS fl =>
      if sltb eps res0 || ca then
        (* first step: p = r0 (check_after: always do the first step) *)
        match bs_ref_body K Y eps r0 0 x0 r0 r0 (rdot r0 r0) with
        | BsFail => None
        | BsDone k res x => Some (k, res / nf, x)
        | BsNext x r v alpha omega res => fin (bs_ref_loop K Y eps r0 fl 1 x r r0 v (rdot r0 r0) alpha omega res)
        end
      else Some (0, res0 / nf, x0)
    end).

(* ---------------- restarted GMRES(M) / FGMRES(M) (Saad, alg. 6.9 + 6.11 with Givens QR)
   basis, Hessenberg columns, rotations and the rotated right-hand side are immutable
   lists; the triangular solve is the textbook row-oriented back substitution.  The
   Givens coefficients use the same (overflow-safe) formulas as the code, so that the
   result is comparable digit by digit in the pseudo-root arithmetic.  Not used in
   theorems; extracted as the reference of the C05 oracle. *)
Definition gnorm (x : vec) : S := sabs (ssqrt (rdot x x)).
Definition givens (a b : S) : S * S :=
  if is_zero b then (s1, s0)
  else if sltb (sabs a) (sabs b) then
    let t := a / b in let s := sinv (ssqrt (s1 + t * t)) in (t * s, s)
  else
    let t := b / a in let c := sinv (ssqrt (s1 + t * t)) in (c, t * c).
Definition rotate (cs : S * S) (ab : S * S) : S * S :=
  (sadj (fst cs) * fst ab + sadj (snd cs) * snd ab, - snd cs * fst ab + fst cs * snd ab).

(* modified Gram-Schmidt of w against vs (in order); returns coefficients and remainder *)
Fixpoint gs (vs : list vec) (w : vec) : list S * vec :=
  match vs with
  | [] => ([], w)
  | v :: tl => let h := rdot w v in
               let '(hs, w') := gs tl (vsub w (vscal h v)) in (h :: hs, w')
  end.
(* apply the rotations (oldest first) to a column h_0..h_{j+1}; returns rotated h_0..h_{j-1} and the pair (h_j, h_{j+1}) *)
Fixpoint rot_column (rots : list (S * S)) (h : list S) : list S * list S :=
  match rots, h with
  | cs :: rt, a :: b :: ht => let '(a', b') := rotate cs (a, b) in
                              let '(done, rest) := rot_column rt (b' :: ht) in (a' :: done, rest)
  | _, _ => ([], h)
  end.
(* upper triangular solve R y = g, R given by columns col_i = [R_0i .. R_ii] *)
Definition nthS (l : list S) (i : nat) : S := nth i l s0.
Fixpoint tri_solve (j : nat) (cols : list (list S)) (g : list S) (i : nat) (acc : list S) : list S :=
  (* computes y_i for i = j-1 downto 0; acc = [y_{i+1} .. y_{j-1}] ; argument i counts down *)
  match i with
  | O => acc
  | SS i' =>
    let sum := fold_left (fun a kk => a - nthS (nth kk cols []) i' * nthS acc (kk - SS i')) (seq (SS i') (j - SS i')) (nthS g i') in
    tri_solve j cols g i' (sum / nthS (nth i' cols []) i' :: acc)
  end.
Fixpoint lincomb (ys : list S) (vs : list vec) (zero : vec) : vec :=
  match ys, vs with
  | y :: yt, v :: vt => vadd (vscal y v) (lincomb yt vt zero)
  | _, _ => zero
  end.

Record arn := mkArn { a_vs : list vec; a_zs : list vec; a_cols : list (list S);
                      a_rots : list (S * S); a_g : list S; a_k : nat }.

(* Arnoldi steps of one cycle.  Kop w = operator applied to a basis vector; for the
   flexible variant the preconditioned vectors z_j = P v_j are kept. *)
Fixpoint arnoldi (A P : vec -> vec) (left flex : bool) (maxiter M : nat) (eps : S) (fuel : nat) (st : arn) (it : nat)
  : arn * nat :=
  match fuel with
  | O => (st, it)
  | SS fl =>
    let vj := last (a_vs st) [] in
    let z := if flex then P vj else vj in
    let w := if flex then A z else if left then P (A vj) else A (P vj) in
    let '(hs, w') := gs (a_vs st) w in
    let hn := gnorm w' in
    let vn := vscal (sinv hn) w' in
    let '(done, rest) := rot_column (a_rots st) (hs ++ [hn]) in
    let ab := (nthS rest 0, nthS rest 1) in
    let cs := givens (fst ab) (snd ab) in
    let '(a', _) := rotate cs ab in
    let j := a_k st in
    let '(ga, gb) := rotate cs (nthS (a_g st) j, s0) in
    let g' := firstn j (a_g st) ++ [ga; gb] in
    let st' := mkArn (a_vs st ++ [vn]) (a_zs st ++ [z]) (a_cols st ++ [done ++ [a']]) (a_rots st ++ [cs]) g' (SS j) in
    let it' := SS it in
    if Nat.leb maxiter it' || Nat.leb M (SS j) || negb (sltb eps (sabs gb)) then (st', it')
    else arnoldi A P left flex maxiter M eps fl st' it'
  end.

Fixpoint gmres_ref_outer (A P : vec -> vec) (left flex : bool) (maxiter M : nat) (f : vec) (eps nf : S)
         (fuel : nat) (x : vec) (it : nat) : nat * S * vec :=
  let r := if left && negb flex then P (vsub f (A x)) else vsub f (A x) in
  let beta := gnorm r in
  match fuel with
  | O => (it, beta / nf, x)
  | SS fl =>
    if sltb beta eps || Nat.leb maxiter it then (it, beta / nf, x)
    else
      let st0 := mkArn [vscal (sinv beta) r] [] [] [] [beta] 0 in
      let '(st, it') := arnoldi A P left flex maxiter M eps (Nat.max M 1) st0 it in
      let j := a_k st in
      let y := tri_solve j (a_cols st) (a_g st) j [] in
      let x' := if flex then vadd x (lincomb y (a_zs st) (vzeros x))
                else let dx := lincomb y (a_vs st) (vzeros x) in
                     if left then vadd x dx else vadd x (P dx) in
      gmres_ref_outer A P left flex maxiter M f eps nf fl x' it'
  end.

Definition gmres_ref (A P : vec -> vec) (left flex : bool) (maxiter M : nat) (tol abstol : S) (ns : bool)
           (f x0 : vec) : option (nat * S * vec) :=
  let nf0 := gnorm f in
  let go := fun nf => let eps := smax (tol * nf) abstol in
                      Some (gmres_ref_outer A P left flex maxiter M f eps nf (SS maxiter) x0 0) in
  if sltb nf0 rtiny then (if ns then go s1 else Some (0, nf0, vzeros x0)) else go nf0.

End Ref.
