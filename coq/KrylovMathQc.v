(* KrylovMathQc.v -- the hypotheses of the C05-B theorems (KrylovMathCG.v, KrylovMathGmres.v) are
   satisfiable: exact rationals, a concrete 3x3 SPD system with Jacobi preconditioner for CG, and a
   3x3 SPD system whose Arnoldi/Givens quantities are perfect squares for GMRES.
   Also: QcS is an ordered field in the sense of AmgOrder.ordered (proof copied from AmgOrderQc.v so
   that the C05 closure does not pull in the AMG development). *)
From Coq Require Import QArith Qcanon.
From Amgcl Require Import Scalar QcInst Vec Kernels KernelsProofs Krylov KrylovRef KrylovProofs
                          KrylovMathVec KrylovMathCG KrylovMathGmres KrylovMathLsq KrylovMathMinres AmgOrder.
Local Close Scope Q_scope.
Local Close Scope Qc_scope.
Local Open Scope S_scope.
Local Notation SS := Datatypes.S.

Lemma qc_ltb_lt' (a b : Qc) : qc_ltb a b = true <-> (a < b)%Qc.
Proof. unfold qc_ltb, Qclt, Qlt. apply Z.ltb_lt. Qed.

Lemma QcS_ordered' : ordered QcS.
Proof.
  constructor.
  - intro x. change (@sltb QcS) with qc_ltb. destruct (qc_ltb x x) eqn:E; [|reflexivity].
    apply qc_ltb_lt' in E. exfalso. exact (Qclt_not_eq _ _ E eq_refl).
  - intros x y z H1 H2. apply qc_ltb_lt'. apply qc_ltb_lt' in H1, H2. exact (Qclt_trans _ _ _ H1 H2).
  - intros x y H1 H2. change (@sltb QcS) with qc_ltb in *. apply Qcle_antisym; apply Qcnot_lt_le; intro L;
      apply qc_ltb_lt' in L; congruence.
  - intros x y z H. apply qc_ltb_lt'. apply qc_ltb_lt' in H. change (sadd x z) with (x + z)%Qc.
    change (sadd y z) with (y + z)%Qc. unfold Qclt in *.
    change (this (x + z)%Qc) with (Qred (this x + this z)). change (this (y + z)%Qc) with (Qred (this y + this z)).
    rewrite !Qred_correct. apply Qplus_lt_le_compat; [exact H|apply Qle_refl].
  - intros x y z Hz H. apply qc_ltb_lt'. apply qc_ltb_lt' in Hz, H.
    apply Qcmult_lt_compat_r; assumption.
Qed.

Lemma QcS_real : forall x : QcS, sadj x = x.
Proof. reflexivity. Qed.
Lemma QcS_ofQ0 : sofQ (0 # 1)%Q = @s0 QcS.
Proof. reflexivity. Qed.
Lemma QcS_ofQ1 : sofQ (1 # 1)%Q = @s1 QcS.
Proof. reflexivity. Qed.

Add Field QcSFieldEx : QcS_field.

(* closed (in)equalities by computation *)
Ltac qc_eq := apply QcS_eqb; vm_compute; reflexivity.
Ltac qc_neq := let E := fresh in intro E; apply QcS_eqb in E; vm_compute in E; discriminate.

Definition c2 : QcS := s1 + s1.
Definition c3 : QcS := c2 + s1.
Definition c4 : QcS := c3 + s1.

(* ---------------- the CG example: A = [4 1 0; 1 3 1; 0 1 2], P = diag(A)^-1 ---------------- *)
Definition A3 (v : vec QcS) : vec QcS :=
  match v with
  | [a; b; c] => [c4 * a + b; a + c3 * b + c; b + c2 * c]
  | _ => v
  end.
Definition P3 (v : vec QcS) : vec QcS :=
  match v with
  | [a; b; c] => [sinv c4 * a; sinv c3 * b; sinv c2 * c]
  | _ => v
  end.
Definition f3 : vec QcS := [qc 1 1; qc 2 1; qc 3 1].
Definition x03 : vec QcS := [qc 0 1; qc 0 1; qc 0 1].
Definition xs3 : vec QcS := [qc 2 9; qc 1 9; qc 13 9].

Ltac vec3 v := destruct v as [|?a [|?b [|?c [|? ?]]]]; try discriminate.

Lemma A3_len v : length v = 3 -> length (A3 v) = 3.
Proof. intro L. vec3 v. reflexivity. Qed.
Lemma P3_len v : length v = 3 -> length (P3 v) = 3.
Proof. intro L. vec3 v. reflexivity. Qed.
Lemma A3_sym x y : length x = 3 -> length y = 3 -> rdot (A3 x) y = rdot x (A3 y).
Proof. intros Lx Ly. vec3 x. vec3 y. unfold c4, c3, c2. simpl. ring. Qed.
Lemma P3_sym x y : length x = 3 -> length y = 3 -> rdot (P3 x) y = rdot x (P3 y).
Proof. intros Lx Ly. vec3 x. vec3 y. unfold c4, c3, c2. simpl. ring. Qed.
Lemma A3_lin : linear_on 3 A3.
Proof. intros a x y Lx Ly. vec3 x. vec3 y. unfold c4, c3, c2. simpl. f_equal; [|f_equal; [|f_equal]]; ring. Qed.
Lemma P3_lin : linear_on 3 P3.
Proof. intros a x y Lx Ly. vec3 x. vec3 y. unfold c4, c3, c2. simpl. f_equal; [|f_equal; [|f_equal]]; ring. Qed.
Lemma A3_xs : A3 xs3 = f3.
Proof. unfold xs3, f3. simpl. f_equal; [|f_equal; [|f_equal]]; qc_eq. Qed.

Lemma A3_psd v : length v = 3 -> ole s0 (rdot v (A3 v)).
Proof.
  intro L. vec3 v. cbn [rdot A3]. rewrite !QcS_real.
  replace (a * (c4 * a + b) + (b * (a + c3 * b + c) + (c * (b + c2 * c) + s0)))
    with (c3 * (a * a) + ((a + b) * (a + b) + (b * b + ((b + c) * (b + c) + c * c)))) by (unfold c4, c3, c2; ring).
  assert (P3' : ole s0 c3) by (vm_compute; reflexivity).
  pose proof (sq_nonneg QcS_ring QcS_ordered') as SQ.
  pose proof (ole_add QcS_ring QcS_ordered') as AD.
  replace (@s0 QcS) with (@s0 QcS + (s0 + (s0 + (s0 + s0)))) at 1 by ring.
  apply AD; [apply (mul_nonneg QcS_ring QcS_ordered'); [exact P3'|apply SQ]|].
  repeat (apply AD; [apply SQ|]). apply SQ.
Qed.

Lemma A3_nobreak : nobreak A3 P3 f3 x03 3.
Proof.
  intros j Hj. destruct j as [|[|[|j]]]; try lia; split; qc_neq.
Qed.

(* all hypotheses of the CG theorems, together *)
Example cg_hypotheses_satisfiable :
  Sfield QcS /\ (forall x : QcS, sadj x = x) /\ ordered QcS /\
  (forall v, length v = 3 -> length (A3 v) = 3) /\ (forall v, length v = 3 -> length (P3 v) = 3) /\
  (forall x y, length x = 3 -> length y = 3 -> rdot (A3 x) y = rdot x (A3 y)) /\
  (forall x y, length x = 3 -> length y = 3 -> rdot (P3 x) y = rdot x (P3 y)) /\
  linear_on 3 A3 /\ linear_on 3 P3 /\ length f3 = 3 /\ length x03 = 3 /\ length xs3 = 3 /\ A3 xs3 = f3 /\
  (forall v, length v = 3 -> ole s0 (rdot v (A3 v))) /\
  nobreak A3 P3 f3 x03 3.
Proof.
  split; [exact QcS_field|]. split; [exact QcS_real|]. split; [exact QcS_ordered'|].
  split; [exact A3_len|]. split; [exact P3_len|]. split; [exact A3_sym|]. split; [exact P3_sym|].
  split; [exact A3_lin|]. split; [exact P3_lin|]. split; [reflexivity|]. split; [reflexivity|].
  split; [reflexivity|]. split; [exact A3_xs|]. split; [exact A3_psd|]. exact A3_nobreak.
Qed.

(* the conclusions are not vacuous on this system: after 3 steps the A-norm error is minimal over
   x0 + K_3 (all of Q^3) -- and indeed it is zero (finite termination, by computation) *)
Example cg_example_optimal :
  forall y, length y = 3 -> span 3 (Kgen A3 P3 f3 x03 3) (vsub y x03) ->
  ole (err A3 xs3 (xk A3 P3 f3 x03 3)) (err A3 xs3 y).
Proof.
  apply (cg_minimises_A_norm_over_krylov QcS_field QcS_real 3 A3 P3 A3_len P3_len A3_sym P3_sym f3 x03
           eq_refl eq_refl A3_lin P3_lin QcS_ordered' xs3 eq_refl A3_xs 3 A3_psd A3_nobreak).
Qed.
Example cg_example_terminates : err A3 xs3 (xk A3 P3 f3 x03 3) = s0 /\ xk A3 P3 f3 x03 3 = xs3.
Proof.
  split; [qc_eq|]. unfold xs3. vm_compute xk.
  f_equal; [|f_equal; [|f_equal]]; try reflexivity; apply Qc_is_canon; reflexivity.
Qed.

(* positive definiteness of A3 and P3: the residuals of the example being non-zero is all that is
   needed for the absence of breakdown (cg_nobreak_while_residual_nonzero) *)
Lemma qnn_add (a b : QcS) : ole s0 a -> ole s0 b -> ole s0 (a + b).
Proof. intros Ha Hb. replace (@s0 QcS) with (@s0 QcS + s0) by ring. apply (ole_add QcS_ring QcS_ordered'); assumption. Qed.
Lemma qpos_add_l (a b : QcS) : olt s0 a -> ole s0 b -> olt s0 (a + b).
Proof. intros Ha Hb. replace (@s0 QcS) with (@s0 QcS + s0) by ring. apply (olt_ole_add QcS_ring QcS_ordered'); assumption. Qed.
Lemma qpos_add_r (a b : QcS) : ole s0 a -> olt s0 b -> olt s0 (a + b).
Proof. intros Ha Hb. replace (a + b) with (b + a) by ring. apply qpos_add_l; assumption. Qed.

Lemma pos3 (p q r a b c : QcS) : olt s0 p -> olt s0 q -> olt s0 r -> [a; b; c] <> zeron 3 ->
  olt s0 (p * (a * a) + (q * (b * b) + r * (c * c))).
Proof.
  intros Hp Hq Hr N.
  pose proof (sq_nonneg QcS_ring QcS_ordered') as SQ. pose proof (sq_pos QcS_ring QcS_ordered') as SP.
  pose proof (mul_pos QcS_ring QcS_ordered') as MP.
  assert (MN : forall k x : QcS, olt s0 k -> ole s0 (k * (x * x))).
  { intros k x Hk. apply (mul_nonneg QcS_ring QcS_ordered'); [apply (olt_ole QcS_ordered'), Hk|apply SQ]. }
  destruct (Qc_eq_dec a (@s0 QcS)) as [Ea|Na].
  - destruct (Qc_eq_dec b (@s0 QcS)) as [Eb|Nb].
    + destruct (Qc_eq_dec c (@s0 QcS)) as [Ec|Nc]; [exfalso; apply N; subst; reflexivity|].
      apply qpos_add_r; [auto|]. apply qpos_add_r; auto.
    + apply qpos_add_r; [auto|]. apply qpos_add_l; auto.
  - apply qpos_add_l; [auto|]. apply qnn_add; auto.
Qed.

Lemma P3_pd v : length v = 3 -> v <> zeron 3 -> olt s0 (rdot v (P3 v)).
Proof.
  intros L N. vec3 v. cbn [rdot P3]. rewrite !QcS_real.
  replace (a * (sinv c4 * a) + (b * (sinv c3 * b) + (c * (sinv c2 * c) + s0)))
    with (sinv c4 * (a * a) + (sinv c3 * (b * b) + sinv c2 * (c * c))) by ring.
  apply pos3; try exact N; vm_compute; reflexivity.
Qed.
Lemma A3_pd v : length v = 3 -> v <> zeron 3 -> olt s0 (rdot v (A3 v)).
Proof.
  intros L N. vec3 v. cbn [rdot A3]. rewrite !QcS_real.
  replace (a * (c4 * a + b) + (b * (a + c3 * b + c) + (c * (b + c2 * c) + s0)))
    with ((c3 * (a * a) + (s1 * (b * b) + s1 * (c * c))) + ((a + b) * (a + b) + (b + c) * (b + c)))
    by (unfold c4, c3, c2; ring).
  apply qpos_add_l; [apply pos3; try exact N; vm_compute; reflexivity|].
  apply qnn_add; apply (sq_nonneg QcS_ring QcS_ordered').
Qed.
Example cg_nobreak_hypotheses_satisfiable :
  (forall v, length v = 3 -> v <> zeron 3 -> olt s0 (rdot v (A3 v))) /\
  (forall v, length v = 3 -> v <> zeron 3 -> olt s0 (rdot v (P3 v))) /\
  (forall j, j < 3 -> rk A3 P3 f3 x03 j <> zeron 3).
Proof.
  split; [exact A3_pd|]. split; [exact P3_pd|].
  intros j Hj E. destruct j as [|[|[|j]]]; try lia;
    apply (f_equal (fun v => nth 0 v s0)) in E; revert E; vm_compute; intro E;
    apply (f_equal this) in E; discriminate.
Qed.

(* ---------------- the GMRES example: A = [3 4 0; 4 6 0; 0 0 1], no preconditioner, r0 = e1 ------
   all square roots that occur in two inner iterations are exact: ||(0,4,0)|| = 4, sqrt(25/16) = 5/4 *)
Definition AG (v : vec QcS) : vec QcS :=
  match v with
  | [a; b; c] => [c3 * a + c4 * b; c4 * a + (c3 + c3) * b; c]
  | _ => v
  end.
Definition Pid (v : vec QcS) : vec QcS := v.
Definition junkq : QcS := qc 17 3.
Definition wG : @gm_ws QcS :=
  mkGmWs (fun _ _ => junkq) (upd (fun _ => s0) 0 s1) (fun _ => junkq) (fun _ => junkq)
         [junkq; junkq; junkq] (upd (fun _ => [junkq; junkq; junkq]) 0 [s1; s0; s0]) (fun _ => [junkq; junkq; junkq]).
Definition bodyG := gm_body AG Pid false.

Example gmres_rotation_hypotheses_satisfiable :
  is_zero (qc 4 1 : QcS) = false /\ sqrt_exact (rot_arg (qc 3 1) (qc 4 1)) /\ rot_arg (qc 3 1 : QcS) (qc 4 1) <> s0 /\
  unit_rot (fst (gen_rot (qc 3 1 : QcS) (qc 4 1))) (snd (gen_rot (qc 3 1 : QcS) (qc 4 1))).
Proof.
  split; [reflexivity|]. split; [unfold sqrt_exact; qc_eq|]. split; [qc_neq|].
  apply (gen_rot_unit QcS_field QcS_ofQ0 QcS_ofQ1). intros _. split; [unfold sqrt_exact; qc_eq|qc_neq].
Qed.

Lemma wG_tail : forall l, 0 < l -> g_s wG l = s0.
Proof. intros [|l] Hl; [lia|reflexivity]. Qed.
Lemma wG_units : forall i, i < 2 ->
  unit_rot (g_cs (gm_iter bodyG (SS i) wG) i) (g_sn (gm_iter bodyG (SS i) wG) i).
Proof. intros [|[|i]] Hi; try lia; unfold unit_rot; qc_eq. Qed.

Example gmres_monotone_hypotheses_satisfiable :
  (forall w j, exists w0 vnew0, bodyG w j = arnoldi_tail w0 j vnew0 /\ g_s w0 = g_s w) /\
  (forall l, 0 < l -> g_s wG l = s0) /\
  (forall i, i < 2 -> unit_rot (g_cs (gm_iter bodyG (SS i) wG) i) (g_sn (gm_iter bodyG (SS i) wG) i)).
Proof. split; [apply gm_body_tail|]. split; [exact wG_tail|exact wG_units]. Qed.

(* ... and the conclusion on it: 1 = s_0^2 >= s_1^2 = 16/25 >= s_2^2 = 0 *)
Example gmres_example_monotone :
  ole (sq (g_s (gm_iter bodyG 1 wG) 1)) (sq (g_s wG 0)) /\
  ole (sq (g_s (gm_iter bodyG 2 wG) 2)) (sq (g_s (gm_iter bodyG 1 wG) 1)) /\
  sq (g_s (gm_iter bodyG 1 wG) 1) = qc 16 25 /\ g_s (gm_iter bodyG 2 wG) 2 = s0.
Proof.
  pose proof (gm_estimate_monotone QcS_field QcS_real QcS_ordered' bodyG (gm_body_tail AG Pid false) wG 2 wG_tail wG_units) as M.
  split; [apply (M 0); lia|]. split; [apply (M 1); lia|]. split; qc_eq.
Qed.

Example gmres_arnoldi_hypotheses_satisfiable :
  let Kv := fst (pspmv false AG Pid (g_v wG 0)) in
  length Kv = 3 /\ (forall k, k <= 0 -> length (g_v wG k) = 3) /\ arn_h wG 0 Kv <> s0 /\
  (forall a b, a <= 0 -> b <= 0 -> rdot (g_v wG a) (g_v wG b) = if Nat.eqb a b then s1 else s0) /\
  arn_h wG 0 Kv * arn_h wG 0 Kv = rdot (arn_w wG 0 Kv) (arn_w wG 0 Kv).
Proof.
  split; [reflexivity|]. split; [intros k Hk; replace k with 0 by lia; reflexivity|].
  split; [qc_neq|]. split; [|qc_eq].
  intros a b Ha Hb. replace a with 0 by lia. replace b with 0 by lia. qc_eq.
Qed.

(* ---------------- the abstract minimal-residual theorem (KrylovMathLsq.v): one Arnoldi step of AG from
   r0 = e1: K e1 = 3 e1 + 4 e2, rotation (3/5, 4/5); every y gives a residual >= (4/5)^2 ---------------- *)
Definition vE (l : nat) : vec QcS := nth l [[s1; s0; s0]; [s0; s1; s0]; [s0; s0; s1]] [s0; s0; s0].
Definition hE (c l : nat) : QcS := match c with O => nth l [qc 3 1; qc 4 1] s0 | _ => s0 end.
Definition gE (l : nat) : QcS := match l with O => s1 | _ => s0 end.
Definition csE (_ : nat) : QcS := qc 3 5.
Definition snE (_ : nat) : QcS := qc 4 5.
Lemma AG_len v : length v = 3 -> length (AG v) = 3.
Proof. intro L. vec3 v. reflexivity. Qed.
Lemma AG_lin : linear_on 3 AG.
Proof.
  intros a x y Lx Ly. vec3 x. vec3 y. unfold c4, c3, c2. simpl.
  f_equal; [ring|]. f_equal. ring.
Qed.

Ltac qc_veq := repeat (apply (f_equal2 (@cons (T QcS))); [qc_eq|]); reflexivity.
Example gmres_minres_hypotheses_satisfiable :
  (forall x, length x = 3 -> length (AG x) = 3) /\ linear_on 3 AG /\
  (forall l, l <= 1 -> length (vE l) = 3) /\
  (forall a b, a <= 1 -> b <= 1 -> rdot (vE a) (vE b) = if Nat.eqb a b then s1 else s0) /\
  (forall c, c < 1 -> AG (vE c) = comb 3 vE (hE c) 2) /\
  [s1; s0; s0] = comb 3 vE gE 2 /\
  (forall l, l < 1 -> csE l * csE l + snE l * snE l = s1) /\
  (forall c, c < 1 -> Qn csE snE 1 (hE c) 1 = s0).
Proof.
  split; [exact AG_len|]. split; [exact AG_lin|].
  split; [intros [|[|l]] Hl; try lia; reflexivity|].
  split; [intros [|[|a]] [|[|b]] Ha Hb; try lia; qc_eq|].
  split; [intros [|c] Hc; try lia; unfold comb; simpl; qc_veq|].
  split; [unfold comb; simpl; qc_veq|].
  split; [intros [|l] Hl; try lia; qc_eq|].
  intros [|c] Hc; try lia. qc_eq.
Qed.
Example gmres_minres_example : forall y : nat -> QcS,
  let r := vsub [s1; s0; s0] (AG (comb 3 vE y 1)) in ole (qc 16 25) (rdot r r).
Proof.
  destruct gmres_minres_hypotheses_satisfiable as (H1 & H2 & H3 & H4 & H5 & H6 & H7 & H8).
  intros y.
  pose proof (gmres_minimal_residual_lower_bound QcS_ring QcS_real QcS_ordered' 3 vE AG H1 H2 1 gE hE csE snE
                [s1; s0; s0] H3 H4 H5 H6 H7 H8 y) as B.
  replace (qc 16 25) with (Qn csE snE 1 gE 1 * Qn csE snE 1 gE 1) by qc_eq. exact B.
Qed.

(* ---------------- the minimal-residual lower bound ON THE MODEL (KrylovMathMinres.v): one pass of the
   inner loop of gmres.hpp on the GMRES example system; every hypothesis holds by computation ---------------- *)
Lemma KopG_len x : length x = 3 -> length (Kop AG Pid false x) = 3.
Proof. exact (AG_len x). Qed.
Lemma KopG_lin : linear_on 3 (Kop AG Pid false).
Proof. exact AG_lin. Qed.
Example gmres_model_minres_hypotheses_satisfiable :
  length (g_v wG 0) = 3 /\ rdot (g_v wG 0) (g_v wG 0) = s1 /\
  (forall i, i < 1 -> arn_h (W AG Pid false wG i) i (Kv AG Pid false wG i) <> s0) /\
  (forall i, i < 1 ->
     arn_h (W AG Pid false wG i) i (Kv AG Pid false wG i) * arn_h (W AG Pid false wG i) i (Kv AG Pid false wG i) =
     rdot (arn_w (W AG Pid false wG i) i (Kv AG Pid false wG i)) (arn_w (W AG Pid false wG i) i (Kv AG Pid false wG i))) /\
  (forall i, i < 1 -> unit_rot (g_cs (W AG Pid false wG (SS i)) i) (g_sn (W AG Pid false wG (SS i)) i)) /\
  (forall i, i < 1 ->
     let dx := tail_H3 (Wb AG Pid false wG i) i (Kv AG Pid false wG i) i i in
     let dy := tail_H3 (Wb AG Pid false wG i) i (Kv AG Pid false wG i) (SS i) i in
     is_zero dy = false -> sltb (sabs dx) (sabs dy) = false -> dx <> s0) /\
  (forall l, 0 < l -> g_s wG l = s0).
Proof.
  split; [reflexivity|]. split; [qc_eq|].
  split; [intros [|i] Hi; try lia; qc_neq|].
  split; [intros [|i] Hi; try lia; qc_eq|].
  split; [intros [|i] Hi; try lia; unfold unit_rot; qc_eq|].
  split; [|exact wG_tail].
  intros [|i] Hi; try lia. intros dx dy _ H. exfalso. revert H. vm_compute. discriminate.
Qed.
Example gmres_model_minres_example : forall y : nat -> QcS,
  let r := vsub (vscal (g_s wG 0) (g_v wG 0)) (Kop AG Pid false (comb 3 (V AG Pid false wG 1) y 1)) in
  ole (g_s (W AG Pid false wG 1) 1 * g_s (W AG Pid false wG 1) 1) (rdot r r) /\
  g_s (W AG Pid false wG 1) 1 * g_s (W AG Pid false wG 1) 1 = qc 16 25.
Proof.
  destruct gmres_model_minres_hypotheses_satisfiable as (H1 & H2 & H3 & H4 & H5 & H6 & H7).
  intro y. split; [|qc_eq].
  exact (gm_residual_lower_bound QcS_field QcS_eqb QcS_real QcS_ofQ0 QcS_ofQ1 3 AG Pid false KopG_len KopG_lin wG 1
           H1 H2 H3 H4 H5 H6 QcS_ordered' H7 y).
Qed.
