(* CompositeProofs3.v -- C18-A1: the four sub-blocks extracted by sub_block together with the
   gather / scatter maps reassemble K, for every boolean mask (commutative ring). *)
From Coq Require Import ZifyBool.
From Amgcl Require Import Scalar Vec Crs Kernels KernelsProofs MatOps Adapters Composite CompositeProofs CompositeProofs2.
Local Open Scope S_scope.

(* ---- list facts that need no algebra ---- *)
Section Lists.
Context {S : Scalar}.
Local Notation vec := (vec S).

Definition mfilter {X} (mask : list bool) (want : bool) (l : list X) : list X :=
  map snd (filter (fun mx : bool * X => Bool.eqb (fst mx) want) (combine mask l)).

Lemma gather_mfilter mask want (x : vec) : gather mask want x = mfilter mask want x.
Proof. reflexivity. Qed.

Lemma mfilter_map {X Y} (f : X -> Y) mask want (l : list X) :
  mfilter mask want (map f l) = map f (mfilter mask want l).
Proof.
  unfold mfilter. revert l; induction mask as [|m mask IH]; intros [|a l]; simpl; try reflexivity.
  destruct (Bool.eqb m want); simpl; rewrite IH; reflexivity.
Qed.

Lemma mfilter_length {X} mask want (l : list X) : length l = length mask ->
  length (mfilter mask want l) = count_of want mask.
Proof.
  unfold mfilter, count_of. revert l; induction mask as [|m mask IH]; intros [|a l] H; simpl in *; try lia.
  destruct m, want; simpl; rewrite IH by lia; reflexivity.
Qed.

Lemma mfilter_In {X} mask want (l : list X) a : In a (mfilter mask want l) -> In a l.
Proof.
  unfold mfilter. revert l; induction mask as [|m mask IH]; intros [|b l]; simpl; try tauto.
  destruct (Bool.eqb m want); simpl; intro H; [destruct H as [H|H]|]; auto.
Qed.

(* the rows selected through the index (indexed + nth mask) are the rows selected through the
   mask itself *)
Lemma filter_indexed_gen {X} (want : bool) (mask : list bool) : forall (pre : list bool) (l : list X),
  length l = length mask ->
  map snd (filter (fun ir : nat * X => Bool.eqb (nth (fst ir) (pre ++ mask) false) want)
                  (combine (seq (length pre) (length l)) l))
  = mfilter mask want l.
Proof.
  unfold mfilter. induction mask as [|m mask IH]; intros pre [|a l] H; simpl in *; try lia; try reflexivity.
  rewrite app_nth2 by lia. rewrite Nat.sub_diag. simpl.
  specialize (IH (pre ++ [m]) l). rewrite app_length in IH. simpl in IH.
  rewrite Nat.add_1_r in IH. rewrite <- app_assoc in IH. simpl in IH.
  destruct (Bool.eqb m want); simpl; rewrite IH by lia; reflexivity.
Qed.

Lemma filter_indexed {X} (want : bool) (mask : list bool) (l : list X) : length l = length mask ->
  map snd (filter (fun ir : nat * X => Bool.eqb (nth (fst ir) mask false) want) (indexed l))
  = mfilter mask want l.
Proof. intro H. exact (filter_indexed_gen want mask [] l H). Qed.

(* renumbering: position c of x is position idx[c] of the gathered part it belongs to *)
Lemma gather_idx_gen (mask : list bool) : forall (x : vec) nu0 np0 (pu pp : vec) c,
  length x = length mask -> length pu = nu0 -> length pp = np0 -> c < length mask ->
  vget (if nth c mask false then pp ++ gather mask true x else pu ++ gather mask false x)
       (nth c (idx_from mask nu0 np0) 0%nat) = vget x c.
Proof.
  induction mask as [|m mask IH]; intros x nu0 np0 pu pp c Hl Hu Hp Hc; simpl in Hc; [lia|].
  destruct x as [|a x]; [discriminate|]. simpl in Hl.
  destruct c as [|c].
  - destruct m; unfold gather; simpl.
    + rewrite <- Hp. apply vget_app_len.
    + rewrite <- Hu. apply vget_app_len.
  - destruct m; unfold gather; simpl; fold (gather mask true x); fold (gather mask false x).
    + specialize (IH x nu0 (Datatypes.S np0) pu (pp ++ [a]) c).
      rewrite <- app_assoc in IH. simpl in IH. unfold vget at 2. simpl. fold (vget x c).
      apply IH; [lia|exact Hu|rewrite app_length; simpl; lia|lia].
    + specialize (IH x (Datatypes.S nu0) np0 (pu ++ [a]) pp c).
      rewrite <- app_assoc in IH. simpl in IH. unfold vget at 2. simpl. fold (vget x c).
      apply IH; [lia|rewrite app_length; simpl; lia|exact Hp|lia].
Qed.

Lemma gather_idx (mask : list bool) (x : vec) c : length x = length mask -> c < length mask ->
  vget (gather mask (nth c mask false) x) (nth c (mask_idx mask) 0%nat) = vget x c.
Proof.
  intros Hl Hc. pose proof (gather_idx_gen mask x 0 0 [] [] c Hl eq_refl eq_refl Hc) as H.
  simpl in H. unfold mask_idx. destruct (nth c mask false); exact H.
Qed.

(* idx[c] is in range of its part *)
Lemma idx_from_bound (mask : list bool) : forall nu0 np0 c, c < length mask ->
  nth c (idx_from mask nu0 np0) 0%nat <
  (if nth c mask false then np0 + count_of true mask else nu0 + count_of false mask)%nat.
Proof.
  unfold count_of. induction mask as [|m mask IH]; intros nu0 np0 c Hc; simpl in Hc; [lia|].
  destruct c as [|c]; destruct m; simpl; try lia.
  - specialize (IH nu0 (Datatypes.S np0) c). destruct (nth c mask false); lia.
  - specialize (IH (Datatypes.S nu0) np0 c). destruct (nth c mask false); lia.
Qed.

Lemma mask_idx_bound (mask : list bool) c : c < length mask ->
  nth c (mask_idx mask) 0%nat < count_of (nth c mask false) mask.
Proof.
  intro Hc. pose proof (idx_from_bound mask 0 0 c Hc) as H. unfold mask_idx.
  destruct (nth c mask false); simpl in H; exact H.
Qed.

(* ---- shapes of the sub-blocks ---- *)
Definition sub_row (mask : list bool) (cp : bool) (r : row S) : row S :=
  map (fun e => (nth (fst e) (mask_idx mask) 0%nat, snd e))
      (filter (fun e => Bool.eqb (nth (fst e) mask false) cp) r).

Lemma sub_block_rows (K : crs S) mask rp cp : nrows K = length mask ->
  rows (sub_block K mask rp cp) = map (sub_row mask cp) (mfilter mask rp (rows K)).
Proof.
  intro H. unfold sub_block. simpl.
  rewrite <- (filter_indexed rp mask (rows K) H). rewrite map_map. reflexivity.
Qed.

Lemma sub_block_nrows (K : crs S) mask rp cp : nrows K = length mask ->
  nrows (sub_block K mask rp cp) = count_of rp mask.
Proof.
  intro H. unfold nrows at 1. rewrite sub_block_rows by exact H.
  rewrite map_length. apply mfilter_length. exact H.
Qed.

Lemma sub_block_ncols (K : crs S) mask rp cp : ncols (sub_block K mask rp cp) = count_of cp mask.
Proof. reflexivity. Qed.

Lemma sub_row_wf mask cp (r : row S) : row_wf (length mask) r = true ->
  row_wf (count_of cp mask) (sub_row mask cp r) = true.
Proof.
  unfold sub_row. induction r as [|e r IH]; intro H; [reflexivity|].
  simpl in H. apply andb_prop in H as [He Hr]. apply Nat.ltb_lt in He. simpl.
  destruct (Bool.eqb (nth (fst e) mask false) cp) eqn:E; [|apply IH; exact Hr].
  simpl. rewrite IH by exact Hr. rewrite andb_true_r. apply Nat.ltb_lt.
  apply Bool.eqb_prop in E. rewrite <- E. apply mask_idx_bound. exact He.
Qed.

Lemma sub_block_wf (K : crs S) mask rp cp : wf K = true -> nrows K = length mask -> ncols K = length mask ->
  wf (sub_block K mask rp cp) = true.
Proof.
  intros Hwf Hr Hc. unfold wf. rewrite sub_block_rows by exact Hr. rewrite sub_block_ncols.
  apply forallb_forall. intros r Hin. apply in_map_iff in Hin as [r0 [<- Hin]].
  apply sub_row_wf. apply mfilter_In in Hin. unfold wf in Hwf. rewrite forallb_forall in Hwf.
  rewrite <- Hc. apply Hwf. exact Hin.
Qed.

Theorem sub_block_shape (K : crs S) mask rp cp : wf K = true -> nrows K = length mask -> ncols K = length mask ->
  wf (sub_block K mask rp cp) = true /\ nrows (sub_block K mask rp cp) = count_of rp mask /\
  ncols (sub_block K mask rp cp) = count_of cp mask.
Proof.
  intros H1 H2 H3. split; [exact (sub_block_wf K mask rp cp H1 H2 H3)|].
  split; [exact (sub_block_nrows K mask rp cp H2)|exact (sub_block_ncols K mask rp cp)].
Qed.

(* gather after scatter *)
Lemma gather_scatter_gen (mask : list bool) : forall nu0 np0 (pu pp u p : vec),
  length pu = nu0 -> length pp = np0 -> length u = count_of false mask -> length p = count_of true mask ->
  gather mask false (map (fun mi : bool * nat => if fst mi then vget (pp ++ p) (snd mi) else vget (pu ++ u) (snd mi))
                         (combine mask (idx_from mask nu0 np0))) = u /\
  gather mask true (map (fun mi : bool * nat => if fst mi then vget (pp ++ p) (snd mi) else vget (pu ++ u) (snd mi))
                         (combine mask (idx_from mask nu0 np0))) = p.
Proof.
  unfold count_of. induction mask as [|m mask IH]; intros nu0 np0 pu pp u p Hu Hp Lu Lp; simpl in *.
  - destruct u; [|discriminate]. destruct p; [|discriminate]. split; reflexivity.
  - destruct m; simpl in *.
    + destruct p as [|a p]; [discriminate|].
      specialize (IH nu0 (Datatypes.S np0) pu (pp ++ [a]) u p Hu).
      rewrite <- app_assoc in IH. simpl in IH.
      destruct IH as [I1 I2]; [rewrite app_length; simpl; lia|exact Lu|simpl in Lp; lia|].
      unfold gather in *. simpl. split; [exact I1|]. rewrite I2. f_equal.
      rewrite <- Hp. apply vget_app_len.
    + destruct u as [|a u]; [discriminate|].
      specialize (IH (Datatypes.S nu0) np0 (pu ++ [a]) pp u p).
      rewrite <- app_assoc in IH. simpl in IH.
      destruct IH as [I1 I2]; [rewrite app_length; simpl; lia|exact Hp|simpl in Lu; lia|exact Lp|].
      unfold gather in *. simpl. split; [|exact I2]. rewrite I1. f_equal.
      rewrite <- Hu. apply vget_app_len.
Qed.

Theorem gather_scatter (mask : list bool) (u p : vec) :
  length u = count_of false mask -> length p = count_of true mask ->
  gather mask false (scatter_up mask u p) = u /\ gather mask true (scatter_up mask u p) = p.
Proof.
  intros Hu Hp. unfold scatter_up, mask_idx.
  exact (gather_scatter_gen mask 0 0 [] [] u p eq_refl eq_refl Hu Hp).
Qed.

Lemma gather_length mask want (x : vec) : length x = length mask -> length (gather mask want x) = count_of want mask.
Proof. apply mfilter_length. Qed.

End Lists.

Section Ring.
Context {S : Scalar}.
Local Notation vec := (vec S).
Hypothesis Srt : Sring S.
Add Ring SRingK3 : Srt.

Lemma dotrow_filter (p : nat * S -> bool) (r : row S) (x : vec) :
  dotrow r x = dotrow (filter p r) x + dotrow (filter (fun e => negb (p e)) r) x.
Proof.
  induction r as [|e r IH]; [unfold dotrow; simpl; ring|].
  simpl. destruct (p e); simpl; rewrite !(dotrow_cons Srt), IH; ring.
Qed.

Lemma dotrow_sub_row mask cp (r : row S) (x : vec) : length x = length mask -> row_wf (length mask) r = true ->
  dotrow (sub_row mask cp r) (gather mask cp x)
  = dotrow (filter (fun e => Bool.eqb (nth (fst e) mask false) cp) r) x.
Proof.
  intros Hl. unfold sub_row. induction r as [|e r IH]; intro H; [reflexivity|].
  simpl in H. apply andb_prop in H as [He Hr]. apply Nat.ltb_lt in He. simpl.
  destruct (Bool.eqb (nth (fst e) mask false) cp) eqn:E; [|apply IH; exact Hr].
  simpl. rewrite !(dotrow_cons Srt), IH by exact Hr. simpl.
  apply Bool.eqb_prop in E. rewrite <- E. rewrite gather_idx by assumption. reflexivity.
Qed.

Lemma filter_negb_mask mask (r : row S) :
  filter (fun e => negb (Bool.eqb (nth (fst e) mask false) false)) r
  = filter (fun e => Bool.eqb (nth (fst e) mask false) true) r.
Proof. apply filter_ext. intro e. destruct (nth (fst e) mask false); reflexivity. Qed.

Lemma dotrow_split mask (r : row S) (x : vec) : length x = length mask -> row_wf (length mask) r = true ->
  dotrow r x = dotrow (sub_row mask false r) (gather mask false x) + dotrow (sub_row mask true r) (gather mask true x).
Proof.
  intros Hl Hr. rewrite !dotrow_sub_row by assumption.
  rewrite (dotrow_filter (fun e => Bool.eqb (nth (fst e) mask false) false) r x).
  rewrite filter_negb_mask. reflexivity.
Qed.

Lemma vadd_map {X} (f g : X -> S) (l : list X) : vadd (map f l) (map g l) = map (fun a => f a + g a) l.
Proof. unfold vadd. induction l as [|a l IH]; simpl; [reflexivity|]. rewrite IH. reflexivity. Qed.

(* the rows with mask = rp of K x are  K[rp,u] x_u + K[rp,p] x_p *)
Theorem gather_mv (K : crs S) (mask : list bool) (rp : bool) (x : vec) :
  wf K = true -> nrows K = length mask -> ncols K = length mask -> length x = length mask ->
  gather mask rp (mv K x)
  = vadd (mv (sub_block K mask rp false) (gather mask false x)) (mv (sub_block K mask rp true) (gather mask true x)).
Proof.
  intros Hwf Hr Hc Hx. unfold mv. rewrite !sub_block_rows by exact Hr.
  rewrite gather_mfilter, mfilter_map, !map_map, vadd_map.
  apply map_ext_in. intros r Hin. apply mfilter_In in Hin.
  apply dotrow_split; [exact Hx|]. unfold wf in Hwf. rewrite forallb_forall in Hwf.
  rewrite <- Hc. apply Hwf. exact Hin.
Qed.

(* A1: K x = u2x (Kuu x_u + Kup x_p) + p2x (Kpu x_u + Kpp x_p) *)
Theorem reassemble (K : crs S) (mask : list bool) (x : vec) :
  wf K = true -> nrows K = length mask -> ncols K = length mask -> length x = length mask ->
  let xu := gather mask false x in let xp := gather mask true x in
  mv K x = scatter_up mask (vadd (mv (sub_block K mask false false) xu) (mv (sub_block K mask false true) xp))
                           (vadd (mv (sub_block K mask true false) xu) (mv (sub_block K mask true true) xp)).
Proof.
  intros Hwf Hr Hc Hx. cbv zeta.
  rewrite <- !gather_mv by assumption.
  symmetry. apply scatter_gather. rewrite mv_length. exact Hr.
Qed.


(* ---- adjust_p = 1: Kpp' x + L .* x = Kpp x when every row of Kpp has a structural diagonal ---- *)
Lemma indexed_seq_gen {X} (d : X) (l : list X) : forall s,
  combine (seq s (length l)) l = map (fun i => (i, nth (i - s) l d)) (seq s (length l)).
Proof.
  induction l as [|a l IH]; intro s; simpl; [reflexivity|].
  rewrite Nat.sub_diag. f_equal. rewrite IH. apply map_ext_in. intros i Hi. apply in_seq in Hi.
  replace (i - s)%nat with (Datatypes.S (i - Datatypes.S s)) by lia. reflexivity.
Qed.
Lemma indexed_seq {X} (d : X) (l : list X) : indexed l = map (fun i => (i, nth i l d)) (seq 0 (length l)).
Proof.
  unfold indexed. rewrite (indexed_seq_gen d l 0). apply map_ext. intro i. rewrite Nat.sub_0_r. reflexivity.
Qed.
Lemma vec_seq (x : vec) : x = map (vget x) (seq 0 (length x)).
Proof.
  apply vec_ext; [rewrite map_length, seq_length; reflexivity|].
  intros i Hi. unfold vget at 2. rewrite (nth_indep _ s0 (vget x 0%nat)) by (rewrite map_length, seq_length; exact Hi).
  rewrite map_nth. rewrite seq_nth by exact Hi. reflexivity.
Qed.
Lemma map2_map {X} (f : S -> S -> S) (g h : X -> S) (l : list X) : map2 f (map g l) (map h l) = map (fun a => f (g a) (h a)) l.
Proof. induction l as [|a l IH]; simpl; [reflexivity|]. rewrite IH. reflexivity. Qed.

Lemma map2_seq (f : S -> S -> S) (a b : vec) n : length a = n -> length b = n ->
  map2 f a b = map (fun i => f (vget a i) (vget b i)) (seq 0 n).
Proof.
  intros Ha Hb. rewrite (vec_seq (map2 f a b)). rewrite map2_length by congruence. rewrite Ha.
  apply map_ext_in. intros i Hi. apply in_seq in Hi. apply map2_get; [congruence|lia].
Qed.

Lemma dotrow_sub_first (r : row S) (i : nat) (s : S) (x : vec) d : first_col r i = Some d ->
  dotrow (sub_first r i s) x + s * vget x i = dotrow r x.
Proof.
  induction r as [|[c v] r IH]; simpl; [discriminate|].
  destruct (Nat.eqb_spec c i) as [->|Hne]; intro H.
  - rewrite !(dotrow_cons Srt). simpl. ring.
  - rewrite !(dotrow_cons Srt). simpl. rewrite <- (IH H). ring.
Qed.

Theorem kpp_adjust1_mv (Kpp : crs S) (L x : vec) :
  has_diag Kpp = true -> length L = nrows Kpp -> length x = nrows Kpp ->
  vadd (mv (kpp_adjust1 Kpp L) x) (map2 smul L x) = mv Kpp x.
Proof.
  intros Hd HL Hx. unfold mv, kpp_adjust1, vadd. cbn [rows].
  unfold has_diag in Hd. rewrite (indexed_seq (X:=row S) [] (rows Kpp)) in Hd. rewrite forallb_forall in Hd.
  rewrite (indexed_seq (X:=row S) [] (rows Kpp)). rewrite !map_map.
  rewrite (map2_seq smul L x (length (rows Kpp)) HL Hx). rewrite map2_map.
  rewrite (vec_seq (map (fun r => dotrow r x) (rows Kpp))). rewrite map_length.
  apply map_ext_in. intros i Hi. simpl.
  assert (Hin : In (i, nth i (rows Kpp) []) (map (fun i => (i, nth i (rows Kpp) [])) (seq 0 (length (rows Kpp))))).
  { apply in_map_iff. exists i. split; [reflexivity|exact Hi]. }
  specialize (Hd _ Hin). simpl in Hd.
  destruct (first_col (nth i (rows Kpp) []) i) as [d|] eqn:E; [|discriminate].
  rewrite (dotrow_sub_first _ _ _ _ d E).
  unfold vget. apply in_seq in Hi.
  rewrite (nth_indep _ s0 (dotrow [] x)) by (rewrite map_length; lia).
  rewrite (map_nth (fun r => dotrow r x)). reflexivity.
Qed.

(* the operator handed to the pressure solver is the true Schur complement action *)
Theorem schur_op_true (adjust_p : nat) (Kpp Kup Kpu : crs S) (L : vec) (solveU : vec -> vec) (x : vec) :
  (adjust_p = 1%nat -> has_diag Kpp = true /\ length L = nrows Kpp /\ length x = nrows Kpp) ->
  schur_op adjust_p Kpp Kup Kpu L solveU x = schur_true Kpp Kup Kpu solveU x.
Proof.
  intro H. unfold schur_op, schur_true.
  destruct adjust_p as [|[|a]]; try reflexivity.
  destruct (H eq_refl) as [Hd [HL Hx]]. rewrite kpp_adjust1_mv by assumption. reflexivity.
Qed.

(* ---- composition: the model's schur_apply with exact inner solves ---- *)
Section Compose.
Variables (K : crs S) (mask : list bool).
Hypothesis Hwf : wf K = true.
Hypothesis Hr : nrows K = length mask.
Hypothesis Hc : ncols K = length mask.
Let nu := count_of false mask.
Let np := count_of true mask.
Let Kuu := sub_block K mask false false.
Let Kup := sub_block K mask false true.
Let Kpu := sub_block K mask true false.
Let Kpp := sub_block K mask true true.
Variables (solveU solveS : vec -> vec).
Hypothesis solveU_len : forall v, length v = nu -> length (solveU v) = nu.
Hypothesis solveS_len : forall v, length v = np -> length (solveS v) = np.
Hypothesis solveU_right : forall v, length v = nu -> mv Kuu (solveU v) = v.
Hypothesis solveU_left : forall v, length v = nu -> solveU (mv Kuu v) = v.
Hypothesis solveS_right : forall v, length v = np -> schur_true Kpp Kup Kpu solveU (solveS v) = v.

Let blk_len (rp cp : bool) v : length v = count_of cp mask -> length (mv (sub_block K mask rp cp) v) = count_of rp mask.
Proof. intros _. rewrite mv_length. apply sub_block_nrows. exact Hr. Qed.
Let blk_sub (rp cp : bool) a b : length a = count_of cp mask -> length b = count_of cp mask ->
  mv (sub_block K mask rp cp) (vsub a b) = vsub (mv (sub_block K mask rp cp) a) (mv (sub_block K mask rp cp) b).
Proof. intros Ha Hb. apply (mv_sub Srt); [apply sub_block_wf; assumption|exact Ha|exact Hb]. Qed.

Theorem schur_apply1_inverse (f : vec) : length f = length mask ->
  mv K (schur_apply 1 K mask solveU solveS f) = f.
Proof.
  intro Hf. unfold schur_apply. fold Kup Kpu.
  set (fu := gather mask false f). set (fp := gather mask true f).
  assert (Hfu : length fu = nu) by (apply gather_length; exact Hf).
  assert (Hfp : length fp = np) by (apply gather_length; exact Hf).
  unfold schur_split1. cbv zeta. simpl fst. simpl snd.
  set (p := solveS (vsub fp (mv Kpu (solveU fu)))).
  set (u := solveU (vsub fu (mv Kup p))).
  pose proof (schur_type1_exact Srt nu np (mv Kuu) (mv Kup) (mv Kpu) (mv Kpp) solveU solveS
                (blk_len false true) (blk_len true false) (blk_len true true) solveU_len solveS_len
                (blk_sub false false) (blk_sub true false) solveU_right solveU_left solveS_right fu fp Hfu Hfp) as E.
  cbv zeta in E. fold p in E. fold u in E. destruct E as [E1 E2].
  assert (Hp : length p = np).
  { apply solveS_len. rewrite vsub_length; [exact Hfp|]. rewrite Hfp. symmetry. apply (blk_len true false). apply solveU_len. exact Hfu. }
  assert (Hu : length u = nu).
  { apply solveU_len. rewrite vsub_length; [exact Hfu|]. rewrite Hfu. symmetry. apply (blk_len false true). exact Hp. }
  assert (Hy : length (scatter_up mask u p) = length mask).
  { unfold scatter_up. rewrite map_length, combine_length. unfold mask_idx.
    assert (G : forall m a b, length (idx_from m a b) = length m).
    { induction m as [|[|] m IH]; intros; simpl; [reflexivity| |]; rewrite IH; reflexivity. }
    rewrite G. lia. }
  rewrite (reassemble K mask _ Hwf Hr Hc Hy). cbv zeta.
  destruct (gather_scatter mask u p Hu Hp) as [G1 G2]. rewrite G1, G2.
  fold Kuu Kup Kpu Kpp. rewrite E1, E2. apply scatter_gather. exact Hf.
Qed.

Theorem schur_apply2_triangular (f : vec) : length f = length mask ->
  let y := schur_apply 2 K mask solveU solveS f in
  let yu := gather mask false y in let yp := gather mask true y in
  vadd (mv Kuu yu) (mv Kup yp) = gather mask false f /\
  schur_true Kpp Kup Kpu solveU yp = gather mask true f.
Proof.
  intro Hf. cbv zeta. unfold schur_apply. fold Kup Kpu.
  set (fu := gather mask false f). set (fp := gather mask true f).
  assert (Hfu : length fu = nu) by (apply gather_length; exact Hf).
  assert (Hfp : length fp = np) by (apply gather_length; exact Hf).
  unfold schur_split2. cbv zeta. simpl fst. simpl snd.
  set (p := solveS fp). set (u := solveU (vsub fu (mv Kup p))).
  pose proof (schur_type2_exact Srt nu np (mv Kuu) (mv Kup) (mv Kpu) (mv Kpp) solveU solveS
                (blk_len false true) solveS_len solveU_right solveS_right fu fp Hfu Hfp) as E.
  cbv zeta in E. fold p in E. fold u in E. destruct E as [E1 E2].
  assert (Hp : length p = np) by (apply solveS_len; exact Hfp).
  assert (Hu : length u = nu).
  { apply solveU_len. rewrite vsub_length; [exact Hfu|]. rewrite Hfu. symmetry. apply (blk_len false true). exact Hp. }
  destruct (gather_scatter mask u p Hu Hp) as [G1 G2]. rewrite G1, G2.
  split; [exact E1|exact E2].
Qed.
End Compose.

(* the same with the operator the model (and the implementation) really hands to the pressure
   solver: schur_op adjust_p, with L any vector of length np (in particular ld_vec) *)
Section ComposeOp.
Variables (K : crs S) (mask : list bool) (adjust_p : nat) (L : vec) (solveU solveS : vec -> vec).
Hypothesis Hwf : wf K = true.
Hypothesis Hr : nrows K = length mask.
Hypothesis Hc : ncols K = length mask.
Let nu := count_of false mask.
Let np := count_of true mask.
Let Kuu := sub_block K mask false false.
Let Kup := sub_block K mask false true.
Let Kpu := sub_block K mask true false.
Let Kpp := sub_block K mask true true.
Hypothesis Hadj : adjust_p = 1%nat -> has_diag Kpp = true /\ length L = np.
Hypothesis solveU_len : forall v, length v = nu -> length (solveU v) = nu.
Hypothesis solveS_len : forall v, length v = np -> length (solveS v) = np.
Hypothesis solveU_right : forall v, length v = nu -> mv Kuu (solveU v) = v.
Hypothesis solveU_left : forall v, length v = nu -> solveU (mv Kuu v) = v.
Hypothesis solveS_right : forall v, length v = np -> schur_op adjust_p Kpp Kup Kpu L solveU (solveS v) = v.

Lemma solveS_right_true : forall v, length v = np -> schur_true Kpp Kup Kpu solveU (solveS v) = v.
Proof.
  intros v Hv. rewrite <- (schur_op_true adjust_p Kpp Kup Kpu L solveU); [apply solveS_right; exact Hv|].
  intro E. destruct (Hadj E) as [Hd HL]. unfold Kpp. rewrite sub_block_nrows by exact Hr.
  split; [exact Hd|]. split; [exact HL|]. apply solveS_len. exact Hv.
Qed.

Theorem schur_model_type1_inverse (f : vec) : length f = length mask ->
  mv K (schur_apply 1 K mask solveU solveS f) = f.
Proof.
  apply (schur_apply1_inverse K mask Hwf Hr Hc solveU solveS solveU_len solveS_len solveU_right solveU_left solveS_right_true).
Qed.

Theorem schur_model_type2_triangular (f : vec) : length f = length mask ->
  let y := schur_apply 2 K mask solveU solveS f in
  let yu := gather mask false y in let yp := gather mask true y in
  vadd (mv Kuu yu) (mv Kup yp) = gather mask false f /\
  schur_true Kpp Kup Kpu solveU yp = gather mask true f.
Proof.
  apply (schur_apply2_triangular K mask Hr solveU solveS solveU_len solveS_len solveU_right solveS_right_true).
Qed.
End ComposeOp.

End Ring.
