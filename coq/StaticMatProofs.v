(* StaticMatProofs.v -- static_matrix blocks over a commutative ring form a
   (non-commutative) ring; adjoint is an anti-multiplicative involution.  (C16 / A5) *)
From Amgcl Require Import Scalar Vec KernelsProofs DirectUtil Inverse StaticMat.
Local Open Scope S_scope.

Section SMRing.
Context {S : Scalar}.
Local Notation vec := (vec S).
Local Notation smat := (@smat S).
Hypothesis Srt : Sring S.
Add Ring SRingSM : Srt.

(* ---------- finite sums ---------- *)
Lemma sumn_swap (f : nat -> nat -> S) n m :
  sumn (fun i => sumn (fun j => f i j) m) n = sumn (fun j => sumn (fun i => f i j) n) m.
Proof.
  induction n as [|n IH]; simpl.
  - rewrite (sumn_zero Srt). reflexivity.
  - rewrite IH. rewrite <- (sumn_add Srt). reflexivity.
Qed.

Lemma sumn_scal_r (a : S) (f : nat -> S) n : sumn (fun i => f i * a) n = sumn f n * a.
Proof. induction n as [|n IH]; simpl; [ring|rewrite IH; ring]. Qed.

Lemma sumn_sub (f g : nat -> S) n : sumn (fun i => f i - g i) n = sumn f n - sumn g n.
Proof. induction n as [|n IH]; simpl; [ring|rewrite IH; ring]. Qed.

Lemma sumn_opp (f : nat -> S) n : sumn (fun i => - f i) n = - sumn f n.
Proof. induction n as [|n IH]; simpl; [ring|rewrite IH; ring]. Qed.

Lemma sumn_delta_l (c : nat) (f : nat -> S) n :
  sumn (fun k => (if Nat.eqb c k then s1 else s0) * f k) n = if Nat.ltb c n then f c else s0.
Proof.
  rewrite <- (sumn_delta Srt c (f c) n). apply sumn_ext. intros k _.
  destruct (Nat.eqb_spec c k) as [->|]; ring.
Qed.

Lemma sumn_delta_r (c : nat) (f : nat -> S) n :
  sumn (fun k => f k * (if Nat.eqb k c then s1 else s0)) n = if Nat.ltb c n then f c else s0.
Proof.
  rewrite <- (sumn_delta Srt c (f c) n). apply sumn_ext. intros k _.
  rewrite (Nat.eqb_sym k c). destruct (Nat.eqb_spec c k) as [->|]; ring.
Qed.

(* ---------- function-level matrices ---------- *)
Definition fmul (K : nat) (a b : nat -> nat -> S) (i j : nat) : S := sumn (fun k => a i k * b k j) K.

Lemma fmul_assoc K1 K2 (a b c : nat -> nat -> S) i j :
  fmul K2 (fmul K1 a b) c i j = fmul K1 a (fmul K2 b c) i j.
Proof.
  unfold fmul.
  transitivity (sumn (fun k2 => sumn (fun k1 => a i k1 * b k1 k2 * c k2 j) K1) K2).
  - apply sumn_ext. intros k2 _. rewrite <- sumn_scal_r. reflexivity.
  - rewrite sumn_swap. apply sumn_ext. intros k1 _. rewrite <- (sumn_scal Srt).
    apply sumn_ext. intros k2 _. ring.
Qed.

(* ---------- index arithmetic of the row-major buffer ---------- *)
Local Open Scope nat_scope.
Lemma idx_div M i j : j < M -> (i * M + j) / M = i.
Proof. intro H. rewrite Nat.div_add_l by lia. rewrite Nat.div_small by assumption. lia. Qed.
Lemma idx_mod M i j : j < M -> (i * M + j) mod M = j.
Proof.
  intro H. rewrite Nat.add_comm, Nat.mod_add by lia. apply Nat.mod_small. assumption.
Qed.
Lemma idx_lt N M i j : i < N -> j < M -> i * M + j < N * M.
Proof. intros. nia. Qed.
Lemma idx_split N M idx : idx < N * M -> idx / M < N /\ idx mod M < M /\ idx = (idx / M) * M + idx mod M.
Proof.
  intro H. assert (M <> 0) by (intro; subst; lia).
  split; [|split].
  - apply Nat.div_lt_upper_bound; [assumption|]. lia.
  - apply Nat.mod_upper_bound. assumption.
  - rewrite (Nat.div_mod idx M) at 1 by assumption. lia.
Qed.

Local Open Scope S_scope.

Lemma sm_of_fun_get N M (f : nat -> nat -> S) i j :
  i < N -> j < M -> sm_get M (sm_of_fun N M f) i j = f i j.
Proof.
  intros Hi Hj. unfold sm_get, sm_of_fun, vget.
  rewrite tabulate_nth by (apply idx_lt; assumption).
  rewrite idx_div, idx_mod by assumption. reflexivity.
Qed.

Lemma sm_of_fun_length N M (f : nat -> nat -> S) : length (sm_of_fun N M f) = (N * M)%nat.
Proof. apply tabulate_length. Qed.

Lemma sm_of_fun_ext N M (f g : nat -> nat -> S) :
  (forall i j, i < N -> j < M -> f i j = g i j) -> sm_of_fun N M f = sm_of_fun N M g.
Proof.
  intro H. apply tabulate_ext. intros idx Hidx.
  destruct (idx_split N M idx Hidx) as (H1 & H2 & _). apply H; assumption.
Qed.

(* a block of the right length is the tabulation of its own entries *)
Lemma sm_eta N M (a : smat) : length a = (N * M)%nat -> a = sm_of_fun N M (sm_get M a).
Proof.
  intro HL. apply (list_ext _ _ s0).
  - rewrite sm_of_fun_length. assumption.
  - intros idx Hidx. rewrite HL in Hidx. unfold sm_of_fun. rewrite tabulate_nth by assumption.
    unfold sm_get, vget. destruct (idx_split N M idx Hidx) as (_ & _ & E). rewrite <- E. reflexivity.
Qed.

(* two blocks of the same shape with the same entries are equal *)
Lemma sm_ext N M (a b : smat) : length a = (N * M)%nat -> length b = (N * M)%nat ->
  (forall i j, i < N -> j < M -> sm_get M a i j = sm_get M b i j) -> a = b.
Proof.
  intros Ha Hb H. rewrite (sm_eta N M a Ha), (sm_eta N M b Hb). apply sm_of_fun_ext. exact H.
Qed.

(* ---------- entries of the operations ---------- *)
Lemma sm_add_length (a b : smat) : length a = length b -> length (sm_add a b) = length a.
Proof. intro H. unfold sm_add. apply upd2_length. congruence. Qed.
Lemma sm_sub_length (a b : smat) : length a = length b -> length (sm_sub a b) = length a.
Proof. intro H. unfold sm_sub. apply upd2_length. congruence. Qed.

Lemma sm_add_get N M (a b : smat) i j : length a = (N * M)%nat -> length b = (N * M)%nat -> i < N -> j < M ->
  sm_get M (sm_add a b) i j = sm_get M a i j + sm_get M b i j.
Proof.
  intros Ha Hb Hi Hj. unfold sm_get, sm_add.
  rewrite upd2_get; [reflexivity|congruence|rewrite Hb; apply idx_lt; assumption].
Qed.
Lemma sm_sub_get N M (a b : smat) i j : length a = (N * M)%nat -> length b = (N * M)%nat -> i < N -> j < M ->
  sm_get M (sm_sub a b) i j = sm_get M a i j - sm_get M b i j.
Proof.
  intros Ha Hb Hi Hj. unfold sm_get, sm_sub.
  rewrite upd2_get; [reflexivity|congruence|rewrite Hb; apply idx_lt; assumption].
Qed.

Lemma map_vget (f : S -> S) (a : vec) k : k < length a -> vget (map f a) k = f (vget a k).
Proof.
  intro H. unfold vget. rewrite (nth_indep _ s0 (f s0)) by (rewrite map_length; assumption).
  apply map_nth.
Qed.
Lemma sm_scale_get N M c (a : smat) i j : length a = (N * M)%nat -> i < N -> j < M ->
  sm_get M (sm_scale c a) i j = sm_get M a i j * c.
Proof.
  intros Ha Hi Hj. unfold sm_get, sm_scale. apply map_vget. rewrite Ha. apply idx_lt; assumption.
Qed.
Lemma sm_neg_get N M (a : smat) i j : length a = (N * M)%nat -> i < N -> j < M ->
  sm_get M (sm_neg a) i j = - sm_get M a i j.
Proof.
  intros Ha Hi Hj. unfold sm_get, sm_neg. apply map_vget. rewrite Ha. apply idx_lt; assumption.
Qed.
Lemma sm_mul_get N K M (a b : smat) i j : i < N -> j < M ->
  sm_get M (sm_mul N K M a b) i j = fmul K (sm_get K a) (sm_get M b) i j.
Proof. intros Hi Hj. unfold sm_mul. rewrite sm_of_fun_get by assumption. reflexivity. Qed.
Lemma sm_mul_length N K M (a b : smat) : length (sm_mul N K M a b) = (N * M)%nat.
Proof. apply sm_of_fun_length. Qed.
Lemma sm_zero_get N M i j : i < N -> j < M -> sm_get M (sm_zero N M) i j = @s0 S.
Proof.
  intros Hi Hj. unfold sm_get, sm_zero, vget. apply nth_repeat.
Qed.
Lemma sm_zero_length N M : length (@sm_zero S N M) = (N * M)%nat.
Proof. apply repeat_length. Qed.

(* ---------- ring identities (list equalities) ---------- *)
Theorem sm_mul_assoc N K1 K2 M (a b c : smat) :
  sm_mul N K2 M (sm_mul N K1 K2 a b) c = sm_mul N K1 M a (sm_mul K1 K2 M b c).
Proof.
  unfold sm_mul at 1 3. apply sm_of_fun_ext. intros i j Hi Hj.
  transitivity (fmul K2 (fmul K1 (sm_get K1 a) (sm_get K2 b)) (sm_get M c) i j).
  - unfold fmul at 1. apply sumn_ext. intros k Hk. rewrite sm_mul_get by assumption. reflexivity.
  - rewrite fmul_assoc. unfold fmul at 1. apply sumn_ext. intros k Hk.
    rewrite sm_mul_get by assumption. reflexivity.
Qed.

Theorem sm_mul_add_distr_l N K M (a b c : smat) : length b = (K * M)%nat -> length c = (K * M)%nat ->
  sm_mul N K M a (sm_add b c) = sm_add (sm_mul N K M a b) (sm_mul N K M a c).
Proof.
  intros Hb Hc. apply (sm_ext N M).
  - apply sm_mul_length.
  - rewrite sm_add_length; rewrite !sm_mul_length; reflexivity.
  - intros i j Hi Hj. rewrite (sm_add_get N M) by (try apply sm_mul_length; assumption).
    rewrite !sm_mul_get by assumption. unfold fmul. rewrite <- (sumn_add Srt).
    apply sumn_ext. intros k Hk. rewrite (sm_add_get K M) by assumption. ring.
Qed.

Theorem sm_mul_add_distr_r N K M (a b c : smat) : length a = (N * K)%nat -> length b = (N * K)%nat ->
  sm_mul N K M (sm_add a b) c = sm_add (sm_mul N K M a c) (sm_mul N K M b c).
Proof.
  intros Ha Hb. apply (sm_ext N M).
  - apply sm_mul_length.
  - rewrite sm_add_length; rewrite !sm_mul_length; reflexivity.
  - intros i j Hi Hj. rewrite (sm_add_get N M) by (try apply sm_mul_length; assumption).
    rewrite !sm_mul_get by assumption. unfold fmul. rewrite <- (sumn_add Srt).
    apply sumn_ext. intros k Hk. rewrite (sm_add_get N K) by assumption. ring.
Qed.

Lemma sm_id_get N i j : i < N -> j < N -> sm_get N (sm_id N) i j = if Nat.eqb i j then @s1 S else s0.
Proof. intros. unfold sm_id. apply sm_of_fun_get; assumption. Qed.

Theorem sm_mul_id_l N M (a : smat) : length a = (N * M)%nat -> sm_mul N N M (sm_id N) a = a.
Proof.
  intro Ha. apply (sm_ext N M); [apply sm_mul_length|assumption|].
  intros i j Hi Hj. rewrite sm_mul_get by assumption. unfold fmul.
  transitivity (sumn (fun k => (if Nat.eqb i k then s1 else s0) * sm_get M a k j) N).
  - apply sumn_ext. intros k Hk. rewrite sm_id_get by assumption. reflexivity.
  - rewrite sumn_delta_l. apply Nat.ltb_lt in Hi. rewrite Hi. reflexivity.
Qed.

Theorem sm_mul_id_r N M (a : smat) : length a = (N * M)%nat -> sm_mul N M M a (sm_id M) = a.
Proof.
  intro Ha. apply (sm_ext N M); [apply sm_mul_length|assumption|].
  intros i j Hi Hj. rewrite sm_mul_get by assumption. unfold fmul.
  transitivity (sumn (fun k => sm_get M a i k * (if Nat.eqb k j then s1 else s0)) M).
  - apply sumn_ext. intros k Hk. rewrite sm_id_get by assumption. reflexivity.
  - rewrite sumn_delta_r. apply Nat.ltb_lt in Hj. rewrite Hj. reflexivity.
Qed.

Theorem sm_add_comm N M (a b : smat) : length a = (N * M)%nat -> length b = (N * M)%nat -> sm_add a b = sm_add b a.
Proof.
  intros Ha Hb. apply (sm_ext N M); try (rewrite sm_add_length; congruence).
  intros i j Hi Hj. rewrite !(sm_add_get N M) by assumption. ring.
Qed.

Theorem sm_add_assoc N M (a b c : smat) : length a = (N * M)%nat -> length b = (N * M)%nat -> length c = (N * M)%nat ->
  sm_add (sm_add a b) c = sm_add a (sm_add b c).
Proof.
  intros Ha Hb Hc.
  assert (Hab : length (sm_add a b) = (N * M)%nat) by (rewrite sm_add_length; congruence).
  assert (Hbc : length (sm_add b c) = (N * M)%nat) by (rewrite sm_add_length; congruence).
  apply (sm_ext N M); try (rewrite sm_add_length; congruence).
  intros i j Hi Hj. rewrite !(sm_add_get N M) by assumption. ring.
Qed.

Theorem sm_add_zero_r N M (a : smat) : length a = (N * M)%nat -> sm_add a (sm_zero N M) = a.
Proof.
  intro Ha. apply (sm_ext N M); try assumption.
  - rewrite sm_add_length; rewrite ?sm_zero_length; congruence.
  - intros i j Hi Hj. rewrite (sm_add_get N M) by (try apply sm_zero_length; assumption).
    rewrite sm_zero_get by assumption. ring.
Qed.

Lemma sm_neg_length (a : smat) : length (sm_neg a) = length a.
Proof. apply map_length. Qed.
Lemma sm_scale_length c (a : smat) : length (sm_scale c a) = length a.
Proof. apply map_length. Qed.

Theorem sm_add_neg_r N M (a : smat) : length a = (N * M)%nat -> sm_add a (sm_neg a) = sm_zero N M.
Proof.
  intro Ha. assert (Hn : length (sm_neg a) = (N * M)%nat) by (rewrite sm_neg_length; assumption).
  apply (sm_ext N M); try apply sm_zero_length.
  - rewrite sm_add_length; congruence.
  - intros i j Hi Hj. rewrite (sm_add_get N M), (sm_neg_get N M), sm_zero_get by assumption. ring.
Qed.

Theorem sm_sub_def N M (a b : smat) : length a = (N * M)%nat -> length b = (N * M)%nat ->
  sm_sub a b = sm_add a (sm_neg b).
Proof.
  intros Ha Hb. assert (Hn : length (sm_neg b) = (N * M)%nat) by (rewrite sm_neg_length; assumption).
  apply (sm_ext N M).
  - rewrite sm_sub_length; congruence.
  - rewrite sm_add_length; congruence.
  - intros i j Hi Hj. rewrite (sm_sub_get N M), (sm_add_get N M), (sm_neg_get N M) by assumption. ring.
Qed.

Theorem sm_scale_mul N K M s (a b : smat) : length a = (N * K)%nat ->
  sm_scale s (sm_mul N K M a b) = sm_mul N K M (sm_scale s a) b.
Proof.
  intro Ha. apply (sm_ext N M).
  - rewrite sm_scale_length. apply sm_mul_length.
  - apply sm_mul_length.
  - intros i j Hi Hj. rewrite (sm_scale_get N M) by (try apply sm_mul_length; assumption).
    rewrite !sm_mul_get by assumption. unfold fmul. rewrite <- sumn_scal_r.
    apply sumn_ext. intros k Hk. rewrite (sm_scale_get N K) by assumption. ring.
Qed.

Theorem sm_scale_add N M s (a b : smat) : length a = (N * M)%nat -> length b = (N * M)%nat ->
  sm_scale s (sm_add a b) = sm_add (sm_scale s a) (sm_scale s b).
Proof.
  intros Ha Hb.
  assert (Hab : length (sm_add a b) = (N * M)%nat) by (rewrite sm_add_length; congruence).
  assert (Hsa : length (sm_scale s a) = (N * M)%nat) by (rewrite sm_scale_length; assumption).
  assert (Hsb : length (sm_scale s b) = (N * M)%nat) by (rewrite sm_scale_length; assumption).
  apply (sm_ext N M).
  - rewrite sm_scale_length. assumption.
  - rewrite sm_add_length; congruence.
  - intros i j Hi Hj.
    rewrite (sm_scale_get N M), !(sm_add_get N M), !(sm_scale_get N M) by assumption. ring.
Qed.

(* ---------- adjoint: needs the scalar adjoint to be a ring involution ---------- *)
Section Adjoint.
Hypothesis sadj_add : forall x y : S, sadj (x + y) = sadj x + sadj y.
Hypothesis sadj_mul : forall x y : S, sadj (x * y) = sadj x * sadj y.
Hypothesis sadj_invol : forall x : S, sadj (sadj x) = x.

Lemma sadj_0 : sadj (@s0 S) = s0.
Proof.
  assert (H : sadj (@s0 S) + sadj s0 = sadj s0 + s0).
  { rewrite <- sadj_add. replace (@s0 S + s0) with (@s0 S) by ring. ring. }
  assert (H2 : sadj (@s0 S) = (sadj s0 + sadj s0) - sadj s0) by ring.
  rewrite H2, H. ring.
Qed.

Lemma sadj_sumn (f : nat -> S) n : sadj (sumn f n) = sumn (fun k => sadj (f k)) n.
Proof. induction n as [|n IH]; simpl; [apply sadj_0|]. rewrite sadj_add, IH. reflexivity. Qed.

Lemma sm_adjoint_get N M (a : smat) i j : i < N -> j < M ->
  sm_get N (sm_adjoint N M a) j i = sadj (sm_get M a i j).
Proof. intros Hi Hj. unfold sm_adjoint. rewrite sm_of_fun_get by assumption. reflexivity. Qed.
Lemma sm_adjoint_length N M (a : smat) : length (sm_adjoint N M a) = (M * N)%nat.
Proof. apply sm_of_fun_length. Qed.

(* adjoint(a * b) = adjoint(b) * adjoint(a) *)
Theorem sm_adjoint_mul N K M (a b : smat) :
  sm_adjoint N M (sm_mul N K M a b) = sm_mul M K N (sm_adjoint K M b) (sm_adjoint N K a).
Proof.
  unfold sm_adjoint at 1. unfold sm_mul at 2. apply sm_of_fun_ext. intros j i Hj Hi.
  rewrite sm_mul_get by assumption. unfold fmul. rewrite sadj_sumn.
  apply sumn_ext. intros k Hk. rewrite sadj_mul.
  rewrite (sm_adjoint_get K M) by assumption. rewrite (sm_adjoint_get N K) by assumption. ring.
Qed.

Theorem sm_adjoint_invol N M (a : smat) : length a = (N * M)%nat ->
  sm_adjoint M N (sm_adjoint N M a) = a.
Proof.
  intro Ha. apply (sm_ext N M); [apply sm_adjoint_length|assumption|].
  intros i j Hi Hj. rewrite (sm_adjoint_get M N) by assumption.
  rewrite (sm_adjoint_get N M) by assumption. apply sadj_invol.
Qed.

Theorem sm_adjoint_add N M (a b : smat) : length a = (N * M)%nat -> length b = (N * M)%nat ->
  sm_adjoint N M (sm_add a b) = sm_add (sm_adjoint N M a) (sm_adjoint N M b).
Proof.
  intros Ha Hb. apply (sm_ext M N).
  - apply sm_adjoint_length.
  - rewrite sm_add_length; rewrite !sm_adjoint_length; reflexivity.
  - intros j i Hj Hi. rewrite (sm_add_get M N) by (try apply sm_adjoint_length; assumption).
    rewrite !(sm_adjoint_get N M) by assumption. rewrite (sm_add_get N M) by assumption. apply sadj_add.
Qed.
End Adjoint.

End SMRing.
