(* Capi2.v -- C20: call HISTORIES on the C interface lib/amgcl.cpp.  No proofs here (Capi2Proofs.v).

   Capi.v models one call (index shifting, ranges) and the bare create/use/destroy protocol.
   This file adds the DATA each call may depend on.

   * The state of the C layer is exactly a table  handle |-> what `new` built at creation:
       params handle  -> a boost::property_tree (lib/amgcl.cpp:33-60),
       precond handle -> an amgcl::amg object      (lib/amgcl.cpp:62-127),
       solver handle  -> an amgcl::make_solver     (lib/amgcl.cpp:129-297).
     There is no other state in lib/amgcl.cpp (no file-static, no cache): every entry point casts
     the handle, forms iterator ranges over the caller's arrays and forwards to the C++ object.
   * The caller owns memory: buffers live at addresses and are REUSED IN PLACE; an entry point
     receives addresses and reads the CONTENTS the buffers have at the time of the call
     (`resolve`); x is an in/out argument (initial guess in, solution out: `writeback`).
   * The C++ run-time interface is abstract (Section variables): constructors and the three
     calls, each of which may change the object's own state (scratch vectors ...).  n of the
     solve calls is slv->size() / rows(system_matrix()), i.e. the n given at creation.
   * `exec_r` is the semantics of one entry point on RESOLVED arguments (contents instead of
     addresses); `run` is the address-level history semantics; it returns the contents trace and
     the outputs.  `run_ac` is the variant with an address-keyed cache of shifted index arrays in
     amgcl_solver_solve_mtx_f (the failure class of seeded C20-2), used only for the refutation. *)
From Coq Require Import String List Bool Arith ZArith Lia.
From Amgcl Require Import Ptree Capi.
Import ListNotations.

Section CLayer.
  Variable V : Type.            (* matrix values (double) *)
  Variable dv : V.
  Variable X : Type.            (* contents of a vector buffer (rhs, x) *)
  Variable Obj : Type.          (* a C++ object behind a handle, with all of its own state *)
  Variable Res : Type.          (* conv_info (iterations, residual) or the exception that escaped *)

  Definition matrix := list (list (Z * V)).

  (* ---- the C++ run-time interface ---- *)
  Variable new_precond : nat -> matrix -> option ptree -> Obj.      (* new AMG(A, prm) / new AMG(A) *)
  Variable new_solver : nat -> matrix -> option ptree -> Obj.       (* new Solver(A, prm) / new Solver(A) *)
  Variable precond_apply : Obj -> X -> X -> X * Obj.                (* amg->apply(rhs, x) *)
  Variable solver_solve : Obj -> X -> X -> (Res * X) * Obj.         (* slv->operator()(rhs, x) *)
  Variable solver_solve_mtx : Obj -> matrix -> X -> X -> (Res * X) * Obj.   (* slv->operator()(A, rhs, x) *)

  (* ---- the table ---- *)
  Inductive entry :=
  | EParams (t : ptree)
  | EPrecond (n : nat) (o : Obj)
  | ESolver (n : nat) (o : Obj).
  Definition table := list (nat * entry).

  Fixpoint tlookup (h : nat) (tb : table) : option entry :=
    match tb with [] => None | (h', e) :: tb' => if Nat.eqb h' h then Some e else tlookup h tb' end.
  Definition tremove (h : nat) (tb : table) : table := filter (fun e => negb (Nat.eqb (fst e) h)) tb.
  Definition tset (h : nat) (e : entry) (tb : table) : table := (h, e) :: tremove h tb.

  Definition kind_of (e : entry) : hkind :=
    match e with EParams _ => HParams | EPrecond _ _ => HPrecond | ESolver _ _ => HSolver end.
  Definition kinds (tb : table) : live := map (fun e => (fst e, kind_of (snd e))) tb.

  (* ---- resolved calls: contents instead of addresses ---- *)
  Inductive rcall :=
  | RPCreate (h : nat)
  | RPSet (h : nat) (name text : string)                 (* seti / setf / sets, the value as its text *)
  | RPJson (h : nat) (t : ptree)                         (* read_json: the parsed file replaces the tree *)
  | RPDestroy (h : nat)
  | RACreate (f : bool) (h n : nat) (ptr col : list Z) (val : list V) (prm : option nat)
  | RAApply (h : nat) (rhs x : X)
  | RADestroy (h : nat)
  | RSCreate (f : bool) (h n : nat) (ptr col : list Z) (val : list V) (prm : option nat)
  | RSSolve (f : bool) (h : nat) (rhs x : X)             (* amgcl_solver_solve / _solve_f *)
  | RSSolveMtx (f : bool) (h : nat) (ptr col : list Z) (val : list V) (rhs x : X)
  | RSDestroy (h : nat).

  Inductive cout :=
  | ONone
  | OHandle (h : nat)
  | OX (x : X)
  | ORes (r : Res) (x : X).

  Definition base_of (f : bool) : Z := if f then 1%Z else 0%Z.

  (* the params argument of a create: NULL, or a live params handle whose tree is read NOW *)
  Definition prm_tree (tb : table) (prm : option nat) : option (option ptree) :=
    match prm with
    | None => Some None
    | Some p => match tlookup p tb with Some (EParams t) => Some (Some t) | _ => None end
    end.

  (* None = undefined behaviour (dangling or wrongly typed handle pointer) *)
  Definition exec_r (tb : table) (c : rcall) : option (table * cout) :=
    match c with
    | RPCreate h =>
        match tlookup h tb with None => Some ((h, EParams empty_ptree) :: tb, OHandle h) | Some _ => None end
    | RPSet h name text =>
        match tlookup h tb with
        | Some (EParams t) => Some (tset h (EParams (capi_set name text t)) tb, ONone)
        | _ => None end
    | RPJson h t' =>
        match tlookup h tb with Some (EParams _) => Some (tset h (EParams t') tb, ONone) | _ => None end
    | RPDestroy h =>
        match tlookup h tb with Some (EParams _) => Some (tremove h tb, ONone) | _ => None end
    | RACreate f h n ptr col val prm =>
        match prm_tree tb prm, tlookup h tb with
        | Some pt, None =>
            Some ((h, EPrecond n (new_precond n (build V dv (base_of f) n ptr col val) pt)) :: tb, OHandle h)
        | _, _ => None end
    | RAApply h rhs x =>
        match tlookup h tb with
        | Some (EPrecond n o) =>
            let r := precond_apply o rhs x in Some (tset h (EPrecond n (snd r)) tb, OX (fst r))
        | _ => None end
    | RADestroy h =>
        match tlookup h tb with Some (EPrecond _ _) => Some (tremove h tb, ONone) | _ => None end
    | RSCreate f h n ptr col val prm =>
        match prm_tree tb prm, tlookup h tb with
        | Some pt, None =>
            Some ((h, ESolver n (new_solver n (build V dv (base_of f) n ptr col val) pt)) :: tb, OHandle h)
        | _, _ => None end
    | RSSolve _ h rhs x =>
        match tlookup h tb with
        | Some (ESolver n o) =>
            let r := solver_solve o rhs x in Some (tset h (ESolver n (snd r)) tb, ORes (fst (fst r)) (snd (fst r)))
        | _ => None end
    | RSSolveMtx f h ptr col val rhs x =>
        match tlookup h tb with
        | Some (ESolver n o) =>
            let r := solver_solve_mtx o (build V dv (base_of f) n ptr col val) rhs x in
            Some (tset h (ESolver n (snd r)) tb, ORes (fst (fst r)) (snd (fst r)))
        | _ => None end
    | RSDestroy h =>
        match tlookup h tb with Some (ESolver _ _) => Some (tremove h tb, ONone) | _ => None end
    end.

  Fixpoint runR (tb : table) (tr : list rcall) : option (list cout * table) :=
    match tr with
    | [] => Some ([], tb)
    | c :: tr' =>
        match exec_r tb c with
        | Some (tb1, o) =>
            match runR tb1 tr' with Some (os, tb2) => Some (o :: os, tb2) | None => None end
        | None => None
        end
    end.

  (* ---- the caller's memory and address-level histories ---- *)
  Record mem := { mi : nat -> list Z; mv : nat -> list V; mx : nat -> X }.
  Definition upd {A} (m : nat -> A) (a : nat) (v : A) : nat -> A := fun b => if Nat.eqb b a then v else m b.

  Inductive ccall :=
  | WrI (a : nat) (l : list Z)                            (* the caller (re)fills an int buffer in place *)
  | WrV (a : nat) (l : list V)
  | WrX (a : nat) (x : X)
  | PCreate (h : nat)                                     (* h = the handle the library returned *)
  | PSet (h : nat) (name text : string)
  | PJson (h : nat) (t : ptree)
  | PDestroy (h : nat)
  | ACreate (f : bool) (h n ptr col val : nat) (prm : option nat)
  | AApply (h rhs x : nat)
  | ADestroy (h : nat)
  | SCreate (f : bool) (h n ptr col val : nat) (prm : option nat)
  | SSolve (f : bool) (h rhs x : nat)
  | SSolveMtx (f : bool) (h ptr col val rhs x : nat)
  | SDestroy (h : nat).

  (* what the entry point sees: the contents of the caller's buffers at the time of the call *)
  Definition resolve (m : mem) (c : ccall) : option rcall :=
    match c with
    | WrI _ _ | WrV _ _ | WrX _ _ => None
    | PCreate h => Some (RPCreate h)
    | PSet h name text => Some (RPSet h name text)
    | PJson h t => Some (RPJson h t)
    | PDestroy h => Some (RPDestroy h)
    | ACreate f h n ptr col val prm => Some (RACreate f h n (mi m ptr) (mi m col) (mv m val) prm)
    | AApply h rhs x => Some (RAApply h (mx m rhs) (mx m x))
    | ADestroy h => Some (RADestroy h)
    | SCreate f h n ptr col val prm => Some (RSCreate f h n (mi m ptr) (mi m col) (mv m val) prm)
    | SSolve f h rhs x => Some (RSSolve f h (mx m rhs) (mx m x))
    | SSolveMtx f h ptr col val rhs x => Some (RSSolveMtx f h (mi m ptr) (mi m col) (mv m val) (mx m rhs) (mx m x))
    | SDestroy h => Some (RSDestroy h)
    end.

  (* the only memory the library writes: the x argument of apply / solve *)
  Definition xaddr (c : ccall) : option nat :=
    match c with
    | AApply _ _ x | SSolve _ _ _ x | SSolveMtx _ _ _ _ _ _ x => Some x
    | _ => None
    end.
  Definition writeback (m : mem) (c : ccall) (o : cout) : mem :=
    match xaddr c, o with
    | Some a, OX x | Some a, ORes _ x => {| mi := mi m; mv := mv m; mx := upd (mx m) a x |}
    | _, _ => m
    end.
  Definition caller_write (m : mem) (c : ccall) : mem :=
    match c with
    | WrI a l => {| mi := upd (mi m) a l; mv := mv m; mx := mx m |}
    | WrV a l => {| mi := mi m; mv := upd (mv m) a l; mx := mx m |}
    | WrX a x => {| mi := mi m; mv := mv m; mx := upd (mx m) a x |}
    | _ => m
    end.

  (* result: the contents trace paired with the outputs, the final table, the final memory *)
  Fixpoint run (tb : table) (m : mem) (hist : list ccall) : option (list (rcall * cout) * table * mem) :=
    match hist with
    | [] => Some ([], tb, m)
    | c :: hist' =>
        match resolve m c with
        | None => run tb (caller_write m c) hist'
        | Some rc =>
            match exec_r tb rc with
            | Some (tb1, o) =>
                match run tb1 (writeback m c o) hist' with
                | Some (tr, tb2, m2) => Some ((rc, o) :: tr, tb2, m2)
                | None => None
                end
            | None => None
            end
        end
    end.

  (* ---- vocabulary of the theorems ---- *)
  (* a call that USES an object (apply / solve / solve_mtx) *)
  Definition is_use (c : rcall) : bool :=
    match c with RAApply _ _ _ | RSSolve _ _ _ _ | RSSolveMtx _ _ _ _ _ _ _ => true | _ => false end.
  Definition handle_of (c : rcall) : nat :=
    match c with
    | RPCreate h | RPSet h _ _ | RPJson h _ | RPDestroy h | RACreate _ h _ _ _ _ _ | RAApply h _ _ | RADestroy h
    | RSCreate _ h _ _ _ _ _ | RSSolve _ h _ _ | RSSolveMtx _ h _ _ _ _ _ | RSDestroy h => h
    end.
  (* outputs of the calls of a trace that satisfy `keep` *)
  Definition outs_of (keep : rcall -> bool) (tr : list rcall) (os : list cout) : list cout :=
    map snd (filter (fun p => keep (fst p)) (combine tr os)).

  (* the 1-based call as the 0-based call on the shifted arrays *)
  Definition defort (c : rcall) : rcall :=
    match c with
    | RACreate true h n ptr col val prm => RACreate false h n (map Z.pred ptr) (map Z.pred col) val prm
    | RSCreate true h n ptr col val prm => RSCreate false h n (map Z.pred ptr) (map Z.pred col) val prm
    | RSSolve true h rhs x => RSSolve false h rhs x
    | RSSolveMtx true h ptr col val rhs x => RSSolveMtx false h (map Z.pred ptr) (map Z.pred col) val rhs x
    | _ => c
    end.
  (* the arrays of a Fortran call are well-formed 1-based CRS arrays (n of solve_mtx_f: the object's) *)
  Definition wf_fortran (tb : table) (c : rcall) : Prop :=
    match c with
    | RACreate true _ n ptr col val _ | RSCreate true _ n ptr col val _ =>
        exists nnz, wf_arrays V 1 n nnz ptr col val
    | RSSolveMtx true h ptr col val _ _ =>
        forall n o, tlookup h tb = Some (ESolver n o) -> exists nnz, wf_arrays V 1 n nnz ptr col val
    | _ => True
    end.
  Fixpoint wf_trace (tb : table) (tr : list rcall) : Prop :=
    match tr with
    | [] => True
    | c :: tr' => wf_fortran tb c /\ match exec_r tb c with Some (tb1, _) => wf_trace tb1 tr' | None => True end
    end.

  (* the bare protocol of Capi.v behind a resolved call *)
  Definition erase (c : rcall) : list cop :=
    let withprm prm l := match prm with Some p => Use HParams p :: l | None => l end in
    match c with
    | RPCreate h => [Create HParams h]
    | RPSet h _ _ | RPJson h _ => [Use HParams h]
    | RPDestroy h => [Destroy HParams h]
    | RACreate _ h _ _ _ _ prm => withprm prm [Create HPrecond h]
    | RAApply h _ _ => [Use HPrecond h]
    | RADestroy h => [Destroy HPrecond h]
    | RSCreate _ h _ _ _ _ prm => withprm prm [Create HSolver h]
    | RSSolve _ h _ _ | RSSolveMtx _ h _ _ _ _ _ => [Use HSolver h]
    | RSDestroy h => [Destroy HSolver h]
    end.

  (* ---- the failure class of seeded C20-2: amgcl_solver_solve_mtx_f keeps, per handle, a 0-based
     copy of ptr/col and revalidates it by the ADDRESSES of the caller's arrays, n and nnz ---- *)
  Record acache := { ac_ptr : nat; ac_col : nat; ac_p : list Z; ac_c : list Z }.
  Definition cache := list (nat * acache).
  Fixpoint clookup (h : nat) (cs : cache) : option acache :=
    match cs with [] => None | (h', e) :: cs' => if Nat.eqb h' h then Some e else clookup h cs' end.
  Definition cremove (h : nat) (cs : cache) : cache := filter (fun e => negb (Nat.eqb (fst e) h)) cs.

  Definition ac_matches (e : acache) (n ptr col : nat) (p : list Z) : bool :=
    Nat.eqb (ac_ptr e) ptr && Nat.eqb (ac_col e) col && Nat.eqb (length (ac_p e)) (n + 1)
    && Z.eqb (Z.of_nat (length (ac_c e))) (zn p n - 1).

  (* the resolved call the cached variant actually performs *)
  Definition resolve_ac (tb : table) (cs : cache) (m : mem) (c : ccall) : option rcall * cache :=
    match c with
    | SSolveMtx true h ptr col val rhs x =>
        match tlookup h tb with
        | Some (ESolver n _) =>
            let fresh := {| ac_ptr := ptr; ac_col := col; ac_p := map Z.pred (firstn (n + 1) (mi m ptr));
                            ac_c := map Z.pred (firstn (Z.to_nat (zn (mi m ptr) n - 1)) (mi m col)) |} in
            let e := match clookup h cs with
                     | Some e => if ac_matches e n ptr col (mi m ptr) then e else fresh
                     | None => fresh end in
            (Some (RSSolveMtx false h (ac_p e) (ac_c e) (mv m val) (mx m rhs) (mx m x)), (h, e) :: cremove h cs)
        | _ => (resolve m c, cs)
        end
    | SDestroy h => (resolve m c, cremove h cs)
    | _ => (resolve m c, cs)
    end.

  Fixpoint run_ac (tb : table) (cs : cache) (m : mem) (hist : list ccall) : option (list cout) :=
    match hist with
    | [] => Some []
    | c :: hist' =>
        match resolve_ac tb cs m c with
        | (None, cs1) => run_ac tb cs1 (caller_write m c) hist'
        | (Some rc, cs1) =>
            match exec_r tb rc with
            | Some (tb1, o) =>
                match run_ac tb1 cs1 (writeback m c o) hist' with Some os => Some (o :: os) | None => None end
            | None => None
            end
        end
    end.
End CLayer.

Arguments ONone {X Res}.
Arguments OHandle {X Res} _.
Arguments OX {X Res} _.
Arguments ORes {X Res} _ _.
