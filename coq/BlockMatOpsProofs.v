(* BlockMatOpsProofs.v -- C08 for NON-COMMUTATIVE value types (ncring_theory: static_matrix blocks): the dense
   characterisations of MatOpsProofs.v / MatOps2Proofs.v (Rmerge, part B) re-proved WITHOUT commutativity of the
   product.  The statements keep the operand order of the C++ and of the models:
     product (spgemm_saad, spgemm_rmerge, backend::product for every thread count):
                  (A B)_ij = sum_k a_ik * b_kj                         entry of A on the LEFT
     sum          (alpha A + beta B)_ij = alpha * a_ij + beta * b_ij    coefficients on the LEFT
     scale        (A s)_ij = a_ij * s                                   factor on the RIGHT (A.val[j] *= s)
     sort_rows    dense matrix unchanged
     transpose    (A^H)_ji = adj(a_ij)   for an ADDITIVE adjoint; and if adj is an anti-automorphism
                  (adj(a*b) = adj(b)*adj(a)) the transpose of a product is the product of the transposes in reverse
                  order:  ((A B)^H)_ji = sum_k (B^H)_jk * (A^H)_ki      [nc_transpose_product]
     diagonal     first stored diagonal entry vs dense entry (as in the commutative case)
   Section BlockAdjoint: BlockS S0 b (static_matrix<T,b,b>, adjoint = conjugate transpose of the block) over a
   commutative ring with an additive, multiplicative adjoint IS such a ring with anti-automorphism; closed at
   BlockS QcS b in Properties_C08.v. *)
From Coq Require Import Sorting.Sorted Sorting.Permutation.
From Amgcl Require Import Scalar Vec Crs Kernels KernelsProofs MatOps MatOpsProofs MatOps2 MatOps2Proofs
  NcRing NcKernels DirectUtil Inverse StaticMat StaticMatProofs BlockInst NcRingBlock.
Local Open Scope S_scope.

Section NcMatOps.
Context {S : Scalar}.
Local Notation vec := (vec S).
Local Notation row := (row S).
Local Notation crs := (crs S).
Hypothesis Hnc : ncring_theory S.
Local Instance ncm : NcRingInst S := ncring_inst Hnc.

Local Notation rget_cons := (nc_rget_cons Hnc).
Local Notation rget_app := (nc_rget_app Hnc).

Lemma nc_rget_single c (v : S) j : rget [(c, v)] j = if Nat.eqb c j then v else s0.
Proof. rewrite rget_cons, nc_rget_nil. simpl. destruct (Nat.eqb c j); ncr. Qed.

(* the marker logic adds v to the dense entry (row, c) and changes nothing else *)
Lemma nc_rget_row_add (r : row) c v j :
  rget (row_add r c v) j = rget r j + (if Nat.eqb c j then v else s0).
Proof.
  induction r as [|[c' v'] r IH]; simpl.
  - rewrite nc_rget_single, nc_rget_nil. ncr.
  - destruct (Nat.eqb_spec c' c) as [->|Hne].
    + rewrite !rget_cons. simpl. destruct (Nat.eqb c j); ncr.
    + rewrite !rget_cons, IH. ncr.
Qed.

(* inner loop of saad / both loops of sum: the factor a stays on the LEFT *)
Lemma nc_rget_fold_row_add (a : S) (rb acc : row) j :
  rget (fold_left (fun acc eb => row_add acc (fst eb) (a * snd eb)) rb acc) j
  = rget acc j + a * rget rb j.
Proof.
  revert acc; induction rb as [|e rb IH]; intro acc; simpl.
  - rewrite nc_rget_nil. ncr.
  - rewrite IH, nc_rget_row_add, rget_cons. destruct (Nat.eqb (fst e) j); ncr.
Qed.

Lemma nc_rget_spgemm_fold (B : crs) (ra acc : row) j :
  rget (fold_left (fun acc ea =>
          fold_left (fun acc eb => row_add acc (fst eb) (snd ea * snd eb))
                    (nth (fst ea) (rows B) []) acc) ra acc) j
  = rget acc j + row_lin ra B j.
Proof.
  revert acc; induction ra as [|e ra IH]; intro acc; simpl.
  - ncr.
  - rewrite IH, nc_rget_fold_row_add. ncr.
Qed.

Lemma nc_rget_spgemm_row (ra : row) (B : crs) j : rget (spgemm_row ra B) j = row_lin ra B j.
Proof. unfold spgemm_row. rewrite nc_rget_spgemm_fold, nc_rget_nil. ncr. Qed.

Lemma nc_sumn_delta_mul (c : nat) (v : S) (f : nat -> S) n :
  sumn (fun k => (if Nat.eqb c k then v else s0) * f k) n = if Nat.ltb c n then v * f c else s0.
Proof.
  induction n as [|n IH]; simpl; [reflexivity|]. rewrite IH.
  destruct (Nat.eqb_spec c n) as [->|Hne].
  - rewrite Nat.ltb_irrefl.
    replace (n <? Datatypes.S n)%nat with true by (symmetry; apply Nat.ltb_lt; lia). ncr.
  - destruct (Nat.ltb_spec c n); destruct (Nat.ltb_spec c (Datatypes.S n)); try lia; ncr.
Qed.

(* row_lin is the dense row-times-matrix product, entry of the row on the LEFT *)
Lemma nc_row_lin_dense (ra : row) (B : crs) j m : row_wf m ra = true ->
  row_lin ra B j = sumn (fun k => rget ra k * mget B k j) m.
Proof.
  induction ra as [|e ra IH]; intro Hwf.
  - simpl. rewrite (sumn_ext _ (fun _ => s0)).
    + symmetry; apply (ncsumn_zero Hnc).
    + intros; rewrite nc_rget_nil; ncr.
  - simpl in Hwf. apply andb_prop in Hwf as [He Hr]. simpl. rewrite IH by exact Hr.
    rewrite (sumn_ext (fun k => rget (e :: ra) k * mget B k j)
               (fun k => (if Nat.eqb (fst e) k then snd e else s0) * mget B k j + rget ra k * mget B k j)).
    + rewrite (ncsumn_add Hnc), nc_sumn_delta_mul, He. reflexivity.
    + intros k _. rewrite rget_cons. ncr.
Qed.

(* --- sort_row preserves the dense row --- *)
Lemma nc_rget_ins_right (e : nat * S) (r : row) j : rget (ins_right e r) j = rget (e :: r) j.
Proof.
  induction r as [|a r IH]; simpl; [reflexivity|].
  destruct (Nat.leb (fst a) (fst e)); [|reflexivity].
  rewrite rget_cons, IH, !rget_cons. ncr.
Qed.

Lemma nc_rget_sort_fold (r acc : row) j :
  rget (fold_left (fun acc e => ins_right e acc) r acc) j = rget acc j + rget r j.
Proof.
  revert acc; induction r as [|e r IH]; intro acc; simpl.
  - rewrite nc_rget_nil. ncr.
  - rewrite IH, nc_rget_ins_right, !rget_cons. ncr.
Qed.

Lemma nc_rget_sort_row (r : row) j : rget (sort_row r) j = rget r j.
Proof. unfold sort_row. rewrite nc_rget_sort_fold, nc_rget_nil. ncr. Qed.

(* --- spgemm_saad: dense characterisation, unsorted rows and duplicates allowed --- *)
Lemma nc_mget_saad_row_lin (A B : crs) sort i j :
  mget (spgemm_saad A B sort) i j = row_lin (nth i (rows A) []) B j.
Proof.
  unfold mget at 1, spgemm_saad. simpl rows.
  rewrite (nth_map_nil (fun ra => if sort then sort_row (spgemm_row ra B) else spgemm_row ra B))
    by (destruct sort; reflexivity).
  cbv beta. destruct sort; [rewrite nc_rget_sort_row|]; apply nc_rget_spgemm_row.
Qed.

Theorem nc_spgemm_saad_dense (A B : crs) (sort : bool) i j :
  wf A = true -> i < nrows A ->
  mget (spgemm_saad A B sort) i j = sumn (fun k => mget A i k * mget B k j) (ncols A).
Proof.
  intros Hwf Hi. rewrite nc_mget_saad_row_lin. unfold mget at 1.
  apply nc_row_lin_dense. apply forallb_nth; assumption.
Qed.

(* --- sum --- *)
Lemma nc_rget_sum_row alpha (ra : row) beta (rb : row) j :
  rget (sum_row alpha ra beta rb) j = alpha * rget ra j + beta * rget rb j.
Proof. unfold sum_row. rewrite !nc_rget_fold_row_add, nc_rget_nil. ncr. Qed.

Theorem nc_msum_dense alpha (A : crs) beta (B : crs) (sort : bool) i j :
  nrows A = nrows B -> i < nrows A ->
  mget (msum alpha A beta B sort) i j = alpha * mget A i j + beta * mget B i j.
Proof.
  intros Hn Hi. unfold mget, msum. simpl rows.
  rewrite (nth_map2 _ (rows A) (rows B) i [] []) by assumption.
  destruct sort; [rewrite nc_rget_sort_row|]; apply nc_rget_sum_row.
Qed.

(* --- scale: the factor multiplies from the RIGHT --- *)
Lemma nc_rget_map_scale (r : row) (s : S) j :
  rget (map (fun e => (fst e, snd e * s)) r) j = rget r j * s.
Proof.
  induction r as [|e r IH]; simpl.
  - rewrite nc_rget_nil. ncr.
  - rewrite !rget_cons, IH. simpl. destruct (Nat.eqb (fst e) j); ncr.
Qed.

Theorem nc_mscale_dense (A : crs) (s : S) i j : mget (mscale A s) i j = mget A i j * s.
Proof.
  unfold mget, mscale. simpl rows.
  rewrite (nth_map_nil (map (fun e => (fst e, snd e * s)))) by reflexivity.
  apply nc_rget_map_scale.
Qed.

Theorem nc_sort_rows_dense (A : crs) i j : mget (sort_rows A) i j = mget A i j.
Proof.
  unfold mget, sort_rows. simpl rows.
  rewrite (nth_map_nil (@sort_row S)) by reflexivity. apply nc_rget_sort_row.
Qed.

(* --- transpose (needs: adjoint is additive) --- *)
Section Transpose.
Hypothesis sadj_add : forall a b : S, sadj (a + b) = sadj a + sadj b.
Hypothesis sadj_0 : sadj (@s0 S) = s0.

Lemma nc_rget_tr_piece (i' : nat) (r : row) j i :
  rget (map (fun e => (i', sadj (snd e))) (filter (fun e => Nat.eqb (fst e) j) r)) i
  = if Nat.eqb i' i then sadj (rget r j) else s0.
Proof.
  induction r as [|e r IH]; simpl.
  - rewrite nc_rget_nil. destruct (Nat.eqb i' i); [symmetry; exact sadj_0|reflexivity].
  - rewrite (rget_cons e r). destruct (Nat.eqb (fst e) j); simpl.
    + rewrite rget_cons, IH. simpl. destruct (Nat.eqb i' i).
      * rewrite sadj_add. reflexivity.
      * ncr.
    + rewrite IH. destruct (Nat.eqb i' i); [|reflexivity].
      f_equal. ncr.
Qed.

Lemma nc_rget_tr_rows (l : list row) (k : nat) j i :
  rget (flat_map (fun ir : nat * row => map (fun e => (fst ir, sadj (snd e)))
                                  (filter (fun e => Nat.eqb (fst e) j) (snd ir)))
                 (combine (seq k (length l)) l)) i
  = if andb (Nat.leb k i) (Nat.ltb i (k + length l)) then sadj (rget (nth (i - k) l []) j) else s0.
Proof.
  revert k; induction l as [|r l IH]; intro k; simpl.
  - rewrite nc_rget_nil. destruct (Nat.leb_spec k i); simpl; [|reflexivity].
    destruct (Nat.ltb_spec i (k + 0)%nat); [lia|reflexivity].
  - rewrite rget_app, nc_rget_tr_piece, IH. simpl fst.
    replace (k + Datatypes.S (length l))%nat with (Datatypes.S k + length l)%nat by lia.
    destruct (Nat.eqb_spec k i) as [->|Hne].
    + replace (i - i)%nat with 0%nat by lia.
      replace (Datatypes.S i <=? i) with false by (symmetry; apply Nat.leb_gt; lia).
      replace (i <=? i) with true by (symmetry; apply Nat.leb_le; lia).
      replace (i <? Datatypes.S i + length l) with true by (symmetry; apply Nat.ltb_lt; lia).
      cbn [andb nth]. ncr.
    + destruct (Nat.leb_spec (Datatypes.S k) i).
      * replace (k <=? i) with true by (symmetry; apply Nat.leb_le; lia).
        replace (i - k)%nat with (Datatypes.S (i - Datatypes.S k)) by lia.
        cbn [andb nth]. destruct (i <? Datatypes.S k + length l); ncr.
      * replace (k <=? i) with false by (symmetry; apply Nat.leb_gt; lia). cbn [andb]. ncr.
Qed.

Theorem nc_transpose_dense (A : crs) i j :
  j < ncols A ->
  mget (transpose A) j i = sadj (mget A i j).
Proof.
  intros Hj. unfold mget at 1, transpose. simpl rows.
  rewrite nth_map_seq by exact Hj. unfold indexed.
  rewrite nc_rget_tr_rows. cbn [Nat.leb andb].
  destruct (Nat.ltb_spec i (0 + length (rows A))%nat).
  - rewrite Nat.sub_0_r. reflexivity.
  - unfold mget. rewrite nth_overflow by lia. rewrite nc_rget_nil. symmetry; exact sadj_0.
Qed.

Lemma nc_sadj_sumn (f : nat -> S) n : sadj (sumn f n) = sumn (fun k => sadj (f k)) n.
Proof. induction n as [|n IH]; simpl; [apply sadj_0|]. rewrite sadj_add, IH. reflexivity. Qed.

(* anti-automorphism: the transpose of a product is the product of the transposes in REVERSE order *)
Hypothesis sadj_mul : forall a b : S, sadj (a * b) = sadj b * sadj a.

Theorem nc_transpose_product (A B : crs) (sort : bool) i j :
  wf A = true -> i < nrows A -> j < ncols B ->
  mget (transpose (spgemm_saad A B sort)) j i =
  sumn (fun k => mget (transpose B) j k * mget (transpose A) k i) (ncols A).
Proof.
  intros Hwf Hi Hj.
  rewrite nc_transpose_dense by (unfold spgemm_saad; simpl; exact Hj).
  rewrite nc_spgemm_saad_dense by assumption. rewrite nc_sadj_sumn.
  apply sumn_ext. intros k Hk. rewrite sadj_mul.
  rewrite (nc_transpose_dense B k j Hj), (nc_transpose_dense A i k Hk). reflexivity.
Qed.
End Transpose.

(* --- diagonal: link between the first stored diagonal entry and the dense entry --- *)
Lemma nc_first_col_none_dense (r : row) i : first_col r i = None -> rget r i = s0.
Proof.
  induction r as [|[c v] r IH]; simpl; intro H; [apply nc_rget_nil|].
  rewrite rget_cons. simpl. destruct (Nat.eqb c i); [discriminate|].
  rewrite IH by exact H. ncr.
Qed.

Lemma nc_rget_notin (r : row) i : ~ In i (map fst r) -> rget r i = s0.
Proof.
  induction r as [|[c v] r IH]; simpl; intro H; [apply nc_rget_nil|].
  rewrite rget_cons. simpl. destruct (Nat.eqb_spec c i) as [->|Hne].
  - exfalso; apply H; left; reflexivity.
  - rewrite IH by (intro; apply H; right; assumption). ncr.
Qed.

Lemma nc_first_col_some_dense (r : row) i d :
  NoDup (map fst r) -> first_col r i = Some d -> rget r i = d.
Proof.
  induction r as [|[c v] r IH]; simpl; intros Hnd H; [discriminate|].
  inversion Hnd as [|? ? Hnotin Hnd']; subst.
  rewrite rget_cons. simpl. destruct (Nat.eqb_spec c i) as [->|Hne].
  - injection H as ->. rewrite nc_rget_notin by exact Hnotin. ncr.
  - rewrite (IH Hnd' H). ncr.
Qed.

(* ---------- row-merge product ---------- *)
Lemma nc_rget_rscale (a : S) (r : row) j : rget (rscale a r) j = a * rget r j.
Proof.
  induction r as [|e r IH].
  - simpl. rewrite nc_rget_nil. ncr.
  - change (rscale a (e :: r)) with ((fst e, a * snd e) :: rscale a r).
    rewrite !rget_cons, IH. cbn [fst snd]. destruct (Nat.eqb (fst e) j); ncr.
Qed.

Theorem nc_rget_merge_rows (a1 : S) (r1 : row) (a2 : S) (r2 : row) j :
  rget (merge_rows a1 r1 a2 r2) j = a1 * rget r1 j + a2 * rget r2 j.
Proof.
  revert r2; induction r1 as [|[c1 v1] t1 IH1]; intro r2.
  - rewrite Rmerge.merge_rows_nil_l, nc_rget_rscale, nc_rget_nil. ncr.
  - induction r2 as [|[c2 v2] t2 IH2].
    + rewrite Rmerge.merge_rows_nil_r, nc_rget_rscale, nc_rget_nil. ncr.
    + rewrite Rmerge.merge_rows_cons_cons.
      destruct (Nat.ltb c1 c2).
      * rewrite rget_cons, IH1, (rget_cons (c1, v1)). cbn [fst snd].
        destruct (Nat.eqb c1 j); ncr.
      * destruct (Nat.eqb_spec c1 c2) as [Heq|Hne].
        -- subst c2. rewrite rget_cons, IH1, (rget_cons (c1, v1)), (rget_cons (c1, v2)).
           cbn [fst snd]. destruct (Nat.eqb c1 j); ncr.
        -- rewrite rget_cons, IH2, (rget_cons (c2, v2)). cbn [fst snd].
           destruct (Nat.eqb c2 j); ncr.
Qed.

Lemma nc_row_lin_cons c (v : S) (ra : row) (B : crs) j :
  row_lin ((c, v) :: ra) B j = v * rget (brow B c) j + row_lin ra B j.
Proof. reflexivity. Qed.

Lemma nc_rget_prod_pairs (B : crs) j n : forall (ra tm1 : row), length ra <= n ->
  rget (prod_pairs B tm1 ra) j = rget tm1 j + row_lin ra B j.
Proof.
  induction n as [|n IH]; intros ra tm1 Hn;
    destruct ra as [|[c1 v1] [|[c2 v2] tl]]; try (simpl in Hn; lia).
  - rewrite Rmerge.prod_pairs_nil. simpl. ncr.
  - rewrite Rmerge.prod_pairs_nil. simpl. ncr.
  - rewrite Rmerge.prod_pairs_one, nc_rget_merge_rows, nc_row_lin_cons. simpl row_lin. ncr.
  - rewrite Rmerge.prod_pairs_two, IH by (simpl in Hn; lia).
    rewrite !nc_rget_merge_rows, !nc_row_lin_cons. ncr.
Qed.

Theorem nc_rget_prod_row (ra : row) (B : crs) j : rget (prod_row ra B) j = row_lin ra B j.
Proof.
  destruct ra as [|[c1 v1] [|[c2 v2] tl]].
  - reflexivity.
  - change (prod_row [(c1, v1)] B) with (rscale v1 (brow B c1)).
    rewrite nc_rget_rscale, nc_row_lin_cons. simpl row_lin. ncr.
  - destruct tl as [|e tl].
    + change (prod_row [(c1, v1); (c2, v2)] B) with (merge_rows v1 (brow B c1) v2 (brow B c2)).
      rewrite nc_rget_merge_rows, !nc_row_lin_cons. simpl row_lin. ncr.
    + change (prod_row ((c1, v1) :: (c2, v2) :: e :: tl) B)
        with (prod_pairs B (merge_rows v1 (brow B c1) v2 (brow B c2)) (e :: tl)).
      rewrite (nc_rget_prod_pairs B j (length (e :: tl))) by lia.
      rewrite nc_rget_merge_rows, !nc_row_lin_cons. ncr.
Qed.

Lemma nc_mget_rmerge_row_lin (A B : crs) i j :
  mget (spgemm_rmerge A B) i j = row_lin (nth i (rows A) []) B j.
Proof.
  unfold mget. unfold spgemm_rmerge. cbn [rows].
  change (@nil (nat * S)) with (prod_row (@nil (nat * S)) B) at 1.
  rewrite (map_nth (fun ra => prod_row ra B)). apply nc_rget_prod_row.
Qed.

Theorem nc_spgemm_rmerge_dense (A B : crs) i j : wf A = true -> i < nrows A ->
  mget (spgemm_rmerge A B) i j = sumn (fun k => mget A i k * mget B k j) (ncols A).
Proof.
  intros Hwf Hi. rewrite nc_mget_rmerge_row_lin. unfold mget at 1.
  apply nc_row_lin_dense. apply forallb_nth; assumption.
Qed.

(* both algorithms give the same dense matrix, for every (i,j) and both values of [sort] *)
Theorem nc_rmerge_eq_saad_dense_all (A B : crs) sort i j :
  mget (spgemm_rmerge A B) i j = mget (spgemm_saad A B sort) i j.
Proof. rewrite nc_mget_rmerge_row_lin, nc_mget_saad_row_lin. reflexivity. Qed.

(* backend::product gives the dense product whatever the thread count *)
Corollary nc_product_dense (nt : nat) (A B : crs) sort i j : wf A = true -> i < nrows A ->
  mget (product nt A B sort) i j = sumn (fun k => mget A i k * mget B k j) (ncols A).
Proof.
  intros Hwf Hi. unfold product. destruct (Nat.ltb 16 nt).
  - apply nc_spgemm_rmerge_dense; assumption.
  - apply nc_spgemm_saad_dense; assumption.
Qed.

End NcMatOps.

(* ------------------------------------------------------------------ *)
(* static_matrix<T,b,b> with math::adjoint (conjugate transpose of the block) *)
Section BlockAdjoint.
Variable S0 : Scalar.
Variable b : nat.
Hypothesis Srt : Sring S0.
Hypothesis sadj_add0 : forall x y : S0, sadj (x + y) = sadj x + sadj y.
Hypothesis sadj_mul0 : forall x y : S0, sadj (x * y) = sadj x * sadj y.
Hypothesis sadj_invol0 : forall x : S0, sadj (sadj x) = x.
Local Notation B := (BlockS S0 b).

Theorem BlockS_adj_add (x y : B) : sadj (x + y) = sadj x + sadj y.
Proof.
  apply (blk_ext S0 b). cbn [sadj sadd BlockS blk_list proj1_sig blk_adj blk_add mk_blk].
  apply (sm_adjoint_add sadj_add0 b b); apply blk_len.
Qed.

Theorem BlockS_adj_mul (x y : B) : sadj (x * y) = sadj y * sadj x.
Proof.
  apply (blk_ext S0 b). cbn [sadj smul BlockS blk_list proj1_sig blk_adj blk_mul mk_blk].
  apply (sm_adjoint_mul Srt sadj_add0 sadj_mul0 b b b).
Qed.

Theorem BlockS_adj_invol (x : B) : sadj (sadj x) = x.
Proof.
  apply (blk_ext S0 b). cbn [sadj BlockS blk_list proj1_sig blk_adj mk_blk].
  apply (sm_adjoint_invol sadj_invol0 b b). apply blk_len.
Qed.

Theorem BlockS_adj_0 : sadj (@s0 B) = s0.
Proof.
  apply (blk_ext_get S0 b). intros i j Hi Hj.
  unfold blk_get. cbn [sadj s0 BlockS blk_list proj1_sig blk_adj blk_zero mk_blk].
  rewrite (sm_adjoint_get b b) by assumption. rewrite !sm_zero_get by assumption.
  exact (sadj_0 Srt sadj_add0).
Qed.

(* cells: adjoint(x)(i,j) = adj(x(j,i)) *)
Theorem BlockS_adj_get (x : B) i j : i < b -> j < b -> blk_get (sadj x : B) i j = sadj (blk_get x j i).
Proof.
  intros Hi Hj. unfold blk_get. cbn [sadj BlockS blk_list proj1_sig blk_adj mk_blk].
  apply (sm_adjoint_get b b); assumption.
Qed.

End BlockAdjoint.
