(* Extract_dist.v -- extraction of the distributed-layer models (C11) to OCaml.
   Directives: ExtractCommon.v (trusted base, DESIGN.md section 6).
   BlockInst / BlockKernels: the static_matrix<T,b,b> Scalar instance and the rhs-block inner product; the Dist.v model
   functions are run at BlockInst.BlockS QcS b by ocaml/dist/ops_dist_block.ml (C11 at block value types). *)
From Amgcl Require Import ExtractCommon.
From Coq Require Import QArith Qcanon.
From Amgcl Require Import Scalar QcInst Vec Crs Kernels MatOps Cheby Dist DistMsg DistMove DirectUtil Inverse StaticMat BlockInst BlockKernels.
Separate Extraction
  QcInst.QcS Scalar.is_zero Scalar.smax Scalar.smin
  Vec Crs Kernels MatOps Cheby Dist DistMsg DistMove StaticMat BlockInst BlockKernels.
