(* Extract_dist.v -- extraction of the distributed-layer models (C11) to OCaml.
   Directives: ExtractCommon.v (trusted base, DESIGN.md section 6). *)
From Amgcl Require Import ExtractCommon.
From Coq Require Import QArith Qcanon.
From Amgcl Require Import Scalar QcInst Vec Crs Kernels MatOps Cheby Dist DistMsg DistMove.
Separate Extraction
  QcInst.QcS Scalar.is_zero Scalar.smax Scalar.smin
  Vec Crs Kernels MatOps Cheby Dist DistMsg DistMove.
