(* BlockKernels.v -- the pieces of the builtin backend primitives (C07) that are NOT an instance of Kernels.v
   at a block Scalar, definitions only (proofs: NcKernelsProofs.v).

   1. backend::inner_product (amgcl/backend/builtin.hpp:1112-1182) for vectors whose entries are not scalars.
      The C++ is generic in math::inner_product(x[i], y[i]) : return_type; Kernels.kahan_step hard-wires the
      scalar case x * adjoint(y).  [kahan_step_g ip] is the same Kahan loop over an arbitrary entry product
      [ip : X -> X -> R] into a result Scalar R:
        entries static_matrix<T,b,1> (rhs_type):  ip = sum_i x(i) * adjoint(y(i))                 : T
                                                  (static_matrix.hpp inner_product_impl<static_matrix<T,N,1>>)
        entries static_matrix<T,b,b>           :  ip(i,j) = sum_k x(k,i) * adjoint(y(k,j))          : b x b block
                                                  (inner_product_impl<static_matrix<T,N,M>>)
      Vector entries of type static_matrix<T,b,1> are carried as column-0 blocks (BlockInst.blk_col), as in the
      relaxation models.
   2. backend::reinterpret_as_rhs (builtin.hpp:1323-1342): a scalar vector of length n*b read as n entries of
      type static_matrix<T,b,1> ("scalar vectors may be passed where block vectors are expected"):
      [bvec_of_flat] / [flat_of_bvec]. *)
From Amgcl Require Import Scalar Vec Crs Kernels DirectUtil Inverse StaticMat BlockInst.
Local Open Scope S_scope.

Section GenInner.
Context {R : Scalar} {X : Type}.
Variable ip : X -> X -> R.

(* d = inner_product(x[i], y[i]) - c;  t = s + d;  c = (t - s) - d;  s = t *)
Definition kahan_step_g (sc : R * R) (xy : X * X) : R * R :=
  let '(s, c) := sc in
  let d := ip (fst xy) (snd xy) - c in
  let t := s + d in
  (t, (t - s) - d).
Definition inner_product_serial_g (x y : list X) : R :=
  fst (fold_left kahan_step_g (combine x y) (s0, s0)).
(* one Kahan sum per thread over contiguous chunks, then std::accumulate in thread order *)
Definition inner_product_parallel_g (lens : list nat) (x y : list X) : R :=
  vsum (map (fun xy => fst (fold_left kahan_step_g xy (s0, s0))) (chunks lens (combine x y))).
(* the mathematical value *)
Fixpoint dot_g (x y : list X) : R :=
  match x, y with a :: x', c :: y' => ip a c + dot_g x' y' | _, _ => s0 end.
End GenInner.

Section BlockInner.
Variable S0 : Scalar.
Variable b : nat.
Local Notation blk := (blk S0 b).

(* math::inner_product(static_matrix<T,b,1>, static_matrix<T,b,1>) on column-0 blocks: a base scalar *)
Definition bvec_ip (x y : blk) : S0 := sm_inner_vec (blk_col0 x) (blk_col0 y).
(* math::inner_product(static_matrix<T,b,b>, static_matrix<T,b,b>): p(i,j) = sum_k x(k,i) * adjoint(y(k,j)) *)
Definition bmat_ip (x y : blk) : blk :=
  mk_blk S0 b (sm_inner b b (blk_list x) (blk_list y)) (sm_of_fun_len S0 b _).

(* backend::inner_product on std::vector<static_matrix<T,b,1>> / std::vector<static_matrix<T,b,b>> *)
Definition bvec_inner_serial (x y : list blk) : S0 := inner_product_serial_g bvec_ip x y.
Definition bvec_inner_parallel (lens : list nat) (x y : list blk) : S0 := inner_product_parallel_g bvec_ip lens x y.
Definition bmat_inner_serial (x y : list blk) : BlockS S0 b := inner_product_serial_g (R := BlockS S0 b) bmat_ip x y.
Definition bmat_inner_parallel (lens : list nat) (x y : list blk) : BlockS S0 b :=
  inner_product_parallel_g (R := BlockS S0 b) bmat_ip lens x y.

(* reinterpret_as_rhs: entry I of the block view holds x[I*b .. I*b+b-1]; n = x.size() * sizeof(T) / sizeof(rhs) *)
Definition bvec_of_flat (x : vec S0) : list blk :=
  map (fun I => blk_col S0 b (firstn b (skipn (I * b) x))) (seq 0 (length x / b)).
Definition flat_of_bvec (x : list blk) : vec S0 := flat_map (fun a => blk_col0 a) x.

End BlockInner.

Arguments bvec_ip {S0 b}. Arguments bmat_ip {S0 b}.
