(* Spai1Proofs.v -- proofs about the SPAI-1 smoother model (Spai1.v;
   amgcl/relaxation/spai1.hpp:62-130), relative to an exact linear solver given as a
   Section variable [solve] with the hypothesis [solve_ok] (G y = f whenever it answers).
   The instance used for execution is DenseSolve.dense_solve (correctness theorem in another
   file); this file stays parametric in the solver.

   Content
     rowdot_spec                      <r1, r2> = sum_j r1_j r2_j                       (T1)
     spai1_row_normal_equations       (A_I A_I^T) m = A_I e_i, pattern(M_i) = pattern(A_i) (T2)
     spai1_row_residual_orthogonal    (e_i - m^T A_I) _|_ every row of A_I             (T3)
     spai1_sweep_spec                 x' = x + M (rhs - A x)                           (T4)
     spai1_sweep_fixed_point          A x = rhs -> x' = x   (any M)                    (T5)
     spai1_row_pythagoras             |e - m'^T A_I|^2 = |e - m^T A_I|^2 + |(m'-m)^T A_I|^2  (T6, ring form)
     spai1_setup_rows                 link of spai1_setup to spai1_row, row by row
     spai1_setup_pattern / _wf / _normal_equations   T2 for the whole M; M is well formed
     spai1_row_minimal                minimality of the residual norm; order laws are premises
     spai1_setup_sweep_spec           T4 for the M returned by the setup (square A)
     spai1_apply_spec                 apply: x = M rhs
   [solve_ok] for DenseSolve.dense_solve is
     fun G f y sq lf e => conj (AmgProofs3.dense_solve_length G f y e)
                               (AmgProofs9.dense_solve_correct G f y sq lf e)
   (not imported here to keep the dependency closure small).
   All helper lemmas are prefixed [s1_]. *)
From Amgcl Require Import Scalar Vec Crs Kernels KernelsProofs MatOps Spai1.
Require Import ZifyBool.
Local Open Scope S_scope.

Section Spai1Proofs.
Context {S : Scalar}.
Hypothesis Srt : Sring S.
Hypothesis Seqb : seqb_spec S.
Add Ring SRing : Srt.
Local Notation vec := (vec S).
Local Notation row := (row S).
Local Notation crs := (crs S).

Variable solve : crs -> vec -> option vec.
Hypothesis solve_ok : forall (G : crs) (f y : vec),
  ncols G = nrows G -> length f = nrows G -> solve G f = Some y ->
  length y = nrows G /\ forall k, k < nrows G -> Ax G y k = vget f k.

(* ------------------------------------------------------------------ *)
(* finite sums *)

Lemma s1_sumn_exchange (F : nat -> nat -> S) n p :
  sumn (fun j => sumn (fun l => F j l) p) n = sumn (fun l => sumn (fun j => F j l) n) p.
Proof.
  induction n as [|n IH]; simpl.
  - symmetry. apply (sumn_zero Srt).
  - rewrite IH. symmetry. apply (sumn_add Srt (fun l => sumn (fun j => F j l) n) (fun l => F n l)).
Qed.

Lemma s1_sumn_scal_r (a : S) (f : nat -> S) n : sumn (fun i => f i * a) n = sumn f n * a.
Proof. induction n as [|n IH]; simpl; [ring|rewrite IH; ring]. Qed.

Lemma s1_sumn_sub (f g : nat -> S) n : sumn (fun i => f i - g i) n = sumn f n - sumn g n.
Proof. induction n as [|n IH]; simpl; [ring|rewrite IH; ring]. Qed.

Lemma s1_sumn_zero_ext (f : nat -> S) n : (forall i, i < n -> f i = s0) -> sumn f n = s0.
Proof.
  intro H. rewrite (sumn_ext f (fun _ => s0)) by exact H. apply (sumn_zero Srt).
Qed.

(* sum against a Kronecker delta *)
Lemma s1_sumn_pick (f : nat -> S) (i n : nat) :
  sumn (fun j => f j * (if Nat.eqb j i then s1 else s0)) n = if Nat.ltb i n then f i else s0.
Proof.
  rewrite (sumn_ext _ (fun j => if Nat.eqb i j then f i else s0)).
  - apply (sumn_delta Srt).
  - intros j _. rewrite (Nat.eqb_sym j i).
    destruct (Nat.eqb_spec i j) as [->|]; ring.
Qed.

(* ------------------------------------------------------------------ *)
(* rows *)

Lemma s1_rget_out (n : nat) (r : row) (j : nat) :
  row_wf n r = true -> n <= j -> rget r j = s0.
Proof.
  induction r as [|e r IH]; intros Hwf Hj; [reflexivity|].
  simpl in Hwf. apply andb_prop in Hwf as [He Hr].
  rewrite (rget_cons Srt), IH by assumption.
  apply Nat.ltb_lt in He.
  destruct (Nat.eqb_spec (fst e) j); [lia|ring].
Qed.

Lemma s1_arow_wf (A : crs) (c : nat) : wf A = true -> row_wf (ncols A) (arow A c) = true.
Proof.
  intro Hwf. unfold arow. destruct (Nat.lt_ge_cases c (length (rows A))) as [Hc|Hc].
  - apply forallb_nth; assumption.
  - rewrite nth_overflow by exact Hc. reflexivity.
Qed.

Lemma s1_rowdot_acc (r1 r2 : row) (a : S) :
  fold_left (fun acc e => acc + snd e * rget r2 (fst e)) r1 a = a + rowdot r1 r2.
Proof.
  unfold rowdot. revert a; induction r1 as [|e r IH]; intro a; simpl; [ring|].
  rewrite IH. rewrite (IH (s0 + _)). ring.
Qed.

Lemma s1_rowdot_cons (e : nat * S) (r1 r2 : row) :
  rowdot (e :: r1) r2 = snd e * rget r2 (fst e) + rowdot r1 r2.
Proof. unfold rowdot at 1; simpl. rewrite s1_rowdot_acc. ring. Qed.

(* T1 *)
Theorem rowdot_spec (n : nat) (r1 r2 : row) : row_wf n r1 = true ->
  rowdot r1 r2 = sumn (fun j => rget r1 j * rget r2 j) n.
Proof.
  induction r1 as [|e r IH]; intro Hwf.
  - unfold rowdot; simpl. symmetry. apply s1_sumn_zero_ext.
    intros; rewrite rget_nil; ring.
  - simpl in Hwf. apply andb_prop in Hwf as [He Hr].
    rewrite s1_rowdot_cons, IH by exact Hr.
    rewrite (sumn_ext (fun j => rget (e :: r) j * rget r2 j)
               (fun j => (if Nat.eqb (fst e) j then snd e * rget r2 (fst e) else s0)
                         + rget r j * rget r2 j)).
    + rewrite (sumn_add Srt), (sumn_delta Srt). rewrite He. reflexivity.
    + intros j _. rewrite (rget_cons Srt). destruct (Nat.eqb_spec (fst e) j) as [->|]; ring.
Qed.

(* dense entry of a row built over [indexed I]: columns 0..|I|-1 are pairwise distinct,
   the entry at column l is the l-th one *)
Lemma s1_rget_indexed_gen {X} (g : nat * X -> S) (d : X) (I : list X) : forall (s j : nat),
  rget (map (fun kl => (fst kl, g kl)) (combine (seq s (length I)) I)) j
  = if Nat.leb s j && Nat.ltb j (s + length I) then g (j, nth (j - s) I d) else s0.
Proof.
  induction I as [|a I IH]; intros s j.
  - simpl. rewrite rget_nil. rewrite andb_comm.
    destruct (Nat.ltb_spec j (s + 0)); simpl; [|reflexivity].
    destruct (Nat.leb_spec s j); [lia|reflexivity].
  - cbn [length seq combine map]. rewrite (rget_cons Srt). cbn [fst snd].
    rewrite IH.
    destruct (Nat.eqb_spec s j) as [->|Hne].
    + rewrite Nat.sub_diag. cbn [nth].
      replace (Nat.leb (Datatypes.S j) j) with false by (symmetry; apply Nat.leb_gt; lia).
      replace (Nat.leb j j) with true by (symmetry; apply Nat.leb_le; lia).
      replace (Nat.ltb j (j + Datatypes.S (length I))) with true
        by (symmetry; apply Nat.ltb_lt; lia).
      simpl. ring.
    + destruct (Nat.leb_spec s j) as [Hs|Hs].
      * replace (Nat.leb (Datatypes.S s) j) with true by (symmetry; apply Nat.leb_le; lia).
        replace (Datatypes.S s + length I)%nat with (s + Datatypes.S (length I))%nat by lia.
        replace (j - s)%nat with (Datatypes.S (j - Datatypes.S s)) by lia. cbn [nth andb].
        destruct (Nat.ltb j (s + Datatypes.S (length I))); ring.
      * replace (Nat.leb (Datatypes.S s) j) with false by (symmetry; apply Nat.leb_gt; lia).
        simpl. ring.
Qed.

Lemma s1_rget_indexed {X} (g : nat * X -> S) (d : X) (I : list X) (l : nat) :
  l < length I ->
  rget (map (fun kl => (fst kl, g kl)) (indexed I)) l = g (l, nth l I d).
Proof.
  intro Hl. unfold indexed. rewrite (s1_rget_indexed_gen g d I 0 l).
  rewrite Nat.sub_0_r. simpl.
  replace (Nat.ltb l (length I)) with true by (symmetry; apply Nat.ltb_lt; exact Hl).
  reflexivity.
Qed.

Lemma s1_map_fst_combine {X Y} (l : list X) (m : list Y) :
  length l = length m -> map fst (combine l m) = l.
Proof.
  revert m; induction l as [|a l IH]; intros [|b m] H; simpl in *; try congruence.
  f_equal. apply IH. congruence.
Qed.

(* ------------------------------------------------------------------ *)
(* the Gram system *)

Lemma s1_gram_ncols (A : crs) (I : list nat) : ncols (spai1_gram A I) = length I.
Proof. reflexivity. Qed.
Lemma s1_gram_nrows (A : crs) (I : list nat) : nrows (spai1_gram A I) = length I.
Proof. unfold nrows, spai1_gram. simpl. apply map_length. Qed.
Lemma s1_rhs_length (A : crs) (I : list nat) i : length (spai1_rhs A I i) = length I.
Proof. unfold spai1_rhs. apply map_length. Qed.

Lemma s1_rhs_get (A : crs) (I : list nat) i k : k < length I ->
  vget (spai1_rhs A I i) k = mget A (nth k I 0%nat) i.
Proof.
  intro Hk. unfold vget, spai1_rhs, mget, arow.
  rewrite (nth_indep _ s0 (rget (nth 0%nat (rows A) []) i)) by (rewrite map_length; exact Hk).
  rewrite (map_nth (fun ck => rget (nth ck (rows A) []) i)). reflexivity.
Qed.

Lemma s1_gram_get (A : crs) (I : list nat) k l : wf A = true ->
  k < length I -> l < length I ->
  mget (spai1_gram A I) k l
  = sumn (fun j => mget A (nth k I 0%nat) j * mget A (nth l I 0%nat) j) (ncols A).
Proof.
  intros Hwf Hk Hl. unfold mget at 1. unfold spai1_gram. cbn [rows].
  set (F := fun ck : nat =>
              map (fun kl : nat * nat => (fst kl, rowdot (arow A ck) (arow A (snd kl)))) (indexed I)).
  rewrite (nth_indep _ [] (F 0%nat)) by (rewrite map_length; exact Hk).
  rewrite (map_nth F). unfold F.
  rewrite (s1_rget_indexed (fun kl => rowdot (arow A (nth k I 0%nat)) (arow A (snd kl))) 0%nat I l Hl).
  cbn [snd].
  rewrite (rowdot_spec (ncols A)) by (apply s1_arow_wf; exact Hwf).
  reflexivity.
Qed.

(* T2: the computed row has the pattern of the given row, in the same order, and its values
   solve the normal equations (A_I A_I^T) m = A_I e_i of  min_m || e_i^T - m^T A_I ||_2.
   Holds for every row r and every i (the setup calls it with r = row i of A). *)
Theorem spai1_row_normal_equations (A : crs) (i : nat) (r mr : row) :
  wf A = true ->
  spai1_row solve A i r = Some mr ->
  let I := map fst r in
  let p := length I in
  map fst mr = I /\
  forall k, k < p ->
    sumn (fun l => sumn (fun j => mget A (nth k I 0%nat) j * mget A (nth l I 0%nat) j) (ncols A)
                   * snd (nth l mr (0%nat, s0))) p
    = mget A (nth k I 0%nat) i.
Proof.
  intros Hwf Hrow I p. unfold spai1_row in Hrow. fold I in Hrow.
  destruct (solve (spai1_gram A I) (spai1_rhs A I i)) as [m|] eqn:Hs; [|discriminate].
  injection Hrow as <-.
  destruct (solve_ok _ _ _ (eq_trans (s1_gram_ncols A I) (eq_sym (s1_gram_nrows A I)))
              (eq_trans (s1_rhs_length A I i) (eq_sym (s1_gram_nrows A I))) Hs) as [Hlen Hax].
  rewrite s1_gram_nrows in Hlen, Hax. fold p in Hlen, Hax.
  split.
  - apply s1_map_fst_combine. symmetry; exact Hlen.
  - intros k Hk. specialize (Hax k Hk).
    rewrite s1_rhs_get in Hax by exact Hk. rewrite <- Hax.
    unfold Ax. rewrite s1_gram_ncols. fold p.
    apply sumn_ext. intros l Hl.
    rewrite s1_gram_get by assumption.
    rewrite combine_nth by (symmetry; exact Hlen). reflexivity.
Qed.

(* row i of (M A) restricted to the coefficients m of one row: q_j = sum_l m_l a_{c_l, j} *)
Definition s1_q (A : crs) (I : list nat) (m : nat -> S) (j : nat) : S :=
  sumn (fun l => m l * mget A (nth l I 0%nat) j) (length I).
Definition s1_e (i j : nat) : S := if Nat.eqb j i then s1 else s0.
Definition s1_sq (v : nat -> S) (n : nat) : S := sumn (fun j => v j * v j) n.

Lemma s1_mget_out (A : crs) (c j : nat) : wf A = true -> ncols A <= j -> mget A c j = s0.
Proof. intros Hwf Hj. unfold mget. apply (s1_rget_out (ncols A)); [apply s1_arow_wf; exact Hwf|exact Hj]. Qed.

Lemma s1_pick_col (A : crs) (c i : nat) : wf A = true ->
  sumn (fun j => mget A c j * s1_e i j) (ncols A) = mget A c i.
Proof.
  intro Hwf. unfold s1_e. rewrite (s1_sumn_pick (fun j => mget A c j) i (ncols A)).
  destruct (Nat.ltb_spec i (ncols A)); [reflexivity|].
  symmetry. apply s1_mget_out; assumption.
Qed.

(* < row c_k of A , q > = sum_l Gram_kl m_l *)
Lemma s1_row_q (A : crs) (I : list nat) (m : nat -> S) (k : nat) :
  sumn (fun j => mget A (nth k I 0%nat) j * s1_q A I m j) (ncols A)
  = sumn (fun l => sumn (fun j => mget A (nth k I 0%nat) j * mget A (nth l I 0%nat) j) (ncols A) * m l)
         (length I).
Proof.
  unfold s1_q.
  rewrite (sumn_ext _ (fun j => sumn (fun l => mget A (nth k I 0%nat) j * mget A (nth l I 0%nat) j * m l) (length I))).
  - rewrite s1_sumn_exchange. apply sumn_ext. intros l _. apply s1_sumn_scal_r.
  - intros j _. rewrite <- (sumn_scal Srt). apply sumn_ext. intros l _. ring.
Qed.

(* T3: residual orthogonality: e_i - m^T A_I is orthogonal to every row of A_I *)
Theorem spai1_row_residual_orthogonal (A : crs) (i : nat) (r mr : row) :
  wf A = true ->
  spai1_row solve A i r = Some mr ->
  let I := map fst r in
  let p := length I in
  let m := fun l => snd (nth l mr (0%nat, s0)) in
  let q := fun j => sumn (fun l => m l * mget A (nth l I 0%nat) j) p in
  forall k, k < p ->
    sumn (fun j => mget A (nth k I 0%nat) j * (q j - (if Nat.eqb j i then s1 else s0))) (ncols A) = s0.
Proof.
  intros Hwf Hrow I p m q k Hk.
  destruct (spai1_row_normal_equations A i r mr Hwf Hrow) as [_ Hne].
  specialize (Hne k Hk). fold I p in Hne.
  rewrite (sumn_ext _ (fun j => mget A (nth k I 0%nat) j * s1_q A I m j
                                - mget A (nth k I 0%nat) j * s1_e i j))
    by (intros j _; unfold q, s1_q, s1_e; fold p; ring).
  rewrite s1_sumn_sub, s1_row_q, s1_pick_col by exact Hwf.
  fold p. unfold m. rewrite Hne. ring.
Qed.

(* T6 (ring form): for every other coefficient vector m' the squared residual splits as
     || m'^T A_I - e_i ||^2 = || m^T A_I - e_i ||^2 + || (m' - m)^T A_I ||^2
   (the cross term vanishes by residual orthogonality).

   FULL STATEMENT (unproved; needs an ordered field, which the Scalar interface does not
   axiomatise): for every other coefficient vector m',
       || e_i - m'^T A_I ||_2^2  >=  || e_i - m^T A_I ||_2^2,
   i.e.  sleb (s1_sq (fun j => q j - e j) (ncols A)) (s1_sq (fun j => q' j - e j) (ncols A)) = true.
   It follows from the identity below as soon as sums of squares are non-negative and
   [sleb] is compatible with addition. *)
Theorem spai1_row_pythagoras (A : crs) (i : nat) (r mr : row) (m' : nat -> S) :
  wf A = true ->
  spai1_row solve A i r = Some mr ->
  let I := map fst r in
  let p := length I in
  let m := fun l => snd (nth l mr (0%nat, s0)) in
  let e := fun j => if Nat.eqb j i then s1 else s0 in
  let q := fun j => sumn (fun l => m l * mget A (nth l I 0%nat) j) p in
  let q' := fun j => sumn (fun l => m' l * mget A (nth l I 0%nat) j) p in
  let dA := fun j => sumn (fun l => (m' l - m l) * mget A (nth l I 0%nat) j) p in
  sumn (fun j => (q' j - e j) * (q' j - e j)) (ncols A)
  = sumn (fun j => (q j - e j) * (q j - e j)) (ncols A) + sumn (fun j => dA j * dA j) (ncols A).
Proof.
  intros Hwf Hrow I p m e q q' dA.
  pose proof (spai1_row_residual_orthogonal A i r mr Hwf Hrow) as Hort.
  cbv zeta in Hort. fold I p m in Hort.
  assert (Hq' : forall j, q' j = q j + dA j).
  { intro j. unfold q', q, dA. rewrite <- (sumn_add Srt). apply sumn_ext. intros l _. ring. }
  assert (Hcross : sumn (fun j => (q j - e j) * dA j) (ncols A) = s0).
  { unfold dA.
    rewrite (sumn_ext _ (fun j => sumn (fun l => (m' l - m l) * (mget A (nth l I 0%nat) j * (q j - e j))) p)).
    - rewrite s1_sumn_exchange. apply s1_sumn_zero_ext. intros l Hl.
      rewrite (sumn_scal Srt). unfold q, e. rewrite (Hort l Hl). ring.
    - intros j _. rewrite <- (sumn_scal Srt). apply sumn_ext. intros l _. ring. }
  rewrite (sumn_ext _ (fun j => ((q j - e j) * (q j - e j) + dA j * dA j)
                               + ((q j - e j) * dA j + (q j - e j) * dA j)))
    by (intros j _; rewrite Hq'; ring).
  rewrite (sumn_add Srt), (sumn_add Srt), (sumn_add Srt), Hcross. ring.
Qed.

(* ------------------------------------------------------------------ *)
(* setup: row by row *)

Lemma s1_all_some_spec {X} (l : list (option X)) (rs : list X) :
  all_some l = Some rs -> l = map Some rs.
Proof.
  revert rs; induction l as [|[x|] l IH]; intros rs H; simpl in H.
  - injection H as <-. reflexivity.
  - destruct (all_some l) as [r'|]; [|discriminate]. injection H as <-.
    simpl. f_equal. apply IH. reflexivity.
  - discriminate.
Qed.

Lemma s1_indexed_nth {X} (l : list X) (d : X) i : i < length l ->
  nth i (indexed l) (0%nat, d) = (i, nth i l d).
Proof.
  intro Hi. unfold indexed. rewrite combine_nth by apply seq_length.
  rewrite seq_nth by exact Hi. reflexivity.
Qed.

Theorem spai1_setup_rows (A M : crs) :
  spai1_setup solve A = Some M ->
  ncols M = ncols A /\ nrows M = nrows A /\
  forall i, i < nrows A ->
    spai1_row solve A i (nth i (rows A) []) = Some (nth i (rows M) []).
Proof.
  unfold spai1_setup. intro H.
  destruct (all_some _) as [rs|] eqn:Hall; [|discriminate]. injection H as <-.
  apply s1_all_some_spec in Hall.
  assert (Hlen : length rs = nrows A).
  { apply (f_equal (@length _)) in Hall. rewrite !map_length in Hall.
    unfold indexed in Hall. rewrite combine_length, seq_length, Nat.min_id in Hall.
    unfold nrows. congruence. }
  cbn [ncols rows]. unfold nrows at 1. cbn [rows].
  split; [reflexivity|split; [exact Hlen|]].
  intros i Hi.
  apply (f_equal (fun l => nth i l None)) in Hall.
  set (F := fun ir : nat * row => spai1_row solve A (fst ir) (snd ir)) in Hall.
  assert (Hil : i < length (indexed (rows A))).
  { unfold indexed. rewrite combine_length, seq_length, Nat.min_id. exact Hi. }
  rewrite (nth_indep _ None (F (@pair nat row 0%nat (@nil _)))) in Hall by (rewrite map_length; exact Hil).
  rewrite (map_nth F) in Hall.
  rewrite (s1_indexed_nth (rows A) [] i Hi) in Hall. unfold F in Hall. cbn [fst snd] in Hall.
  rewrite Hall.
  rewrite (@nth_indep (option row) (map Some rs) i None (Some [])) by (rewrite map_length; lia).
  apply (map_nth (@Some row)).
Qed.

Lemma s1_row_wf_fst (n : nat) (r : row) :
  row_wf n r = forallb (fun c => Nat.ltb c n) (map fst r).
Proof. unfold row_wf. induction r as [|e r IH]; simpl; [reflexivity|rewrite IH; reflexivity]. Qed.

(* M has the sparsity pattern of A (same order), hence is well formed *)
Theorem spai1_setup_pattern (A M : crs) (i : nat) :
  wf A = true -> spai1_setup solve A = Some M -> i < nrows A ->
  map fst (nth i (rows M) []) = map fst (nth i (rows A) []).
Proof.
  intros Hwf HM Hi. destruct (spai1_setup_rows A M HM) as (_ & _ & Hrows).
  exact (proj1 (spai1_row_normal_equations A i _ _ Hwf (Hrows i Hi))).
Qed.

Theorem spai1_setup_wf (A M : crs) :
  wf A = true -> spai1_setup solve A = Some M -> wf M = true.
Proof.
  intros Hwf HM. destruct (spai1_setup_rows A M HM) as (Hc & Hr & _).
  unfold wf. apply forallb_forall. intros r Hin.
  destruct (@In_nth row (rows M) r (@nil (nat * S)) Hin) as (i & Hi & <-).
  assert (Hi' : i < nrows A) by (rewrite <- Hr; exact Hi). clear Hi; rename Hi' into Hi.
  rewrite s1_row_wf_fst, (spai1_setup_pattern A M i Hwf HM Hi), <- s1_row_wf_fst, Hc.
  apply forallb_nth; assumption.
Qed.

(* T2 at the level of the whole setup: every row of M solves its normal equations *)
Theorem spai1_setup_normal_equations (A M : crs) (i : nat) :
  wf A = true -> spai1_setup solve A = Some M -> i < nrows A ->
  let I := map fst (nth i (rows A) []) in
  let p := length I in
  forall k, k < p ->
    sumn (fun l => sumn (fun j => mget A (nth k I 0%nat) j * mget A (nth l I 0%nat) j) (ncols A)
                   * snd (nth l (nth i (rows M) []) (0%nat, s0))) p
    = mget A (nth k I 0%nat) i.
Proof.
  intros Hwf HM Hi. destruct (spai1_setup_rows A M HM) as (_ & _ & Hrows).
  exact (proj2 (spai1_row_normal_equations A i _ _ Hwf (Hrows i Hi))).
Qed.

(* minimality over an ordered ring: the order laws are premises of this theorem only (the
   Scalar interface does not axiomatise [sltb]); they hold in every ordered field, e.g. Qc. *)
Lemma s1_sq_nonneg (v : nat -> S) n :
  (forall x : S, sleb s0 (x * x) = true) ->
  (forall x y : S, sleb s0 x = true -> sleb s0 y = true -> sleb s0 (x + y) = true) ->
  sleb s0 (sumn (fun j => v j * v j) n) = true.
Proof.
  intros Hsq Hadd. induction n as [|n IH]; simpl.
  - replace (@s0 S) with (@s0 S * s0) at 2 by ring. apply Hsq.
  - apply Hadd; [exact IH|apply Hsq].
Qed.

Theorem spai1_row_minimal (A : crs) (i : nat) (r mr : row) (m' : nat -> S) :
  (forall x : S, sleb s0 (x * x) = true) ->
  (forall x y : S, sleb s0 x = true -> sleb s0 y = true -> sleb s0 (x + y) = true) ->
  (forall a b : S, sleb s0 b = true -> sleb a (a + b) = true) ->
  wf A = true ->
  spai1_row solve A i r = Some mr ->
  let I := map fst r in
  let p := length I in
  let m := fun l => snd (nth l mr (0%nat, s0)) in
  let e := fun j => if Nat.eqb j i then s1 else s0 in
  let q := fun j => sumn (fun l => m l * mget A (nth l I 0%nat) j) p in
  let q' := fun j => sumn (fun l => m' l * mget A (nth l I 0%nat) j) p in
  sleb (sumn (fun j => (q j - e j) * (q j - e j)) (ncols A))
       (sumn (fun j => (q' j - e j) * (q' j - e j)) (ncols A)) = true.
Proof.
  intros Hsq Hadd Hmono Hwf Hrow I p m e q q'.
  pose proof (spai1_row_pythagoras A i r mr m' Hwf Hrow) as P.
  cbv beta zeta in P. unfold q', q, e, m, p, I. cbv beta.
  rewrite P. apply Hmono.
  apply (s1_sq_nonneg (fun j => sumn (fun l => (m' l - snd (nth l mr (0%nat, s0)))
                                      * mget A (nth l (map fst r) 0%nat) j) (length (map fst r)))).
  - exact Hsq.
  - exact Hadd.
Qed.

(* ------------------------------------------------------------------ *)
(* the sweep *)

(* T4: x' = x + M (rhs - A x) *)
Theorem spai1_sweep_spec (M A : crs) (rhs x tmp : vec) (i : nat) :
  wf A = true -> wf M = true ->
  ncols M = nrows A -> nrows M = nrows A ->
  length rhs = nrows A -> length x = nrows A -> length tmp = nrows A ->
  i < nrows A ->
  vget (fst (spai1_sweep M A rhs x tmp)) i
  = vget x i + sumn (fun j => mget M i j * (vget rhs j - Ax A x j)) (nrows A).
Proof.
  intros HwA HwM Hc Hr Hrhs Hx Htmp Hi. unfold spai1_sweep. cbn [fst].
  rewrite (spmv_spec Srt Seqb) by (try assumption; congruence).
  unfold Ax at 1. rewrite Hc.
  rewrite (sumn_ext (fun j => mget M i j * vget (residual rhs A x tmp) j)
                    (fun j => mget M i j * (vget rhs j - Ax A x j))).
  - ring.
  - intros j Hj. rewrite (residual_spec Srt) by assumption. reflexivity.
Qed.

Lemma s1_sweep_tmp (M A : crs) (rhs x tmp : vec) (j : nat) :
  wf A = true -> length rhs = nrows A -> length tmp = nrows A -> j < nrows A ->
  vget (snd (spai1_sweep M A rhs x tmp)) j = vget rhs j - Ax A x j.
Proof. intros. unfold spai1_sweep. cbn [snd]. apply (residual_spec Srt); assumption. Qed.

Lemma s1_sweep_length (M A : crs) (rhs x tmp : vec) :
  nrows M = nrows A -> length rhs = nrows A -> length x = nrows A -> length tmp = nrows A ->
  length (fst (spai1_sweep M A rhs x tmp)) = nrows A /\
  length (snd (spai1_sweep M A rhs x tmp)) = nrows A.
Proof.
  intros Hr Hrhs Hx Htmp. unfold spai1_sweep. cbn [fst snd]. split.
  - rewrite spmv_length; congruence.
  - apply residual_length; assumption.
Qed.

(* T5: a solution of A x = rhs is a fixed point of the sweep, whatever M is *)
Theorem spai1_sweep_fixed_point (M A : crs) (rhs x tmp : vec) (i : nat) :
  wf A = true -> wf M = true ->
  ncols M = nrows A -> nrows M = nrows A ->
  length rhs = nrows A -> length x = nrows A -> length tmp = nrows A ->
  (forall j, j < nrows A -> Ax A x j = vget rhs j) ->
  i < nrows A ->
  vget (fst (spai1_sweep M A rhs x tmp)) i = vget x i.
Proof.
  intros HwA HwM Hc Hr Hrhs Hx Htmp Hsol Hi.
  rewrite spai1_sweep_spec by assumption.
  rewrite s1_sumn_zero_ext; [ring|].
  intros j Hj. rewrite Hsol by exact Hj. ring.
Qed.

(* apply (used as a preconditioner): x = M rhs *)
Theorem spai1_apply_spec (M : crs) (rhs x : vec) (i : nat) :
  wf M = true -> length x = nrows M -> i < nrows M ->
  vget (spai1_apply M rhs x) i = Ax M rhs i.
Proof.
  intros HwM Hx Hi. unfold spai1_apply.
  rewrite (spmv_spec Srt Seqb) by assumption. ring.
Qed.

(* T4/T5 for the M produced by the setup (square A): no separate hypothesis on M *)
Theorem spai1_setup_sweep_spec (A M : crs) (rhs x tmp : vec) (i : nat) :
  wf A = true -> ncols A = nrows A -> spai1_setup solve A = Some M ->
  length rhs = nrows A -> length x = nrows A -> length tmp = nrows A ->
  i < nrows A ->
  vget (fst (spai1_sweep M A rhs x tmp)) i
  = vget x i + sumn (fun j => mget M i j * (vget rhs j - Ax A x j)) (nrows A).
Proof.
  intros Hwf Hsq HM Hrhs Hx Htmp Hi.
  destruct (spai1_setup_rows A M HM) as (Hc & Hr & _).
  apply spai1_sweep_spec; try assumption; [exact (spai1_setup_wf A M Hwf HM)|congruence].
Qed.

End Spai1Proofs.

Check @rowdot_spec.
Check @spai1_row_normal_equations.
Check @spai1_row_residual_orthogonal.
Check @spai1_row_pythagoras.
Check @spai1_setup_rows.
Check @spai1_setup_pattern.
Check @spai1_setup_wf.
Check @spai1_setup_normal_equations.
Check @spai1_row_minimal.
Check @spai1_setup_sweep_spec.
Check @spai1_sweep_spec.
Check @spai1_sweep_fixed_point.
Check @spai1_apply_spec.
Print Assumptions spai1_row_pythagoras.
Print Assumptions spai1_sweep_fixed_point.
