(* BlockRelaxProofsIlu.v -- detail::ilu_solve (serial) and the ILU-type sweeps over a NON-COMMUTATIVE
   ring of values (ncring_theory; block values: NcRingBlock.BlockS_ncring).  Port of the RingLaws part of
   IluProofs.v; every product keeps the operand order of the C++:
       forward   y_i + sum_j L_ij * y_j = b_i
       backward  x_i = D_i * (y_i - sum_j U_ij * x_j)                    D_i = inverted pivot, on the LEFT
   The solve is RIGHT-linear ((u a + v b) |-> x_u a + x_v b): left factors do not pass through
   the products L_ij * x_j.  Fixed point of every ILU-type sweep for ANY factors.
   If (I+L)(U+D^-1) = A entry-wise (block products) and D_i = (D_i^-1)^-1 is a two-sided inverse, the
   solve is an exact solve of A x = b. *)
From Coq Require Import ZifyBool.
From Amgcl Require Import Scalar Vec Crs Kernels KernelsProofs MatOps Relax Ilu IluProofs NcRing NcKernels.
Local Open Scope S_scope.

Section NcIlu.
Context {S : Scalar}.
Local Notation vec := (vec S).
Local Notation row := (row S).
Local Notation crs := (crs S).
Hypothesis Hnc : ncring_theory S.
Hypothesis Seqb : seqb_spec S.
Local Instance ncilu : NcRingInst S := ncring_inst Hnc.

(* ---------------- one row ---------------- *)
Lemma nc_lsolve_row_get_eq i (r : row) (x : vec) :
  (forall e, In e r -> fst e <> i) -> i < length x ->
  vget (lsolve_row i r x) i = vget x i - dotrow r x.
Proof.
  revert x; induction r as [|e r IH]; intros x H Hi.
  - unfold lsolve_row, dotrow; simpl. ncr.
  - rewrite lsolve_row_cons, IH.
    + rewrite set_nth_get_eq by exact Hi.
      rewrite (dotrow_ext r (set_nth x i (vget x i - snd e * vget x (fst e))) x).
      * rewrite (nc_dotrow_cons Hnc). ncr.
      * intros e' He'. apply set_nth_get_ne. apply H. right; exact He'.
    + intros e' He'. apply H. right; exact He'.
    + rewrite set_nth_length. exact Hi.
Qed.

Lemma nc_usolve_row_get_eq D i (r : row) (x : vec) :
  (forall e, In e r -> fst e <> i) -> i < length x ->
  vget (usolve_row D i r x) i = vget D i * (vget x i - dotrow r x).
Proof.
  intros H Hi. unfold usolve_row.
  rewrite set_nth_get_eq by (rewrite lsolve_row_length; exact Hi).
  rewrite nc_lsolve_row_get_eq by assumption. reflexivity.
Qed.

(* ---------------- generic substitution sweep ---------------- *)
Lemma nc_sweep_spec (M : crs) (n : nat) (step : vec -> nat -> vec) (g : nat -> S -> S) :
  (forall x i, length (step x i) = length x) ->
  (forall x i j, j <> i -> vget (step x i) j = vget x j) ->
  forall order, NoDup order -> order_ok M order ->
  (forall i x, In i order -> length x = n ->
     vget (step x i) i = g i (vget x i - sumn (fun j => mget M i j * vget x j) n)) ->
  forall x0, length x0 = n ->
  (forall i, In i order ->
     vget (fold_left step order x0) i =
     g i (vget x0 i - sumn (fun j => mget M i j * vget (fold_left step order x0) j) n))
  /\ (forall i, ~ In i order -> vget (fold_left step order x0) i = vget x0 i).
Proof.
  intros Hlen Hframe. induction order as [|i l IH]; intros ND OK Hstep x0 Hx0; simpl.
  - split; [intros i []|reflexivity].
  - apply NoDup_cons_iff in ND as [Hnotin ND']. destruct OK as [Hz OK'].
    destruct (IH ND' OK' (fun k x Hk => Hstep k x (or_intror Hk)) (step x0 i)) as [E1 E2].
    { rewrite Hlen. exact Hx0. }
    split.
    + intros k [<-|Hk].
      * rewrite E2 by exact Hnotin. rewrite Hstep by (auto; left; reflexivity).
        f_equal. f_equal. apply sumn_ext. intros j _.
        destruct (in_dec Nat.eq_dec j (i :: l)) as [Hin|Hout].
        -- rewrite (Hz j Hin). ncr.
        -- rewrite E2 by (intro; apply Hout; right; assumption).
           rewrite Hframe by (intro; subst; apply Hout; left; reflexivity). reflexivity.
      * rewrite (E1 k Hk). rewrite Hframe by (intro; subst; contradiction). reflexivity.
    + intros k Hk. rewrite E2 by (intro; apply Hk; right; assumption).
      apply Hframe. intro; subst; apply Hk; left; reflexivity.
Qed.

(* ---------------- forward substitution ---------------- *)
Theorem nc_lsolve_spec (L : crs) (b : vec) :
  strict_lower L -> length b = nrows L ->
  length (lsolve L b) = length b /\
  forall i, i < nrows L ->
    vget (lsolve L b) i + sumn (fun j => mget L i j * vget (lsolve L b) j) (nrows L) = vget b i.
Proof.
  intros HL Hb. split; [apply lsolve_length|]. intros i Hi.
  destruct (nc_sweep_spec L (nrows L) (fun x i => lsolve_row i (nth i (rows L) []) x) (fun _ t => t))
    with (order := seq 0 (nrows L)) (x0 := b) as [E _].
  - intros; apply lsolve_row_length.
  - intros; apply lsolve_row_get_ne; assumption.
  - apply seq_NoDup.
  - apply order_ok_seq. intros; apply mget_lower_zero; assumption.
  - intros k x Hk Hx. apply in_seq in Hk.
    rewrite nc_lsolve_row_get_eq.
    + f_equal. unfold mget. apply (nc_dotrow_spec Hnc). apply row_wf_of_bound.
      intros [c v] He. apply HL in He. simpl. lia.
    + intros [c v] He. apply HL in He. simpl. lia.
    + lia.
  - exact Hb.
  - unfold lsolve. rewrite (E i) at 1 by (apply in_seq; lia). ncr.
Qed.

(* ---------------- backward substitution ---------------- *)
Theorem nc_usolve_spec n (U : crs) (D y : vec) :
  strict_upper n U -> length y = n ->
  length (usolve n U D y) = n /\
  forall i, i < n ->
    vget (usolve n U D y) i =
    vget D i * (vget y i - sumn (fun j => mget U i j * vget (usolve n U D y) j) n).
Proof.
  intros HU Hy. split; [rewrite usolve_length; exact Hy|]. intros i Hi.
  destruct (nc_sweep_spec U n (fun x i => usolve_row D i (nth i (rows U) []) x) (fun i t => vget D i * t))
    with (order := rev (seq 0 n)) (x0 := y) as [E _].
  - intros; apply usolve_row_length.
  - intros; apply usolve_row_get_ne; assumption.
  - apply NoDup_rev, seq_NoDup.
  - apply order_ok_rev_seq. intros; eapply mget_upper_zero; eassumption.
  - intros k x Hk Hx. apply in_rev, in_seq in Hk.
    rewrite nc_usolve_row_get_eq.
    + f_equal. f_equal. unfold mget. apply (nc_dotrow_spec Hnc). apply row_wf_of_bound.
      intros [c v] He. apply HU in He. simpl. lia.
    + intros [c v] He. apply HU in He. simpl. lia.
    + lia.
  - exact Hy.
  - unfold usolve. apply E. apply in_rev. rewrite rev_involutive. apply in_seq. lia.
Qed.

(* ---------------- the complete solve: substitution form of (I + L)(D^-1 + U) x = b,
   written with the stored (inverted) pivots D_i only -- no inverse needed ---------------- *)
Theorem nc_ilu_solve_spec (L U : crs) (D b : vec) :
  strict_lower L -> strict_upper (nrows L) U -> length b = nrows L ->
  length (ilu_solve L U D b) = nrows L /\
  forall i, i < nrows L ->
    vget (lsolve L b) i + sumn (fun j => mget L i j * vget (lsolve L b) j) (nrows L) = vget b i
    /\ vget (ilu_solve L U D b) i =
       vget D i * (vget (lsolve L b) i
                   - sumn (fun j => mget U i j * vget (ilu_solve L U D b) j) (nrows L)).
Proof.
  intros HL HU Hb.
  destruct (nc_lsolve_spec L b HL Hb) as [Ly Ey].
  destruct (nc_usolve_spec (nrows L) U D (lsolve L b) HU) as [Lx Ex]; [congruence|].
  split; [exact Lx|]. intros i Hi. split; [apply Ey; exact Hi|apply Ex; exact Hi].
Qed.

(* with P_i a LEFT inverse of the stored D_i (P_i = the pivot block u_ii):
   row i of (D^-1 + U) x = y reads  P_i * x_i + sum_j U_ij * x_j = y_i *)
Theorem nc_ilu_solve_spec_inv (L U : crs) (D b : vec) (P : nat -> S) :
  strict_lower L -> strict_upper (nrows L) U -> length b = nrows L ->
  forall i, i < nrows L -> P i * vget D i = s1 ->
    vget (lsolve L b) i + sumn (fun j => mget L i j * vget (lsolve L b) j) (nrows L) = vget b i
    /\ P i * vget (ilu_solve L U D b) i
       + sumn (fun j => mget U i j * vget (ilu_solve L U D b) j) (nrows L)
       = vget (lsolve L b) i.
Proof.
  intros HL HU Hb i Hi HD.
  destruct (nc_ilu_solve_spec L U D b HL HU Hb) as [_ E].
  destruct (E i Hi) as [E1 E2]. split; [exact E1|].
  rewrite E2 at 1.
  set (y := vget (lsolve L b) i). set (sx := sumn _ _).
  transitivity ((P i * vget D i) * (y - sx) + sx); [ncr|]. rewrite HD. ncr.
Qed.

(* ---------------- solve of the zero vector; fixed point of every ILU sweep ---------------- *)
Lemma nc_lsolve_row_zero i (r : row) n : lsolve_row i r (vzero n) = vzero n.
Proof.
  induction r as [|e r IH]; [reflexivity|].
  rewrite lsolve_row_cons, !vget_vzero.
  replace (s0 - snd e * s0) with (@s0 S) by ncr. rewrite set_nth_vzero. exact IH.
Qed.

Lemma nc_usolve_row_zero D i (r : row) n : usolve_row D i r (vzero n) = vzero n.
Proof.
  unfold usolve_row. rewrite nc_lsolve_row_zero, vget_vzero.
  replace (vget D i * s0) with (@s0 S) by ncr. apply set_nth_vzero.
Qed.

Theorem nc_ilu_solve_zero_any (L U : crs) (D : vec) n : ilu_solve L U D (vzero n) = vzero n.
Proof.
  unfold ilu_solve, lsolve, usolve.
  rewrite (fold_left_fix (fun x i => lsolve_row i (nth i (rows L) []) x))
    by (intro; apply nc_lsolve_row_zero).
  apply fold_left_fix. intro; apply nc_usolve_row_zero.
Qed.

Theorem nc_ilu_sweep_fixed_point (w : S) (L U : crs) (D : vec) (A : crs) (rhs x tmp : vec) :
  wf A = true -> length rhs = nrows A -> length x = nrows A -> length tmp = nrows A ->
  (forall i, i < nrows A -> Ax A x i = vget rhs i) ->
  forall i, i < nrows A -> vget (fst (ilu_sweep w L U D A rhs x tmp)) i = vget x i.
Proof.
  intros Hwf Hr Hx Ht Hsol i Hi. unfold ilu_sweep. simpl.
  assert (Hres : residual rhs A x tmp = vzero (nrows A)).
  { apply vec_eq_vzero.
    - apply residual_length; assumption.
    - intros k Hk. rewrite (nc_residual_spec Hnc) by assumption. rewrite Hsol by exact Hk. ncr. }
  rewrite Hres, nc_ilu_solve_zero_any.
  rewrite (nc_axpby_spec Hnc Seqb) by (rewrite ?vzero_length; lia).
  rewrite vget_vzero. ncr.
Qed.

(* ---------------- RIGHT-linearity, no structural hypothesis ---------------- *)
Definition lin3r (a b : S) (x u v : vec) : Prop :=
  length u = length x /\ length v = length x /\
  forall i, vget x i = vget u i * a + vget v i * b.

Lemma set_nth_lin3r a b (x u v : vec) i p q r :
  lin3r a b x u v -> p = q * a + r * b ->
  lin3r a b (set_nth x i p) (set_nth u i q) (set_nth v i r).
Proof.
  intros (Hu & Hv & H) Hp. unfold lin3r. rewrite !set_nth_length. repeat split; try assumption.
  intro j. rewrite !set_nth_get, Hu, Hv.
  destruct (Nat.eqb j i && Nat.ltb i (length x)); [exact Hp|apply H].
Qed.

Lemma lsolve_row_lin3r a b i (r : row) (x u v : vec) :
  lin3r a b x u v -> lin3r a b (lsolve_row i r x) (lsolve_row i r u) (lsolve_row i r v).
Proof.
  revert x u v; induction r as [|e r IH]; intros x u v H; [exact H|].
  rewrite !lsolve_row_cons. apply IH. apply set_nth_lin3r; [exact H|].
  destruct H as (_ & _ & H). rewrite (H i), (H (fst e)). ncr.
Qed.

Lemma usolve_row_lin3r a b D i (r : row) (x u v : vec) :
  lin3r a b x u v -> lin3r a b (usolve_row D i r x) (usolve_row D i r u) (usolve_row D i r v).
Proof.
  intro H. unfold usolve_row. pose proof (lsolve_row_lin3r a b i r x u v H) as H1.
  apply set_nth_lin3r; [exact H1|]. destruct H1 as (_ & _ & H1). rewrite (H1 i). ncr.
Qed.

Lemma fold_lin3r a b (step : vec -> nat -> vec) (l : list nat) :
  (forall x u v i, lin3r a b x u v -> lin3r a b (step x i) (step u i) (step v i)) ->
  forall x u v, lin3r a b x u v ->
  lin3r a b (fold_left step l x) (fold_left step l u) (fold_left step l v).
Proof.
  intro Hs. induction l as [|i l IH]; intros x u v H; simpl; [exact H|]. apply IH, Hs, H.
Qed.

Theorem nc_ilu_solve_right_linear (a b : S) (L U : crs) (D : vec) (w u v : vec) :
  length u = length w -> length v = length w ->
  (forall i, i < length w -> vget w i = vget u i * a + vget v i * b) ->
  forall i, vget (ilu_solve L U D w) i
            = vget (ilu_solve L U D u) i * a + vget (ilu_solve L U D v) i * b.
Proof.
  intros Hu Hv H.
  assert (H3 : lin3r a b w u v).
  { repeat split; try assumption. intro i.
    destruct (Nat.lt_ge_cases i (length w)) as [Hi|Hi]; [apply H; exact Hi|].
    unfold vget. rewrite !nth_overflow by lia. ncr. }
  assert (H4 : lin3r a b (ilu_solve L U D w) (ilu_solve L U D u) (ilu_solve L U D v)).
  { unfold ilu_solve, usolve, lsolve.
    apply fold_lin3r; [intros; apply usolve_row_lin3r; assumption|].
    apply fold_lin3r; [intros; apply lsolve_row_lin3r; assumption|exact H3]. }
  destruct H4 as (_ & _ & H4). exact H4.
Qed.

(* ---------------- exact solve: (I+L)(U+P) = A entry-wise  =>  A (ilu_solve b) = b ----------------
   P_i: the pivot blocks, two-sided... only P_i * D_i = 1 (LEFT inverse of the stored inverted pivot) is used.
   lu_entry_P is Ilu.lu_entry with P_k in place of sinv (D_k). *)
Definition lu_entry_P (L U : crs) (P : nat -> S) (i j : nat) : S :=
  sumn (fun k => mget L i k * (if Nat.eqb k j then P k else mget U k j)) i
  + (if Nat.eqb i j then P i else mget U i j).

Theorem nc_ilu_exact_solve (A L U : crs) (D b : vec) (P : nat -> S) :
  strict_lower L -> strict_upper (nrows L) U -> length b = nrows L -> ncols A = nrows L ->
  (forall i, i < nrows L -> P i * vget D i = s1) ->
  (forall i j, i < nrows L -> j < nrows L -> lu_entry_P L U P i j = mget A i j) ->
  forall i, i < nrows L -> Ax A (ilu_solve L U D b) i = vget b i.
Proof.
  intros HL HU Hb Hsq HP HLU i Hi.
  set (n := nrows L) in *. set (x := ilu_solve L U D b). set (y := lsolve L b).
  (* row k of (P + U) x = y *)
  assert (Hy : forall k, k < n ->
             sumn (fun j => (if Nat.eqb k j then P k else mget U k j) * vget x j) n = vget y k).
  { intros k Hk. destruct (nc_ilu_solve_spec_inv L U D b P HL HU Hb k Hk (HP k Hk)) as [_ E].
    fold x y n in E. rewrite <- E.
    rewrite (sumn_ext _ (fun j => (if Nat.eqb j k then P k * vget x k else s0) + mget U k j * vget x j)).
    - rewrite (ncsumn_add Hnc), (ncsumn_delta Hnc).
      replace (k <? n)%nat with true by (symmetry; apply Nat.ltb_lt; exact Hk). reflexivity.
    - intros j Hj. rewrite (Nat.eqb_sym j k). destruct (Nat.eqb_spec k j) as [<-|Hne].
      + rewrite (mget_upper_zero n U k k HU) by lia. ncr.
      + ncr. }
  unfold Ax. rewrite Hsq. fold n.
  (* A_ij = sum_{k<i} L_ik W_kj + W_ij,  W = P + U ; extend the inner sum to k < n (L_ik = 0 for k >= i) *)
  assert (HLUn : forall j, j < n -> mget A i j =
             sumn (fun k => mget L i k * (if Nat.eqb k j then P k else mget U k j)) n
             + (if Nat.eqb i j then P i else mget U i j)).
  { intros j Hj. rewrite <- (HLU i j Hi Hj). unfold lu_entry_P. f_equal.
    replace n with (i + (n - i))%nat at 1 by lia.
    generalize (n - i)%nat as m. intro m. induction m as [|m IH].
    - rewrite Nat.add_0_r. reflexivity.
    - replace (i + Datatypes.S m)%nat with (Datatypes.S (i + m)) by lia. simpl. rewrite <- IH.
      rewrite (mget_lower_zero L i (i + m) HL) by lia. ncr. }
  rewrite (sumn_ext _ (fun j =>
      sumn (fun k => mget L i k * ((if Nat.eqb k j then P k else mget U k j) * vget x j)) n
      + (if Nat.eqb i j then P i else mget U i j) * vget x j)).
  2:{ intros j Hj. rewrite (HLUn j Hj). rewrite (nc_distr_l _ Hnc). f_equal.
      rewrite <- (ncsumn_scal_r Hnc). apply sumn_ext. intros k _. ncr. }
  rewrite (ncsumn_add Hnc), (ncsumn_swap Hnc).
  rewrite (sumn_ext (fun j => sumn (fun i0 => mget L i j * ((if Nat.eqb j i0 then P j else mget U j i0) * vget x i0)) n)
                    (fun k => mget L i k * vget y k)).
  2:{ intros k Hk. rewrite (ncsumn_scal_l Hnc). rewrite (Hy k Hk). reflexivity. }
  rewrite (Hy i Hi).
  destruct (nc_lsolve_spec L b HL Hb) as [_ Ey]. fold y n in Ey. rewrite <- (Ey i Hi). ncr.
Qed.

(* the same in terms of Ilu.lu_entry (P_k = sinv D_k) *)
Lemma lu_entry_P_sinv (L U : crs) (D : vec) i j :
  lu_entry_P L U (fun k => sinv (vget D k)) i j = lu_entry L U D i j.
Proof. reflexivity. Qed.

Theorem nc_ilu_exact_solve_lu (A L U : crs) (D b : vec) :
  strict_lower L -> strict_upper (nrows L) U -> length b = nrows L -> ncols A = nrows L ->
  (forall i, i < nrows L -> sinv (vget D i) * vget D i = s1) ->
  (forall i j, i < nrows L -> j < nrows L -> lu_entry L U D i j = mget A i j) ->
  forall i, i < nrows L -> Ax A (ilu_solve L U D b) i = vget b i.
Proof.
  intros HL HU Hb Hsq HD HLU. apply (nc_ilu_exact_solve A L U D b (fun k => sinv (vget D k))); assumption.
Qed.

(* ilu0 / ilup: whenever the exact factors fit the pattern (lu_entry = mget everywhere), apply() is an exact solve *)
Corollary nc_ilu0_exact_solve (A : crs) (junk : vec) (L U : crs) (D b x0 : vec) :
  ilu0 A junk = Ok (L, U, D) -> wf A = true -> ncols A = nrows A ->
  length b = nrows A -> length x0 = nrows A ->
  (forall i, i < nrows A -> sinv (vget D i) * vget D i = s1) ->
  (forall i j, i < nrows A -> j < nrows A -> lu_entry L U D i j = mget A i j) ->
  forall i, i < nrows A -> Ax A (ilu_apply L U D b x0) i = vget b i.
Proof.
  intros H Hwf Hsq Hb Hx HD HA i Hi.
  pose proof (ilu0_strict_lower A junk L U D H) as HL.
  pose proof (ilu0_strict_upper A junk L U D H Hwf) as HU.
  apply ilu0_structure in H as (Hn & _).
  rewrite Hsq in HU. rewrite <- Hn in *.
  unfold ilu_apply. rewrite vcopy_spec by congruence.
  apply nc_ilu_exact_solve_lu; assumption.
Qed.

End NcIlu.
