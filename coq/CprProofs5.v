(* CprProofs5.v -- C18-A3, statements about what the user constructs: cpr(K, prm) sorts its copy of
   K (cpr_make); the two-stage operators of the scalar and of the block-valued construction. *)
From Coq Require Import ZifyBool.
From Amgcl Require Import Scalar Vec Crs Kernels KernelsProofs MatOps MatOpsProofs Adapters AdaptersProofs BlockProofs
  Composite Cpr CprProofs CprProofs2 CprProofs4.

Section Ring.
Context {S : Scalar}.
Local Notation row := (row S).
Local Notation vec := (vec S).
Hypothesis Srt : Sring S.
Local Open Scope S_scope.

(* for EVERY user matrix (any listing order, duplicates allowed): the pressure matrix built by the
   template constructor is the weighting of the pressure columns of the active part of K *)
Theorem cpr_make_App_dense B np (K : crs S) (junk : vec) active ip jp : 0 < B ->
  cpr_N (nrows K) active = (np * B)%nat -> ip < np -> jp < np ->
  mget (c_app (cpr_make B active K junk)) ip jp
  = sumn (fun i => vget (cpr_weights B (np * B) (sort_rows K) true junk ip) i * mget K (ip * B + i) (jp * B)) B.
Proof.
  intros HB HN Hip Hjp. unfold cpr_make, cpr_setup. cbn [c_app].
  destruct (sort_rows_shape K) as [En _]. rewrite En, HN.
  rewrite (cpr_App_dense Srt B np (sort_rows K) junk ip jp HB (sort_rows_sorted K) Hip Hjp).
  apply sumn_ext. intros i _. rewrite (sort_rows_dense Srt). reflexivity.
Qed.

(* rows without duplicate columns are strictly sorted after sort_rows *)
Lemma sort_rows_strict (K : crs S) : Forall (fun r => NoDup (map fst r)) (rows K) ->
  Forall (fun r => sorted_strict r = true) (rows (sort_rows K)).
Proof.
  intro H. unfold sort_rows. cbn [rows]. apply Forall_forall. intros r Hr. apply in_map_iff in Hr as [r0 [<- Hr0]].
  rewrite Forall_forall in H. apply SS_nodup_sorted_strict; [apply sort_row_SS|apply sort_row_nodup; apply H; exact Hr0].
Qed.

(* the operators: scalar input with block_size B vs its block view -- identical for every
   pressure preconditioner that depends on the dense content of its matrix only *)
Hypothesis sadj_id : forall x : S, sadj x = x.
Theorem cpr_block_scalar_operator (B nb : nat) (K : crs S) (junk : vec)
    (sprecond : vec -> vec) (pprecond : crs S -> vec -> vec) (f : vec) :
  0 < B -> nrows K = (nb * B)%nat ->
  Forall (fun r => sorted_strict r = true) (rows K) ->
  (forall ip, ip < nb -> has_block B ip (cpr_block_rows B K ip)) ->
  (forall A1 A2 : crs S, nrows A1 = nrows A2 -> ncols A1 = ncols A2 ->
     (forall i j, i < nrows A1 -> j < ncols A1 -> mget A1 i j = mget A2 i j) -> pprecond A1 = pprecond A2) ->
  cpr_operator K (cprb_setup B 0 (to_gcrs (block_adapter B (crs_view K))) junk) sprecond pprecond f
  = cpr_operator K (cpr_setup B 0 K junk) sprecond pprecond f.
Proof.
  intros HB Hn Hs Hd Hpp. unfold cpr_operator.
  rewrite (cpr_block_scalar_fpp Srt sadj_id B nb K junk HB Hn Hs Hd).
  rewrite (cpr_block_scalar_scatter B nb K junk HB Hn).
  destruct (cpr_block_scalar_app Srt sadj_id B nb K junk HB Hn Hs Hd) as (E1 & E2 & E3).
  rewrite (Hpp _ _ E1 E2); [reflexivity|].
  intros i j Hi Hj. apply E3.
  - rewrite E1 in Hi. destruct (cpr_App_shape (S:=S) B (cpr_N (nrows K) 0) K junk) as [R _].
    unfold cpr_setup in Hi. cbn [c_app] in Hi. rewrite R in Hi. unfold cpr_N in Hi. simpl in Hi. rewrite Hn, Nat.div_mul in Hi by lia. exact Hi.
  - rewrite E2 in Hj. destruct (cpr_App_shape (S:=S) B (cpr_N (nrows K) 0) K junk) as [_ R].
    unfold cpr_setup in Hj. cbn [c_app] in Hj. rewrite R in Hj. unfold cpr_N in Hj. simpl in Hj. rewrite Hn, Nat.div_mul in Hj by lia. exact Hj.
Qed.

End Ring.
