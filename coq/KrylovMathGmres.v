(* KrylovMathGmres.v -- what one inner iteration of GMRES / FGMRES / LGMRES computes (C05-A2):
   (a) the modified Gram-Schmidt loop Krylov.mgs satisfies the Arnoldi relation
         w = w' + sum_k H(k,j) v_k          (pure ring identity, no square root)
       and, when the basis is orthonormal, leaves w' orthogonal to it with H(k,j) = <w, v_k>;
       after the normalisation  K v_j = sum_{k<=j} H(k,j) v_k + H(j+1,j) v_{j+1};
   (b) the Givens coefficients of Krylov.gen_rot satisfy cs^2 + sn^2 = 1 and annihilate the
       sub-diagonal entry, PROVIDED the square root is exact at the one argument it is applied to;
       Krylov.app_rot preserves the sum of squares for such coefficients;
   (c) hence |s_{j+1}|^2 + |s_j'|^2 = |s_j|^2 and, in an ordered field, |s_{j+1}|^2 <= |s_j|^2:
       the residual estimate the inner loop tests against eps never increases.
   Everything is stated on the model functions of Krylov.v (mgs, gen_rot, app_rot, arnoldi_tail,
   gm_body, gm_inner). *)
From Amgcl Require Import Scalar Vec Kernels KernelsProofs Krylov KrylovRef KrylovProofs KrylovMathVec AmgOrder.
From Coq Require Import QArith_base.
Local Close Scope Q_scope.
Local Open Scope S_scope.
Local Notation SS := Datatypes.S.

Ltac vext :=
  unfold vadd, vsub, vscal, vzeros; rewrite ?zipw_vmap2;
  apply nth_error_ext; let i := fresh "i" in intro i;
  repeat (rewrite ?nth_error_vmap2, ?nth_error_vmap3, ?nth_error_map);
  repeat match goal with |- context [nth_error ?v i] => destruct (nth_error v i) end;
  simpl; try reflexivity; try (f_equal; ring).

(* ================================================================== *)
Section Mgs.
Context {S : Scalar}.
Local Notation vec := (vec S).
Hypothesis Srt : Sring S.
Hypothesis Seqb : seqb_spec S.
Add Ring SRingGM : Srt.
Variable n : nat.

Lemma ip_rdot (x y : vec) : ip x y = rdot x y.
Proof. rewrite (ip_dot Srt). symmetry. apply rdot_dot. Qed.

Lemma k_axpby_sub h (x w : vec) : length x <= length w ->
  k_axpby (- h) x s1 w = vsub w (vscal h x).
Proof. intro L. rewrite (k_axpby_spec Srt Seqb) by exact L. vext. Qed.

(* sum of a family of vectors over a list of indices *)
Fixpoint lsum (ks : list nat) (g : nat -> vec) : vec :=
  match ks with [] => zeron n | k :: tl => vadd (g k) (lsum tl g) end.
Lemma lsum_len ks g : (forall k, In k ks -> length (g k) = n) -> length (lsum ks g) = n.
Proof.
  induction ks as [|k tl IH]; intro H; simpl; [apply zeron_len|].
  apply vadd_len; [apply H; left; reflexivity|apply IH; intros; apply H; right; assumption].
Qed.
Lemma lsum_ext ks g g' : (forall k, In k ks -> g k = g' k) -> lsum ks g = lsum ks g'.
Proof.
  induction ks as [|k tl IH]; intro H; simpl; [reflexivity|].
  rewrite H by (left; reflexivity). rewrite IH; [reflexivity|]. intros; apply H; right; assumption.
Qed.

Variable v : nat -> vec.
Variable j : nat.

(* entries outside column j / rows ks are untouched; the rows ks of column j are written once *)
Lemma mgs_frame ks : forall H w r c, ~ (c = j /\ In r ks) -> fst (mgs v j ks H w) r c = H r c.
Proof.
  induction ks as [|k tl IH]; intros H w r c N; simpl; [reflexivity|].
  rewrite IH by (intros (E & I); apply N; split; [exact E|right; exact I]).
  unfold updm. destruct (Nat.eqb r k && Nat.eqb c j) eqn:E; [|reflexivity].
  exfalso. apply andb_prop in E as (E1 & E2). apply Nat.eqb_eq in E1, E2. apply N. subst. split; [reflexivity|left; reflexivity].
Qed.

Lemma mgs_len ks : forall H w, length w = n -> (forall k, In k ks -> length (v k) = n) ->
  length (snd (mgs v j ks H w)) = n.
Proof.
  induction ks as [|k tl IH]; intros H w Lw Lv; simpl; [exact Lw|].
  apply IH; [|intros; apply Lv; right; assumption].
  rewrite k_axpby_sub by (rewrite Lv, Lw; [lia|left; reflexivity]).
  apply vsub_len; [exact Lw|apply vscal_len, Lv; left; reflexivity].
Qed.

(* THE ARNOLDI RELATION of the orthogonalisation loop (ring identity) *)
Theorem mgs_arnoldi ks : forall H w, NoDup ks -> length w = n -> (forall k, In k ks -> length (v k) = n) ->
  let H' := fst (mgs v j ks H w) in let w' := snd (mgs v j ks H w) in
  w = vadd w' (lsum ks (fun k => vscal (H' k j) (v k))).
Proof.
  induction ks as [|k tl IH]; intros H w ND Lw Lv; simpl.
  - apply (vec_ext_n n); [exact Lw|apply vadd_len; [exact Lw|apply zeron_len]|].
    intros i Hi. rewrite (nth_vadd_n n) by (auto using zeron_len). unfold zeron. rewrite nth_repeat. ring.
  - inversion ND as [|k' tl' Nin ND' E]; subst k' tl'.
    assert (Lk : length (v k) = n) by (apply Lv; left; reflexivity).
    assert (Lv' : forall i, In i tl -> length (v i) = n) by (intros; apply Lv; right; assumption).
    set (h := ip w (v k)).
    assert (Ew1 : k_axpby (- h) (v k) s1 w = vsub w (vscal h (v k))) by (apply k_axpby_sub; lia).
    rewrite Ew1.
    assert (Lw1 : length (vsub w (vscal h (v k))) = n) by (apply vsub_len; [exact Lw|apply vscal_len, Lk]).
    pose proof (IH (updm H k j h) (vsub w (vscal h (v k))) ND' Lw1 Lv') as E. cbv zeta in E.
    set (R := mgs v j tl (updm H k j h) (vsub w (vscal h (v k)))) in *.
    assert (Hk : fst R k j = h).
    { unfold R. rewrite mgs_frame by (intros (_ & I); exact (Nin I)).
      unfold updm. rewrite !Nat.eqb_refl. reflexivity. }
    rewrite Hk.
    assert (Lw' : length (snd R) = n) by (unfold R; apply mgs_len; assumption).
    assert (Ls : length (lsum tl (fun i => vscal (fst R i j) (v i))) = n).
    { apply lsum_len. intros i Hi. apply vscal_len, Lv', Hi. }
    apply (vec_ext_n n); [exact Lw|auto using vadd_len, vscal_len|].
    intros i Hi.
    assert (Ei : nth i (vsub w (vscal h (v k))) s0 = nth i (vadd (snd R) (lsum tl (fun i0 => vscal (fst R i0 j) (v i0)))) s0)
      by (rewrite <- E; reflexivity).
    rewrite (nth_vsub_n n), (nth_vscal_n n), (nth_vadd_n n) in Ei by (auto using vscal_len).
    rewrite !(nth_vadd_n n), (nth_vscal_n n) by (auto using vadd_len, vscal_len).
    replace (nth i w s0) with ((nth i w s0 - h * nth i (v k) s0) + h * nth i (v k) s0) by ring.
    rewrite Ei. ring.
Qed.

(* ---- orthogonality (needs a symmetric inner product: real scalar type) ---- *)
Hypothesis Sreal : forall x : S, sadj x = x.

(* a vector orthogonal to all v_k, k in ks, and to w stays orthogonal to the remainder *)
Lemma mgs_keeps_orth ks (u : vec) : forall H w, length w = n -> length u = n ->
  (forall k, In k ks -> length (v k) = n) ->
  (forall k, In k ks -> rdot (v k) u = s0) -> rdot w u = s0 ->
  rdot (snd (mgs v j ks H w)) u = s0.
Proof.
  induction ks as [|k tl IH]; intros H w Lw Lu Lv Ou Ow; simpl; [exact Ow|].
  assert (Lk : length (v k) = n) by (apply Lv; left; reflexivity).
  rewrite k_axpby_sub by lia.
  apply IH; auto using vsub_len, vscal_len.
  - intros; apply Lv; right; assumption.
  - intros; apply Ou; right; assumption.
  - rewrite (rdot_vsub_l Srt), (rdot_vscal_l Srt), Ow, (Ou k) by (rewrite ?(vscal_len _ _ n); auto; left; reflexivity).
    ring.
Qed.

(* with an orthonormal family v_k (k in ks) the remainder is orthogonal to every v_k *)
Theorem mgs_orthogonal ks : forall H w, NoDup ks -> length w = n ->
  (forall k, In k ks -> length (v k) = n) ->
  (forall a b, In a ks -> In b ks -> rdot (v a) (v b) = if Nat.eqb a b then s1 else s0) ->
  forall k, In k ks -> rdot (snd (mgs v j ks H w)) (v k) = s0.
Proof.
  induction ks as [|k0 tl IH]; intros H w ND Lw Lv ON k Hk; [destruct Hk|].
  inversion ND as [|k' tl' Nin ND' E]; subst k' tl'.
  assert (Lk0 : length (v k0) = n) by (apply Lv; left; reflexivity).
  assert (Lv' : forall i, In i tl -> length (v i) = n) by (intros; apply Lv; right; assumption).
  simpl. rewrite k_axpby_sub by lia.
  assert (Lw1 : length (vsub w (vscal (ip w (v k0)) (v k0))) = n) by auto using vsub_len, vscal_len.
  destruct Hk as [<-|Hk].
  - apply mgs_keeps_orth; auto.
    + intros i Hi. rewrite ON by (simpl; auto).
      destruct (Nat.eqb i k0) eqn:E; [|reflexivity]. apply Nat.eqb_eq in E. subst. contradiction.
    + rewrite (rdot_vsub_l Srt), (rdot_vscal_l Srt) by (rewrite ?(vscal_len _ _ n); auto).
      rewrite (ON k0 k0) by (left; reflexivity). rewrite Nat.eqb_refl, ip_rdot. ring.
  - apply IH; auto. intros a b Ha Hb. apply ON; right; assumption.
Qed.

(* ... and the coefficients are the inner products with the ORIGINAL vector (classical = modified GS) *)
Theorem mgs_coefficients ks : forall H w, NoDup ks -> length w = n ->
  (forall k, In k ks -> length (v k) = n) ->
  (forall a b, In a ks -> In b ks -> rdot (v a) (v b) = if Nat.eqb a b then s1 else s0) ->
  forall k, In k ks -> fst (mgs v j ks H w) k j = rdot w (v k).
Proof.
  induction ks as [|k0 tl IH]; intros H w ND Lw Lv ON k Hk; [destruct Hk|].
  inversion ND as [|k' tl' Nin ND' E]; subst k' tl'.
  assert (Lk0 : length (v k0) = n) by (apply Lv; left; reflexivity).
  assert (Lv' : forall i, In i tl -> length (v i) = n) by (intros; apply Lv; right; assumption).
  simpl. rewrite k_axpby_sub by lia.
  assert (Lw1 : length (vsub w (vscal (ip w (v k0)) (v k0))) = n) by auto using vsub_len, vscal_len.
  destruct Hk as [<-|Hk].
  - rewrite mgs_frame by (intros (_ & I); exact (Nin I)).
    unfold updm. rewrite !Nat.eqb_refl. apply ip_rdot.
  - rewrite IH; auto.
    + rewrite (rdot_vsub_l Srt), (rdot_vscal_l Srt) by (rewrite ?(vscal_len _ _ n); auto).
      rewrite (ON k0 k) by (simpl; auto).
      destruct (Nat.eqb k0 k) eqn:E; [apply Nat.eqb_eq in E; subst; contradiction|]. ring.
    + intros a b Ha Hb. apply ON; right; assumption.
Qed.

End Mgs.

(* ================================================================== *)
Section Givens.
Context {S : Scalar}.
Local Notation vec := (vec S).
Hypothesis Sft : Sfield S.
Hypothesis Seqb : seqb_spec S.
Hypothesis Sreal : forall x : S, sadj x = x.
(* the literals 0.0 and 1.0 of givens_rotations.hpp convert to zero and one *)
Hypothesis HofQ0 : sofQ (0 # 1)%Q = @s0 S.
Hypothesis HofQ1 : sofQ (1 # 1)%Q = @s1 S.
Add Field SFieldGM : Sft.
Let Srt : Sring S := F_R Sft.

Definition sq (x : S) : S := x * x.
(* the square root is exact at x *)
Definition sqrt_exact (x : S) : Prop := ssqrt x * ssqrt x = x.
(* the one argument generate_plane_rotation(dx, dy) applies sqrt to (when dy <> 0) *)
Definition rot_arg (dx dy : S) : S :=
  if sltb (sabs dx) (sabs dy) then s1 + (dx / dy) * (dx / dy) else s1 + (dy / dx) * (dy / dx).
Definition unit_rot (cs sn : S) : Prop := cs * cs + sn * sn = s1.

Lemma is_zero_false (x : S) : is_zero x = false -> x <> s0.
Proof. unfold is_zero. intros H E. rewrite (proj2 (Seqb x s0) E) in H. discriminate. Qed.

(* cs^2 + sn^2 = 1, assuming ONLY that sqrt is exact at the argument used and that this argument
   (1 + t^2) is not zero (automatic in an ordered field, see one_plus_sq_neq0 below) *)
Theorem gen_rot_unit (dx dy : S) :
  (is_zero dy = false -> sqrt_exact (rot_arg dx dy) /\ rot_arg dx dy <> s0) ->
  unit_rot (fst (gen_rot dx dy)) (snd (gen_rot dx dy)).
Proof.
  unfold gen_rot, rot_arg, unit_rot, sqrt_exact. destruct (is_zero dy) eqn:Z; simpl.
  - intros _. rewrite HofQ0, HofQ1. ring.
  - intro H. destruct (H eq_refl) as (E & N). clear H.
    destruct (sltb (sabs dx) (sabs dy)); simpl.
    + set (t := dx / dy) in *. set (r := ssqrt (s1 + t * t)) in *.
      assert (Nr : r <> s0) by (intro R0; apply N; rewrite <- E, R0; ring).
      transitivity ((r * r) * (sinv r * sinv r)); [rewrite E; ring|]. field. exact Nr.
    + set (t := dy / dx) in *. set (r := ssqrt (s1 + t * t)) in *.
      assert (Nr : r <> s0) by (intro R0; apply N; rewrite <- E, R0; ring).
      transitivity ((r * r) * (sinv r * sinv r)); [rewrite E; ring|]. field. exact Nr.
Qed.

(* the rotation annihilates the second entry: no square-root assumption at all.
   (in the third branch |dx| >= |dy| > 0; stated as dx <> 0) *)
Theorem gen_rot_annihilates (dx dy : S) :
  (is_zero dy = false -> sltb (sabs dx) (sabs dy) = false -> dx <> s0) ->
  snd (app_rot dx dy (fst (gen_rot dx dy)) (snd (gen_rot dx dy))) = s0.
Proof.
  unfold gen_rot, app_rot. destruct (is_zero dy) eqn:Z; simpl.
  - intros _. rewrite HofQ0, HofQ1. apply (is_zero_true Seqb) in Z. rewrite Z. ring.
  - intro H. pose proof (is_zero_false dy Z) as Ny.
    destruct (sltb (sabs dx) (sabs dy)); simpl.
    + generalize (sinv (ssqrt (s1 + dx / dy * (dx / dy)))). intro s. field. exact Ny.
    + generalize (sinv (ssqrt (s1 + dy / dx * (dy / dx)))). intro c. field. exact (H eq_refl eq_refl).
Qed.

(* apply_plane_rotation preserves the sum of squares up to the factor cs^2 + sn^2 *)
Theorem app_rot_squares (dx dy cs sn : S) :
  sq (fst (app_rot dx dy cs sn)) + sq (snd (app_rot dx dy cs sn)) = (cs * cs + sn * sn) * (sq dx + sq dy).
Proof. unfold app_rot, sq. simpl. rewrite !Sreal. ring. Qed.

Corollary app_rot_isometry (dx dy cs sn : S) : unit_rot cs sn ->
  sq (fst (app_rot dx dy cs sn)) + sq (snd (app_rot dx dy cs sn)) = sq dx + sq dy.
Proof. intro U. rewrite app_rot_squares, U. ring. Qed.

(* ---------------- what arnoldi_tail does to the rotated right-hand side s ---------------- *)
Local Notation gm_ws := (@gm_ws S).

(* the column j of H after the orthogonalisation, the normalisation entry and the OLD rotations *)
Definition tail_H3 (w : gm_ws) (j : nat) (vnew0 : vec) : nat -> nat -> S :=
  let '(H1, vnew1) := mgs (g_v w) j (seq 0 (SS j)) (g_H w) vnew0 in
  rot_col (g_cs w) (g_sn w) j (seq 0 j) (updm H1 (SS j) j (norm_b vnew1)).

Lemma upd_neq {X} (m : nat -> X) i v k : k <> i -> upd m i v k = m k.
Proof. intro N. unfold upd. destruct (Nat.eqb k i) eqn:E; [apply Nat.eqb_eq in E; contradiction|reflexivity]. Qed.

Lemma arnoldi_tail_s (w : gm_ws) j vnew0 :
  let w' := fst (arnoldi_tail w j vnew0) in
  let dx := tail_H3 w j vnew0 j j in let dy := tail_H3 w j vnew0 (SS j) j in
  (g_cs w' j, g_sn w' j) = gen_rot dx dy /\
  (g_s w' j, g_s w' (SS j)) = app_rot (g_s w j) (g_s w (SS j)) (g_cs w' j) (g_sn w' j) /\
  (g_H w' j j, g_H w' (SS j) j) = app_rot dx dy (g_cs w' j) (g_sn w' j) /\
  (forall i, i <> j -> i <> SS j -> g_s w' i = g_s w i) /\
  snd (arnoldi_tail w j vnew0) = sabs (g_s w' (SS j)).
Proof.
  unfold arnoldi_tail, tail_H3.
  destruct (mgs (g_v w) j (seq 0 (SS j)) (g_H w) vnew0) as [H1 vnew1].
  set (H3 := rot_col (g_cs w) (g_sn w) j (seq 0 j) (updm H1 (SS j) j (norm_b vnew1))).
  destruct (gen_rot (H3 j j) (H3 (SS j) j)) as [c s] eqn:G. simpl.
  assert (N : j <> SS j) by lia.
  rewrite !upd_eq, (upd_neq _ (SS j) _ j N), !upd_eq.
  repeat split.
  - unfold updm. rewrite !Nat.eqb_refl. simpl.
    destruct (Nat.eqb j (SS j)) eqn:E; [apply Nat.eqb_eq in E; lia|]. simpl. reflexivity.
  - intros i N1 N2. rewrite !upd_neq by assumption. reflexivity.
Qed.

End Givens.

(* ================================================================== *)
(* (c) the residual estimate |s_{j+1}| never increases; (a') Arnoldi relation of one inner iteration *)
Section Inner.
Context {S : Scalar}.
Local Notation vec := (vec S).
Local Notation gm_ws := (@gm_ws S).
Hypothesis Sft : Sfield S.
Hypothesis Seqb : seqb_spec S.
Hypothesis Sreal : forall x : S, sadj x = x.
Add Field SFieldGI : Sft.
Let Srt : Sring S := F_R Sft.

(* one step: s_j^2 (old) = s_j'^2 + s_{j+1}^2 *)
Theorem arnoldi_tail_pythagoras (w : gm_ws) j vnew0 :
  let w' := fst (arnoldi_tail w j vnew0) in
  g_s w (SS j) = s0 -> unit_rot (g_cs w' j) (g_sn w' j) ->
  sq (g_s w' j) + sq (g_s w' (SS j)) = sq (g_s w j).
Proof.
  intros w' Z U. destruct (arnoldi_tail_s w j vnew0) as (_ & E & _). fold w' in E.
  pose proof (app_rot_isometry Sft Sreal (g_s w j) (g_s w (SS j)) _ _ U) as I.
  rewrite <- E in I. simpl in I. rewrite I, Z. unfold sq. ring.
Qed.

Hypothesis Ord : ordered S.

Theorem arnoldi_tail_estimate_decreases (w : gm_ws) j vnew0 :
  let w' := fst (arnoldi_tail w j vnew0) in
  g_s w (SS j) = s0 -> unit_rot (g_cs w' j) (g_sn w' j) ->
  ole (sq (g_s w' (SS j))) (sq (g_s w j)).
Proof.
  intros w' Z U. rewrite <- (arnoldi_tail_pythagoras w j vnew0 Z U). fold w'.
  replace (sq (g_s w' (SS j))) with (s0 + sq (g_s w' (SS j))) at 1 by ring.
  apply (ole_add Srt Ord); [apply (sq_nonneg Srt Ord)|apply (ole_refl Ord)].
Qed.

(* in an ordered field 1 + t^2 is never zero: the only assumption of gen_rot_unit that remains is the
   exactness of the square root at rot_arg dx dy *)
Lemma one_plus_sq_neq0 (t : S) : s1 + t * t <> s0.
Proof.
  assert (P1 : olt s0 (@s1 S)).
  { replace (@s1 S) with (@s1 S * s1) by ring. apply (sq_pos Srt Ord). exact (F_1_neq_0 Sft). }
  assert (P2 : olt (s0 + s0) (s1 + t * t)) by (apply (olt_ole_add Srt Ord); [exact P1|apply (sq_nonneg Srt Ord)]).
  intro E. rewrite E in P2. replace (@s0 S + s0) with (@s0 S) in P2 by ring.
  unfold olt in P2. rewrite (o_irrefl S Ord) in P2. discriminate.
Qed.
Lemma rot_arg_neq0 (dx dy : S) : rot_arg dx dy <> s0.
Proof. unfold rot_arg. destruct (sltb (sabs dx) (sabs dy)); apply one_plus_sq_neq0. Qed.

(* ---- along the inner loop ---- *)
Variable body : gm_ws -> nat -> gm_ws * S.
(* gm_body, fg_body and lg_body all are arnoldi_tail on a workspace with the same s (see below) *)
Hypothesis body_tail : forall w j, exists w0 vnew0, body w j = arnoldi_tail w0 j vnew0 /\ g_s w0 = g_s w.

(* the workspace after m passes of the inner loop started at j = 0 *)
Fixpoint gm_iter (m : nat) (w : gm_ws) : gm_ws :=
  match m with O => w | SS m' => fst (body (gm_iter m' w) m') end.

Lemma gm_inner_is_iter maxiter M eps fuel : forall w0 w j it, w = gm_iter j w0 ->
  let r := gm_inner body maxiter M eps fuel w j it in
  j < n_j r /\ n_ws r = gm_iter (n_j r) w0.
Proof.
  induction fuel as [|k IH]; intros w0 w j it E; simpl.
  - destruct (body w j) as [w' ir] eqn:B.
    assert (E' : w' = gm_iter (SS j) w0) by (simpl; rewrite <- E, B; reflexivity).
    destruct (Nat.leb maxiter (SS it) || Nat.leb M (SS j) || negb (sltb eps ir)); simpl; (split; [lia|exact E']).
  - destruct (body w j) as [w' ir] eqn:B.
    assert (E' : w' = gm_iter (SS j) w0) by (simpl; rewrite <- E, B; reflexivity).
    destruct (Nat.leb maxiter (SS it) || Nat.leb M (SS j) || negb (sltb eps ir)); simpl; [split; [lia|exact E']|].
    specialize (IH w0 w' (SS j) (SS it) E'). simpl in IH. destruct IH as (L & R). split; [lia|exact R].
Qed.

Lemma gm_iter_zero_tail w : (forall l, 0 < l -> g_s w l = s0) ->
  forall m l, m < l -> g_s (gm_iter m w) l = s0.
Proof.
  intros Z m. induction m as [|m IH]; intros l Hl; [apply Z; exact Hl|].
  simpl. destruct (body_tail (gm_iter m w) m) as (w0 & vnew0 & B & Es). rewrite B.
  destruct (arnoldi_tail_s w0 m vnew0) as (_ & _ & _ & F & _).
  rewrite F by lia. rewrite Es. apply IH. lia.
Qed.

(* THE MONOTONICITY THEOREM: after fill(s, 0); s[0] = norm_r the numbers |s_1|, |s_2|, ... the loop
   compares with eps satisfy |s_{i+1}|^2 <= |s_i|^2, as long as the stored rotations are unit *)
Theorem gm_estimate_monotone w m : (forall l, 0 < l -> g_s w l = s0) ->
  (forall i, i < m -> unit_rot (g_cs (gm_iter (SS i) w) i) (g_sn (gm_iter (SS i) w) i)) ->
  forall i, i < m ->
    snd (body (gm_iter i w) i) = sabs (g_s (gm_iter (SS i) w) (SS i)) /\
    sq (g_s (gm_iter (SS i) w) i) + sq (g_s (gm_iter (SS i) w) (SS i)) = sq (g_s (gm_iter i w) i) /\
    ole (sq (g_s (gm_iter (SS i) w) (SS i))) (sq (g_s (gm_iter i w) i)).
Proof.
  intros Z U i Hi. specialize (U i Hi). simpl in *.
  pose proof (gm_iter_zero_tail w Z i (SS i) (Nat.lt_succ_diag_r i)) as Zi.
  destruct (body_tail (gm_iter i w) i) as (w0 & vnew0 & B & Es). rewrite B in *.
  rewrite <- Es in *.
  destruct (arnoldi_tail_s w0 i vnew0) as (_ & _ & _ & _ & R).
  split; [exact R|]. split.
  - apply arnoldi_tail_pythagoras; assumption.
  - apply arnoldi_tail_estimate_decreases; assumption.
Qed.

(* consequently every estimate is bounded by the initial residual norm s_0 = norm_r *)
Corollary gm_estimate_le_initial w m : (forall l, 0 < l -> g_s w l = s0) ->
  (forall i, i < m -> unit_rot (g_cs (gm_iter (SS i) w) i) (g_sn (gm_iter (SS i) w) i)) ->
  ole (sq (g_s (gm_iter m w) m)) (sq (g_s w 0)).
Proof.
  intros Z. induction m as [|m IH]; intro U; [apply (ole_refl Ord)|].
  apply (ole_trans Ord _ (sq (g_s (gm_iter m w) m))).
  - apply (gm_estimate_monotone w (SS m) Z U m). lia.
  - apply IH. intros i Hi. apply U. lia.
Qed.

(* the same on the loop function of the model: whatever index n_j the inner loop of gmres.hpp stops at
   (iteration limit, restart length or convergence test), the estimate it holds is bounded by norm_r *)
Corollary gm_inner_estimate_le_initial maxiter M eps fuel w it :
  let r := gm_inner body maxiter M eps fuel w 0 it in
  (forall l, 0 < l -> g_s w l = s0) ->
  (forall i, i < n_j r -> unit_rot (g_cs (gm_iter (SS i) w) i) (g_sn (gm_iter (SS i) w) i)) ->
  0 < n_j r /\ ole (sq (g_s (n_ws r) (n_j r))) (sq (g_s w 0)).
Proof.
  intros r Z U.
  destruct (gm_inner_is_iter maxiter M eps fuel w w 0 it eq_refl) as (L & E). fold r in L, E.
  split; [exact L|]. rewrite E. apply gm_estimate_le_initial; assumption.
Qed.

End Inner.

(* ================================================================== *)
(* the three loop bodies are arnoldi_tail on a workspace with the same s; Arnoldi relation and
   propagation of orthonormality for one inner iteration *)
Section Bodies.
Context {S : Scalar}.
Local Notation vec := (vec S).
Local Notation gm_ws := (@gm_ws S).
Hypothesis Sft : Sfield S.
Hypothesis Seqb : seqb_spec S.
Hypothesis Sreal : forall x : S, sadj x = x.
Add Field SFieldGB : Sft.
Let Srt : Sring S := F_R Sft.
Variable n : nat.
Variables A P : vec -> vec.

Lemma gm_body_tail left : forall (w : gm_ws) j, exists w0 vnew0,
  gm_body A P left w j = arnoldi_tail w0 j vnew0 /\ g_s w0 = g_s w.
Proof.
  intros w j. unfold gm_body. destruct (pspmv left A P (g_v w j)) as [vnew0 T].
  eexists. eexists. split; reflexivity.
Qed.
Lemma fg_body_tail : forall (w : gm_ws) j, exists w0 vnew0,
  fg_body A P w j = arnoldi_tail w0 j vnew0 /\ g_s w0 = g_s w.
Proof. intros w j. unfold fg_body. eexists. eexists. split; reflexivity. Qed.
Lemma lg_body_tail left Mt K data outer : forall (w : gm_ws) j, exists w0 vnew0,
  lg_body A P left Mt K data outer w j = arnoldi_tail w0 j vnew0 /\ g_s w0 = g_s w.
Proof.
  intros w j. unfold lg_body.
  match goal with |- context [pspmv left A P ?z] => destruct (pspmv left A P z) as [vnew0 T] end.
  eexists. eexists. split; reflexivity.
Qed.

(* the values written into column j of H before the rotations, and the unnormalised new vector *)
Definition arn_H (w : gm_ws) j vnew0 := fst (mgs (g_v w) j (seq 0 (SS j)) (g_H w) vnew0).
Definition arn_w (w : gm_ws) j vnew0 := snd (mgs (g_v w) j (seq 0 (SS j)) (g_H w) vnew0).
Definition arn_h (w : gm_ws) j vnew0 := norm_b (arn_w w j vnew0).     (* H(j+1, j) *)

Lemma in_seq0 k m : In k (seq 0 m) <-> k < m.
Proof. rewrite in_seq. lia. Qed.

Lemma arnoldi_tail_v (w : gm_ws) j vnew0 :
  let w' := fst (arnoldi_tail w j vnew0) in
  g_v w' (SS j) = vscal (sinv (arn_h w j vnew0)) (arn_w w j vnew0) /\
  (forall k, k <> SS j -> g_v w' k = g_v w k) /\ g_z w' = g_z w.
Proof.
  unfold arnoldi_tail, arn_h, arn_w.
  destruct (mgs (g_v w) j (seq 0 (SS j)) (g_H w) vnew0) as [H1 vnew1]. simpl.
  match goal with |- context [gen_rot ?a ?b] => destruct (gen_rot a b) as [c s] end. simpl.
  rewrite upd_eq. repeat split.
  - unfold k_axpby. rewrite (is_zero_s0 Seqb). reflexivity.
  - intros k N. apply upd_neq, N.
Qed.

(* ARNOLDI RELATION of one inner iteration: the vector fed to the orthogonalisation is the
   combination of the new basis with the column the code stores (before rotating it) *)
Theorem arnoldi_tail_arnoldi (w : gm_ws) j vnew0 :
  length vnew0 = n -> (forall k, k <= j -> length (g_v w k) = n) ->
  arn_h w j vnew0 <> s0 ->
  let w' := fst (arnoldi_tail w j vnew0) in
  vnew0 = vadd (vscal (arn_h w j vnew0) (g_v w' (SS j)))
               (lsum n (seq 0 (SS j)) (fun k => vscal (arn_H w j vnew0 k j) (g_v w' k))).
Proof.
  intros L0 Lv Nh w'.
  destruct (arnoldi_tail_v w j vnew0) as (E1 & E2 & _). fold w' in E1, E2.
  assert (Lv' : forall k, In k (seq 0 (SS j)) -> length (g_v w k) = n) by (intros k Hk; apply Lv; apply in_seq0 in Hk; lia).
  pose proof (mgs_arnoldi Srt Seqb n (g_v w) j (seq 0 (SS j)) (g_H w) vnew0 (seq_NoDup _ _) L0 Lv') as R.
  cbv zeta in R. fold (arn_H w j vnew0) (arn_w w j vnew0) in R.
  assert (Lw : length (arn_w w j vnew0) = n) by (apply (mgs_len Srt Seqb); assumption).
  rewrite (lsum_ext n _ _ (fun k => vscal (arn_H w j vnew0 k j) (g_v w k))).
  2:{ intros k Hk. apply in_seq0 in Hk. rewrite E2 by lia. reflexivity. }
  rewrite E1. rewrite R at 1. f_equal.
  apply (vec_ext_n n); [exact Lw|auto using vscal_len|]. intros i Hi.
  rewrite !(nth_vscal_n n) by (auto using vscal_len). field. exact Nh.
Qed.

(* orthonormality propagates if the square root is exact at <w', w'> *)
Theorem arnoldi_tail_orthonormal (w : gm_ws) j vnew0 :
  length vnew0 = n -> (forall k, k <= j -> length (g_v w k) = n) ->
  (forall a b, a <= j -> b <= j -> rdot (g_v w a) (g_v w b) = if Nat.eqb a b then s1 else s0) ->
  arn_h w j vnew0 <> s0 ->
  arn_h w j vnew0 * arn_h w j vnew0 = rdot (arn_w w j vnew0) (arn_w w j vnew0) ->
  let w' := fst (arnoldi_tail w j vnew0) in
  forall a b, a <= SS j -> b <= SS j -> rdot (g_v w' a) (g_v w' b) = if Nat.eqb a b then s1 else s0.
Proof.
  intros L0 Lv ON Nh Ex w'.
  destruct (arnoldi_tail_v w j vnew0) as (E1 & E2 & _). fold w' in E1, E2.
  assert (Lv' : forall k, In k (seq 0 (SS j)) -> length (g_v w k) = n) by (intros k Hk; apply Lv; apply in_seq0 in Hk; lia).
  assert (ON' : forall a b, In a (seq 0 (SS j)) -> In b (seq 0 (SS j)) ->
                rdot (g_v w a) (g_v w b) = if Nat.eqb a b then s1 else s0).
  { intros a b Ha Hb. apply in_seq0 in Ha, Hb. apply ON; lia. }
  assert (O : forall k, k <= j -> rdot (arn_w w j vnew0) (g_v w k) = s0).
  { intros k Hk. apply (mgs_orthogonal Srt Seqb n (g_v w) j (seq 0 (SS j)) (g_H w) vnew0 (seq_NoDup _ _) L0 Lv' ON').
    apply in_seq0. lia. }
  assert (Onew : forall k, k <= j -> rdot (g_v w' (SS j)) (g_v w k) = s0).
  { intros k Hk. rewrite E1, (rdot_vscal_l Srt), (O k Hk). ring. }
  intros a b Ha Hb.
  destruct (Nat.eq_dec a (SS j)) as [->|Na]; destruct (Nat.eq_dec b (SS j)) as [->|Nb].
  - rewrite Nat.eqb_refl, E1, (rdot_vscal_l Srt), (rdot_vscal_r Srt Sreal), <- Ex. field. exact Nh.
  - rewrite (E2 b Nb). destruct (Nat.eqb (SS j) b) eqn:E; [apply Nat.eqb_eq in E; lia|]. apply Onew. lia.
  - rewrite (E2 a Na), (rdot_sym Srt Sreal). destruct (Nat.eqb a (SS j)) eqn:E; [apply Nat.eqb_eq in E; lia|]. apply Onew. lia.
  - rewrite (E2 a Na), (E2 b Nb). apply ON; lia.
Qed.

(* instances: GMRES (both sides) and FGMRES *)
Corollary gm_body_arnoldi left (w : gm_ws) j :
  let Kv := fst (pspmv left A P (g_v w j)) in
  length Kv = n -> (forall k, k <= j -> length (g_v w k) = n) -> arn_h w j Kv <> s0 ->
  let w' := fst (gm_body A P left w j) in
  Kv = vadd (vscal (arn_h w j Kv) (g_v w' (SS j)))
            (lsum n (seq 0 (SS j)) (fun k => vscal (arn_H w j Kv k j) (g_v w' k))).
Proof.
  intros Kv L0 Lv Nh. unfold gm_body. subst Kv.
  destruct (pspmv left A P (g_v w j)) as [vnew0 T]. cbn [fst] in *.
  exact (arnoldi_tail_arnoldi (mkGmWs (g_H w) (g_s w) (g_cs w) (g_sn w) T (g_v w) (g_z w)) j vnew0 L0 Lv Nh).
Qed.
Corollary fg_body_arnoldi (w : gm_ws) j :
  let Az := A (P (g_v w j)) in
  length Az = n -> (forall k, k <= j -> length (g_v w k) = n) -> arn_h w j Az <> s0 ->
  let w' := fst (fg_body A P w j) in
  Az = vadd (vscal (arn_h w j Az) (g_v w' (SS j)))
            (lsum n (seq 0 (SS j)) (fun k => vscal (arn_H w j Az k j) (g_v w' k)))
  /\ g_z w' j = P (g_v w j).
Proof.
  intros Az L0 Lv Nh. unfold fg_body. cbv zeta. fold Az. split.
  - exact (arnoldi_tail_arnoldi (mkGmWs (g_H w) (g_s w) (g_cs w) (g_sn w) (g_r w) (g_v w) (upd (g_z w) j (P (g_v w j)))) j Az L0 Lv Nh).
  - destruct (arnoldi_tail_v (mkGmWs (g_H w) (g_s w) (g_cs w) (g_sn w) (g_r w) (g_v w) (upd (g_z w) j (P (g_v w j)))) j Az)
      as (_ & _ & E3).
    rewrite E3. simpl. apply upd_eq.
Qed.

End Bodies.
