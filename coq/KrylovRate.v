(* KrylovRate.v -- property C01, last clause: "the stationary Richardson iteration converges at the rate
   of the cycle's contraction factor".  Ordered commutative ring (no square roots, no division).

   Setting: A, B : vec -> vec on vectors of length n, A linear; <x,y> = sum_{i<n} x_i y_i;
   energy e = <A e, e>;  the error propagation of one Richardson step with damping 1 is
   err_step e = e - B (A e) = (I - B A) e  (err_rich_step: for A u = f,
   u - rich_step A B 1 f x = err_step (u - x); B need NOT be linear for this).

   rich_rate      : energy (err_step e) <= delta^2 energy e for all e  ==>
                    energy (u - x_k) <= (delta^2)^k energy (u - x_0)   for the k-fold iteration
                    KrylovRef.rich_iter, and (richardson_rate) for the iterate RETURNED by the
                    workspace model Krylov.richardson after k_it iterations.
   rich_strict    : if the energy strictly decreases on every "live" error (live = not dead, dead
                    closed under err_step: e = 0, or residual A e = 0), the energy sequence is strictly
                    decreasing as long as the error is live:  e_k live ==> energy e_{k+1} < energy e_j, j <= k.
   energy_step    : for symmetric A:  energy (err_step e) - energy e = <A B g, B g> - 2 <g, B g>, g = A e
                    -- the quantity that C02 (AmgProofs10: J_g(B g) < 0) proves negative for the AMG cycle.
   Instantiation with the AMG cycle: KrylovRateAmg.v. *)
From Amgcl Require Import Scalar Vec Kernels KernelsProofs Krylov KrylovRef KrylovProofs AmgOrder.
From Coq Require Import Lia.
Local Open Scope S_scope.

Section Rate.
Context {S : Scalar}.
Local Notation vec := (vec S).
Local Notation SS := Datatypes.S.
Hypothesis Srt : Sring S.
Hypothesis Seqb : seqb_spec S.
Hypothesis Ord : ordered S.
Add Ring SRingRate : Srt.

Variable n : nat.
Variables A B : vec -> vec.
Hypothesis A_len : forall v, length v = n -> length (A v) = n.
Hypothesis B_len : forall v, length v = n -> length (B v) = n.
Hypothesis A_lin : linear_on n A.

(* <x, y> on the first n entries (= AmgProofs6.ip, by definition) *)
Definition ipn (x y : vec) : S := sumn (fun i => vget x i * vget y i) n.
Definition energy (e : vec) : S := ipn (A e) e.
(* (I - B A) e *)
Definition err_step (e : vec) : vec := vsub e (B (A e)).
Fixpoint spow (a : S) (k : nat) : S := match k with O => s1 | SS k' => a * spow a k' end.
Fixpoint err_iter (k : nat) (e : vec) : vec := match k with O => e | SS k' => err_step (err_iter k' e) end.

Lemma spow_sq (d : S) k : spow (d * d) k = spow d (2 * k).
Proof.
  induction k as [|k IH]; [reflexivity|].
  replace (2 * SS k)%nat with (SS (SS (2 * k))) by lia. simpl spow at 1. rewrite IH. simpl. ring.
Qed.

Lemma spow_nonneg (a : S) k : ole s0 a -> ole s0 (spow a k).
Proof.
  intro Ha. induction k as [|k IH]; simpl.
  - destruct (ole_cases Ord s0 (s1 * s1) (sq_nonneg Srt Ord s1)) as [H|H];
      replace (s1 * s1) with (@s1 S) in H by ring; [apply (olt_ole Ord), H|rewrite <- H; apply (ole_refl Ord)].
  - apply (mul_nonneg Srt Ord); assumption.
Qed.

(* ---------- vectors ---------- *)
(* a vector identity between vmap2 / map expressions, pointwise by ring (as KrylovProofs.vec_ring) *)
Ltac vring :=
  apply nth_error_ext; let i := fresh "i" in intro i;
  repeat (rewrite ?nth_error_vmap2, ?nth_error_vmap3, ?nth_error_map);
  repeat match goal with |- context [nth_error ?v i] => destruct (nth_error v i) end;
  simpl; try reflexivity; try (f_equal; ring).

Lemma vzero_len : length (@vzero S n) = n.
Proof. unfold vzero. apply repeat_length. Qed.

Lemma vsub_length (x y : vec) : length x = n -> length y = n -> length (vsub x y) = n.
Proof. intros Lx Ly. unfold vsub. change (@zipw S) with (@vmap2 S). rewrite vmap2_length. lia. Qed.

Lemma vsub_as_lin (x y : vec) : vsub x y = vmap2 (fun xi yi => xi + sopp s1 * yi) x y.
Proof. unfold vsub. change (@zipw S) with (@vmap2 S). vring. Qed.

Lemma A_vsub (x y : vec) : length x = n -> length y = n -> A (vsub x y) = vsub (A x) (A y).
Proof.
  intros Lx Ly. rewrite vsub_as_lin, (A_lin (sopp s1) x y Lx Ly). symmetry. apply vsub_as_lin.
Qed.

Lemma vget_vsub (x y : vec) i : length x = n -> length y = n -> (i < n)%nat ->
  vget (vsub x y) i = vget x i - vget y i.
Proof.
  intros Lx Ly Hi. unfold vsub. change (@zipw S) with (@vmap2 S).
  rewrite vget_vmap2 by lia. reflexivity.
Qed.

Lemma err_step_length e : length e = n -> length (err_step e) = n.
Proof. intro L. unfold err_step. apply vsub_length; auto. Qed.

Lemma err_iter_length k e : length e = n -> length (err_iter k e) = n.
Proof. intro L. induction k; simpl; [exact L|apply err_step_length; assumption]. Qed.

(* ---------- one Richardson step (damping 1) acts on the error as I - B A ---------- *)
Lemma rich_step_length f x : length f = n -> length x = n -> length (rich_step A B s1 f x) = n.
Proof.
  intros Lf Lx. unfold rich_step, vadd, vscal. change (@zipw S) with (@vmap2 S).
  rewrite vmap2_length, map_length, B_len; [lia|]. apply vsub_length; auto.
Qed.

Lemma rich_iter_length f k x : length f = n -> length x = n -> length (rich_iter A B s1 f k x) = n.
Proof. intros Lf Lx. induction k; simpl; [exact Lx|apply rich_step_length; assumption]. Qed.

Lemma err_rich_step u x : length u = n -> length x = n ->
  vsub u (rich_step A B s1 (A u) x) = err_step (vsub u x).
Proof.
  intros Lu Lx. unfold err_step, rich_step. rewrite (A_vsub u x Lu Lx).
  unfold vsub, vadd, vscal. change (@zipw S) with (@vmap2 S). vring.
Qed.

Lemma err_rich_iter u x0 k : length u = n -> length x0 = n ->
  vsub u (rich_iter A B s1 (A u) k x0) = err_iter k (vsub u x0).
Proof.
  intros Lu Lx. induction k as [|k IH]; simpl; [reflexivity|].
  rewrite err_rich_step by (auto; apply rich_iter_length; auto). rewrite IH. reflexivity.
Qed.

(* I - B A is linear when B is *)
Lemma err_step_lin : linear_on n B -> linear_on n err_step.
Proof.
  intros B_lin a x y Lx Ly. unfold err_step.
  assert (Lxy : length (vmap2 (fun xi yi => xi + a * yi) x y) = n) by (rewrite vmap2_length; lia).
  rewrite (A_lin a x y Lx Ly), (B_lin a (A x) (A y) (A_len x Lx) (A_len y Ly)).
  unfold vsub. change (@zipw S) with (@vmap2 S). vring.
Qed.

(* ---------- the rate ---------- *)
Section Contraction.
Variable d2 : S.                      (* delta^2 *)
Hypothesis d2_nonneg : ole s0 d2.
Hypothesis contr : forall e, length e = n -> ole (energy (err_step e)) (d2 * energy e).

Lemma err_iter_rate k e : length e = n -> ole (energy (err_iter k e)) (spow d2 k * energy e).
Proof.
  intro L. induction k as [|k IH]; simpl.
  - replace (s1 * energy e) with (energy e) by ring. apply (ole_refl Ord).
  - apply (ole_trans Ord _ (d2 * energy (err_iter k e))); [apply contr, err_iter_length, L|].
    replace (d2 * spow d2 k * energy e) with (spow d2 k * energy e * d2) by ring.
    replace (d2 * energy (err_iter k e)) with (energy (err_iter k e) * d2) by ring.
    apply (ole_mul_nonneg Srt Ord); assumption.
Qed.
End Contraction.

(* energy of the error after k iterations <= delta^(2k) * initial energy *)
Theorem rich_rate (delta : S) u x0 k : length u = n -> length x0 = n ->
  (forall e, length e = n -> ole (energy (err_step e)) (delta * delta * energy e)) ->
  ole (energy (vsub u (rich_iter A B s1 (A u) k x0))) (spow delta (2 * k) * energy (vsub u x0)).
Proof.
  intros Lu Lx H. rewrite err_rich_iter by assumption. rewrite <- spow_sq.
  apply (err_iter_rate (delta * delta) (sq_nonneg Srt Ord delta) H). apply vsub_length; assumption.
Qed.

(* ---------- strict decrease until the error is dead ---------- *)
Section Strict.
Variable dead : vec -> Prop.
Hypothesis dead_step : forall e, length e = n -> dead e -> dead (err_step e).
Hypothesis sdec : forall e, length e = n -> ~ dead e -> olt (energy (err_step e)) (energy e).

Lemma dead_iter k e : length e = n -> dead e -> dead (err_iter k e).
Proof. intros L H. induction k; simpl; [exact H|apply dead_step; [apply err_iter_length, L|assumption]]. Qed.

Lemma err_iter_add j m e : err_iter (j + m) e = err_iter m (err_iter j e).
Proof. induction m as [|m IH]; [rewrite Nat.add_0_r; reflexivity|]. rewrite Nat.add_succ_r. simpl. rewrite IH. reflexivity. Qed.

Lemma live_before j k e : length e = n -> (j <= k)%nat -> ~ dead (err_iter k e) -> ~ dead (err_iter j e).
Proof.
  intros L Hjk Hk Hj. apply Hk. replace k with (j + (k - j))%nat by lia. rewrite err_iter_add.
  apply dead_iter; [apply err_iter_length, L|exact Hj].
Qed.

Lemma err_iter_strict e k : length e = n -> ~ dead (err_iter k e) ->
  forall j, (j <= k)%nat -> olt (energy (err_iter (SS k) e)) (energy (err_iter j e)).
Proof.
  intros L Hk j Hj. remember (k - j)%nat as m eqn:Em. revert k j Hk Hj Em.
  induction m as [|m IH]; intros k j Hk Hj Em.
  - assert (j = k) by lia. subst j. simpl. apply sdec; [apply err_iter_length, L|exact Hk].
  - destruct k as [|k]; [lia|].
    apply (olt_trans Ord _ (energy (err_iter (SS k) e))).
    + simpl. apply sdec; [apply (err_iter_length (SS k)), L|exact Hk].
    + apply IH; [|lia|lia]. apply (live_before k (SS k) e L); [lia|exact Hk].
Qed.
End Strict.

Theorem rich_strict (dead : vec -> Prop) u x0 :
  length u = n -> length x0 = n ->
  (forall e, length e = n -> dead e -> dead (err_step e)) ->
  (forall e, length e = n -> ~ dead e -> olt (energy (err_step e)) (energy e)) ->
  forall k, ~ dead (vsub u (rich_iter A B s1 (A u) k x0)) ->
  forall j, (j <= k)%nat ->
    olt (energy (vsub u (rich_iter A B s1 (A u) (SS k) x0))) (energy (vsub u (rich_iter A B s1 (A u) j x0))).
Proof.
  intros Lu Lx Hd Hs k Hk j Hj. rewrite !err_rich_iter in * by assumption.
  apply (err_iter_strict dead Hd Hs); auto. apply vsub_length; assumption.
Qed.

(* the two natural notions of "the error is 0": e = 0 and A e = 0 (zero residual); both are
   closed under err_step when B 0 = 0 *)
Hypothesis B_zero : B (vzero n) = vzero n.

Lemma A_zero : A (vzero n) = vzero n.
Proof.
  assert (Lz : length (vzero n) = n) by apply vzero_len.
  assert (E : @vzero S n = vsub (vzero n) (vzero n)).
  { unfold vsub, vzero. change (@zipw S) with (@vmap2 S). apply nth_error_ext. intro i.
    rewrite nth_error_vmap2. destruct (nth_error (repeat s0 n) i) eqn:E; [|reflexivity].
    apply nth_error_In, repeat_spec in E. subst. simpl. f_equal. ring. }
  rewrite E at 1. rewrite (A_vsub _ _ Lz Lz).
  apply (nth_ext _ _ s0 s0); [rewrite vsub_length, vzero_len; auto|].
  rewrite vsub_length by auto. intros i Hi.
  change (vget (vsub (A (vzero n)) (A (vzero n))) i = vget (vzero n) i).
  rewrite vget_vsub by auto. unfold vget at 3, vzero. rewrite nth_repeat. ring.
Qed.

Lemma vsub_zero_r (e : vec) : length e = n -> vsub e (vzero n) = e.
Proof.
  intro L. apply (nth_ext _ _ s0 s0); [rewrite vsub_length; auto; apply vzero_len|].
  rewrite vsub_length by (auto; apply vzero_len). intros i Hi.
  change (vget (vsub e (vzero n)) i = vget e i). rewrite vget_vsub by (auto; apply vzero_len).
  unfold vget at 2, vzero. rewrite nth_repeat. ring.
Qed.

Lemma dead_zero_step (e : vec) : length e = n -> e = vzero n -> err_step e = vzero n.
Proof. intros L ->. unfold err_step. rewrite A_zero, B_zero. apply vsub_zero_r, vzero_len. Qed.

Lemma dead_res_step e : length e = n -> A e = vzero n -> A (err_step e) = vzero n.
Proof. intros L H. unfold err_step. rewrite H, B_zero, vsub_zero_r by exact L. exact H. Qed.

(* ---------- symmetric A: the energy change of one step is J_g(B g), g = A e ---------- *)
Hypothesis A_sym : forall x y, length x = n -> length y = n -> ipn (A x) y = ipn x (A y).

Lemma ipn_comm x y : ipn x y = ipn y x.
Proof. unfold ipn. apply sumn_ext. intros; ring. Qed.

Lemma ipn_sub_l x y z : length x = n -> length y = n -> ipn (vsub x y) z = ipn x z - ipn y z.
Proof.
  intros Lx Ly. unfold ipn.
  rewrite (sumn_ext _ (fun i => vget x i * vget z i + sopp s1 * (vget y i * vget z i))).
  - rewrite (sumn_add Srt), (sumn_scal Srt). ring.
  - intros i Hi. rewrite vget_vsub by assumption. ring.
Qed.

Lemma ipn_sub_r x y z : length y = n -> length z = n -> ipn x (vsub y z) = ipn x y - ipn x z.
Proof. intros Ly Lz. rewrite ipn_comm, ipn_sub_l by assumption. rewrite (ipn_comm y x), (ipn_comm z x). reflexivity. Qed.

Definition Jform (g : vec) : S := ipn (A (B g)) (B g) - (s1 + s1) * ipn g (B g).

Lemma energy_step e : length e = n -> energy (err_step e) = energy e + Jform (A e).
Proof.
  intro L. unfold energy, err_step, Jform.
  assert (Lg : length (A e) = n) by auto.
  assert (Lp : length (B (A e)) = n) by auto.
  rewrite (A_vsub e (B (A e)) L Lp).
  rewrite ipn_sub_l by auto. rewrite !ipn_sub_r by auto.
  rewrite (A_sym (B (A e)) e Lp L), (ipn_comm (B (A e)) (A e)). ring.
Qed.

(* C02's form of strictness (J_g(B g) < 0 for g <> 0) gives strict energy decrease on non-zero residuals *)
Lemma sdec_of_Jform : (forall g, length g = n -> g <> vzero n -> olt (Jform g) s0) ->
  forall e, length e = n -> ~ (A e = vzero n) -> olt (energy (err_step e)) (energy e).
Proof.
  intros HJ e L Hne. rewrite (energy_step e L).
  pose proof (olt_add_r Ord (Jform (A e)) s0 (energy e) (HJ (A e) (A_len e L) Hne)) as H.
  replace (Jform (A e) + energy e) with (energy e + Jform (A e)) in H by ring.
  replace (s0 + energy e) with (energy e) in H by ring. exact H.
Qed.

Lemma dec_of_Jform : (forall g, length g = n -> ole (Jform g) s0) ->
  forall e, length e = n -> ole (energy (err_step e)) (energy e).
Proof.
  intros HJ e L. rewrite (energy_step e L).
  pose proof (ole_add_r Ord (Jform (A e)) s0 (energy e) (HJ (A e) (A_len e L))) as H.
  replace (Jform (A e) + energy e) with (energy e + Jform (A e)) in H by ring.
  replace (s0 + energy e) with (energy e) in H by ring. exact H.
Qed.

Theorem rich_strict_residual u x0 : length u = n -> length x0 = n ->
  (forall g, length g = n -> g <> vzero n -> olt (Jform g) s0) ->
  forall k, A (vsub u (rich_iter A B s1 (A u) k x0)) <> vzero n ->
  forall j, (j <= k)%nat ->
    olt (energy (vsub u (rich_iter A B s1 (A u) (SS k) x0))) (energy (vsub u (rich_iter A B s1 (A u) j x0))).
Proof.
  intros Lu Lx HJ. apply (rich_strict (fun e => A e = vzero n) u x0 Lu Lx dead_res_step (sdec_of_Jform HJ)).
Qed.

(* ---------- the workspace model Krylov.richardson (damping 1) ---------- *)
Theorem richardson_rate (delta : S) prm u x0 junk nr r w :
  length u = n -> length x0 = n -> p_damping prm = s1 ->
  k_prologue norm_a prm (A u) = Go nr ->
  richardson A B prm (A u) x0 junk = (KOk r, w) ->
  (forall e, length e = n -> ole (energy (err_step e)) (delta * delta * energy e)) ->
  ole (energy (vsub u (k_x r))) (spow delta (2 * k_it r) * energy (vsub u x0)).
Proof.
  intros Lu Lx Hd Hp Hr Hc.
  rewrite (richardson_is_kfold Srt Seqb n A B A_len B_len prm (A u) x0 junk nr r w (A_len u Lu) Lx Hp Hr), Hd.
  apply rich_rate; assumption.
Qed.

Theorem richardson_strict prm u x0 junk nr r w :
  length u = n -> length x0 = n -> p_damping prm = s1 ->
  k_prologue norm_a prm (A u) = Go nr ->
  richardson A B prm (A u) x0 junk = (KOk r, w) ->
  (forall g, length g = n -> g <> vzero n -> olt (Jform g) s0) ->
  (* the residual before the last iteration was not zero (the loop only iterates on sltb eps |res|) *)
  forall k, k_it r = SS k -> A (vsub u (rich_iter A B s1 (A u) k x0)) <> vzero n ->
  olt (energy (vsub u (k_x r))) (energy (vsub u x0)).
Proof.
  intros Lu Lx Hd Hp Hr HJ k Hk Hne.
  rewrite (richardson_is_kfold Srt Seqb n A B A_len B_len prm (A u) x0 junk nr r w (A_len u Lu) Lx Hp Hr), Hd, Hk.
  apply (rich_strict_residual u x0 Lu Lx HJ k Hne 0%nat). lia.
Qed.

End Rate.
