(* placeholder, replaced below *)
From Amgcl Require Import Scalar Vec Crs Kernels Dist.
Theorem C11_placeholder : True. Proof. exact I. Qed.
