(* Properties_C11.v -- C11: distributed matrix algebra equals serial algebra for every
   contiguous partition.  Statements only; proofs live in DistProofs.v.

   Model (Dist.v): a world is a list indexed by rank; a contiguous partition is the list of
   per-rank sizes, ZEROS ALLOWED (ranks that own nothing); [split A rparts cparts] is what
   the distributed_matrix constructor builds on every rank (local part with local column
   numbers, remote part with global ones); [dm_pattern] is the communication pattern as a
   pure function of all ranks' remote-column sets; [exchange] is the ghost exchange
   (gather at the owner, scatter at the receiver in neighbour order); [allreduce_sum]
   returns the same value on every rank.

   TRUSTED, NOT PROVED: that the MPI runtime realises these pure functions for the collectives
   (Allgather, Alltoall, Allreduce) and for the point-to-point exchanges other than the ghost
   exchange of mul/residual; progress and absence of deadlock.  Independence of the message
   ARRIVAL ORDER: proved for the ghost exchange in the message-passing model DistMsg.v
   (C11_any_arrival_order_deterministic, C11_ghost_exchange_any_arrival_order, trusting MPI's
   non-overtaking rule); for every other exchange (transpose, product, remote_rows, constructor)
   the request discipline that the theorem needs is checked on the real call sequence by the PMPI
   shim in every mpirun correspondence run.

   "any S": holds for every Scalar record (floats with NaN/Inf included);
   "ring": for every commutative ring with decidable equality, closed at Qc. *)
From Coq Require Import Sorted.
From Coq Require Import Permutation.
From Amgcl Require Import Scalar QcInst Vec Crs Kernels KernelsProofs MatOps MatOpsProofs Cheby Dist DistProofs DistProofsB DistProofsT DistProofsP DistProofsG DistMsg DistMsgProofs.
Local Open Scope nat_scope.

(* ------------------------------------------------------------------ *)
(* C11-A3: the renumbering map and the mutual consistency of the patterns (no scalars involved) *)

(* idx = [index_of _ (rem_cols M)] is a bijection from the set of distinct remote columns of
   the rank onto 0..recv_count-1, in increasing column order (as std::sort/std::unique and
   the loop at distributed_matrix.hpp:115-127 produce it); the renumbered remote matrix is
   well formed with recv_count columns. *)
Theorem C11_renumbering_is_bijection (S : Scalar) (M : rank_mat S) :
  let rc := rem_cols M in
  (forall c, In c rc <-> exists rw e, In rw (rows (rm_rem M)) /\ In e rw /\ fst e = c) /\
  NoDup rc /\
  (forall c, In c rc -> index_of c rc < length rc /\ nth (index_of c rc) rc 0 = c) /\
  (forall i, i < length rc -> index_of (nth i rc 0) rc = i) /\
  (forall c c', In c rc -> In c' rc -> c < c' -> index_of c rc < index_of c' rc) /\
  wf (renumber rc (rm_rem M)) = true.
Proof. exact (renumbering_is_bijection S M). Qed.
Print Assumptions C11_renumbering_is_bijection.

(* for every column partition (empty ranks included) and every world of sorted, in-range
   remote column lists: (1) what rank q sends to rank d is exactly the slice d expects from
   q -- same columns, same order -- in q's local numbering; (2) every column of that slice
   is one of d's remote columns and lies in q's own range (valid gather index);
   (3) rank d's receive buffer, neighbour by neighbour, is its idx-ordered column list:
   every remote column is received exactly once. *)
Theorem C11_patterns_mutually_consistent (cparts : list nat) (rcs : list (list nat)) :
  length rcs = length cparts ->
  (forall r, r < length cparts -> rc_ok cparts (nth r rcs [])) ->
  let pats := comm_pattern cparts rcs in
  forall q d, q < length cparts -> d < length cparts ->
    nth d (cp_send (nth q pats dflt_cpat)) []
      = map (fun c => c - pbeg cparts q) (nth q (cp_recv (nth d pats dflt_cpat)) []) /\
    (forall c, In c (nth q (cp_recv (nth d pats dflt_cpat)) []) ->
       In c (cp_rc (nth d pats dflt_cpat)) /\ pbeg cparts q <= c < pbeg cparts q + psize cparts q) /\
    concat (cp_recv (nth d pats dflt_cpat)) = cp_rc (nth d pats dflt_cpat).
Proof. exact (patterns_mutually_consistent cparts rcs). Qed.
Print Assumptions C11_patterns_mutually_consistent.

(* the ghost exchange delivers exactly x[global column] for every remote column, in idx
   order, on every rank (any S: no arithmetic is involved) *)
Theorem C11_ghost_exchange_delivers (S : Scalar) (cparts : list nat) (rcs : list (list nat)) (x : vec S) r :
  length rcs = length cparts ->
  (forall r, r < length cparts -> rc_ok cparts (nth r rcs [])) ->
  r < length cparts ->
  exchange (comm_pattern cparts rcs) (chunks cparts x) r = map (fun c => vget x c) (nth r rcs []).
Proof. intros Hl Hok Hr. exact (exchange_spec cparts rcs Hl Hok x r Hr). Qed.
Print Assumptions C11_ghost_exchange_delivers.

(* ------------------------------------------------------------------ *)
(* C11-A2, first half (any S): collective results are identical on all ranks *)
Theorem C11_inner_product_identical_on_all_ranks (S : Scalar) (xs ys : list (vec S)) :
  dist_inner_product xs ys =
  repeat (vsum (map2 inner_product_serial xs ys)) (length (map2 inner_product_serial xs ys)).
Proof. exact (dist_inner_product_same_everywhere xs ys). Qed.
Print Assumptions C11_inner_product_identical_on_all_ranks.

Theorem C11_global_sizes_identical_on_all_ranks (S : Scalar) (D : dmat S) i j d :
  i < length (dist_glob_sizes D) -> j < length (dist_glob_sizes D) ->
  nth i (dist_glob_sizes D) d = nth j (dist_glob_sizes D) d.
Proof. exact (dist_glob_sizes_same_everywhere D i j d). Qed.
Print Assumptions C11_global_sizes_identical_on_all_ranks.

(* ------------------------------------------------------------------ *)
(* C11-B (part): scale and sort_rows, any S *)

(* mpi::scale = the constructor applied to the serially scaled matrix, for every partition,
   storage order included *)
Theorem C11_scale_every_partition (S : Scalar) (A : crs S) (rparts cparts : list nat) (s : S) :
  dist_scale (split A rparts cparts) s = split (mscale A s) rparts cparts.
Proof. exact (dist_scale_split A rparts cparts s). Qed.
Print Assumptions C11_scale_every_partition.

(* mpi::sort_rows: on every rank every local and remote row becomes sorted by column and stays
   a permutation of itself (the operator is unchanged) *)
Theorem C11_sort_rows_every_rank (S : Scalar) (D : dmat S) :
  dm_cparts (dist_sort_rows D) = dm_cparts D /\
  length (dm_ranks (dist_sort_rows D)) = length (dm_ranks D) /\
  forall r, r < length (dm_ranks D) ->
    let M := nth r (dm_ranks D) dflt_rank in
    let M' := nth r (dm_ranks (dist_sort_rows D)) dflt_rank in
    ncols (rm_loc M') = ncols (rm_loc M) /\ ncols (rm_rem M') = ncols (rm_rem M) /\
    Forall2 (fun a b => Permutation a b /\ sorted_weak a = true) (rows (rm_loc M')) (rows (rm_loc M)) /\
    Forall2 (fun a b => Permutation a b /\ sorted_weak a = true) (rows (rm_rem M')) (rows (rm_rem M)).
Proof. exact (dist_sort_rows_spec D). Qed.
Print Assumptions C11_sort_rows_every_rank.

(* mpi::transpose (rank-by-rank model Dist.dist_transpose: local transposes, transposed remote
   rows shipped to the owners of the columns and appended in send-slot order; compared in STORAGE
   ORDER with the implementation by bin/check C11): for every row and column partition the
   assembled result has, row by row, exactly the entries of the serial transpose of the assembled
   matrix (a permutation: the block of the owning rank comes first) -- any scalar type, duplicate
   entries and unsorted rows included. *)
Theorem C11_transpose_every_partition (S : Scalar) (A : crs S) (rparts cparts : list nat) :
  length rparts = length cparts -> psum rparts = nrows A -> psum cparts = ncols A ->
  let T := assemble (dist_transpose (split A rparts cparts) rparts) in
  ncols T = nrows A /\
  forall j, j < ncols A -> Permutation (nth j (rows T) []) (nth j (rows (transpose A)) []).
Proof. intros H1 H2 H3. exact (dist_transpose_assembled_perm A rparts cparts H1 H2 H3). Qed.
Print Assumptions C11_transpose_every_partition.

(* FULL STATEMENTS (unproved, covered by the MPI correspondence runs only):
   remote_rows as a message exchange (the model Dist.dist_remote_rows directly reads the owner's row; compared
     with the implementation, and used inside the product model) ;
   copy between backends preserves local/remote parts and the pattern;
   power-method spectral radius estimate (random start vector, square roots: only rank-consistency is checked). *)

(* ------------------------------------------------------------------ *)
Section Ring.
Variable S : Scalar.
Hypothesis Srt : Sring S.
Hypothesis Seqb : seqb_spec S.

(* C11-A1: for EVERY contiguous row partition and column partition (rectangular matrices,
   empty ranks included): concatenating the per-rank results of the distributed product /
   residual gives the serial kernel on the assembled matrix and vectors. *)
Theorem C11_spmv_every_partition (A : crs S) (rparts cparts : list nat) alpha (x : vec S) beta (y : vec S) :
  length rparts = length cparts -> psum rparts = nrows A -> psum cparts = ncols A ->
  wf A = true -> length y = nrows A ->
  concat (dist_spmv alpha (split A rparts cparts) (chunks cparts x) beta (chunks rparts y))
  = spmv alpha A x beta y.
Proof. intros H1 H2 H3 H4 H5. exact (dist_spmv_assembled Srt Seqb A rparts cparts H1 H2 H3 H4 alpha x beta y H5). Qed.

Theorem C11_residual_every_partition (A : crs S) (rparts cparts : list nat) (f x res : vec S) :
  length rparts = length cparts -> psum rparts = nrows A -> psum cparts = ncols A ->
  wf A = true -> length f = nrows A -> length res = nrows A ->
  concat (dist_residual (chunks rparts f) (split A rparts cparts) (chunks cparts x) (chunks rparts res))
  = residual f A x res.
Proof. intros H1 H2 H3 H4 H5 H6. exact (dist_residual_assembled Srt Seqb A rparts cparts H1 H2 H3 H4 f x res H5 H6). Qed.

(* C11-B: mpi::product (rank-by-rank model Dist.dist_product: local rows of B and the rows of B obtained
   through remote_rows, two marker accumulators for local / remote columns; compared in STORAGE ORDER with
   the implementation by bin/check C11) assembles to the serial product of the assembled matrices: same
   dense entries (duplicates add up), for every compatible row / inner / column partition. *)
Theorem C11_product_every_partition (A B : crs S) (rpA cpA cpB : list nat) :
  length rpA = length cpA -> length cpA = length cpB -> psum rpA = nrows A -> psum cpA = nrows B ->
  let C := assemble (dist_product (split A rpA cpA) (split B cpA cpB)) in
  ncols C = psum cpB /\
  length (rows C) = length (rows (spgemm_saad A B false)) /\
  forall i j, mget C i j = mget (spgemm_saad A B false) i j.
Proof.
  intros H1 H2 H3 H4. split; [|split].
  - exact (proj1 (dist_product_assembled Srt A B rpA cpA cpB H1 H2 H3 H4)).
  - exact (dist_product_rows Srt A B rpA cpA cpB H1 H2 H3 H4).
  - exact (dist_product_dense Srt A B rpA cpA cpB H1 H2 H3 H4).
Qed.

(* C11-A2, second half: the distributed inner product is the serial inner product of the
   assembled vectors, on every rank -- for arbitrary per-rank pieces ... *)
Theorem C11_inner_product_equals_serial (xs ys : list (vec S)) :
  Forall2 (fun x y => length x = length y) xs ys ->
  dist_inner_product xs ys = repeat (inner_product_serial (concat xs) (concat ys)) (length xs).
Proof. exact (dist_inner_product_serial Srt xs ys). Qed.

(* ... and hence for every contiguous partition of a global pair of vectors *)
Theorem C11_inner_product_every_partition (parts : list nat) (x y : vec S) :
  length x = length y -> length x <= psum parts ->
  dist_inner_product (chunks parts x) (chunks parts y) = repeat (inner_product_serial x y) (length parts).
Proof. exact (dist_inner_product_partition Srt parts x y). Qed.
End Ring.

(* closed instances at the exact rationals: no hypotheses left *)
Theorem C11_spmv_every_partition_Qc (A : crs QcS) (rparts cparts : list nat) alpha (x : vec QcS) beta (y : vec QcS) :
  length rparts = length cparts -> psum rparts = nrows A -> psum cparts = ncols A ->
  wf A = true -> length y = nrows A ->
  concat (dist_spmv alpha (split A rparts cparts) (chunks cparts x) beta (chunks rparts y))
  = spmv alpha A x beta y.
Proof. exact (C11_spmv_every_partition QcS QcS_ring QcS_eqb A rparts cparts alpha x beta y). Qed.
Print Assumptions C11_spmv_every_partition_Qc.

Theorem C11_residual_every_partition_Qc (A : crs QcS) (rparts cparts : list nat) (f x res : vec QcS) :
  length rparts = length cparts -> psum rparts = nrows A -> psum cparts = ncols A ->
  wf A = true -> length f = nrows A -> length res = nrows A ->
  concat (dist_residual (chunks rparts f) (split A rparts cparts) (chunks cparts x) (chunks rparts res))
  = residual f A x res.
Proof. exact (C11_residual_every_partition QcS QcS_ring QcS_eqb A rparts cparts f x res). Qed.
Print Assumptions C11_residual_every_partition_Qc.

Theorem C11_product_every_partition_Qc (A B : crs QcS) (rpA cpA cpB : list nat) :
  length rpA = length cpA -> length cpA = length cpB -> psum rpA = nrows A -> psum cpA = nrows B ->
  forall i j, mget (assemble (dist_product (split A rpA cpA) (split B cpA cpB))) i j = mget (spgemm_saad A B false) i j.
Proof. intros H1 H2 H3 H4. exact (proj2 (proj2 (C11_product_every_partition QcS QcS_ring A B rpA cpA cpB H1 H2 H3 H4))). Qed.
Print Assumptions C11_product_every_partition_Qc.

Theorem C11_inner_product_every_partition_Qc (parts : list nat) (x y : vec QcS) :
  length x = length y -> length x <= psum parts ->
  dist_inner_product (chunks parts x) (chunks parts y) = repeat (inner_product_serial x y) (length parts).
Proof. exact (C11_inner_product_every_partition QcS QcS_ring parts x y). Qed.
Print Assumptions C11_inner_product_every_partition_Qc.

(* ------------------------------------------------------------------ *)
(* Collective scalar: the Gershgorin spectral-radius estimate (spectral_radius<scale>(A, 0),
   distributed_matrix.hpp:1159-1190,1307 after the /repo fixes ed6ca09 = Allreduce(MAX) and 18c5201 = `dia`
   reset for every row) is IDENTICAL ON ALL RANKS AND EQUAL TO THE SERIAL VALUE (Cheby.gershgorin = the
   serial kernel backend/builtin.hpp:790-817 on the assembled matrix): for every matrix, both values of
   `scale` (rows without a stored diagonal entry, duplicate and unsorted entries included), every contiguous
   partition [parts] of the rows (= of the columns; empty ranks included) and every assignment [lenss] of
   contiguous row chunks to the OpenMP threads of every rank (threads without rows included).
   Hypotheses: operator< is a strict total order (std::max), + is a commutative monoid (ring laws).
   (No well-formedness of A is needed: an entry whose column is outside the rank's range is a remote
   entry and is never the diagonal of a local row.) *)
Theorem C11_gershgorin_every_partition (S : Scalar) :
  (forall a : S, sltb a a = false) ->
  (forall a b c : S, sltb a b = true -> sltb b c = true -> sltb a c = true) ->
  (forall a b : S, sltb a b = false -> sltb b a = false -> a = b) ->
  Sring S ->
  forall (scale : bool) (lenss : list (list nat)) (A : crs S) (parts : list nat),
  psum parts = nrows A ->
  (forall r, r < length parts -> psize parts r <= psum (nth r lenss [])) ->
  dist_gershgorin_thr scale lenss (split A parts parts) = repeat (gershgorin scale A) (length parts).
Proof. exact (@dist_gershgorin_thr_split S). Qed.
Print Assumptions C11_gershgorin_every_partition.

(* one thread per rank (the configuration of the MPI correspondence runs with OMP_NUM_THREADS=1) *)
Theorem C11_gershgorin_every_partition_one_thread (S : Scalar) :
  (forall a : S, sltb a a = false) ->
  (forall a b c : S, sltb a b = true -> sltb b c = true -> sltb a c = true) ->
  (forall a b : S, sltb a b = false -> sltb b a = false -> a = b) ->
  Sring S ->
  forall (scale : bool) (A : crs S) (parts : list nat),
  psum parts = nrows A ->
  dist_gershgorin scale (split A parts parts) = repeat (gershgorin scale A) (length parts).
Proof. exact (@dist_gershgorin_split S). Qed.
Print Assumptions C11_gershgorin_every_partition_one_thread.

Theorem C11_gershgorin_every_partition_Qc (scale : bool) (lenss : list (list nat)) (A : crs QcS) (parts : list nat) :
  psum parts = nrows A ->
  (forall r, r < length parts -> psize parts r <= psum (nth r lenss [])) ->
  dist_gershgorin_thr scale lenss (split A parts parts) = repeat (gershgorin scale A) (length parts).
Proof. exact (dist_gershgorin_thr_split_Qc scale lenss A parts). Qed.
Print Assumptions C11_gershgorin_every_partition_Qc.

Theorem C11_gershgorin_every_partition_one_thread_Qc (scale : bool) (A : crs QcS) (parts : list nat) :
  psum parts = nrows A ->
  dist_gershgorin scale (split A parts parts) = repeat (gershgorin scale A) (length parts).
Proof. exact (dist_gershgorin_split_Qc scale A parts). Qed.
Print Assumptions C11_gershgorin_every_partition_one_thread_Qc.

(* Regression examples: what the code computed BEFORE the two fixes (Dist.old_dist_gershgorin; former
   finding F-C11-gershgorin-rank-local, status fixed).
   (1) no reduction: A = [[1]] on two ranks, partition [1;0]: the ranks reported 1 and 0.
   (2) `dia` carried from row to row: A = [[1/2, .]; [1, .]] (row 1 has no diagonal entry), scale = true, one
       rank: the old code scaled row 1 by the diagonal 1/2 of row 0 and reported max(1, 1*2) = 2; the serial and
       the repaired distributed value is max(1, 1) = 1 for every partition. *)
Definition vec_eqb {S : Scalar} (a b : vec S) : bool :=
  Nat.eqb (length a) (length b) && forallb (fun p => seqb (fst p) (snd p)) (combine a b).

Example C11_old_gershgorin_rank_local :
  let A : crs QcS := mkCrs 1 [[(0, qc 1 1)]] in
  vec_eqb (old_dist_gershgorin false (split A [1; 0] [1; 0])) [qc 1 1; qc 0 1] = true /\
  vec_eqb (dist_gershgorin false (split A [1; 0] [1; 0])) [qc 1 1; qc 1 1] = true /\
  vec_eqb [gershgorin false A] [qc 1 1] = true.
Proof. vm_compute. repeat split; reflexivity. Qed.

Example C11_old_gershgorin_stale_dia :
  let A : crs QcS := mkCrs 2 [[(0, qc 1 2)]; [(0, qc 1 1)]] in
  vec_eqb (old_dist_gershgorin true (split A [2] [2])) [qc 2 1] = true /\
  vec_eqb (dist_gershgorin true (split A [2] [2])) [qc 1 1] = true /\
  vec_eqb (dist_gershgorin true (split A [1; 1] [1; 1])) [qc 1 1; qc 1 1] = true /\
  vec_eqb [gershgorin true A] [qc 1 1] = true.
Proof. vm_compute. repeat split; reflexivity. Qed.

(* ------------------------------------------------------------------ *)
(* "for any message arrival order the MPI runtime produces" -- the message-passing model DistMsg.v.
   A rank's behaviour is its trace of MPI_Isend / MPI_Irecv / completion calls (what harness/pmpi_trace.hpp
   records through the PMPI interface) plus the writes to its send buffers.  The runtime's freedom: a pending
   send reads its buffer at ANY point up to its completion call (or ever after, if the program never completes
   it) [cap]; of two simultaneously pending receives into the same buffer either may land last [clob].
   TRUSTED: MPI's non-overtaking rule (the k-th receive posted for (source, tag) matches the k-th send posted for
   (dest, tag)), and that the recorded trace is what the library does.  Progress / deadlock: not modelled. *)

(* A: if on every rank no send buffer is written while a send from it is pending (the program completes its sends
   before reusing the buffer) and no two simultaneously pending receives share a buffer, then EVERY admissible
   schedule delivers, to every receive, what the atomic schedule (payload = buffer content at the MPI_Isend, no
   clobbering) delivers -- any payload type, any number of ranks, any trace. *)
Theorem C11_any_arrival_order_deterministic (V : Type) (W : world V) :
  (forall r, send_stable V (nth r W []) = true) ->
  (forall r, slots_exclusive V (nth r W []) = true) ->
  forall cap clob, cap_admissible V W cap -> clob_admissible V W clob ->
  forall r pos, obs V W cap clob r pos = obs V W cap_atomic clob_none r pos.
Proof. exact (msg_deterministic V W). Qed.
Print Assumptions C11_any_arrival_order_deterministic.

(* B: amgcl's ghost exchange (comm_pattern::start_exchange / finish_exchange, DistMsg.exch_round: Irecv per receive
   neighbour, gather, Isend per send neighbour, Waitall, Waitall), repeated for any number of consecutive
   products with the same matrix (request variables and buffers reused), with the patterns the constructor
   computes for ANY column partition and ANY sorted in-range remote column lists: every rank's trace satisfies the
   whole request discipline (a)-(f) of the shim, and for every admissible schedule the slices rank r reads from
   recv.val after round m concatenate to x_m[global column] for r's remote columns in idx order -- the atomic
   exchange Dist.exchange that C11_spmv_every_partition builds on (C11_ghost_exchange_delivers). *)
Theorem C11_ghost_exchange_any_arrival_order (S : Scalar) (cparts : list nat) (rcs : list (list nat)) (tag : nat)
        (xs : list (vec S)) :
  length rcs = length cparts ->
  (forall r, r < length cparts -> rc_ok cparts (nth r rcs [])) ->
  let pats := comm_pattern cparts rcs in
  let W := exch_rounds tag pats (map (chunks cparts) xs) in
  (forall r, disciplined (vec S) (nth r W []) = true) /\
  forall cap clob, cap_admissible (vec S) W cap -> clob_admissible (vec S) W clob ->
  forall m r, m < length xs -> r < length cparts ->
  exists slices : list (vec S),
    round_obs W cap clob (nth r pats dflt_cpat) r m = map Some slices /\
    concat slices = map (fun c => vget (nth m xs []) c) (nth r rcs []).
Proof. exact (ghost_exchange_any_arrival_order cparts rcs tag xs). Qed.
Print Assumptions C11_ghost_exchange_any_arrival_order.

(* C (converse): a send that is never completed and whose buffer is written again admits two admissible schedules
   with different results (any payload type with two distinct values). *)
Theorem C11_unwaited_send_refuted (V : Type) (v1 v2 : V) : v1 <> v2 ->
  all_waited V (nth 0 (bad_world V v1 v2) []) = false /\
  cap_admissible V (bad_world V v1 v2) cap_atomic /\ cap_admissible V (bad_world V v1 v2) late_capture /\
  clob_admissible V (bad_world V v1 v2) clob_none /\
  obs V (bad_world V v1 v2) cap_atomic clob_none 1 0 = Some v1 /\
  obs V (bad_world V v1 v2) late_capture clob_none 1 0 = Some v2 /\
  obs V (bad_world V v1 v2) cap_atomic clob_none 1 0 <> obs V (bad_world V v1 v2) late_capture clob_none 1 0.
Proof. exact (msg_unwaited_send_refuted V v1 v2). Qed.
Print Assumptions C11_unwaited_send_refuted.

(* D: the regression seeded by an independent reviewer (finish_exchange returns before MPI_Waitall when the rank
   expects no ghost values; DistMsg.exch_round_early_return): two ranks, rank 1 needs column 0 of rank 0, rank 0
   needs nothing, two consecutive products with vectors x, y.  Rank 0 never completes its first send; under the
   admissible schedule that reads the buffer late, rank 1 receives y[0] for the FIRST product.  bin/check C11
   reports this trace as "PMPI ... pending-send" (deterministically: it does not depend on the timing). *)
Theorem C11_finish_exchange_early_return_refuted (S : Scalar) (x0 x1 y0 y1 : vec S) : vget x0 0 <> vget y0 0 ->
  all_waited (vec S) (nth 0 (er_world x0 x1 y0 y1) []) = false /\
  cap_admissible (vec S) (er_world x0 x1 y0 y1) cap_atomic /\ cap_admissible (vec S) (er_world x0 x1 y0 y1) er_late /\
  clob_admissible (vec S) (er_world x0 x1 y0 y1) clob_none /\
  obs (vec S) (er_world x0 x1 y0 y1) cap_atomic clob_none 1 0 = Some [vget x0 0] /\
  obs (vec S) (er_world x0 x1 y0 y1) er_late clob_none 1 0 = Some [vget y0 0] /\
  obs (vec S) (er_world x0 x1 y0 y1) cap_atomic clob_none 1 0 <> obs (vec S) (er_world x0 x1 y0 y1) er_late clob_none 1 0.
Proof. exact (early_return_refuted x0 x1 y0 y1). Qed.
Print Assumptions C11_finish_exchange_early_return_refuted.

(* a concrete instance of B's world (the 3-rank example below, two consecutive products): program lengths,
   the discipline checker evaluated by computation, and the pending interval of the sends (the Isend at position
   2 / 7 of ranks 0 and 2 is pending until the second Waitall at position 4 / 9: the capture point ranges over 3..4) *)
Example C11_msg_schedules_exist :
  let A : crs QcS := mkCrs 4 [[(0, qc 2 1); (3, qc (-1) 1)]; [(1, qc 2 1); (0, qc 1 2); (2, qc 3 1)];
                              [(2, qc 1 1); (1, qc (-1) 1)]; [(3, qc 4 1); (0, qc 5 1)]] in
  let pats := dm_pattern (split A [2; 0; 2] [2; 0; 2]) in
  let W := exch_rounds 1003 pats [[[qc 1 1; qc 2 1]; []; [qc 3 1; qc 4 1]]; [[qc 5 1; qc 6 1]; []; [qc 7 1; qc 8 1]]] in
  map (fun p => length p) W = [10; 4; 10] /\
  forallb (disciplined (vec QcS)) W = true /\
  map (fun r => map (fun pos => limit (vec QcS) (nth r W []) pos 1) [2; 7]) [0; 2] = [[4; 9]; [4; 9]].
Proof. vm_compute. repeat split; reflexivity. Qed.

(* ------------------------------------------------------------------ *)
(* non-vacuity: a concrete 3-rank world with an empty rank meets all hypotheses, has a
   non-trivial communication pattern, and the distributed product is the serial one *)
Example C11_nonvacuous :
  let A : crs QcS := mkCrs 4 [[(0, qc 2 1); (3, qc (-1) 1)]; [(1, qc 2 1); (0, qc 1 2); (2, qc 3 1)];
                              [(2, qc 1 1); (1, qc (-1) 1)]; [(3, qc 4 1); (0, qc 5 1)]] in
  let parts := [2; 0; 2] in
  let x : vec QcS := [qc 1 1; qc 2 1; qc 3 1; qc 4 1] in
  let y : vec QcS := [qc 0 1; qc 0 1; qc 0 1; qc 0 1] in
  wf A = true /\ psum parts = nrows A /\ psum parts = ncols A /\
  map cp_rc (dm_pattern (split A parts parts)) = [[2; 3]; []; [0; 1]] /\
  map (fun P => nbrs (cp_send P)) (dm_pattern (split A parts parts)) = [[2]; []; [0]] /\
  concat (dist_spmv (qc 1 1) (split A parts parts) (chunks parts x) (qc 0 1) (chunks parts y))
    = spmv (qc 1 1) A x (qc 0 1) y /\
  spmv (qc 1 1) A x (qc 0 1) y = [qc (-2) 1; qc 27 2; qc 1 1; qc 21 1].
Proof. vm_compute. repeat split; reflexivity. Qed.

Example C11_rc_ok_satisfiable : rc_ok [2; 0; 2] [2; 3].
Proof. split; [repeat constructor | repeat constructor]. Qed.

(* ------------------------------------------------------------------ *)
(* Operation HISTORIES on one distributed_matrix object (DistMove.v): constructor, then any sequence of
   move_to_backend(bprm, keep_src) calls, then a consumer.  The object has TWO views: the source matrices
   a_loc/a_rem returned by local()/remote() (remote part with GLOBAL column ids; read by the copy constructor to
   another backend, transpose, product, remote_rows, scale, sort_rows, spectral_radius, mpi::amg::rebuild) and the
   backend view A_loc/A_rem read by mul/residual (remote part renumbered through the pattern's bijection
   C11_renumbering_is_bijection).  Tie: ops "hist" of harness/drv_mpi_algebra.cpp / ocaml/dist/ops_dist.ml. *)
From Amgcl Require Import DistMove DistMoveProofs DistMoveCor.

(* (ii) keep_src = true leaves the source UNCHANGED (term equality), in every state of the object ... *)
Theorem C11_kept_source_is_source (S : Scalar) (O : dobj S) : source (move_to_backend true O) = source O.
Proof. exact (kept_source_is_source O). Qed.
Print Assumptions C11_kept_source_is_source.

(* ... hence after any number of keep_src = true calls local()/remote() still return the matrix the object was built from *)
Theorem C11_kept_source_history (S : Scalar) (D : dmat S) (ks : list bool) :
  all_keep ks = true -> source (moves ks (construct D)) = Some D.
Proof. exact (kept_source_of_constructed D ks). Qed.
Print Assumptions C11_kept_source_history.

(* one keep_src = false anywhere in the history releases the source on every rank (a later consumer of local()/remote()
   would dereference a null pointer: no such history is generated by the tie; the copy constructor has no result) *)
Theorem C11_released_source_history (S : Scalar) (O : dobj S) (ks : list bool) :
  In false ks -> released (moves ks O) /\ (do_ranks O <> [] -> copy_obj (moves ks O) = None).
Proof. intro H. split; [exact (released_history ks O H) | exact (copy_of_released_fails O ks H)]. Qed.
Print Assumptions C11_released_source_history.

(* the backend view is fixed by the FIRST move_to_backend: later calls (any keep_src) do not touch it *)
Theorem C11_backend_fixed_by_first_move (S : Scalar) (O : dobj S) (k1 : bool) (ks : list bool) :
  backend (moves ks (move_to_backend k1 O)) = backend (move_to_backend k1 O).
Proof. exact (backend_fixed_by_first_move_history ks k1 O). Qed.
Print Assumptions C11_backend_fixed_by_first_move.

(* (i) the backend view's product / residual = the SOURCE's rank-by-rank product / residual (Dist.dist_spmv, the one
   C11_spmv_every_partition is about), after any history k :: ks, any scalar type; Some = no null backend pointer is
   dereferenced and the ghost vector has recv_count entries *)
Theorem C11_moved_spmv_is_source_spmv (S : Scalar) (D : dmat S) k ks alpha (xs : list (vec S)) beta (ys : list (vec S)) :
  length (dm_ranks D) = length (dm_cparts D) ->
  obj_spmv alpha (moves (k :: ks) (construct D)) xs beta ys = map Some (dist_spmv alpha D xs beta ys).
Proof. exact (history_spmv_is_source_spmv D k ks alpha xs beta ys). Qed.
Print Assumptions C11_moved_spmv_is_source_spmv.

Theorem C11_moved_residual_is_source_residual (S : Scalar) (D : dmat S) k ks (fs xs ress : list (vec S)) :
  length (dm_ranks D) = length (dm_cparts D) ->
  obj_residual fs (moves (k :: ks) (construct D)) xs ress = map Some (dist_residual fs D xs ress).
Proof. exact (history_residual_is_source_residual D k ks fs xs ress). Qed.
Print Assumptions C11_moved_residual_is_source_residual.

(* corollaries: every consumer theorem applies to the object after move_to_backend(keep_src = true) histories *)
Theorem C11_transpose_after_keep_src (S : Scalar) (A : crs S) (rparts cparts : list nat) (ks : list bool) :
  all_keep ks = true ->
  length rparts = length cparts -> psum rparts = nrows A -> psum cparts = ncols A ->
  exists D, source (moves ks (construct (split A rparts cparts))) = Some D /\
    let T := assemble (dist_transpose D rparts) in
    ncols T = nrows A /\
    forall j, j < ncols A -> Permutation (nth j (rows T) []) (nth j (rows (transpose A)) []).
Proof. exact (transpose_after_keep A rparts cparts ks). Qed.
Print Assumptions C11_transpose_after_keep_src.

Theorem C11_scale_after_keep_src (S : Scalar) (A : crs S) (rparts cparts : list nat) (ks : list bool) (s : S) :
  all_keep ks = true ->
  exists D, source (moves ks (construct (split A rparts cparts))) = Some D /\
    dist_scale D s = split (mscale A s) rparts cparts.
Proof. exact (scale_sort_after_keep A rparts cparts ks s). Qed.
Print Assumptions C11_scale_after_keep_src.

(* copy to another backend (the copy takes the source matrices and a COPY of the pattern), then any history on the copy *)
Theorem C11_copy_after_keep_src (S : Scalar) (D : dmat S) (ks : list bool) :
  all_keep ks = true -> length (dm_ranks D) = length (dm_cparts D) ->
  exists O', copy_obj (moves ks (construct D)) = Some O' /\
    forall k' ks' alpha xs beta ys,
      obj_spmv alpha (moves (k' :: ks') O') xs beta ys = map Some (dist_spmv alpha D xs beta ys).
Proof. exact (copy_after_keep D ks). Qed.
Print Assumptions C11_copy_after_keep_src.

Theorem C11_gershgorin_after_keep_src (S : Scalar) :
  (forall a : S, sltb a a = false) ->
  (forall a b c : S, sltb a b = true -> sltb b c = true -> sltb a c = true) ->
  (forall a b : S, sltb a b = false -> sltb b a = false -> a = b) ->
  Sring S ->
  forall (scale : bool) (lenss : list (list nat)) (A : crs S) (parts : list nat) (ks : list bool),
  all_keep ks = true ->
  psum parts = nrows A ->
  (forall r, r < length parts -> psize parts r <= psum (nth r lenss [])) ->
  exists D, source (moves ks (construct (split A parts parts))) = Some D /\
    dist_gershgorin_thr scale lenss D = repeat (gershgorin scale A) (length parts).
Proof. exact (gershgorin_after_keep S). Qed.
Print Assumptions C11_gershgorin_after_keep_src.

(* ring: products / residuals after ANY history (keep_src true or false in any order) equal the serial kernels, and
   the product of two kept objects is the serial product -- closed at Qc *)
Theorem C11_spmv_after_history_Qc (A : crs QcS) (rparts cparts : list nat) k ks alpha (x : vec QcS) beta (y : vec QcS) :
  length rparts = length cparts -> psum rparts = nrows A -> psum cparts = ncols A ->
  wf A = true -> length y = nrows A ->
  exists ys', obj_spmv alpha (moves (k :: ks) (construct (split A rparts cparts))) (chunks cparts x) beta (chunks rparts y)
              = map Some ys' /\
              concat ys' = spmv alpha A x beta y.
Proof. exact (spmv_after_history QcS QcS_ring QcS_eqb A rparts cparts k ks alpha x beta y). Qed.
Print Assumptions C11_spmv_after_history_Qc.

Theorem C11_residual_after_history_Qc (A : crs QcS) (rparts cparts : list nat) k ks (f x res : vec QcS) :
  length rparts = length cparts -> psum rparts = nrows A -> psum cparts = ncols A ->
  wf A = true -> length f = nrows A -> length res = nrows A ->
  exists rs', obj_residual (chunks rparts f) (moves (k :: ks) (construct (split A rparts cparts))) (chunks cparts x) (chunks rparts res)
              = map Some rs' /\
              concat rs' = residual f A x res.
Proof. exact (residual_after_history QcS QcS_ring QcS_eqb A rparts cparts k ks f x res). Qed.
Print Assumptions C11_residual_after_history_Qc.

Theorem C11_product_after_keep_src_Qc (A B : crs QcS) (rpA cpA cpB : list nat) (ksA ksB : list bool) :
  all_keep ksA = true -> all_keep ksB = true ->
  length rpA = length cpA -> length cpA = length cpB -> psum rpA = nrows A -> psum cpA = nrows B ->
  exists DA DB, source (moves ksA (construct (split A rpA cpA))) = Some DA /\
                source (moves ksB (construct (split B cpA cpB))) = Some DB /\
    let C := assemble (dist_product DA DB) in
    ncols C = psum cpB /\
    length (rows C) = length (rows (spgemm_saad A B false)) /\
    forall i j, mget C i j = mget (spgemm_saad A B false) i j.
Proof. exact (product_after_keep QcS QcS_ring A B rpA cpA cpB ksA ksB). Qed.
Print Assumptions C11_product_after_keep_src_Qc.

(* (iii) converse witness = the seeded regression C11-2 (keep_src no longer copies: the kept remote part is renumbered IN
   PLACE, DistMove.move_to_backend_inplace).  3 ranks, one row/column each, A = w_A.  The backend view is the same for
   EVERY object and input (products and residuals stay right) -- but local()/remote() now return w_D' <> the source:
   remote columns [[2]];[[0;2]];[[1]] became the ghost ids [[0]];[[0;1]];[[0]], and every consumer differs from the
   serial operation: transpose, product with the object as left / as right operand, the rows shipped by remote_rows,
   and the copy to another backend meets a column (0 on rank 0) that is not a key of idx (C->renumber throws
   std::out_of_range on that rank only -- the other ranks then wait for it forever).  Needs >= 3 ranks: on 2 ranks a
   rank's ghost ids can coincide with the global ids. *)
Theorem C11_move_to_backend_inplace_renumbering_refuted :
  source w_kept = Some w_D /\
  (forall alpha xs beta ys, obj_spmv alpha w_inpl xs beta ys = map Some (dist_spmv alpha w_D xs beta ys)) /\
  let D' := w_D' in source w_inpl = Some D' /\ D' <> w_D /\
    rem_colss w_D = [[[2]]; [[0; 2]]; [[1]]] /\ rem_colss D' = [[[0]]; [[0; 1]]; [[0]]] /\
    mget (assemble (dist_transpose D' w_p)) 0 0 <> mget (transpose w_A) 0 0 /\
    mget (assemble (dist_product D' w_D)) 0 0 <> mget (spgemm_saad w_A w_A false) 0 0 /\
    mget (assemble (dist_product w_D D')) 0 2 <> mget (spgemm_saad w_A w_A false) 0 2 /\
    dist_remote_rows (dm_pattern w_D) D' 0 <> dist_remote_rows (dm_pattern w_D) w_D 0 /\
    bad_remote_cols (rank_rc (do_pats w_inpl) 0) (nth 0 (dm_ranks D') dflt_rank) = [0] /\
    bad_remote_cols (rank_rc (do_pats w_kept) 0) (nth 0 (dm_ranks w_D) dflt_rank) = [].
Proof. exact inplace_renumbering_refuted. Qed.
Print Assumptions C11_move_to_backend_inplace_renumbering_refuted.

(* non-vacuity of the history theorems on the same 3-rank world: keep, keep, release; ghost vector sizes = recv counts *)
Example C11_history_nonvacuous :
  let O := moves [true; true] (construct w_D) in
  source O = Some w_D /\ released (move_to_backend false O) /\
  map (fun b => snd b) (backend O) = [Some 1; Some 2; Some 1] /\
  map (fun b => option_map (fun R : crs QcS => map (map fst) (rows R)) (snd (fst b))) (backend O)
    = [Some [[0]]; Some [[0; 1]]; Some [[0]]].
Proof.
  split; [reflexivity|]. split; [apply released_after_false|]. split; vm_compute; reflexivity.
Qed.

(* ================================================================== *)
(* C11 at non-commutative value types (static_matrix blocks under MPI).
   amgcl instantiates mpi::distributed_matrix with static_matrix<T,b,b> values, whose product does not commute:
   there the ORDER of the operands of every value product is part of the meaning of "the distributed operation
   equals the serial one".  The theorems of Section Ring above assume a commutative ring; here they are proved
   for every [ncring_theory S] (NcRing.v: all ring laws EXCEPT commutativity of the product), with the operand order of the
   models (= of the C++) kept, and closed at [BlockS QcS b] = static_matrix<Q,b,b> for every block size b.
   Proofs: DistBlock.v (mul / residual), DistBlockP.v (product), DistBlockT.v (transpose, witnesses). *)
From Amgcl Require Import NcRing NcKernels BlockInst NcRingBlock BlockMatOpsProofs DistBlock DistBlockP DistBlockT.
Local Open Scope S_scope.

Section NcRingDist.
Variable S : Scalar.
Hypothesis Hnc : ncring_theory S.
Hypothesis Seqb : seqb_spec S.

(* mul: the per-rank results concatenate to the serial kernel, and entry i is
   alpha * (sum_j a_ij * x_j) + beta * y_i  -- the matrix entry is the LEFT factor, local and ghost columns alike *)
Theorem C11_nc_spmv_every_partition (A : crs S) (rparts cparts : list nat) alpha (x : vec S) beta (y : vec S) :
  length rparts = length cparts -> psum rparts = nrows A -> psum cparts = ncols A ->
  wf A = true -> length y = nrows A ->
  concat (dist_spmv alpha (split A rparts cparts) (chunks cparts x) beta (chunks rparts y))
  = spmv alpha A x beta y /\
  forall i, i < nrows A ->
    vget (concat (dist_spmv alpha (split A rparts cparts) (chunks cparts x) beta (chunks rparts y))) i
    = alpha * sumn (fun j => mget A i j * vget x j) (ncols A) + beta * vget y i.
Proof.
  intros H1 H2 H3 H4 H5. split.
  - exact (nc_dist_spmv_assembled Hnc Seqb A rparts cparts H1 H2 H3 H4 alpha x beta y H5).
  - intros i Hi. exact (nc_dist_spmv_entries Hnc Seqb A rparts cparts H1 H2 H3 H4 alpha x beta y i H5 Hi).
Qed.

Theorem C11_nc_residual_every_partition (A : crs S) (rparts cparts : list nat) (f x res : vec S) :
  length rparts = length cparts -> psum rparts = nrows A -> psum cparts = ncols A ->
  wf A = true -> length f = nrows A -> length res = nrows A ->
  concat (dist_residual (chunks rparts f) (split A rparts cparts) (chunks cparts x) (chunks rparts res))
  = residual f A x res /\
  forall i, i < nrows A ->
    vget (concat (dist_residual (chunks rparts f) (split A rparts cparts) (chunks cparts x) (chunks rparts res))) i
    = vget f i - sumn (fun j => mget A i j * vget x j) (ncols A).
Proof.
  intros H1 H2 H3 H4 H5 H6. split.
  - exact (nc_dist_residual_assembled Hnc Seqb A rparts cparts H1 H2 H3 H4 f x res H5 H6).
  - intros i Hi. exact (nc_dist_residual_entries Hnc Seqb A rparts cparts H1 H2 H3 H4 f x res i H5 H6 Hi).
Qed.

(* mpi::product: (A B)_ij = sum_k a_ik * b_kj IN THAT ORDER, for every compatible row / inner / column partition,
   whether a_ik is a local or a remote entry of its rank and whether row k of B is local or came through
   remote_rows *)
Theorem C11_nc_product_every_partition (A B : crs S) (rpA cpA cpB : list nat) :
  length rpA = length cpA -> length cpA = length cpB -> psum rpA = nrows A -> psum cpA = nrows B ->
  wf A = true ->
  let C := assemble (dist_product (split A rpA cpA) (split B cpA cpB)) in
  ncols C = psum cpB /\
  length (rows C) = nrows A /\
  (forall i j, mget C i j = mget (spgemm_saad A B false) i j) /\
  (forall i j, i < nrows A -> mget C i j = sumn (fun k => mget A i k * mget B k j) (ncols A)).
Proof.
  intros H1 H2 H3 H4 Hwf. split; [|split; [|split]].
  - exact (proj1 (nc_dist_product_assembled Hnc A B rpA cpA cpB H1 H2 H3 H4)).
  - exact (nc_dist_product_rows Hnc A B rpA cpA cpB H1 H2 H3 H4).
  - exact (nc_dist_product_dense Hnc A B rpA cpA cpB H1 H2 H3 H4).
  - intros i j Hi. exact (nc_dist_product_entries Hnc A B rpA cpA cpB H1 H2 H3 H4 i j Hwf Hi).
Qed.

(* mpi::transpose with an ADDITIVE adjoint: T_ji = adj(a_ij) for every partition *)
Hypothesis sadj_add : forall a b : S, sadj (a + b) = sadj a + sadj b.
Hypothesis sadj_0 : sadj (@s0 S) = s0.

Theorem C11_nc_transpose_every_partition (A : crs S) (rparts cparts : list nat) :
  length rparts = length cparts -> psum rparts = nrows A -> psum cparts = ncols A ->
  let T := assemble (dist_transpose (split A rparts cparts) rparts) in
  ncols T = nrows A /\
  forall i j, j < ncols A -> mget T j i = sadj (mget A i j).
Proof. exact (nc_dist_transpose_dense Hnc sadj_add sadj_0 A rparts cparts). Qed.

(* adjoint an ANTI-automorphism (conjugate transpose of a block): the distributed transpose of the product is,
   entry by entry, the distributed product of the transposes in REVERSED order, (A B)^H = B^H A^H, for every
   compatible triple of partitions (empty ranks included) *)
Hypothesis sadj_mul : forall a b : S, sadj (a * b) = sadj b * sadj a.

Theorem C11_nc_transpose_of_product_every_partition (A B : crs S) (rpA cpA cpB : list nat) i j :
  length rpA = length cpA -> length cpA = length cpB ->
  psum rpA = nrows A -> psum cpA = nrows B -> nrows B = ncols A -> psum cpB = ncols B ->
  wf A = true -> i < nrows A -> j < ncols B ->
  mget (assemble (dist_transpose (split (spgemm_saad A B false) rpA cpB) rpA)) j i
  = mget (assemble (dist_product (split (transpose B) cpB cpA) (split (transpose A) cpA rpA))) j i /\
  mget (assemble (dist_transpose (split (spgemm_saad A B false) rpA cpB) rpA)) j i
  = sumn (fun k => sadj (mget B k j) * sadj (mget A i k)) (ncols A).
Proof. exact (nc_dist_transpose_of_product Hnc sadj_add sadj_0 sadj_mul A B rpA cpA cpB i j). Qed.
End NcRingDist.
Print Assumptions C11_nc_spmv_every_partition.
Print Assumptions C11_nc_residual_every_partition.
Print Assumptions C11_nc_product_every_partition.
Print Assumptions C11_nc_transpose_every_partition.
Print Assumptions C11_nc_transpose_of_product_every_partition.

(* closed at static_matrix<Q,b,b> for EVERY block size b: no hypotheses left *)
Theorem C11_nc_spmv_every_partition_BlockQc (b : nat) (A : crs (BlockS QcS b)) (rparts cparts : list nat)
  alpha (x : vec (BlockS QcS b)) beta (y : vec (BlockS QcS b)) :
  length rparts = length cparts -> psum rparts = nrows A -> psum cparts = ncols A ->
  wf A = true -> length y = nrows A ->
  concat (dist_spmv alpha (split A rparts cparts) (chunks cparts x) beta (chunks rparts y))
  = spmv alpha A x beta y /\
  forall i, i < nrows A ->
    vget (concat (dist_spmv alpha (split A rparts cparts) (chunks cparts x) beta (chunks rparts y))) i
    = alpha * sumn (fun j => mget A i j * vget x j) (ncols A) + beta * vget y i.
Proof.
  exact (C11_nc_spmv_every_partition (BlockS QcS b) (BlockS_ncring QcS b QcS_ring) (BlockS_eqb QcS b QcS_eqb)
           A rparts cparts alpha x beta y).
Qed.
Print Assumptions C11_nc_spmv_every_partition_BlockQc.

Theorem C11_nc_residual_every_partition_BlockQc (b : nat) (A : crs (BlockS QcS b)) (rparts cparts : list nat)
  (f x res : vec (BlockS QcS b)) :
  length rparts = length cparts -> psum rparts = nrows A -> psum cparts = ncols A ->
  wf A = true -> length f = nrows A -> length res = nrows A ->
  concat (dist_residual (chunks rparts f) (split A rparts cparts) (chunks cparts x) (chunks rparts res))
  = residual f A x res /\
  forall i, i < nrows A ->
    vget (concat (dist_residual (chunks rparts f) (split A rparts cparts) (chunks cparts x) (chunks rparts res))) i
    = vget f i - sumn (fun j => mget A i j * vget x j) (ncols A).
Proof.
  exact (C11_nc_residual_every_partition (BlockS QcS b) (BlockS_ncring QcS b QcS_ring) (BlockS_eqb QcS b QcS_eqb)
           A rparts cparts f x res).
Qed.
Print Assumptions C11_nc_residual_every_partition_BlockQc.

Theorem C11_nc_product_every_partition_BlockQc (b : nat) (A B : crs (BlockS QcS b)) (rpA cpA cpB : list nat) :
  length rpA = length cpA -> length cpA = length cpB -> psum rpA = nrows A -> psum cpA = nrows B ->
  wf A = true ->
  let C := assemble (dist_product (split A rpA cpA) (split B cpA cpB)) in
  ncols C = psum cpB /\
  length (rows C) = nrows A /\
  (forall i j, mget C i j = mget (spgemm_saad A B false) i j) /\
  (forall i j, i < nrows A -> mget C i j = sumn (fun k => mget A i k * mget B k j) (ncols A)).
Proof. exact (C11_nc_product_every_partition (BlockS QcS b) (BlockS_ncring QcS b QcS_ring) A B rpA cpA cpB). Qed.
Print Assumptions C11_nc_product_every_partition_BlockQc.

Theorem C11_nc_transpose_every_partition_BlockQc (b : nat) (A : crs (BlockS QcS b)) (rparts cparts : list nat) :
  length rparts = length cparts -> psum rparts = nrows A -> psum cparts = ncols A ->
  let T := assemble (dist_transpose (split A rparts cparts) rparts) in
  ncols T = nrows A /\
  forall i j, j < ncols A -> mget T j i = sadj (mget A i j).
Proof.
  exact (C11_nc_transpose_every_partition (BlockS QcS b) (BlockS_ncring QcS b QcS_ring)
           (BlockS_adj_add QcS b (fun _ _ => eq_refl)) (BlockS_adj_0 QcS b QcS_ring (fun _ _ => eq_refl))
           A rparts cparts).
Qed.
Print Assumptions C11_nc_transpose_every_partition_BlockQc.

Theorem C11_nc_transpose_of_product_every_partition_BlockQc (b : nat) (A B : crs (BlockS QcS b))
  (rpA cpA cpB : list nat) i j :
  length rpA = length cpA -> length cpA = length cpB ->
  psum rpA = nrows A -> psum cpA = nrows B -> nrows B = ncols A -> psum cpB = ncols B ->
  wf A = true -> i < nrows A -> j < ncols B ->
  mget (assemble (dist_transpose (split (spgemm_saad A B false) rpA cpB) rpA)) j i
  = mget (assemble (dist_product (split (transpose B) cpB cpA) (split (transpose A) cpA rpA))) j i /\
  mget (assemble (dist_transpose (split (spgemm_saad A B false) rpA cpB) rpA)) j i
  = sumn (fun k => sadj (mget B k j) * sadj (mget A i k)) (ncols A).
Proof.
  exact (C11_nc_transpose_of_product_every_partition (BlockS QcS b) (BlockS_ncring QcS b QcS_ring)
           (BlockS_adj_add QcS b (fun _ _ => eq_refl)) (BlockS_adj_0 QcS b QcS_ring (fun _ _ => eq_refl))
           (BlockS_adj_mul QcS b QcS_ring (fun _ _ => eq_refl) (fun _ _ => eq_refl)) A B rpA cpA cpB i j).
Qed.
Print Assumptions C11_nc_transpose_of_product_every_partition_BlockQc.

(* non-vacuity: 2 x 2 blocks over Q do not commute, so the operand order above is real information *)
Example C11_nc_blocks_do_not_commute : exists x y : BlockS QcS 2, x * y <> y * x.
Proof. exact blocks_do_not_commute. Qed.
Print Assumptions C11_nc_blocks_do_not_commute.

(* converse witness = the seeded regression C12-4: in mpi::product the section that combines A's REMOTE entries
   with the rows of B received from the neighbour ranks computes  B_nbr.val[jb] * va  instead of  va * vb
   (model DistBlockP.dist_product_swapped_remote: Dist.dist_product with the operands swapped exactly for the
   entries of A whose column lies outside the rank's own column range).  On a 2-rank world with 2 block rows,
        A = [ I  E01 ]    B = [ I    . ]     (DistBlockT.dw_A, dw_B; partition [1;1] everywhere)
            [ .   I  ]        [ E10  I ]
   the assembled result differs from the serial product at entry (0,0):  I + E10*E01  instead of  I + E01*E10 ... *)
Theorem C11_nc_product_swapped_remote_operands_refuted :
  exists (A B : crs (BlockS QcS 2)) (rpA cpA cpB : list nat) (i j : nat),
    length rpA = length cpA /\ length cpA = length cpB /\ psum rpA = nrows A /\ psum cpA = nrows B /\
    wf A = true /\
    mget (assemble (dist_product_swapped_remote (split A rpA cpA) (split B cpA cpB))) i j
    <> mget (spgemm_saad A B false) i j.
Proof.
  exists dw_A, dw_B, dw_p, dw_p, dw_p, 0%nat, 0%nat.
  destruct swapped_remote_operands_refuted as [H1 [H2 [H3 [H4 H5]]]].
  exact (conj H1 (conj H1 (conj H2 (conj H3 (conj H4 H5))))).
Qed.
Print Assumptions C11_nc_product_swapped_remote_operands_refuted.

(* ... while in every COMMUTATIVE ring the swapped model is the same function: the regression is invisible to the
   theorems of Section Ring and to every scalar-valued run; only the non-commutative theorems above exclude it *)
Theorem C11_nc_product_swapped_remote_operands_commutative_noop (S : Scalar) (Srt : Sring S) (DA DB : dmat S) :
  dist_product_swapped_remote DA DB = dist_product DA DB.
Proof. exact (dist_product_swapped_remote_comm Srt DA DB). Qed.
Print Assumptions C11_nc_product_swapped_remote_operands_commutative_noop.
