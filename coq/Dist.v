(* Dist.v -- the distributed (MPI) layer: amgcl/mpi/distributed_matrix.hpp, util.hpp,
   inner_product.hpp.  Definitions only; proofs: DistProofs.v.

   A *world* is a list indexed by rank.  A contiguous partition is the list of the
   per-rank sizes (zeros allowed = ranks that own nothing); [pbeg parts r] is
   comm.exclusive_sum(n)[r].

   What the MPI runtime does is modelled by three pure functions of the whole world
   (this is the trusted part, see Properties_C11.v):
     - MPI_Allgather / exclusive_sum : every rank sees the same list of sizes;
     - MPI_Alltoall + the point-to-point column exchange in the comm_pattern
       constructor (distributed_matrix.hpp:142-179): rank q learns, for every rank d,
       exactly the slice of d's sorted remote-column list that d addressed to q;
     - MPI_Allreduce: every rank obtains the same reduction of all local values.
   Progress, deadlock freedom and arrival order are not modelled. *)
From Amgcl Require Import Scalar Vec Crs Kernels MatOps Cheby.
Local Open Scope S_scope.

(* ------------------------------------------------------------------ *)
(* Scalar-free part: partitions, ownership, communication pattern.     *)

Definition psum (parts : list nat) : nat := fold_right Nat.add 0%nat parts.
Definition pbeg (parts : list nat) (r : nat) : nat := psum (firstn r parts).
Definition psize (parts : list nat) (r : nat) : nat := nth r parts 0%nat.

(* distributed_matrix.hpp:116  while(rem_cols[i] >= domain[d + 1]) ++d;
   empty ranks are skipped because their end equals their begin *)
Fixpoint owner_from (b : nat) (parts : list nat) (c : nat) : nat :=
  match parts with
  | [] => 0%nat
  | p :: ps => if Nat.ltb c (b + p) then 0%nat else Datatypes.S (owner_from (b + p) ps c)
  end.
Definition owner (parts : list nat) (c : nat) : nat := owner_from 0 parts c.

(* std::sort + std::unique *)
Fixpoint ins_u (c : nat) (l : list nat) : list nat :=
  match l with
  | [] => [c]
  | h :: t => if Nat.ltb c h then c :: h :: t else if Nat.eqb c h then h :: t else h :: ins_u c t
  end.
Definition sort_unique (l : list nat) : list nat := fold_right ins_u [] l.

(* idx : global remote column -> position in the sorted unique list (local_index);
   a column that is not in the list maps to [length l] (idx.at() throws in the C++) *)
Fixpoint index_of (c : nat) (l : list nat) : nat :=
  match l with
  | [] => 0%nat
  | h :: t => if Nat.eqb h c then 0%nat else Datatypes.S (index_of c t)
  end.

Definition is_nil {X} (l : list X) : bool := match l with [] => true | _ => false end.

(* rcounts[d] (lines 115-127) and the slices rem_cols[recv.ptr[i] .. recv.ptr[i+1]) that
   are sent to the owners (lines 172-174): entry d of the table = columns requested from d *)
Definition rcounts (cparts rc : list nat) : list nat :=
  map (fun d => length (filter (fun c => Nat.eqb (owner cparts c) d) rc)) (seq 0 (length cparts)).
Definition recv_table (cparts rc : list nat) : list (list nat) := chunks (rcounts cparts rc) rc.

Record cpat := mkCpat {
  cp_beg  : nat;               (* loc_beg *)
  cp_rc   : list nat;          (* sorted distinct remote columns = keys of idx, in idx order *)
  cp_recv : list (list nat);   (* entry d: global columns received from rank d *)
  cp_send : list (list nat)    (* entry d: LOCAL column numbers sent to rank d (send.col) *)
}.

(* the whole world's patterns from all ranks' remote column lists: rank q's send table is
   column q of the table of recv tables (Alltoall of the counts + exchange of the slices),
   shifted to local numbering (line 182) *)
Definition comm_pattern (cparts : list nat) (rcs : list (list nat)) : list cpat :=
  let tabs := map (recv_table cparts) rcs in
  map (fun r => mkCpat (pbeg cparts r) (nth r rcs []) (nth r tabs [])
                  (map (fun d => map (fun c => c - pbeg cparts r)%nat (nth r (nth d tabs []) []))
                       (seq 0 (length cparts))))
      (seq 0 (length cparts)).

(* neighbour lists: ranks with a non-empty slice, increasing (recv.nbr / send.nbr);
   ptr arrays are the running sums of the slice lengths *)
Definition nbrs (T : list (list nat)) : list nat :=
  filter (fun d => negb (is_nil (nth d T []))) (seq 0 (length T)).
Definition nbr_ptr (T : list (list nat)) : list nat :=
  fold_left (fun acc d => acc ++ [last acc 0 + length (nth d T [])])%nat (nbrs T) [0%nat].
Definition nbr_cols (T : list (list nat)) : list nat := flat_map (fun d => nth d T []) (nbrs T).
(* std::get<0>(idx[c]) : index of the owner of c in recv.nbr *)
Definition cp_domain (cparts : list nat) (P : cpat) (c : nat) : nat :=
  index_of (owner cparts c) (nbrs (cp_recv P)).

Definition dflt_cpat : cpat := mkCpat 0 [] [] [].

(* ------------------------------------------------------------------ *)
Section Dist.
Context {S : Scalar}.
Local Notation vec := (vec S).
Local Notation row := (row S).
Local Notation crs := (crs S).

(* ---- the local/remote split of the constructor (distributed_matrix.hpp:371-436) ---- *)
Definition in_range (b n c : nat) : bool := Nat.leb b c && Nat.ltb c (b + n).
Definition loc_row (b n : nat) (r : row) : row :=
  map (fun e => (fst e - b, snd e)%nat) (filter (fun e => in_range b n (fst e)) r).
Definition rem_row (b n : nat) (r : row) : row :=
  filter (fun e => negb (in_range b n (fst e))) r.

(* one rank's strip: local part with local column numbers, remote part with GLOBAL column
   numbers (as held until move_to_backend renumbers them) *)
Record rank_mat := mkRankMat { rm_loc : crs; rm_rem : crs }.
Record dmat := mkDmat { dm_cparts : list nat; dm_ranks : list rank_mat }.
Definition dflt_rank : rank_mat := mkRankMat (mkCrs 0 []) (mkCrs 0 []).

Definition split_rows (b n gcols : nat) (rws : list row) : rank_mat :=
  mkRankMat (mkCrs n (map (loc_row b n) rws)) (mkCrs gcols (map (rem_row b n) rws)).
Definition split_rank (A : crs) (rparts cparts : list nat) (r : nat) : rank_mat :=
  split_rows (pbeg cparts r) (psize cparts r) (ncols A) (nth r (chunks rparts (rows A)) []).
Definition split (A : crs) (rparts cparts : list nat) : dmat :=
  mkDmat cparts (map (split_rank A rparts cparts) (seq 0 (length cparts))).

(* a strip back in global numbering: local entries first, then remote ones *)
Definition strip_rows (b : nat) (M : rank_mat) : list row :=
  map2 (fun l r => map (fun e => (fst e + b, snd e)%nat) l ++ r) (rows (rm_loc M)) (rows (rm_rem M)).
Definition strips (D : dmat) : list (list row) :=
  map (fun r => strip_rows (pbeg (dm_cparts D) r) (nth r (dm_ranks D) dflt_rank)) (seq 0 (length (dm_cparts D))).
Definition assemble (D : dmat) : crs := mkCrs (psum (dm_cparts D)) (concat (strips D)).

(* ---- communication pattern of a distributed matrix ---- *)
Definition rem_cols (M : rank_mat) : list nat :=
  sort_unique (flat_map (fun r : row => map fst r) (rows (rm_rem M))).
Definition dm_pattern (D : dmat) : list cpat :=
  comm_pattern (dm_cparts D) (map rem_cols (dm_ranks D)).

(* C->renumber(a_rem) in move_to_backend (lines 238-242, 500-508) *)
Definition renumber (rc : list nat) (A : crs) : crs :=
  mkCrs (length rc) (map (map (fun e => (index_of (fst e) rc, snd e))) (rows A)).

(* ---- ghost exchange (start_exchange / finish_exchange, lines 248-273) ----
   rank q gathers x_q at its send columns; the message for r is the slice addressed to r;
   rank r stores the messages of its receive neighbours, in neighbour order, in recv.val *)
Definition gather (x : vec) (cols : list nat) : vec := map (fun c => vget x c) cols.
Definition exchange (pats : list cpat) (xs : list vec) (r : nat) : vec :=
  flat_map (fun q => gather (nth q xs []) (nth r (cp_send (nth q pats dflt_cpat)) []))
           (nbrs (cp_recv (nth r pats dflt_cpat))).

(* ---- mul / residual (lines 520-547) ---- *)
Definition rank_spmv (alpha : S) (M : rank_mat) (rc : list nat) (ghost x : vec) (beta : S) (y : vec) : vec :=
  let y1 := spmv alpha (rm_loc M) x beta y in
  if is_nil rc then y1 else spmv alpha (renumber rc (rm_rem M)) ghost s1 y1.
Definition rank_residual (f : vec) (M : rank_mat) (rc : list nat) (ghost x res : vec) : vec :=
  let r1 := residual f (rm_loc M) x res in
  if is_nil rc then r1 else spmv (- s1) (renumber rc (rm_rem M)) ghost s1 r1.

Definition dist_spmv (alpha : S) (D : dmat) (xs : list vec) (beta : S) (ys : list vec) : list vec :=
  let pats := dm_pattern D in
  map (fun r => rank_spmv alpha (nth r (dm_ranks D) dflt_rank) (cp_rc (nth r pats dflt_cpat))
                          (exchange pats xs r) (nth r xs []) beta (nth r ys []))
      (seq 0 (length (dm_cparts D))).
Definition dist_residual (fs : list vec) (D : dmat) (xs ress : list vec) : list vec :=
  let pats := dm_pattern D in
  map (fun r => rank_residual (nth r fs []) (nth r (dm_ranks D) dflt_rank) (cp_rc (nth r pats dflt_cpat))
                              (exchange pats xs r) (nth r xs []) (nth r ress []))
      (seq 0 (length (dm_cparts D))).

(* ---- collectives ---- *)
(* MPI_Allreduce(MPI_SUM): the same value on every rank (reduction in rank order) *)
Definition allreduce_sum (locals : list S) : list S := map (fun _ => vsum locals) locals.
(* mpi::inner_product (inner_product.hpp:46-68) *)
Definition dist_inner_product (xs ys : list vec) : list S :=
  allreduce_sum (map2 inner_product_serial xs ys).
Definition allreduce_nat (locals : list nat) : list nat := map (fun _ => psum locals) locals.
(* glob_rows / glob_cols / glob_nonzeros *)
Definition rank_nnz (M : rank_mat) : nat := (nnz (rm_loc M) + nnz (rm_rem M))%nat.
Definition dist_glob_sizes (D : dmat) : list (nat * nat * nat) :=
  let rs := allreduce_nat (map (fun M => nrows (rm_loc M)) (dm_ranks D)) in
  let cs := allreduce_nat (map (fun M => ncols (rm_loc M)) (dm_ranks D)) in
  let nz := allreduce_nat (map rank_nnz (dm_ranks D)) in
  map2 (fun rc z => (fst rc, snd rc, z)) (combine rs cs) nz.

(* ---- scale / sort_rows (lines 1071-1094): rank-local, both parts ---- *)
Definition dist_scale (D : dmat) (s : S) : dmat :=
  mkDmat (dm_cparts D) (map (fun M => mkRankMat (mscale (rm_loc M) s) (mscale (rm_rem M) s)) (dm_ranks D)).
Definition dist_sort_rows (D : dmat) : dmat :=
  mkDmat (dm_cparts D) (map (fun M => mkRankMat (sort_rows (rm_loc M)) (sort_rows (rm_rem M))) (dm_ranks D)).

(* ---- transpose (lines 559-716) ----
   rank q keeps transpose(A_loc); the transposed remote part of rank d (one row per ghost column
   of d, entries = (local row of d + row offset of d, adjoint value)) is shipped row by row to
   the owners of those columns; rank q appends what it receives for its local column c in the
   order of its send slots, i.e. by increasing sender rank d.  The result is handed to the
   constructor (new pattern); its column partition is the row partition of A. *)
Definition dist_transpose (D : dmat) (rparts : list nat) : dmat :=
  let cparts := dm_cparts D in
  let nr := length cparts in
  mkDmat rparts
    (map (fun q =>
            let M := nth q (dm_ranks D) dflt_rank in
            mkRankMat (transpose (rm_loc M))
              (mkCrs (psum rparts)
                 (map (fun c =>
                         flat_map (fun d =>
                                     map (fun e => (fst e + pbeg rparts d, snd e)%nat)
                                         (nth (c + pbeg cparts q) (rows (transpose (rm_rem (nth d (dm_ranks D) dflt_rank)))) []))
                                  (seq 0 nr))
                      (seq 0 (psize cparts q)))))
         (seq 0 nr)).

(* ---- product (lines 856-1069) ----
   Row ia of C on rank r: walk the local entries of A's row, then the remote ones, in storage
   order; for an entry (ca, va) walk row ca of B as its owner holds it (local entries, then remote
   ones -- for a remote ca this is the row received through remote_rows); every product va*vb goes
   to the LOCAL accumulator when B's column belongs to this rank, else to the REMOTE one; both
   accumulators use the marker logic of spgemm_saad ([row_add]: first hit appends, later hits add). *)
Definition prod_events (SB : list row) (ra : row) : row :=
  flat_map (fun ea => map (fun eb => (fst eb, snd ea * snd eb)) (nth (fst ea) SB [])) ra.
Definition accumulate (evs : row) : row := fold_left (fun acc e => row_add acc (fst e) (snd e)) evs [].
Definition dist_product (DA DB : dmat) : dmat :=
  let cpA := dm_cparts DA in
  let cpB := dm_cparts DB in
  let SB := concat (strips DB) in
  mkDmat cpB
    (map (fun r =>
            let b := pbeg cpB r in
            let p := psize cpB r in
            let rowsA := strip_rows (pbeg cpA r) (nth r (dm_ranks DA) dflt_rank) in
            mkRankMat
              (mkCrs p (map (fun ra => accumulate (loc_row b p (prod_events SB ra))) rowsA))
              (mkCrs (psum cpB) (map (fun ra => accumulate (rem_row b p (prod_events SB ra))) rowsA)))
         (seq 0 (length cpA))).

(* ---- remote_rows (lines 718-854): for every ghost column c of A's pattern, in idx order,
   the row c of B as its owner holds it (local entries in global numbering, then remote) ---- *)
Definition dist_remote_rows (patsA : list cpat) (B : dmat) (r : nat) : list row :=
  map (fun c => nth c (concat (strips B)) []) (cp_rc (nth r patsA dflt_cpat)).

(* ---- Gershgorin estimate, power_iters <= 0 (distributed_matrix.hpp:1159-1190, after the /repo
   fixes ed6ca09 = Allreduce(MAX) of the rank maxima, and 18c5201 = `dia` is a local of the row loop
   body, reset to the identity for EVERY row, as in the serial kernel since 519d545) ----
   one row, i = LOCAL row number, rl / rr = the row of A_loc (local column numbers) / of A_rem:
     s = sum |loc| (left to right, from 0), then + sum |rem|;
     dia = LAST entry of the local row with local column == i, identity when there is none
           (the test `scale && c == i` is only made for scale = true);
     s *= |inverse(dia)| when scale *)
Definition dgersh_row (scale : bool) (i : nat) (rl rr : row) : S :=
  let '(s, dia) := fold_left (fun (sd : S * S) e =>
        (fst sd + sabs (snd e), if scale && Nat.eqb (fst e) i then snd e else snd sd)) rl (s0, s1) in
  let s' := fold_left (fun a e => a + sabs (snd e)) rr s in
  if scale then s' * sabs (sinv dia) else s'.
(* one OpenMP thread: emax starts at 0, running std::max over its rows *)
Definition dgersh_chunk (scale : bool) (irs : list (nat * (row * row))) : S :=
  fold_left (fun em ir => smax em (dgersh_row scale (fst ir) (fst (snd ir)) (snd (snd ir)))) irs s0.
(* one rank: `radius` starts at 0; every thread (contiguous chunks of the local rows, [lens] = the chunk
   lengths, a thread without rows contributes its initial emax = 0) does radius = max(radius, emax) in
   the critical section -- modelled in thread order; that every order gives the same value is
   C09_max_reduction_order_independent *)
Definition rank_gershgorin_thr (scale : bool) (lens : list nat) (M : rank_mat) : S :=
  fold_left (fun rad ch => smax rad (dgersh_chunk scale ch))
            (chunks lens (indexed (combine (rows (rm_loc M)) (rows (rm_rem M))))) s0.
Definition rank_gershgorin (scale : bool) (M : rank_mat) : S :=
  rank_gershgorin_thr scale [nrows (rm_loc M)] M.
(* MPI_Allreduce(MPI_MAX): the same value on every rank (reduction in rank order) *)
Definition allreduce_max (locals : list S) : list S :=
  match locals with
  | [] => []
  | a :: t => map (fun _ => fold_left smax t a) locals
  end.
(* line 1307: return radius < 0 ? 2 : radius *)
Definition gersh_final (radius : S) : S := if sltb radius s0 then s1 + s1 else radius.
Definition dist_gershgorin_thr (scale : bool) (lenss : list (list nat)) (D : dmat) : list S :=
  map gersh_final
      (allreduce_max (map (fun r => rank_gershgorin_thr scale (nth r lenss []) (nth r (dm_ranks D) dflt_rank))
                          (seq 0 (length (dm_cparts D))))).
(* OMP_NUM_THREADS = 1 *)
Definition dist_gershgorin (scale : bool) (D : dmat) : list S :=
  map gersh_final
      (allreduce_max (map (fun r => rank_gershgorin scale (nth r (dm_ranks D) dflt_rank))
                          (seq 0 (length (dm_cparts D))))).
(* what C11 asks for: the serial value (Cheby.gershgorin = backend/builtin.hpp:790-817 on one thread)
   of the assembled matrix on every rank *)
Definition dist_gershgorin_spec (scale : bool) (A : crs) (nranks : nat) : list S :=
  repeat (Cheby.gershgorin scale A) nranks.

(* what the code computed BEFORE ed6ca09 / 18c5201 (kept for the regression example in
   Properties_C11.v): rank-local maximum, no reduction; dia carried from row to row *)
Definition old_gersh_step (scale : bool) (st : S * S) (ir : nat * (row * row)) : S * S :=
  let '(emax, dia) := st in
  let '(i, (rl, rr)) := ir in
  let s := fold_left (fun a e => a + sabs (snd e)) rr (fold_left (fun a e => a + sabs (snd e)) rl s0) in
  let dia' := if scale then fold_left (fun d e => if Nat.eqb (fst e) i then snd e else d) rl dia else dia in
  let s' := if scale then s * sabs (sinv dia') else s in
  (smax emax s', dia').
Definition old_dist_gershgorin (scale : bool) (D : dmat) : list S :=
  map (fun M => fst (fold_left (old_gersh_step scale) (indexed (combine (rows (rm_loc M)) (rows (rm_rem M)))) (s0, s1)))
      (dm_ranks D).

End Dist.
Arguments rank_mat : clear implicits.
Arguments dmat : clear implicits.
