(* DistSaProofs.v -- C12: the distributed smoothed aggregation of DistSa.v (rank-by-rank filtered matrix with exchanged ghost
   diagonals, P = dist_product Af P_tent) assembles, for EVERY contiguous partition, to the serial smoothed-aggregation formula
   P = (I - omega Df^-1 A_f) P_tent of the assembled matrix (Coarsen.sa_formula, C04).  Ingredients: C11 exchange_spec (ghost
   values), C11 dist_product_dense (distributed product), C04 sa_formula_holds, DistSaPtent.dist_ptent_is_split (P_tent of the
   PMIS model). *)
From Coq Require Import ZifyBool.
From Amgcl Require Import Scalar Vec Crs Kernels MatOps MatOps2 Aggregates Tentative Coarsen CoarsenProofs Dist DistProofs DistProofsB DistProofsG DistProofsP Pmis PmisProofs PmisPartition PmisOracle DistSa DistSaPtent.
Local Open Scope S_scope.

(* ------------------------------------------------------------------ serial part: the product of the filtered matrix
   with P_tent is the fused loop of the serial smoothed aggregation (Coarsen.sa_row) *)
Section Serial.
Context {S : Scalar}.

Lemma fold_left_flat_map {X Y Z} (f : Z -> Y -> Z) (g : X -> list Y) (l : list X) : forall acc,
  fold_left f (flat_map g l) acc = fold_left (fun a x => fold_left f (g x) a) l acc.
Proof. induction l as [|x l IH]; intro acc; simpl; [reflexivity|]. rewrite fold_left_app. apply IH. Qed.

Lemma fold_left_ext_all {X Z} (f g : Z -> X -> Z) (l : list X) : (forall a x, f a x = g a x) -> forall acc,
  fold_left f l acc = fold_left g l acc.
Proof. intro H. induction l as [|x l IH]; intro acc; simpl; [reflexivity|]. rewrite H. apply IH. Qed.

Lemma flag_row_combine (str : nat * S -> bool) (r : row S) : flag_row str r = combine r (map str r).
Proof. induction r as [|e r IH]; simpl; [reflexivity|]. f_equal. exact IH. Qed.

Lemma sa_glob_row_spgemm (omega : S) (Pt : crs S) (i : nat) (z : list (nat * S * bool)) :
  is_zero (sa_dia i z) = false ->
  spgemm_row (sa_glob_row omega i z) Pt = sa_row omega Pt i z.
Proof.
  intro Hz. unfold spgemm_row, sa_glob_row, sa_row, sa_scale. fold (sa_dia i z). rewrite Hz.
  unfold sa_scale_f. rewrite fold_left_flat_map.
  apply fold_left_ext_all. intros acc e.
  destruct (Nat.eqb (fst (fst e)) i); simpl; [reflexivity|].
  destruct (snd e); simpl; reflexivity.
Qed.
End Serial.

Section SerialField.
Variable S : Scalar.
Hypothesis Sft : Sfield S.
Hypothesis Seqb : seqb_spec S.

(* the strength flags of a whole matrix from the entry test [str] *)
Definition str_flags (A : crs S) (str : nat -> nat * S -> bool) : flags :=
  map (fun ir => map (str (fst ir)) (snd ir)) (indexed (rows A)).

Lemma nth_str_flags (A : crs S) str i : i < nrows A ->
  nth i (str_flags A str) [] = map (str i) (nth i (rows A) []).
Proof.
  intro Hi. unfold str_flags.
  rewrite (nth_indep _ [] ((fun ir : nat * row S => map (str (fst ir)) (snd ir)) (0%nat, [])))
    by (rewrite map_length, indexed_length; exact Hi).
  rewrite (map_nth (fun ir : nat * row S => map (str (fst ir)) (snd ir))).
  rewrite nth_indexed by exact Hi. reflexivity.
Qed.

Lemma nth_sa_glob_filtered omega (A : crs S) str i : i < nrows A ->
  nth i (rows (sa_glob_filtered omega A str)) [] = sa_glob_row omega i (flag_row (str i) (nth i (rows A) [])).
Proof.
  intro Hi. unfold sa_glob_filtered. simpl.
  rewrite (nth_indep _ [] ((fun ir : nat * row S => sa_glob_row omega (fst ir) (flag_row (str (fst ir)) (snd ir))) (0%nat, [])))
    by (rewrite map_length, indexed_length; exact Hi).
  rewrite (map_nth (fun ir : nat * row S => sa_glob_row omega (fst ir) (flag_row (str (fst ir)) (snd ir)))).
  rewrite nth_indexed by exact Hi. reflexivity.
Qed.

(* (I - omega Df^-1 A_f) P_tent computed as a sparse product of the filtered matrix = the dense formula of C04 *)
Lemma sa_glob_smooth_formula omega (A : crs S) str Pt i j :
  wf A = true -> ncols A = nrows A -> i < nrows A ->
  sa_row_regular A (str_flags A str) i = true ->
  mget (sa_glob_smooth omega A str Pt) i j = sa_formula omega A (str_flags A str) Pt i j.
Proof.
  intros Hwf Hsq Hi Hreg.
  rewrite <- (sa_formula_holds S Sft Seqb omega A (str_flags A str) Pt i j Hwf Hsq Hi Hreg).
  unfold mget. f_equal.
  rewrite nth_sa_smooth by exact Hi.
  unfold sa_glob_smooth, spgemm_saad. cbn [rows].
  assert (Hlen : i < length (rows (sa_glob_filtered omega A str))).
  { unfold sa_glob_filtered. simpl. rewrite map_length, indexed_length. exact Hi. }
  rewrite (nth_indep _ [] ((fun ra : row S => spgemm_row ra Pt) [])) by (rewrite map_length; exact Hlen).
  rewrite (map_nth (fun ra : row S => spgemm_row ra Pt)).
  rewrite nth_sa_glob_filtered by exact Hi.
  rewrite nth_str_flags by exact Hi. unfold zip_row. rewrite <- flag_row_combine.
  apply sa_glob_row_spgemm.
  unfold sa_row_regular in Hreg. apply andb_prop in Hreg as [Hreg _]. apply andb_prop in Hreg as [HD _].
  unfold sa_D in HD. rewrite nth_str_flags in HD by exact Hi. unfold zip_row in HD. rewrite <- flag_row_combine in HD.
  destruct (is_zero (sa_dia i (flag_row (str i) (nth i (rows A) [])))); [discriminate|reflexivity].
Qed.
End SerialField.

(* ------------------------------------------------------------------ one row of one rank *)
Section Row.
Context {S : Scalar}.
Hypothesis Srt : Sring S.
Add Ring SaRowRing : Srt.

(* conditional sum over a row *)
Definition csum (q : nat * S -> bool) (l : row S) (a : S) : S :=
  fold_left (fun d e => if q e then d + snd e else d) l a.

Lemma csum_acc q l : forall a, csum q l a = a + csum q l s0.
Proof.
  induction l as [|e l IH]; intro a; unfold csum in *; simpl; [ring|].
  rewrite IH. rewrite (IH (if q e then s0 + snd e else s0)). destruct (q e); ring.
Qed.

Lemma csum_split q (inr : nat * S -> bool) l : forall a,
  csum q l a = csum q (filter (fun e => negb (inr e)) l) (csum q (filter inr l) a).
Proof.
  induction l as [|e l IH]; intro a; [reflexivity|].
  cbn [filter]. destruct (inr e) eqn:Ei; cbn [negb].
  - unfold csum at 1 3. cbn [fold_left]. fold (csum q l (if q e then a + snd e else a)).
    fold (csum q (filter inr l) (if q e then a + snd e else a)). apply IH.
  - unfold csum at 1 2. cbn [fold_left].
    fold (csum q l (if q e then a + snd e else a)).
    fold (csum q (filter (fun e0 => negb (inr e0)) l) (if q e then csum q (filter inr l) a + snd e else csum q (filter inr l) a)).
    rewrite IH. rewrite (csum_acc q (filter (fun e0 => negb (inr e0)) l) (csum q (filter inr l) (if q e then a + snd e else a))).
    rewrite (csum_acc q (filter (fun e0 => negb (inr e0)) l) (if q e then csum q (filter inr l) a + snd e else csum q (filter inr l) a)).
    rewrite (csum_acc q (filter inr l) (if q e then a + snd e else a)).
    rewrite (csum_acc q (filter inr l) a).
    destruct (q e); ring.
Qed.

Lemma csum_ext_in q q' l : (forall e, In e l -> q e = q' e) -> forall a, csum q l a = csum q' l a.
Proof.
  induction l as [|e l IH]; intros H a; [reflexivity|].
  unfold csum. cbn [fold_left]. rewrite (H e (or_introl eq_refl)).
  apply IH. intros x Hx. apply H. right. exact Hx.
Qed.

Lemma csum_map q (f : nat * S -> nat * S) l : (forall e, snd (f e) = snd e) -> forall a,
  csum q (map f l) a = csum (fun e => q (f e)) l a.
Proof.
  intro Hf. induction l as [|e l IH]; intro a; [reflexivity|].
  unfold csum in *. cbn [map fold_left]. rewrite Hf. apply IH.
Qed.

Lemma fold_flag_row (h : nat * S -> bool -> bool) (str : nat * S -> bool) (r : row S) : forall a,
  fold_left (fun d (e : nat * S * bool) => if h (fst e) (snd e) then d + snd (fst e) else d) (flag_row str r) a
  = csum (fun e => h e (str e)) r a.
Proof. induction r as [|e r IH]; intro a; [reflexivity|]. unfold csum. cbn [flag_row map fold_left fst snd]. apply IH. Qed.

Lemma flat_map_flag_row {Y} (h : nat * S -> bool -> list Y) (str : nat * S -> bool) (r : row S) :
  flat_map (fun e : nat * S * bool => h (fst e) (snd e)) (flag_row str r) = flat_map (fun e => h e (str e)) r.
Proof. induction r as [|e r IH]; [reflexivity|]. cbn [flag_row map flat_map fst snd]. f_equal. exact IH. Qed.

Variables b p i k : nat.
Hypothesis Hi : i = (b + k)%nat.
Hypothesis Hk : (k < p)%nat.
Variables sl sr sg : nat * S -> bool.
Variables omega d : S.

Definition shift (e : nat * S) : nat * S := ((fst e - b)%nat, snd e).
Definition keep (e : nat * S) : list (nat * S) :=
  if Nat.eqb (fst e) i then [(fst e, (s1 - omega) * s1)] else if sg e then [(fst e, d * snd e)] else [].

Lemma loc_row_app (r1 r2 : row S) : loc_row b p (r1 ++ r2) = loc_row b p r1 ++ loc_row b p r2.
Proof. unfold loc_row. rewrite filter_app, map_app. reflexivity. Qed.
Lemma rem_row_app (r1 r2 : row S) : rem_row b p (r1 ++ r2) = rem_row b p r1 ++ rem_row b p r2.
Proof. unfold rem_row. apply filter_app. Qed.

Lemma eqb_shift c : in_range b p c = true -> Nat.eqb (c - b) k = Nat.eqb c i.
Proof. unfold in_range. intro H. apply andb_prop in H as [H1 H2]. apply Nat.leb_le in H1. subst i. lia. Qed.
Lemma eqb_out c : in_range b p c = false -> Nat.eqb c i = false.
Proof. unfold in_range. intro H. subst i. lia. Qed.

Lemma loc_part (rw : row S) :
  (forall e, In e rw -> in_range b p (fst e) = true -> sl (shift e) = sg e) ->
  flat_map (fun e => if Nat.eqb (fst e) k then [(fst e, (s1 - omega) * s1)] else if sl e then [(fst e, d * snd e)] else [])
           (loc_row b p rw)
  = loc_row b p (flat_map keep rw).
Proof.
  induction rw as [|e rw IH]; intro H; [reflexivity|].
  cbn [flat_map]. rewrite loc_row_app. rewrite <- IH by (intros x Hx; apply H; right; exact Hx).
  unfold loc_row at 1. cbn [filter]. destruct (in_range b p (fst e)) eqn:Er.
  - cbn [map flat_map]. fold (loc_row b p rw). f_equal.
    cbn [fst snd]. rewrite (eqb_shift _ Er). unfold keep.
    destruct (Nat.eqb (fst e) i).
    + unfold loc_row. cbn [filter fst]. rewrite Er. reflexivity.
    + change (((fst e - b)%nat, snd e)) with (shift e). rewrite (H e (or_introl eq_refl) Er).
      destruct (sg e); unfold loc_row; cbn [filter fst]; [rewrite Er|]; reflexivity.
  - fold (loc_row b p rw). unfold keep. rewrite (eqb_out _ Er).
    destruct (sg e); unfold loc_row at 2; cbn [filter fst]; [rewrite Er|]; reflexivity.
Qed.

Lemma rem_part (rw : row S) :
  (forall e, In e rw -> in_range b p (fst e) = false -> sr e = sg e) ->
  flat_map (fun e => if sr e then [(fst e, d * snd e)] else []) (rem_row b p rw)
  = rem_row b p (flat_map keep rw).
Proof.
  induction rw as [|e rw IH]; intro H; [reflexivity|].
  cbn [flat_map]. rewrite rem_row_app. rewrite <- IH by (intros x Hx; apply H; right; exact Hx).
  unfold rem_row at 1. cbn [filter]. destruct (in_range b p (fst e)) eqn:Er; cbn [negb].
  - fold (rem_row b p rw). unfold keep.
    destruct (Nat.eqb (fst e) i); [|destruct (sg e)]; unfold rem_row at 2; cbn [filter fst]; try rewrite Er; reflexivity.
  - cbn [flat_map]. fold (rem_row b p rw). f_equal. unfold keep. rewrite (eqb_out _ Er).
    rewrite (H e (or_introl eq_refl) Er).
    destruct (sg e); unfold rem_row; cbn [filter fst]; [rewrite Er|]; reflexivity.
Qed.

(* the filtered diagonal: local part first, then the remote part = the whole row in storage order *)
Lemma dia_part (rw : row S) :
  (forall e, In e rw -> in_range b p (fst e) = true -> sl (shift e) = sg e) ->
  (forall e, In e rw -> in_range b p (fst e) = false -> sr e = sg e) ->
  sa_dia_f k (flag_row sl (loc_row b p rw)) (flag_row sr (rem_row b p rw))
  = fold_left (fun dd (e : nat * S * bool) => if Nat.eqb (fst (fst e)) i || negb (snd e) then dd + snd (fst e) else dd)
              (flag_row sg rw) s0.
Proof.
  intros Hl Hr. unfold sa_dia_f.
  rewrite (fold_flag_row (fun e f => Nat.eqb (fst e) i || negb f) sg rw).
  rewrite (fold_flag_row (fun e f => Nat.eqb (fst e) k || negb f) sl (loc_row b p rw)).
  rewrite (fold_flag_row (fun e f => negb f) sr (rem_row b p rw)).
  rewrite (csum_split (fun e => Nat.eqb (fst e) i || negb (sg e)) (fun e => in_range b p (fst e)) rw s0).
  unfold rem_row.
  rewrite (csum_ext_in (fun e => negb (sr e)) (fun e => Nat.eqb (fst e) i || negb (sg e))).
  2:{ intros e He. apply filter_In in He as [He Er]. apply negb_true_iff in Er.
      rewrite (eqb_out _ Er). rewrite (Hr e He Er). reflexivity. }
  f_equal. unfold loc_row.
  rewrite (csum_map _ (fun e => ((fst e - b)%nat, snd e))) by reflexivity.
  apply csum_ext_in. intros e He. apply filter_In in He as [He Er]. cbn [fst snd].
  rewrite (eqb_shift _ Er). change (((fst e - b)%nat, snd e)) with (shift e). rewrite (Hl e He Er). reflexivity.
Qed.
End Row.

(* ------------------------------------------------------------------ the world *)
Section World.
Context {S : Scalar}.
Hypothesis Srt : Sring S.
Variable A : crs S.
Variable parts : list nat.
Hypothesis Hrows : psum parts = nrows A.
Hypothesis Hsq : ncols A = nrows A.
Hypothesis Hwf : wf A = true.
Variables junk eps2 omega : S.
Local Notation n := (length parts).
Local Notation D := (split A parts parts).
Local Notation Dg := (map (dia_of junk A) (seq 0 (nrows A))).
Local Notation sg := (strong_entry junk A eps2).

Lemma Hcols : psum parts = ncols A. Proof. rewrite Hsq. exact Hrows. Qed.

Lemma chunk_len {X} (l : list X) r : (r < n)%nat -> psum parts = length l ->
  length (nth r (chunks parts l) []) = psize parts r.
Proof.
  intros Hr Hl. rewrite nth_chunks by exact Hr. rewrite firstn_length, skipn_length.
  pose proof (pbeg_le_psum parts r). unfold psize. lia.
Qed.

Lemma chunk_nth {X} (l : list X) r k d : (r < n)%nat -> (k < psize parts r)%nat ->
  nth k (nth r (chunks parts l) []) d = nth (pbeg parts r + k) l d.
Proof.
  intros Hr Hk. rewrite nth_chunks by exact Hr. unfold psize in Hk.
  rewrite nth_firstn_lt by exact Hk. apply nth_skipn_add.
Qed.

Lemma first_col_loc_row b p (rw : row S) k : (k < p)%nat ->
  first_col (loc_row b p rw) k = first_col rw (b + k).
Proof.
  intro Hk. induction rw as [|[c v] rw IH]; [reflexivity|].
  unfold loc_row. cbn [filter fst]. destruct (in_range b p c) eqn:Er.
  - cbn [map first_col fst snd]. fold (loc_row b p rw). rewrite IH.
    replace (Nat.eqb (c - b) k) with (Nat.eqb c (b + k)); [reflexivity|].
    unfold in_range in Er. apply andb_prop in Er as [H1 H2]. apply Nat.leb_le in H1. lia.
  - fold (loc_row b p rw). rewrite IH. cbn [first_col].
    replace (Nat.eqb c (b + k)) with false; [reflexivity|].
    unfold in_range in Er. lia.
Qed.

Lemma local_rows_len r : (r < n)%nat ->
  length (rows (rm_loc (split_rank A parts parts r))) = psize parts r.
Proof.
  intro Hr. unfold split_rank, split_rows. cbn [rm_loc rows]. rewrite map_length.
  apply chunk_len; [exact Hr | exact Hrows].
Qed.

Lemma local_row_nth r k : (r < n)%nat -> (k < psize parts r)%nat ->
  nth k (rows (rm_loc (split_rank A parts parts r))) []
  = loc_row (pbeg parts r) (psize parts r) (nth (pbeg parts r + k) (rows A) []).
Proof.
  intros Hr Hk. unfold split_rank, split_rows. cbn [rm_loc rows].
  rewrite (nth_map_lt (loc_row (pbeg parts r) (psize parts r)) _ k [] [])
    by (rewrite chunk_len by (exact Hr || exact Hrows); exact Hk).
  rewrite chunk_nth by assumption. reflexivity.
Qed.

Lemma remote_row_nth r k : (r < n)%nat -> (k < psize parts r)%nat ->
  nth k (rows (rm_rem (split_rank A parts parts r))) []
  = rem_row (pbeg parts r) (psize parts r) (nth (pbeg parts r + k) (rows A) []).
Proof.
  intros Hr Hk. unfold split_rank, split_rows. cbn [rm_rem rows].
  rewrite (nth_map_lt (rem_row (pbeg parts r) (psize parts r)) _ k [] [])
    by (rewrite chunk_len by (exact Hr || exact Hrows); exact Hk).
  rewrite chunk_nth by assumption. reflexivity.
Qed.

(* the ranks' diagonals are the slices of the global diagonal *)
Lemma rank_dia_nth r k : (r < n)%nat -> (k < psize parts r)%nat ->
  nth k (rank_dia junk (split_rank A parts parts r)) s0 = dia_of junk A (pbeg parts r + k).
Proof.
  intros Hr Hk. unfold rank_dia.
  set (F := fun ir : nat * row S => match first_col (snd ir) (fst ir) with Some v => v | None => junk end).
  rewrite (nth_indep _ s0 (F (0%nat, []))) by (rewrite map_length, indexed_length, local_rows_len by exact Hr; exact Hk).
  rewrite (map_nth F). rewrite nth_indexed by (rewrite local_rows_len by exact Hr; exact Hk).
  unfold F. cbn [fst snd]. rewrite local_row_nth by assumption.
  rewrite first_col_loc_row by exact Hk. reflexivity.
Qed.

Lemma dist_dia_chunks : dist_dia junk D = chunks parts Dg.
Proof.
  unfold dist_dia, split. cbn [dm_ranks]. rewrite map_map.
  apply (nth_ext _ _ [] []).
  - rewrite map_length, seq_length, chunks_length. reflexivity.
  - intros r Hr. rewrite map_length, seq_length in Hr.
    rewrite nth_map_seq by exact Hr.
    apply (nth_ext _ _ s0 s0).
    + unfold rank_dia. rewrite map_length, indexed_length, local_rows_len by exact Hr.
      rewrite chunk_len; [reflexivity | exact Hr | rewrite map_length, seq_length; exact Hrows].
    + intros k Hk. unfold rank_dia in Hk. rewrite map_length, indexed_length, local_rows_len in Hk by exact Hr.
      rewrite rank_dia_nth by assumption.
      rewrite chunk_nth by assumption.
      pose proof (pbeg_le_psum parts r). unfold psize in Hk.
      rewrite (nth_indep _ s0 (dia_of junk A 0%nat)) by (rewrite map_length, seq_length; lia).
      rewrite (map_nth (dia_of junk A)). rewrite seq_nth by lia. reflexivity.
Qed.

Local Notation rcs := (map rem_cols (dm_ranks D)).
Local Notation pats := (dm_pattern D).
Local Notation Ds := (dist_dia junk D).

Lemma vget_Dg c : (c < nrows A)%nat -> vget Dg c = dia_of junk A c.
Proof.
  intro Hc. unfold vget. rewrite (nth_indep _ s0 (dia_of junk A 0%nat)) by (rewrite map_length, seq_length; exact Hc).
  rewrite (map_nth (dia_of junk A)). rewrite seq_nth by exact Hc. reflexivity.
Qed.

Lemma nth_Ds r : (r < n)%nat -> nth r Ds [] = rank_dia junk (split_rank A parts parts r).
Proof.
  intro Hr. unfold dist_dia.
  rewrite (nth_indep _ [] (rank_dia junk dflt_rank)) by (unfold split; cbn [dm_ranks]; rewrite !map_length, seq_length; exact Hr).
  rewrite (map_nth (rank_dia junk)). rewrite nth_rank by exact Hr. reflexivity.
Qed.

(* own diagonal values *)
Lemma vget_Dl r k : (r < n)%nat -> (k < psize parts r)%nat ->
  vget (nth r Ds []) k = dia_of junk A (pbeg parts r + k).
Proof. intros Hr Hk. rewrite nth_Ds by exact Hr. unfold vget. apply rank_dia_nth; assumption. Qed.

(* ghost diagonal values: what C.exchange delivers at C.local_index(c) is the diagonal of the owner of c *)
Lemma vget_Dghost r c : (r < n)%nat -> In c (rem_cols (split_rank A parts parts r)) ->
  vget (exchange pats Ds r) (index_of c (cp_rc (nth r pats dflt_cpat))) = dia_of junk A c.
Proof.
  intros Hr Hc. rewrite cp_rc_nth by exact Hr. rewrite nth_rcs by exact Hr.
  rewrite dist_dia_chunks. unfold dm_pattern. change (dm_cparts D) with parts.
  rewrite (exchange_spec parts rcs (rcs_len A parts parts) (rcs_ok A parts parts eq_refl Hrows Hcols Hwf) Dg r Hr).
  rewrite nth_rcs by exact Hr. rewrite vget_ghost by exact Hc.
  apply vget_Dg.
  pose proof (rcs_ok A parts parts eq_refl Hrows Hcols Hwf r Hr) as [_ Hf].
  rewrite nth_rcs in Hf by exact Hr. rewrite Forall_forall in Hf. specialize (Hf c Hc). rewrite <- Hrows. exact Hf.
Qed.

Lemma in_range_lt b p c : in_range b p c = true -> (b <= c < b + p)%nat.
Proof. unfold in_range. intro H. apply andb_prop in H as [H1 H2]. apply Nat.leb_le in H1. apply Nat.ltb_lt in H2. lia. Qed.

(* one rank: its filtered strip is the constructor's split of the filtered matrix of the whole matrix *)
Lemma rank_filtered_split r : (r < n)%nat ->
  rank_sa_filtered eps2 omega (split_rank A parts parts r) (nth r Ds []) (exchange pats Ds r) (cp_rc (nth r pats dflt_cpat))
  = split_rank (sa_glob_filtered omega A sg) parts parts r.
Proof.
  intro Hr.
  set (b := pbeg parts r). set (p := psize parts r).
  set (Dl := nth r Ds []). set (Dgh := exchange pats Ds r). set (rc := cp_rc (nth r pats dflt_cpat)).
  set (M := split_rank A parts parts r).
  assert (Hbp : (b + p <= nrows A)%nat) by (rewrite <- Hrows; apply pbeg_le_psum).
  assert (HlenL : length (rows (rm_loc M)) = p) by (apply local_rows_len; exact Hr).
  assert (HlenR : length (rows (rm_rem M)) = p).
  { unfold M, split_rank, split_rows. cbn [rm_rem rows]. rewrite map_length. apply chunk_len; [exact Hr | exact Hrows]. }
  assert (HlenF : length (nth r (chunks parts (rows (sa_glob_filtered omega A sg))) []) = p).
  { apply chunk_len; [exact Hr|]. unfold sa_glob_filtered. cbn [rows]. rewrite map_length, indexed_length. exact Hrows. }
  (* the k-th pair of rows *)
  assert (Hrow : forall k, (k < p)%nat ->
     nth k (rank_sa_rows eps2 omega M Dl Dgh rc) ([], [])
     = (loc_row b p (nth k (nth r (chunks parts (rows (sa_glob_filtered omega A sg))) []) []),
        rem_row b p (nth k (nth r (chunks parts (rows (sa_glob_filtered omega A sg))) []) []))).
  { intros k Hk. unfold rank_sa_rows.
    set (F := fun irr : nat * (row S * row S) =>
         (sa_loc_row omega (sa_scale_f omega (sa_dia_f (fst irr) (flag_row (loc_strong eps2 Dl (fst irr)) (fst (snd irr)))
                                                      (flag_row (rem_strong eps2 Dl Dgh rc (fst irr)) (snd (snd irr)))))
                     (fst irr) (flag_row (loc_strong eps2 Dl (fst irr)) (fst (snd irr))),
          sa_rem_row (sa_scale_f omega (sa_dia_f (fst irr) (flag_row (loc_strong eps2 Dl (fst irr)) (fst (snd irr)))
                                                      (flag_row (rem_strong eps2 Dl Dgh rc (fst irr)) (snd (snd irr)))))
                     (flag_row (rem_strong eps2 Dl Dgh rc (fst irr)) (snd (snd irr))))).
    change (nth k (map F (indexed (combine (rows (rm_loc M)) (rows (rm_rem M))))) ([], [])
            = (loc_row b p (nth k (nth r (chunks parts (rows (sa_glob_filtered omega A sg))) []) []),
               rem_row b p (nth k (nth r (chunks parts (rows (sa_glob_filtered omega A sg))) []) []))).
    assert (Hlc : length (combine (rows (rm_loc M)) (rows (rm_rem M))) = p) by (rewrite combine_length, HlenL, HlenR; apply Nat.min_id).
    rewrite (nth_indep _ ([], []) (F (0%nat, ([], [])))) by (rewrite map_length, indexed_length, Hlc; exact Hk).
    rewrite (map_nth F). rewrite nth_indexed by (rewrite Hlc; exact Hk).
    unfold Crs.row in *. rewrite combine_nth by (rewrite HlenL, HlenR; reflexivity).
    unfold M. rewrite local_row_nth, remote_row_nth by assumption. fold b p.
    rewrite chunk_nth by assumption. fold b.
    pose proof (nth_sa_glob_filtered S omega A sg (b + k)%nat ltac:(lia)) as Hf; unfold Crs.row in Hf; rewrite Hf; clear Hf.
    set (rw := nth (b + k) (rows A) []).
    assert (Hin : In rw (nth r (chunks parts (rows A)) [])).
    { unfold rw, b. rewrite <- (chunk_nth (rows A) r k [] Hr Hk). apply nth_In.
      rewrite chunk_len by (exact Hr || exact Hrows). exact Hk. }
    (* the strength tests agree *)
    assert (Hl : forall e, In e rw -> in_range b p (fst e) = true -> loc_strong eps2 Dl k (shift b e) = sg (b + k)%nat e).
    { intros e He Er. apply in_range_lt in Er. unfold loc_strong, strong_entry, shift. cbn [fst snd].
      unfold Dl. rewrite vget_Dl by assumption. fold b.
      rewrite (vget_Dl r (fst e - b)) by (assumption || (fold p; lia)). fold b.
      replace (b + (fst e - b))%nat with (fst e) by lia.
      replace (Nat.eqb (fst e - b) k) with (Nat.eqb (fst e) (b + k)) by lia. reflexivity. }
    assert (Hrm : forall e, In e rw -> in_range b p (fst e) = false -> rem_strong eps2 Dl Dgh rc k e = sg (b + k)%nat e).
    { intros e He Er. unfold rem_strong, strong_entry.
      unfold Dl. rewrite vget_Dl by assumption. fold b.
      unfold Dgh, rc. rewrite vget_Dghost; [| exact Hr |].
      - replace (Nat.eqb (fst e) (b + k)) with false; [reflexivity|]. unfold in_range in Er. lia.
      - unfold split_rank. apply (rem_cols_In _ _ _ _ rw e Hin).
        unfold rem_row. apply filter_In. split; [exact He|]. fold b p. rewrite Er. reflexivity. }
    unfold F. cbn [fst snd].
    rewrite (dia_part Srt b p (b + k) k eq_refl Hk _ _ (sg (b + k)%nat) rw Hl Hrm).
    unfold sa_loc_row, sa_rem_row, sa_glob_row.
    rewrite (flat_map_flag_row (fun e f => if Nat.eqb (fst e) k then [(fst e, (s1 - omega) * s1)] else if f then [(fst e, _ * snd e)] else [])).
    rewrite (flat_map_flag_row (fun e (f : bool) => if f then [(fst e, _ * snd e)] else [])).
    rewrite (flat_map_flag_row (fun e (f : bool) => if Nat.eqb (fst e) (b + k) then [(fst e, (s1 - omega) * s1)] else if f then [(fst e, _ * snd e)] else [])).
    f_equal.
    - apply (loc_part b p (b + k) k eq_refl); [exact Hk | exact Hl].
    - apply (rem_part b p (b + k) k eq_refl); solve [exact Hk | exact Hrm]. }
  unfold rank_sa_filtered. fold M. unfold split_rank at 1. unfold split_rows. fold b p.
  assert (HlenW : length (rank_sa_rows eps2 omega M Dl Dgh rc) = p).
  { unfold rank_sa_rows. rewrite map_length, indexed_length, combine_length. lia. }
  assert (HW : rank_sa_rows eps2 omega M Dl Dgh rc
               = map (fun rwF : row S => (loc_row b p rwF, rem_row b p rwF))
                     (nth r (chunks parts (rows (sa_glob_filtered omega A sg))) [])).
  { apply (nth_ext _ _ ([], []) ((fun rwF : row S => (loc_row b p rwF, rem_row b p rwF)) [])); [transitivity p; [exact HlenW | symmetry; rewrite map_length; exact HlenF]|].
    intros k Hk. assert (Hk' : (k < p)%nat) by (rewrite <- HlenW; exact Hk).
    rewrite (map_nth (fun rwF : row S => (loc_row b p rwF, rem_row b p rwF))). apply Hrow. exact Hk'. }
  rewrite HW, !map_map. reflexivity.
Qed.

(* the distributed filtered matrix is the split of the filtered matrix of the assembled matrix, for every partition *)
Theorem dist_sa_filtered_split :
  dist_sa_filtered junk eps2 omega D = split (sa_glob_filtered omega A sg) parts parts.
Proof.
  unfold dist_sa_filtered. change (dm_cparts D) with parts.
  transitivity (mkDmat parts (map (split_rank (sa_glob_filtered omega A sg) parts parts) (seq 0 n))); [|reflexivity].
  f_equal. apply map_ext_in. intros r Hr. apply in_seq in Hr.
  rewrite nth_rank by lia. apply rank_filtered_split. lia.
Qed.
End World.

(* ------------------------------------------------------------------ the theorems *)
Section Top.
Variable S : Scalar.
Hypothesis Sft : Sfield S.
Hypothesis Seqb : seqb_spec S.
Let Srt : Sring S := F_R Sft.

(* strength flags of the whole matrix: the test of pmis::conn_strength with the GLOBAL diagonal *)
Definition conn_flags (junk : S) (A : crs S) (eps2 : S) : flags := str_flags S A (strong_entry junk A eps2).

(* for every partition and every distributed P_tent: assembling the ranks' P gives the serial smoothed-aggregation formula
   P = (I - omega Df^-1 A_f) P_tent of the assembled matrix *)
Theorem dist_sa_smooth_every_partition (junk eps2 omega : S) (A Pt : crs S) (parts cparts : list nat) :
  psum parts = nrows A -> ncols A = nrows A -> wf A = true ->
  length parts = length cparts -> psum parts = nrows Pt ->
  forall i j, (i < nrows A)%nat -> sa_row_regular A (conn_flags junk A eps2) i = true ->
    mget (assemble (dist_sa_smooth junk eps2 omega (split A parts parts) (split Pt parts cparts))) i j
    = sa_formula omega A (conn_flags junk A eps2) Pt i j.
Proof.
  intros Hrows Hsq Hwf Hlen HPt i j Hi Hreg.
  unfold dist_sa_smooth. rewrite (dist_sa_filtered_split Srt A parts Hrows Hsq Hwf junk eps2 omega).
  rewrite (dist_product_dense Srt (sa_glob_filtered omega A (strong_entry junk A eps2)) Pt parts parts cparts eq_refl Hlen).
  - apply (sa_glob_smooth_formula S Sft Seqb omega A (strong_entry junk A eps2) Pt i j Hwf Hsq Hi Hreg).
  - unfold sa_glob_filtered, nrows. cbn [rows]. rewrite map_length, indexed_length. exact Hrows.
  - exact HPt.
Qed.

(* the strength pattern every rank computes with the exchanged diagonals is the pattern of the assembled matrix
   (what the PMIS model works on) -- so the model's aggregation and its filtered matrix use the same flags *)

(* with the PMIS model (Pmis.v) for P_tent: one call of transfer_operators, for every rank count and partition *)
Theorem dist_sa_transfer_every_partition (junk eps2 omega : S) (A : crs S) (parts : list nat) :
  psum parts = nrows A -> ncols A = nrows A -> wf A = true ->
  (forall i, (i < psum parts)%nat -> In i (grow (conn junk A eps2) i)) ->
  exists w Pt P R,
    pmis parts (conn junk A eps2) = Some w /\
    dist_sa_transfer junk eps2 omega A parts = Some (Pt, P, R) /\
    let PtG := ptent_of S (map (column w) (seq 0 (psum parts))) (psum (w_na w)) in
    Pt = split PtG parts (w_na w) /\
    R = dist_transpose P parts /\
    forall i j, (i < nrows A)%nat -> sa_row_regular A (conn_flags junk A eps2) i = true ->
      mget (assemble P) i j = sa_formula omega A (conn_flags junk A eps2) PtG i j.
Proof.
  intros Hrows Hsq Hwf Hdiag.
  destruct (pmis_partition parts (conn junk A eps2) Hdiag) as [w [Hw [Hvalid _]]].
  destruct (pmis_columns_partition parts (conn junk A eps2) Hdiag) as [cols [nas [Hc [_ [Hnas _]]]]].
  unfold pmis_columns in Hc. rewrite Hw in Hc. injection Hc as _ Hn. subst nas.
  pose proof (dist_ptent_is_split S parts w Hnas Hvalid) as HPt.
  exists w, (dist_ptent parts w),
         (dist_sa_smooth junk eps2 omega (split A parts parts) (dist_ptent parts w)),
         (dist_transpose (dist_sa_smooth junk eps2 omega (split A parts parts) (dist_ptent parts w)) parts).
  split; [exact Hw|]. split; [unfold dist_sa_transfer; rewrite Hw; reflexivity|].
  split; [exact HPt|]. split; [reflexivity|].
  intros i j Hi Hreg. rewrite HPt.
  apply dist_sa_smooth_every_partition; try assumption.
  - symmetry; exact Hnas.
  - unfold ptent_of, nrows. cbn [rows]. rewrite !map_length, seq_length. reflexivity.
Qed.
End Top.
