(* DistSolveProofs.v -- C12-A1: the rank-lifted CG of DistSolve.v computes, rank by rank, the
   restriction of the serial CG (Krylov.cg) run on the assembled system; iteration count and
   residual are the same on every rank; the ranks never disagree on the loop condition. *)
From Amgcl Require Import Scalar Vec Crs Kernels KernelsProofs MatOps Dist DistProofs Krylov DistSolve.
From Coq Require Import QArith_base.
Local Close Scope Q_scope.
Local Open Scope nat_scope.

(* ------------------------------------------------------------------ *)
(* generic list facts *)
Section Generic.
Context {X Y Z : Type}.

Lemma map2_repeat_l (f : X -> Y -> Z) (c : X) (L : list Y) n : length L = n ->
  map2 f (repeat c n) L = map (f c) L.
Proof. revert n; induction L as [|a L IH]; intros [|n] H; simpl in *; try lia; try reflexivity. f_equal. apply IH. lia. Qed.

Lemma map2_repeat_repeat (f : X -> Y -> Z) (a : X) (b : Y) n :
  map2 f (repeat a n) (repeat b n) = repeat (f a b) n.
Proof. induction n; simpl; [reflexivity | f_equal; assumption]. Qed.

Lemma combine_repeat (a : X) (b : Y) n : combine (repeat a n) (repeat b n) = repeat (a, b) n.
Proof. induction n; simpl; [reflexivity | f_equal; assumption]. Qed.

Lemma map_repeat' (f : X -> Y) (a : X) n : map f (repeat a n) = repeat (f a) n.
Proof. induction n; simpl; [reflexivity | f_equal; assumption]. Qed.

Lemma map_fst_combine (A : list X) (B : list Y) : length A = length B -> map fst (combine A B) = A.
Proof. revert B; induction A as [|a A IH]; intros [|b B] H; simpl in *; try lia; try reflexivity. f_equal. apply IH. lia. Qed.

Lemma forallb_repeat (p : X -> bool) (a : X) n : 0 < n -> forallb p (repeat a n) = p a.
Proof.
  induction n as [|n IH]; intro H; [lia|]. simpl. destruct n as [|n]; simpl in *.
  - apply andb_true_r.
  - rewrite IH by lia. apply andb_diag.
Qed.
End Generic.

Section VecFacts.
Context {S : Scalar}.
Local Notation vec := (vec S).
Local Notation leneq := (fun x y : vec => length x = length y).

Lemma vmap2_app (f : S -> S -> S) (x1 x2 y1 y2 : vec) : length x1 = length y1 ->
  vmap2 f (x1 ++ x2) (y1 ++ y2) = vmap2 f x1 y1 ++ vmap2 f x2 y2.
Proof. revert y1; induction x1 as [|a x1 IH]; intros [|b y1] H; simpl in *; try lia; try reflexivity. f_equal. apply IH. lia. Qed.

Lemma vmap2_len (f : S -> S -> S) (x y : vec) : length x = length y -> length (vmap2 f x y) = length x.
Proof. revert y; induction x as [|a x IH]; intros [|b y] H; simpl in *; try lia. f_equal. apply IH. lia. Qed.

Lemma k_axpby_app a b (x1 x2 y1 y2 : vec) : length x1 = length y1 ->
  k_axpby a (x1 ++ x2) b (y1 ++ y2) = k_axpby a x1 b y1 ++ k_axpby a x2 b y2.
Proof. intro H. unfold k_axpby. destruct (is_zero b); [apply map_app | apply vmap2_app; exact H]. Qed.

Lemma k_axpby_len a b (x y : vec) : length x = length y -> length (k_axpby a x b y) = length x.
Proof. intro H. unfold k_axpby. destruct (is_zero b); [apply map_length | apply vmap2_len; exact H]. Qed.

Lemma shapes_leneq (Xs Ys : list vec) : map (@length S) Xs = map (@length S) Ys -> Forall2 leneq Xs Ys.
Proof.
  revert Ys; induction Xs as [|x Xs IH]; intros [|y Ys] H; simpl in *; try discriminate; constructor.
  - injection H; auto.
  - apply IH. injection H; auto.
Qed.

(* a per-rank axpby with the same coefficients on every rank is the axpby of the assembled vectors *)
Lemma axpby_world a b (Xs Ys : list vec) : Forall2 leneq Xs Ys ->
  concat (map (fun xy => k_axpby a (fst xy) b (snd xy)) (combine Xs Ys)) = k_axpby a (concat Xs) b (concat Ys)
  /\ map (@length S) (map (fun xy => k_axpby a (fst xy) b (snd xy)) (combine Xs Ys)) = map (@length S) Xs.
Proof.
  induction 1 as [|x y Xs Ys Hxy HF [IH1 IH2]]; simpl.
  - split; [|reflexivity]. unfold k_axpby. destruct (is_zero b); reflexivity.
  - split.
    + rewrite IH1. symmetry. apply k_axpby_app. exact Hxy.
    + f_equal; [apply k_axpby_len; exact Hxy | exact IH2].
Qed.

Lemma residual_world (Fs AXs : list vec) : Forall2 leneq AXs Fs ->
  concat (map2 k_residual Fs AXs) = k_residual (concat Fs) (concat AXs)
  /\ map (@length S) (map2 k_residual Fs AXs) = map (@length S) Fs.
Proof.
  induction 1 as [|ax f AXs Fs Hxy HF [IH1 IH2]]; simpl.
  - split; reflexivity.
  - split.
    + rewrite IH1. unfold k_residual. symmetry. apply vmap2_app. exact Hxy.
    + f_equal; [unfold k_residual; rewrite vmap2_len; auto | exact IH2].
Qed.

Lemma clear_world (Xs : list vec) :
  concat (map k_clear Xs) = k_clear (concat Xs) /\ map (@length S) (map k_clear Xs) = map (@length S) Xs.
Proof.
  induction Xs as [|x Xs [IH1 IH2]]; simpl; [split; reflexivity|].
  split; [rewrite IH1; unfold k_clear; symmetry; apply map_app | f_equal; [apply map_length | exact IH2]].
Qed.
End VecFacts.

(* ------------------------------------------------------------------ *)
Section Lifted.
Context {S : Scalar}.
Local Notation vec := (vec S).
Local Open Scope S_scope.
Hypothesis Srt : Sring S.
Variable parts : list nat.
Local Notation n := (length parts).
Hypothesis Hn : (0 < n)%nat.

Definition shape (Xs : list vec) : Prop := map (@length S) Xs = parts.

(* the distributed operator / preconditioner act on world vectors of the right shape as the
   serial ones act on the assembled vectors (for the operator this is C11-A1) *)
Variables Aw Pw : list vec -> list vec.
Variables Aser Pser : vec -> vec.
Hypothesis HA : forall Xs, shape Xs -> shape (Aw Xs) /\ concat (Aw Xs) = Aser (concat Xs).
Hypothesis HP : forall Xs, shape Xs -> shape (Pw Xs) /\ concat (Pw Xs) = Pser (concat Xs).

Lemma shape_len Xs : shape Xs -> length Xs = n.
Proof. intro H. rewrite <- H. symmetry. apply map_length. Qed.

Lemma shape_leneq Xs Ys : shape Xs -> shape Ys -> Forall2 (fun x y : vec => length x = length y) Xs Ys.
Proof. intros H1 H2. apply shapes_leneq. unfold shape in *. congruence. Qed.

Lemma dist_ip_world Xs Ys : shape Xs -> shape Ys ->
  dist_inner_product Xs Ys = repeat (ip (concat Xs) (concat Ys)) n.
Proof.
  intros H1 H2. rewrite (dist_inner_product_serial Srt Xs Ys) by (apply shape_leneq; assumption).
  rewrite (shape_len Xs H1). reflexivity.
Qed.

Lemma dist_norm_world Xs : shape Xs -> dist_norm_a Xs = repeat (norm_a (concat Xs)) n.
Proof. intro H. unfold dist_norm_a. rewrite dist_ip_world by assumption. rewrite map_repeat'. reflexivity. Qed.

Lemma axpby_lift (c : S) (fa fb : S -> S) (Xs Ys : list vec) : shape Xs -> shape Ys ->
  let Zs := map2 (fun c xy => k_axpby (fa c) (fst xy) (fb c) (snd xy)) (repeat c n) (combine Xs Ys) in
  shape Zs /\ concat Zs = k_axpby (fa c) (concat Xs) (fb c) (concat Ys).
Proof.
  intros H1 H2 Zs. unfold Zs.
  rewrite map2_repeat_l by (rewrite combine_length, (shape_len _ H1), (shape_len _ H2); lia).
  destruct (axpby_world (fa c) (fb c) Xs Ys (shape_leneq _ _ H1 H2)) as [E1 E2].
  split; [unfold shape; rewrite E2; exact H1 | exact E1].
Qed.

(* ---- the simulation relation ---- *)
Definition Rel (w : wcg) (st : cg_st) : Prop :=
  (shape (w_x w) /\ shape (w_r w) /\ shape (w_s w) /\ shape (w_p w) /\ shape (w_q w)) /\
  (concat (w_x w) = c_x st /\ concat (w_r w) = cg_r (c_ws st) /\ concat (w_s w) = cg_s (c_ws st) /\
   concat (w_p w) = cg_p (c_ws st) /\ concat (w_q w) = cg_q (c_ws st)) /\
  (w_rho1 w = repeat (c_rho1 st) n /\ w_rho2 w = repeat (c_rho2 st) n /\
   w_res w = repeat (c_res st) n /\ w_it w = repeat (c_it st) n).

Lemma wcg_step_rel w st : Rel w st -> Rel (wcg_step Aw Pw w) (cg_step Aser Pser st).
Proof.
  intros [[Sx [Sr [Ss [Sp Sq]]]] [[Cx [Cr [Cs [Cp Cq]]]] [R1 [R2 [R3 R4]]]]].
  unfold wcg_step, cg_step.
  destruct (HP (w_r w) Sr) as [Sss Css]. rewrite Cr in Css.
  remember (Pw (w_r w)) as ss eqn:Ess.
  assert (Erho1 : dist_inner_product (w_r w) ss = repeat (ip (cg_r (c_ws st)) (Pser (cg_r (c_ws st)))) n).
  { rewrite dist_ip_world by assumption. rewrite Cr, Css. reflexivity. }
  rewrite Erho1, R1, R4.
  remember (ip (cg_r (c_ws st)) (Pser (cg_r (c_ws st)))) as rho1 eqn:Erho.
  (* p *)
  rewrite !combine_repeat.
  rewrite (map2_repeat_l _ _ (combine ss (w_p w))) by (rewrite combine_length, (shape_len _ Sss), (shape_len _ Sp); lia).
  cbn [fst snd].
  remember (map (fun sp : vec * vec => if Nat.eqb (c_it st) 0 then fst sp
                   else k_axpby s1 (fst sp) (rho1 / c_rho1 st) (snd sp)) (combine ss (w_p w))) as ps eqn:Eps.
  remember (if Nat.eqb (c_it st) 0 then Pser (cg_r (c_ws st))
            else k_axpby s1 (Pser (cg_r (c_ws st))) (rho1 / c_rho1 st) (cg_p (c_ws st))) as pser eqn:Epser.
  assert (Hp : shape ps /\ concat ps = pser).
  { subst ps pser. destruct (Nat.eqb (c_it st) 0).
    - rewrite map_fst_combine by (rewrite (shape_len _ Sss), (shape_len _ Sp); reflexivity).
      split; assumption.
    - destruct (axpby_world s1 (rho1 / c_rho1 st) ss (w_p w) (shape_leneq _ _ Sss Sp)) as [E1 E2].
      split; [unfold shape; rewrite E2; exact Sss | rewrite E1, Css, Cp; reflexivity]. }
  destruct Hp as [Sps Cps].
  (* q *)
  destruct (HA ps Sps) as [Sqs Cqs]. rewrite Cps in Cqs.
  remember (Aw ps) as qs eqn:Eqs.
  (* alpha *)
  rewrite (dist_ip_world qs ps Sqs Sps), Cqs, Cps, map2_repeat_repeat.
  remember (rho1 / ip (Aser pser) pser) as alpha eqn:Ealpha.
  (* x and r *)
  destruct (axpby_lift alpha (fun a => a) (fun _ => s1) ps (w_x w) Sps Sx) as [Sxs Cxs].
  destruct (axpby_lift alpha (fun a => sopp a) (fun _ => s1) qs (w_r w) Sqs Sr) as [Srs Crs].
  cbv beta zeta in Sxs, Cxs, Srs, Crs. rewrite Cps, Cx in Cxs. rewrite Cqs, Cr in Crs.
  remember (map2 (fun (a : S) (px : vec * vec) => k_axpby a (fst px) s1 (snd px)) (repeat alpha n) (combine ps (w_x w))) as xs eqn:Exs.
  remember (map2 (fun (a : S) (qr : vec * vec) => k_axpby (- a) (fst qr) s1 (snd qr)) (repeat alpha n) (combine qs (w_r w))) as rs eqn:Ers.
  unfold Rel. cbn [w_x w_r w_s w_p w_q w_rho1 w_rho2 w_res w_it c_x c_ws c_rho1 c_rho2 c_res c_it cg_r cg_s cg_p cg_q].
  repeat split; try assumption.
  - rewrite dist_norm_world by assumption. rewrite Crs. reflexivity.
  - apply map_repeat'.
Qed.

Lemma wcg_conts_rel maxiter eps w st : Rel w st ->
  wcg_conts maxiter (repeat eps n) w = repeat (Nat.ltb (c_it st) maxiter && sltb eps (sabs (c_res st))) n.
Proof.
  intros [_ [_ [_ [_ [R3 R4]]]]]. unfold wcg_conts. rewrite R3, R4, combine_repeat, map2_repeat_repeat. reflexivity.
Qed.

(* the ranks never disagree, and the world loop tracks the serial loop *)
Lemma wcg_loop_rel maxiter eps : forall fuel w st, Rel w st -> (c_it st + fuel)%nat = maxiter ->
  exists w', wcg_loop Aw Pw maxiter (repeat eps n) fuel w = Some w' /\ Rel w' (cg_loop Aser Pser eps fuel st).
Proof.
  induction fuel as [|k IH]; intros w st HR Hf; simpl.
  - exists w. split; [reflexivity | exact HR].
  - rewrite (wcg_conts_rel maxiter eps w st HR).
    replace (Nat.ltb (c_it st) maxiter) with true by (symmetry; apply Nat.ltb_lt; lia).
    simpl andb. rewrite !forallb_repeat by exact Hn.
    destruct (sltb eps (sabs (c_res st))); simpl.
    + apply IH; [apply wcg_step_rel; exact HR | simpl; lia].
    + exists w. split; [reflexivity | exact HR].
Qed.

(* ---- the whole solve ---- *)
Lemma w_prologue_world prm Fs : shape Fs ->
  w_prologue prm Fs = repeat (k_prologue norm_a prm (concat Fs)) n.
Proof.
  intro H. unfold w_prologue, k_prologue. rewrite dist_norm_world by exact H. rewrite map_repeat'. reflexivity.
Qed.

Theorem wcg_run_spec prm (Fs Xs0 : list vec) (junk : wcg) (sjunk : cg_ws) :
  shape Fs -> shape Xs0 ->
  shape (w_s junk) -> shape (w_p junk) -> shape (w_q junk) ->
  concat (w_s junk) = cg_s sjunk -> concat (w_p junk) = cg_p sjunk -> concat (w_q junk) = cg_q sjunk ->
  exists r res,
    fst (cg Aser Pser prm (concat Fs) (concat Xs0) sjunk) = KOk r /\
    wcg_run Aw Pw prm Fs Xs0 junk = Some res /\
    map (@k_it S) res = repeat (k_it r) n /\
    map (@k_res S) res = repeat (k_res r) n /\
    shape (map (@k_x S) res) /\
    concat (map (@k_x S) res) = k_x r.
Proof.
  intros SF SX Ss Sp Sq Cs Cp Cq.
  unfold wcg_run, cg. rewrite (w_prologue_world prm Fs SF).
  destruct (k_prologue norm_a prm (concat Fs)) as [nr|nr] eqn:Hpro.
  - (* trivial exit on every rank *)
    rewrite !forallb_repeat by exact Hn. simpl.
    rewrite map2_repeat_l by (apply shape_len; exact SX). simpl.
    destruct (clear_world Xs0) as [E1 E2].
    eexists. eexists. split; [reflexivity|]. split; [reflexivity|].
    rewrite !map_map. simpl.
    repeat split.
    + rewrite map_const, (shape_len _ SX). reflexivity.
    + rewrite map_const, (shape_len _ SX). reflexivity.
    + unfold shape. change (map (fun x => k_clear x) Xs0) with (map k_clear Xs0). rewrite E2. exact SX.
    + change (map (fun x => k_clear x) Xs0) with (map k_clear Xs0). exact E1.
  - rewrite !forallb_repeat by exact Hn. simpl.
    rewrite map_repeat'. simpl pro_val.
    unfold wcg_init, cg_init.
    rewrite !map_repeat'.
    set (eps := smax (p_tol prm * nr) (p_abstol prm)).
    destruct (HA Xs0 SX) as [SAx CAx].
    destruct (residual_world Fs (Aw Xs0) (shape_leneq _ _ SAx SF)) as [Er1 Er2].
    assert (Srs : shape (map2 k_residual Fs (Aw Xs0))) by (unfold shape; rewrite Er2; exact SF).
    rewrite CAx in Er1.
    match goal with |- context [wcg_loop Aw Pw ?mi ?es ?fu ?W] => remember W as w0 eqn:Ew0 end.
    match goal with |- context [cg_loop Aser Pser ?e ?fu ?W] => remember W as st0 eqn:Est0 end.
    assert (HR : Rel w0 st0).
    { subst w0 st0. unfold Rel. cbn. repeat split; try assumption.
      rewrite dist_norm_world by exact Srs. rewrite Er1. reflexivity. }
    destruct (wcg_loop_rel (p_maxiter prm) eps (p_maxiter prm) w0 st0 HR) as [w' [Hl HR']]; [rewrite Est0; reflexivity|].
    rewrite Hl.
    destruct HR' as [[Sx' _] [[Cx' _] [_ [_ [R3 R4]]]]].
    eexists. eexists. split; [reflexivity|]. split; [reflexivity|].
    rewrite R3, R4, !combine_repeat.
    rewrite map2_repeat_l by (apply shape_len; exact Sx').
    rewrite !map_map. simpl.
    repeat split.
    + rewrite map_const, (shape_len _ Sx'). reflexivity.
    + rewrite map_const, (shape_len _ Sx'). reflexivity.
    + rewrite map_id. exact Sx'.
    + rewrite map_id. exact Cx'.
Qed.

(* ---- Richardson ---- *)
Definition RelRi (w : wri) (st : ri_st) : Prop :=
  (shape (v_x w) /\ shape (v_r w)) /\
  (concat (v_x w) = i_x st /\ concat (v_r w) = ri_r (i_ws st)) /\
  (v_res w = repeat (i_res st) n /\ v_it w = repeat (i_it st) n).

Lemma wri_step_rel damping Fs w st : shape Fs -> RelRi w st ->
  RelRi (wri_step Aw Pw damping Fs w) (ri_step Aser Pser damping (concat Fs) st).
Proof.
  intros SF [[Sx Sr] [[Cx Cr] [R3 R4]]]. unfold wri_step, ri_step.
  destruct (HP (v_r w) Sr) as [Sss Css]. rewrite Cr in Css.
  remember (Pw (v_r w)) as ss eqn:Ess.
  destruct (axpby_world damping s1 ss (v_x w) (shape_leneq _ _ Sss Sx)) as [E1 E2].
  rewrite Css, Cx in E1.
  remember (map (fun sx : vec * vec => k_axpby damping (fst sx) s1 (snd sx)) (combine ss (v_x w))) as xs eqn:Exs.
  assert (Sxs : shape xs) by (unfold shape; rewrite E2; exact Sss).
  destruct (HA xs Sxs) as [SAx CAx]. rewrite E1 in CAx.
  destruct (residual_world Fs (Aw xs) (shape_leneq _ _ SAx SF)) as [Er1 Er2]. rewrite CAx in Er1.
  remember (map2 k_residual Fs (Aw xs)) as rs eqn:Ers.
  assert (Srs : shape rs) by (unfold shape; rewrite Er2; exact SF).
  unfold RelRi. cbn [v_x v_r v_s v_res v_it i_x i_ws i_res i_it ri_r ri_s].
  repeat split; try assumption.
  - rewrite dist_norm_world by assumption. rewrite Er1. reflexivity.
  - rewrite R4. apply map_repeat'.
Qed.

Lemma wri_loop_rel damping Fs maxiter eps : shape Fs -> forall fuel w st, RelRi w st -> (i_it st + fuel)%nat = maxiter ->
  exists w', wri_loop Aw Pw damping Fs maxiter (repeat eps n) fuel w = Some w' /\
             RelRi w' (ri_loop Aser Pser damping (concat Fs) eps fuel st).
Proof.
  intro SF. induction fuel as [|k IH]; intros w st HR Hf; simpl.
  - exists w. split; [reflexivity | exact HR].
  - assert (Ec : wri_conts maxiter (repeat eps n) w = repeat (Nat.ltb (i_it st) maxiter && sltb eps (sabs (i_res st))) n).
    { destruct HR as [_ [_ [R3 R4]]]. unfold wri_conts. rewrite R3, R4, combine_repeat, map2_repeat_repeat. reflexivity. }
    rewrite Ec.
    replace (Nat.ltb (i_it st) maxiter) with true by (symmetry; apply Nat.ltb_lt; lia).
    simpl andb. rewrite !forallb_repeat by exact Hn.
    destruct (sltb eps (sabs (i_res st))); simpl.
    + apply IH; [apply wri_step_rel; assumption | simpl; lia].
    + exists w. split; [reflexivity | exact HR].
Qed.

Theorem wri_run_spec prm (Fs Xs0 junk_s : list vec) (sjunk : ri_ws) :
  shape Fs -> shape Xs0 ->
  exists r res,
    fst (richardson Aser Pser prm (concat Fs) (concat Xs0) sjunk) = KOk r /\
    wri_run Aw Pw prm Fs Xs0 junk_s = Some res /\
    map (@k_it S) res = repeat (k_it r) n /\
    map (@k_res S) res = repeat (k_res r) n /\
    shape (map (@k_x S) res) /\
    concat (map (@k_x S) res) = k_x r.
Proof.
  intros SF SX.
  unfold wri_run, richardson. rewrite (w_prologue_world prm Fs SF).
  destruct (k_prologue norm_a prm (concat Fs)) as [nr|nr] eqn:Hpro.
  - rewrite !forallb_repeat by exact Hn. simpl.
    rewrite map2_repeat_l by (apply shape_len; exact SX). simpl.
    destruct (clear_world Xs0) as [E1 E2].
    eexists. eexists. split; [reflexivity|]. split; [reflexivity|].
    rewrite !map_map. simpl.
    repeat split.
    + rewrite map_const, (shape_len _ SX). reflexivity.
    + rewrite map_const, (shape_len _ SX). reflexivity.
    + unfold shape. change (map (fun x => k_clear x) Xs0) with (map k_clear Xs0). rewrite E2. exact SX.
    + change (map (fun x => k_clear x) Xs0) with (map k_clear Xs0). exact E1.
  - rewrite !forallb_repeat by exact Hn. simpl.
    rewrite map_repeat'. simpl pro_val. rewrite !map_repeat'.
    set (eps := smax (p_tol prm * nr) (p_abstol prm)).
    destruct (HA Xs0 SX) as [SAx CAx].
    destruct (residual_world Fs (Aw Xs0) (shape_leneq _ _ SAx SF)) as [Er1 Er2].
    assert (Srs : shape (map2 k_residual Fs (Aw Xs0))) by (unfold shape; rewrite Er2; exact SF).
    rewrite CAx in Er1.
    match goal with |- context [wri_loop Aw Pw ?d ?f ?mi ?es ?fu ?W] => remember W as w0 eqn:Ew0 end.
    match goal with |- context [ri_loop Aser Pser ?d ?f ?e ?fu ?W] => remember W as st0 eqn:Est0 end.
    assert (HR : RelRi w0 st0).
    { subst w0 st0. unfold RelRi. cbn. repeat split; try assumption.
      rewrite dist_norm_world by exact Srs. rewrite Er1. reflexivity. }
    destruct (wri_loop_rel (p_damping prm) Fs (p_maxiter prm) eps SF (p_maxiter prm) w0 st0 HR) as [w' [Hl HR']];
      [rewrite Est0; reflexivity|].
    rewrite Hl.
    destruct HR' as [[Sx' _] [[Cx' _] [R3 R4]]].
    eexists. eexists. split; [reflexivity|]. split; [reflexivity|].
    rewrite R3, R4, !combine_repeat.
    rewrite map2_repeat_l by (apply shape_len; exact Sx').
    rewrite !map_map. simpl.
    repeat split.
    + rewrite map_const, (shape_len _ Sx'). reflexivity.
    + rewrite map_const, (shape_len _ Sx'). reflexivity.
    + rewrite map_id. exact Sx'.
    + rewrite map_id. exact Cx'.
Qed.

End Lifted.

(* ------------------------------------------------------------------ *)
(* the distributed matrix of C11 is such a world operator (C11-A1 => hypothesis HA) *)
Section Instance.
Context {S : Scalar}.
Local Notation vec := (vec S).
Hypothesis Srt : Sring S.
Hypothesis Seqb : seqb_spec S.

Lemma chunks_concat (Xs : list vec) : chunks (map (@length S) Xs) (concat Xs) = Xs.
Proof.
  induction Xs as [|x Xs IH]; simpl; [reflexivity|].
  rewrite firstn_length_app, skipn_length_app, IH. reflexivity.
Qed.

(* y = 1 * A x + 0 * y on every rank (backend::spmv(1, A, x, 0, y) with the distributed matrix) *)
Definition dist_op (A : crs S) (parts : list nat) (Xs : list vec) : list vec :=
  dist_spmv s1 (split A parts parts) Xs s0 (chunks parts (vzero (nrows A))).
Definition serial_op (A : crs S) (x : vec) : vec := spmv s1 A x s0 (vzero (nrows A)).

Theorem dist_op_is_world_op (A : crs S) (parts : list nat) :
  wf A = true -> psum parts = nrows A -> psum parts = ncols A ->
  forall Xs, shape parts Xs ->
    shape parts (dist_op A parts Xs) /\ concat (dist_op A parts Xs) = serial_op A (concat Xs).
Proof.
  intros Hwf Hr Hc Xs HX. unfold dist_op, serial_op, shape in *.
  rewrite <- (chunks_concat Xs) at 1 2. rewrite HX.
  assert (Hz : length (@vzero S (nrows A)) = nrows A) by apply repeat_length.
  split.
  - apply (dist_spmv_shape Srt Seqb A parts parts eq_refl Hr Hc Hwf s1 (concat Xs) s0 _ Hz).
  - apply (dist_spmv_assembled Srt Seqb A parts parts eq_refl Hr Hc Hwf s1 (concat Xs) s0 _ Hz).
Qed.

End Instance.
