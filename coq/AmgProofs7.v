(* AmgProofs7.v -- property C02-A3 in full: symmetry of the multigrid preconditioner for
   npre = npost = k, any ncycle (V- and W-cycles) and any pre_cycles >= 1.
   Method: a stationary iteration Phi(f, x) is
     consistent  if  Phi(f, x) = x + Phi(f - A x, 0),
     dual to Psi if  <Psi(f, x), g> = <f, Phi(g, 0)> + <x, g - A Phi(g, 0)>;
   both notions are closed under composition (the dual of "Psi1 then Psi2" is "Phi2 then Phi1"),
   pre-/post-smoothers are dual to each other, the coarse-grid correction is self-dual when the
   coarse operator is symmetric and R = P^T, hence the cycle is self-dual and its value at x = 0
   is a symmetric operator. *)
From Amgcl Require Import Scalar Vec Crs Kernels KernelsProofs MatOps MatOpsProofs Relax DenseSolve
  Amg AmgExec AmgProofs AmgProofs2 AmgProofs3 AmgProofs4 AmgProofs6.
Local Open Scope S_scope.

Section A3Full.
Context {S : Scalar}.
Local Notation vec := (vec S).
Local Notation crs := (crs S).
Local Notation level := (@level S).
Local Notation scratch := (@scratch S).
Local Notation sweep := (@sweep S).
Hypothesis Srt : Sring S.
Hypothesis Seqb : seqb_spec S.
Add Ring SRingA7 : Srt.

Local Notation zero_is_zero := (zero_is_zero Seqb).
Local Notation ip := (@ip S).

(* --- a fixed level size n and matrix A --- *)
Section Iterations.
Variable n : nat.
Variable A : crs.
Hypothesis WA : wf A = true.
Hypothesis NA : nrows A = n.
Hypothesis SA : sym_mat n A.

Definition res (f x : vec) : vec := residual f A x (vzero n).
Definition z : vec := vzero n.

Lemma Lz : length z = n. Proof. apply vzero_length. Qed.

Lemma res_length f x : length f = n -> length (res f x) = n.
Proof. intro Lf. unfold res. rewrite <- NA in *. apply residual_length; rewrite ?vzero_length; congruence. Qed.

Lemma res_get f x i : length f = n -> i < n -> vget (res f x) i = vget f i - Ax A x i.
Proof. intros Lf Hi. unfold res. rewrite <- NA in *. apply (residual_spec Srt); rewrite ?vzero_length; auto. Qed.

Lemma vadd_get (x y : vec) i : length x = n -> length y = n ->
  vget (vlin s1 x s1 y) i = vget x i + vget y i.
Proof. intros Lx Ly. rewrite (vlin_get Srt) by congruence. ring. Qed.

Lemma vadd_length (x y : vec) : length x = n -> length y = n -> length (vlin s1 x s1 y) = n.
Proof. apply vlin_length. Qed.

(* f - A (y + w) = (f - A y) - A w *)
Lemma res_add f (y w : vec) : length f = n -> length y = n -> length w = n ->
  res f (vlin s1 y s1 w) = res (res f y) w.
Proof.
  intros Lf Ly Lw. apply (vec_ext).
  - rewrite !res_length; auto using res_length.
  - rewrite res_length by exact Lf. intros i Hi.
    rewrite !res_get by (auto using res_length). rewrite (Ax_lin Srt) by congruence. ring.
Qed.

Lemma res_zero f : length f = n -> res f z = f.
Proof.
  intro Lf. apply vec_ext; [rewrite res_length; auto|].
  rewrite res_length by exact Lf. intros i Hi. rewrite res_get by assumption.
  unfold z. rewrite (Ax_zero Srt). ring.
Qed.

Lemma vadd_zero_l (x : vec) : length x = n -> vlin s1 z s1 x = x.
Proof.
  intro Lx. apply vec_ext; [rewrite vadd_length; auto using Lz|].
  rewrite vadd_length by (auto using Lz). intros i Hi. rewrite vadd_get by (auto using Lz).
  unfold z. rewrite vget_vzero. ring.
Qed.

Lemma vadd_assoc (x y w : vec) : length x = n -> length y = n -> length w = n ->
  vlin s1 (vlin s1 x s1 y) s1 w = vlin s1 x s1 (vlin s1 y s1 w).
Proof.
  intros Lx Ly Lw. apply vec_ext; [rewrite !vadd_length; auto using vadd_length|].
  rewrite vadd_length by (auto using vadd_length). intros i Hi.
  rewrite !vadd_get by (auto using vadd_length). ring.
Qed.

Lemma ip_add_r (f x y : vec) : length x = n -> length y = n ->
  ip n f (vlin s1 x s1 y) = ip n f x + ip n f y.
Proof.
  intros Lx Ly. rewrite (ip_sym Srt), (ip_lin_l Srt n s1 x s1 y) by (intros; apply (vlin_get Srt); congruence).
  rewrite (ip_sym Srt n x), (ip_sym Srt n y). ring.
Qed.

Lemma ip_zero_l (g : vec) : ip n z g = s0.
Proof.
  unfold Amg.iter, AmgProofs6.ip. rewrite (sumn_ext _ (fun _ => s0)); [apply (sumn_zero Srt)|].
  intros i _. unfold z. rewrite vget_vzero. ring.
Qed.

(* <f - A x, w> = <f, w> - <x, A w>  (A symmetric) *)
Lemma ip_res_l (f x w : vec) : length f = n -> length x = n -> length w = n ->
  ip n (res f x) w = ip n f w - qA n A w x.
Proof.
  intros Lf Lx Lw. destruct SA as [HcA HsA].
  rewrite (ip_lin_l Srt n s1 f (sopp s1) (map (fun r => dotrow r x) (rows A)) (res f x) w).
  2:{ intros i Hi. rewrite res_get by assumption.
      rewrite (dotrows_get Srt) by (auto; congruence). ring. }
  rewrite (ip_Ax n A x (map (fun r => dotrow r x) (rows A)))
    by (intros i Hi; apply (dotrows_get Srt); auto; congruence).
  rewrite (qA_adj Srt A A n n x w HcA HcA HsA). ring.
Qed.

Definition iteration := vec -> vec -> vec.

Definition it_len (Phi : iteration) : Prop :=
  forall f x, length f = n -> length x = n -> length (Phi f x) = n.
Definition it_cons (Phi : iteration) : Prop :=
  forall f x, length f = n -> length x = n -> Phi f x = vlin s1 x s1 (Phi (res f x) z).
Definition it_dual (Psi Phi : iteration) : Prop :=
  forall f x g, length f = n -> length x = n -> length g = n ->
    ip n (Psi f x) g = ip n f (Phi g z) + ip n x (res g (Phi g z)).

Definition comp (Phi2 Phi1 : iteration) : iteration := fun f x => Phi2 f (Phi1 f x).

Lemma comp_len Phi2 Phi1 : it_len Phi2 -> it_len Phi1 -> it_len (comp Phi2 Phi1).
Proof. intros H2 H1 f x Lf Lx. unfold comp. apply H2; [exact Lf|apply H1; assumption]. Qed.

Lemma comp_cons Phi1 Phi2 : it_len Phi1 -> it_len Phi2 -> it_cons Phi1 -> it_cons Phi2 ->
  it_cons (comp Phi1 Phi2).
Proof.
  intros L1 L2 C1 C2 f x Lf Lx. unfold comp.
  assert (Lh : length (res f x) = n) by (apply res_length; exact Lf).
  set (h := res f x) in *.
  assert (Lw : length (Phi2 h z) = n) by (apply L2; auto using Lz).
  rewrite (C2 f x Lf Lx). fold h.
  rewrite (C1 f (vlin s1 x s1 (Phi2 h z)) Lf) by (apply vadd_length; assumption).
  rewrite (res_add f x (Phi2 h z) Lf Lx Lw). fold h.
  rewrite (C1 h (Phi2 h z) Lh Lw).
  rewrite vadd_assoc; auto.
  apply L1; [apply res_length; exact Lh|apply Lz].
Qed.

(* the dual of "Psi1 then Psi2" is "Phi2 then Phi1" *)
Lemma comp_dual Psi1 Psi2 Phi1 Phi2 :
  it_len Psi1 -> it_len Phi1 -> it_len Phi2 -> it_cons Phi1 ->
  it_dual Psi1 Phi1 -> it_dual Psi2 Phi2 ->
  it_dual (comp Psi2 Psi1) (comp Phi1 Phi2).
Proof.
  intros LP1 L1 L2 C1 D1 D2 f x g Lf Lx Lg. unfold comp.
  assert (Lw : length (Phi2 g z) = n) by (apply L2; auto using Lz).
  assert (Lg' : length (res g (Phi2 g z)) = n) by (apply res_length; exact Lg).
  set (g' := res g (Phi2 g z)) in *.
  assert (Lv : length (Phi1 g' z) = n) by (apply L1; auto using Lz).
  rewrite (D2 f (Psi1 f x) g Lf (LP1 f x Lf Lx) Lg). fold g'.
  rewrite (D1 f x g' Lf Lx Lg').
  rewrite (C1 g (Phi2 g z) Lg Lw). fold g'.
  rewrite (ip_add_r f (Phi2 g z) (Phi1 g' z) Lw Lv).
  rewrite (res_add g (Phi2 g z) (Phi1 g' z) Lg Lw Lv). fold g'. ring.
Qed.

(* powers *)
Definition itpow (k : nat) (Phi : iteration) : iteration := fun f x => iter k (Phi f) x.

Lemma iter_comm {X} (h : X -> X) k x : iter k h (h x) = h (iter k h x).
Proof. revert x; induction k as [|k IH]; intro x; simpl; [reflexivity|]. apply IH. Qed.

Lemma itpow_len k Phi : it_len Phi -> it_len (itpow k Phi).
Proof.
  intros HL. unfold itpow. induction k as [|k IH]; intros f x Lf Lx; simpl; [exact Lx|].
  apply IH; [exact Lf|apply HL; assumption].
Qed.

Lemma id_cons : it_cons (fun _ x => x).
Proof. intros f x Lf Lx. symmetry.
  apply vec_ext; [rewrite vadd_length; auto using Lz|].
  rewrite vadd_length by (auto using Lz). intros i Hi. rewrite vadd_get by (auto using Lz).
  unfold z. rewrite vget_vzero. ring.
Qed.

Lemma id_dual : it_dual (fun _ x => x) (fun _ x => x).
Proof.
  intros f x g Lf Lx Lg. rewrite (res_zero g Lg), (ip_sym Srt n f z), ip_zero_l. ring.
Qed.

Lemma itpow_cons k Phi : it_len Phi -> it_cons Phi -> it_cons (itpow k Phi).
Proof.
  intros HL HC. induction k as [|k IH].
  - exact id_cons.
  - intros f x Lf Lx.
    change (itpow (Datatypes.S k) Phi f x) with (comp (itpow k Phi) Phi f x).
    rewrite (comp_cons (itpow k Phi) Phi (itpow_len k Phi HL) HL IH HC f x Lf Lx). reflexivity.
Qed.

Lemma itpow_dual k Psi Phi : it_len Psi -> it_len Phi -> it_cons Phi ->
  it_dual Psi Phi -> it_dual (itpow k Psi) (itpow k Phi).
Proof.
  intros LP LF HC HD. induction k as [|k IH].
  - exact id_dual.
  - intros f x g Lf Lx Lg.
    (* Psi^(k+1) = Psi^k after Psi ; Phi^(k+1) = Phi after Phi^k *)
    assert (E : forall h y, itpow (Datatypes.S k) Phi h y = comp Phi (itpow k Phi) h y).
    { intros h y. unfold itpow, comp. simpl. apply iter_comm. }
    change (itpow (Datatypes.S k) Psi f x) with (comp (itpow k Psi) Psi f x).
    rewrite !E.
    apply (comp_dual Psi (itpow k Psi) Phi (itpow k Phi)); auto using itpow_len.
Qed.

(* a self-dual iteration gives a symmetric operator at x = 0 *)
Lemma dual_sym Phi : it_dual Phi Phi -> forall f g, length f = n -> length g = n ->
  ip n (Phi f z) g = ip n f (Phi g z).
Proof. intros HD f g Lf Lg. rewrite (HD f z g Lf Lz Lg), ip_zero_l. ring. Qed.

(* --- smoothers as iterations --- *)
Definition sm (sw : sweep) : iteration := fun f x => fst (sw f x z).

Lemma sm_len (sw : sweep) : sweep_ok n sw -> it_len (sm sw).
Proof. intros H f x Lf Lx. apply H; auto using Lz. Qed.

Lemma sm_cons (sw : sweep) : sweep_cons n A sw -> it_cons (sm sw).
Proof. intros H f x Lf Lx. unfold sm. rewrite (H f x z Lf Lx Lz). reflexivity. Qed.

Lemma sm_dual (pre post : sweep) : sweep_ok n pre -> sweep_ok n post -> sweep_cons n A post ->
  sweep_adj n pre post -> it_dual (sm post) (sm pre).
Proof.
  intros Hpre Hpost Hc Ha f x g Lf Lx Lg. unfold sm.
  apply (post_ip Srt n A pre post f g x z); auto using Lz.
Qed.

Lemma sweep_adj_swap (pre post : sweep) : sweep_ok n pre -> sweep_ok n post ->
  sweep_adj n pre post -> sweep_adj n post pre.
Proof.
  intros Hpre Hpost H f g Lf Lg.
  rewrite (ip_sym Srt), <- (H g f Lg Lf). apply (ip_sym Srt).
Qed.

(* k sweeps: the x-component follows the iteration, the work vector keeps its length *)
Lemma sweeps_sm (sw : sweep) k : sweep_ok n sw -> forall f x t, length f = n -> length x = n -> length t = n ->
  fst (sweeps k sw f (x, t)) = itpow k (sm sw) f x /\ length (snd (sweeps k sw f (x, t))) = n.
Proof.
  intros H. induction k as [|k IH]; intros f x t Lf Lx Lt; [split; [reflexivity|exact Lt]|].
  change (sweeps (Datatypes.S k) sw f (x, t)) with (sweeps k sw f (sw f x t)).
  change (itpow (Datatypes.S k) (sm sw) f x) with (itpow k (sm sw) f (sm sw f x)).
  destruct (H f x t Lf Lx Lt) as (H1 & H2 & H3).
  destruct (sw f x t) as [x1 t1] eqn:E. cbn [fst snd] in *.
  destruct (IH f x1 t1 Lf H1 H2) as [E1 E2].
  split; [|exact E2]. transitivity (itpow k (sm sw) f x1); [exact E1|].
  replace (sm sw f x) with x1 by (unfold sm; symmetry; apply H3, Lz). reflexivity.
Qed.

Lemma sweeps_sm' (sw : sweep) k : sweep_ok n sw -> forall f (xt : vec * vec),
  length f = n -> length (fst xt) = n -> length (snd xt) = n ->
  fst (sweeps k sw f xt) = itpow k (sm sw) f (fst xt) /\ length (snd (sweeps k sw f xt)) = n.
Proof. intros H f [x t] Lf Lx Lt. apply sweeps_sm; assumption. Qed.

(* --- the coarse-grid correction as an iteration --- *)
Section Cgc.
Variable n' : nat.
Variables R P : crs.
Variable Bc : vec -> vec.
Hypothesis WR : wf R = true.
Hypothesis WP : wf P = true.
Hypothesis NR : nrows R = n'.
Hypothesis NP : nrows P = n.
Hypothesis HT : transp n n' R P.
Hypothesis Bc_len : forall h, length h = n' -> length (Bc h) = n'.
Hypothesis Bc_sym : forall a b, length a = n' -> length b = n' -> ip n' (Bc a) b = ip n' a (Bc b).

Definition restr (t : vec) : vec := spmv s1 R t s0 (vzero n').
Definition cgc : iteration := fun f x => spmv s1 P (Bc (restr (res f x))) s1 x.

Lemma restr_length t : length (restr t) = n'.
Proof. unfold restr. rewrite spmv_length_any. apply vzero_length. Qed.

Lemma cgc_len : it_len cgc.
Proof. intros f x Lf Lx. unfold cgc. rewrite spmv_length_any. exact Lx. Qed.

Lemma cgc_get f x i : length x = n -> i < n ->
  vget (cgc f x) i = Ax P (Bc (restr (res f x))) i + vget x i.
Proof. intros Lx Hi. unfold cgc. rewrite (spmv_spec Srt Seqb) by (auto; congruence). ring. Qed.

Lemma cgc_cons : it_cons cgc.
Proof.
  intros f x Lf Lx.
  assert (Lh : length (res f x) = n) by (apply res_length; exact Lf).
  apply vec_ext.
  - rewrite (cgc_len f x Lf Lx). symmetry. apply vadd_length; [exact Lx|apply cgc_len; auto using Lz].
  - rewrite (cgc_len f x Lf Lx). intros i Hi.
    rewrite vadd_get by (auto using cgc_len, Lz). rewrite !cgc_get by (auto using Lz).
    rewrite (res_zero (res f x) Lh). unfold z. rewrite vget_vzero. ring.
Qed.

Lemma cgc_dual : it_dual cgc cgc.
Proof.
  intros f x g Lf Lx Lg. destruct HT as (HcR & HcP & Htr).
  assert (Lrf : length (res f x) = n) by (apply res_length; exact Lf).
  assert (Lu : forall h, length h = n -> length (Bc (restr h)) = n') by (intros; apply Bc_len, restr_length).
  set (uf := Bc (restr (res f x))). set (ug := Bc (restr g)).
  assert (Ecg : forall i, i < n -> vget (cgc g z) i = Ax P ug i).
  { intros i Hi. rewrite cgc_get by (auto using Lz). rewrite (res_zero g Lg). fold ug.
    unfold z. rewrite vget_vzero. ring. }
  assert (Lcg : length (cgc g z) = n) by (apply cgc_len; auto using Lz).
  (* lhs *)
  rewrite (ip_lin_l Srt n s1 (map (fun r => dotrow r uf) (rows P)) s1 x (cgc f x) g).
  2:{ intros i Hi. rewrite cgc_get by assumption. fold uf.
      rewrite (dotrows_get Srt) by (auto; congruence). ring. }
  rewrite (ip_Ax n P uf (map (fun r => dotrow r uf) (rows P)))
    by (intros i Hi; apply (dotrows_get Srt); auto; congruence).
  rewrite (qA_adj Srt P R n n' uf g HcP HcR) by (intros i j Hi Hj; symmetry; apply Htr; assumption).
  (* qA n' R g uf = <R g, uf> = <R g, Bc R (f - A x)> = <Bc R g, R (f - A x)> *)
  assert (ER : forall t w, qA n' R t w = ip n' (restr t) w).
  { intros t w. symmetry. apply ip_Ax. intros i Hi. unfold restr.
    rewrite (spmv_spec Srt Seqb) by (auto; rewrite ?vzero_length; congruence). ring. }
  rewrite ER. unfold uf. rewrite <- (Bc_sym (restr g) (restr (res f x))) by apply restr_length.
  fold ug.
  (* <ug, R (f - A x)> = qA n' R (res f x) ug = qA n P ug (res f x) = <P ug, f - A x> *)
  rewrite (ip_sym Srt n' ug), <- ER.
  rewrite <- (qA_adj Srt P R n n' ug (res f x) HcP HcR) by (intros i j Hi Hj; symmetry; apply Htr; assumption).
  rewrite <- (ip_Ax n P ug (cgc g z) (res f x)) by exact Ecg.
  rewrite (ip_sym Srt n (cgc g z) (res f x)).
  rewrite (ip_res_l f x (cgc g z) Lf Lx Lcg).
  rewrite (ip_sym Srt n x (res g (cgc g z))), (ip_res_l g (cgc g z) x Lg Lcg Lx).
  destruct SA as [HcA HsA].
  rewrite (qA_adj Srt A A n n (cgc g z) x HcA HcA HsA).
  rewrite (ip_sym Srt n g x). ring.
Qed.

End Cgc.
End Iterations.

(* ------------------------------------------------------------------ *)
(* the cycle as an iteration *)
Section CycleIt.
Variables k nc : nat.           (* npre = npost = k, ncycle = nc *)
Local Notation cyc := (cycle k k nc).

Definition zscr (lvls : list level) : list scratch :=
  map (fun l => let m := nrows (lA l) in mkScratch (vzero m) (vzero m) (vzero m)) lvls.

Lemma zscr_wf lvls : scratch_wf lvls (zscr lvls).
Proof.
  induction lvls as [|l ls IH]; [exact I|]. cbn [zscr map scratch_wf]. split; [|exact IH].
  unfold scr_ok; cbn [sf su st]. rewrite !vzero_length. auto.
Qed.

Definition Cyc (lvls : list level) : iteration := fun f x => fst (cyc lvls (zscr lvls) f x).

Lemma Cyc_any (lvls : list level) : hier_wf lvls -> forall scr f x, scratch_wf lvls scr ->
  length f = top_n lvls -> length x = top_n lvls -> fst (cyc lvls scr f x) = Cyc lvls f x.
Proof.
  intros Hw scr f x Hs Lf Lx. unfold Cyc.
  apply (cycle_history_indep zero_is_zero k k nc lvls Hw scr (zscr lvls) f x Hs (zscr_wf lvls) Lf Lx).
Qed.

Lemma Cyc_len (lvls : list level) : hier_wf lvls -> it_len (top_n lvls) (Cyc lvls).
Proof.
  intros Hw f x Lf Lx. unfold Cyc.
  apply (cycle_history_indep zero_is_zero k k nc lvls Hw (zscr lvls) (zscr lvls) f x
           (zscr_wf lvls) (zscr_wf lvls) Lf Lx).
Qed.

Lemma cyc_snd_wf (lvls : list level) : hier_wf lvls -> forall scr f x, scratch_wf lvls scr ->
  length f = top_n lvls -> length x = top_n lvls -> scratch_wf lvls (snd (cyc lvls scr f x)).
Proof.
  intros Hw scr f x Hs Lf Lx.
  apply (cycle_history_indep zero_is_zero k k nc lvls Hw scr scr f x Hs Hs Lf Lx).
Qed.

(* the loop body of a level with a coarser one below *)
Definition body_it (l : level) (n' : nat) (Bc : vec -> vec) : iteration :=
  let n := nrows (lA l) in
  comp (itpow k (sm n (lpost l))) (comp (cgc n (lA l) n' (lR l) (lP l) Bc) (itpow k (sm n (lpre l)))).

Lemma cyc_mid_eq (l nxt : level) (rest : list level) :
  hier_wf (l :: nxt :: rest) -> forall scr f x, scratch_wf (l :: nxt :: rest) scr ->
  length f = nrows (lA l) -> length x = nrows (lA l) ->
  fst (cyc (l :: nxt :: rest) scr f x) =
  itpow nc (body_it l (nrows (lA nxt)) (fun h => Cyc (nxt :: rest) h (vzero (nrows (lA nxt))))) f x.
Proof.
  intros Hw scr f x Hs Lf Lx.
  pose proof Hw as (Hpre & Hpost & NR & Hw').
  set (n := nrows (lA l)) in *. set (n' := nrows (lA nxt)) in *.
  set (Bc := fun h => Cyc (nxt :: rest) h (vzero n')).
  destruct scr as [|s [|sn srest]]; try (simpl in Hs; tauto).
  cbn [scratch_wf] in Hs. destruct Hs as [(_ & _ & Lt) Hs'].
  rewrite cycle_mid_proj. cbv zeta. cbn [fst].
  (* invariant of the loop *)
  assert (G : forall m (x t : vec) sc, length x = n -> length t = n -> scratch_wf (nxt :: rest) sc ->
            fst (fst (iter m (cyc_body k k (cyc (nxt :: rest)) l f) (x, t, sc))) =
            iter m (body_it l n' Bc f) x).
  { induction m as [|m IH]; intros x0 t0 sc L0 Lt0 Hsc; [reflexivity|].
    cbn [iter].
    destruct sc as [|sn0 sc']; [destruct Hsc|].
    pose proof Hsc as Hsc0. cbn [scratch_wf] in Hsc. destruct Hsc as [(Lsf & Lsu & Lst) Hsc'].
    fold n' in Lsf, Lsu, Lst.
    rewrite cyc_body_proj. cbv zeta.
    destruct (sweeps_sm n (lpre l) k Hpre f x0 t0 Lf L0 Lt0) as [E1 L1].
    set (x1 := itpow k (sm n (lpre l)) f x0) in *.
    assert (Lx1 : length x1 = n) by (apply (itpow_len n k _ (sm_len n _ Hpre)); assumption).
    unfold Vec.vec in *. rewrite E1.
    assert (Et2 : residual f (lA l) x1 (snd (sweeps k (lpre l) f (x0, t0))) = res n (lA l) f x1).
    { unfold res. apply residual_ignores_res; rewrite ?vzero_length; auto. }
    unfold Vec.vec in *. rewrite Et2.
    assert (Lt2 : length (res n (lA l) f x1) = n).
    { unfold res. apply residual_length; rewrite ?vzero_length; auto. }
    assert (Ef' : spmv s1 (lR l) (res n (lA l) f x1) s0 (sf sn0) = restr n' (lR l) (res n (lA l) f x1)).
    { unfold restr. apply spmv_beta0_ignores_y; [apply zero_is_zero| |]; rewrite ?vzero_length; congruence. }
    unfold Vec.vec in *. rewrite Ef'. rewrite (vclear_vzero (su sn0)), Lsu.
    set (f' := restr n' (lR l) (res n (lA l) f x1)).
    assert (Lf' : length f' = n') by (unfold f', restr; rewrite spmv_length_any; apply vzero_length).
    set (scr' := mkScratch f' (vzero n') (st sn0) :: sc').
    assert (Hscr' : scratch_wf (nxt :: rest) scr').
    { unfold scr'. cbn [scratch_wf]. split; [|exact Hsc']. unfold scr_ok; cbn [sf su st]. fold n'.
      rewrite vzero_length. auto. }
    assert (Er : fst (cyc (nxt :: rest) scr' f' (vzero n')) = Bc f').
    { unfold Bc. apply (Cyc_any (nxt :: rest) Hw' scr' f' (vzero n') Hscr' Lf'). apply vzero_length. }
    unfold Vec.vec in *. rewrite Er.
    assert (LB : length (Bc f') = n').
    { unfold Bc. apply (Cyc_len (nxt :: rest) Hw'); [exact Lf'|apply vzero_length]. }
    set (x2 := spmv s1 (lP l) (Bc f') s1 x1).
    assert (Lx2 : length x2 = n) by (unfold x2; rewrite spmv_length_any; exact Lx1).
    destruct (sweeps_sm n (lpost l) k Hpost f x2 (res n (lA l) f x1) Lf Lx2 Lt2) as [E3 L3].
    apply (IH (fst (sweeps k (lpost l) f (x2, res n (lA l) f x1)))
              (snd (sweeps k (lpost l) f (x2, res n (lA l) f x1)))
              (set_u (Bc f') (snd (cyc (nxt :: rest) scr' f' (vzero n'))))) in L3 as IH'.
    - unfold Vec.vec in *. rewrite IH'. rewrite E3. unfold body_it at 2, comp. fold n. reflexivity.
    - unfold Vec.vec in *. rewrite E3. apply (itpow_len n k _ (sm_len n _ Hpost)); assumption.
    - apply set_u_wf; [|exact LB].
      apply (cyc_snd_wf (nxt :: rest) Hw' scr' f' (vzero n') Hscr' Lf'). apply vzero_length. }
  apply G; assumption.
Qed.

Lemma cyc_last_eq (l : level) : hier_wf [l] -> forall scr f x, scratch_wf [l] scr ->
  length f = nrows (lA l) -> length x = nrows (lA l) ->
  fst (cyc [l] scr f x) =
  match lsolve l with
  | Some sv => sv f x
  | None => comp (itpow k (sm (nrows (lA l)) (lpost l))) (itpow k (sm (nrows (lA l)) (lpre l))) f x
  end.
Proof.
  intros (Hpre & Hpost & _) scr f x Hs Lf Lx.
  destruct scr as [|s srest]; [destruct Hs|]. cbn [scratch_wf] in Hs. destruct Hs as [(_ & _ & Lt) _].
  rewrite cycle_last. destruct (lsolve l) as [sv|]; [reflexivity|]. cbv zeta. cbn [fst].
  set (n := nrows (lA l)) in *.
  destruct (sweeps_sm n (lpre l) k Hpre f x (st s) Lf Lx Lt) as [E1 L1].
  assert (Lx1 : length (itpow k (sm n (lpre l)) f x) = n)
    by (apply (itpow_len n k _ (sm_len n _ Hpre)); assumption).
  assert (Lp : length (fst (sweeps k (lpre l) f (x, st s))) = n)
    by (etransitivity; [apply f_equal, E1|exact Lx1]).
  destruct (sweeps_sm' n (lpost l) k Hpost f (sweeps k (lpre l) f (x, st s)) Lf Lp L1) as [E2 _].
  etransitivity; [exact E2|]. unfold comp. apply f_equal. exact E1.
Qed.

Definition nosolve_top (lvls : list level) : Prop :=
  match lvls with [l] => lsolve l = None | _ => True end.

Definition selfdual (lvls : list level) : Prop :=
  match lvls with
  | l :: _ => it_cons (nrows (lA l)) (lA l) (Cyc lvls) /\ it_dual (nrows (lA l)) (lA l) (Cyc lvls) (Cyc lvls)
  | [] => True
  end.

Lemma it_cons_ext n A Phi Psi : (forall f x, length f = n -> length x = n -> Psi f x = Phi f x) ->
  it_cons n A Phi -> nrows A = n -> it_cons n A Psi.
Proof.
  intros E H NA f x Lf Lx. rewrite (E f x Lf Lx), (H f x Lf Lx).
  rewrite (E (res n A f x) (z n)); [reflexivity| |apply Lz].
  unfold res. rewrite <- NA in *. apply residual_length; rewrite ?vzero_length; auto.
Qed.

Lemma it_dual_ext n A Phi Psi : (forall f x, length f = n -> length x = n -> Psi f x = Phi f x) ->
  it_dual n A Phi Phi -> it_dual n A Psi Psi.
Proof.
  intros E H f x g Lf Lx Lg. rewrite (E f x Lf Lx), (E g (z n) Lg (Lz n)). apply H; assumption.
Qed.

Theorem Cyc_sym (lvls : list level) : hier_sym lvls -> hier_symk lvls ->
  (forall f g, length f = top_n lvls -> length g = top_n lvls ->
     ip (top_n lvls) (Cyc lvls f (vzero (top_n lvls))) g = ip (top_n lvls) f (Cyc lvls g (vzero (top_n lvls)))) /\
  (nosolve_top lvls -> selfdual lvls).
Proof.
  induction lvls as [|l rest IH]; intros Hh Hk; [split; [reflexivity|auto]|].
  pose proof (hier_sym_wf _ Hh) as Hwf.
  cbn [hier_sym] in Hh. destruct Hh as (Hpre & Hpost & WA & HsA & Hcpost & Hadj & Hmid & Hrest).
  cbn [hier_symk] in Hk. destruct Hk as [Hcpre Hk'].
  cbn [top_n]. set (n := nrows (lA l)) in *.
  assert (NA : nrows (lA l) = n) by reflexivity.
  pose proof (sweep_adj_swap n (lpre l) (lpost l) Hpre Hpost Hadj) as Hadj'.
  (* smoother powers *)
  pose proof (sm_len n _ Hpre) as Lpre. pose proof (sm_len n _ Hpost) as Lpost.
  pose proof (itpow_len n k _ Lpre) as LPpre. pose proof (itpow_len n k _ Lpost) as LPpost.
  pose proof (itpow_cons n (lA l) WA NA HsA k _ Lpre (sm_cons n (lA l) _ Hcpre)) as CPpre.
  pose proof (itpow_cons n (lA l) WA NA HsA k _ Lpost (sm_cons n (lA l) _ Hcpost)) as CPpost.
  pose proof (itpow_dual n (lA l) WA NA HsA k _ _ Lpost Lpre (sm_cons n (lA l) _ Hcpre)
                (sm_dual n (lA l) WA NA HsA _ _ Hpre Hpost Hcpost Hadj)) as Dpost.
  pose proof (itpow_dual n (lA l) WA NA HsA k _ _ Lpre Lpost (sm_cons n (lA l) _ Hcpost)
                (sm_dual n (lA l) WA NA HsA _ _ Hpost Hpre Hcpre Hadj')) as Dpre.
  destruct rest as [|nxt rest'].
  - (* coarsest level *)
    assert (Ec : forall f x, length f = n -> length x = n -> Cyc [l] f x =
              match lsolve l with
              | Some sv => sv f x
              | None => comp (itpow k (sm n (lpost l))) (itpow k (sm n (lpre l))) f x end).
    { intros f x Lf Lx. unfold Cyc. apply (cyc_last_eq l Hwf); auto. apply (zscr_wf [l]). }
    destruct (lsolve l) as [sv|] eqn:El.
    + split; [|intro Hn; simpl in Hn; congruence].
      intros f g Lf Lg. rewrite !Ec by (auto using vzero_length).
      apply (Hmid sv eq_refl); auto using vzero_length.
    + assert (SD : it_dual n (lA l) (Cyc [l]) (Cyc [l])).
      { apply (it_dual_ext n (lA l) (comp (itpow k (sm n (lpost l))) (itpow k (sm n (lpre l)))));
          [exact Ec|].
        apply (comp_dual n (lA l) WA NA HsA); assumption. }
      split.
      * intros f g Lf Lg. apply (dual_sym n (lA l) _ SD); assumption.
      * intros _. split; [|exact SD].
        apply (it_cons_ext n (lA l) (comp (itpow k (sm n (lpost l))) (itpow k (sm n (lpre l)))));
          [exact Ec| |exact NA].
        apply (comp_cons n (lA l) WA NA HsA); assumption.
  - (* level with a coarser one below *)
    destruct Hmid as (WR & WP & NR & NP & HT).
    set (n' := nrows (lA nxt)) in *.
    destruct (IH Hrest Hk') as [Bsym _]. cbn [top_n] in Bsym. fold n' in Bsym.
    pose proof Hwf as (_ & _ & _ & Hwf').
    set (Bc := fun h => Cyc (nxt :: rest') h (vzero n')).
    assert (Bc_len : forall h, length h = n' -> length (Bc h) = n').
    { intros h Lh. unfold Bc. apply (Cyc_len (nxt :: rest') Hwf'); [exact Lh|apply vzero_length]. }
    pose proof (cgc_len n (lA l) n' (lR l) (lP l) Bc) as Lcgc.
    pose proof (cgc_cons n (lA l) WA NA HsA n' (lR l) (lP l) Bc WP NP) as Ccgc.
    pose proof (cgc_dual n (lA l) WA NA HsA n' (lR l) (lP l) Bc WR WP NR NP HT Bc_len Bsym) as Dcgc.
    (* body = post^k after cgc after pre^k : consistent and self-dual *)
    set (mid := comp (cgc n (lA l) n' (lR l) (lP l) Bc) (itpow k (sm n (lpre l)))).
    assert (Lmid : it_len n mid) by (apply comp_len; assumption).
    assert (Cmid : it_cons n (lA l) mid) by (apply (comp_cons n (lA l) WA NA HsA); assumption).
    (* dual of mid = pre^k after cgc ... as the composite (post^k-dual) *)
    set (mid' := comp (itpow k (sm n (lpost l))) (cgc n (lA l) n' (lR l) (lP l) Bc)).
    assert (Lmid' : it_len n mid') by (apply comp_len; assumption).
    assert (Cmid' : it_cons n (lA l) mid') by (apply (comp_cons n (lA l) WA NA HsA); assumption).
    assert (Dmid : it_dual n (lA l) mid mid').
    { unfold mid, mid'. apply (comp_dual n (lA l) WA NA HsA); assumption. }
    assert (Lbody : it_len n (body_it l n' Bc)) by (apply comp_len; assumption).
    assert (Cbody : it_cons n (lA l) (body_it l n' Bc))
      by (apply (comp_cons n (lA l) WA NA HsA); assumption).
    assert (Dbody : it_dual n (lA l) (body_it l n' Bc) (body_it l n' Bc)).
    { (* body = post^k after mid ; its dual = mid' after pre^k = body again *)
      assert (E : forall f x, body_it l n' Bc f x = comp mid' (itpow k (sm n (lpre l))) f x) by reflexivity.
      intros f x g Lf Lx Lg. rewrite (E g (z n)).
      change (body_it l n' Bc f x) with (comp (itpow k (sm n (lpost l))) mid f x).
      apply (comp_dual n (lA l) WA NA HsA mid (itpow k (sm n (lpost l))) mid' (itpow k (sm n (lpre l))));
        assumption. }
    assert (Ec : forall f x, length f = n -> length x = n ->
              Cyc (l :: nxt :: rest') f x = itpow nc (body_it l n' Bc) f x).
    { intros f x Lf Lx. unfold Cyc. apply (cyc_mid_eq l nxt rest' Hwf); auto. apply zscr_wf. }
    assert (SD : it_dual n (lA l) (Cyc (l :: nxt :: rest')) (Cyc (l :: nxt :: rest'))).
    { apply (it_dual_ext n (lA l) (itpow nc (body_it l n' Bc))); [exact Ec|].
      apply (itpow_dual n (lA l) WA NA HsA); assumption. }
    split.
    + intros f g Lf Lg. apply (dual_sym n (lA l) _ SD); assumption.
    + intros _. split; [|exact SD].
      apply (it_cons_ext n (lA l) (itpow nc (body_it l n' Bc))); [exact Ec| |exact NA].
      apply (itpow_cons n (lA l) WA NA HsA); assumption.
Qed.

(* apply = pre_cycles cycles from x = 0 *)
Lemma apply_it pc (lvls : list level) : hier_wf lvls -> forall scr f x, scratch_wf lvls scr ->
  length f = top_n lvls -> length x = top_n lvls ->
  fst (apply k k nc (Datatypes.S pc) lvls scr f x) =
  itpow (Datatypes.S pc) (Cyc lvls) f (vzero (top_n lvls)).
Proof.
  intros Hw scr f x Hs Lf Lx. unfold apply. rewrite (vclear_vzero x), Lx.
  assert (G : forall m (y : vec) sc, length y = top_n lvls -> scratch_wf lvls sc ->
            fst (iter m (fun xs => cyc lvls (snd xs) f (fst xs)) (y, sc)) = iter m (Cyc lvls f) y).
  { induction m as [|m IH]; intros y sc Ly Hsc; [reflexivity|]. cbn [iter fst snd].
    rewrite (surjective_pairing (cyc lvls sc f y)).
    rewrite IH.
    - rewrite (Cyc_any lvls Hw sc f y Hsc Lf Ly). reflexivity.
    - rewrite (Cyc_any lvls Hw sc f y Hsc Lf Ly). apply (Cyc_len lvls Hw); assumption.
    - apply (cyc_snd_wf lvls Hw); assumption. }
  apply G; [apply vzero_length|exact Hs].
Qed.

End CycleIt.

Section Final.
Hypothesis sadj_id : forall a : S, sadj a = a.

(* A3, full statement: npre = npost = k, any ncycle, pre_cycles = 1; and any pre_cycles >= 1
   unless the hierarchy is a single level handled by the direct solver *)
Theorem apply_sym_full k nc pc (lvls : list level) : hier_sym lvls -> hier_symk lvls -> lvls <> [] ->
  (pc = 0 \/ nosolve_top lvls) ->
  forall scr1 scr2 f g x1 x2,
  scratch_wf lvls scr1 -> scratch_wf lvls scr2 ->
  length f = top_n lvls -> length g = top_n lvls ->
  length x1 = top_n lvls -> length x2 = top_n lvls ->
  dot (fst (apply k k nc (Datatypes.S pc) lvls scr1 f x1)) g =
  dot f (fst (apply k k nc (Datatypes.S pc) lvls scr2 g x2)).
Proof.
  intros Hh Hk Hne Hpc scr1 scr2 f g x1 x2 H1 H2 Lf Lg L1 L2.
  pose proof (hier_sym_wf _ Hh) as Hw.
  rewrite !(apply_it k nc pc lvls Hw) by assumption.
  set (n := top_n lvls) in *.
  assert (LC : it_len n (itpow (Datatypes.S pc) (Cyc k nc lvls)))
    by (apply itpow_len, (Cyc_len k nc lvls Hw)).
  rewrite !(dot_ip Srt sadj_id n) by (auto using LC, vzero_length).
  destruct (Cyc_sym k nc lvls Hh Hk) as [Bsym SD].
  destruct Hpc as [->|Hns].
  - apply Bsym; assumption.
  - specialize (SD Hns). destruct lvls as [|l rest]; [congruence|].
    destruct SD as [SC SD]. cbn [top_n] in *.
    pose proof Hh as Hh'. cbn [hier_sym] in Hh'. destruct Hh' as (_ & _ & WA & HsA & _).
    apply (dual_sym n (lA l) (itpow (Datatypes.S pc) (Cyc k nc (l :: rest)))); [|assumption|assumption].
    apply (itpow_dual n (lA l) WA eq_refl HsA); try assumption; apply (Cyc_len k nc (l :: rest) Hw).
Qed.

End Final.

(* --- closed form for hierarchies built by amg_init with Jacobi / SPAI-0 --- *)
Lemma ts_sym_wf (ts : list (option (crs * crs))) : forall n, ts_sym n ts -> ts_wf n ts.
Proof.
  induction ts as [|[[P R]|] ts' IH]; intros n H; simpl in *; auto.
  destruct H as (H1 & H2 & H3 & _ & H5). auto.
Qed.

Lemma nosolve_top_nosolve ce ml cop ts (M : crs) (kd : @relax_kind S) :
  nosolve_top (std_levels kd (amg_init ce false ml cop ts M)).
Proof.
  unfold amg_init. pose proof (build_no_solve ce ml cop ts (sort_rows M) 0) as H.
  destruct (build ce false ml cop ts (sort_rows M) 0) as [|d [|d2 tl]]; simpl; auto.
  destruct d as [A P R|A|A]; simpl; auto. exfalso. apply (H A). left. reflexivity.
Qed.

Section FinalBuilt.
Hypothesis sadj_id : forall a : S, sadj a = a.

Theorem built_apply_sym_full kd ce dc ml sc ts (M : crs) k nc pc : sym_kind kd ->
  wf M = true -> sym_mat (nrows M) M -> ts_sym (nrows M) ts ->
  (forall A, In (LSolve A) (amg_init ce dc ml (coarse_op_of sc) ts M) ->
             solve_sym (nrows A) (mk_solve_exact A)) ->
  let lvls := std_levels kd (amg_init ce dc ml (coarse_op_of sc) ts M) in
  (pc = 0 \/ nosolve_top lvls) ->
  forall scr1 scr2 f g x1 x2,
  scratch_wf lvls scr1 -> scratch_wf lvls scr2 ->
  length f = nrows M -> length g = nrows M -> length x1 = nrows M -> length x2 = nrows M ->
  dot (fst (apply k k nc (Datatypes.S pc) lvls scr1 f x1)) g =
  dot f (fst (apply k k nc (Datatypes.S pc) lvls scr2 g x2)).
Proof.
  intros Hk WM SM Hts Hsol lvls Hpc scr1 scr2 f g x1 x2 H1 H2 Lf Lg L1 L2.
  destruct (std_levels_sym Srt Seqb kd ce dc ml sc ts M Hk WM SM Hts Hsol) as [Hsym Hsk].
  destruct (amg_init_chain ce dc ml (coarse_op_of sc) ts M) as [Hc Hh].
  destruct (std_levels_wf kd _ _ (coarse_op_of_shape sc) Hc) as (_ & Hne & _).
  assert (En : top_n lvls = nrows M).
  { unfold lvls, std_levels. rewrite (top_n_inst _ _ _ _ Hh). apply sort_rows_nrows. }
  apply (apply_sym_full sadj_id k nc pc lvls Hsym Hsk Hne Hpc); congruence.
Qed.

End FinalBuilt.

End A3Full.
