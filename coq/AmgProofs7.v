(* AmgProofs7.v -- property C02-A3 in full: symmetry of the multigrid preconditioner for
   npre = npost = k, any ncycle (V- and W-cycles) and any pre_cycles >= 1.
   Method: a stationary iteration Phi(f, x) is
     consistent  if  Phi(f, x) = x + Phi(f - A x, 0),
     dual to Psi if  <Psi(f, x), g> = <f, Phi(g, 0)> + <x, g - A Phi(g, 0)>;
   both notions are closed under composition (the dual of "Psi1 then Psi2" is "Phi2 then Phi1"),
   pre-/post-smoothers are dual to each other, the coarse-grid correction is self-dual when the
   coarse operator is symmetric and R = P^T, hence the cycle is self-dual and its value at x = 0
   is a symmetric operator. *)
From Amgcl Require Import Scalar Vec Crs Kernels KernelsProofs MatOps MatOpsProofs Relax DenseSolve
  Amg AmgExec AmgProofs AmgProofs2 AmgProofs3 AmgProofs4 AmgProofs6.
Local Open Scope S_scope.

Section A3Full.
Context {S : Scalar}.
Local Notation vec := (vec S).
Local Notation crs := (crs S).
Local Notation level := (@level S).
Local Notation scratch := (@scratch S).
Local Notation sweep := (@sweep S).
Hypothesis Srt : Sring S.
Hypothesis Seqb : seqb_spec S.
Add Ring SRingA7 : Srt.

Local Notation zero_is_zero := (zero_is_zero Seqb).
Local Notation ip := (@ip S).

(* --- a fixed level size n and matrix A --- *)
Section Iterations.
Variable n : nat.
Variable A : crs.
Hypothesis WA : wf A = true.
Hypothesis NA : nrows A = n.
Hypothesis SA : sym_mat n A.

Definition res (f x : vec) : vec := residual f A x (vzero n).
Definition z : vec := vzero n.

Lemma Lz : length z = n. Proof. apply vzero_length. Qed.

Lemma res_length f x : length f = n -> length (res f x) = n.
Proof. intro Lf. unfold res. rewrite <- NA in *. apply residual_length; rewrite ?vzero_length; congruence. Qed.

Lemma res_get f x i : length f = n -> i < n -> vget (res f x) i = vget f i - Ax A x i.
Proof. intros Lf Hi. unfold res. rewrite <- NA in *. apply (residual_spec Srt); rewrite ?vzero_length; auto. Qed.

Lemma vadd_get (x y : vec) i : length x = n -> length y = n ->
  vget (vlin s1 x s1 y) i = vget x i + vget y i.
Proof. intros Lx Ly. rewrite (vlin_get Srt) by congruence. ring. Qed.

Lemma vadd_length (x y : vec) : length x = n -> length y = n -> length (vlin s1 x s1 y) = n.
Proof. apply vlin_length. Qed.

(* f - A (y + w) = (f - A y) - A w *)
Lemma res_add f (y w : vec) : length f = n -> length y = n -> length w = n ->
  res f (vlin s1 y s1 w) = res (res f y) w.
Proof.
  intros Lf Ly Lw. apply (vec_ext).
  - rewrite !res_length; auto using res_length.
  - rewrite res_length by exact Lf. intros i Hi.
    rewrite !res_get by (auto using res_length). rewrite (Ax_lin Srt) by congruence. ring.
Qed.

Lemma res_zero f : length f = n -> res f z = f.
Proof.
  intro Lf. apply vec_ext; [rewrite res_length; auto|].
  rewrite res_length by exact Lf. intros i Hi. rewrite res_get by assumption.
  unfold z. rewrite (Ax_zero Srt). ring.
Qed.

Lemma vadd_zero_l (x : vec) : length x = n -> vlin s1 z s1 x = x.
Proof.
  intro Lx. apply vec_ext; [rewrite vadd_length; auto using Lz|].
  rewrite vadd_length by (auto using Lz). intros i Hi. rewrite vadd_get by (auto using Lz).
  unfold z. rewrite vget_vzero. ring.
Qed.

Lemma vadd_assoc (x y w : vec) : length x = n -> length y = n -> length w = n ->
  vlin s1 (vlin s1 x s1 y) s1 w = vlin s1 x s1 (vlin s1 y s1 w).
Proof.
  intros Lx Ly Lw. apply vec_ext; [rewrite !vadd_length; auto using vadd_length|].
  rewrite vadd_length by (auto using vadd_length). intros i Hi.
  rewrite !vadd_get by (auto using vadd_length). ring.
Qed.

Lemma ip_add_r (f x y : vec) : length x = n -> length y = n ->
  ip n f (vlin s1 x s1 y) = ip n f x + ip n f y.
Proof.
  intros Lx Ly. rewrite (ip_sym Srt), (ip_lin_l Srt n s1 x s1 y) by (intros; apply (vlin_get Srt); congruence).
  rewrite (ip_sym Srt n x), (ip_sym Srt n y). ring.
Qed.

Lemma ip_zero_l (g : vec) : ip n z g = s0.
Proof.
  unfold Amg.iter, AmgProofs6.ip. rewrite (sumn_ext _ (fun _ => s0)); [apply (sumn_zero Srt)|].
  intros i _. unfold z. rewrite vget_vzero. ring.
Qed.

(* <f - A x, w> = <f, w> - <x, A w>  (A symmetric) *)
Lemma ip_res_l (f x w : vec) : length f = n -> length x = n -> length w = n ->
  ip n (res f x) w = ip n f w - qA n A w x.
Proof.
  intros Lf Lx Lw. destruct SA as [HcA HsA].
  rewrite (ip_lin_l Srt n s1 f (sopp s1) (map (fun r => dotrow r x) (rows A)) (res f x) w).
  2:{ intros i Hi. rewrite res_get by assumption.
      rewrite (dotrows_get Srt) by (auto; congruence). ring. }
  rewrite (ip_Ax n A x (map (fun r => dotrow r x) (rows A)))
    by (intros i Hi; apply (dotrows_get Srt); auto; congruence).
  rewrite (qA_adj Srt A A n n x w HcA HcA HsA). ring.
Qed.

Definition iteration := vec -> vec -> vec.

Definition it_len (Phi : iteration) : Prop :=
  forall f x, length f = n -> length x = n -> length (Phi f x) = n.
Definition it_cons (Phi : iteration) : Prop :=
  forall f x, length f = n -> length x = n -> Phi f x = vlin s1 x s1 (Phi (res f x) z).
Definition it_dual (Psi Phi : iteration) : Prop :=
  forall f x g, length f = n -> length x = n -> length g = n ->
    ip n (Psi f x) g = ip n f (Phi g z) + ip n x (res g (Phi g z)).

Definition comp (Phi2 Phi1 : iteration) : iteration := fun f x => Phi2 f (Phi1 f x).

Lemma comp_len Phi2 Phi1 : it_len Phi2 -> it_len Phi1 -> it_len (comp Phi2 Phi1).
Proof. intros H2 H1 f x Lf Lx. unfold comp. apply H2; [exact Lf|apply H1; assumption]. Qed.

Lemma comp_cons Phi1 Phi2 : it_len Phi1 -> it_len Phi2 -> it_cons Phi1 -> it_cons Phi2 ->
  it_cons (comp Phi1 Phi2).
Proof.
  intros L1 L2 C1 C2 f x Lf Lx. unfold comp.
  assert (Lh : length (res f x) = n) by (apply res_length; exact Lf).
  set (h := res f x) in *.
  assert (Lw : length (Phi2 h z) = n) by (apply L2; auto using Lz).
  rewrite (C2 f x Lf Lx). fold h.
  rewrite (C1 f (vlin s1 x s1 (Phi2 h z)) Lf) by (apply vadd_length; assumption).
  rewrite (res_add f x (Phi2 h z) Lf Lx Lw). fold h.
  rewrite (C1 h (Phi2 h z) Lh Lw).
  rewrite vadd_assoc; auto.
  apply L1; [apply res_length; exact Lh|apply Lz].
Qed.

(* the dual of "Psi1 then Psi2" is "Phi2 then Phi1" *)
Lemma comp_dual Psi1 Psi2 Phi1 Phi2 :
  it_len Psi1 -> it_len Phi1 -> it_len Phi2 -> it_cons Phi1 ->
  it_dual Psi1 Phi1 -> it_dual Psi2 Phi2 ->
  it_dual (comp Psi2 Psi1) (comp Phi1 Phi2).
Proof.
  intros LP1 L1 L2 C1 D1 D2 f x g Lf Lx Lg. unfold comp.
  assert (Lw : length (Phi2 g z) = n) by (apply L2; auto using Lz).
  assert (Lg' : length (res g (Phi2 g z)) = n) by (apply res_length; exact Lg).
  set (g' := res g (Phi2 g z)) in *.
  assert (Lv : length (Phi1 g' z) = n) by (apply L1; auto using Lz).
  rewrite (D2 f (Psi1 f x) g Lf (LP1 f x Lf Lx) Lg). fold g'.
  rewrite (D1 f x g' Lf Lx Lg').
  rewrite (C1 g (Phi2 g z) Lg Lw). fold g'.
  rewrite (ip_add_r f (Phi2 g z) (Phi1 g' z) Lw Lv).
  rewrite (res_add g (Phi2 g z) (Phi1 g' z) Lg Lw Lv). fold g'. ring.
Qed.

(* powers *)
Definition itpow (k : nat) (Phi : iteration) : iteration := fun f x => iter k (Phi f) x.

Lemma iter_comm {X} (h : X -> X) k x : iter k h (h x) = h (iter k h x).
Proof. revert x; induction k as [|k IH]; intro x; simpl; [reflexivity|]. apply IH. Qed.

Lemma itpow_len k Phi : it_len Phi -> it_len (itpow k Phi).
Proof.
  intros HL. unfold itpow. induction k as [|k IH]; intros f x Lf Lx; simpl; [exact Lx|].
  apply IH; [exact Lf|apply HL; assumption].
Qed.

Lemma id_cons : it_cons (fun _ x => x).
Proof. intros f x Lf Lx. symmetry.
  apply vec_ext; [rewrite vadd_length; auto using Lz|].
  rewrite vadd_length by (auto using Lz). intros i Hi. rewrite vadd_get by (auto using Lz).
  unfold z. rewrite vget_vzero. ring.
Qed.

Lemma id_dual : it_dual (fun _ x => x) (fun _ x => x).
Proof.
  intros f x g Lf Lx Lg. rewrite (res_zero g Lg), (ip_sym Srt n f z), ip_zero_l. ring.
Qed.

Lemma itpow_cons k Phi : it_len Phi -> it_cons Phi -> it_cons (itpow k Phi).
Proof.
  intros HL HC. induction k as [|k IH].
  - exact id_cons.
  - intros f x Lf Lx.
    change (itpow (Datatypes.S k) Phi f x) with (comp (itpow k Phi) Phi f x).
    rewrite (comp_cons (itpow k Phi) Phi (itpow_len k Phi HL) HL IH HC f x Lf Lx). reflexivity.
Qed.

Lemma itpow_dual k Psi Phi : it_len Psi -> it_len Phi -> it_cons Phi ->
  it_dual Psi Phi -> it_dual (itpow k Psi) (itpow k Phi).
Proof.
  intros LP LF HC HD. induction k as [|k IH].
  - exact id_dual.
  - intros f x g Lf Lx Lg.
    (* Psi^(k+1) = Psi^k after Psi ; Phi^(k+1) = Phi after Phi^k *)
    assert (E : forall h y, itpow (Datatypes.S k) Phi h y = comp Phi (itpow k Phi) h y).
    { intros h y. unfold itpow, comp. simpl. apply iter_comm. }
    change (itpow (Datatypes.S k) Psi f x) with (comp (itpow k Psi) Psi f x).
    rewrite !E.
    apply (comp_dual Psi (itpow k Psi) Phi (itpow k Phi)); auto using itpow_len.
Qed.

(* a self-dual iteration gives a symmetric operator at x = 0 *)
Lemma dual_sym Phi : it_dual Phi Phi -> forall f g, length f = n -> length g = n ->
  ip n (Phi f z) g = ip n f (Phi g z).
Proof. intros HD f g Lf Lg. rewrite (HD f z g Lf Lz Lg), ip_zero_l. ring. Qed.

(* --- smoothers as iterations --- *)
Definition sm (sw : sweep) : iteration := fun f x => fst (sw f x z).

Lemma sm_len (sw : sweep) : sweep_ok n sw -> it_len (sm sw).
Proof. intros H f x Lf Lx. apply H; auto using Lz. Qed.

Lemma sm_cons (sw : sweep) : sweep_cons n A sw -> it_cons (sm sw).
Proof. intros H f x Lf Lx. unfold sm. rewrite (H f x z Lf Lx Lz). reflexivity. Qed.

Lemma sm_dual (pre post : sweep) : sweep_ok n pre -> sweep_ok n post -> sweep_cons n A post ->
  sweep_adj n pre post -> it_dual (sm post) (sm pre).
Proof.
  intros Hpre Hpost Hc Ha f x g Lf Lx Lg. unfold sm.
  apply (post_ip Srt n A pre post f g x z); auto using Lz.
Qed.

Lemma sweep_adj_swap (pre post : sweep) : sweep_ok n pre -> sweep_ok n post ->
  sweep_adj n pre post -> sweep_adj n post pre.
Proof.
  intros Hpre Hpost H f g Lf Lg.
  rewrite (ip_sym Srt), <- (H g f Lg Lf). apply (ip_sym Srt).
Qed.

(* k sweeps: the x-component follows the iteration, the work vector keeps its length *)
Lemma sweeps_sm (sw : sweep) k : sweep_ok n sw -> forall f x t, length f = n -> length x = n -> length t = n ->
  fst (sweeps k sw f (x, t)) = itpow k (sm sw) f x /\ length (snd (sweeps k sw f (x, t))) = n.
Proof.
  intros H. induction k as [|k IH]; intros f x t Lf Lx Lt; [split; [reflexivity|exact Lt]|].
  change (sweeps (Datatypes.S k) sw f (x, t)) with (sweeps k sw f (sw f x t)).
  change (itpow (Datatypes.S k) (sm sw) f x) with (itpow k (sm sw) f (sm sw f x)).
  destruct (H f x t Lf Lx Lt) as (H1 & H2 & H3).
  destruct (sw f x t) as [x1 t1] eqn:E. cbn [fst snd] in *.
  destruct (IH f x1 t1 Lf H1 H2) as [E1 E2].
  split; [|exact E2]. transitivity (itpow k (sm sw) f x1); [exact E1|].
  replace (sm sw f x) with x1 by (unfold sm; symmetry; apply H3, Lz). reflexivity.
Qed.

(* --- the coarse-grid correction as an iteration --- *)
Section Cgc.
Variable n' : nat.
Variables R P : crs.
Variable Bc : vec -> vec.
Hypothesis WR : wf R = true.
Hypothesis WP : wf P = true.
Hypothesis NR : nrows R = n'.
Hypothesis NP : nrows P = n.
Hypothesis HT : transp n n' R P.
Hypothesis Bc_len : forall h, length h = n' -> length (Bc h) = n'.
Hypothesis Bc_sym : forall a b, length a = n' -> length b = n' -> ip n' (Bc a) b = ip n' a (Bc b).

Definition restr (t : vec) : vec := spmv s1 R t s0 (vzero n').
Definition cgc : iteration := fun f x => spmv s1 P (Bc (restr (res f x))) s1 x.

Lemma restr_length t : length (restr t) = n'.
Proof. unfold restr. rewrite spmv_length_any. apply vzero_length. Qed.

Lemma cgc_len : it_len cgc.
Proof. intros f x Lf Lx. unfold cgc. rewrite spmv_length_any. exact Lx. Qed.

Lemma cgc_get f x i : length x = n -> i < n ->
  vget (cgc f x) i = Ax P (Bc (restr (res f x))) i + vget x i.
Proof. intros Lx Hi. unfold cgc. rewrite (spmv_spec Srt Seqb) by (auto; congruence). ring. Qed.

Lemma cgc_cons : it_cons cgc.
Proof.
  intros f x Lf Lx.
  assert (Lh : length (res f x) = n) by (apply res_length; exact Lf).
  apply vec_ext.
  - rewrite (cgc_len f x Lf Lx). symmetry. apply vadd_length; [exact Lx|apply cgc_len; auto using Lz].
  - rewrite (cgc_len f x Lf Lx). intros i Hi.
    rewrite vadd_get by (auto using cgc_len, Lz). rewrite !cgc_get by (auto using Lz).
    rewrite (res_zero (res f x) Lh). unfold z. rewrite vget_vzero. ring.
Qed.

Lemma cgc_dual : it_dual cgc cgc.
Proof.
  intros f x g Lf Lx Lg. destruct HT as (HcR & HcP & Htr).
  assert (Lrf : length (res f x) = n) by (apply res_length; exact Lf).
  assert (Lu : forall h, length h = n -> length (Bc (restr h)) = n') by (intros; apply Bc_len, restr_length).
  set (uf := Bc (restr (res f x))). set (ug := Bc (restr g)).
  assert (Ecg : forall i, i < n -> vget (cgc g z) i = Ax P ug i).
  { intros i Hi. rewrite cgc_get by (auto using Lz). rewrite (res_zero g Lg). fold ug.
    unfold z. rewrite vget_vzero. ring. }
  assert (Lcg : length (cgc g z) = n) by (apply cgc_len; auto using Lz).
  (* lhs *)
  rewrite (ip_lin_l Srt n s1 (map (fun r => dotrow r uf) (rows P)) s1 x (cgc f x) g).
  2:{ intros i Hi. rewrite cgc_get by assumption. fold uf.
      rewrite (dotrows_get Srt) by (auto; congruence). ring. }
  rewrite (ip_Ax n P uf (map (fun r => dotrow r uf) (rows P)))
    by (intros i Hi; apply (dotrows_get Srt); auto; congruence).
  rewrite (qA_adj Srt P R n n' uf g HcP HcR) by (intros i j Hi Hj; symmetry; apply Htr; assumption).
  (* qA n' R g uf = <R g, uf> = <R g, Bc R (f - A x)> = <Bc R g, R (f - A x)> *)
  assert (ER : forall t w, qA n' R t w = ip n' (restr t) w).
  { intros t w. symmetry. apply ip_Ax. intros i Hi. unfold restr.
    rewrite (spmv_spec Srt Seqb) by (auto; rewrite ?vzero_length; congruence). ring. }
  rewrite ER. unfold uf. rewrite <- (Bc_sym (restr g) (restr (res f x))) by apply restr_length.
  fold ug.
  (* <ug, R (f - A x)> = qA n' R (res f x) ug = qA n P ug (res f x) = <P ug, f - A x> *)
  rewrite (ip_sym Srt n' ug), <- ER.
  rewrite <- (qA_adj Srt P R n n' ug (res f x) HcP HcR) by (intros i j Hi Hj; symmetry; apply Htr; assumption).
  rewrite <- (ip_Ax n P ug (cgc g z) (res f x)) by exact Ecg.
  rewrite (ip_sym Srt n (cgc g z) (res f x)).
  rewrite (ip_res_l f x (cgc g z) Lf Lx Lcg).
  rewrite (ip_sym Srt n x (res g (cgc g z))), (ip_res_l g (cgc g z) x Lg Lcg Lx).
  destruct SA as [HcA HsA].
  rewrite (qA_adj Srt A A n n (cgc g z) x HcA HcA HsA).
  rewrite (ip_sym Srt n g x). ring.
Qed.

End Cgc.
End Iterations.

End A3Full.
