(* InverseProofs.v -- proofs about detail::inverse (Inverse.v).  (C16 / A3)
   - the result does not depend on the uninitialised scratch array t (any Scalar);
   - A * inverse(A) = I whenever the function returns, for n <= 2, by exhausting the
     pivot choices (field).  The general-n statement is in Properties_C16.v. *)
From Amgcl Require Import Scalar Vec DirectUtil Inverse.
Local Open Scope S_scope.

Section SmallN.
Context {S : Scalar}.
Hypothesis Sft : Sfield S.
Hypothesis Seqb : seqb_spec S.
Hypothesis sinv_0 : sinv (@s0 S) = s0.
Add Field SFieldInv : Sft.

Lemma inv_nz (x : S) : is_zero (sinv x) = false -> x <> s0.
Proof.
  intros H E. subst. rewrite sinv_0 in H. unfold is_zero in H.
  assert (seqb (@s0 S) s0 = true) by (apply Seqb; reflexivity). congruence.
Qed.

(* case analysis over every comparison of the pivot search and every assertion *)
Ltac crunch H :=
  repeat (first
    [ match type of H with context [if sltb ?x ?y then _ else _] => destruct (sltb x y); cbn in H end
    | match type of H with context [if is_zero (sinv ?x) then _ else _] =>
        let E := fresh "E" in destruct (is_zero (sinv x)) eqn:E; cbn in H; [discriminate H|apply inv_nz in E] end ]).

Lemma inverse_exact_1 (a t0 : S) B : inverse 1 [a] [t0] = Some B ->
  mat_mul_get 1 [a] B 0 0 = s1.
Proof.
  intro H. unfold inverse, lu_factor, lu_col, find_pivot in H. cbn in H.
  crunch H; injection H as <-; cbn; field; assumption.
Qed.

Lemma inverse_exact_2 (a b c d t0 t1 t2 t3 : S) B : inverse 2 [a; b; c; d] [t0; t1; t2; t3] = Some B ->
  forall i j, i < 2 -> j < 2 -> mat_mul_get 2 [a; b; c; d] B i j = if Nat.eqb i j then s1 else s0.
Proof.
  intros H i j Hi Hj.
  unfold inverse, lu_factor, lu_col, find_pivot in H. cbn in H.
  crunch H; injection H as <-;
  (destruct i as [|[|i]]; [| |lia]); (destruct j as [|[|j]]; [| |lia]); cbn.
  all: try (field; auto).
  all: split; [assumption|]; intro Hc; apply E0;
       match type of Hc with ?Y = _ => match type of E with ?p <> _ =>
         transitivity (Y * sinv p); [field; assumption|rewrite Hc; ring] end end.
Qed.

Theorem inverse_exact_small n (A t B : vec S) : n <= 2 ->
  length A = (n * n)%nat -> length t = (n * n)%nat -> inverse n A t = Some B ->
  forall i j, i < n -> j < n -> mat_mul_get n A B i j = if Nat.eqb i j then s1 else s0.
Proof.
  intros Hn HA Ht H i j Hi Hj.
  destruct n as [|[|[|n]]]; [lia| | |lia].
  - destruct A as [|a [|]]; try discriminate HA. destruct t as [|t0 [|]]; try discriminate Ht.
    replace i with 0%nat by lia. replace j with 0%nat by lia. apply (inverse_exact_1 a t0 B H).
  - destruct A as [|a [|b [|c [|d [|]]]]]; try discriminate HA.
    destruct t as [|t0 [|t1 [|t2 [|t3 [|]]]]]; try discriminate Ht.
    apply (inverse_exact_2 a b c d t0 t1 t2 t3 B H); assumption.
Qed.
End SmallN.

(* ------------------------------------------------------------------ *)
(* the scratch array t is written before it is read (any Scalar) *)
Section AnyScalar.
Context {S : Scalar}.
Local Notation vec := (vec S).

Definition Agree (G : nat -> Prop) (t t' : vec) : Prop :=
  length t = length t' /\ forall idx, G idx -> vget t idx = vget t' idx.

Lemma agree_weaken (G G' : nat -> Prop) t t' : (forall idx, G idx -> G' idx) -> Agree G' t t' -> Agree G t t'.
Proof. intros H [HL HA]. split; [assumption|]. intros idx Hi. apply HA, H, Hi. Qed.

Lemma agree_lset (G : nat -> Prop) t t' x (v : S) :
  Agree G t t' -> Agree (fun idx => G idx \/ idx = x) (lset t x v) (lset t' x v).
Proof.
  intros [HL HA]. split; [rewrite !lset_length; assumption|].
  intros idx Hi. unfold vget. rewrite !lset_nth. rewrite HL.
  destruct (Nat.eqb_spec x idx) as [->|Hne]; [reflexivity|].
  destruct Hi as [Hi|Hi]; [apply HA; assumption|congruence].
Qed.

Section Col.
Variables (n : nat) (A : vec) (p : list nat) (k : nat).
Variable G0 : nat -> Prop.
Definition Gl (i : nat) : nat -> Prop := fun idx => G0 idx \/ exists j, j < i /\ idx = (j * n + k)%nat.

Definition low_body (i : nat) (t : vec) : vec :=
  let row := nth i p 0%nat in
  let b0 := if Nat.eqb row k then s1 else s0 in
  let b := for_loop 0 i (fun j b => (b - vget A (row * n + j) * vget t (j * n + k))%S) b0 in
  lset t (i * n + k) b.
Definition up_body (i : nat) (t : vec) : vec :=
  let row := nth i p 0%nat in
  let t' := for_loop (i + 1) (n - (i + 1)) (fun j t =>
              lset t (i * n + k) (vget t (i * n + k) - vget A (row * n + j) * vget t (j * n + k))%S) t in
  lset t' (i * n + k) (vget t' (i * n + k) * vget A (row * n + i))%S.

Lemma solve_col_unfold t : solve_col n A p k t = for_down 0 n up_body (for_loop 0 n low_body t).
Proof. reflexivity. Qed.

Lemma low_body_agree i t t' : Agree (Gl i) t t' -> Agree (Gl (Datatypes.S i)) (low_body i t) (low_body i t').
Proof.
  intros H. unfold low_body.
  assert (E : for_loop 0 i (fun j b => (b - vget A (nth i p 0%nat * n + j) * vget t (j * n + k))%S)
                       (if Nat.eqb (nth i p 0%nat) k then s1 else s0)
            = for_loop 0 i (fun j b => (b - vget A (nth i p 0%nat * n + j) * vget t' (j * n + k))%S)
                       (if Nat.eqb (nth i p 0%nat) k then s1 else s0)).
  { apply for_loop_ext. intros j b Hj. destruct H as [_ HA]. rewrite (HA (j * n + k)%nat); [reflexivity|].
    right. exists j. split; [lia|reflexivity]. }
  cbv zeta. rewrite E. eapply agree_weaken; [|apply agree_lset; exact H].
  intros idx [Hi|(j & Hj & ->)].
  - left. left. assumption.
  - destruct (Nat.eq_dec j i) as [->|Hne]; [right; reflexivity|].
    left. right. exists j. split; [lia|reflexivity].
Qed.

Lemma up_body_agree i t t' : i < n -> Agree (Gl n) t t' -> Agree (Gl n) (up_body i t) (up_body i t').
Proof.
  intros Hi H. unfold up_body. cbv zeta.
  set (body := fun (t : vec) (j : nat) (s : vec) =>
        lset s (i * n + k) (vget s (i * n + k) - vget A (nth i p 0%nat * n + j) * vget s (j * n + k))%S).
  assert (Hin : forall j, j < n -> Gl n (j * n + k)%nat).
  { intros j Hj. right. exists j. split; [assumption|reflexivity]. }
  assert (H1 : Agree (Gl n)
     (for_loop (i + 1) (n - (i + 1)) (fun j s => lset s (i * n + k) (vget s (i * n + k) - vget A (nth i p 0%nat * n + j) * vget s (j * n + k))%S) t)
     (for_loop (i + 1) (n - (i + 1)) (fun j s => lset s (i * n + k) (vget s (i * n + k) - vget A (nth i p 0%nat * n + j) * vget s (j * n + k))%S) t')).
  { apply (for_loop_rel (fun _ a b => Agree (Gl n) a b)); [assumption|].
    intros j a b Hj Hab. pose proof Hab as [_ HA].
    rewrite (HA (i * n + k)%nat) by (apply Hin; assumption).
    rewrite (HA (j * n + k)%nat) by (apply Hin; lia).
    eapply agree_weaken; [|apply agree_lset; exact Hab]. intros idx Hx. left. assumption. }
  pose proof H1 as [_ HA1]. rewrite (HA1 (i * n + k)%nat) by (apply Hin; assumption).
  eapply agree_weaken; [|apply agree_lset; exact H1]. intros idx Hx. left. assumption.
Qed.

Lemma solve_col_agree t t' : Agree G0 t t' -> Agree (Gl n) (solve_col n A p k t) (solve_col n A p k t').
Proof.
  intro H. rewrite !solve_col_unfold.
  apply (for_down_rel (fun _ a b => Agree (Gl n) a b)).
  - apply (for_loop_rel (fun i a b => Agree (Gl i) a b)).
    + eapply agree_weaken; [|exact H]. intros idx [Hi|(j & Hj & _)]; [assumption|lia].
    + intros i a b _ Hab. apply low_body_agree. assumption.
  - intros i a b Hi Hab. apply up_body_agree; [lia|assumption].
Qed.
End Col.

Theorem inverse_junk_independent n (A t t' : vec) :
  length t = (n * n)%nat -> length t' = (n * n)%nat -> inverse n A t = inverse n A t'.
Proof.
  intros Ht Ht'. unfold inverse. destruct (lu_factor n A) as [[A' p]|]; [|reflexivity]. f_equal.
  pose (Gk := fun (k : nat) (idx : nat) => exists i c, i < n /\ c < k /\ idx = (i * n + c)%nat).
  assert (H : Agree (Gk (0 + n)%nat) (for_loop 0 n (fun k t => solve_col n A' p k t) t)
                                     (for_loop 0 n (fun k t => solve_col n A' p k t) t')).
  { apply (for_loop_rel (fun k a b => Agree (Gk k) a b)).
    - split; [congruence|]. intros idx (i & c & _ & Hc & _). lia.
    - intros k a b Hk Hab. eapply agree_weaken; [|apply (solve_col_agree n A' p k (Gk k)); exact Hab].
      intros idx (i & c & Hi & Hc & ->). destruct (Nat.eq_dec c k) as [->|Hne].
      + right. exists i. split; [assumption|reflexivity].
      + left. exists i, c. repeat split; [assumption|lia]. }
  destruct H as [HL HA]. apply (list_ext _ _ s0); [assumption|].
  intros idx Hidx. apply HA. simpl.
  assert (Hlen : length (for_loop 0 n (fun k t => solve_col n A' p k t) t) = (n * n)%nat).
  { apply (for_loop_inv (fun _ (s : vec) => length s = (n * n)%nat)); [assumption|].
    intros k s _ Hs. rewrite solve_col_unfold.
    apply (for_down_inv (fun _ (s : vec) => length s = (n * n)%nat)).
    - apply (for_loop_inv (fun _ (s : vec) => length s = (n * n)%nat)); [assumption|].
      intros i s' _ Hs'. unfold low_body. rewrite lset_length. assumption.
    - intros i s' _ Hs'. unfold up_body. cbv zeta. rewrite lset_length.
      apply (for_loop_inv (fun _ (s : vec) => length s = (n * n)%nat)); [assumption|].
      intros j s'' _ Hs''. rewrite lset_length. assumption. }
  rewrite Hlen in Hidx. assert (n <> 0)%nat by (intro; subst; simpl in Hidx; lia).
  exists (idx / n)%nat, (idx mod n)%nat. repeat split.
  - apply Nat.div_lt_upper_bound; [assumption|]. lia.
  - apply Nat.mod_upper_bound. assumption.
  - rewrite (Nat.div_mod idx n) at 1 by assumption. lia.
Qed.
End AnyScalar.
