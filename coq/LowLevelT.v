(* LowLevelT.v -- C10-A2, transpose (amgcl/backend/builtin.hpp:353-383) over flat arrays
   with checked accesses (LowLevel.v):
       T.ptr = zeros(m + 1);                              set_size(m, n, clean_ptr = true)
       for (j < nnz) ++T.ptr[A.col[j] + 1];
       partial_sum(T.ptr);                                scan_row_sizes()
       T.col = zeros(nnz); T.val = zeros(nnz);            set_nonzeros() (zero-filled: no junk)
       for (i < n) for (j = A.ptr[i]; j < A.ptr[i+1]; ++j) {
           head = T.ptr[A.col[j]]++; T.col[head] = i; T.val[head] = adjoint(A.val[j]); }
       rotate(T.ptr, T.ptr + m, T.ptr + m + 1); T.ptr[0] = 0;
   std::partial_sum / std::rotate act on [T.ptr, T.ptr + m + 1) by construction; they are
   modelled by list functions without checks. *)
From Amgcl Require Import Scalar Vec Crs Kernels LowLevel.
Local Open Scope S_scope.

(* in-place partial sums: l[k] += l[k-1] for k = 1 .. *)
Fixpoint psum_from (acc : nat) (l : list nat) : list nat :=
  match l with [] => [] | a :: t => (acc + a)%nat :: psum_from (acc + a)%nat t end.
Definition psum (l : list nat) : list nat := psum_from 0 l.
(* std::rotate(first, first + k, last): [first + k, last) moves to the front *)
Definition rotate_at (k : nat) (l : list nat) : list nat := skipn k l ++ firstn k l.

Section LowLevelT.
Context {S : Scalar}.
Local Notation vec := (vec S).

(* ++T.ptr[A.col[j] + 1] *)
Definition count_body (F : fcrs S) (j : nat) (tptr : list nat) : res (list nat) :=
  c <- rd (fcol F) j ;;
  t <- rd tptr (c + 1) ;;
  wr tptr (c + 1) (t + 1)%nat.
(* head = T.ptr[A.col[j]]++; T.col[head] = i; T.val[head] = adjoint(A.val[j]) *)
Definition fill_inner (F : fcrs S) (i j : nat) (st : list nat * (list nat * vec))
  : res (list nat * (list nat * vec)) :=
  c <- rd (fcol F) j ;;
  head <- rd (fst st) c ;;
  tptr <- wr (fst st) c (head + 1)%nat ;;
  tcol <- wr (fst (snd st)) head i ;;
  v <- rd (fval F) j ;;
  tval <- wr (snd (snd st)) head (sadj v) ;;
  Ok (tptr, (tcol, tval)).
Definition fill_body (F : fcrs S) (i : nat) (st : list nat * (list nat * vec))
  : res (list nat * (list nat * vec)) :=
  b <- rd (fptr F) i ;;
  e <- rd (fptr F) (i + 1) ;;
  for_res b (e - b) (fill_inner F i) st.

Definition ll_transpose (F : fcrs S) : res (fcrs S) :=
  let n := fn F in let m := fm F in
  nnz <- rd (fptr F) n ;;
  cnts <- for_res 0 nnz (count_body F) (repeat 0%nat (m + 1)) ;;
  st <- for_res 0 n (fill_body F) (psum cnts, (repeat 0%nat nnz, repeat s0 nnz)) ;;
  tptr <- wr (rotate_at m (fst st)) 0 0%nat ;;
  Ok (mkF m n tptr (fst (snd st)) (snd (snd st))).

(* flat arrays of a list-of-rows matrix *)
Definition flat_of (A : crs S) : fcrs S :=
  mkF (nrows A) (ncols A)
      (0%nat :: psum (map (@length _) (rows A)))
      (map fst (concat (rows A)))
      (map snd (concat (rows A))).

End LowLevelT.
