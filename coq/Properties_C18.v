(* Properties_C18.v -- C18: composite preconditioners realise their block formulas.
   Statements only; proofs: CompositeProofs.v.  Inner solvers are abstract functions. *)
From Amgcl Require Import Scalar QcInst Vec Crs Kernels KernelsProofs MatOps Adapters Composite CompositeProofs CompositeProofs2
  CompositeProofs3 CompositeProofs4 CompositeProofs5 CompositeExamples
  Cpr CprProofs CprProofs2 CprProofs3 CprProofs4 CprProofs5 CprProofs6 CprProofs7 CprDrs CprProofs8.
Local Open Scope S_scope.

Section Ring.
Variable S : Scalar.
Hypothesis Srt : Sring S.

(* A2: on split vectors, with linear blocks Kuu, Kup, Kpu, Kpp (as maps), an exact (two-sided)
   inner solve for Kuu and an exact inner solve for the Schur complement
   S = Kpp - Kpu Kuu^-1 Kup, the steps of apply() for type 1
       u1 = U fu ; p = S^-1 (fp - Kpu u1) ; u = U (fu - Kup p)
   solve the full block system  Kuu u + Kup p = fu,  Kpu u + Kpp p = fp :
   type 1 is the exact inverse of the saddle-point matrix. *)
Theorem C18_schur_type1_exact (nu np : nat) (Auu Aup Apu App solveU solveS : vec S -> vec S) :
  (forall v, Lp np v -> Lu nu (Aup v)) ->
  (forall v, Lu nu v -> Lp np (Apu v)) -> (forall v, Lp np v -> Lp np (App v)) ->
  (forall v, Lu nu v -> Lu nu (solveU v)) -> (forall v, Lp np v -> Lp np (solveS v)) ->
  (forall a b, Lu nu a -> Lu nu b -> Auu (vsub a b) = vsub (Auu a) (Auu b)) ->
  (forall a b, Lu nu a -> Lu nu b -> Apu (vsub a b) = vsub (Apu a) (Apu b)) ->
  (forall v, Lu nu v -> Auu (solveU v) = v) -> (forall v, Lu nu v -> solveU (Auu v) = v) ->
  (forall v, Lp np v -> Sop Aup Apu App solveU (solveS v) = v) ->
  forall fu fp, Lu nu fu -> Lp np fp ->
  let u1 := solveU fu in
  let p := solveS (vsub fp (Apu u1)) in
  let u := solveU (vsub fu (Aup p)) in
  vadd (Auu u) (Aup p) = fu /\ vadd (Apu u) (App p) = fp.
Proof. exact (schur_type1_exact Srt nu np Auu Aup Apu App solveU solveS). Qed.

(* type 2 solves the block upper-triangular system [[Kuu, Kup],[0, S]] (u,p) = (fu,fp) *)
Theorem C18_schur_type2_exact (nu np : nat) (Auu Aup Apu App solveU solveS : vec S -> vec S) :
  (forall v, Lp np v -> Lu nu (Aup v)) ->
  (forall v, Lp np v -> Lp np (solveS v)) ->
  (forall v, Lu nu v -> Auu (solveU v) = v) ->
  (forall v, Lp np v -> Sop Aup Apu App solveU (solveS v) = v) ->
  forall fu fp, Lu nu fu -> Lp np fp ->
  let p := solveS fp in
  let u := solveU (vsub fu (Aup p)) in
  vadd (Auu u) (Aup p) = fu /\ Sop Aup Apu App solveU p = fp.
Proof. exact (schur_type2_exact Srt nu np Auu Aup Apu App solveU solveS). Qed.

(* the hypotheses on the blocks are met by matrix-vector products of well-formed CRS matrices
   (the sub-blocks extracted by sub_block) *)
Theorem C18_block_products_are_linear (A : crs S) (a b : vec S) :
  wf A = true -> length a = ncols A -> length b = ncols A ->
  mv A (vsub a b) = vsub (mv A a) (mv A b) /\ length (mv A a) = nrows A.
Proof. intros H1 H2 H3. split; [exact (mv_sub Srt A a b H1 H2 H3)|exact (mv_length A a)]. Qed.

(* A3: CPR computes x = S f + Scatter P (Fpp (f - A S f)) (definition of the model, tied to
   preconditioner::cpr::apply by the correspondence check and the oracle o.cpr) *)
Theorem C18_cpr_apply_formula (A Fpp Scatter : crs S) (sprecond pprecond : vec S -> vec S) (f : vec S) :
  cpr_apply A Fpp Scatter sprecond pprecond f =
  vadd (sprecond f) (mv Scatter (pprecond (mv Fpp (vsub f (mv A (sprecond f)))))).
Proof. exact (cpr_apply_formula A Fpp Scatter sprecond pprecond f). Qed.
End Ring.

(* pmask_pattern "%start:stride": a stride of 0 makes the mask loop  for(i = start; i < n; i += stride)
   diverge.  The original parser read the stride at the fixed string offset 3, so every start
   of two or more digits gave stride 0 (finding C18-pmask-pattern-two-digit-start, repaired in
   /repo 35704c5: the pattern is split at ':' and stride <= 0 is rejected by precondition()).
   The theorem records why that guard is needed; tools/props/C18.py drives well-formed two-digit
   patterns as ordinary cases and malformed ones expecting the exception *)
Theorem C18_pattern_stride0_refuted fuel n start (mask : list bool) :
  start < n -> pattern_loop fuel n 0 start mask = None.
Proof. exact (pattern_stride0_never_terminates fuel n start mask). Qed.
Print Assumptions C18_pattern_stride0_refuted.

Theorem C18_pattern_terminates fuel n stride start (mask : list bool) :
  0 < stride -> n - start < fuel -> exists m, pattern_loop fuel n stride start mask = Some m.
Proof. exact (pattern_terminates fuel n stride start mask). Qed.
Print Assumptions C18_pattern_terminates.

(* A1 (part; the full reassembly identity is C18_reassemble below): the gather (x2u, x2p) and
   scatter (u2x, p2x) operators of every mask are inverse to each other (any Scalar) *)
Theorem C18_scatter_gather_partial (S : Scalar) (mask : list bool) (x : vec S) : length x = length mask ->
  scatter_up mask (gather mask false x) (gather mask true x) = x.
Proof. exact (scatter_gather mask x). Qed.
Print Assumptions C18_scatter_gather_partial.

(* closed at the exact rationals *)
Theorem C18_block_products_are_linear_Qc (A : crs QcS) (a b : vec QcS) :
  wf A = true -> length a = ncols A -> length b = ncols A ->
  mv A (vsub a b) = vsub (mv A a) (mv A b) /\ length (mv A a) = nrows A.
Proof. exact (C18_block_products_are_linear QcS QcS_ring A a b). Qed.
Print Assumptions C18_block_products_are_linear_Qc.

(* ------------------------------------------------------------------------------------ *)
(* A1, A2', A4: the statements that were only tied by oracles before (commutative ring). *)
Section Ring2.
Variable S : Scalar.
Hypothesis Srt : Sring S.

(* A1: for every mask, the four sub-blocks extracted by sub_block together with the gather
   (x2u, x2p) and scatter (u2x, p2x) maps reassemble K:
       K x = u2x (Kuu x_u + Kup x_p) + p2x (Kpu x_u + Kpp x_p) *)
Theorem C18_reassemble (K : crs S) (mask : list bool) (x : vec S) :
  wf K = true -> nrows K = length mask -> ncols K = length mask -> length x = length mask ->
  let xu := gather mask false x in let xp := gather mask true x in
  mv K x = scatter_up mask (vadd (mv (sub_block K mask false false) xu) (mv (sub_block K mask false true) xp))
                           (vadd (mv (sub_block K mask true false) xu) (mv (sub_block K mask true true) xp)).
Proof. exact (reassemble Srt K mask x). Qed.

(* shapes of the extracted blocks: what makes them "linear maps" in the sense of A2 *)
Theorem C18_sub_block_shape (K : crs S) (mask : list bool) (rp cp : bool) :
  wf K = true -> nrows K = length mask -> ncols K = length mask ->
  wf (sub_block K mask rp cp) = true /\ nrows (sub_block K mask rp cp) = count_of rp mask /\
  ncols (sub_block K mask rp cp) = count_of cp mask.
Proof. exact (sub_block_shape K mask rp cp). Qed.

(* gather after scatter is the identity as well (x2u u2x = I, x2p p2x = I, x2u p2x = 0, ...) *)
Theorem C18_gather_scatter (mask : list bool) (u p : vec S) :
  length u = count_of false mask -> length p = count_of true mask ->
  gather mask false (scatter_up mask u p) = u /\ gather mask true (scatter_up mask u p) = p.
Proof. exact (gather_scatter mask u p). Qed.

(* A2': the matrix-free operator handed to the pressure solver (spmv()) is the true Schur
   complement action Kpp - Kpu U Kup: for adjust_p = 0 and 2 always, for adjust_p = 1 when every
   row of Kpp has a structural diagonal entry (L is any vector of the right length, in
   particular the one init() computes).  Without that diagonal: C18_schur_adjust1_no_diagonal_refuted *)
Theorem C18_schur_op_is_schur_complement (adjust_p : nat) (Kpp Kup Kpu : crs S) (L : vec S) (solveU : vec S -> vec S) (x : vec S) :
  (adjust_p = 1%nat -> has_diag Kpp = true /\ length L = nrows Kpp /\ length x = nrows Kpp) ->
  schur_op adjust_p Kpp Kup Kpu L solveU x = schur_true Kpp Kup Kpu solveU x.
Proof. exact (schur_op_true Srt adjust_p Kpp Kup Kpu L solveU x). Qed.

(* A2 composed with A1 and A2': the MODEL's apply() (schur_apply on the unsplit vector, with the
   blocks extracted by sub_block from a well-formed K and any mask) of type 1, with a two-sided
   exact inner solve for Kuu and an exact inner solve for the operator schur_op it hands to the
   pressure solver, is the exact inverse of K *)
Theorem C18_schur_model_type1_inverse (K : crs S) (mask : list bool) (adjust_p : nat) (L : vec S)
    (solveU solveS : vec S -> vec S) :
  let nu := count_of false mask in let np := count_of true mask in
  let Kuu := sub_block K mask false false in let Kup := sub_block K mask false true in
  let Kpu := sub_block K mask true false in let Kpp := sub_block K mask true true in
  wf K = true -> nrows K = length mask -> ncols K = length mask ->
  (adjust_p = 1%nat -> has_diag Kpp = true /\ length L = np) ->
  (forall v, length v = nu -> length (solveU v) = nu) ->
  (forall v, length v = np -> length (solveS v) = np) ->
  (forall v, length v = nu -> mv Kuu (solveU v) = v) ->
  (forall v, length v = nu -> solveU (mv Kuu v) = v) ->
  (forall v, length v = np -> schur_op adjust_p Kpp Kup Kpu L solveU (solveS v) = v) ->
  forall f, length f = length mask -> mv K (schur_apply 1 K mask solveU solveS f) = f.
Proof. exact (schur_model_type1_inverse Srt K mask adjust_p L solveU solveS). Qed.

(* type 2 solves the block upper-triangular system [[Kuu,Kup],[0,S]] (u,p) = (fu,fp) *)
Theorem C18_schur_model_type2_triangular (K : crs S) (mask : list bool) (adjust_p : nat) (L : vec S)
    (solveU solveS : vec S -> vec S) :
  let nu := count_of false mask in let np := count_of true mask in
  let Kuu := sub_block K mask false false in let Kup := sub_block K mask false true in
  let Kpu := sub_block K mask true false in let Kpp := sub_block K mask true true in
  nrows K = length mask ->
  (adjust_p = 1%nat -> has_diag Kpp = true /\ length L = np) ->
  (forall v, length v = nu -> length (solveU v) = nu) ->
  (forall v, length v = np -> length (solveS v) = np) ->
  (forall v, length v = nu -> mv Kuu (solveU v) = v) ->
  (forall v, length v = np -> schur_op adjust_p Kpp Kup Kpu L solveU (solveS v) = v) ->
  forall f, length f = length mask ->
  let y := schur_apply 2 K mask solveU solveS f in
  vadd (mv Kuu (gather mask false y)) (mv Kup (gather mask true y)) = gather mask false f /\
  schur_true Kpp Kup Kpu solveU (gather mask true y) = gather mask true f.
Proof. exact (schur_model_type2_triangular Srt K mask adjust_p L solveU solveS). Qed.

(* A4: after project(), Z^T (b - A x) = 0 for every deflation vector, given that E^-1 is a
   right inverse of E = Z^T A Z (deflate_E) on the vector Z^T r *)
Theorem C18_deflate_project_orthogonal (A : crs S) (n : nat) (b : vec S) :
  length b = nrows A -> forall (Z Einv : list (vec S)) (x : vec S),
  Forall (fun z => length z = n) Z -> length x = n ->
  let fz := map (fun z => dotv z (vsub b (mv A x))) Z in
  matvec (deflate_E A Z) (matvec Einv fz) = fz ->
  forall z, In z Z -> dotv z (vsub b (mv A (deflate_project A Z Einv b x))) = s0.
Proof. exact (deflate_project_orthogonal Srt A n b). Qed.

(* ... which follows from the entrywise statement E E^-1 = I (the form of C16_inverse_exact) *)
Theorem C18_matvec_inverse (E Einv : list (vec S)) (nv : nat) :
  length E = nv -> length Einv = nv ->
  Forall (fun r => length r = nv) E -> Forall (fun r => length r = nv) Einv ->
  (forall i j, i < nv -> j < nv ->
     sumn (fun k => vget (nth i E []) k * vget (nth k Einv []) j) nv = if Nat.eqb i j then s1 else s0) ->
  forall v, length v = nv -> matvec E (matvec Einv v) = v.
Proof. exact (matvec_inverse Srt E Einv nv). Qed.

(* the deflated preconditioner apply() = P.apply ; project : its output has a residual
   orthogonal to Z for every inner preconditioner P *)
Theorem C18_deflated_precond_orthogonal (A : crs S) (n : nat) (Z Einv : list (vec S)) (P : vec S -> vec S) (r : vec S) :
  length r = nrows A -> Forall (fun z => length z = n) Z -> length (P r) = n ->
  (forall v, length v = length Z -> matvec (deflate_E A Z) (matvec Einv v) = v) ->
  forall z, In z Z -> dotv z (vsub r (mv A (deflated_precond A Z Einv P r))) = s0.
Proof. exact (deflated_precond_orthogonal Srt A n Z Einv P r). Qed.
End Ring2.

(* the deflated solve is  project(rhs, x); S(A, deflated preconditioner, rhs, x)  with the
   ORIGINAL matrix: when the inner (iterative) solver converged, the result solves the original
   system -- no post-processing is needed, and none is done (any Scalar) *)
Theorem C18_deflated_solve_solves (S : Scalar) iter (A : crs S) (Z Einv : list (vec S)) (P : vec S -> vec S) (rhs x : vec S) :
  (forall op M f x0, op (iter op M f x0) = f) ->
  mv A (deflated_solve iter A Z Einv P rhs x) = rhs.
Proof. exact (deflated_solve_solves iter A Z Einv P rhs x). Qed.
Print Assumptions C18_deflated_solve_solves.

(* A4 closed over init() (field): with the E^-1 that init() computes by detail::inverse on the
   row-major array E (C16-A3, InverseExact.v), project() leaves Z^T (b - A x) = 0.
   [sinv s0 = s0] is how the exact instance and vq::Q totalise 1/0 (see Properties_C16.v) *)
Section Field.
Variable S : Scalar.
Hypothesis Sft : Sfield S.
Hypothesis Seqb : seqb_spec S.
Hypothesis sinv_0 : sinv (@s0 S) = s0.
Theorem C18_deflate_init_project_orthogonal (A : crs S) (n : nat) (Z Einv : list (vec S)) (t b x : vec S) :
  length t = (length Z * length Z)%nat -> deflate_init A Z t = Some Einv ->
  length b = nrows A -> Forall (fun z => length z = n) Z -> length x = n ->
  forall z, In z Z -> dotv z (vsub b (mv A (deflate_project A Z Einv b x))) = s0.
Proof. exact (deflate_init_project_orthogonal Sft Seqb sinv_0 A n Z Einv t b x). Qed.
End Field.

(* ---- closed at the exact rationals ---- *)
Theorem C18_reassemble_Qc (K : crs QcS) (mask : list bool) (x : vec QcS) :
  wf K = true -> nrows K = length mask -> ncols K = length mask -> length x = length mask ->
  let xu := gather mask false x in let xp := gather mask true x in
  mv K x = scatter_up mask (vadd (mv (sub_block K mask false false) xu) (mv (sub_block K mask false true) xp))
                           (vadd (mv (sub_block K mask true false) xu) (mv (sub_block K mask true true) xp)).
Proof. exact (C18_reassemble QcS QcS_ring K mask x). Qed.
Print Assumptions C18_reassemble_Qc.

Theorem C18_schur_model_type1_inverse_Qc (K : crs QcS) (mask : list bool) (adjust_p : nat) (L : vec QcS)
    (solveU solveS : vec QcS -> vec QcS) :
  let nu := count_of false mask in let np := count_of true mask in
  let Kuu := sub_block K mask false false in let Kup := sub_block K mask false true in
  let Kpu := sub_block K mask true false in let Kpp := sub_block K mask true true in
  wf K = true -> nrows K = length mask -> ncols K = length mask ->
  (adjust_p = 1%nat -> has_diag Kpp = true /\ length L = np) ->
  (forall v, length v = nu -> length (solveU v) = nu) ->
  (forall v, length v = np -> length (solveS v) = np) ->
  (forall v, length v = nu -> mv Kuu (solveU v) = v) ->
  (forall v, length v = nu -> solveU (mv Kuu v) = v) ->
  (forall v, length v = np -> schur_op adjust_p Kpp Kup Kpu L solveU (solveS v) = v) ->
  forall f, length f = length mask -> mv K (schur_apply 1 K mask solveU solveS f) = f.
Proof. exact (C18_schur_model_type1_inverse QcS QcS_ring K mask adjust_p L solveU solveS). Qed.
Print Assumptions C18_schur_model_type1_inverse_Qc.

Theorem C18_schur_model_type2_triangular_Qc (K : crs QcS) (mask : list bool) (adjust_p : nat) (L : vec QcS)
    (solveU solveS : vec QcS -> vec QcS) :
  let nu := count_of false mask in let np := count_of true mask in
  let Kuu := sub_block K mask false false in let Kup := sub_block K mask false true in
  let Kpu := sub_block K mask true false in let Kpp := sub_block K mask true true in
  nrows K = length mask ->
  (adjust_p = 1%nat -> has_diag Kpp = true /\ length L = np) ->
  (forall v, length v = nu -> length (solveU v) = nu) ->
  (forall v, length v = np -> length (solveS v) = np) ->
  (forall v, length v = nu -> mv Kuu (solveU v) = v) ->
  (forall v, length v = np -> schur_op adjust_p Kpp Kup Kpu L solveU (solveS v) = v) ->
  forall f, length f = length mask ->
  let y := schur_apply 2 K mask solveU solveS f in
  vadd (mv Kuu (gather mask false y)) (mv Kup (gather mask true y)) = gather mask false f /\
  schur_true Kpp Kup Kpu solveU (gather mask true y) = gather mask true f.
Proof. exact (C18_schur_model_type2_triangular QcS QcS_ring K mask adjust_p L solveU solveS). Qed.
Print Assumptions C18_schur_model_type2_triangular_Qc.

Theorem C18_deflate_init_project_orthogonal_Qc (A : crs QcS) (n : nat) (Z Einv : list (vec QcS)) (t b x : vec QcS) :
  length t = (length Z * length Z)%nat -> deflate_init A Z t = Some Einv ->
  length b = nrows A -> Forall (fun z => length z = n) Z -> length x = n ->
  forall z, In z Z -> dotv z (vsub b (mv A (deflate_project A Z Einv b x))) = s0.
Proof. exact (C18_deflate_init_project_orthogonal QcS QcS_field QcS_eqb eq_refl A n Z Einv t b x). Qed.
Print Assumptions C18_deflate_init_project_orthogonal_Qc.

(* adjust_p = 1 and a pressure row WITHOUT a structural Kpp diagonal entry: the faithful model
   (kpp_adjust1 leaves the row unchanged, L is still added back in spmv()) hands the pressure
   solver an operator that is NOT the Schur complement -- witness K = [[1,1],[1,.]]: S = -1 but
   the operator is 0 (singular).  Implementation and model agree on this (correspondence);
   known finding C18-schur-adjust1-no-diagonal *)
Theorem C18_schur_adjust1_no_diagonal_refuted :
  let Kuu := sub_block ex_K ex_mask false false in let Kup := sub_block ex_K ex_mask false true in
  let Kpu := sub_block ex_K ex_mask true false in let Kpp := sub_block ex_K ex_mask true true in
  let solveU := (fun v : vec QcS => v) in
  let L := ld_vec Kpu Kup (kuu_dia false Kuu []) in
  wf ex_K = true /\ has_diag Kpp = false /\
  (forall v, length v = 1%nat -> mv Kuu (solveU v) = v) /\
  schur_true Kpp Kup Kpu solveU [qc 1 1] = [qc (-1) 1] /\
  schur_op 1 Kpp Kup Kpu L solveU [qc 1 1] = [qc 0 1].
Proof. exact schur_adjust1_no_diagonal_refuted. Qed.
Print Assumptions C18_schur_adjust1_no_diagonal_refuted.

(* the hypotheses of C18_schur_model_type1_inverse are satisfiable (K = [[2,1],[1,3]]) *)
Example C18_schur_type1_hyps_satisfiable :
  let K := ex2_K in let mask := ex_mask in let adjust_p := 0%nat in let L : vec QcS := [] in
  let solveU := ex2_U in let solveS := ex2_S in
  let nu := count_of false mask in let np := count_of true mask in
  let Kuu := sub_block K mask false false in let Kup := sub_block K mask false true in
  let Kpu := sub_block K mask true false in let Kpp := sub_block K mask true true in
  wf K = true /\ nrows K = length mask /\ ncols K = length mask /\
  (adjust_p = 1%nat -> has_diag Kpp = true /\ length L = np) /\
  (forall v, length v = nu -> length (solveU v) = nu) /\
  (forall v, length v = np -> length (solveS v) = np) /\
  (forall v, length v = nu -> mv Kuu (solveU v) = v) /\
  (forall v, length v = nu -> solveU (mv Kuu v) = v) /\
  (forall v, length v = np -> schur_op adjust_p Kpp Kup Kpu L solveU (solveS v) = v).
Proof. exact schur_type1_hyps_satisfiable. Qed.

(* ------------------------------------------------------------------------------------ *)
(* A3: the CPR set-up (Cpr.v: first_scalar_pass, init for scalar and block value types,
   invert, partial_update), tied digit for digit to preconditioner::cpr by the harness. *)

(* partial_update(K, true) with the matrix the preconditioner was built from gives back the
   same operators Fpp, Scatter, App -- as terms, for every Scalar, every K (any listing order:
   the constructor and partial_update sort their copies) and every content of the
   uninitialised fpp->val array: the action is unchanged *)
Theorem C18_cpr_partial_update_same (S : Scalar) B active (K : crs S) (junk : vec S) : 0 < B ->
  cpr_partial_update B active (cpr_make B active K junk) K true junk = cpr_make B active K junk.
Proof. exact (cpr_partial_update_same B active K junk). Qed.
Print Assumptions C18_cpr_partial_update_same.

(* the sorting done by the template constructors is the identity on sorted input, so the
   statements about init() (cpr_setup / cprb_setup) below apply to what cpr(K, prm) builds from a
   matrix with sorted rows and from its block view (any Scalar) *)
Theorem C18_cpr_constructor_on_sorted_input (S : Scalar) B active (K : crs S) (junk : vec S) : 0 < B ->
  Forall (fun r => sorted_strict r = true) (rows K) ->
  cpr_make B active K junk = cpr_setup B active K junk /\
  cprb_make B active (to_gcrs (block_adapter B (crs_view K))) junk = cprb_setup B active (to_gcrs (block_adapter B (crs_view K))) junk.
Proof. exact (cpr_constructor_on_sorted_input B active K junk). Qed.
Print Assumptions C18_cpr_constructor_on_sorted_input.

Section Ring3.
Variable S : Scalar.
Hypothesis Srt : Sring S.

(* the pressure matrix is the weighting of the pressure columns of the active part of K by the
   weights d_ip (= Fpp) of the block rows:  App[ip][jp] = sum_{i<B} d_ip[i] * K[ip*B+i][jp*B]
   -- for EVERY user matrix (rows in any order, duplicates add up), N = active_rows or n a
   multiple of B *)
Theorem C18_cpr_App_is_weighting B np (K : crs S) (junk : vec S) active ip jp : 0 < B ->
  cpr_N (nrows K) active = (np * B)%nat -> ip < np -> jp < np ->
  mget (c_app (cpr_make B active K junk)) ip jp
  = sumn (fun i => vget (cpr_weights B (np * B) (sort_rows K) true junk ip) i * mget K (ip * B + i) (jp * B)) B.
Proof. exact (cpr_make_App_dense Srt B np K junk active ip jp). Qed.

(* on rows strictly sorted by column the weights are invert(D^T), D the dense diagonal block
   (which must be structurally present; otherwise the weights are uninitialised memory) *)
Theorem C18_cpr_weights_are_invert_of_diagonal_block B np (K : crs S) (junk : vec S) ip : 0 < B -> ip < np ->
  Forall (fun r => sorted_strict r = true) (rows K) ->
  (exists i, i < B /\ Exists (in_block B ip) (nth (ip * B + i) (rows K) [])) ->
  cpr_weights B (np * B) K true junk ip
  = cpr_invert B (DirectUtil.tabulate (B * B) (fun idx => mget K (ip * B + idx mod B) (ip * B + idx / B)))
                 (firstn B (skipn (ip * B) junk)).
Proof. exact (cpr_weights_spec Srt B np K junk ip). Qed.

(* scalar input with block_size B and its B x B block view (adapter::block_matrix) give the
   same operator: Fpp and Scatter are equal as terms, App densely, hence the two-stage operator
   for every pressure preconditioner that depends on the dense content of App only
   (real value types: adjoint = identity) *)
Hypothesis sadj_id : forall x : S, sadj x = x.
Theorem C18_cpr_block_scalar_same_operator (B nb : nat) (K : crs S) (junk : vec S)
    (sprecond : vec S -> vec S) (pprecond : crs S -> vec S -> vec S) (f : vec S) :
  0 < B -> nrows K = (nb * B)%nat ->
  Forall (fun r => sorted_strict r = true) (rows K) ->
  (forall ip, ip < nb -> has_block B ip (cpr_block_rows B K ip)) ->
  (forall A1 A2 : crs S, nrows A1 = nrows A2 -> ncols A1 = ncols A2 ->
     (forall i j, i < nrows A1 -> j < ncols A1 -> mget A1 i j = mget A2 i j) -> pprecond A1 = pprecond A2) ->
  cpr_operator K (cprb_setup B 0 (to_gcrs (block_adapter B (crs_view K))) junk) sprecond pprecond f
  = cpr_operator K (cpr_setup B 0 K junk) sprecond pprecond f.
Proof. exact (cpr_block_scalar_operator Srt sadj_id B nb K junk sprecond pprecond f). Qed.
End Ring3.

Section Field3.
Variable S : Scalar.
Hypothesis Sft : Sfield S.

(* invert(): in-place LU without pivoting + the two triangular solves returns the first column of
   the inverse, for EVERY block size, whenever no pivot vanishes (the C++ assert): V y = e_0 *)
Theorem C18_cpr_invert_correct (B : nat) (V y0 : vec S) :
  length V = (B * B)%nat -> length y0 = B -> cpr_pivots_ok B V ->
  forall j, j < B -> mat_row_dot B V (cpr_invert B V y0) j = if Nat.eqb j 0 then s1 else s0.
Proof. exact (cpr_invert_ok_all Sft B V y0). Qed.

(* the weights of block row ip are the FIRST ROW OF THE INVERSE of the diagonal block
   D[i][j] = K[ip*B+i][ip*B+j]:  sum_i d[i] * D[i][j] = delta_{0j} *)
Theorem C18_cpr_weights_first_row_of_inverse B np (K : crs S) (junk : vec S) ip : 0 < B -> ip < np ->
  Forall (fun r => sorted_strict r = true) (rows K) ->
  (exists i, i < B /\ Exists (in_block B ip) (nth (ip * B + i) (rows K) [])) ->
  np * B <= length junk ->
  cpr_pivots_ok B (DirectUtil.tabulate (B * B) (fun idx => mget K (ip * B + idx mod B) (ip * B + idx / B))) ->
  forall j, j < B ->
  sumn (fun i => vget (cpr_weights B (np * B) K true junk ip) i * mget K (ip * B + i) (ip * B + j)) B
  = if Nat.eqb j 0 then s1 else s0.
Proof. exact (cpr_weights_first_row_all Sft B np K junk ip). Qed.
End Field3.

(* closed at the exact rationals *)
Theorem C18_cpr_App_is_weighting_Qc B np (K : crs QcS) (junk : vec QcS) active ip jp : 0 < B ->
  cpr_N (nrows K) active = (np * B)%nat -> ip < np -> jp < np ->
  mget (c_app (cpr_make B active K junk)) ip jp
  = sumn (fun i => vget (cpr_weights B (np * B) (sort_rows K) true junk ip) i * mget K (ip * B + i) (jp * B)) B.
Proof. exact (C18_cpr_App_is_weighting QcS QcS_ring B np K junk active ip jp). Qed.
Print Assumptions C18_cpr_App_is_weighting_Qc.

Theorem C18_cpr_weights_first_row_of_inverse_Qc B np (K : crs QcS) (junk : vec QcS) ip : 0 < B -> ip < np ->
  Forall (fun r => sorted_strict r = true) (rows K) ->
  (exists i, i < B /\ Exists (in_block B ip) (nth (ip * B + i) (rows K) [])) ->
  np * B <= length junk ->
  cpr_pivots_ok B (DirectUtil.tabulate (B * B) (fun idx => mget K (ip * B + idx mod B) (ip * B + idx / B))) ->
  forall j, j < B ->
  sumn (fun i => vget (cpr_weights B (np * B) K true junk ip) i * mget K (ip * B + i) (ip * B + j)) B
  = if Nat.eqb j 0 then s1 else s0.
Proof. exact (C18_cpr_weights_first_row_of_inverse QcS QcS_field B np K junk ip). Qed.
Print Assumptions C18_cpr_weights_first_row_of_inverse_Qc.

Theorem C18_cpr_invert_correct_Qc (B : nat) (V y0 : vec QcS) :
  length V = (B * B)%nat -> length y0 = B -> cpr_pivots_ok B V ->
  forall j, j < B -> mat_row_dot B V (cpr_invert B V y0) j = if Nat.eqb j 0 then s1 else s0.
Proof. exact (C18_cpr_invert_correct QcS QcS_field B V y0). Qed.
Print Assumptions C18_cpr_invert_correct_Qc.

Theorem C18_cpr_block_scalar_same_operator_Qc (B nb : nat) (K : crs QcS) (junk : vec QcS)
    (sprecond : vec QcS -> vec QcS) (pprecond : crs QcS -> vec QcS -> vec QcS) (f : vec QcS) :
  0 < B -> nrows K = (nb * B)%nat ->
  Forall (fun r => sorted_strict r = true) (rows K) ->
  (forall ip, ip < nb -> has_block B ip (cpr_block_rows B K ip)) ->
  (forall A1 A2 : crs QcS, nrows A1 = nrows A2 -> ncols A1 = ncols A2 ->
     (forall i j, i < nrows A1 -> j < ncols A1 -> mget A1 i j = mget A2 i j) -> pprecond A1 = pprecond A2) ->
  cpr_operator K (cprb_setup B 0 (to_gcrs (block_adapter B (crs_view K))) junk) sprecond pprecond f
  = cpr_operator K (cpr_setup B 0 K junk) sprecond pprecond f.
Proof. exact (C18_cpr_block_scalar_same_operator QcS QcS_ring (fun x => eq_refl) B nb K junk sprecond pprecond f). Qed.
Print Assumptions C18_cpr_block_scalar_same_operator_Qc.

(* the REPAIRED block-valued init() (Cpr.cprb_setup_f: entries of the active rows in inactive block
   columns are skipped, as in the scalar variant; fix proposed for the findings
   C18-cpr(-_drs)-block-active-rows-illformed-pressure-matrix; the harness compares with this model
   when the tree under test contains the repair) builds the same operators as the original one
   for the block view of a well-formed square matrix with all rows active, so
   C18_cpr_block_scalar_same_operator holds for it too (any Scalar) *)
Theorem C18_cpr_repaired_block_init_same_on_full_range (S : Scalar) B nb (K : crs S) (junk : vec S) : 0 < B ->
  wf K = true -> nrows K = (nb * B)%nat -> ncols K = (nb * B)%nat ->
  let Kb := to_gcrs (block_adapter B (crs_view K)) in
  cprb_setup_f B 0 Kb junk = cprb_setup B 0 Kb junk.
Proof. exact (cprb_setup_f_block_view B nb K junk). Qed.
Print Assumptions C18_cpr_repaired_block_init_same_on_full_range.

(* the REPAIRED cpr_drs::partial_update(K, true) (first_scalar_pass(K, false) no longer touches the
   absent App; fix proposed for C18-cpr_drs-partial-update-null-App) with the matrix the
   preconditioner was built from returns the same operators (any Scalar) *)
Theorem C18_cprdrs_repaired_partial_update_same (S : Scalar) B active (K : crs S) (eps_dd eps_ps : S) (weights : vec S) :
  drs_partial_update B active (drs_make B active K eps_dd eps_ps weights) K eps_dd eps_ps weights true
  = drs_make B active K eps_dd eps_ps weights.
Proof. exact (drs_partial_update_same B active K eps_dd eps_ps weights). Qed.
Print Assumptions C18_cprdrs_repaired_partial_update_same.

(* NOT THEOREMS (the unchanged code violates them, or nothing is stated):
   A3-block+active  for active_rows < n the block-valued construction does NOT agree with the scalar
              one: the implementation (and the faithful model cprb_setup) keep the column indices
              >= active_rows in App -- known findings C18-cpr-block-active-rows-illformed-pressure-matrix,
              C18-cpr_drs-block-active-rows-illformed-pressure-matrix.
   cpr_drs    (CprDrs.v) is tied by correspondence and by an independent evaluation of the dynamic
              row sum rule (tools/props/C18.py drs_spec); no theorem is stated about it.  Its
              partial_update crashes (known finding C18-cpr_drs-partial-update-null-App). *)
