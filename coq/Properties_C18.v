(* Properties_C18.v -- C18: composite preconditioners realise their block formulas.
   Statements only; proofs: CompositeProofs.v.  Inner solvers are abstract functions. *)
From Amgcl Require Import Scalar QcInst Vec Crs Kernels KernelsProofs MatOps Adapters Composite CompositeProofs CompositeProofs2.
Local Open Scope S_scope.

Section Ring.
Variable S : Scalar.
Hypothesis Srt : Sring S.

(* A2: on split vectors, with linear blocks Kuu, Kup, Kpu, Kpp (as maps), an exact (two-sided)
   inner solve for Kuu and an exact inner solve for the Schur complement
   S = Kpp - Kpu Kuu^-1 Kup, the steps of apply() for type 1
       u1 = U fu ; p = S^-1 (fp - Kpu u1) ; u = U (fu - Kup p)
   solve the full block system  Kuu u + Kup p = fu,  Kpu u + Kpp p = fp :
   type 1 is the exact inverse of the saddle-point matrix. *)
Theorem C18_schur_type1_exact (nu np : nat) (Auu Aup Apu App solveU solveS : vec S -> vec S) :
  (forall v, Lp np v -> Lu nu (Aup v)) ->
  (forall v, Lu nu v -> Lp np (Apu v)) -> (forall v, Lp np v -> Lp np (App v)) ->
  (forall v, Lu nu v -> Lu nu (solveU v)) -> (forall v, Lp np v -> Lp np (solveS v)) ->
  (forall a b, Lu nu a -> Lu nu b -> Auu (vsub a b) = vsub (Auu a) (Auu b)) ->
  (forall a b, Lu nu a -> Lu nu b -> Apu (vsub a b) = vsub (Apu a) (Apu b)) ->
  (forall v, Lu nu v -> Auu (solveU v) = v) -> (forall v, Lu nu v -> solveU (Auu v) = v) ->
  (forall v, Lp np v -> Sop Aup Apu App solveU (solveS v) = v) ->
  forall fu fp, Lu nu fu -> Lp np fp ->
  let u1 := solveU fu in
  let p := solveS (vsub fp (Apu u1)) in
  let u := solveU (vsub fu (Aup p)) in
  vadd (Auu u) (Aup p) = fu /\ vadd (Apu u) (App p) = fp.
Proof. exact (schur_type1_exact Srt nu np Auu Aup Apu App solveU solveS). Qed.

(* type 2 solves the block upper-triangular system [[Kuu, Kup],[0, S]] (u,p) = (fu,fp) *)
Theorem C18_schur_type2_exact (nu np : nat) (Auu Aup Apu App solveU solveS : vec S -> vec S) :
  (forall v, Lp np v -> Lu nu (Aup v)) ->
  (forall v, Lp np v -> Lp np (solveS v)) ->
  (forall v, Lu nu v -> Auu (solveU v) = v) ->
  (forall v, Lp np v -> Sop Aup Apu App solveU (solveS v) = v) ->
  forall fu fp, Lu nu fu -> Lp np fp ->
  let p := solveS fp in
  let u := solveU (vsub fu (Aup p)) in
  vadd (Auu u) (Aup p) = fu /\ Sop Aup Apu App solveU p = fp.
Proof. exact (schur_type2_exact Srt nu np Auu Aup Apu App solveU solveS). Qed.

(* the hypotheses on the blocks are met by matrix-vector products of well-formed CRS matrices
   (the sub-blocks extracted by sub_block) *)
Theorem C18_block_products_are_linear (A : crs S) (a b : vec S) :
  wf A = true -> length a = ncols A -> length b = ncols A ->
  mv A (vsub a b) = vsub (mv A a) (mv A b) /\ length (mv A a) = nrows A.
Proof. intros H1 H2 H3. split; [exact (mv_sub Srt A a b H1 H2 H3)|exact (mv_length A a)]. Qed.

(* A3: CPR computes x = S f + Scatter P (Fpp (f - A S f)) (definition of the model, tied to
   preconditioner::cpr::apply by the correspondence check and the oracle o.cpr) *)
Theorem C18_cpr_apply_formula (A Fpp Scatter : crs S) (sprecond pprecond : vec S -> vec S) (f : vec S) :
  cpr_apply A Fpp Scatter sprecond pprecond f =
  vadd (sprecond f) (mv Scatter (pprecond (mv Fpp (vsub f (mv A (sprecond f)))))).
Proof. exact (cpr_apply_formula A Fpp Scatter sprecond pprecond f). Qed.
End Ring.

(* pmask_pattern "%start:stride": a stride parsed as 0 makes the mask loop diverge -- refutes
   "for every pressure mask ... pattern strings" for starts of two or more digits
   (schur_pressure_correction.hpp:131-137; replayed under a timeout by tools/props/C18.py) *)
Theorem C18_pattern_stride0_refuted fuel n start (mask : list bool) :
  start < n -> pattern_loop fuel n 0 start mask = None.
Proof. exact (pattern_stride0_never_terminates fuel n start mask). Qed.
Print Assumptions C18_pattern_stride0_refuted.

Theorem C18_pattern_terminates fuel n stride start (mask : list bool) :
  0 < stride -> n - start < fuel -> exists m, pattern_loop fuel n stride start mask = Some m.
Proof. exact (pattern_terminates fuel n stride start mask). Qed.
Print Assumptions C18_pattern_terminates.

(* A1 (partial): the gather (x2u, x2p) and scatter (u2x, p2x) operators of every mask are
   inverse to each other (any Scalar); the full reassembly identity is in the comment below *)
Theorem C18_scatter_gather_partial (S : Scalar) (mask : list bool) (x : vec S) : length x = length mask ->
  scatter_up mask (gather mask false x) (gather mask true x) = x.
Proof. exact (scatter_gather mask x). Qed.
Print Assumptions C18_scatter_gather_partial.

(* closed at the exact rationals *)
Theorem C18_block_products_are_linear_Qc (A : crs QcS) (a b : vec QcS) :
  wf A = true -> length a = ncols A -> length b = ncols A ->
  mv A (vsub a b) = vsub (mv A a) (mv A b) /\ length (mv A a) = nrows A.
Proof. exact (C18_block_products_are_linear QcS QcS_ring A a b). Qed.
Print Assumptions C18_block_products_are_linear_Qc.

(* FULL STATEMENTS (unproved; tied by correspondence + specification oracles instead):
   A1  for every mask with length mask = nrows K = ncols K and wf K:
         mv K x = scatter_up mask (vadd (mv Kuu xu) (mv Kup xp)) (vadd (mv Kpu xu) (mv Kpp xp))
       with Kab = sub_block K mask a b, xu = gather mask false x, xp = gather mask true x
       (oracle o.reassemble on every schur case);
   A2' schur_op adjust_p ... = schur_true ... for adjust_p in {0,2}, and for adjust_p = 1 when
       every row of Kpp has a structural diagonal entry.  For adjust_p = 1 and a pressure row
       WITHOUT a diagonal entry the faithful model (kpp_adjust1 keeps the row, L is still added)
       and the implementation agree with each other and are NOT the inverse: known finding
       C18-schur-adjust1-no-diagonal;
   A4  deflate_project: with E Einv = I, dotv z (vsub b (mv A (deflate_project A Z Einv b x))) = 0
       for every z in Z (oracle o.deflate; model vs implementation on project()). *)
