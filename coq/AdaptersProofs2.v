(* AdaptersProofs2.v -- C17: sort_rows canonicalises (A3); reorder / scaled problem (A2) *)
From Coq Require Import Permutation Sorted ZifyBool.
From Amgcl Require Import Scalar Vec Crs Kernels KernelsProofs MatOps Adapters AdaptersProofs.
Local Open Scope S_scope.

(* ================================================================ A3: sort_rows *)
Section SortCanon.
Context {S : Scalar}.
Local Notation row := (row S).
Local Notation crs := (crs S).

Definition key_le (a b : nat * S) : Prop := fst a <= fst b.

Lemma ins_right_perm (e : nat * S) r : Permutation (ins_right e r) (e :: r).
Proof.
  induction r as [|e' r IH]; simpl; [reflexivity|].
  destruct (Nat.leb (fst e') (fst e)); [|reflexivity].
  rewrite IH. apply perm_swap.
Qed.

Lemma sort_fold_perm (r acc : row) :
  Permutation (fold_left (fun acc e => ins_right e acc) r acc) (r ++ acc).
Proof.
  revert acc; induction r as [|e r IH]; intro acc; simpl; [reflexivity|].
  rewrite IH. rewrite ins_right_perm. symmetry. apply Permutation_middle.
Qed.

Lemma sort_row_perm (r : row) : Permutation (sort_row r) r.
Proof. unfold sort_row. rewrite sort_fold_perm. rewrite app_nil_r. reflexivity. Qed.

Lemma ins_right_sorted (e : nat * S) r :
  StronglySorted key_le r -> StronglySorted key_le (ins_right e r).
Proof.
  induction 1 as [|e' r Hs IH Hf]; simpl.
  - constructor; constructor.
  - destruct (Nat.leb_spec (fst e') (fst e)) as [Hle|Hlt].
    + constructor; [exact IH|].
      eapply Permutation_Forall; [symmetry; apply ins_right_perm|].
      constructor; [exact Hle|exact Hf].
    + constructor; [constructor; assumption|].
      constructor; [unfold key_le; lia|].
      eapply Forall_impl; [|exact Hf]. unfold key_le. intros; lia.
Qed.

Lemma sort_fold_sorted (r acc : row) :
  StronglySorted key_le acc -> StronglySorted key_le (fold_left (fun acc e => ins_right e acc) r acc).
Proof.
  revert acc; induction r as [|e r IH]; intros acc H; simpl; [exact H|].
  apply IH. apply ins_right_sorted. exact H.
Qed.

Lemma sort_row_sorted (r : row) : StronglySorted key_le (sort_row r).
Proof. apply sort_fold_sorted. constructor. Qed.

Lemma NoDup_keys_inj (l : row) a b :
  NoDup (map fst l) -> In a l -> In b l -> fst a = fst b -> a = b.
Proof.
  induction l as [|x l IH]; intros Hnd Ha Hb E; [contradiction|].
  simpl in Hnd. inversion Hnd as [|? ? Hx Hnd']; subst.
  destruct Ha as [->|Ha], Hb as [->|Hb]; auto.
  - exfalso. apply Hx. rewrite E. apply in_map. exact Hb.
  - exfalso. apply Hx. rewrite <- E. apply in_map. exact Ha.
Qed.

(* a key-sorted list with distinct keys is determined by its set of entries *)
Lemma sorted_perm_unique (l1 : row) : forall l2,
  StronglySorted key_le l1 -> StronglySorted key_le l2 -> NoDup (map fst l1) ->
  Permutation l1 l2 -> l1 = l2.
Proof.
  induction l1 as [|h1 t1 IH]; intros l2 S1 S2 Hnd HP.
  - apply Permutation_nil in HP. subst; reflexivity.
  - destruct l2 as [|h2 t2]; [apply Permutation_sym, Permutation_nil in HP; discriminate|].
    inversion S1 as [|? ? S1' F1]; subst. inversion S2 as [|? ? S2' F2]; subst.
    assert (E : h1 = h2).
    { assert (In1 : In h1 (h2 :: t2)) by (eapply Permutation_in; [exact HP|left; reflexivity]).
      assert (In2 : In h2 (h1 :: t1)) by (eapply Permutation_in; [symmetry; exact HP|left; reflexivity]).
      destruct In1 as [->|In1]; [reflexivity|]. destruct In2 as [->|In2]; [reflexivity|].
      rewrite Forall_forall in F1, F2. specialize (F1 _ In2). specialize (F2 _ In1).
      unfold key_le in *.
      apply (NoDup_keys_inj (h1 :: t1)); [exact Hnd|left; reflexivity|right; exact In2|lia]. }
    subst h2. f_equal. apply IH; try assumption.
    + simpl in Hnd. inversion Hnd; assumption.
    + eapply Permutation_cons_inv. exact HP.
Qed.

Theorem sort_row_canonical (r1 r2 : row) :
  Permutation r1 r2 -> NoDup (map fst r1) -> sort_row r1 = sort_row r2.
Proof.
  intros HP Hnd. apply sorted_perm_unique; try apply sort_row_sorted.
  - eapply Permutation_NoDup; [|exact Hnd]. apply Permutation_map. symmetry. apply sort_row_perm.
  - rewrite sort_row_perm. rewrite HP. symmetry. apply sort_row_perm.
Qed.

(* rows are entry-wise permutations of each other *)
Definition rows_perm (A B : crs) : Prop :=
  ncols A = ncols B /\ Forall2 (fun r1 r2 => Permutation r1 r2) (rows A) (rows B).
Definition distinct_cols (A : crs) : Prop := Forall (fun r => NoDup (map fst r)) (rows A).

Theorem sort_rows_canonical (A B : crs) :
  rows_perm A B -> distinct_cols A -> sort_rows A = sort_rows B.
Proof.
  intros [Hc HF] Hd. unfold sort_rows. rewrite Hc. f_equal.
  unfold distinct_cols in Hd. induction HF as [|r1 r2 l1 l2 HP _ IH]; simpl; [reflexivity|].
  inversion Hd; subst. f_equal; [apply sort_row_canonical; assumption|apply IH; assumption].
Qed.

(* ... hence whatever is built after sorting on entry (amg) does not depend on the
   order in which the user listed the entries *)
Theorem sorting_entry_order_independent {Y} (build : crs -> Y) (A B : adapter S) :
  rows_perm (to_crs A) (to_crs B) -> distinct_cols (to_crs A) ->
  sorting_entry build A = sorting_entry build B.
Proof. intros H1 H2. unfold sorting_entry. f_equal. apply sort_rows_canonical; assumption. Qed.

(* sort_rows is idempotent on its own output and does not change the dense operator's
   entry multiset: it is a permutation of every row *)
Theorem sort_rows_rows_perm (A : crs) : rows_perm (sort_rows A) A.
Proof.
  split; [reflexivity|]. unfold sort_rows; simpl.
  induction (rows A) as [|r l IH]; simpl; constructor; [apply sort_row_perm|exact IH].
Qed.

(* classes that do NOT sort: the ILU(0) row scan depends on the storage order.
   Row 1 of a tridiagonal matrix, listed as (2,1,0) / (1,0,2) / (0,1,2):
   throws / silently eliminates nothing / eliminates column 0. *)
Theorem ilu0_scan_order_dependent_refuted :
  exists (r1 r2 r3 : list (nat * nat)),
    Permutation r1 r3 /\ Permutation r2 r3 /\
    forall (v : S),
    let mk := map (fun cv : nat * nat => (fst cv, v)) in
    ilu0_scan 1 (mk r1) = ScanThrow /\
    ilu0_scan 1 (mk r2) = ScanElim [] /\
    ilu0_scan 1 (mk r3) = ScanElim [0%nat].
Proof.
  exists [(2,0);(1,0);(0,0)]%nat, [(1,0);(0,0);(2,0)]%nat, [(0,0);(1,0);(2,0)]%nat.
  split; [|split].
  - apply Permutation_rev.
  - change (Permutation ([(1,0);(0,0)] ++ [(2,0)])%nat ([(0,0);(1,0)] ++ [(2,0)])%nat).
    apply Permutation_app_tail. apply perm_swap.
  - intro v. repeat split.
Qed.

End SortCanon.

(* ================================================================ generic scatter *)
Section Scatter.
Variable X : Type.
Variable d : X.

Lemma lset_length (l : list X) i v : length (lset l i v) = length l.
Proof. revert i; induction l as [|a l IH]; intros [|i]; simpl; auto. Qed.

Lemma lset_same (l : list X) i v : i < length l -> nth i (lset l i v) d = v.
Proof. revert i; induction l as [|a l IH]; intros [|i] H; simpl in *; try lia; auto. apply IH; lia. Qed.

Lemma lset_other (l : list X) i j v : i <> j -> nth j (lset l i v) d = nth j l d.
Proof.
  revert i j; induction l as [|a l IH]; intros [|i] [|j] H; simpl; auto; try lia.
Qed.

Lemma scatter_length idx vals (y : list X) : length (scatter idx vals y) = length y.
Proof.
  unfold scatter. revert vals y; induction idx as [|p idx IH]; intros [|a vals] y; simpl; auto.
  rewrite IH. apply lset_length.
Qed.

Lemma scatter_notin idx vals (y : list X) q :
  ~ In q idx -> nth q (scatter idx vals y) d = nth q y d.
Proof.
  unfold scatter. revert vals y; induction idx as [|p idx IH]; intros [|a vals] y Hq; simpl; auto.
  rewrite IH by (intro; apply Hq; right; assumption).
  apply lset_other. intro; apply Hq; left; assumption.
Qed.

Lemma scatter_spec idx : forall vals (y : list X) k,
  NoDup idx -> length vals = length idx -> Forall (fun p => p < length y) idx -> k < length idx ->
  nth (nth k idx 0) (scatter idx vals y) d = nth k vals d.
Proof.
  induction idx as [|p idx IH]; intros vals y k Hnd Hl Hb Hk; simpl in Hk; [lia|].
  destruct vals as [|a vals]; simpl in Hl; [lia|].
  inversion Hnd as [|? ? Hp Hnd']; subst. inversion Hb as [|? ? Hpb Hb']; subst.
  destruct k as [|k]; simpl nth.
  - unfold scatter; simpl. fold (scatter idx vals (lset y p a)).
    rewrite scatter_notin by exact Hp. apply lset_same. exact Hpb.
  - unfold scatter; simpl. fold (scatter idx vals (lset y p a)).
    apply IH; try assumption; try lia.
    rewrite lset_length. exact Hb'.
Qed.
End Scatter.

(* ================================================================ A2: ring part *)
Section Ring.
Context {S : Scalar}.
Local Notation vec := (vec S).
Local Notation row := (row S).
Local Notation crs := (crs S).
Hypothesis Srt : Sring S.
Hypothesis Seqb : seqb_spec S.
Add Ring SRing2 : Srt.

Definition lsum (l : list S) : S := fold_right sadd s0 l.

Lemma lsum_app l1 l2 : lsum (l1 ++ l2) = lsum l1 + lsum l2.
Proof. induction l1 as [|a l IH]; simpl; [ring|rewrite IH; ring]. Qed.

Lemma lsum_perm l1 l2 : Permutation l1 l2 -> lsum l1 = lsum l2.
Proof.
  induction 1; simpl.
  - reflexivity.
  - rewrite IHPermutation; reflexivity.
  - ring.
  - congruence.
Qed.

Lemma sumn_lsum (f : nat -> S) n : sumn f n = lsum (map f (seq 0 n)).
Proof.
  induction n as [|n IH]; [reflexivity|].
  rewrite seq_S, map_app, lsum_app. simpl. rewrite IH. ring.
Qed.

(* a sum over 0..n-1 may be re-indexed by any permutation of the index set *)
Lemma sumn_reindex (g : nat -> S) perm n :
  Permutation perm (seq 0 n) -> sumn g n = sumn (fun j => g (nth j perm 0%nat)) n.
Proof.
  intro HP. rewrite !sumn_lsum.
  assert (Hl : length perm = n) by (apply Permutation_length in HP; rewrite seq_length in HP; exact HP).
  rewrite <- (map_map (fun j => nth j perm 0%nat) g).
  rewrite <- Hl at 2. rewrite map_nth_seq.
  apply lsum_perm. apply Permutation_map. symmetry. exact HP.
Qed.

Lemma rget_map_cols (f : nat -> nat) (r : row) j j' :
  (forall e, In e r -> (f (fst e) = j <-> fst e = j')) ->
  rget (map (fun e => (f (fst e), snd e)) r) j = rget r j'.
Proof.
  induction r as [|e r IH]; intro H; [reflexivity|].
  simpl map. rewrite !(rget_cons Srt). rewrite IH by (intros; apply H; right; assumption).
  simpl fst; simpl snd.
  destruct (Nat.eqb_spec (f (fst e)) j) as [E|E]; destruct (Nat.eqb_spec (fst e) j') as [E'|E']; try reflexivity.
  - exfalso. apply E'. apply (H e); [left; reflexivity|exact E].
  - exfalso. apply E. apply (H e); [left; reflexivity|exact E'].
Qed.

Lemma perm_range perm n k : Permutation perm (seq 0 n) -> k < n -> nth k perm 0%nat < n.
Proof.
  intros HP Hk. assert (Hl : length perm = n) by (apply Permutation_length in HP; rewrite seq_length in HP; exact HP).
  assert (In (nth k perm 0%nat) (seq 0 n)) by (eapply Permutation_in; [exact HP|apply nth_In; lia]).
  apply in_seq in H. lia.
Qed.

Lemma perm_surj perm n c : Permutation perm (seq 0 n) -> c < n -> exists k, k < n /\ nth k perm 0%nat = c.
Proof.
  intros HP Hc. assert (Hl : length perm = n) by (apply Permutation_length in HP; rewrite seq_length in HP; exact HP).
  assert (Hin : In c perm) by (eapply Permutation_in; [symmetry; exact HP|apply in_seq; lia]).
  destruct (In_nth _ _ 0%nat Hin) as [k [Hk E]]. exists k. split; [lia|exact E].
Qed.

Lemma perm_nodup perm n : Permutation perm (seq 0 n) -> NoDup perm.
Proof. intro HP. eapply Permutation_NoDup; [symmetry; exact HP|apply seq_NoDup]. Qed.

(* the inverse permutation computed by the reorder constructor *)
Lemma inv_perm_spec perm junk n :
  Permutation perm (seq 0 n) -> length junk = n ->
  forall k, k < n -> nth (nth k perm 0%nat) (inv_perm perm junk) 0%nat = k.
Proof.
  intros HP Hj k Hk.
  assert (Hl : length perm = n) by (apply Permutation_length in HP; rewrite seq_length in HP; exact HP).
  unfold inv_perm. rewrite (scatter_spec nat 0%nat perm (seq 0 (length perm)) junk k).
  - rewrite seq_nth by lia. reflexivity.
  - eapply perm_nodup; exact HP.
  - apply seq_length.
  - apply Forall_forall. intros p Hp. rewrite Hj.
    assert (In p (seq 0 n)) by (eapply Permutation_in; [exact HP|exact Hp]). apply in_seq in H. lia.
  - lia.
Qed.

Lemma wf_row_cols (A : crs) i e : wf A = true -> i < nrows A -> In e (nth i (rows A) []) -> fst e < ncols A.
Proof.
  intros Hwf Hi He. unfold wf in Hwf. rewrite forallb_forall in Hwf.
  specialize (Hwf (nth i (rows A) []) (nth_In _ _ Hi)). unfold row_wf in Hwf.
  rewrite forallb_forall in Hwf. specialize (Hwf e He). apply Nat.ltb_lt. exact Hwf.
Qed.

(* dense entries of the reordered matrix: B_ij = A_{perm i, perm j} *)
Lemma reorder_mget (A : crs) perm iperm n i j :
  nrows A = n -> ncols A = n -> wf A = true -> Permutation perm (seq 0 n) ->
  (forall k, k < n -> nth (nth k perm 0%nat) iperm 0%nat = k) ->
  i < n -> j < n ->
  mget (to_crs (reorder_adapter (crs_view A) perm iperm)) i j
  = mget A (nth i perm 0%nat) (nth j perm 0%nat).
Proof.
  intros Hr Hc Hwf HP Hip Hi Hj. unfold mget.
  destruct (to_crs_spec (reorder_adapter (crs_view A) perm iperm)) as (_ & _ & Hrow).
  rewrite Hrow by (simpl; lia). simpl a_row.
  apply (rget_map_cols (fun c => nth c iperm 0%nat)).
  intros e He.
  assert (Hcol : fst e < n).
  { rewrite <- Hc. eapply wf_row_cols; [exact Hwf| |exact He]. rewrite Hr. eapply perm_range; eassumption. }
  destruct (perm_surj perm n (fst e) HP Hcol) as [k [Hk Ek]].
  split.
  - intro E. rewrite <- Ek in E. rewrite Hip in E by exact Hk. subst k. symmetry; exact Ek.
  - intro E. rewrite E. apply Hip. exact Hj.
Qed.

Lemma perm_forward_get perm (f : vec) k : k < length perm ->
  vget (perm_forward perm f) k = vget f (nth k perm 0%nat).
Proof.
  intro Hk. unfold perm_forward, vget at 1.
  rewrite (nth_indep _ s0 (vget f 0%nat)) by (rewrite map_length; exact Hk).
  rewrite (map_nth (fun p => vget f p)). reflexivity.
Qed.

Lemma perm_inverse_get perm (y y0 : vec) n k :
  Permutation perm (seq 0 n) -> length y = n -> length y0 = n -> k < n ->
  vget (perm_inverse perm y y0) (nth k perm 0%nat) = vget y k.
Proof.
  intros HP Hy Hy0 Hk.
  assert (Hl : length perm = n) by (apply Permutation_length in HP; rewrite seq_length in HP; exact HP).
  unfold perm_inverse, vget. apply scatter_spec.
  - eapply perm_nodup; exact HP.
  - congruence.
  - apply Forall_forall. intros p Hp. rewrite Hy0.
    assert (In p (seq 0 n)) by (eapply Permutation_in; [exact HP|exact Hp]). apply in_seq in H. lia.
  - lia.
Qed.

(* C17-A2 (reorder): if (P A P^T) y = P f then x = P^T y solves A x = f *)
Theorem reorder_solves (A : crs) perm iperm (y f y0 : vec) n :
  nrows A = n -> ncols A = n -> wf A = true ->
  Permutation perm (seq 0 n) ->
  (forall k, k < n -> nth (nth k perm 0%nat) iperm 0%nat = k) ->
  length y = n -> length y0 = n ->
  (forall i, i < n ->
     Ax (to_crs (reorder_adapter (crs_view A) perm iperm)) y i = vget (perm_forward perm f) i) ->
  forall i, i < n -> Ax A (perm_inverse perm y y0) i = vget f i.
Proof.
  intros Hr Hc Hwf HP Hip Hy Hy0 Hsys i Hi.
  assert (Hl : length perm = n) by (apply Permutation_length in HP; rewrite seq_length in HP; exact HP).
  destruct (perm_surj perm n i HP Hi) as [k [Hk Ek]]. subst i.
  specialize (Hsys k Hk). rewrite perm_forward_get in Hsys by lia. rewrite <- Hsys.
  unfold Ax. rewrite Hc. simpl a_cols.
  replace (ncols (to_crs (reorder_adapter (crs_view A) perm iperm))) with n by (simpl; symmetry; exact Hc).
  rewrite (sumn_reindex _ perm n HP).
  apply sumn_ext. intros j Hj.
  rewrite (reorder_mget A perm iperm n k j) by assumption.
  rewrite (perm_inverse_get perm y y0 n j) by assumption. reflexivity.
Qed.

(* --- scaled problem --- *)
Lemma rget_scaled (s : vec) (si : S) (r : row) j :
  rget (map (fun e => (fst e, si * snd e * vget s (fst e))) r) j = si * rget r j * vget s j.
Proof.
  induction r as [|e r IH]; [unfold rget; simpl; ring|].
  simpl map. rewrite !(rget_cons Srt). rewrite IH. simpl fst; simpl snd.
  destruct (Nat.eqb_spec (fst e) j) as [->|]; ring.
Qed.

Lemma scaled_mget (A : crs) (s : vec) i j : i < nrows A ->
  mget (to_crs (scaled_adapter (crs_view A) s)) i j = vget s i * mget A i j * vget s j.
Proof.
  intro Hi. unfold mget.
  destruct (to_crs_spec (scaled_adapter (crs_view A) s)) as (_ & _ & Hrow).
  rewrite Hrow by (simpl; exact Hi). simpl a_row. apply rget_scaled.
Qed.

Lemma is_zero_s0 : is_zero (@s0 S) = true.
Proof. unfold is_zero. apply Seqb. reflexivity. Qed.

Lemma scale_vec_get (s x : vec) i : length s = length x -> i < length x ->
  vget (scale_vec s x) i = vget s i * vget x i.
Proof.
  intros Hl Hi. unfold scale_vec.
  rewrite (vmul_spec Srt Seqb) by (try congruence; lia). ring.
Qed.

(* C17-A2 (scaled problem): if (S A S) y = S f then x = S y solves A x = f, for every
   diagonal S whose entries can be cancelled (non-zero in a field) *)
Theorem scaled_solves (A : crs) (s y f : vec) n :
  nrows A = n -> ncols A = n -> length s = n -> length y = n -> length f = n ->
  (forall i a b, i < n -> vget s i * a = vget s i * b -> a = b) ->
  (forall i, i < n -> Ax (to_crs (scaled_adapter (crs_view A) s)) y i = vget (scale_vec s f) i) ->
  forall i, i < n -> Ax A (scale_vec s y) i = vget f i.
Proof.
  intros Hr Hc Hs Hy Hf Hcancel Hsys i Hi.
  apply (Hcancel i _ _ Hi).
  specialize (Hsys i Hi). rewrite scale_vec_get in Hsys by congruence. rewrite <- Hsys.
  unfold Ax. simpl ncols. rewrite <- (sumn_scal Srt).
  replace (a_cols (scaled_adapter (crs_view A) s)) with (ncols A) by reflexivity.
  apply sumn_ext. intros j Hj.
  rewrite scaled_mget by lia. rewrite scale_vec_get by (try congruence; lia). ring.
Qed.

(* with the inverse permutation the constructor computes *)
Theorem reorder_solves_inv (A : crs) perm (y f y0 : vec) (ijunk : list nat) n :
  nrows A = n -> ncols A = n -> wf A = true ->
  Permutation perm (seq 0 n) -> length ijunk = n ->
  length y = n -> length y0 = n ->
  (forall i, i < n ->
     Ax (to_crs (reorder_adapter (crs_view A) perm (inv_perm perm ijunk))) y i = vget (perm_forward perm f) i) ->
  forall i, i < n -> Ax A (perm_inverse perm y y0) i = vget f i.
Proof.
  intros Hr Hc Hwf HP Hj Hy Hy0 H.
  apply (reorder_solves A perm (inv_perm perm ijunk) y f y0 n); try assumption.
  apply inv_perm_spec; assumption.
Qed.

End Ring.

Section FieldPart.
Context {S : Scalar}.
Local Notation vec := (vec S).
Hypothesis Sft : Sfield S.
Hypothesis Seqb : seqb_spec S.
Add Field SField2 : Sft.

Lemma field_cancel (s a b : S) : s <> s0 -> s * a = s * b -> a = b.
Proof.
  intros Hs E.
  assert (Ea : a = sinv s * (s * a)) by (field; exact Hs).
  assert (Eb : b = sinv s * (s * b)) by (field; exact Hs).
  rewrite Ea, Eb, E. reflexivity.
Qed.

(* in a field: any diagonal scaling without zero entries *)
Theorem scaled_solves_field (A : crs S) (s y f : vec) n :
  nrows A = n -> ncols A = n -> length s = n -> length y = n -> length f = n ->
  (forall i, i < n -> vget s i <> s0) ->
  (forall i, i < n -> Ax (to_crs (scaled_adapter (crs_view A) s)) y i = vget (scale_vec s f) i) ->
  forall i, i < n -> Ax A (scale_vec s y) i = vget f i.
Proof.
  intros Hr Hc Hs Hy Hf Hnz H.
  apply (scaled_solves (F_R Sft) Seqb A s y f n); try assumption.
  intros i a b Hi E. apply (field_cancel (vget s i)); [apply Hnz; exact Hi|exact E].
Qed.
End FieldPart.
