(* QrMathMain.v -- the QR correctness theorems for the two storage orders of qr.hpp
   (row_major: strides (n,1); col_major: strides (1,m)), assembled from QrMathCompute.v /
   QrMathFactor.v.   (C16 / A6) *)
From Amgcl Require Import Scalar Vec KernelsProofs StaticMatProofs DirectUtil DirectProofs Qr QrProofs
     QrMathAlg QrMathRefl QrMathCompute QrMathFactor QrMathSolve.
Local Open Scope S_scope.
Local Open Scope nat_scope.

(* strides chosen by compute/factorize/solve(rows, cols, A, order) *)
Definition qr_rs (col_major : bool) (m n : nat) : nat := if col_major then 1 else n.
Definition qr_cs (col_major : bool) (m n : nat) : nat := if col_major then m else 1.

Lemma stride_ok (cm : bool) m n : StrideOK m n (qr_rs cm m n) (qr_cs cm m n).
Proof.
  unfold StrideOK, qr_rs, qr_cs. intros i j i' j' Hi Hj Hi' Hj' E. destruct cm.
  - (* i + j*m *)
    destruct (Nat.lt_trichotomy j j') as [H|[H|H]]; [exfalso; nia|subst; lia|exfalso; nia].
  - destruct (Nat.lt_trichotomy i i') as [H|[H|H]]; [exfalso; nia|subst; lia|exfalso; nia].
Qed.

Lemma inb_ok {S : Scalar} (cm : bool) m n (A : vec S) : length A = m * n -> InB m n (qr_rs cm m n) (qr_cs cm m n) A.
Proof.
  unfold InB, qr_rs, qr_cs. intros HL i j Hi Hj. rewrite HL. destruct cm; nia.
Qed.

Lemma StrideOK_swap m n rs cs : StrideOK m n rs cs -> StrideOK n m cs rs.
Proof.
  intros H i j i' j' Hi Hj Hi' Hj' E. destruct (H j i j' i' Hj Hi Hj' Hi'); [lia|]. split; assumption.
Qed.

Lemma InB_swap {S : Scalar} m n rs cs (A : vec S) : InB m n rs cs A -> InB n m cs rs A.
Proof. intros H i j Hi Hj. specialize (H j i Hj Hi). lia. Qed.

Section Main.
Context {S : Scalar}.
Local Notation vec := (vec S).
Hypothesis Sft : Sfield S.
Hypothesis Seqb : seqb_spec S.
Hypothesis Hadj : forall x : S, sadj x = x.
Hypothesis Habs : forall x : S, (sabs x * sabs x = x * x)%S.
Hypothesis Hsqrt : forall y : S, sos y -> (ssqrt y * ssqrt y = y)%S.
Hypothesis Hreal : forall y x : S, sos y -> (y + x * x = s0)%S -> y = s0.

(* one step of compute(): the reflector generated for column i is symmetric, an involution
   (hence orthogonal), and maps the column to (.., beta, 0, .., 0) *)
Theorem qr_reflector_correct (cm : bool) m n i (A : vec) :
  length A = m * n -> i < m -> i < n ->
  let rs := qr_rs cm m n in let cs := qr_cs cm m n in
  let A2 := fst (compute_step m n rs cs i A) in
  let t := snd (compute_step m n rs cs i A) in
  let H := happ m t (vcol rs cs A2 i) in
  (forall x y, dot m (H x) y = dot m x (H y)) /\
  (forall x r, H (H x) r = x r) /\
  (forall x y, dot m (H x) (H y) = dot m x y) /\
  (forall r, r < m -> H (fun l => mv rs cs A l i) r = if Nat.ltb i r then s0 else mv rs cs A2 r i).
Proof.
  intros HL Hi Hin. cbv zeta.
  destruct (compute_step_spec Sft Seqb Hadj Habs Hsqrt Hreal m n _ _ (stride_ok cm m n) i A Hi Hin (inb_ok cm m n A HL))
    as (_ & _ & HR & HH).
  split; [intros; apply (happ_sym Sft)|]. split; [intros; apply (happ_invol Sft); assumption|].
  split; [intros; apply (happ_orth Sft); assumption|].
  intros r Hr. rewrite (HH i r (Nat.le_refl i) Hin Hr). rewrite Nat.eqb_refl. reflexivity.
Qed.

(* A = Q R,  Q'Q = I,  R upper triangular,  Q = product of the stored reflectors *)
Theorem qr_factorize_correct (cm : bool) m n (A q : vec) :
  length A = m * n -> length q = m * n ->
  let rs := qr_rs cm m n in let cs := qr_cs cm m n in
  let A' := fst (fst (qr_factorize m n rs cs A q)) in
  let tau := snd (fst (qr_factorize m n rs cs A q)) in
  let Q := snd (qr_factorize m n rs cs A q) in
  let k := Nat.min m n in
  (forall i j, i < m -> j < n ->
     sumn (fun l => (qr_Q rs cs Q i l * qr_R rs cs A' l j)%S) k = vget A (i * rs + j * cs)) /\
  (forall i j, i < k -> j < k ->
     sumn (fun l => (qr_Q rs cs Q l i * qr_Q rs cs Q l j)%S) m = if Nat.eqb i j then s1 else s0) /\
  (forall i j, j < i -> qr_R rs cs A' i j = s0) /\
  (forall j, j < k -> ReflOK m (vget tau j) (vcol rs cs A' j)) /\
  (forall i j, i < m -> j < n ->
     qr_Q rs cs Q i j = if Nat.ltb j k then hprod m (vget tau) (vcol rs cs A') k (delta j) i else s0).
Proof.
  intros HLA HLq. cbv zeta.
  pose proof (stride_ok cm m n) as Hst. pose proof (inb_ok cm m n A HLA) as HBA. pose proof (inb_ok cm m n q HLq) as HBq.
  split; [exact (qr_QR_eq_A Sft Seqb Hadj Habs Hsqrt Hreal m n _ _ Hst A q HBA HBq)|].
  split; [exact (qr_QtQ_eq_I Sft Seqb Hadj Habs Hsqrt Hreal m n _ _ Hst A q HBA HBq)|].
  split; [intros i j Hji; apply qr_R_upper; assumption|].
  destruct (qr_factorize_Q Sft Seqb Hadj m n _ _ Hst A q HBA HBq) as (EA & Et & _ & HQ). cbv zeta in EA, Et, HQ.
  split; [|exact HQ].
  destruct (qr_compute_spec Sft Seqb Hadj Habs Hsqrt Hreal m n _ _ Hst A HBA) as (_ & _ & HR & _).
  cbv zeta in HR. rewrite EA, Et. exact HR.
Qed.

(* solve(), tall systems (rows >= cols, full column rank <=> no zero on the diagonal of R):
   the result satisfies the normal equations  A'(A x - b) = 0 *)
Theorem qr_solve_tall_correct (cm : bool) m n (A b : vec) :
  length A = m * n -> m <= length b -> n <= m ->
  let rs := qr_rs cm m n in let cs := qr_cs cm m n in
  (forall i, i < n -> qr_R rs cs (fst (qr_compute m n rs cs A)) i i <> s0) ->
  let x := qr_solve m n rs cs A b in
  length x = n /\
  forall c, c < n ->
    sumn (fun r => (vget A (r * rs + c * cs) *
                    (sumn (fun j => vget A (r * rs + j * cs) * vget x j) n - vget b r))%S) m = s0.
Proof.
  intros HLA HLb Hnm rs cs Hd.
  apply (qr_solve_tall Sft Seqb Hadj Habs Hsqrt Hreal m n rs cs A b (stride_ok cm m n) Hnm (inb_ok cm m n A HLA) HLb).
  intros i Hi. specialize (Hd i Hi). unfold qr_R in Hd. rewrite Nat.ltb_irrefl in Hd. exact Hd.
Qed.

(* solve(), wide systems (rows < cols, full row rank <=> no zero on the diagonal of the R of A'):
   A x = b, and x is orthogonal to every z with A z = 0 (x is the minimum-norm solution) *)
Theorem qr_solve_wide_correct (cm : bool) m n (A b : vec) :
  length A = m * n -> m <= length b -> m < n ->
  let rs := qr_rs cm m n in let cs := qr_cs cm m n in
  (forall i, i < m -> qr_R cs rs (fst (qr_compute n m cs rs A)) i i <> s0) ->
  let x := qr_solve m n rs cs A b in
  length x = n /\
  (forall r, r < m -> sumn (fun c => (vget A (r * rs + c * cs) * vget x c)%S) n = vget b r) /\
  (forall z : nat -> S, (forall r, r < m -> sumn (fun c => (vget A (r * rs + c * cs) * z c)%S) n = s0) ->
     sumn (fun c => (vget x c * z c)%S) n = s0).
Proof.
  intros HLA HLb Hmn rs cs Hd.
  apply (qr_solve_wide Sft Seqb Hadj Habs Hsqrt Hreal m n rs cs A b (StrideOK_swap _ _ _ _ (stride_ok cm m n)) Hmn
           (InB_swap _ _ _ _ A (inb_ok cm m n A HLA)) HLb).
  intros i Hi. specialize (Hd i Hi). unfold qr_R in Hd. rewrite Nat.ltb_irrefl in Hd. exact Hd.
Qed.

End Main.
