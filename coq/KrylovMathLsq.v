(* KrylovMathLsq.v -- the least-squares core of the GMRES minimal-residual theorem (C05-A2), in
   abstract form:
   (1) a sequence of unit Givens rotations in the planes (l, l+1), l < j, preserves sums of squares
       and is linear; if it maps the Hessenberg columns h_c (c < j) to vectors with zero entry j
       (what generate/apply_plane_rotation achieve: C05_givens_annihilates), then for EVERY y
          || g - H y ||^2  =  (Q g)_j^2  +  || (Q g)_{<j} - R y ||^2  >=  (Q g)_j^2 ,
       with equality iff y solves the triangular system the code solves by back substitution;
   (2) for an orthonormal family v_0..v_j with the Arnoldi relations K v_c = sum_l h_c(l) v_l and
       r0 = sum_l g(l) v_l the true residual satisfies  || r0 - K (sum_c y_c v_c) ||^2 = || g - H y ||^2.
   Together: the residual norm of the GMRES iterate is |s_j| = |(Q g)_j| and no other element of
   x0 + span(v_0..v_{j-1}) has a smaller one.  The hypotheses are exactly the per-iteration facts
   proved on the model in KrylovMathGmres.v (Arnoldi relation, orthonormality, unit rotations,
   annihilation); what is NOT done is the bookkeeping that the arrays H, s, cs, sn of the workspace
   hold these Q-images after j passes of the inner loop. *)
From Amgcl Require Import Scalar Vec Kernels KernelsProofs Krylov KrylovRef KrylovProofs KrylovMathVec KrylovMathGmres AmgOrder.
Local Open Scope S_scope.
Local Notation SS := Datatypes.S.

Section Lsq.
Context {S : Scalar}.
Hypothesis Srt : Sring S.
Add Ring SRingLsq : Srt.

Definition sumsq (u : nat -> S) (m : nat) : S := sumn (fun i => u i * u i) m.
(* rotation with coefficients (c, s) in the plane (l, l+1); real scalar: adjoint omitted *)
Definition rotv (c s : S) (l : nat) (u : nat -> S) : nat -> S :=
  fun i => if Nat.eqb i l then c * u l + s * u (SS l)
           else if Nat.eqb i (SS l) then - s * u l + c * u (SS l) else u i.

Lemma rotv_sumsq c s l u m : c * c + s * s = s1 -> SS l < m -> sumsq (rotv c s l u) m = sumsq u m.
Proof.
  intros U. unfold sumsq. induction m as [|m IH]; intro L; [lia|].
  destruct (Nat.eq_dec m (SS l)) as [->|N].
  - (* m = l + 1: the last two terms *)
    simpl. rewrite (sumn_ext (fun i => rotv c s l u i * rotv c s l u i) (fun i => u i * u i) l).
    2:{ intros i Hi. unfold rotv.
        destruct (Nat.eqb i l) eqn:E1; [apply Nat.eqb_eq in E1; lia|].
        destruct (Nat.eqb i (SS l)) eqn:E2; [apply Nat.eqb_eq in E2; lia|]. reflexivity. }
    unfold rotv. rewrite !Nat.eqb_refl.
    destruct (Nat.eqb (SS l) l) eqn:E; [apply Nat.eqb_eq in E; lia|].
    transitivity (sumn (fun i => u i * u i) l + (c * c + s * s) * (u l * u l + u (SS l) * u (SS l))); [ring|].
    rewrite U. ring.
  - simpl. rewrite IH by lia. f_equal. unfold rotv.
    destruct (Nat.eqb m l) eqn:E1; [apply Nat.eqb_eq in E1; lia|].
    destruct (Nat.eqb m (SS l)) eqn:E2; [apply Nat.eqb_eq in E2; lia|]. reflexivity.
Qed.

Lemma rotv_ext c s l u w : (forall i, u i = w i) -> forall i, rotv c s l u i = rotv c s l w i.
Proof. intros H i. unfold rotv. rewrite !H. reflexivity. Qed.
Lemma rotv_lin c s l u w a i : rotv c s l (fun k => u k + a * w k) i = rotv c s l u i + a * rotv c s l w i.
Proof.
  unfold rotv. destruct (Nat.eqb i l); [ring|]. destruct (Nat.eqb i (SS l)); ring.
Qed.

(* the rotations 0, 1, ..., j-1 in this order *)
Fixpoint Qn (cs sn : nat -> S) (j : nat) (u : nat -> S) : nat -> S :=
  match j with O => u | SS j' => rotv (cs j') (sn j') j' (Qn cs sn j' u) end.

Lemma Qn_ext cs sn j u w : (forall i, u i = w i) -> forall i, Qn cs sn j u i = Qn cs sn j w i.
Proof. revert u w; induction j as [|j IH]; intros u w H i; simpl; [apply H|]. apply rotv_ext. apply IH, H. Qed.
Lemma Qn_lin cs sn j u w a : forall i, Qn cs sn j (fun k => u k + a * w k) i = Qn cs sn j u i + a * Qn cs sn j w i.
Proof.
  induction j as [|j IH]; intro i; simpl; [reflexivity|].
  rewrite (rotv_ext _ _ _ _ (fun k => Qn cs sn j u k + a * Qn cs sn j w k) IH). apply rotv_lin.
Qed.
Lemma Qn_sumsq cs sn j u m : (forall l, l < j -> cs l * cs l + sn l * sn l = s1) -> j < m ->
  sumsq (Qn cs sn j u) m = sumsq u m.
Proof.
  induction j as [|j IH]; intros U L; simpl; [reflexivity|].
  rewrite rotv_sumsq by (try apply U; lia). apply IH; [intros; apply U|]; lia.
Qed.
(* Q (g - sum_c y_c h_c) = Q g - sum_c y_c Q h_c *)
Lemma Qn_lin_sum cs sn j (g : nat -> S) (h : nat -> nat -> S) (y : nat -> S) p : forall i,
  Qn cs sn j (fun k => g k - sumn (fun c => y c * h c k) p) i =
  Qn cs sn j g i - sumn (fun c => y c * Qn cs sn j (h c) i) p.
Proof.
  induction p as [|p IH]; intro i; simpl.
  - rewrite (Qn_ext cs sn j _ g) by (intro k; ring). ring.
  - rewrite (Qn_ext cs sn j _ (fun k => (g k - sumn (fun c => y c * h c k) p) + (- y p) * h p k)) by (intro k; ring).
    rewrite Qn_lin, IH. ring.
Qed.

(* THE LEAST-SQUARES IDENTITY of the Givens QR factorisation *)
Theorem givens_lsq_identity cs sn j (g : nat -> S) (h : nat -> nat -> S) (y : nat -> S) :
  (forall l, l < j -> cs l * cs l + sn l * sn l = s1) ->
  (forall c, c < j -> Qn cs sn j (h c) j = s0) ->
  sumsq (fun i => g i - sumn (fun c => y c * h c i) j) (SS j) =
  Qn cs sn j g j * Qn cs sn j g j +
  sumsq (fun i => Qn cs sn j g i - sumn (fun c => y c * Qn cs sn j (h c) i) j) j.
Proof.
  intros U Z.
  rewrite <- (Qn_sumsq cs sn j _ (SS j) U (Nat.lt_succ_diag_r j)).
  unfold sumsq.
  rewrite (sumn_ext _ (fun i => (Qn cs sn j g i - sumn (fun c => y c * Qn cs sn j (h c) i) j) *
                                (Qn cs sn j g i - sumn (fun c => y c * Qn cs sn j (h c) i) j)) (SS j))
    by (intros i _; rewrite Qn_lin_sum; reflexivity).
  simpl.
  rewrite (sumn_ext (fun c => y c * Qn cs sn j (h c) j) (fun _ => s0) j) by (intros c Hc; rewrite Z by exact Hc; ring).
  rewrite (sumn_zero Srt). ring.
Qed.

(* ordered ring: the minimum is (Q g)_j^2, attained by the solution of the triangular system *)
Hypothesis Ord : ordered S.
Lemma sumsq_nonneg u m : ole s0 (sumsq u m).
Proof. unfold sumsq. apply (sumn_nonneg Srt Ord). intros i _. apply (sq_nonneg Srt Ord). Qed.

Theorem givens_lsq_lower_bound cs sn j g h y :
  (forall l, l < j -> cs l * cs l + sn l * sn l = s1) ->
  (forall c, c < j -> Qn cs sn j (h c) j = s0) ->
  ole (Qn cs sn j g j * Qn cs sn j g j) (sumsq (fun i => g i - sumn (fun c => y c * h c i) j) (SS j)).
Proof.
  intros U Z. rewrite (givens_lsq_identity cs sn j g h y U Z).
  replace (Qn cs sn j g j * Qn cs sn j g j) with (Qn cs sn j g j * Qn cs sn j g j + s0) at 1 by ring.
  apply (ole_add Srt Ord); [apply (ole_refl Ord)|apply sumsq_nonneg].
Qed.

Theorem givens_lsq_attained cs sn j g h y :
  (forall l, l < j -> cs l * cs l + sn l * sn l = s1) ->
  (forall c, c < j -> Qn cs sn j (h c) j = s0) ->
  (forall i, i < j -> sumn (fun c => y c * Qn cs sn j (h c) i) j = Qn cs sn j g i) ->   (* R y = (Q g)_{<j} *)
  sumsq (fun i => g i - sumn (fun c => y c * h c i) j) (SS j) = Qn cs sn j g j * Qn cs sn j g j.
Proof.
  intros U Z Hy. rewrite (givens_lsq_identity cs sn j g h y U Z). unfold sumsq.
  rewrite (sumn_ext _ (fun _ => s0) j) by (intros i Hi; rewrite Hy by exact Hi; ring).
  rewrite (sumn_zero Srt). ring.
Qed.

End Lsq.

(* ================================================================== *)
Section Geometry.
Context {S : Scalar}.
Local Notation vec := (vec S).
Hypothesis Srt : Sring S.
Hypothesis Sreal : forall x : S, sadj x = x.
Add Ring SRingGeo : Srt.
Variable n : nat.

Ltac vext :=
  unfold vadd, vsub, vscal, vzeros; rewrite ?zipw_vmap2;
  apply nth_error_ext; let i := fresh "i" in intro i;
  repeat (rewrite ?nth_error_vmap2, ?nth_error_vmap3, ?nth_error_map);
  repeat match goal with |- context [nth_error ?v i] => destruct (nth_error v i) end;
  simpl; try reflexivity; try (f_equal; ring).

(* g 0 + g 1 + ... + g (m-1) *)
Fixpoint vsum (g : nat -> vec) (m : nat) : vec :=
  match m with O => zeron n | SS m' => vadd (vsum g m') (g m') end.
Lemma vsum_len g m : (forall k, k < m -> length (g k) = n) -> length (vsum g m) = n.
Proof.
  induction m as [|m IH]; intro H; simpl; [apply zeron_len|].
  apply vadd_len; [apply IH; intros; apply H; lia|apply H; lia].
Qed.
Lemma vsum_ext g g' m : (forall k, k < m -> g k = g' k) -> vsum g m = vsum g' m.
Proof.
  induction m as [|m IH]; intro H; simpl; [reflexivity|]. rewrite IH, H by (intros; try apply H; lia). reflexivity.
Qed.
Lemma rdot_vsum_l g m z : (forall k, k < m -> length (g k) = n) ->
  rdot (vsum g m) z = sumn (fun k => rdot (g k) z) m.
Proof.
  induction m as [|m IH]; intro H; simpl; [apply (rdot_zeron_l Srt)|].
  rewrite (rdot_vadd_l Srt), IH by (rewrite ?vsum_len; intros; try apply H; try lia; symmetry; apply H; lia).
  reflexivity.
Qed.
(* the sum of the list-indexed form used by the Arnoldi theorems is this sum *)
Lemma zeron_vadd_l (x : vec) : length x = n -> vadd (zeron n) x = x.
Proof.
  intro L. apply (vec_ext_n n); [apply vadd_len; [apply zeron_len|exact L]|exact L|].
  intros i Hi. rewrite (nth_vadd_n n) by (auto using zeron_len). unfold zeron. rewrite nth_repeat. ring.
Qed.
Lemma vsum_shift g m : (forall k, k <= m -> length (g k) = n) ->
  vadd (g 0) (vsum (fun k => g (SS k)) m) = vsum g (SS m).
Proof.
  induction m as [|m IH]; intro L.
  - simpl. apply (vec_ext_n n); [apply vadd_len; [apply L; lia|apply zeron_len]|apply vadd_len; [apply zeron_len|apply L; lia]|].
    intros i Hi. rewrite !(nth_vadd_n n) by (auto using zeron_len). ring.
  - change (vsum (fun k => g (SS k)) (SS m)) with (vadd (vsum (fun k => g (SS k)) m) (g (SS m))).
    change (vsum g (SS (SS m))) with (vadd (vsum g (SS m)) (g (SS m))).
    rewrite <- IH by (intros; apply L; lia). vext.
Qed.
Lemma lsum_seq_vsum g m : forall a, (forall k, a <= k < a + m -> length (g k) = n) ->
  lsum n (seq a m) g = vsum (fun k => g (a + k)%nat) m.
Proof.
  induction m as [|m IH]; intros a L; [reflexivity|].
  change (lsum n (seq a (SS m)) g) with (vadd (g a) (lsum n (seq (SS a) m) g)).
  rewrite IH by (intros; apply L; lia).
  rewrite <- (vsum_shift (fun k => g (a + k)%nat) m) by (intros; apply L; lia).
  rewrite Nat.add_0_r. f_equal. apply vsum_ext. intros k _. f_equal. lia.
Qed.

Variable v : nat -> vec.
Definition comb (c : nat -> S) (m : nat) : vec := vsum (fun l => vscal (c l) (v l)) m.

Lemma comb_len c m : (forall l, l < m -> length (v l) = n) -> length (comb c m) = n.
Proof. intro H. apply vsum_len. intros k Hk. apply vscal_len, H, Hk. Qed.

(* linear combinations combine coefficientwise *)
Lemma comb_axpy c d a m : (forall l, l < m -> length (v l) = n) ->
  vadd (comb c m) (vscal a (comb d m)) = comb (fun l => c l + a * d l) m.
Proof.
  intro Lv. induction m as [|m IH].
  - unfold comb; simpl. apply (vec_ext_n n); [apply vadd_len; [|apply vscal_len]; apply zeron_len|apply zeron_len|].
    intros i Hi. rewrite (nth_vadd_n n), (nth_vscal_n n) by (auto using zeron_len, vscal_len).
    unfold zeron. rewrite nth_repeat. ring.
  - unfold comb in *. simpl. rewrite <- IH by (intros; apply Lv; lia). vext.
Qed.
Lemma comb_sub c d m : (forall l, l < m -> length (v l) = n) ->
  vsub (comb c m) (comb d m) = comb (fun l => c l - d l) m.
Proof.
  intro Lv. replace (vsub (comb c m) (comb d m)) with (vadd (comb c m) (vscal (- s1) (comb d m))) by vext.
  rewrite comb_axpy by exact Lv. apply vsum_ext. intros k _. f_equal. ring.
Qed.
(* sum_c y_c (sum_l h_c(l) v_l) = sum_l (sum_c y_c h_c(l)) v_l *)
Lemma vsum_comb (y : nat -> S) (h : nat -> nat -> S) p m : (forall l, l < m -> length (v l) = n) ->
  vsum (fun c => vscal (y c) (comb (h c) m)) p = comb (fun l => sumn (fun c => y c * h c l) p) m.
Proof.
  intro Lv. induction p as [|p IH].
  - simpl. unfold comb. symmetry. clear - Srt Lv. induction m as [|m IH]; simpl; [reflexivity|].
    rewrite IH by (intros; apply Lv; lia).
    apply (vec_ext_n n); [apply vadd_len; [apply zeron_len|apply vscal_len, Lv; lia]|apply zeron_len|].
    intros i Hi. rewrite (nth_vadd_n n), (nth_vscal_n n) by (auto using zeron_len, vscal_len).
    unfold zeron. rewrite nth_repeat. ring.
  - simpl. rewrite IH. rewrite comb_axpy by exact Lv. apply vsum_ext. intros k _. f_equal; try ring.
Qed.

(* orthonormal family: inner products of combinations are sums of products of coefficients *)
Lemma rdot_comb_v c m l : (forall k, k < m -> length (v k) = n) ->
  (forall a b, a < m -> b < m -> rdot (v a) (v b) = if Nat.eqb a b then s1 else s0) ->
  l < m -> rdot (comb c m) (v l) = c l.
Proof.
  intros Lv ON Hl. unfold comb. rewrite rdot_vsum_l by (intros; apply vscal_len, Lv; assumption).
  rewrite (sumn_ext _ (fun k => if Nat.eqb l k then c l else s0) m).
  - rewrite (sumn_delta Srt). apply Nat.ltb_lt in Hl. rewrite Hl. reflexivity.
  - intros k Hk. rewrite (rdot_vscal_l Srt), ON by assumption. rewrite (Nat.eqb_sym l k).
    destruct (Nat.eqb k l) eqn:E; [apply Nat.eqb_eq in E; subst; ring|ring].
Qed.
Lemma rdot_comb_comb c d m : (forall k, k < m -> length (v k) = n) ->
  (forall a b, a < m -> b < m -> rdot (v a) (v b) = if Nat.eqb a b then s1 else s0) ->
  rdot (comb c m) (comb d m) = sumn (fun l => c l * d l) m.
Proof.
  intros Lv ON. unfold comb at 1. rewrite rdot_vsum_l by (intros; apply vscal_len, Lv; assumption).
  apply sumn_ext. intros k Hk.
  rewrite (rdot_vscal_l Srt), (rdot_sym Srt Sreal), (rdot_comb_v d m k Lv ON Hk). reflexivity.
Qed.

(* a linear operator commutes with finite sums *)
Variable K : vec -> vec.
Hypothesis K_len : forall x, length x = n -> length (K x) = n.
Hypothesis K_lin : linear_on n K.
Lemma K_vsum g m : (forall k, k < m -> length (g k) = n) -> K (vsum g m) = vsum (fun k => K (g k)) m.
Proof.
  induction m as [|m IH]; intro L; simpl.
  - rewrite <- (vzeros_zeron n (zeron n) (zeron_len n)), (lin_zero Srt n K K_len K_lin _ (zeron_len n)). reflexivity.
  - rewrite (lin_add Srt n K K_lin), IH by (try apply vsum_len; intros; apply L; lia). reflexivity.
Qed.
Lemma K_comb y m : (forall l, l < m -> length (v l) = n) ->
  K (comb y m) = vsum (fun c => vscal (y c) (K (v c))) m.
Proof.
  intro Lv. unfold comb. rewrite K_vsum by (intros; apply vscal_len, Lv; assumption).
  apply vsum_ext. intros k Hk. apply (lin_scal Srt n K K_len K_lin), Lv, Hk.
Qed.

(* THE GEOMETRIC IDENTITY: || r0 - K (V y) ||^2 = || g - H y ||^2 *)
Theorem arnoldi_residual_norm j (g : nat -> S) (h : nat -> nat -> S) (r0 : vec) (y : nat -> S) :
  (forall l, l <= j -> length (v l) = n) ->
  (forall a b, a <= j -> b <= j -> rdot (v a) (v b) = if Nat.eqb a b then s1 else s0) ->
  (forall c, c < j -> K (v c) = comb (h c) (SS j)) ->            (* Arnoldi relations *)
  r0 = comb g (SS j) ->                                           (* r0 = beta v_0: g = beta e_0 *)
  let r := vsub r0 (K (comb y j)) in
  rdot r r = sumsq (fun l => g l - sumn (fun c => y c * h c l) j) (SS j).
Proof.
  intros Lv ON AR R0 r.
  assert (Lv' : forall l, l < SS j -> length (v l) = n) by (intros; apply Lv; lia).
  assert (ON' : forall a b, a < SS j -> b < SS j -> rdot (v a) (v b) = if Nat.eqb a b then s1 else s0)
    by (intros; apply ON; lia).
  assert (E : r = comb (fun l => g l - sumn (fun c => y c * h c l) j) (SS j)).
  { unfold r. rewrite K_comb by (intros; apply Lv; lia).
    rewrite (vsum_ext _ (fun c => vscal (y c) (comb (h c) (SS j))) j) by (intros c Hc; rewrite AR by exact Hc; reflexivity).
    rewrite vsum_comb by exact Lv'. rewrite R0. apply comb_sub, Lv'. }
  rewrite E, rdot_comb_comb by assumption. reflexivity.
Qed.

End Geometry.

(* ================================================================== *)
(* the two halves together: the abstract minimal-residual theorem of GMRES *)
Section MinRes.
Context {S : Scalar}.
Local Notation vec := (vec S).
Hypothesis Srt : Sring S.
Hypothesis Sreal : forall x : S, sadj x = x.
Hypothesis Ord : ordered S.
Variable n : nat.
Variable v : nat -> vec.
Variable K : vec -> vec.
Hypothesis K_len : forall x, length x = n -> length (K x) = n.
Hypothesis K_lin : linear_on n K.
Variable j : nat.
Variables (g : nat -> S) (h : nat -> nat -> S) (cs sn : nat -> S) (r0 : vec).
Hypothesis Lv : forall l, l <= j -> length (v l) = n.
Hypothesis ON : forall a b, a <= j -> b <= j -> rdot (v a) (v b) = if Nat.eqb a b then s1 else s0.
Hypothesis AR : forall c, c < j -> K (v c) = comb n v (h c) (SS j).
Hypothesis R0 : r0 = comb n v g (SS j).
Hypothesis U : forall l, l < j -> cs l * cs l + sn l * sn l = s1.
Hypothesis Z : forall c, c < j -> Qn cs sn j (h c) j = s0.

(* every element of x0 + span(v_0..v_{j-1}) (in coordinates: every y) has a residual at least |s_j| *)
Theorem gmres_minimal_residual_lower_bound (y : nat -> S) :
  let r := vsub r0 (K (comb n v y j)) in
  ole (Qn cs sn j g j * Qn cs sn j g j) (rdot r r).
Proof.
  intro r. unfold r.
  rewrite (arnoldi_residual_norm Srt Sreal n v K K_len K_lin j g h r0 y Lv ON AR R0).
  apply (givens_lsq_lower_bound Srt Ord cs sn j g h y U Z).
Qed.
(* ... and the y obtained from the triangular system R y = (Q g)_{<j} attains it *)
Theorem gmres_minimal_residual_attained (y : nat -> S) :
  (forall i, i < j -> sumn (fun c => y c * Qn cs sn j (h c) i) j = Qn cs sn j g i) ->
  let r := vsub r0 (K (comb n v y j)) in
  rdot r r = Qn cs sn j g j * Qn cs sn j g j.
Proof.
  intros Hy r. unfold r.
  rewrite (arnoldi_residual_norm Srt Sreal n v K K_len K_lin j g h r0 y Lv ON AR R0).
  apply (givens_lsq_attained Srt cs sn j g h y U Z Hy).
Qed.
End MinRes.
