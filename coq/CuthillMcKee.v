(* CuthillMcKee.v -- reorder::cuthill_mckee<reverse>::get as coded
   (amgcl/reorder/cuthill_mckee.hpp:78-186).  Definitions only; proofs in
   CuthillMcKeeProofs.v.

   The matrix enters through its pattern only: row i -> list of column indices in
   storage order.  Arrays of the C++ are lists; node-valued arrays with the -1
   sentinel (firstWithDegree, nFirstWithDegree, nextSameDegree) hold Z, so that the
   loop guard [while (node > 0)] is the literal test (node 0 is never expanded).
   [perm] is represented by the list of values written to perm[0], perm[1], ... in
   this order (kept reversed in the state; [next] = its length).
   The two data-dependent loops take fuel: the main loop [n] (each pass emits a
   node), the chain walk [n+1] (a same-degree chain has no repetition); running
   out of fuel is the distinct result [CmOutOfFuel], excluded by a theorem. *)
From Coq Require Import List Arith ZArith Lia Bool.
From Amgcl Require Import DirectUtil.
Import ListNotations.

Definition graph := list (list nat).

Inductive cm_result :=
| CmOk (perm : list nat)
| CmOutOfFuel                (* model artefact; proved unreachable *)
| CmPrecond                  (* precondition(found, "Internal consistency error ...") *)
| CmEmptyUB.                 (* n = 0: perm[0] = 0 and degree[0] are out of bounds in the C++ *)

Record cm_st := mkCmSt {
  lvl  : list nat;           (* levelSet, 0 = not yet in a level set *)
  nsd  : list Z;             (* nextSameDegree *)
  nfwd : list Z;             (* nFirstWithDegree *)
  out  : list nat;           (* perm[next-1], ..., perm[0] *)
  nmd  : nat;                (* nMDICLS *)
  emp  : bool }.             (* empty *)

Section CM.
Variable reverse : bool.
Variable G : graph.

Definition cm_n : nat := length G.
Definition degree (i : nat) : nat := length (nth i G []).
Definition max_degree : nat := fold_left Nat.max (map (@length nat) G) 0.

(* body of "for(a = row_begin(A, node); a; ++a)" *)
Definition visit_col (cur : nat) (s : cm_st) (c : nat) : cm_st :=
  if Nat.eqb (nth c (lvl s) 0) 0 then
    let d := degree c in
    mkCmSt (lset (lvl s) c (S cur))
           (lset (nsd s) c (nth d (nfwd s) (-1)%Z))
           (lset (nfwd s) d (Z.of_nat c))
           (c :: out s)
           (Nat.max (nmd s) d)
           false
  else s.

Definition visit_node (cur node : nat) (s : cm_st) : cm_st :=
  fold_left (visit_col cur) (nth node G []) s.

(* while (node > 0) { visit neighbours; node = nextSameDegree[node]; } *)
Fixpoint walk (fuel cur : nat) (node : Z) (s : cm_st) : option cm_st :=
  match fuel with
  | O => if (node >? 0)%Z then None else Some s
  | S f =>
    if (node >? 0)%Z then
      let s' := visit_node cur (Z.to_nat node) s in
      walk f cur (nth (Z.to_nat node) (nsd s') (-1)%Z) s'
    else Some s
  end.

(* for(soughtDegree = firstVal; soughtDegree != finalVal; soughtDegree += increment) *)
Definition degree_order (maxd : nat) : list nat :=
  if reverse then rev (seq 0 (S maxd)) else seq 0 (S maxd).

Definition sweep (cur maxd : nat) (fwd : list Z) (s : cm_st) : option cm_st :=
  fold_left (fun os d => match os with
                         | None => None
                         | Some s => walk (S cm_n) cur (nth d fwd (-1)%Z) s
                         end)
            (degree_order maxd) (Some s).

(* for(i = 0; i < n; ++i) if (levelSet[i] == 0) { ... break; } *)
Fixpoint find_unmarked (l : list nat) (i : nat) : option nat :=
  match l with
  | [] => None
  | x :: tl => if Nat.eqb x 0 then Some i else find_unmarked tl (S i)
  end.

(* for (next = 1; next < n; ) { ... } ; cur = currentLevelSet, maxd = maxDegreeInCurrentLevelSet *)
Fixpoint cm_main (fuel cur maxd : nat) (fwd : list Z) (lv : list nat) (ns : list Z) (o : list nat)
  : cm_result :=
  if Nat.leb cm_n (length o) then CmOk (rev o) else
  match fuel with
  | O => CmOutOfFuel
  | S f =>
    match sweep cur maxd fwd (mkCmSt lv ns (repeat (-1)%Z (S max_degree)) o 0 true) with
    | None => CmOutOfFuel
    | Some s =>
      let cur' := S cur in
      (* for(i = 0; i <= nMDICLS; ++i) firstWithDegree[i] = nFirstWithDegree[i]; *)
      let fwd' := firstn (S (nmd s)) (nfwd s) ++ skipn (S (nmd s)) fwd in
      if emp s then
        match find_unmarked (lvl s) 0 with
        | None => CmPrecond
        | Some i =>
          cm_main f cur' (degree i) (lset fwd' (degree i) (Z.of_nat i))
                  (lset (lvl s) i cur') (nsd s) (i :: out s)
        end
      else cm_main f cur' (nmd s) fwd' (lvl s) (nsd s) (out s)
    end
  end.

Definition cuthill_mckee : cm_result :=
  if Nat.eqb cm_n 0 then CmEmptyUB else
  cm_main cm_n 1 (degree 0)
          (lset (repeat (-1)%Z (S max_degree)) (degree 0) 0%Z)
          (lset (repeat 0 cm_n) 0 1)
          (repeat (-1)%Z cm_n)
          [0].

End CM.

(* well-formedness the C++ relies on when indexing levelSet[c]: square pattern *)
Definition graph_wf (G : graph) : bool :=
  forallb (forallb (fun c => Nat.ltb c (length G))) G.
