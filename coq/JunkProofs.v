(* JunkProofs.v -- C10-A1: results do not depend on the prior content of memory that the
   C++ allocates without initialising (new T[n], numa_vector(n, false)) or keeps as scratch.
   All statements hold for every Scalar record (IEEE floats with NaN payloads included)
   unless a hypothesis says otherwise. *)
From Amgcl Require Import Scalar QcInst Vec Crs Kernels KernelsProofs MatOps MatOpsProofs Relax Junk.
Local Open Scope S_scope.

Section AnyScalar.
Context {S : Scalar}.
Local Notation vec := (vec S).
Local Notation crs := (crs S).

(* damped_jacobi constructor: dia = diagonal(A, invert = true) into a fresh numa_vector *)
Theorem jacobi_setup_junk_independent (A : crs) (j1 j2 : vec) :
  has_diag A = true -> jacobi_setup A j1 = jacobi_setup A j2.
Proof. intro H. unfold jacobi_setup. apply diagonal_junk_independent. exact H. Qed.

(* spai0 constructor: every cell of M is written from A alone -- the model has no junk input;
   stated as: the result is determined by the rows of A *)
Theorem spai0_setup_function_of_rows (A B : crs) : rows A = rows B -> spai0_setup A = spai0_setup B.
Proof. intro H. unfold spai0_setup. rewrite H. reflexivity. Qed.

(* apply_pre/apply_post: the work vector tmp is overwritten by residual() before it is read *)
Theorem jacobi_sweep_tmp_independent (w : S) (dia : vec) (A : crs) (rhs x t1 t2 : vec) :
  length rhs = nrows A -> length t1 = nrows A -> length t2 = nrows A ->
  jacobi_sweep w dia A rhs x t1 = jacobi_sweep w dia A rhs x t2.
Proof.
  intros Hf H1 H2. unfold jacobi_sweep.
  rewrite (residual_ignores_res rhs A x t1 t2) by assumption. reflexivity.
Qed.
Theorem spai0_sweep_tmp_independent (M : vec) (A : crs) (rhs x t1 t2 : vec) :
  length rhs = nrows A -> length t1 = nrows A -> length t2 = nrows A ->
  spai0_sweep M A rhs x t1 = spai0_sweep M A rhs x t2.
Proof.
  intros Hf H1 H2. unfold spai0_sweep.
  rewrite (residual_ignores_res rhs A x t1 t2) by assumption. reflexivity.
Qed.

(* apply(): x = dia * rhs + 0 * x overwrites x (needs is_zero(0), true for IEEE and QcS) *)
Theorem jacobi_apply_x_independent (dia rhs x1 x2 : vec) :
  is_zero (@s0 S) = true -> length rhs = length dia -> length x1 = length dia -> length x2 = length dia ->
  jacobi_apply dia rhs x1 = jacobi_apply dia rhs x2.
Proof. intros Hz Hr H1 H2. unfold jacobi_apply. apply vmul_b0_ignores_z; assumption. Qed.
Theorem spai0_apply_x_independent (M rhs x1 x2 : vec) :
  is_zero (@s0 S) = true -> length rhs = length M -> length x1 = length M -> length x2 = length M ->
  spai0_apply M rhs x1 = spai0_apply M rhs x2.
Proof. intros Hz Hr H1 H2. unfold spai0_apply. apply vmul_b0_ignores_z; assumption. Qed.

End AnyScalar.

(* without the guard the statement is false: diagonal() leaves the cell of a row without a
   diagonal entry untouched (documented precondition of damped_jacobi / diagonal) *)
Theorem diagonal_junk_dependent_refuted :
  has_diag nodiag_A = false /\
  exists inv j1 j2, diagonal nodiag_A inv j1 <> diagonal nodiag_A inv j2.
Proof.
  split; [vm_compute; reflexivity|].
  exists true, junk_a, junk_b. vm_compute. intro H. inversion H.
Qed.

(* the hypotheses are satisfiable *)
Example has_diag_example : has_diag (mkCrs 2 [[(0, qc 2 1); (1, qc (-1) 1)]; [(1, qc 3 1)]]%nat : Crs.crs QcS) = true.
Proof. vm_compute. reflexivity. Qed.
Example is_zero_zero_Qc : is_zero (@s0 QcS) = true.
Proof. vm_compute. reflexivity. Qed.
