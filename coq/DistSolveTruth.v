(* DistSolveTruth.v -- C12-A2: truthfulness of the rank-lifted solvers on the distributed matrix, by combining
   the simulation theorems of DistSolveProofs.v with the serial truthfulness theorems of KrylovProofs.v (C01). *)
From Amgcl Require Import Scalar Vec Crs Kernels KernelsProofs MatOps Dist DistProofs Krylov KrylovProofs
                          DistSolve DistSolveProofs.
Local Open Scope nat_scope.

Section Truth.
Variable S : Scalar.
Hypothesis Srt : Sring S.
Hypothesis Seqb : seqb_spec S.

Lemma distributed_cg_truthful (A : crs S) (parts : list nat)
        (Pw : list (vec S) -> list (vec S)) (Pser : vec S -> vec S)
        prm (Fs Xs0 : list (vec S)) (junk : wcg) (sjunk : cg_ws) nr :
  0 < length parts ->
  wf A = true -> psum parts = nrows A -> ncols A = nrows A ->
  (forall Xs, shape parts Xs -> shape parts (Pw Xs) /\ concat (Pw Xs) = Pser (concat Xs)) ->
  (forall v, length v = nrows A -> length (Pser v) = nrows A) ->
  shape parts Fs -> shape parts Xs0 ->
  shape parts (w_s junk) -> shape parts (w_p junk) -> shape parts (w_q junk) ->
  concat (w_s junk) = cg_s sjunk -> concat (w_p junk) = cg_p sjunk -> concat (w_q junk) = cg_q sjunk ->
  k_prologue norm_a prm (concat Fs) = Go nr ->
  exists res,
    wcg_run (dist_op A parts) Pw prm Fs Xs0 junk = Some res /\
    length res = length parts /\
    forall k, In k res ->
      k_res k = (true_res norm_a (serial_op A) Pser false (concat Fs) (concat (map (@k_x S) res)) / nr)%S /\
      k_it k <= p_maxiter prm.
Proof.
  intros Hn Hwf Hr Hc HP HPlen SF SX Ss Sp Sq Cs Cp Cq Hpro.
  assert (Hc' : psum parts = ncols A) by congruence.
  destruct (wcg_run_spec Srt parts Hn (dist_op A parts) Pw (serial_op A) Pser
              (dist_op_is_world_op Srt Seqb A parts Hwf Hr Hc') HP prm Fs Xs0 junk sjunk
              SF SX Ss Sp Sq Cs Cp Cq) as [r [res [Hcg [Hrun [Hit [Hres [Hsh Hx]]]]]]].
  exists res. split; [exact Hrun|].
  assert (Hlen : length res = length parts).
  { rewrite <- (map_length (@k_it S) res), Hit. apply repeat_length. }
  split; [exact Hlen|].
  assert (Lf : length (concat Fs) = nrows A).
  { rewrite <- Hr. clear -SF. unfold shape in SF. subst parts. induction Fs as [|x Xs IH]; simpl; [reflexivity|].
    rewrite app_length, IH. reflexivity. }
  assert (Lx : length (concat Xs0) = nrows A).
  { rewrite <- Hr. clear -SX. unfold shape in SX. subst parts. induction Xs0 as [|x Xs IH]; simpl; [reflexivity|].
    rewrite app_length, IH. reflexivity. }
  destruct (cg (serial_op A) Pser prm (concat Fs) (concat Xs0) sjunk) as [o w] eqn:Ecg. simpl in Hcg. subst o.
  destruct (cg_residual_truthful Srt Seqb (nrows A) (serial_op A) Pser
              (fun v _ => mat_op_len A v) HPlen (mat_op_linear Srt Seqb A Hwf Hc)
              prm (concat Fs) (concat Xs0) sjunk nr r w Lf Lx Hpro Ecg) as [Htrue _].
  pose proof (cg_iters_le_maxiter (serial_op A) Pser prm (concat Fs) (concat Xs0) sjunk r w Ecg) as Hle.
  intros k Hk.
  assert (Hk1 : k_res k = k_res r).
  { pose proof (in_map (@k_res S) res k Hk) as H1. rewrite Hres in H1. apply repeat_spec in H1. exact H1. }
  assert (Hk2 : k_it k = k_it r).
  { pose proof (in_map (@k_it S) res k Hk) as H1. rewrite Hit in H1. apply repeat_spec in H1. exact H1. }
  rewrite Hk1, Hk2, Hx. split; [exact Htrue | exact (proj1 Hle)].
Qed.

Lemma distributed_richardson_truthful (A : crs S) (parts : list nat)
        (Pw : list (vec S) -> list (vec S)) (Pser : vec S -> vec S)
        prm (Fs Xs0 junk_s : list (vec S)) (sjunk : @ri_ws S) nr :
  0 < length parts ->
  wf A = true -> psum parts = nrows A -> psum parts = ncols A ->
  (forall Xs, shape parts Xs -> shape parts (Pw Xs) /\ concat (Pw Xs) = Pser (concat Xs)) ->
  shape parts Fs -> shape parts Xs0 ->
  k_prologue norm_a prm (concat Fs) = Go nr ->
  exists res,
    wri_run (dist_op A parts) Pw prm Fs Xs0 junk_s = Some res /\
    forall k, In k res ->
      k_res k = (true_res norm_a (serial_op A) Pser false (concat Fs) (concat (map (@k_x S) res)) / nr)%S.
Proof.
  intros Hn Hwf Hr Hc HP SF SX Hpro.
  destruct (wri_run_spec Srt parts Hn (dist_op A parts) Pw (serial_op A) Pser
              (dist_op_is_world_op Srt Seqb A parts Hwf Hr Hc) HP prm Fs Xs0 junk_s sjunk SF SX)
    as [r [res [Hri [Hrun [Hit [Hres [Hsh Hx]]]]]]].
  exists res. split; [exact Hrun|].
  destruct (richardson (serial_op A) Pser prm (concat Fs) (concat Xs0) sjunk) as [o w] eqn:Eri. simpl in Hri. subst o.
  pose proof (richardson_residual_truthful (serial_op A) Pser prm (concat Fs) (concat Xs0) sjunk nr r w Hpro Eri) as Htrue.
  intros k Hk.
  pose proof (in_map (@k_res S) res k Hk) as H1. rewrite Hres in H1. apply repeat_spec in H1.
  rewrite H1, Hx. exact Htrue.
Qed.

End Truth.
