(* EminProofs.v -- C04: smoothed_aggr_emin, generic row-level lemmas (commutative ring):
   strictly sorted rows, the two-pointer product join_prod, the cursor scan tent_scan / emin_upd_row,
   accumulation into dense vectors (vadd_at), structure of product rows.  Used by EminProofs2.v. *)
From Coq Require Import Sorting.Sorted Sorting.Permutation.
From Amgcl Require Import Scalar Vec Crs Kernels KernelsProofs MatOps MatOpsProofs Aggregates Tentative Coarsen CoarsenProofs.
Local Open Scope S_scope.

Section EminRows.
Variable S : Scalar.
Hypothesis Srt : Sring S.
Add Ring SRingEmin : Srt.
Local Notation row := (row S).
Local Notation vec := (vec S).
Local Notation crs := (crs S).

(* ---------------------------------------------------------------- strictly sorted rows *)
Lemma sorted_strict_tail (e : nat * S) (r : row) : sorted_strict (e :: r) = true -> sorted_strict r = true.
Proof. destruct r as [|e2 r]; simpl; [reflexivity|]. intro H. apply andb_prop in H as [_ H]. exact H. Qed.

Lemma sorted_strict_lb (e : nat * S) (r : row) : sorted_strict (e :: r) = true -> Forall (fun x => fst e < fst x) r.
Proof.
  revert e. induction r as [|e2 r IH]; intros e H; [constructor|].
  simpl in H. apply andb_prop in H as [H1 H2]. apply Nat.ltb_lt in H1.
  constructor; [exact H1|]. eapply Forall_impl; [|apply (IH e2 H2)]. simpl. intros a Ha. lia.
Qed.

Lemma rget_above (r : row) c : Forall (fun x => c < fst x) r -> rget r c = s0.
Proof.
  intro H. apply (rget_notin Srt). intro Hin. apply in_map_iff in Hin as (x & Hx & Hin).
  rewrite Forall_forall in H. specialize (H x Hin). lia.
Qed.

Lemma sorted_strict_NoDup (r : row) : sorted_strict r = true -> NoDup (map fst r).
Proof.
  induction r as [|e r IH]; intro H; [constructor|]. simpl. constructor.
  - intro Hin. apply in_map_iff in Hin as (x & Hx & Hin).
    pose proof (sorted_strict_lb e r H) as HF. rewrite Forall_forall in HF. specialize (HF x Hin). lia.
  - apply IH. exact (sorted_strict_tail e r H).
Qed.

(* ---------------------------------------------------------------- values recomputed entry by entry *)
Lemma map_fst_upd (h : nat -> S -> S) (r : row) :
  map fst (map (fun e => (fst e, h (fst e) (snd e))) r) = map fst r.
Proof. rewrite map_map. reflexivity. Qed.

Lemma rget_map_in (h : nat -> S -> S) (r : row) j : NoDup (map fst r) -> In j (map fst r) ->
  rget (map (fun e => (fst e, h (fst e) (snd e))) r) j = h j (rget r j).
Proof.
  induction r as [|e r IH]; intros Hnd Hin; [destruct Hin|].
  simpl in Hnd. inversion Hnd as [|? ? Hx Hl]; subst. simpl map. rewrite !(rget_cons Srt). cbn [fst snd].
  destruct (Nat.eqb_spec (fst e) j) as [E|E].
  - subst j. rewrite (rget_notin Srt r (fst e)) by exact Hx.
    rewrite (rget_notin Srt) by (rewrite map_fst_upd; exact Hx).
    replace (snd e + s0) with (snd e) by ring. ring.
  - destruct Hin as [Hin|Hin]; [contradiction|]. rewrite (IH Hl Hin).
    replace (s0 + rget r j) with (rget r j) by ring. ring.
Qed.

Lemma rget_map_notin (h : nat -> S -> S) (r : row) j : ~ In j (map fst r) ->
  rget (map (fun e => (fst e, h (fst e) (snd e))) r) j = s0.
Proof. intro H. apply (rget_notin Srt). rewrite map_fst_upd. exact H. Qed.

(* scaling every entry by a factor that depends on its column *)
Lemma rget_map_colscale (g : nat -> S) (r : row) j :
  rget (map (fun e => (fst e, g (fst e) * snd e)) r) j = g j * rget r j.
Proof.
  induction r as [|e r IH]; [simpl map; rewrite !rget_nil; ring|].
  simpl map. rewrite !(rget_cons Srt), IH. cbn [fst snd].
  destruct (Nat.eqb_spec (fst e) j) as [E|E]; [subst j|]; ring.
Qed.

(* ---------------------------------------------------------------- join_prod *)
Lemma join_prod_nil_r (ra : row) : join_prod ra [] = [].
Proof. destruct ra as [|[ca va] ta]; reflexivity. Qed.

Lemma rget_join_prod (ra rb : row) c : sorted_strict ra = true -> sorted_strict rb = true ->
  rget (join_prod ra rb) c = rget ra c * rget rb c.
Proof.
  revert rb. induction ra as [|[ca va] ta IHa]; intros rb Ha Hb.
  - simpl. rewrite !rget_nil. ring.
  - induction rb as [|[cb vb] tb IHb].
    + rewrite join_prod_nil_r, !rget_nil. ring.
    + pose proof (sorted_strict_lb _ _ Ha) as La. pose proof (sorted_strict_lb _ _ Hb) as Lb.
      pose proof (sorted_strict_tail _ _ Ha) as Ta. pose proof (sorted_strict_tail _ _ Hb) as Tb.
      cbn [fst] in La, Lb.
      change (join_prod ((ca, va) :: ta) ((cb, vb) :: tb))
        with (if Nat.ltb ca cb then join_prod ta ((cb, vb) :: tb)
              else if Nat.ltb cb ca then join_prod ((ca, va) :: ta) tb
              else (ca, va * vb) :: join_prod ta tb).
      destruct (Nat.ltb_spec ca cb) as [H1|H1].
      * rewrite (IHa _ Ta Hb). rewrite (rget_cons Srt (ca, va)). cbn [fst snd].
        destruct (Nat.eqb_spec ca c) as [E|E]; [|ring]. subst c.
        rewrite (rget_above ((cb, vb) :: tb) ca).
        2:{ constructor; [exact H1|]. eapply Forall_impl; [|exact Lb]. simpl. intros a Ha'. lia. }
        ring.
      * destruct (Nat.ltb_spec cb ca) as [H2|H2].
        -- rewrite (IHb Tb). rewrite (rget_cons Srt (cb, vb)). cbn [fst snd].
           destruct (Nat.eqb_spec cb c) as [E|E]; [|ring]. subst c.
           rewrite (rget_above ((ca, va) :: ta) cb).
           2:{ constructor; [exact H2|]. eapply Forall_impl; [|exact La]. simpl. intros a Ha'. lia. }
           ring.
        -- assert (cb = ca) by lia. subst cb.
           rewrite !(rget_cons Srt). cbn [fst snd]. rewrite (IHa _ Ta Tb).
           destruct (Nat.eqb_spec ca c) as [E|E]; [|ring]. subst c.
           rewrite (rget_above ta ca La), (rget_above tb ca Lb). ring.
Qed.

(* ---------------------------------------------------------------- tent_scan / emin_upd_row *)
Definition scan_val (o : option S) : S := match o with Some v => v | None => s0 end.

Lemma tent_scan_spec ca (tr : row) : sorted_strict tr = true ->
  scan_val (fst (tent_scan ca tr)) = rget tr ca /\
  sorted_strict (snd (tent_scan ca tr)) = true /\
  (forall c, ca < c -> rget (snd (tent_scan ca tr)) c = rget tr c).
Proof.
  induction tr as [|[cp vp] tl IH]; intro Hs.
  - simpl. rewrite rget_nil. auto.
  - pose proof (sorted_strict_lb _ _ Hs) as Lb. pose proof (sorted_strict_tail _ _ Hs) as Tl. cbn [fst] in Lb.
    simpl tent_scan. destruct (Nat.ltb_spec ca cp) as [H1|H1].
    + cbn [fst snd scan_val]. split; [|split; [exact Hs|reflexivity]].
      symmetry. apply rget_above. constructor; [exact H1|]. eapply Forall_impl; [|exact Lb]. simpl. intros a Ha. lia.
    + destruct (Nat.eqb_spec cp ca) as [E|E].
      * subst cp. cbn [fst snd scan_val]. split; [|split; [exact Hs|reflexivity]].
        rewrite (rget_cons Srt). cbn [fst snd]. rewrite Nat.eqb_refl, (rget_above tl ca Lb). ring.
      * destruct (IH Tl) as (I1 & I2 & I3). split; [|split; [exact I2|]].
        -- rewrite I1, (rget_cons Srt). cbn [fst snd].
           destruct (Nat.eqb_spec cp ca); [contradiction|]. ring.
        -- intros c Hc. rewrite (I3 c Hc), (rget_cons Srt). cbn [fst snd].
           destruct (Nat.eqb_spec cp c); [lia|]. ring.
Qed.

Definition upd_step (coef : nat -> S -> S) (acc : row * row) (e : nat * S) : row * row :=
  let sc := tent_scan (fst e) (snd acc) in
  let va := coef (fst e) (snd e) in
  (fst acc ++ [(fst e, match fst sc with Some vp => va + vp | None => va end)], snd sc).

Lemma upd_fold_spec (coef : nat -> S -> S) (trow : row) (prow : row) :
  forall (acc tr : row), sorted_strict prow = true -> sorted_strict tr = true ->
  (forall e, In e prow -> rget tr (fst e) = rget trow (fst e)) ->
  fst (fold_left (upd_step coef) prow (acc, tr))
  = acc ++ map (fun e => (fst e, coef (fst e) (snd e) + rget trow (fst e))) prow.
Proof.
  induction prow as [|e prow IH]; intros acc tr Hp Ht Heq.
  - simpl. rewrite app_nil_r. reflexivity.
  - pose proof (sorted_strict_lb _ _ Hp) as Lb. pose proof (sorted_strict_tail _ _ Hp) as Tl.
    destruct (tent_scan_spec (fst e) tr Ht) as (S1 & S2 & S3).
    simpl fold_left. unfold upd_step at 2. cbv zeta. cbn [fst snd].
    rewrite (IH _ _ Tl S2).
    + rewrite <- app_assoc. f_equal. simpl. f_equal. f_equal.
      rewrite <- (Heq e (or_introl eq_refl)), <- S1.
      destruct (fst (tent_scan (fst e) tr)); simpl; ring.
    + intros e' He'. rewrite Forall_forall in Lb. rewrite (S3 _ (Lb e' He')). apply Heq. right. exact He'.
Qed.

Lemma emin_upd_row_spec (coef : nat -> S -> S) (prow trow : row) :
  sorted_strict prow = true -> sorted_strict trow = true ->
  emin_upd_row coef prow trow = map (fun e => (fst e, coef (fst e) (snd e) + rget trow (fst e))) prow.
Proof.
  intros Hp Ht. unfold emin_upd_row.
  exact (upd_fold_spec coef trow prow [] trow Hp Ht (fun e _ => eq_refl)).
Qed.

(* dense entries of an updated row *)
Lemma rget_emin_upd_row (coef : nat -> S -> S) (prow trow : row) j :
  sorted_strict prow = true -> sorted_strict trow = true ->
  rget (emin_upd_row coef prow trow) j
  = if existsb (Nat.eqb j) (map fst prow) then coef j (rget prow j) + rget trow j else s0.
Proof.
  intros Hp Ht. rewrite (emin_upd_row_spec coef prow trow Hp Ht).
  destruct (existsb (Nat.eqb j) (map fst prow)) eqn:E.
  - apply existsb_exists in E as (x & Hx & Ex). apply Nat.eqb_eq in Ex. subst x.
    apply (rget_map_in (fun c v => coef c v + rget trow c) prow j (sorted_strict_NoDup prow Hp) Hx).
  - apply (rget_map_notin (fun c v => coef c v + rget trow c)). intro Hin.
    assert (existsb (Nat.eqb j) (map fst prow) = true) by (apply existsb_exists; exists j; split; [exact Hin|apply Nat.eqb_refl]).
    congruence.
Qed.

(* ---------------------------------------------------------------- accumulation into dense vectors *)
Lemma vadd_at_length (v : vec) i x : length (vadd_at v i x) = length v.
Proof. unfold vadd_at. apply upd_nth_length. Qed.

Lemma vget_vadd_at (v : vec) i x c : c < length v ->
  vget (vadd_at v i x) c = vget v c + (if Nat.eqb i c then x else s0).
Proof.
  intro Hc. unfold vadd_at, vget. rewrite nth_upd_nth.
  destruct (Nat.eqb_spec c i) as [E|E].
  - subst i. rewrite Nat.eqb_refl. replace (Nat.ltb c (length v)) with true by (symmetry; apply Nat.ltb_lt; exact Hc).
    reflexivity.
  - cbn [andb]. destruct (Nat.eqb_spec i c); [congruence|]. ring.
Qed.

Lemma fold_vadd_length (r : row) (v : vec) :
  length (fold_left (fun om e => vadd_at om (fst e) (snd e)) r v) = length v.
Proof. revert v. induction r as [|e r IH]; intro v; simpl; [reflexivity|]. rewrite IH. apply vadd_at_length. Qed.

Lemma vget_fold_vadd (r : row) (v : vec) c : c < length v ->
  vget (fold_left (fun om e => vadd_at om (fst e) (snd e)) r v) c = vget v c + rget r c.
Proof.
  revert v. induction r as [|e r IH]; intros v Hc; simpl.
  - rewrite rget_nil. ring.
  - rewrite IH by (rewrite vadd_at_length; exact Hc). rewrite vget_vadd_at by exact Hc.
    rewrite (rget_cons Srt). ring.
Qed.

(* a loop over the rows that adds one sparse row per step *)
Lemma fold_rows_vadd_length (R : nat -> row) (l : list nat) (v : vec) :
  length (fold_left (fun om ia => fold_left (fun om e => vadd_at om (fst e) (snd e)) (R ia) om) l v) = length v.
Proof. revert v. induction l as [|i l IH]; intro v; simpl; [reflexivity|]. rewrite IH. apply fold_vadd_length. Qed.

Lemma vget_fold_rows_vadd (R : nat -> row) n (v : vec) c : c < length v ->
  vget (fold_left (fun om ia => fold_left (fun om e => vadd_at om (fst e) (snd e)) (R ia) om) (seq 0 n) v) c
  = vget v c + sumn (fun ia => rget (R ia) c) n.
Proof.
  intro Hc. induction n as [|n IH].
  - simpl. ring.
  - rewrite seq_S, fold_left_app. simpl fold_left. rewrite vget_fold_vadd by (rewrite fold_rows_vadd_length; exact Hc).
    rewrite IH. simpl sumn. ring.
Qed.

Lemma fold_pair {A B X} (F : X -> A -> A) (G : X -> B -> B) (l : list X) (a : A) (b : B) :
  fold_left (fun (ab : A * B) x => (F x (fst ab), G x (snd ab))) l (a, b)
  = (fold_left (fun a x => F x a) l a, fold_left (fun b x => G x b) l b).
Proof. revert a b. induction l as [|x l IH]; intros a b; simpl; [reflexivity|]. apply IH. Qed.

Lemma vget_map2 (f : S -> S -> S) (d o : vec) c : c < length d -> c < length o ->
  vget (map2 f d o) c = f (vget d c) (vget o c).
Proof.
  unfold vget. revert o c. induction d as [|a d IH]; intros [|b o] c Hd Ho; simpl in *; try lia.
  destruct c as [|c]; [reflexivity|]. apply IH; lia.
Qed.

Lemma vget_vzero n c : vget (vzero n : vec) c = s0.
Proof. unfold vget, vzero. destruct (Nat.ltb_spec c n); [apply nth_repeat|apply nth_overflow; rewrite repeat_length; lia]. Qed.

(* ---------------------------------------------------------------- structure of product rows *)
Lemma In_fold_row_add_mono {X} (g : X -> nat) (h : X -> S) (l : list X) (acc : row) c :
  In c (map fst acc) -> In c (map fst (fold_left (fun acc e => row_add acc (g e) (h e)) l acc)).
Proof.
  revert acc. induction l as [|e l IH]; intros acc H; simpl; [exact H|].
  apply IH. apply In_row_add. left. exact H.
Qed.

Lemma In_fold_row_add_new {X} (g : X -> nat) (h : X -> S) (l : list X) (acc : row) x :
  In x l -> In (g x) (map fst (fold_left (fun acc e => row_add acc (g e) (h e)) l acc)).
Proof.
  revert acc. induction l as [|e l IH]; intros acc H; [destruct H|]. simpl. destruct H as [->|H].
  - apply In_fold_row_add_mono. apply In_row_add. right. reflexivity.
  - apply IH. exact H.
Qed.

Lemma In_spgemm_row (ra : row) (B : crs) (e : nat * S) c :
  In e ra -> In c (map fst (nth (fst e) (rows B) [])) -> In c (map fst (spgemm_row ra B)).
Proof.
  intros He Hc. unfold spgemm_row.
  assert (G : forall acc,
     In c (map fst (fold_left (fun acc ea =>
        fold_left (fun acc eb => row_add acc (fst eb) (snd ea * snd eb))
                  (nth (fst ea) (rows B) []) acc) ra acc))).
  { induction ra as [|a ra IH]; intro acc; [destruct He|]. simpl. destruct He as [->|He].
    - assert (M : forall l acc', In c (map fst acc') ->
        In c (map fst (fold_left (fun acc ea =>
          fold_left (fun acc eb => row_add acc (fst eb) (snd ea * snd eb)) (nth (fst ea) (rows B) []) acc) l acc'))).
      { induction l as [|a l IHl]; intros acc' H; simpl; [exact H|]. apply IHl.
        apply (In_fold_row_add_mono fst (fun eb => snd a * snd eb)). exact H. }
      apply M. apply in_map_iff in Hc as (x & Hx & Hin). subst c.
      apply (In_fold_row_add_new fst (fun eb => snd e * snd eb)). exact Hin.
    - apply IH. exact He. }
  apply G.
Qed.

Lemma In_sort_row (r : row) c : In c (map fst (sort_row r)) <-> In c (map fst r).
Proof.
  pose proof (sort_row_perm r) as Hp. split; intro H.
  - eapply Permutation_in; [|exact H]. apply Permutation_map. exact Hp.
  - eapply Permutation_in; [|exact H]. apply Permutation_map. apply Permutation_sym. exact Hp.
Qed.

End EminRows.
