(* AmgBlockCycleSym3IluFactorsNc.v -- C02 / ILU(0) on a HERMITIAN matrix over a non-commutative ring with an involutive
   anti-automorphism (block values): the factors computed by Ilu.ilu0 satisfy
        L_ij = (D_j U_ji)^H   and   D_j^H = D_j          (D the inverted pivots),
   for a matrix with strictly sorted rows, stored diagonal, symmetric pattern and invertible pivots.  Non-commutative
   version of AmgBlockCycleSym3IluFactors.v: strong induction on the column j, from exactness on the pattern
   (BlockIlu0Exact.nc_ilu0_exact_on_pattern) -- the lower equation at (i,j), the ADJOINT of the upper equation at (j,i), the
   diagonal equation at (j,j) for the hermitian-ness of the pivot -- and the two-sided inverse of the pivots.  Hence
   good5 (R5Ilu0 w) A from structural conditions only (nc_ilu0_good5) and block_apply_herm_ilu0_structural: hierarchies of
   amg_init over static_matrix<T,b,b>, T a field, smoothed by ILU(0): hermitian preconditioner, no factor hypothesis. *)
From Coq Require Import ZifyBool.
From Amgcl Require Import Scalar Vec Crs Kernels KernelsProofs MatOps MatOpsProofs Relax Ilu IluProofs NcRing NcKernels
  BlockIlu0Exact AmgBlockNc AmgBlockCycle AmgBlockCycleSym AmgBlockCycleSym3Ilu.
Local Open Scope S_scope.

Section Ilu0HermNc.
Context {S : Scalar}.
Hypothesis Hnc : ncring_theory S.
Hypothesis Seqb : seqb_spec S.
Local Instance ncsy9 : NcRingInst S := ncring_inst Hnc.
Hypothesis Hinv : forall x : S, sinv x <> s0 -> x * sinv x = s1.
Hypothesis adj_add : forall a b : S, sadj (a + b) = sadj a + sadj b.
Hypothesis adj_mul : forall a b : S, sadj (a * b) = sadj b * sadj a.
Hypothesis adj_inv : forall a : S, sadj (sadj a) = a.
Local Notation row := (row S).
Local Notation vec := (vec S).
Local Notation crs := (crs S).

Variables (A : crs) (junk : vec) (L U : crs) (D : vec).
Local Notation n := (nrows A).
Hypothesis WA : wf A = true.
Hypothesis SqA : ncols A = n.
Hypothesis SoA : forall i, i < n -> sorted_strict (nth i (rows A) []) = true.
Hypothesis DgA : has_diag A = true.
Hypothesis HF : ilu0 A junk = Ok (L, U, D).
Hypothesis HDk : forall k, k < n -> vget D k <> s0 /\ sinv (vget D k) <> s0.
(* A hermitian, with a symmetric sparsity pattern *)
Hypothesis SyA : forall i j, i < n -> j < n -> mget A j i = sadj (mget A i j).
Hypothesis SpA : forall i j, i < n -> j < n -> has_col j (nth i (rows A) []) = has_col i (nth j (rows A) []).

Let HLl : strict_lower L := ilu0_strict_lower A junk L U D HF.
Lemma nHUu : strict_upper n U.
Proof. rewrite <- SqA. exact (ilu0_strict_upper A junk L U D HF WA). Qed.

Lemma nsumn_extend (f : nat -> S) a m :
  a <= m -> (forall k, a <= k -> k < m -> f k = s0) -> sumn f m = sumn f a.
Proof.
  intros Hnm. induction Hnm as [|m Hnm IH]; intro Hz; [reflexivity|].
  simpl. rewrite IH by (intros; apply Hz; lia). rewrite Hz by lia. ncr.
Qed.

Lemma nabsent_rget (r ra : row) j : (forall c v, In (c, v) r -> In c (map fst ra)) ->
  has_col j ra = false -> rget r j = s0.
Proof.
  intros Hin Hj. apply (nx0_rget_absent Hnc).
  destruct (has_col j r) eqn:E; [|reflexivity]. exfalso.
  apply nx0_has_col_In in E. apply in_map_iff in E as ([c v] & Ec & He). simpl in Ec. subst c.
  apply Hin in He. apply nx0_has_col_In in He. congruence.
Qed.
Lemma nL_off_pattern i j : has_col j (nth i (rows A) []) = false -> mget L i j = s0.
Proof.
  intro H. destruct (ilu0_structure A junk L U D HF) as (_ & _ & _ & _ & _ & HLs & _).
  unfold mget. apply (nabsent_rget _ (nth i (rows A) [])); [|exact H].
  intros c v Hin. apply (HLs i c v Hin).
Qed.
Lemma nU_off_pattern i j : has_col j (nth i (rows A) []) = false -> mget U i j = s0.
Proof.
  intro H. destruct (ilu0_structure A junk L U D HF) as (_ & _ & _ & _ & _ & _ & HUs).
  unfold mget. apply (nabsent_rget _ (nth i (rows A) [])); [|exact H].
  intros c v Hin. apply (HUs i c v Hin).
Qed.

Local Notation EX := (nc_ilu0_exact_on_pattern Hnc Seqb Hinv A junk L U D WA SqA SoA DgA HF HDk).

Lemma nexact_lower i j : j < i -> i < n -> has_col j (nth i (rows A) []) = true ->
  sumn (fun k => mget L i k * mget U k j) j + mget L i j * sinv (vget D j) = mget A i j.
Proof.
  intros Hji Hi Hp.
  pose proof (EX i j Hi Hp) as E.
  unfold lu_entry in E.
  replace (i =? j)%nat with false in E by (symmetry; apply Nat.eqb_neq; lia).
  rewrite (mget_upper_zero n U i j nHUu) in E by lia.
  rewrite (nsumn_extend _ (Datatypes.S j) i) in E.
  - simpl in E. rewrite Nat.eqb_refl in E. rewrite <- E.
    rewrite (sumn_ext (fun k => mget L i k * (if (k =? j)%nat then sinv (vget D k) else mget U k j))
                      (fun k => mget L i k * mget U k j) j).
    + ncr.
    + intros k Hk. replace (k =? j)%nat with false by (symmetry; apply Nat.eqb_neq; lia). reflexivity.
  - lia.
  - intros k Hk1 Hk2. replace (k =? j)%nat with false by (symmetry; apply Nat.eqb_neq; lia).
    rewrite (mget_upper_zero n U k j nHUu) by lia. ncr.
Qed.

Lemma nexact_upper i j : j < i -> i < n -> has_col i (nth j (rows A) []) = true ->
  sumn (fun k => mget L j k * mget U k i) j + mget U j i = mget A j i.
Proof.
  intros Hji Hi Hp.
  pose proof (EX j i ltac:(lia) Hp) as E.
  unfold lu_entry in E.
  replace (j =? i)%nat with false in E by (symmetry; apply Nat.eqb_neq; lia).
  rewrite <- E. f_equal. apply sumn_ext. intros k Hk.
  replace (k =? i)%nat with false by (symmetry; apply Nat.eqb_neq; lia). reflexivity.
Qed.

Lemma nexact_diag j : j < n ->
  sumn (fun k => mget L j k * mget U k j) j + sinv (vget D j) = mget A j j.
Proof.
  intros Hj.
  pose proof (EX j j Hj (nx0_has_diag_has_col A j DgA Hj)) as E.
  unfold lu_entry in E. rewrite Nat.eqb_refl in E.
  rewrite <- E. f_equal. apply sumn_ext. intros k Hk.
  replace (k =? j)%nat with false by (symmetry; apply Nat.eqb_neq; lia). reflexivity.
Qed.

(* THE FACTOR RELATION over non-commuting values: L_ij = (D_j U_ji)^H and D_j^H = D_j *)
Theorem nc_ilu0_factors_herm :
  (forall i j, i < n -> j < n -> mget L i j = sadj (vget D j * mget U j i)) /\
  (forall j, j < n -> sadj (vget D j) = vget D j).
Proof.
  assert (G : forall m j, j < m -> j < n ->
            (forall i, i < n -> mget L i j = sadj (vget D j * mget U j i)) /\ sadj (vget D j) = vget D j).
  { induction m as [|m IH]; intros j Hjm Hj; [lia|].
    assert (IHL : forall k i, k < j -> i < n -> mget L i k = sadj (mget U k i) * vget D k).
    { intros k i Hk Hi. destruct (IH k ltac:(lia) ltac:(lia)) as [R HD]. rewrite (R i Hi), adj_mul, HD. reflexivity. }
    assert (IHD : forall k, k < j -> sadj (vget D k) = vget D k).
    { intros k Hk. apply (IH k ltac:(lia) ltac:(lia)). }
    destruct (nc_ilu0_pivots_two_sided Hnc Seqb Hinv A junk L U D SoA DgA HF HDk j Hj) as [P1 P2].
    (* (i) the pivot is hermitian *)
    assert (Hp : sadj (sinv (vget D j)) = sinv (vget D j)).
    { pose proof (nexact_diag j Hj) as E.
      assert (Es : sadj (sumn (fun k => mget L j k * mget U k j) j) = sumn (fun k => mget L j k * mget U k j) j).
      { rewrite (adj_sumn Hnc adj_add). apply sumn_ext. intros k Hk.
        rewrite (IHL k j Hk Hj), !adj_mul, adj_inv, (IHD k Hk). ncr. }
      assert (Ea : sadj (mget A j j) = mget A j j) by (symmetry; apply SyA; assumption).
      assert (E' : sinv (vget D j) = mget A j j - sumn (fun k => mget L j k * mget U k j) j) by (rewrite <- E; ncr).
      rewrite E', (adj_sub Hnc adj_add), Ea, Es. reflexivity. }
    assert (HDj : sadj (vget D j) = vget D j).
    { assert (E1 : sinv (vget D j) * sadj (vget D j) = s1).
      { rewrite <- Hp, <- adj_mul, P1. 
        assert (E0 : sadj (@s1 S) = s1).
        { transitivity (sadj (@s1 S) * sadj (sadj s1)); [rewrite adj_inv; ncr|]. rewrite <- adj_mul.
          replace (sadj (@s1 S) * s1) with (sadj (@s1 S)) by ncr. apply adj_inv. }
        exact E0. }
      transitivity ((vget D j * sinv (vget D j)) * sadj (vget D j)); [rewrite P1; ncr|].
      transitivity (vget D j * (sinv (vget D j) * sadj (vget D j))); [ncr|]. rewrite E1. ncr. }
    split; [|exact HDj].
    intros i Hi.
    destruct (Nat.le_gt_cases i j) as [Hij|Hji].
    - rewrite (mget_lower_zero L i j HLl Hij), (mget_upper_zero n U j i nHUu Hij).
      replace (vget D j * s0) with (@s0 S) by ncr. rewrite (adj_0 Hnc adj_add). reflexivity.
    - destruct (has_col j (nth i (rows A) [])) eqn:Ep.
      + pose proof (nexact_lower i j Hji Hi Ep) as E1.
        rewrite (SpA i j Hi Hj) in Ep.
        pose proof (nexact_upper i j Hji Hi Ep) as E2.
        (* adjoint of the upper equation *)
        assert (E2' : sumn (fun k => mget L i k * mget U k j) j + sadj (mget U j i) = mget A i j).
        { rewrite (SyA j i Hj Hi), <- E2, adj_add, (adj_sumn Hnc adj_add). f_equal.
          apply sumn_ext. intros k Hk.
          rewrite (IHL k i Hk Hi), (IHL k j Hk Hj), !adj_mul, adj_inv, (IHD k Hk). ncr. }
        assert (E3 : mget L i j * sinv (vget D j) = sadj (mget U j i)).
        { apply (nc_add_cancel_l Hnc (sumn (fun k => mget L i k * mget U k j) j)). rewrite E1, E2'. reflexivity. }
        rewrite adj_mul, HDj, <- E3.
        transitivity (mget L i j * (sinv (vget D j) * vget D j)); [rewrite P2; ncr|ncr].
      + rewrite (nL_off_pattern i j Ep). rewrite (SpA i j Hi Hj) in Ep. rewrite (nU_off_pattern j i Ep).
        replace (vget D j * s0) with (@s0 S) by ncr. rewrite (adj_0 Hnc adj_add). reflexivity. }
  split.
  - intros i j Hi Hj. apply (proj1 (G (Datatypes.S j) j ltac:(lia) Hj)), Hi.
  - intros j Hj. apply (proj2 (G (Datatypes.S j) j ltac:(lia) Hj)).
Qed.

End Ilu0HermNc.

(* ================================================================== *)
(* consequences: good5 for ILU(0) over non-commuting values from STRUCTURAL level conditions *)
From Amgcl Require Import DenseSolve Amg AmgExec AmgProofs AmgProofs2 AmgProofs3 AmgProofs4 AmgProofs6 AmgProofs7
  AmgBlockCycleProofs AmgBlockCycleSym2 AmgBlockCycleSym2Gs AmgBlockCycleSym2Built AmgBlockCycleSym2Ilu
  DirectUtil Inverse StaticMat StaticMatProofs BlockInst BlockKernels NcRingBlock NcRingBlockInv BlockMatOpsProofs.

Section Ilu0Good5Nc.
Context {S : Scalar}.
Hypothesis Hnc : ncring_theory S.
Hypothesis Seqb : seqb_spec S.
Hypothesis Hinv : forall x : S, sinv x <> s0 -> x * sinv x = s1.
Hypothesis adj_add : forall a b : S, sadj (a + b) = sadj a + sadj b.
Hypothesis adj_mul : forall a b : S, sadj (a * b) = sadj b * sadj a.
Hypothesis adj_inv : forall a : S, sadj (sadj a) = a.
Local Notation crs := (crs S).

(* strictly sorted rows, stored diagonal, symmetric pattern, the constructor succeeds with pivots that are invertible
   (neither the inverted pivot D_k nor its inverse is the out-of-domain default 0) *)
Definition ilu0_level_ok_nc (A : crs) : Prop :=
  (forall i, i < nrows A -> sorted_strict (nth i (rows A) []) = true) /\ has_diag A = true /\
  (forall i j, i < nrows A -> j < nrows A -> has_col j (nth i (rows A) []) = has_col i (nth j (rows A) [])) /\
  exists L U D, ilu0 A (vzero (nrows A)) = Ok (L, U, D) /\
                forall k, k < nrows A -> vget D k <> s0 /\ sinv (vget D k) <> s0.

Theorem nc_ilu0_good5 (w : S) (A : crs) : wf A = true -> herm_mat (nrows A) A -> ilu0_level_ok_nc A ->
  sadj w = w -> (forall c : S, w * c = c * w) -> good5 (R5Ilu0 w) A.
Proof.
  intros WA [Sq Sy] (So & Dg & Sp & L & U & D & E & HDk) Hw Hc.
  destruct (ilu0_structure A _ L U D E) as (NL & _).
  apply (ilu0_good5_factors Hnc Seqb adj_add adj_mul adj_inv w A L U D WA Sq E Hw Hc).
  unfold factors_herm. rewrite NL.
  exact (nc_ilu0_factors_herm Hnc Seqb Hinv adj_add adj_mul adj_inv A (vzero (nrows A)) L U D WA Sq So Dg E HDk Sy Sp).
Qed.

Definition sym_patternb_nc (A : crs) : bool :=
  forallb (fun i => forallb (fun j => Bool.eqb (has_col j (nth i (rows A) [])) (has_col i (nth j (rows A) [])))
                            (seq 0 (nrows A))) (seq 0 (nrows A)).
Definition ilu0_level_okb_nc (A : crs) : bool :=
  forallb (fun i => sorted_strict (nth i (rows A) [])) (seq 0 (nrows A)) && has_diag A && sym_patternb_nc A &&
  match ilu0 A (vzero (nrows A)) with
  | Ok (_, _, D) => forallb (fun k => negb (seqb (vget D k) s0) && negb (seqb (sinv (vget D k)) s0)) (seq 0 (nrows A))
  | Err _ => false
  end.
Lemma ilu0_level_okb_nc_ok (A : crs) : ilu0_level_okb_nc A = true -> ilu0_level_ok_nc A.
Proof.
  unfold ilu0_level_okb_nc. intro H.
  apply andb_prop in H as [H H4]. apply andb_prop in H as [H H3]. apply andb_prop in H as [H1 H2].
  rewrite forallb_forall in H1. unfold sym_patternb_nc in H3. rewrite forallb_forall in H3.
  split; [intros i Hi; apply H1, in_seq; lia|]. split; [exact H2|]. split.
  - intros i j Hi Hj. assert (Hi' : In i (seq 0 (nrows A))) by (apply in_seq; lia).
    specialize (H3 i Hi'). rewrite forallb_forall in H3. apply Bool.eqb_prop, H3, in_seq. lia.
  - destruct (ilu0 A (vzero (nrows A))) as [[[L U] D]|e]; [|discriminate]. exists L, U, D. split; [reflexivity|].
    rewrite forallb_forall in H4. intros k Hk. assert (Hk' : In k (seq 0 (nrows A))) by (apply in_seq; lia).
    specialize (H4 k Hk'). apply andb_prop in H4 as [Ha Hb].
    split; intro E; [rewrite (proj2 (Seqb _ _) E) in Ha|rewrite (proj2 (Seqb _ _) E) in Hb]; discriminate.
Qed.

End Ilu0Good5Nc.

(* block values over a field: ILU(0) on every level, smoother on the coarsest level -- no factor hypothesis left *)
Section IluBlocksStructural.
Variable S0 : Scalar.
Variable b : nat.
Hypothesis Sft : Sfield S0.
Hypothesis Seqb0 : seqb_spec S0.
Hypothesis sinv_0 : sinv (@s0 S0) = s0.
Hypothesis Hb : 0 < b.
Hypothesis sadj_add0 : forall x y : S0, sadj (x + y) = sadj x + sadj y.
Hypothesis sadj_mul0 : forall x y : S0, sadj (x * y) = sadj x * sadj y.
Hypothesis sadj_invol0 : forall x : S0, sadj (sadj x) = x.
Local Notation B := (BlockS S0 b).
Let Srt : Sring S0 := F_R Sft.
Let HncB : ncring_theory B := BlockS_ncring S0 b Srt.
Let SeqbB : seqb_spec B := BlockS_eqb S0 b Seqb0.
Let addB := BlockS_adj_add S0 b sadj_add0.
Let mulB := BlockS_adj_mul S0 b Srt sadj_add0 sadj_mul0.
Let invB := BlockS_adj_invol S0 b sadj_invol0.
Let HinvB : forall x : B, sinv x <> s0 -> x * sinv x = s1 := BlockS_inv_right S0 b Sft Seqb0 sinv_0.

Theorem block_apply_herm_ilu0_structural (w : B) ce ml (sc : option B) ts (M : Crs.crs B) k nc pc :
  sadj w = w -> (forall c : B, w * c = c * w) ->
  scale_herm sc -> wf M = true -> herm_mat (nrows M) M -> ts_herm (nrows M) ts ->
  (forall l, In l (amg_init ce false ml (coarse_op_of sc) ts M) -> ilu0_level_ok_nc (S := B) (ld_A l)) ->
  let lvls := block_levels S0 b (R5Ilu0 w) (amg_init ce false ml (coarse_op_of sc) ts M) in
  forall scr1 scr2 f g x1 x2,
  scratch_wf lvls scr1 -> scratch_wf lvls scr2 ->
  length f = nrows M -> length g = nrows M -> length x1 = nrows M -> length x2 = nrows M ->
  ipH (S := B) (nrows M) (fst (apply k k nc (Datatypes.S pc) lvls scr1 f x1)) g =
  ipH (S := B) (nrows M) f (fst (apply k k nc (Datatypes.S pc) lvls scr2 g x2)).
Proof.
  intros Hw Hc Hsc WM SM Hts Hgood.
  apply (built_apply_herm_full_gen (S := B) HncB SeqbB addB mulB invB (mk_relax5 (R5Ilu0 w))
           (mk_solve_block S0 b) (mk_relax5_ok _) (ilu0_level_ok_nc (S := B))
           (fun A WA HA Hg => mk_relax5_triple (S := B) HncB SeqbB addB mulB invB (R5Ilu0 w) A WA HA
                                (nc_ilu0_good5 (S := B) HncB SeqbB HinvB addB mulB invB w A WA HA Hg Hw Hc))
           (mk_solve_block_ok S0 b Hb) ce false ml sc ts M k nc pc Hsc WM SM Hts); [|exact Hgood|].
  - intros A HA. exfalso. unfold amg_init in HA. apply (nc_build_no_solve _ _ _ _ _ _ _ HA).
  - right. apply nosolve_top_inst.
Qed.

End IluBlocksStructural.
