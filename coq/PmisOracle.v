(* PmisOracle.v -- C12-B: the PMIS model (Pmis.v) meets the partition oracle that is run on the implementation. *)
From Amgcl Require Import Scalar Vec Crs MatOps Dist DistProofs DistSolve Pmis PmisProofs PmisPartition.
From Coq Require Import Lia List Arith Bool.
Import ListNotations.
Local Open Scope nat_scope.

(* the tentative prolongation of the model as a matrix (tentative_prolongation without near-null space: one unit entry
   per aggregated row), and the oracle that bin/check C12 evaluates on the IMPLEMENTATION's gathered P_tent
   (DistSolve.partition_ok): the model's P_tent passes it, for every partition of the world *)
Section ModelOracle.
Variable S : Scalar.
Hypothesis Seqb : seqb_spec S.

Definition ptent_of (cols : list (option nat)) (nc : nat) : crs S :=
  mkCrs nc (map (fun oc => match oc with None => [] | Some j => [(j, s1)] end) cols).

Lemma pmis_model_passes_partition_oracle parts G :
  (forall i, i < psum parts -> In i (grow G i)) ->
  exists cols nas, pmis_columns parts G = Some (cols, nas) /\ partition_ok (ptent_of cols (psum nas)) = true.
Proof.
  intros Hd. destruct (pmis_columns_partition parts G Hd) as [cols [nas [Hp [Hl [Hn [H1 [H2 H3]]]]]]].
  exists cols, nas. split; [exact Hp|]. unfold partition_ok, ptent_of; simpl.
  apply andb_true_iff. split.
  - apply forallb_forall. intros r Hr. apply in_map_iff in Hr. destruct Hr as [oc [<- Hoc]].
    destruct oc as [j|]; [|reflexivity].
    apply (In_nth _ _ None) in Hoc. destruct Hoc as [c [Hc E]]. rewrite Hl in Hc.
    apply andb_true_iff. split; [apply Nat.ltb_lt; eapply H1; eassumption | apply Seqb; reflexivity].
  - apply forallb_forall. intros j Hj. apply in_seq in Hj. destruct (H2 j ltac:(lia)) as [c [Hc E]].
    apply existsb_exists. exists [(j, s1)]. split.
    + apply in_map_iff. exists (Some j). split; [reflexivity|]. rewrite <- E. apply nth_In. rewrite Hl. exact Hc.
    + simpl. rewrite Nat.eqb_refl. reflexivity.
Qed.
End ModelOracle.
