(* Extract_matops.v -- extraction of the sparse-matrix kernel models (C08) to OCaml.
   Directives: ExtractCommon.v (trusted base, DESIGN.md section 6).
   BlockInst: the static_matrix<T,b,b> Scalar instance (ops_matops_block.ml); ComplexInst: std::complex<T>. *)
From Amgcl Require Import ExtractCommon.
From Coq Require Import QArith Qcanon.
From Amgcl Require Import Scalar QcInst Vec Crs Kernels MatOps MatOps2 DirectUtil Inverse StaticMat BlockInst ComplexInst.
Separate Extraction
  QcInst.QcS Scalar.is_zero Scalar.smax Scalar.smin
  Vec Crs Kernels MatOps MatOps2 StaticMat BlockInst ComplexInst.
