(* Extract_matops.v -- extraction of the sparse-matrix kernel models (C08) to OCaml.
   Directives: ExtractCommon.v (trusted base, DESIGN.md section 6). *)
From Amgcl Require Import ExtractCommon.
From Coq Require Import QArith Qcanon.
From Amgcl Require Import Scalar QcInst Vec Crs Kernels MatOps MatOps2.
Separate Extraction
  QcInst.QcS Scalar.is_zero Scalar.smax Scalar.smin
  Vec Crs Kernels MatOps MatOps2.
