(* KrylovRateCert.v -- a checkable certificate for "the linear map T contracts the energy norm of the
   symmetric matrix M by delta":   <M T e, T e> <= d2 <M e, e>  for ALL e of length n   (d2 = delta^2).

   T is given as a FUNCTION (e.g. the error propagation e - B (M e) of Richardson with the AMG cycle B);
   the only facts used about it are linearity and its values on the unit vectors.  Certificate:
     Tm, Tmt : the matrix of T (column j = T (unit j)) and its transpose,
     L, Lt, Dm : d2 M - Tm^T M Tm = L^T Dm L with Dm diagonal and non-negative
   (an L D L^T factorisation computed outside Coq; here it is only CHECKED, entry by entry).
   Proof: <M T e,T e> = <G e,e> with G = Tm^T M Tm (galerkin_energy);  d2 <M e,e> = <G e,e> + <H e,e>,
   H = L^T Dm L;  <H e,e> = <Dm L e, L e> = sum_i d_i (L e)_i^2 >= 0. *)
From Amgcl Require Import Scalar Vec Crs Kernels KernelsProofs MatOps MatOpsProofs Relax DenseSolve
  Amg AmgExec AmgProofs AmgProofs2 AmgProofs3 AmgProofs4 AmgProofs5 AmgProofs6 AmgProofs7 AmgProofs9 AmgProofs10
  AmgOrder AmgExamples Krylov KrylovRef KrylovProofs KrylovRate.
From Coq Require Import Lia.
Local Open Scope S_scope.

Section Cert.
Context {S : Scalar}.
Local Notation vec := (vec S).
Local Notation crs := (crs S).
Local Notation ip := (@AmgProofs6.ip S).
Local Notation SS := Datatypes.S.
Hypothesis Srt : Sring S.
Hypothesis Seqb : seqb_spec S.
Hypothesis Ord : ordered S.
Add Ring SRingCert : Srt.

Variable n : nat.

(* ---------- vectors given by their entries ---------- *)
Definition vtab (f : nat -> S) : vec := map f (seq 0 n).
Lemma vtab_length f : length (vtab f) = n.
Proof. unfold vtab. rewrite map_length, seq_length. reflexivity. Qed.
Lemma vtab_get f i : i < n -> vget (vtab f) i = f i.
Proof.
  intro Hi. unfold vget, vtab. rewrite (nth_indep _ s0 (f 0%nat)) by (rewrite map_length, seq_length; exact Hi).
  rewrite map_nth. rewrite seq_nth by exact Hi. reflexivity.
Qed.

Definition unitv (k : nat) : vec := vtab (fun j => if Nat.eqb j k then s1 else s0).
Definition trunc (k : nat) (e : vec) : vec := vtab (fun j => if Nat.ltb j k then vget e j else s0).

Lemma vec_eq_n (v w : vec) : length v = n -> length w = n -> (forall i, i < n -> vget v i = vget w i) -> v = w.
Proof. intros Lv Lw H. apply (nth_ext v w s0 s0); [congruence|]. intros i Hi. apply H. congruence. Qed.

(* ---------- a linear function is the matrix of its values on the unit vectors ---------- *)
Section LinRep.
Variable F : vec -> vec.
Hypothesis F_len : forall v, length v = n -> length (F v) = n.
Hypothesis F_lin : linear_on n F.

Lemma trunc_succ k (e : vec) : k < n ->
  trunc (SS k) e = vmap2 (fun xi yi => xi + vget e k * yi) (trunc k e) (unitv k).
Proof.
  intro Hk. apply vec_eq_n; [apply vtab_length|rewrite vmap2_length; unfold trunc, unitv; rewrite !vtab_length; lia|].
  intros i Hi. rewrite vget_vmap2 by (unfold trunc, unitv; rewrite vtab_length; exact Hi).
  unfold trunc, unitv. rewrite !vtab_get by exact Hi.
  destruct (Nat.eqb_spec i k) as [->|Hne].
  - replace (k <? SS k)%nat with true by (symmetry; apply Nat.ltb_lt; lia).
    replace (k <? k)%nat with false by (symmetry; apply Nat.ltb_ge; lia). ring.
  - destruct (Nat.ltb_spec i k) as [L|L].
    + replace (i <? SS k)%nat with true by (symmetry; apply Nat.ltb_lt; lia). ring.
    + replace (i <? SS k)%nat with false by (symmetry; apply Nat.ltb_ge; lia). ring.
Qed.

Lemma trunc_zero (e : vec) : trunc 0 e = vzero n.
Proof.
  apply vec_eq_n; [apply vtab_length|unfold vzero; apply repeat_length|].
  intros i Hi. unfold trunc. rewrite vtab_get by exact Hi. unfold vget, vzero. rewrite nth_repeat. reflexivity.
Qed.

Lemma trunc_full (e : vec) : length e = n -> trunc n e = e.
Proof.
  intro L. apply vec_eq_n; [apply vtab_length|exact L|].
  intros i Hi. unfold trunc. rewrite vtab_get by exact Hi.
  replace (i <? n)%nat with true by (symmetry; apply Nat.ltb_lt; exact Hi). reflexivity.
Qed.

Lemma lin_rep_trunc (e : vec) i k : k <= n -> i < n ->
  vget (F (trunc k e)) i = sumn (fun j => vget (F (unitv j)) i * vget e j) k.
Proof.
  intros Hk Hi. induction k as [|k IH].
  - rewrite trunc_zero, (A_zero Srt n F F_len F_lin). simpl. unfold vget, vzero. apply nth_repeat.
  - rewrite trunc_succ by lia. rewrite F_lin by (unfold trunc, unitv; apply vtab_length).
    rewrite vget_vmap2 by (rewrite F_len; [exact Hi|unfold trunc, unitv; apply vtab_length]).
    rewrite IH by lia. simpl. ring.
Qed.

Lemma lin_rep (e : vec) i : length e = n -> i < n ->
  vget (F e) i = sumn (fun j => vget (F (unitv j)) i * vget e j) n.
Proof. intros L Hi. rewrite <- (trunc_full e L) at 1. apply lin_rep_trunc; [lia|exact Hi]. Qed.
End LinRep.

(* ---------- quadratic forms ---------- *)
Lemma qA_ext_n (A : crs) (x x' y y' : vec) : ncols A = n ->
  (forall j, j < n -> vget x j = vget x' j) -> (forall i, i < n -> vget y i = vget y' i) ->
  qA n A x y = qA n A x' y'.
Proof.
  intros HA Hx Hy. unfold qA. apply sumn_ext. intros i Hi. rewrite (Hy i Hi). f_equal.
  unfold Ax. rewrite HA. apply sumn_ext. intros j Hj. rewrite (Hx j Hj). reflexivity.
Qed.

Lemma qA_comb (c : S) (A G H : crs) (x y : vec) : ncols A = n -> ncols G = n -> ncols H = n ->
  (forall i j, i < n -> j < n -> c * mget A i j = mget G i j + mget H i j) ->
  c * qA n A x y = qA n G x y + qA n H x y.
Proof.
  intros HA HG HH E. unfold qA. rewrite <- (sumn_scal Srt), <- (sumn_add Srt). apply sumn_ext. intros i Hi.
  unfold Ax. rewrite HA, HG, HH.
  transitivity ((c * sumn (fun j => mget A i j * vget x j) n) * vget y i); [ring|].
  rewrite <- (sumn_scal Srt).
  transitivity ((sumn (fun j => mget G i j * vget x j) n + sumn (fun j => mget H i j * vget x j) n) * vget y i); [|ring].
  rewrite <- (sumn_add Srt). f_equal. apply sumn_ext. intros j Hj.
  transitivity ((c * mget A i j) * vget x j); [ring|]. rewrite (E i j Hi Hj). ring.
Qed.

Lemma diag_psd (Dm : crs) (v : vec) : ncols Dm = n ->
  (forall i j, i < n -> j < n -> i <> j -> mget Dm i j = s0) ->
  (forall i, i < n -> ole s0 (mget Dm i i)) ->
  ole s0 (qA n Dm v v).
Proof.
  intros HD Hoff Hdiag. unfold qA. apply (sumn_nonneg Srt Ord). intros i Hi.
  assert (E : Ax Dm v i = mget Dm i i * vget v i).
  { unfold Ax. rewrite HD.
    rewrite (sumn_ext _ (fun j => if Nat.eqb i j then mget Dm i i * vget v i else s0)).
    - rewrite (sumn_delta Srt). replace (i <? n)%nat with true by (symmetry; apply Nat.ltb_lt; exact Hi). reflexivity.
    - intros j Hj. destruct (Nat.eqb_spec i j) as [->|Hne]; [reflexivity|]. rewrite (Hoff i j Hi Hj Hne). ring. }
  rewrite E. replace (mget Dm i i * vget v i * vget v i) with (mget Dm i i * (vget v i * vget v i)) by ring.
  apply (mul_nonneg Srt Ord); [apply Hdiag, Hi|apply (sq_nonneg Srt Ord)].
Qed.

(* ---------- the certificate ---------- *)
Variable M : crs.
Variable T : vec -> vec.
Variables Tm Tmt L Lt Dm : crs.
Variable d2 : S.

Record cert : Prop := mkCert {
  c_M_wf : wf M = true;  c_M_cols : ncols M = n;
  c_T_len : forall v, length v = n -> length (T v) = n;
  c_T_lin : linear_on n T;
  c_Tm_wf : wf Tm = true;  c_Tmt_wf : wf Tmt = true;  c_Tm_rows : nrows Tm = n;
  c_Tm_tr : transp n n Tmt Tm;
  c_T_cols : forall i j, i < n -> j < n -> vget (T (unitv j)) i = mget Tm i j;
  c_L_wf : wf L = true;  c_Lt_wf : wf Lt = true;  c_D_wf : wf Dm = true;  c_L_rows : nrows L = n;
  c_L_tr : transp n n Lt L;
  c_D_cols : ncols Dm = n;
  c_D_off : forall i j, i < n -> j < n -> i <> j -> mget Dm i j = s0;
  c_D_pos : forall i, i < n -> ole s0 (mget Dm i i);
  c_entries : forall i j, i < n -> j < n ->
     d2 * mget M i j = mget (sort_rows (galerkin M Tm Tmt)) i j + mget (sort_rows (galerkin Dm L Lt)) i j
}.

Theorem cert_contracts : cert ->
  forall e, length e = n -> ole (qA n M (T e) (T e)) (d2 * qA n M e e).
Proof.
  intros C e Le. destruct C.
  destruct c_Tm_tr0 as (HcTt & HcT & HTr). destruct c_L_tr0 as (HcLt & HcL & HLr).
  set (G := sort_rows (galerkin M Tm Tmt)). set (H := sort_rows (galerkin Dm L Lt)).
  assert (EG : qA n M (T e) (T e) = qA n G e e).
  { unfold G. rewrite <- (galerkin_energy Srt M Tm Tmt n n c_M_wf0 c_Tm_wf0 c_Tmt_wf0 c_Tm_rows0 (conj HcTt (conj HcT HTr)) e).
    assert (Ev : forall i, i < n -> vget (T e) i = vget (mv Tm e) i).
    { intros i Hi. rewrite (lin_rep T c_T_len0 c_T_lin0 e i Le Hi).
      rewrite (mv_get Srt Tm e i c_Tm_wf0). unfold Ax. rewrite HcT. apply sumn_ext. intros j Hj.
      rewrite (c_T_cols0 i j Hi Hj). reflexivity. }
    apply qA_ext_n; assumption. }
  assert (EH : qA n H e e = qA n Dm (mv L e) (mv L e)).
  { unfold H. symmetry. apply (galerkin_energy Srt Dm L Lt n n c_D_wf0 c_L_wf0 c_Lt_wf0 c_L_rows0 (conj HcLt (conj HcL HLr)) e). }
  assert (NG : ncols G = n) by (unfold G; change (ncols (sort_rows (galerkin M Tm Tmt))) with (ncols (galerkin M Tm Tmt)); rewrite galerkin_ncols; exact HcT).
  assert (NH : ncols H = n) by (unfold H; change (ncols (sort_rows (galerkin Dm L Lt))) with (ncols (galerkin Dm L Lt)); rewrite galerkin_ncols; exact HcL).
  rewrite (qA_comb d2 M G H e e c_M_cols0 NG NH c_entries0), EG.
  assert (P : ole s0 (qA n H e e)) by (rewrite EH; apply diag_psd; assumption).
  pose proof (ole_add_r Ord s0 (qA n H e e) (qA n G e e) P) as Q.
  replace (s0 + qA n G e e) with (qA n G e e) in Q by ring.
  replace (qA n H e e + qA n G e e) with (qA n G e e + qA n H e e) in Q by ring. exact Q.
Qed.

(* ---------- the boolean checker of the computable part ---------- *)
Definition all2b (p : nat -> nat -> bool) : bool :=
  forallb (fun i => forallb (fun j => p i j) (seq 0 n)) (seq 0 n).
Lemma all2b_ok p : all2b p = true -> forall i j, i < n -> j < n -> p i j = true.
Proof.
  intros H i j Hi Hj. unfold all2b in H. rewrite forallb_forall in H.
  assert (Hi' : In i (seq 0 n)) by (apply in_seq; lia). specialize (H i Hi').
  rewrite forallb_forall in H. apply H. apply in_seq; lia.
Qed.

Definition cert_checkb : bool :=
  wf M && Nat.eqb (ncols M) n &&
  wf Tm && wf Tmt && Nat.eqb (nrows Tm) n && transpb n n Tmt Tm &&
  all2b (fun i j => seqb (vget (T (unitv j)) i) (mget Tm i j)) &&
  wf L && wf Lt && wf Dm && Nat.eqb (nrows L) n && transpb n n Lt L && Nat.eqb (ncols Dm) n &&
  all2b (fun i j => Nat.eqb i j || seqb (mget Dm i j) s0) &&
  forallb (fun i => negb (sltb (mget Dm i i) s0)) (seq 0 n) &&
  all2b (fun i j => seqb (d2 * mget M i j)
                         (mget (sort_rows (galerkin M Tm Tmt)) i j + mget (sort_rows (galerkin Dm L Lt)) i j)).

Lemma cert_checkb_ok : (forall v, length v = n -> length (T v) = n) -> linear_on n T ->
  cert_checkb = true -> cert.
Proof.
  intros TL TLin H. unfold cert_checkb in H.
  repeat (apply andb_prop in H; let H' := fresh "C" in destruct H as [H H']).
  constructor; try assumption.
  - apply Nat.eqb_eq; assumption.
  - apply Nat.eqb_eq; assumption.
  - apply (transpb_ok Seqb); assumption.
  - intros i j Hi Hj. apply Seqb. exact (all2b_ok _ C8 i j Hi Hj).
  - apply Nat.eqb_eq; assumption.
  - apply (transpb_ok Seqb); assumption.
  - apply Nat.eqb_eq; assumption.
  - intros i j Hi Hj Hne. pose proof (all2b_ok _ C1 i j Hi Hj) as E. apply orb_prop in E as [E|E].
    + apply Nat.eqb_eq in E. contradiction.
    + apply Seqb, E.
  - intros i Hi. rewrite forallb_forall in C0. specialize (C0 i). unfold ole.
    destruct (sltb (mget Dm i i) s0); [|reflexivity].
    assert (In i (seq 0 n)) as Hin by (apply in_seq; lia). specialize (C0 Hin). discriminate.
  - intros i j Hi Hj. apply Seqb. exact (all2b_ok _ C i j Hi Hj).
Qed.

End Cert.
