(* AmgProofs3.v -- property C02-A1: history independence of cycle/apply (any Scalar whose
   zero is recognised by is_zero), the smoother side conditions for Jacobi / SPAI-0 /
   Gauss-Seidel, and the hierarchies produced by build + instantiate. *)
From Amgcl Require Import Scalar Vec Crs Kernels KernelsProofs MatOps MatOpsProofs Relax DenseSolve
  Amg AmgExec AmgProofs AmgProofs2.
Local Open Scope S_scope.

Section A1.
Context {S : Scalar}.
Local Notation vec := (vec S).
Local Notation crs := (crs S).
Local Notation level := (@level S).
Local Notation scratch := (@scratch S).
Local Notation sweep := (@sweep S).
Local Notation ldesc := (@ldesc S).

(* a sweep at level size n: keeps lengths, and its x-output does not depend on the incoming
   content of the work vector *)
Definition sweep_ok (n : nat) (sw : sweep) : Prop :=
  forall rhs x t, length rhs = n -> length x = n -> length t = n ->
    length (fst (sw rhs x t)) = n /\ length (snd (sw rhs x t)) = n /\
    forall t', length t' = n -> fst (sw rhs x t') = fst (sw rhs x t).

Definition solve_ok (n : nat) (sv : vec -> vec -> vec) : Prop :=
  forall rhs x, length rhs = n -> length x = n -> length (sv rhs x) = n.

Fixpoint hier_wf (lvls : list level) : Prop :=
  match lvls with
  | [] => True
  | l :: rest =>
    let n := nrows (lA l) in
    sweep_ok n (lpre l) /\ sweep_ok n (lpost l) /\
    match rest with
    | [] => forall sv, lsolve l = Some sv -> solve_ok n sv
    | nxt :: _ => nrows (lR l) = nrows (lA nxt)
    end /\ hier_wf rest
  end.

Section WithZero.
Hypothesis zero_is_zero : is_zero (@s0 S) = true.

(* two runs: equal data, work vectors only of equal length *)
Definition Rel1 (n : nat) (v : bool -> vec) : Prop := Len bool n v /\ v true = v false.

Lemma Rel1_ext n (v w : bool -> vec) : (forall i, v i = w i) -> Rel1 n v -> Rel1 n w.
Proof.
  intros E [H1 H2]. split.
  - intro i. rewrite <- E. apply H1.
  - rewrite <- !E. exact H2.
Qed.

Lemma sweep_ok_rel n sw : sweep_ok n sw -> sweep_rel bool Rel1 n sw.
Proof.
  intros H rhs x t [Lr Er] [Lx Ex] Lt. split; [split|].
  - intro i. apply H; [apply Lr|apply Lx|apply Lt].
  - rewrite Er, Ex.
    destruct (H (rhs false) (x false) (t false) (Lr false) (Lx false) (Lt false)) as (_ & _ & Hob).
    apply Hob. apply Lt.
  - intro i. apply H; [apply Lr|apply Lx|apply Lt].
Qed.

Lemma clear_rel1 n : clear_rel bool Rel1 n.
Proof.
  intros u Lu. split.
  - intro i. rewrite vclear_length. apply Lu.
  - apply vclear_eq. rewrite !Lu. reflexivity.
Qed.

Lemma hier_wf_rel lvls : hier_wf lvls -> hier_rel bool Rel1 lvls.
Proof.
  induction lvls as [|l rest IH]; intro H; [exact Logic.I|].
  cbn [hier_wf] in H. destruct H as (Hpre & Hpost & Hmid & Hrest).
  cbn [hier_rel]. split; [intros v Hv; apply Hv|]. split; [apply clear_rel1|].
  split; [apply sweep_ok_rel, Hpre|]. split; [apply sweep_ok_rel, Hpost|].
  split; [|apply IH, Hrest].
  destruct rest as [|nxt rest'].
  - intros sv Esv rhs x [Lr Er] [Lx Ex]. split.
    + intro i. apply (Hmid sv Esv); [apply Lr|apply Lx].
    + rewrite Er, Ex. reflexivity.
  - split; [|split].
    + intros rhs x t [Lr Er] [Lx Ex] Lt. split.
      * intro i. apply residual_length; [apply Lr|apply Lt].
      * rewrite Er, Ex. apply residual_ignores_res; [apply Lr|apply Lt|apply Lt].
    + intros t y [Lt Et] Ly. split.
      * intro i. rewrite spmv_length_any. apply Ly.
      * rewrite Et. apply spmv_beta0_ignores_y; [exact zero_is_zero| |]; rewrite Ly; symmetry; exact Hmid.
    + intros u x [Lu Eu] [Lx Ex]. split.
      * intro i. rewrite spmv_length_any. apply Lx.
      * rewrite Eu, Ex. reflexivity.
Qed.

Lemma copy_rel1 n : copy_rel bool Rel1 n.
Proof.
  intros rhs x [Lr Er] Lx. split.
  - intro i. unfold vcopy. rewrite upd2_length_any. apply Lx.
  - rewrite Er. apply vcopy_ignores_y; rewrite !Lx, Lr; reflexivity.
Qed.

Section WithParams.
Variables npre npost ncycle : nat.
Local Notation cycle := (cycle npre npost ncycle).
Local Notation apply := (apply npre npost ncycle).

Theorem cycle_history_indep lvls : hier_wf lvls -> forall scr1 scr2 rhs x,
  scratch_wf lvls scr1 -> scratch_wf lvls scr2 ->
  length rhs = top_n lvls -> length x = top_n lvls ->
  fst (cycle lvls scr1 rhs x) = fst (cycle lvls scr2 rhs x) /\
  length (fst (cycle lvls scr1 rhs x)) = top_n lvls /\
  scratch_wf lvls (snd (cycle lvls scr1 rhs x)).
Proof.
  intros Hh scr1 scr2 rhs x H1 H2 Lr Lx.
  destruct (cycle_rel bool Rel1 Rel1_ext npre npost ncycle lvls (hier_wf_rel lvls Hh)
              (fun b : bool => if b then scr1 else scr2) (fun _ => rhs) (fun _ => x)) as [[HL HE] HS].
  - intros [|]; assumption.
  - split; [intro; exact Lr|reflexivity].
  - split; [intro; exact Lx|reflexivity].
  - split; [exact HE|]. split; [apply (HL true)|apply (HS true)].
Qed.

Theorem apply_history_indep pre_cycles lvls : hier_wf lvls -> lvls <> [] ->
  forall scr1 scr2 rhs x1 x2,
  scratch_wf lvls scr1 -> scratch_wf lvls scr2 ->
  length rhs = top_n lvls -> length x1 = top_n lvls -> length x2 = top_n lvls ->
  fst (apply pre_cycles lvls scr1 rhs x1) = fst (apply pre_cycles lvls scr2 rhs x2) /\
  length (fst (apply pre_cycles lvls scr1 rhs x1)) = top_n lvls /\
  scratch_wf lvls (snd (apply pre_cycles lvls scr1 rhs x1)).
Proof.
  intros Hh Hne scr1 scr2 rhs x1 x2 H1 H2 Lr L1 L2.
  destruct (apply_rel bool Rel1 Rel1_ext npre npost ncycle pre_cycles lvls (hier_wf_rel lvls Hh) Hne
              (copy_rel1 _)
              (fun b : bool => if b then scr1 else scr2) (fun _ => rhs)
              (fun b : bool => if b then x1 else x2)) as [[HL HE] HS].
  - intros [|]; assumption.
  - split; [intro; exact Lr|reflexivity].
  - intros [|]; assumption.
  - split; [exact HE|]. split; [apply (HL true)|apply (HS true)].
Qed.

(* the same, over a whole history of earlier applications *)
Fixpoint run_history (pre_cycles : nat) (lvls : list level) (scr : list scratch)
  (hist : list (vec * vec)) : list scratch :=
  match hist with
  | [] => scr
  | (f, x) :: tl => run_history pre_cycles lvls (snd (apply pre_cycles lvls scr f x)) tl
  end.

Theorem apply_after_any_history pre_cycles lvls : hier_wf lvls -> lvls <> [] ->
  forall hist scr scr0 rhs x x0,
  Forall (fun fx => length (fst fx) = top_n lvls /\ length (snd fx) = top_n lvls) hist ->
  scratch_wf lvls scr -> scratch_wf lvls scr0 ->
  length rhs = top_n lvls -> length x = top_n lvls -> length x0 = top_n lvls ->
  fst (apply pre_cycles lvls (run_history pre_cycles lvls scr hist) rhs x) =
  fst (apply pre_cycles lvls scr0 rhs x0).
Proof.
  intros Hh Hne hist. induction hist as [|[f y] tl IH]; intros scr scr0 rhs x x0 HF H1 H0 Lr Lx L0.
  - simpl. apply apply_history_indep; assumption.
  - inversion HF as [|? ? [Hf Hy] HF']; subst. simpl in Hf, Hy. simpl. apply IH; try assumption.
    apply (apply_history_indep pre_cycles lvls Hh Hne scr scr f y y); assumption.
Qed.

End WithParams.
End WithZero.

(* ------------------------------------------------------------------ *)
(* the smoothers of Relax.v satisfy sweep_ok *)
Lemma indexed_len {X} (l : list X) : length (indexed l) = length l.
Proof. unfold indexed. rewrite combine_length, seq_length. apply Nat.min_id. Qed.

Lemma jacobi_sweep_ok w (A : crs) (junk : vec) :
  sweep_ok (nrows A) (fun rhs x t => jacobi_sweep w (jacobi_setup A junk) A rhs x t).
Proof.
  intros rhs x t Lr Lx Lt. unfold jacobi_sweep. cbn [fst snd].
  assert (Ld : length (jacobi_setup A junk) = nrows A) by apply diagonal_length.
  assert (Lres : forall t0, length t0 = nrows A -> length (residual rhs A x t0) = nrows A)
    by (intros; apply residual_length; assumption).
  split; [|split].
  - rewrite vmul_length; rewrite ?Lres; congruence.
  - apply Lres, Lt.
  - intros t' Lt'. rewrite (residual_ignores_res rhs A x t' t); auto.
Qed.

Lemma spai0_sweep_ok (A : crs) :
  sweep_ok (nrows A) (fun rhs x t => spai0_sweep (spai0_setup A) A rhs x t).
Proof.
  intros rhs x t Lr Lx Lt. unfold spai0_sweep. cbn [fst snd].
  assert (Ld : length (spai0_setup A) = nrows A)
    by (unfold spai0_setup; rewrite map_length; apply indexed_len).
  assert (Lres : forall t0, length t0 = nrows A -> length (residual rhs A x t0) = nrows A)
    by (intros; apply residual_length; assumption).
  split; [|split].
  - rewrite vmul_length; rewrite ?Lres; congruence.
  - apply Lres, Lt.
  - intros t' Lt'. rewrite (residual_ignores_res rhs A x t' t); auto.
Qed.

Lemma set_nth_length (x : vec) i v : length (set_nth x i v) = length x.
Proof. revert i; induction x as [|a x IH]; intros [|i]; simpl; auto. Qed.

Lemma gs_row_length i (r : row S) (rhs x : vec) : length (gs_row i r rhs x) = length x.
Proof. unfold gs_row. destruct (fold_left _ r _) as [D X]. apply set_nth_length. Qed.

Lemma gs_sweep_length (A : crs) (rhs x : vec) fwd : length (gs_sweep A rhs x fwd) = length x.
Proof.
  unfold gs_sweep. generalize (if fwd then seq 0 (nrows A) else rev (seq 0 (nrows A))). intro order.
  revert x; induction order as [|i order IH]; intro x; simpl; [reflexivity|].
  rewrite IH. apply gs_row_length.
Qed.

Lemma gs_sweep_ok (A : crs) fwd n : sweep_ok n (fun rhs x t => (gs_sweep A rhs x fwd, t)).
Proof.
  intros rhs x t Lr Lx Lt. cbn [fst snd]. split; [|split].
  - rewrite gs_sweep_length. exact Lx.
  - exact Lt.
  - reflexivity.
Qed.

Theorem mk_relax_std_ok (k : @relax_kind S) (A : crs) :
  sweep_ok (nrows A) (fst (mk_relax_std k A)) /\ sweep_ok (nrows A) (snd (mk_relax_std k A)).
Proof.
  destruct k as [w| |]; cbn [mk_relax_std fst snd].
  - split; apply jacobi_sweep_ok.
  - split; apply spai0_sweep_ok.
  - split; apply gs_sweep_ok.
Qed.

(* the exact coarse solve keeps the length *)
Lemma gj_length steps : forall k (done todo rows : list vec),
  gj steps k done todo = Some rows -> length rows = (length done + steps)%nat.
Proof.
  induction steps as [|steps IH]; intros k done todo rows H; simpl in H.
  - inversion H; subst. lia.
  - destruct (pick_pivot k todo) as [[p rest]|]; [|discriminate].
    apply IH in H. rewrite H, app_length, map_length. simpl. lia.
Qed.

Lemma dense_solve_length (A : crs) (b y : vec) : dense_solve A b = Some y -> length y = nrows A.
Proof.
  unfold dense_solve. destruct (gj _ _ _ _) as [rows|] eqn:E; [|discriminate].
  intro H. inversion H; subst. rewrite map_length. apply gj_length in E. simpl in E. exact E.
Qed.

Theorem mk_solve_exact_ok (A : crs) : solve_ok (nrows A) (mk_solve_exact A).
Proof.
  intros rhs x Lr Lx. unfold mk_solve_exact.
  destruct (dense_solve A rhs) as [y|] eqn:E; [apply (dense_solve_length A rhs y E)|exact Lx].
Qed.

(* ------------------------------------------------------------------ *)
(* hierarchies produced by build/rebuild + instantiate are well-formed *)
Section Inst.
Variable mk_relax : crs -> sweep * sweep.
Variable mk_solve : crs -> vec -> vec -> vec.
Hypothesis relax_ok : forall A, sweep_ok (nrows A) (fst (mk_relax A)) /\ sweep_ok (nrows A) (snd (mk_relax A)).
Hypothesis solve_ok_all : forall A, solve_ok (nrows A) (mk_solve A).
Variable cop : crs -> crs -> crs -> crs.
Hypothesis cop_shape : coarse_shape cop.

Local Notation inst := (instantiate mk_relax mk_solve).

Lemma inst_lA (l : ldesc) : lA (inst l) = ld_A l.
Proof. destruct l; reflexivity. Qed.

Lemma id_sweep_ok n : sweep_ok n (fun (_ x t : vec) => (x, t)).
Proof. intros rhs x t Lr Lx Lt. cbn [fst snd]. auto. Qed.

Lemma inst_sweeps_ok (l : ldesc) :
  sweep_ok (nrows (ld_A l)) (lpre (inst l)) /\ sweep_ok (nrows (ld_A l)) (lpost (inst l)).
Proof.
  destruct l as [A P R|A|A]; cbn [instantiate lpre lpost ld_A]; try apply relax_ok.
  split; apply id_sweep_ok.
Qed.

Theorem chain_hier_wf (ls : list ldesc) : chain cop ls -> hier_wf (map inst ls).
Proof.
  induction ls as [|l tl IH]; intro Hc; [destruct Hc|].
  cbn [map hier_wf]. rewrite inst_lA.
  split; [apply inst_sweeps_ok|]. split; [apply inst_sweeps_ok|].
  destruct tl as [|next tl'].
  - cbn [map]. split; [|exact Logic.I].
    intros sv Esv. destruct l as [A P R|A|A]; cbn in Esv; try discriminate.
    inversion Esv; subst. apply solve_ok_all.
  - destruct l as [A P R| |]; simpl in Hc; try contradiction. destruct Hc as [Hn Hc].
    cbn [map]. split; [|apply IH; exact Hc].
    rewrite inst_lA, Hn, sort_rows_nrows, cop_shape. reflexivity.
Qed.

Theorem fresh_scratch_wf (ls : list ldesc) : scratch_wf (map inst ls) (map fresh_scratch ls).
Proof.
  induction ls as [|l tl IH]; [exact Logic.I|].
  cbn [map scratch_wf]. split; [|exact IH].
  rewrite inst_lA. unfold scr_ok, fresh_scratch, vzero; cbn [sf su st].
  rewrite !repeat_length. auto.
Qed.

Lemma chain_nonempty (ls : list ldesc) : chain cop ls -> map inst ls <> [].
Proof. destruct ls; [intros []|discriminate]. Qed.

Lemma top_n_inst (ls : list ldesc) A : head_A ls A -> top_n (map inst ls) = nrows A.
Proof. destruct ls as [|l tl]; [intros []|]. simpl. intros <-. rewrite inst_lA. reflexivity. Qed.

End Inst.
(* ------------------------------------------------------------------ *)
(* closed form: every hierarchy produced by amg_init (or by any sequence of rebuilds),
   instantiated with the modelled smoothers and the exact coarse solve *)
Definition std_levels (k : @relax_kind S) (ls : list ldesc) : list level :=
  map (instantiate (mk_relax_std k) mk_solve_exact) ls.

Lemma coarse_op_of_shape (sc : option S) : coarse_shape (coarse_op_of sc).
Proof. destruct sc as [s|]; [apply scaled_galerkin_shape|apply galerkin_shape]. Qed.

Theorem std_levels_wf k cop (ls : list ldesc) : coarse_shape cop -> chain cop ls ->
  hier_wf (std_levels k ls) /\ std_levels k ls <> [] /\
  scratch_wf (std_levels k ls) (map fresh_scratch ls).
Proof.
  intros Hs Hc. split; [|split].
  - apply (chain_hier_wf _ _ (mk_relax_std_ok k) mk_solve_exact_ok cop Hs ls Hc).
  - apply (chain_nonempty _ _ cop ls Hc).
  - apply fresh_scratch_wf.
Qed.

Theorem built_apply_history_indep (zero_is_zero : is_zero (@s0 S) = true)
  ce dc ml sc ts (M : crs) k npre npost ncycle pre_cycles :
  let lvls := std_levels k (amg_init ce dc ml (coarse_op_of sc) ts M) in
  forall scr1 scr2 rhs x1 x2,
  scratch_wf lvls scr1 -> scratch_wf lvls scr2 ->
  length rhs = nrows M -> length x1 = nrows M -> length x2 = nrows M ->
  fst (apply npre npost ncycle pre_cycles lvls scr1 rhs x1) =
  fst (apply npre npost ncycle pre_cycles lvls scr2 rhs x2).
Proof.
  intros lvls scr1 scr2 rhs x1 x2 H1 H2 Lr L1 L2.
  destruct (amg_init_chain ce dc ml (coarse_op_of sc) ts M) as [Hc Hh].
  destruct (std_levels_wf k _ _ (coarse_op_of_shape sc) Hc) as (Hw & Hne & _).
  assert (En : top_n lvls = nrows M).
  { unfold lvls, std_levels. rewrite (top_n_inst _ _ _ _ Hh). apply sort_rows_nrows. }
  apply (apply_history_indep zero_is_zero npre npost ncycle pre_cycles lvls Hw Hne); congruence.
Qed.

End A1.
