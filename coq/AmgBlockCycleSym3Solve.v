(* AmgBlockCycleSym3Solve.v -- C02 for block value types: the hypothesis  solve_symH (nrows A) (mk_solve_block S0 b A)  of
   the symmetric-cycle theorems (AmgBlockCycleSym2Built.block_apply_herm_full, direct_coarse = true) quantifies over ALL
   block vectors f, g.  The coarse solver of the model (skyline_lu on static_matrix<T,b,1> right-hand sides) reads
   column 0 of every right-hand-side block and writes column-0 blocks, so for b >= 2 the hypothesis is FALSE on vectors that
   are not column shaped -- whatever the matrix is: refuted below for the 1 x 1 block identity matrix, b = 2.  On column
   vectors (the only ones the C++ can represent) the solver IS self-adjoint (evaluated on the coarse matrix of the example
   hierarchy).  Consequence: the symmetric-cycle theorem for direct_coarse = true must be stated for column vectors
   (or for the form projected on the (0,0) cell); with the present hypothesis it is vacuous as soon as a level is
   handled by the direct solver. *)
From Coq Require Import QArith Qcanon.
From Amgcl Require Import Scalar QcInst Vec Crs Kernels MatOps Relax DenseSolve Amg AmgExec AmgProofs AmgProofs4
  DirectUtil Inverse StaticMat BlockInst BlockKernels NcRingBlock AmgBlockCycle AmgBlockCycleExample AmgBlockCycleSym.
Local Close Scope Qc_scope.
Local Close Scope Q_scope.
Local Open Scope S_scope.

Definition exB1 : crs B2 := mkCrs 1 [[(0%nat, bI)]].

Theorem block_solve_symH_refuted : ~ solve_symH (S := B2) 1 (mk_solve_block QcS 2 exB1).
Proof.
  intro H.
  pose proof (H [bq 0 1 0 0] [bq 1 0 0 0] [bq 0 0 0 0] [bq 0 0 0 0] eq_refl eq_refl eq_refl eq_refl) as E.
  apply (proj2 (BlockS_eqb QcS 2 QcS_eqb _ _)) in E. vm_compute in E. discriminate E.
Qed.

(* on column vectors the same solver is self-adjoint: the 2 x 2 (block) coarse matrix of the example hierarchy *)
Definition exBAc : crs B2 := ld_A (nth 1 exBH (LSolve exB1)).
Example block_solve_sym_on_columns :
  nrows exBAc = 2 /\ solvable_block QcS 2 exBAc = true /\
  seqb (s := B2)
    (ipH (S := B2) 2 (mk_solve_block QcS 2 exBAc [bcol 1 2; bcol 3 4] [bq 0 0 0 0; bq 0 0 0 0]) [bcol 5 6; bcol 7 8])
    (ipH (S := B2) 2 [bcol 1 2; bcol 3 4] (mk_solve_block QcS 2 exBAc [bcol 5 6; bcol 7 8] [bq 0 0 0 0; bq 0 0 0 0]))
  = true.
Proof. vm_compute. auto. Qed.
