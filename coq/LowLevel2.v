(* LowLevel2.v -- C10-A2, second layer: memory with UNINITIALISED cells.
   LowLevel.v checks bounds only (its arrays are always initialised).  Here an array that the
   C++ obtains from new T[n] / std::vector<T>(n) of a trivially constructible T is a list of
   cells [option X]: None = allocated, never written.  Every access of the C++ is a checked
   read or write in an error monad with the outcomes
       Done x | OutOfBounds | UninitRead | OutOfFuel
   (OutOfFuel: a while loop of the C++ whose model is given a bound; the theorems show the bound
   is never reached).  Signed index arithmetic of the C++ (int i = j - 1; i >= 0; marker values
   -1; id values -1/-2) is kept signed: indices of type Z, a negative index is OutOfBounds.
   Read-only inputs (the CRS arrays of the operands) are plain lists, read with [ird].

   This file: the monad, detail::sort_row (amgcl/detail/sort_row.hpp:37-55) and
   backend::sort_rows (amgcl/backend/builtin.hpp:341-351).
   Proofs: LowLevel2Proofs.v. *)
From Coq Require Import ZArith.
From Amgcl Require Import Scalar Vec Crs Kernels MatOps LowLevel LowLevelT.
Local Open Scope S_scope.

Inductive mres (X : Type) : Type := Done (x : X) | OutOfBounds | UninitRead | OutOfFuel.
Arguments Done {X} x.
Arguments OutOfBounds {X}.
Arguments UninitRead {X}.
Arguments OutOfFuel {X}.

Definition mbind {X Y} (a : mres X) (f : X -> mres Y) : mres Y :=
  match a with Done x => f x | OutOfBounds => OutOfBounds | UninitRead => UninitRead | OutOfFuel => OutOfFuel end.
Notation "x <-- a ;; b" := (mbind a (fun x => b)) (at level 61, a at next level, right associativity).

(* memory cells *)
Definition marr (X : Type) := list (option X).
Definition fresh {X} (n : nat) : marr X := repeat None n.            (* new T[n] *)
Definition filled {X} (l : list X) : marr X := map Some l.           (* completely written *)

(* a[i] as an rvalue *)
Definition mrd {X} (a : marr X) (i : nat) : mres X :=
  match nth_error a i with
  | None => OutOfBounds
  | Some None => UninitRead
  | Some (Some v) => Done v
  end.
(* a[i] = v *)
Fixpoint mwr {X} (a : marr X) (i : nat) (v : X) : mres (marr X) :=
  match a, i with
  | [], _ => OutOfBounds
  | _ :: t, O => Done (Some v :: t)
  | c :: t, Datatypes.S k => t' <-- mwr t k v ;; Done (c :: t')
  end.
(* signed index *)
Definition mrdz {X} (a : marr X) (i : Z) : mres X :=
  if (i <? 0)%Z then OutOfBounds else mrd a (Z.to_nat i).
Definition mwrz {X} (a : marr X) (i : Z) (v : X) : mres (marr X) :=
  if (i <? 0)%Z then OutOfBounds else mwr a (Z.to_nat i) v.
(* read-only, initialised input array *)
Definition ird {X} (l : list X) (i : nat) : mres X :=
  match nth_error l i with Some v => Done v | None => OutOfBounds end.

(* p[i] for p = base + off pointing into an array of which [off, off + n) is the sub-object
   handed to the callee: the index must stay inside the sub-object *)
Definition srd {X} (a : marr X) (off n : nat) (i : Z) : mres X :=
  if ((i <? 0) || (Z.of_nat n <=? i))%Z%bool then OutOfBounds else mrd a (off + Z.to_nat i).
Definition swr {X} (a : marr X) (off n : nat) (i : Z) (v : X) : mres (marr X) :=
  if ((i <? 0) || (Z.of_nat n <=? i))%Z%bool then OutOfBounds else mwr a (off + Z.to_nat i) v.

(* for (i = lo; i < lo + cnt; ++i) st = body(i, st), stopping at the first error *)
Definition mfor {St} (lo cnt : nat) (body : nat -> St -> mres St) (st : St) : mres St :=
  fold_left (fun acc i => mbind acc (body i)) (seq lo cnt) (Done st).

(* every cell written? *)
Definition all_init {X} (a : marr X) : bool := forallb (fun c => match c with Some _ => true | None => false end) a.
(* the content of a completely written array *)
Definition contents {X} (d : X) (a : marr X) : list X := map (fun c => match c with Some v => v | None => d end) a.

Section LowLevel2.
Context {S : Scalar}.
Local Notation vec := (vec S).

(* ------------------------------------------------------------------ detail::sort_row
     for(int j = 1; j < n; ++j) {
         Col c = col[j]; Val v = val[j];
         int i = j - 1;
         while(i >= 0 && col[i] > c) { col[i+1] = col[i]; val[i+1] = val[i]; i--; }
         col[i+1] = c; val[i+1] = v;
     }
   col, val point at offset [off] of the matrix arrays; [n] is the row length. *)
Definition cvarr : Type := marr nat * marr S.

Fixpoint shift_loop (fuel : nat) (off n : nat) (c : nat) (i : Z) (cv : cvarr) : mres (Z * cvarr) :=
  if (i <? 0)%Z then Done (i, cv)                                   (* i >= 0 fails: col[i] is not evaluated *)
  else
    ci <-- srd (fst cv) off n i ;;
    if Nat.ltb c ci then
      match fuel with
      | O => OutOfFuel
      | Datatypes.S f =>
        col' <-- swr (fst cv) off n (i + 1) ci ;;
        vi <-- srd (snd cv) off n i ;;
        val' <-- swr (snd cv) off n (i + 1) vi ;;
        shift_loop f off n c (i - 1) (col', val')
      end
    else Done (i, cv).

Definition sort_body (off n : nat) (j : nat) (cv : cvarr) : mres cvarr :=
  c <-- srd (fst cv) off n (Z.of_nat j) ;;
  v <-- srd (snd cv) off n (Z.of_nat j) ;;
  r <-- shift_loop j off n c (Z.of_nat j - 1) cv ;;
  col' <-- swr (fst (snd r)) off n (fst r + 1) c ;;
  val' <-- swr (snd (snd r)) off n (fst r + 1) v ;;
  Done (col', val').

Definition ll_sort_row (off n : nat) (cv : cvarr) : mres cvarr :=
  mfor 1 (n - 1) (sort_body off n) cv.

(* backend::sort_rows:  for (i < n) { beg = A.ptr[i]; end = A.ptr[i+1];
                                      sort_row(A.col + beg, A.val + beg, end - beg); } *)
Definition ll_sort_rows (n : nat) (ptr : list nat) (cv : cvarr) : mres cvarr :=
  mfor 0 n (fun i cv =>
    b <-- ird ptr i ;;
    e <-- ird ptr (i + 1) ;;
    ll_sort_row b (e - b) cv) cv.

End LowLevel2.
