(* BlockRelaxExamples.v -- closed instances of the non-commutative C06 theorems at b x b blocks of exact
   rationals (BlockS QcS b), and concrete NON-COMMUTING 2x2 blocks over the exact rationals: the hypotheses of the
   non-commutative C06 theorems are satisfiable, and the operand orders they fix are the ones that matter.
   Witness (also a permanent case of tools/props/C06.py, ids blu0../bex..): the 2x2 block matrix
        W = [ A  C ]     A = [4 1; 0 4]   C = [0 1; 0 0]
            [ B  E ]     B = [0 0; 2 0]   E = 5 I
   B does not commute with A^-1, so  l_10 = B * A^-1  (ilu0.hpp)  differs from  A^-1 * B  (seeded change C06-1). *)
From Coq Require Import QArith Qcanon.
From Amgcl Require Import Scalar QcInst Vec Crs Kernels KernelsProofs MatOps Relax RelaxProofs Ilu IluProofs
  StaticMat BlockInst NcRing NcRingBlock NcRingBlockInv NcKernels BlockRelaxProofs BlockRelaxProofsIlu BlockIlu0Exact BlockIluClosed.
Local Close Scope Q_scope.
Local Close Scope Qc_scope.
Local Open Scope nat_scope.
Local Open Scope S_scope.

Lemma QcS_sinv0 : sinv (@s0 QcS) = s0.
Proof. apply Qc_is_canon. reflexivity. Qed.

Definition B2 : Scalar := BlockS QcS 2.
Definition mkb2 (l : list Z) : B2 := blk_of_list QcS 2 (map (fun z => qc z 1) l).
Definition nb_A : B2 := mkb2 [4; 1; 0; 4]%Z.
Definition nb_B : B2 := mkb2 [0; 0; 2; 0]%Z.
Definition nb_C : B2 := mkb2 [0; 1; 0; 0]%Z.
Definition nb_E : B2 := mkb2 [5; 0; 0; 5]%Z.
Definition nb_W : crs B2 := mkCrs 2 [ [(0, nb_A); (1, nb_C)]; [(0, nb_B); (1, nb_E)] ].
(* vectors (static_matrix<Q,2,1>) as column-0 blocks *)
Definition nb_col (l : list Z) : B2 := blk_col QcS 2 (map (fun z => qc z 1) l).
Definition nb_xs : vec B2 := [nb_col [1; -2]%Z; nb_col [3; 1]%Z].
Definition nb_rhs : vec B2 := map (fun r => dotrow r nb_xs) (rows nb_W).     (* W * xs *)

Definition nb_emb (n : Z) (d : positive) : B2 := blk_embed QcS 2 (qc n d).
Definition nb_is_col (a : B2) : bool := @blk_is_col QcS 2 a.

Definition nb_veq (x y : vec B2) : bool :=
  Nat.eqb (length x) (length y) && forallb (fun p => seqb (fst p) (snd p)) (combine x y).

Definition nb_check : bool :=
  (* the blocks do not commute; B does not commute with the inverse pivot *)
  negb (seqb (nb_A * nb_B) (nb_B * nb_A)) &&
  negb (seqb (nb_B * sinv nb_A) (sinv nb_A * nb_B)) &&
  (* the inverse is two-sided here *)
  seqb (nb_A * sinv nb_A) s1 && seqb (sinv nb_A * nb_A) s1 &&
  (* hypotheses of C06_nc_ilu0_exact_on_pattern *)
  wf nb_W && Nat.eqb (ncols nb_W) (nrows nb_W) &&
  forallb (fun r => sorted_strict r) (rows nb_W) && has_diag nb_W &&
  match ilu0 nb_W [] with
  | Ok (L, U, D) =>
      forallb (fun d => negb (is_zero d) && negb (is_zero (sinv d))) D &&
      (* ... and its conclusion, on all four positions (block products) *)
      forallb (fun ir => forallb (fun e =>
                 seqb (lu_entry L U D (fst ir) (fst e)) (mget nb_W (fst ir) (fst e))) (snd ir))
              (indexed (rows nb_W)) &&
      (* the multiplier is B * A^-1, NOT A^-1 * B *)
      seqb (mget L 1 0) (nb_B * sinv nb_A) && negb (seqb (mget L 1 0) (sinv nb_A * nb_B)) &&
      (* the pattern is full, so apply() is an exact solve and the solution is a fixed point of the sweep *)
      nb_veq (ilu_apply L U D nb_rhs [s0; s0]) nb_xs &&
      nb_veq (fst (ilu_sweep s1 L U D nb_W nb_rhs nb_xs [s0; s0])) nb_xs
  | Err _ => false
  end &&
  (* Gauss-Seidel and Jacobi: the solution is a fixed point; the sweeps keep the column-0 shape *)
  nb_veq (gs_sweep nb_W nb_rhs nb_xs true) nb_xs && nb_veq (gs_sweep nb_W nb_rhs nb_xs false) nb_xs &&
  nb_veq (fst (jacobi_sweep (nb_emb 3 4) (jacobi_setup nb_W []) nb_W nb_rhs nb_xs [s0; s0])) nb_xs &&
  forallb nb_is_col (gs_sweep nb_W nb_rhs [nb_col [1; 1]%Z; nb_col [0; 2]%Z] true) &&
  (* LEFT products keep the column-0 shape of a vector entry, RIGHT products do not *)
  nb_is_col (nb_A * nb_col [1; -2]%Z) && negb (nb_is_col (nb_col [1; -2]%Z * nb_A)) &&
  (* embedded base scalars are central *)
  seqb (nb_emb 3 4 * nb_A) (nb_A * nb_emb 3 4).

Lemma nb_check_ok : nb_check = true.
Proof. vm_compute. reflexivity. Qed.

(* ------------------------------------------------------------------ *)
(* closed instances at BlockS QcS b (every hypothesis about the value type discharged) *)
Section ClosedBlocks.
Variable b : nat.
Local Notation B := (BlockS QcS b).
Let Hnc : ncring_theory B := BlockS_ncring QcS b QcS_ring.
Let Heq : seqb_spec B := BlockS_eqb QcS b QcS_eqb.
Let Hinv : forall x : B, sinv x <> s0 -> x * sinv x = s1 := BlockS_inv_right QcS b QcS_field QcS_eqb QcS_sinv0.

Theorem nc_ilu0_exact_on_pattern_blocks (A : crs B) (junk : vec B) (L U : crs B) (D : vec B) :
  wf A = true -> ncols A = nrows A ->
  (forall i, i < nrows A -> sorted_strict (nth i (rows A) []) = true) ->
  has_diag A = true ->
  ilu0 A junk = Ok (L, U, D) ->
  (forall k, k < nrows A -> vget D k <> s0 /\ sinv (vget D k) <> s0) ->
  forall i j, i < nrows A -> has_col j (nth i (rows A) []) = true ->
    lu_entry L U D i j = mget A i j.
Proof. exact (nc_ilu0_exact_on_pattern Hnc Heq Hinv A junk L U D). Qed.

Theorem nc_gs_forward_blocks (A : crs B) (rhs x : vec B) :
  wf A = true -> ncols A = nrows A -> length rhs = nrows A -> length x = nrows A ->
  (forall k, k < nrows A -> diag_unique A k) ->
  forall i, i < nrows A -> sinv (mget A i i) <> s0 ->
  let x' := gs_sweep A rhs x true in
  mget A i i * vget x' i =
  vget rhs i
  - sumn (fun j => if Nat.ltb j i then mget A i j * vget x' j else s0) (nrows A)
  - sumn (fun j => if Nat.ltb i j then mget A i j * vget x j else s0) (nrows A).
Proof.
  intros Hwf Hsq Hr Hx Hu i Hi Hnz.
  exact (nc_gs_forward_spec Hnc A rhs x Hwf Hsq Hr Hx Hu i Hi (Hinv _ Hnz)).
Qed.

Theorem nc_ilu_sweep_fixed_point_blocks (w : B) (L U : crs B) (D : vec B) (A : crs B) (rhs x tmp : vec B) :
  wf A = true -> length rhs = nrows A -> length x = nrows A -> length tmp = nrows A ->
  (forall i, i < nrows A -> Ax A x i = vget rhs i) ->
  forall i, i < nrows A -> vget (fst (ilu_sweep w L U D A rhs x tmp)) i = vget x i.
Proof. exact (nc_ilu_sweep_fixed_point Hnc Heq w L U D A rhs x tmp). Qed.

Theorem nc_ilu0_closed_exact_solve_blocks (A : crs B) (junk : vec B) (L U : crs B) (D b0 x0 : vec B) :
  wf A = true -> ncols A = nrows A ->
  (forall i, i < nrows A -> sorted_strict (nth i (rows A) []) = true) ->
  has_diag A = true -> pat_closed A ->
  ilu0 A junk = Ok (L, U, D) ->
  (forall k, k < nrows A -> vget D k <> s0 /\ sinv (vget D k) <> s0) ->
  length b0 = nrows A -> length x0 = nrows A ->
  forall i, i < nrows A -> Ax A (ilu_apply L U D b0 x0) i = vget b0 i.
Proof. exact (nc_ilu0_closed_exact_solve Hnc Heq Hinv A junk L U D b0 x0). Qed.

Theorem nc_ilu0_tridiagonal_exact_solve_blocks (A : crs B) (junk : vec B) (L U : crs B) (D b0 x0 : vec B) :
  wf A = true -> ncols A = nrows A ->
  (forall i, i < nrows A -> sorted_strict (nth i (rows A) []) = true) ->
  has_diag A = true -> tridiagonal A ->
  ilu0 A junk = Ok (L, U, D) ->
  (forall k, k < nrows A -> vget D k <> s0 /\ sinv (vget D k) <> s0) ->
  length b0 = nrows A -> length x0 = nrows A ->
  forall i, i < nrows A -> Ax A (ilu_apply L U D b0 x0) i = vget b0 i.
Proof. exact (nc_ilu0_tridiagonal_exact_solve Hnc Heq Hinv A junk L U D b0 x0). Qed.

End ClosedBlocks.

(* ------------------------------------------------------------------ *)
(* the same theorem for SCALAR values (exact rationals): a field with sinv 0 = 0 satisfies Hinv *)
Lemma QcS_inv_right (x : QcS) : sinv x <> s0 -> x * sinv x = s1.
Proof.
  intro H. assert (Hx : x <> s0) by (intros ->; apply H; exact QcS_sinv0).
  rewrite (ARmul_comm (Rth_ARth (Eqsth _) (Eq_ext _ _ _) QcS_ring)).
  exact (Finv_l QcS_field x Hx).
Qed.

Theorem ilu0_closed_exact_solve_Qc (A : crs QcS) (junk : vec QcS) (L U : crs QcS) (D b0 x0 : vec QcS) :
  wf A = true -> ncols A = nrows A ->
  (forall i, i < nrows A -> sorted_strict (nth i (rows A) []) = true) ->
  has_diag A = true -> pat_closed A ->
  ilu0 A junk = Ok (L, U, D) ->
  (forall k, k < nrows A -> vget D k <> s0 /\ sinv (vget D k) <> s0) ->
  length b0 = nrows A -> length x0 = nrows A ->
  forall i, i < nrows A -> Ax A (ilu_apply L U D b0 x0) i = vget b0 i.
Proof. exact (nc_ilu0_closed_exact_solve (ncring_of_ring QcS QcS_ring) QcS_eqb QcS_inv_right A junk L U D b0 x0). Qed.
