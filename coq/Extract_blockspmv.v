(* Extract_blockspmv.v -- extraction for the value-type instances of the adapter models (C13, C17):
   Kernels.spmv / residual at the Scalar instance BlockS (static_matrix<T,b,b>) on the model of the
   block_matrix adapter (BlockSpmv.v), and the scaled_problem view (Adapters.scaled_adapter) at BlockS and
   at ComplexS (std::complex<T>).  Directives: ExtractCommon.v (trusted base). *)
From Amgcl Require Import ExtractCommon.
From Coq Require Import QArith Qcanon.
From Amgcl Require Import Scalar QcInst Vec Crs Kernels MatOps Adapters DirectUtil Inverse StaticMat BlockInst
  ComplexInst BlockSpmv.
Separate Extraction
  QcInst.QcS Scalar.is_zero Scalar.smax Scalar.smin
  Vec Crs Kernels MatOps Adapters StaticMat BlockInst ComplexInst BlockSpmv.
