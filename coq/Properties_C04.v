(* Properties_C04.v -- C04: interpolation is exact on the near-null space; aggregates partition
   the grid.  Statements only; proofs live in CoarsenProofs.v.
   "any S": holds for every Scalar record (no algebraic law used; floats with NaN included);
   "ring"/"field": Section hypotheses, closed at Qc below.
   Models: Aggregates.v (plain_aggregates, pointwise_aggregates as coded), Tentative.v,
   Coarsen.v (aggregation, smoothed_aggregation, ruge_stuben as coded). *)
From Amgcl Require Import Scalar QcInst Vec Crs Kernels MatOps MatOps2 MatOps2Proofs Aggregates Tentative Coarsen CoarsenProofs.
From Amgcl Require Import Qr QrMathRefl QrMathR TentativeQr TentativeQrProofs TentativeQrR TentativeQrOracle TentativeQrGuard TentativeQrPolicies TentativeQrPipeline EminProofs2 EminProofs3.
Local Open Scope S_scope.

(* ---------------------------------------------------------------- 1. plain_aggregates (any S)
   partition_spec n count id st :=
     length id = n /\
     (forall i < n, id i = removed \/ 0 <= id i < count) /\           ids are in range
     (forall k < count, exists i < n, id i = k) /\                     every aggregate is non-empty:
                                                                       contiguous numbering 0..count-1
                                                                       (the cnt/partial_sum renumbering)
     (forall i < n, 0 <= id i <-> row i has a strong connection)       isolated <-> removed          *)
Theorem C04_plain_aggregates_partition (S : Scalar) eps2 (A : crs S) junk count id st :
  plain_aggregates eps2 A junk = AggOk count id st ->
  0 < count /\ st = strong_connections eps2 A junk /\ partition_spec (nrows A) count id st.
Proof. exact (plain_aggregates_partition eps2 A junk count id st). Qed.
Print Assumptions C04_plain_aggregates_partition.

(* count = 0 => throw empty_level; it happens exactly when no row has a strong connection *)
Theorem C04_plain_aggregates_empty_level (S : Scalar) eps2 (A : crs S) junk :
  plain_aggregates eps2 A junk = AggEmpty <->
  (forall i, i < nrows A -> has_strong (nth i (strong_connections eps2 A junk) []) = false).
Proof. exact (plain_aggregates_empty eps2 A junk). Qed.
Print Assumptions C04_plain_aggregates_empty_level.

(* the boolean oracle evaluated on the implementation's (count, id, strong_connection) is implied by
   the specification: what the harness checks on the real code is the statement proved for the model *)
Theorem C04_partition_oracle_complete (S : Scalar) eps2 (A : crs S) junk count id st :
  plain_aggregates eps2 A junk = AggOk count id st -> partition_ok count id st = true.
Proof. exact (partition_oracle_complete eps2 A junk count id st). Qed.
Print Assumptions C04_partition_oracle_complete.

(* the renumbering pass alone, for ANY valid intermediate state of the greedy pass *)
Theorem C04_renumbering (n count : nat) (id : list Z) (st : flags) : 0 < count ->
  length id = n ->
  (forall i, i < n -> zget id i = removed \/ (0 <= zget id i < Z.of_nat count)%Z) ->
  (forall i, i < n -> (zget id i = removed <-> has_strong (nth i st []) = false)) ->
  partition_spec n (snd (renumber id count)) (fst (renumber id count)) st.
Proof. exact (renumber_spec n count id st). Qed.
Print Assumptions C04_renumbering.

(* ---------------------------------------------------------------- 2. tentative prolongation, no null space *)
(* one unit entry per aggregated row at column id(i), empty row for removed rows (any S) *)
Theorem C04_tentative_structure (S : Scalar) naggr (id : list Z) i :
  nrows (tentative_prolongation (S:=S) naggr id) = length id /\
  nth i (rows (tentative_prolongation (S:=S) naggr id)) [] =
    (if Z.leb 0 (zget id i) then [(Z.to_nat (zget id i), s1)] else []).
Proof. split; [exact (tentative_nrows naggr id) | exact (tentative_row_nth naggr id i)]. Qed.
Print Assumptions C04_tentative_structure.

(* disjoint supports (any S): a row has a non-zero in at most one column *)
Theorem C04_tentative_disjoint_supports (S : Scalar) naggr (id : list Z) i j1 j2 :
  mget (tentative_prolongation (S:=S) naggr id) i j1 <> s0 ->
  mget (tentative_prolongation (S:=S) naggr id) i j2 <> s0 -> j1 = j2.
Proof. exact (tentative_disjoint naggr id i j1 j2). Qed.
Print Assumptions C04_tentative_disjoint_supports.

Section Ring.
Variable S : Scalar.
Hypothesis Srt : Sring S.

(* P_tent * 1 = 1 on aggregated rows, 0 on removed rows *)
Theorem C04_tentative_reproduces_constant naggr (id : list Z) i :
  ((0 <= zget id i < Z.of_nat naggr)%Z ->
     dotrow (nth i (rows (tentative_prolongation (S:=S) naggr id)) []) (repeat s1 naggr) = s1) /\
  ((zget id i < 0)%Z ->
     dotrow (nth i (rows (tentative_prolongation (S:=S) naggr id)) []) (repeat s1 naggr) = s0).
Proof.
  split; [exact (tentative_times_one S Srt naggr id i)
         | exact (tentative_times_one_removed S naggr id i (repeat s1 naggr))].
Qed.

(* the dense entry at (i, id i) is 1 *)
Theorem C04_tentative_unit_entry naggr (id : list Z) i : (0 <= zget id i)%Z ->
  mget (tentative_prolongation (S:=S) naggr id) i (Z.to_nat (zget id i)) = s1.
Proof. exact (tentative_mget_on S Srt naggr id i). Qed.

(* columns are mutually orthogonal *)
Theorem C04_tentative_columns_orthogonal naggr (id : list Z) j1 j2 : j1 <> j2 ->
  sumn (fun i => mget (tentative_prolongation (S:=S) naggr id) i j1 *
                 mget (tentative_prolongation (S:=S) naggr id) i j2) (length id) = s0.
Proof. exact (tentative_orthogonal S Srt naggr id j1 j2). Qed.
End Ring.

Theorem C04_tentative_reproduces_constant_Qc naggr (id : list Z) i : (0 <= zget id i < Z.of_nat naggr)%Z ->
  dotrow (nth i (rows (tentative_prolongation (S:=QcS) naggr id)) []) (repeat s1 naggr) = s1.
Proof. exact (proj1 (C04_tentative_reproduces_constant QcS QcS_ring naggr id i)). Qed.
Print Assumptions C04_tentative_reproduces_constant_Qc.

Theorem C04_tentative_columns_orthogonal_Qc naggr (id : list Z) j1 j2 : j1 <> j2 ->
  sumn (fun i => mget (tentative_prolongation (S:=QcS) naggr id) i j1 *
                 mget (tentative_prolongation (S:=QcS) naggr id) i j2) (length id) = s0.
Proof. exact (C04_tentative_columns_orthogonal QcS QcS_ring naggr id j1 j2). Qed.
Print Assumptions C04_tentative_columns_orthogonal_Qc.

(* ---------------------------------------------------------------- 2b. tentative prolongation WITH a near-null space,
   relative to a QR oracle (amgcl/detail/qr.hpp is hard-wired to double: not modelled).  If the factors
   the oracle returns for the aggregate of row k satisfy Q R = B_aggr (column c), then
   (P_tent * B_coarse)[k][c] = B[k][c]: the supplied near-null-space vectors are reproduced exactly on
   aggregated rows.  B_coarse = the R factors stacked (ns_apply / bnew_entry).
   On the implementation this variant is TESTED (oracle o.tentative_ns in the double build), not tied
   exactly. *)
Section RingNS.
Variable S : Scalar.
Hypothesis Srt : Sring S.
Variable qr : mat (S:=S) -> mat (S:=S) * mat (S:=S).
Theorem C04_tentative_nullspace_reproduces (bs cols naggr : nat) (id : list Z) (B : mat (S:=S)) k c :
  0 < cols -> k < length id -> (0 <= zget id k)%Z ->
  let i := Nat.div (Z.to_nat (zget id k)) bs in
  let mem := members bs id i in
  let QR := qr (map (mrow B) mem) in
  i < Nat.div naggr bs ->
  (forall ii, ii < length mem ->
     sumn (fun jj => mentry (fst QR) ii jj * mentry (snd QR) jj c) cols = mentry B (nth ii mem 0%nat) c) ->
  let PB := tentative_prolongation_ns qr bs cols naggr id B in
  ns_apply S cols (snd PB) (nth k (rows (fst PB)) []) c = mentry B k c.
Proof. exact (tentative_ns_reproduces S Srt qr bs cols naggr id B k c). Qed.
End RingNS.

(* ---------------------------------------------------------------- 3. smoothed aggregation formula (field)
   dense P = (I - omega D^-1 A_F) dense P_tent, row by row:
     sa_formula omega A st Pt i j = sum_{k < n} sa_M i k * Pt[k][j],
     sa_M i k  = delta_ik - omega * D_i^-1 * A_F[i][k],
     A_F[i][k] = sum of the STRONG stored entries (i,k) for k <> i,  A_F[i][i] = D_i,
     D_i       = a_ii + sum of the WEAK off-diagonal entries of row i (what the code lumps into [dia]).
   Guards the code needs (sa_row_regular): D_i <> 0 (the code tests is_zero(dia) and then leaves the
   off-diagonal part out), exactly one stored diagonal entry in row i, flags cover the row.
   Holds for ANY flags [st] and ANY P_tent (so also for the near-null-space variant and for the
   flags pointwise_aggregates produces). *)
Section Field.
Variable S : Scalar.
Hypothesis Sft : Sfield S.
Hypothesis Seqb : seqb_spec S.

Theorem C04_sa_formula (omega : S) (A : crs S) (st : flags) (Pt : crs S) i j :
  wf A = true -> ncols A = nrows A -> i < nrows A ->
  sa_row_regular A st i = true ->
  mget (sa_smooth omega A st Pt) i j = sa_formula omega A st Pt i j.
Proof. exact (sa_formula_holds S Sft Seqb omega A st Pt i j). Qed.
End Field.

Theorem C04_sa_formula_Qc (omega : QcS) (A : crs QcS) (st : flags) (Pt : crs QcS) i j :
  wf A = true -> ncols A = nrows A -> i < nrows A ->
  sa_row_regular A st i = true ->
  mget (sa_smooth omega A st Pt) i j = sa_formula omega A st Pt i j.
Proof. exact (C04_sa_formula QcS QcS_field QcS_eqb omega A st Pt i j). Qed.
Print Assumptions C04_sa_formula_Qc.

(* omega as coded: relax * static_cast<scalar>(2.0/3), resp. relax * (static_cast<scalar>(4.0/3) / rho) *)
Theorem C04_sa_transfer_is_smoothing (S : Scalar) (eps2 relax c23 : S) bs (A : crs S) junk P R :
  sa_transfer eps2 relax c23 bs A junk = TrOk P R ->
  exists count id st, pointwise_aggregates eps2 bs 0 A junk = AggOk count id st /\
    P = sa_smooth (relax * c23) A st (tentative_prolongation count id) /\ R = transpose P.
Proof. exact (sa_transfer_is_smoothing eps2 relax c23 bs A junk P R). Qed.
Print Assumptions C04_sa_transfer_is_smoothing.

(* ---------------------------------------------------------------- 4a. smoothed aggregation row sums (field)
   struct_sym A: every stored entry (i,c,v) has a stored mirror entry (c,i,v) (symmetric matrices
   without duplicate or one-sided explicit-zero entries).  A zero-row-sum row with a strong
   neighbour (and the guards of the formula: D_i <> 0, one stored diagonal entry) is interpolated
   with weights that sum to one -- no order axioms are needed: the strength test of the mirror entry
   compares the same two ring elements. *)
Section FieldRowSum.
Variable S : Scalar.
Hypothesis Sft : Sfield S.
Hypothesis Seqb : seqb_spec S.
Theorem C04_sa_row_sum_one (eps2 omega : S) (A : crs S) junk count id st i :
  wf A = true -> ncols A = nrows A -> i < nrows A ->
  plain_aggregates eps2 A junk = AggOk count id st ->
  struct_sym A ->
  row_sum (nth i (rows A) []) = s0 ->
  has_strong (nth i st []) = true ->
  sa_row_regular A st i = true ->
  row_sum (nth i (rows (sa_smooth omega A st (tentative_prolongation count id))) []) = s1.
Proof. exact (sa_row_sum_one S Sft Seqb eps2 omega A junk count id st i). Qed.
End FieldRowSum.

Theorem C04_sa_row_sum_one_Qc (eps2 omega : QcS) (A : crs QcS) junk count id st i :
  wf A = true -> ncols A = nrows A -> i < nrows A ->
  plain_aggregates eps2 A junk = AggOk count id st ->
  struct_sym A ->
  row_sum (nth i (rows A) []) = s0 ->
  has_strong (nth i st []) = true ->
  sa_row_regular A st i = true ->
  row_sum (nth i (rows (sa_smooth omega A st (tentative_prolongation count id))) []) = s1.
Proof. exact (C04_sa_row_sum_one QcS QcS_field QcS_eqb eps2 omega A junk count id st i). Qed.
Print Assumptions C04_sa_row_sum_one_Qc.

(* the diagonal of A_F in the header comment of smoothed_aggregation.hpp (weak entries SUBTRACTED,
   as printed in Vanek et al. 1996) is not what the code computes (weak entries ADDED: row sums of A
   are preserved); witness with one weak connection, omega = 2/3: P[0][0] = 5/7 = coded formula,
   documented formula gives 17/27.  Documentation finding, see final report. *)
Theorem C04_sa_documented_diagonal_refuted :
  match pointwise_aggregates (qc 1 16) 1 0 sa_doc_A (repeat (qc 0 1) 3) with
  | AggOk count id st =>
      let Pt := tentative_prolongation (S:=QcS) count id in
      let P := sa_smooth (qc 2 3) sa_doc_A st Pt in
      sa_row_regular sa_doc_A st 0 = true /\
      seqb (mget P 0 0) (sa_formula (qc 2 3) sa_doc_A st Pt 0 0) = true /\
      seqb (mget P 0 0) (qc 5 7) = true /\
      seqb (sa_formula_doc (qc 2 3) sa_doc_A st Pt 0 0) (qc 17 27) = true
  | _ => False
  end.
Proof. exact sa_documented_diagonal_refuted. Qed.
Print Assumptions C04_sa_documented_diagonal_refuted.

(* R = transpose P for all three policies, by construction (any S) *)
Theorem C04_restriction_is_transpose (S : Scalar) (eps2 relax c23 eps_strong eps_trunc : S) bs dt (A : crs S) junk junkf P R :
  (aggregation_transfer eps2 bs A junk = TrOk P R -> R = transpose P) /\
  (sa_transfer eps2 relax c23 bs A junk = TrOk P R -> R = transpose P) /\
  (rs_transfer eps_strong eps_trunc dt A junkf = TrOk P R -> R = transpose P).
Proof. exact (restriction_is_transpose eps2 relax c23 eps_strong eps_trunc bs dt A junk junkf P R). Qed.
Print Assumptions C04_restriction_is_transpose.

(* Ruge-Stuben reads no uninitialised memory any more (/repo 7bd138f): the result does not depend on [junk] *)
Theorem C04_rs_transfer_junk_independent (S : Scalar) (eps_strong eps_trunc : S) dt (A : crs S) (j1 j2 : flags) :
  rs_transfer eps_strong eps_trunc dt A j1 = rs_transfer eps_strong eps_trunc dt A j2.
Proof. exact (rs_transfer_junk_independent eps_strong eps_trunc dt A j1 j2). Qed.
Print Assumptions C04_rs_transfer_junk_independent.

(* ---------------------------------------------------------------- 3b. smoothed_aggr_emin (field)
   Proved: the filtered matrix the code assembles has the dense semantics A_F of the SA formula and
   its diagonal vector is D (one stored diagonal entry per row).
   FULL STATEMENT
     mget P i j = emin_P_spec A st Pt i j   (P = P_t - D^-1 A_F P_t Omega)
     mget R j i = emin_R_spec A st Pt j i   (R = P_t^T - Omega P_t^T A_F D^-1)
     Omega_j = <(A_F P_t)_j, (A_F D^-1 A_F P_t)_j> / <(A_F D^-1 A_F P_t)_j, (A_F D^-1 A_F P_t)_j>
   is PROVED for the model below: section 7 (C04_emin_formulas, C04_emin_transfer_formulas*; at most 16 threads)
   and section 9 (C04_emin_full_statement, C04_emin_transfer_full: Omega as the quotient of the two accumulated
   column inner products, no guard on a zero denominator, P and R given Omega, EVERY thread count). *)
Theorem C04_emin_filter_dense_partial (S : Scalar) (Sft : Sfield S) (A : crs S) st i k : i < nrows A ->
  length (filter (fun e : nat * S * bool => Nat.eqb (fst (fst e)) i) (zip_row (nth i (rows A) []) (nth i st []))) = 1%nat ->
  mget (fst (emin_filter A st)) i k = sa_AF A st i k /\ vget (snd (emin_filter A st)) i = sa_D A st i.
Proof. exact (emin_filter_dense S Sft A st i k). Qed.
Print Assumptions C04_emin_filter_dense_partial.

(* ---------------------------------------------------------------- 5. pointwise aggregates / lifting *)
(* by construction: the b unknowns of node ip get ids b*pw_id(ip)+k, and they are
   negative exactly for removed nodes -- "the unknowns of one grid node travel together" *)
Theorem C04_pointwise_ids_travel_together b (pwid : list Z) ip k :
  0 < b -> ip < length pwid -> k < b ->
  nth (ip * b + k) (expand_ids b pwid) removed = (Z.of_nat b * nth ip pwid removed + Z.of_nat k)%Z /\
  ((nth ip pwid removed < 0)%Z <-> (nth (ip * b + k) (expand_ids b pwid) removed < 0)%Z).
Proof.
  intros Hb Hip Hk. split; [exact (expand_ids_nth b pwid ip k Hip Hk) | exact (expand_ids_negative b pwid ip k Hb Hip Hk)].
Qed.
Print Assumptions C04_pointwise_ids_travel_together.

(* pointwise_matrix (A (x) I_b, b) is the scalar pattern of A with the norms of its entries
   (any S; rows of A sorted by column without duplicates).  pwm = the current code of
   backend::pointwise_matrix (after /repo 0e81e11), modelled in Aggregates.v. *)
Theorem C04_pointwise_matrix_kronecker (S : Scalar) b (A : crs S) :
  0 < b -> forallb sorted_strict (rows A) = true -> pwm (kron_id b A) b = Some (mabs A).
Proof. exact (pwm_kron b A). Qed.
Print Assumptions C04_pointwise_matrix_kronecker.

(* LIFTING (any S): coarsening A (x) I_b with block_size b gives exactly the lifted aggregates
   (count*b, ids b*id+k, every scalar row's strong flags repeated b times) of the scalar problem.
   The scalar problem is mabs A -- the reduced matrix consists of block norms by design; as far
   as strength of connection goes mabs A and A agree whenever the diagonal is positive.
   Holds for the current code (/repo 0e81e11 pointwise_matrix, 09e5c12 pointwise_aggregates); it was
   refuted for the code before those commits (former finding C04-pointwise-lifting, witness
   C04_pointwise_lifting_poisson below, then ids [-4,-3,0,1]). *)
Theorem C04_pointwise_lifting (S : Scalar) eps2 b (A : crs S) junk :
  1 < b -> forallb sorted_strict (rows A) = true ->
  pointwise_aggregates eps2 b 0 (kron_id b A) junk
  = lifted_aggregates b (plain_aggregates eps2 (mabs A) junk).
Proof. exact (pointwise_lifting eps2 b A junk). Qed.
Print Assumptions C04_pointwise_lifting.

(* the former witness: 1-D Poisson on 2 points (x) I_2, eps_strong = 1/4 *)
Theorem C04_pointwise_lifting_poisson :
  pwm (kron_id 2 poisson1d_2) 2 = Some (mabs poisson1d_2) /\
  pointwise_aggregates (qc 1 16) 2 0 (kron_id 2 poisson1d_2) (repeat (qc 0 1) 4)
    = AggOk 2 [0; 1; 0; 1]%Z [[false; true]; [false; true]; [true; false]; [true; false]] /\
  lifted_aggregates 2 (plain_aggregates (qc 1 16) (mabs poisson1d_2) (repeat (qc 0 1) 2))
    = AggOk 2 [0; 1; 0; 1]%Z [[false; true]; [false; true]; [true; false]; [true; false]].
Proof. exact pointwise_lifting_poisson. Qed.
Print Assumptions C04_pointwise_lifting_poisson.

(* the smoothed P lifts as well (any S): smoothed_aggregation on A (x) I_b with block_size b returns
   P (x) I_b and its transpose, P = the smoothed operator of A built with the flags of |A| *)
Theorem C04_smoothed_P_lifting (S : Scalar) (eps2 omega : S) b (A : crs S) junk :
  1 < b -> forallb sorted_strict (rows A) = true ->
  sa_transfer_omega eps2 omega b (kron_id b A) junk = lifted_sa eps2 omega b A junk.
Proof. exact (sa_transfer_kron eps2 omega b A junk). Qed.
Print Assumptions C04_smoothed_P_lifting.

(* ---------------------------------------------------------------- 4b. Ruge-Stuben row sums (ordered field)
   Order hypotheses: the set of MatOps2Proofs.Gersh (irreflexive, transitive, total <, compatible with
   + and with * by positives) plus the defining equation of abs; closed at Qc below.
   r = the stored entries of row i with their S.val flags (zip_row).  Notation of the statement:
     fsum p r          = sum of the values of the entries of r that satisfy p
     pDI i             = entry is in column i              lastd i r 0 = the value the code keeps in [dia]
     pAD cf i / pBD cf i = negative / non-negative off-diagonal entries that are strong with a 'C' column
                         (their sums are a_den / b_den of the code)
     pDN / pDP         = those among them that the truncation drops (sums d_neg / d_pos)
   Guards, all needed by the code: row i is not 'C'; 0 <= eps, 0 <= eps_trunc; zero row sum; the
   diagonal is stored once; |a_den| > eps and, with truncation, |a_den - d_neg| > eps; the positive
   strong-C part is either below eps (|b_den| < eps) or visible (|b_den| > eps, surviving truncation)
   with a positive diagonal.  (|b_den| = eps exactly is covered by neither branch of the code
   consistently: `< eps` moves b_num to the diagonal, `> eps` interpolates; see final report.) *)
Section OrderedField.
Variable S : Scalar.
Hypothesis Sft : Sfield S.
Hypothesis lt_irrefl : forall x : S, sltb x x = false.
Hypothesis lt_trans  : forall x y z : S, sltb x y = true -> sltb y z = true -> sltb x z = true.
Hypothesis lt_total  : forall x y : S, sltb x y = false -> sltb y x = false -> x = y.
Hypothesis lt_add : forall x y z : S, sltb x y = true -> sltb (x + z) (y + z) = true.
Hypothesis lt_mul : forall x y z : S, sltb s0 z = true -> sltb x y = true -> sltb (x * z) (y * z) = true.
Hypothesis abs_def : forall x : S, sabs x = if sltb x s0 then - x else x.

Theorem C04_rs_row_sum_one (eps et : S) (dt : bool) cf cidx i (r : list (nat * S * bool)) :
  cfm_eqb (cfget cf i) CC = false -> lep S s0 eps -> lep S s0 et ->
  let Amin := fst (rs_minmax cf r) * et in
  let Amax := snd (rs_minmax cf r) * et in
  fsum S (fun _ => true) r = s0 ->
  fsum S (pDI S i) r = lastd S i r s0 ->
  sltb eps (sabs (fsum S (pAD S cf i) r)) = true ->
  (dt = true -> sltb eps (sabs (fsum S (pAD S cf i) r - fsum S (pDN S dt cf i Amin) r)) = true) ->
  (sltb (sabs (fsum S (pBD S cf i) r)) eps = true \/
   (sltb eps (sabs (fsum S (pBD S cf i) r)) = true /\
    (dt = true -> sltb eps (sabs (fsum S (pBD S cf i) r - fsum S (pDP S dt cf i Amax) r)) = true) /\
    sltb s0 (lastd S i r s0) = true)) ->
  row_sum (rs_interp_row eps et dt cf cidx i r) = s1.
Proof. exact (rs_interp_row_sum_one S Sft lt_irrefl lt_trans lt_total lt_add lt_mul abs_def eps et dt cf cidx i r). Qed.
End OrderedField.

Theorem C04_rs_row_sum_one_Qc (eps et : QcS) (dt : bool) cf cidx i (r : list (nat * QcS * bool)) :
  cfm_eqb (cfget cf i) CC = false -> lep QcS s0 eps -> lep QcS s0 et ->
  let Amin := fst (rs_minmax cf r) * et in
  let Amax := snd (rs_minmax cf r) * et in
  fsum QcS (fun _ => true) r = s0 ->
  fsum QcS (pDI QcS i) r = lastd QcS i r s0 ->
  sltb eps (sabs (fsum QcS (pAD QcS cf i) r)) = true ->
  (dt = true -> sltb eps (sabs (fsum QcS (pAD QcS cf i) r - fsum QcS (pDN QcS dt cf i Amin) r)) = true) ->
  (sltb (sabs (fsum QcS (pBD QcS cf i) r)) eps = true \/
   (sltb eps (sabs (fsum QcS (pBD QcS cf i) r)) = true /\
    (dt = true -> sltb eps (sabs (fsum QcS (pBD QcS cf i) r - fsum QcS (pDP QcS dt cf i Amax) r)) = true) /\
    sltb s0 (lastd QcS i r s0) = true)) ->
  row_sum (rs_interp_row eps et dt cf cidx i r) = s1.
Proof.
  exact (C04_rs_row_sum_one QcS QcS_field MatOps2Proofs.Gersh.QcS_lt_irrefl MatOps2Proofs.Gersh.QcS_lt_trans
           MatOps2Proofs.Gersh.QcS_lt_total MatOps2Proofs.Gersh.QcS_lt_add MatOps2Proofs.Gersh.QcS_lt_mul
           QcS_abs_def eps et dt cf cidx i r).
Qed.
Print Assumptions C04_rs_row_sum_one_Qc.

(* the row of P the policy returns for a non-'C' variable is that interpolation row *)
Theorem C04_rs_row_of_P (S : Scalar) (eps et : S) dt (A : crs S) Sv cf P R i :
  rs_interp eps et dt A Sv cf = TrOk P R -> i < nrows A -> cfm_eqb (cfget cf i) CC = false ->
  nth i (rows P) [] = rs_interp_row eps et dt cf (fst (rs_cidx cf)) i (zip_row (nth i (rows A) []) (nth i Sv [])).
Proof. exact (rs_interp_row_nth eps et dt A Sv cf P R i). Qed.
Print Assumptions C04_rs_row_of_P.

(* instance: the witness of the former finding C04-rs-truncation-tie (entry exactly on the truncation
   threshold; fixed by /repo 241833b): the entry is dropped and the remaining weight rescaled *)
Theorem C04_rs_truncation_tie_rescaled :
  is_symmetric rs_tie_A = true /\
  match rs_cf (qc 1 4) rs_tie_A (no_junk rs_tie_A), rs_transfer (qc 1 4) (qc 1 2) true rs_tie_A (no_junk rs_tie_A) with
  | Some (Sv, cf), TrOk P R =>
      rs_row_applicable rs_tie_A Sv cf 2 = true /\
      length (nth 2 (rows P) []) = 1%nat /\
      seqb (row_sum (nth 2 (rows P) [])) (qc 1 1) = true /\
      rs_rowsum_ok true (qc 1 2) rs_tie_A Sv cf P = true
  | _, _ => False
  end.
Proof. exact rs_trunc_tie_rescaled. Qed.
Print Assumptions C04_rs_truncation_tie_rescaled.

(* non-vacuity: a concrete matrix with a vanishing aggregate exercises the renumbering branch *)
Example C04_nonvacuous_renumbering :
  let A : crs QcS := mkCrs 3 [[(0, qc 2 1); (1, qc (-1) 1)];
                              [(0, qc (-1) 1); (1, qc 2 1); (2, qc (-1) 1)];
                              [(1, qc (-1) 1); (2, qc 2 1)]]%nat in
  plain_aggregates (qc 1 16) A (repeat (qc 0 1) 3) = AggOk 1 [0; 0; 0]%Z [[false; true]; [true; false; true]; [true; false]].
Proof. vm_compute. reflexivity. Qed.

(* non-vacuity of the row-sum theorem: 1-D Neumann Laplacian on 3 points, every row qualifies *)
Example C04_sa_row_sum_nonvacuous :
  wf lap3 = true /\ ncols lap3 = nrows lap3 /\ struct_sym lap3 /\
  match plain_aggregates (qc 1 16) lap3 (repeat (qc 0 1) 3) with
  | AggOk count id st =>
      forallb (fun i => is_zero (row_sum (nth i (rows lap3) [])) && has_strong (nth i st []) && sa_row_regular lap3 st i) [0;1;2]%nat = true
  | _ => False
  end.
Proof. split; [reflexivity|]. split; [reflexivity|]. split; [exact lap3_struct_sym|]. vm_compute. reflexivity. Qed.

(* non-vacuity of the Ruge-Stuben row-sum theorem: row 2 of rs_tie_A (truncation active, an entry on the
   threshold) meets every guard *)
Example C04_rs_row_sum_nonvacuous :
  match rs_cf (qc 1 4) rs_tie_A (no_junk rs_tie_A) with
  | Some (Sv, cf) =>
      let r := zip_row (nth 2 (rows rs_tie_A) []) (nth 2 Sv []) in
      let Amin := fst (rs_minmax cf r) * qc 1 2 in
      let Amax := snd (rs_minmax cf r) * qc 1 2 in
      cfm_eqb (cfget cf 2) CC = false /\
      seqb (fsum QcS (fun _ => true) r) s0 = true /\
      seqb (fsum QcS (pDI QcS 2) r) (lastd QcS 2 r s0) = true /\
      sltb (rs_eps (S:=QcS)) (sabs (fsum QcS (pAD QcS cf 2) r)) = true /\
      sltb (rs_eps (S:=QcS)) (sabs (fsum QcS (pAD QcS cf 2) r - fsum QcS (pDN QcS true cf 2 Amin) r)) = true /\
      sltb (sabs (fsum QcS (pBD QcS cf 2) r)) (rs_eps (S:=QcS)) = true
  | None => False
  end.
Proof. vm_compute. repeat split; reflexivity. Qed.

(* ==================================================================== 6. near-null space with the PROVED QR
   (TentativeQr.v: the model of tentative_prolongation.hpp:165-205 calling detail::QR<double>::factorize in
   column-major order -- Qr.v, proved correct in QrMath*.v, C16).  The abstract QR oracle of section 2b is
   instantiated with the code that is really called. *)

(* the QR object is reused between aggregates (its vector q is resized, not cleared): the result does not
   depend on what it holds, hence not on how OpenMP distributes the aggregates over threads (any S) *)
Theorem C04_tentative_qr_schedule_independent (S : Scalar) bs cols naggr id (B : mat (S:=S)) (q0 : vec S) (qj : nat -> vec S) :
  tentative_prolongation_qr bs cols naggr id B q0 = tentative_prolongation_qr_any bs cols naggr id B qj.
Proof. exact (tentative_qr_schedule_independent bs cols naggr id B q0 qj). Qed.
Print Assumptions C04_tentative_qr_schedule_independent.

(* it is the oracle form of section 2b with the oracle qr_real (any S) *)
Theorem C04_tentative_qr_is_oracle_form (S : Scalar) bs cols naggr id (B : mat (S:=S)) (q0 : vec S) :
  tentative_prolongation_qr bs cols naggr id B q0 = tentative_prolongation_ns (qr_real cols) bs cols naggr id B.
Proof. exact (tentative_qr_is_oracle_form bs cols naggr id B q0). Qed.
Print Assumptions C04_tentative_qr_is_oracle_form.

(* hypotheses: those of C16_qr_factorize_correct (field, adjoint = identity, |x|^2 = x^2, a root and
   "y + x^2 = 0 => y = 0" on sums of squares); guard: every aggregate has at least [cols] rows, which the
   code enforces by passing min_aggregate = nullspace.cols to the aggregation (remove_small_aggregates) *)
Section NullSpaceQR.
Variable S : Scalar.
Hypothesis Sft : Sfield S.
Hypothesis Seqb : seqb_spec S.
Hypothesis Hadj : forall x : S, sadj x = x.
Hypothesis Habs : forall x : S, sabs x * sabs x = x * x.
Hypothesis Hsqrt : forall y : S, sos y -> ssqrt y * ssqrt y = y.
Hypothesis Hreal : forall y x : S, sos y -> y + x * x = s0 -> y = s0.

(* P_tent * B_coarse = B on aggregated rows: the supplied near-null-space vectors are reproduced exactly *)
Theorem C04_tentative_qr_reproduces (bs cols naggr : nat) (id : list Z) (B : mat (S:=S)) (q0 : vec S) k c :
  0 < cols -> c < cols -> k < length id -> (0 <= zget id k)%Z ->
  let i := Nat.div (Z.to_nat (zget id k)) bs in
  i < Nat.div naggr bs ->
  cols <= length (members bs id i) ->
  let PB := tentative_prolongation_qr bs cols naggr id B q0 in
  ns_apply S cols (snd PB) (nth k (rows (fst PB)) []) c = mentry B k c.
Proof. exact (tentative_qr_reproduces S Sft Seqb Hadj Habs Hsqrt Hreal bs cols naggr id B q0 k c). Qed.

(* P_tent^T P_tent = I: orthonormal columns *)
Theorem C04_tentative_qr_orthonormal (bs cols naggr : nat) (id : list Z) (B : mat (S:=S)) (q0 : vec S) :
  (forall i, i < Nat.div naggr bs -> cols <= length (members bs id i)) ->
  let P := fst (tentative_prolongation_qr bs cols naggr id B q0) in
  forall j1 j2, j1 < ncols P -> j2 < ncols P ->
    sumn (fun k => mget P k j1 * mget P k j2) (nrows P) = if Nat.eqb j1 j2 then s1 else s0.
Proof. exact (tentative_qr_orthonormal S Sft Seqb Hadj Habs Hsqrt Hreal bs cols naggr id B q0). Qed.

(* every cols x cols block of the coarse near-null space is upper triangular *)
Theorem C04_tentative_qr_coarse_upper (bs cols naggr : nat) (id : list Z) (B : mat (S:=S)) (q0 : vec S) :
  (forall i, i < Nat.div naggr bs -> cols <= length (members bs id i)) ->
  forall i r c, i < Nat.div naggr bs -> r < cols -> c < r ->
    mentry (nth i (snd (tentative_prolongation_qr bs cols naggr id B q0)) []) r c = s0.
Proof. exact (tentative_qr_coarse_upper S Sft Seqb Hadj Habs Hsqrt Hreal bs cols naggr id B q0). Qed.

(* the boolean oracles o.ns_exact evaluates on the implementation's (P, B_coarse) are implied by these theorems *)
Theorem C04_tentative_qr_oracles_complete (bs cols naggr : nat) (id : list Z) (B : mat (S:=S)) (q0 : vec S) :
  0 < cols ->
  (forall k, k < length id -> (0 <= zget id k)%Z -> Nat.div (Z.to_nat (zget id k)) bs < Nat.div naggr bs) ->
  (forall i, i < Nat.div naggr bs -> cols <= length (members bs id i)) ->
  let PB := tentative_prolongation_qr bs cols naggr id B q0 in
  ns_reproduces_ok cols id B (fst PB) (snd PB) = true /\ ns_orthonormal_ok (fst PB) = true.
Proof. exact (tentative_qr_oracles_complete S Sft Seqb Hadj Habs Hsqrt Hreal bs cols naggr id B q0). Qed.

(* the whole pipeline of transfer_operators() for block_size 1: aggregates computed with min_aggregate =
   nullspace.cols (remove_small_aggregates), then the tentative prolongation; no hypothesis on aggregate sizes left *)
Theorem C04_nullspace_pipeline_exact (eps2 : S) (cols : nat) (A : crs S) (junk : vec S) count id st (B : mat (S:=S)) (q0 : vec S) :
  0 < cols ->
  pointwise_aggregates eps2 1 cols A junk = AggOk count id st ->
  let PB := tentative_prolongation_qr 1 cols count id B q0 in
  let P := fst PB in
  nrows P = nrows A /\ ncols P = (cols * count)%nat /\
  (forall k c, k < nrows A -> (0 <= zget id k)%Z -> c < cols ->
     ns_apply S cols (snd PB) (nth k (rows P) []) c = mentry B k c) /\
  (forall j1 j2, j1 < ncols P -> j2 < ncols P ->
     sumn (fun k => mget P k j1 * mget P k j2) (nrows P) = if Nat.eqb j1 j2 then s1 else s0).
Proof. exact (nullspace_pipeline_exact S Sft Seqb Hadj Habs Hsqrt Hreal eps2 cols A junk count id st B q0). Qed.

(* transfer_operators() of plain aggregation WITH a near-null space (TentativeQrPolicies.v; fx = the tree has the
   repaired remove_small_aggregates, see below), block_size 1: R = P^T, P reproduces B and has orthonormal columns *)
Theorem C04_aggregation_ns_exact (fx : bool) (eps2 : S) (cols : nat) (A : crs S) (junk : vec S) (B : mat (S:=S)) (q0 : vec S) P R Bc :
  0 < cols ->
  aggregation_transfer_ns fx eps2 1 cols A junk B q0 = (TrOk P R, Bc) ->
  exists count id st,
    pointwise_aggregates eps2 1 cols A junk = AggOk count id st /\
    R = transpose P /\ nrows P = nrows A /\ ncols P = (cols * count)%nat /\
    (forall k c, k < nrows A -> (0 <= zget id k)%Z -> c < cols ->
       ns_apply S cols Bc (nth k (rows P) []) c = mentry B k c) /\
    (forall j1 j2, j1 < ncols P -> j2 < ncols P ->
       sumn (fun k => mget P k j1 * mget P k j2) (nrows P) = if Nat.eqb j1 j2 then s1 else s0).
Proof. exact (aggregation_ns_exact S Sft Seqb Hadj Habs Hsqrt Hreal fx eps2 cols A junk B q0 P R Bc). Qed.
End NullSpaceQR.

(* smoothed_aggr_emin on top of the near-null-space P_tent: the dense formulas hold (rows of that P_tent are
   strictly sorted; field with adjoint = id is all that is needed) *)
Theorem C04_emin_ns_formulas (S : Scalar) (Sft : Sfield S) (Hadj : forall x : S, sadj x = x)
        (fx : bool) nt (eps2 : S) (cols : nat) (A : crs S) (junk : vec S) (B : mat (S:=S)) (q0 : vec S) P R Bc :
  emin_transfer_ns fx nt eps2 1 cols A junk B q0 = (TrOk P R, Bc) ->
  exists count id st,
    pointwise_aggregates eps2 1 cols A junk = AggOk count id st /\
    (nt <= 16 -> wf A = true -> ncols A = nrows A -> emin_regular A st = true ->
     let Pt := fst (tentative_prolongation_qr 1 cols count id B q0) in
     forall i j, i < nrows A -> j < ncols Pt ->
       mget P i j = emin_P_spec A st Pt i j /\ mget R j i = emin_R_spec A st Pt j i).
Proof. exact (emin_ns_formulas S Sft Hadj fx nt eps2 cols A junk B q0 P R Bc). Qed.

(* remove_small_aggregates can delete EVERY aggregate and then returns count = 0 without error::empty_level
   (finding C03-empty-coarse-level-direct-solver-crash; repair: `if (!m) throw error::empty_level();`).
   pointwise_aggregates_fx fx = the behaviour without (fx = false) / with (fx = true) the repaired line: the same
   result whenever an aggregate survives, and with the repair a returned count is never 0 *)
Theorem C04_remove_small_repaired (S : Scalar) (fx : bool) (eps2 : S) bs mina (A : crs S) junk count id st :
  pointwise_aggregates_fx fx eps2 bs mina A junk = AggOk count id st ->
  pointwise_aggregates eps2 bs mina A junk = AggOk count id st /\ (fx = true -> 0 < count).
Proof. exact (pointwise_aggregates_fx_ok fx eps2 bs mina A junk count id st). Qed.
Print Assumptions C04_remove_small_repaired.

(* the guard itself (any S): with block_size 1, every aggregate pointwise_aggregates returns has at least
   max(1, min_aggregate) members, ids of aggregated rows are below count *)
Theorem C04_min_aggregate_guard (S : Scalar) (eps2 : S) (mina : nat) (A : crs S) (junk : vec S) count id st :
  pointwise_aggregates eps2 1 mina A junk = AggOk count id st ->
  length id = nrows A /\
  (forall k, k < length id -> (0 <= zget id k)%Z -> Nat.div (Z.to_nat (zget id k)) 1 < Nat.div count 1) /\
  forall i, i < Nat.div count 1 -> 1 <= length (members 1 id i) /\ mina <= length (members 1 id i).
Proof. exact (min_aggregate_guard eps2 mina A junk count id st). Qed.
Print Assumptions C04_min_aggregate_guard.

Theorem C04_nullspace_pipeline_exact_R (eps2 : RS) (cols : nat) (A : crs RS) (junk : vec RS) count id st (B : mat (S:=RS)) (q0 : vec RS) :
  0 < cols ->
  pointwise_aggregates eps2 1 cols A junk = AggOk count id st ->
  let PB := tentative_prolongation_qr 1 cols count id B q0 in
  let P := fst PB in
  nrows P = nrows A /\ ncols P = (cols * count)%nat /\
  (forall k c, k < nrows A -> (0 <= zget id k)%Z -> c < cols ->
     ns_apply RS cols (snd PB) (nth k (rows P) []) c = mentry B k c) /\
  (forall j1 j2, j1 < ncols P -> j2 < ncols P ->
     sumn (fun k => mget P k j1 * mget P k j2) (nrows P) = if Nat.eqb j1 j2 then s1 else s0).
Proof. exact (C04_nullspace_pipeline_exact RS RS_field RS_eqb RS_adj RS_abs RS_sqrt RS_real eps2 cols A junk count id st B q0). Qed.
Print Assumptions C04_nullspace_pipeline_exact_R.

(* the hypotheses are satisfiable: closed instances at the real numbers of the standard library with the
   true square root (the axioms of Reals are printed) *)
Theorem C04_tentative_qr_reproduces_R (bs cols naggr : nat) (id : list Z) (B : mat (S:=RS)) (q0 : vec RS) k c :
  0 < cols -> c < cols -> k < length id -> (0 <= zget id k)%Z ->
  let i := Nat.div (Z.to_nat (zget id k)) bs in
  i < Nat.div naggr bs ->
  cols <= length (members bs id i) ->
  let PB := tentative_prolongation_qr bs cols naggr id B q0 in
  ns_apply RS cols (snd PB) (nth k (rows (fst PB)) []) c = mentry B k c.
Proof. exact (tentative_qr_reproduces_R bs cols naggr id B q0 k c). Qed.
Print Assumptions C04_tentative_qr_reproduces_R.

Theorem C04_tentative_qr_orthonormal_R (bs cols naggr : nat) (id : list Z) (B : mat (S:=RS)) (q0 : vec RS) :
  (forall i, i < Nat.div naggr bs -> cols <= length (members bs id i)) ->
  let P := fst (tentative_prolongation_qr bs cols naggr id B q0) in
  forall j1 j2, j1 < ncols P -> j2 < ncols P ->
    sumn (fun k => mget P k j1 * mget P k j2) (nrows P) = if Nat.eqb j1 j2 then s1 else s0.
Proof. exact (tentative_qr_orthonormal_R bs cols naggr id B q0). Qed.
Print Assumptions C04_tentative_qr_orthonormal_R.

(* non-vacuity over the exact rationals: two aggregates of three rows, one removed row, two near-null-space
   vectors with perfect-square norms (the pseudo-root of QcS is exact on them): every aggregate is large
   enough, P * B_coarse = B, P^T P = I, 4 coarse columns, the removed row of P is empty *)
Example C04_tentative_qr_nonvacuous : ns_ex_check = true.
Proof. exact ns_ex_check_true. Qed.

(* ==================================================================== 7. smoothed_aggr_emin: the dense formulas
   (EminProofs.v, EminProofs2.v).  Full statement of section 3b, now proved for the model:
     Omega_j = <(A_F P_t)_j, (A_F D^-1 A_F P_t)_j> / <(A_F D^-1 A_F P_t)_j, (A_F D^-1 A_F P_t)_j>
     P = P_t - D^-1 A_F P_t Omega,   R = P_t^T - Omega P_t^T A_F D^-1
   (emin_P_spec / emin_R_spec of Coarsen.v) for EVERY P_t with strictly sorted rows and EVERY flag array,
   under the guards the code relies on: every row of A stores its diagonal exactly once and the flags cover
   the row (emin_regular: otherwise the comment "if P(i,j) != 0 then AP(i,j) != 0" in the source is false and
   entries of P_t are lost), adjoint = identity, product() in its spgemm_saad branch (<= 16 threads).
   Only ring laws are used about 1/x. *)
Section EminField.
Variable S : Scalar.
Hypothesis Sft : Sfield S.
Hypothesis Seqb : seqb_spec S.
Hypothesis Hadj : forall x : S, sadj x = x.

Theorem C04_emin_formulas nt (A : crs S) (st : flags) (Pt : crs S) :
  nt <= 16 -> wf A = true -> ncols A = nrows A -> emin_regular A st = true ->
  nrows Pt = nrows A -> forallb sorted_strict (rows Pt) = true ->
  let fd := emin_filter A st in
  let po := emin_interpolation nt (fst fd) (snd fd) Pt in
  let P := fst po in
  let R := emin_restriction nt (fst fd) (snd fd) Pt (snd po) in
  forall i j, i < nrows A -> j < ncols Pt ->
    mget P i j = emin_P_spec A st Pt i j /\ mget R j i = emin_R_spec A st Pt j i.
Proof. exact (emin_formulas_hold S Sft Hadj nt A st Pt). Qed.

(* transfer_operators() of the policy, block_size = 1 *)
Theorem C04_emin_transfer_formulas nt (eps2 : S) (A : crs S) junk P R :
  emin_transfer nt eps2 1 A junk = TrOk P R ->
  exists count id st,
    plain_aggregates eps2 A junk = AggOk count id st /\
    (nt <= 16 -> wf A = true -> ncols A = nrows A -> emin_regular A st = true ->
     let Pt := tentative_prolongation count id in
     forall i j, i < nrows A -> j < count ->
       mget P i j = emin_P_spec A st Pt i j /\ mget R j i = emin_R_spec A st Pt j i).
Proof. exact (emin_transfer_formulas_scalar S Sft Hadj nt eps2 A junk P R). Qed.

(* any block_size *)
Theorem C04_emin_transfer_formulas_block nt (eps2 : S) bs (A : crs S) junk P R :
  emin_transfer nt eps2 bs A junk = TrOk P R ->
  exists count id st,
    pointwise_aggregates eps2 bs 0 A junk = AggOk count id st /\
    (nt <= 16 -> wf A = true -> ncols A = nrows A -> emin_regular A st = true -> length id = nrows A ->
     let Pt := tentative_prolongation count id in
     forall i j, i < nrows A -> j < count ->
       mget P i j = emin_P_spec A st Pt i j /\ mget R j i = emin_R_spec A st Pt j i).
Proof. exact (emin_transfer_formulas S Sft Hadj nt eps2 bs A junk P R). Qed.

(* the boolean oracle o.emin_formula evaluated on the implementation's (P, R) is implied by the formulas:
   what the harness checks on the real code is the statement proved for the model *)
Theorem C04_emin_oracle_complete nt (A : crs S) (st : flags) (Pt : crs S) :
  nt <= 16 -> wf A = true -> ncols A = nrows A ->
  nrows Pt = nrows A -> forallb sorted_strict (rows Pt) = true ->
  let fd := emin_filter A st in
  let po := emin_interpolation nt (fst fd) (snd fd) Pt in
  emin_formula_ok A st Pt (fst po) (emin_restriction nt (fst fd) (snd fd) Pt (snd po)) = true.
Proof. exact (emin_oracle_complete S Sft Seqb Hadj nt A st Pt). Qed.
End EminField.

Theorem C04_emin_transfer_formulas_Qc nt (eps2 : QcS) (A : crs QcS) junk P R :
  emin_transfer nt eps2 1 A junk = TrOk P R ->
  exists count id st,
    plain_aggregates eps2 A junk = AggOk count id st /\
    (nt <= 16 -> wf A = true -> ncols A = nrows A -> emin_regular A st = true ->
     let Pt := tentative_prolongation count id in
     forall i j, i < nrows A -> j < count ->
       mget P i j = emin_P_spec A st Pt i j /\ mget R j i = emin_R_spec A st Pt j i).
Proof. exact (C04_emin_transfer_formulas QcS QcS_field (fun x => eq_refl) nt eps2 A junk P R). Qed.
Print Assumptions C04_emin_transfer_formulas_Qc.

(* non-vacuity: the 1-D Neumann Laplacian on 3 points is regular, the policy returns P and R *)
Example C04_emin_nonvacuous :
  match pointwise_aggregates (qc 1 16) 1 0 lap3 (repeat (qc 0 1) 3), emin_transfer 1 (qc 1 16) 1 lap3 (repeat (qc 0 1) 3) with
  | AggOk count id st, TrOk P R => wf lap3 = true /\ emin_regular lap3 st = true /\ count = 1 /\ nrows P = 3
  | _, _ => False
  end.
Proof. vm_compute. repeat split; reflexivity. Qed.

(* ==================================================================== 8. triage: "smoothed_aggr_emin returns P == 0"
   It is what the formula demands, not a defect of the transfer operators: if column j of P_t is an eigenvector
   of D^-1 A_F (A_F P_t e_j = lambda D P_t e_j), the minimising damping is omega_j = 1/lambda and column j of
   P = P_t - D^-1 A_F P_t Omega is zero (zero energy: the minimiser).  Consequence outside C04: the Galerkin
   operator of that level has a zero row/column; in binary64 Gauss-Seidel / SPAI-0 on it give NaN and
   skyline_lu throws "Zero diagonal" (reproduced on the real code: 1-D Poisson on 2 points, coarse_enough = 1) --
   a counterexample to the contraction clause of C02 for this coarsening, see the meta note. *)
Section EminEigenvector.
Variable S : Scalar.
Hypothesis Sft : Sfield S.
Theorem C04_emin_eigenvector_column_vanishes (A : crs S) (st : flags) (Pt : crs S) (j : nat) (lambda : S) :
  (forall i, i < nrows A -> emin_AP A st Pt i j = lambda * sa_D A st i * mget Pt i j) ->
  (forall k, k < nrows A -> sa_D A st k <> s0) ->
  lambda <> s0 ->
  sumn (fun i => (sa_D A st i * mget Pt i j) * (sa_D A st i * mget Pt i j)) (nrows A) <> s0 ->
  (forall i, i < nrows A -> emin_ADAP A st Pt i j = lambda * emin_AP A st Pt i j) /\
  emin_omega_spec A st Pt j = sinv lambda /\
  (forall i, i < nrows A -> emin_P_spec A st Pt i j = s0).
Proof. exact (emin_eigen_column_vanishes S Sft A st Pt j lambda). Qed.
End EminEigenvector.

(* the smallest witness, 1-D Poisson on two points: P = 0, R = 0, coarse operator = the 1 x 1 zero matrix *)
Theorem C04_emin_poisson2_P_zero :
  match emin_transfer 1 (qc 1 16) 1 poisson1d_2 (repeat (qc 0 1) 2) with
  | TrOk P R =>
      nrows P = 2%nat /\ ncols P = 1%nat /\ is_zero_crs P = true /\ is_zero_crs R = true /\
      is_zero_crs (emin_coarse 1 poisson1d_2 P R) = true /\ nrows (emin_coarse 1 poisson1d_2 P R) = 1%nat
  | _ => False
  end.
Proof. exact emin_poisson2_zero. Qed.
Print Assumptions C04_emin_poisson2_P_zero.

(* the hypotheses of the eigenvector theorem hold there with lambda = 1/2 *)
Example C04_emin_eigenvector_nonvacuous :
  match plain_aggregates (qc 1 16) poisson1d_2 (repeat (qc 0 1) 2) with
  | AggOk count id st =>
      let Pt := tentative_prolongation (S:=QcS) count id in
      count = 1%nat /\
      forallb (fun i => seqb (emin_AP poisson1d_2 st Pt i 0) (qc 1 2 * sa_D poisson1d_2 st i * mget Pt i 0)
                        && negb (is_zero (sa_D poisson1d_2 st i))) [0; 1]%nat = true
  | _ => False
  end.
Proof. vm_compute. split; reflexivity. Qed.

(* ==================================================================== 9. smoothed_aggr_emin: the full statement of
   section 3b in layers and for every thread count (EminProofs2b.v, EminProofs2c.v).
   Guards (the ones the code needs): column indices in range and A square (wf), every row stores its diagonal
   exactly once and the strength flags cover the row (emin_regular), P_t has strictly sorted rows (true of
   tentative_prolongation: at most one entry per row), adjoint = identity (real scalars), and -- only when
   backend::product() takes its spgemm_rmerge branch, i.e. more than 16 threads -- strictly sorted rows of A
   (rmerge merges the rows of its right operand).  Only ring laws + x / y = x * inverse(y) are used: inverse(0)
   is whatever the value type returns.
     Omega:  omega[] returned by interpolation() has ncols(P_t) entries and
             omega[j] = num_j / den_j,  num_j = sum_i AP(i,j) ADAP(i,j),  den_j = sum_i ADAP(i,j)^2
             (AP = A_F P_t, ADAP = A_F D^-1 A_F P_t: the sums the code accumulates in omega[] and denum[]);
             the code has NO guard on den_j: den_j = 0  =>  omega[j] = inverse(0) * num_j.
     P, R:   the dense formulas with that Omega. *)
From Amgcl Require Import EminProofs2b EminProofs2c.

Section EminFull.
Variable S : Scalar.
Hypothesis Sft : Sfield S.
Hypothesis Hadj : forall x : S, sadj x = x.

(* layer 1, Omega *)
Theorem C04_emin_omega_quotient nt (A : crs S) (st : flags) (Pt : crs S) :
  (16 < nt -> forallb sorted_strict (rows A) = true) ->
  wf A = true -> ncols A = nrows A -> emin_regular A st = true ->
  nrows Pt = nrows A -> forallb sorted_strict (rows Pt) = true ->
  let fd := emin_filter A st in
  let omega := snd (emin_interpolation nt (fst fd) (snd fd) Pt) in
  length omega = ncols Pt /\
  forall j, j < ncols Pt ->
    vget omega j = emin_num S A st Pt j / emin_den S A st Pt j /\
    (emin_den S A st Pt j = s0 -> vget omega j = sinv s0 * emin_num S A st Pt j).
Proof. exact (emin_omega_quotient S Sft Hadj nt A st Pt). Qed.

(* layer 2, P given Omega (<= 16 threads; any thread count follows with C04_emin_threads) *)
Theorem C04_emin_P_given_omega nt (A : crs S) (st : flags) (Pt : crs S) :
  nt <= 16 -> wf A = true -> ncols A = nrows A -> emin_regular A st = true ->
  nrows Pt = nrows A -> forallb sorted_strict (rows Pt) = true ->
  let fd := emin_filter A st in
  let po := emin_interpolation nt (fst fd) (snd fd) Pt in
  forall i j, i < nrows A -> j < ncols Pt ->
    mget (fst po) i j = mget Pt i j - sinv (sa_D A st i) * emin_AP A st Pt i j * vget (snd po) j.
Proof. exact (emin_P_given_omega S Sft nt A st Pt). Qed.

(* layer 3, R given Omega: for EVERY vector w handed to restriction() *)
Theorem C04_emin_R_given_omega nt (A : crs S) (st : flags) (Pt : crs S) :
  nt <= 16 -> wf A = true -> ncols A = nrows A -> emin_regular A st = true ->
  nrows Pt = nrows A -> forallb sorted_strict (rows Pt) = true ->
  let fd := emin_filter A st in
  forall (w : vec S) j i, j < ncols Pt -> i < nrows A ->
    mget (emin_restriction nt (fst fd) (snd fd) Pt w) j i
    = mget Pt i j - vget w j * emin_RA A st Pt j i * sinv (sa_D A st i).
Proof. exact (emin_R_given_any_omega S Sft Hadj nt A st Pt). Qed.

(* the thread count does not matter: spgemm_rmerge (> 16 threads) and spgemm_saad + sort build the same crs
   when the rows of the right operand are strictly sorted; so do interpolation(), restriction(), transfer_operators() *)
Theorem C04_product_sorted_threads nt nt' (A B : crs S) : forallb sorted_strict (rows B) = true ->
  product nt A B true = product nt' A B true.
Proof. exact (product_sorted_threads S (F_R Sft) nt nt' A B). Qed.

Theorem C04_emin_threads nt nt' (eps2 : S) bs (A : crs S) junk :
  forallb sorted_strict (rows A) = true ->
  emin_transfer nt eps2 bs A junk = emin_transfer nt' eps2 bs A junk.
Proof. exact (emin_transfer_threads S Sft nt nt' eps2 bs A junk). Qed.

(* all layers, every thread count *)
Theorem C04_emin_full_statement nt (A : crs S) (st : flags) (Pt : crs S) :
  (16 < nt -> forallb sorted_strict (rows A) = true) ->
  wf A = true -> ncols A = nrows A -> emin_regular A st = true ->
  nrows Pt = nrows A -> forallb sorted_strict (rows Pt) = true ->
  let fd := emin_filter A st in
  let po := emin_interpolation nt (fst fd) (snd fd) Pt in
  let P := fst po in
  let R := emin_restriction nt (fst fd) (snd fd) Pt (snd po) in
  length (snd po) = ncols Pt /\
  (forall j, j < ncols Pt ->
     vget (snd po) j = emin_num S A st Pt j / emin_den S A st Pt j /\
     (emin_den S A st Pt j = s0 -> vget (snd po) j = sinv s0 * emin_num S A st Pt j)) /\
  (forall i j, i < nrows A -> j < ncols Pt ->
     mget P i j = emin_P_spec A st Pt i j /\ mget R j i = emin_R_spec A st Pt j i).
Proof. exact (emin_full_statement S Sft Hadj nt A st Pt). Qed.

(* transfer_operators() of the policy, any block_size, every thread count *)
Theorem C04_emin_transfer_full nt (eps2 : S) bs (A : crs S) junk P R :
  emin_transfer nt eps2 bs A junk = TrOk P R ->
  exists count id st,
    pointwise_aggregates eps2 bs 0 A junk = AggOk count id st /\
    ((16 < nt -> forallb sorted_strict (rows A) = true) ->
     wf A = true -> ncols A = nrows A -> emin_regular A st = true -> length id = nrows A ->
     let Pt := tentative_prolongation count id in
     forall i j, i < nrows A -> j < count ->
       mget P i j = emin_P_spec A st Pt i j /\ mget R j i = emin_R_spec A st Pt j i).
Proof. exact (emin_transfer_full S Sft Hadj nt eps2 bs A junk P R). Qed.
End EminFull.

(* closed at the exact rationals *)
Theorem C04_emin_full_statement_Qc nt (A : crs QcS) (st : flags) (Pt : crs QcS) :
  (16 < nt -> forallb sorted_strict (rows A) = true) ->
  wf A = true -> ncols A = nrows A -> emin_regular A st = true ->
  nrows Pt = nrows A -> forallb sorted_strict (rows Pt) = true ->
  let fd := emin_filter A st in
  let po := emin_interpolation nt (fst fd) (snd fd) Pt in
  let P := fst po in
  let R := emin_restriction nt (fst fd) (snd fd) Pt (snd po) in
  length (snd po) = ncols Pt /\
  (forall j, j < ncols Pt ->
     vget (snd po) j = emin_num QcS A st Pt j / emin_den QcS A st Pt j /\
     (emin_den QcS A st Pt j = s0 -> vget (snd po) j = sinv s0 * emin_num QcS A st Pt j)) /\
  (forall i j, i < nrows A -> j < ncols Pt ->
     mget P i j = emin_P_spec A st Pt i j /\ mget R j i = emin_R_spec A st Pt j i).
Proof. exact (C04_emin_full_statement QcS QcS_field (fun x => eq_refl) nt A st Pt). Qed.
Print Assumptions C04_emin_full_statement_Qc.

Theorem C04_emin_transfer_full_Qc nt (eps2 : QcS) bs (A : crs QcS) junk P R :
  emin_transfer nt eps2 bs A junk = TrOk P R ->
  exists count id st,
    pointwise_aggregates eps2 bs 0 A junk = AggOk count id st /\
    ((16 < nt -> forallb sorted_strict (rows A) = true) ->
     wf A = true -> ncols A = nrows A -> emin_regular A st = true -> length id = nrows A ->
     let Pt := tentative_prolongation count id in
     forall i j, i < nrows A -> j < count ->
       mget P i j = emin_P_spec A st Pt i j /\ mget R j i = emin_R_spec A st Pt j i).
Proof. exact (C04_emin_transfer_full QcS QcS_field (fun x => eq_refl) nt eps2 bs A junk P R). Qed.
Print Assumptions C04_emin_transfer_full_Qc.

Theorem C04_emin_threads_Qc nt nt' (eps2 : QcS) bs (A : crs QcS) junk :
  forallb sorted_strict (rows A) = true ->
  emin_transfer nt eps2 bs A junk = emin_transfer nt' eps2 bs A junk.
Proof. exact (C04_emin_threads QcS QcS_field nt nt' eps2 bs A junk). Qed.
Print Assumptions C04_emin_threads_Qc.

(* a zero denominator at the exact rationals (an ordered field with inverse(0) = 0): den_j = 0 exactly when
   column j of A_F D^-1 A_F P_t vanishes; then num_j = 0 as well, the code computes Omega_j = inverse(0) * 0 = 0,
   and column j of P / row j of R are the unsmoothed column of P_t / row of P_t^T.
   (In binary64 the same expression is inf * 0 = NaN: outside the exact model, see the meta note.) *)
Theorem C04_emin_zero_denominator_Qc nt (A : crs QcS) (st : flags) (Pt : crs QcS) :
  (16 < nt -> forallb sorted_strict (rows A) = true) ->
  wf A = true -> ncols A = nrows A -> emin_regular A st = true ->
  nrows Pt = nrows A -> forallb sorted_strict (rows Pt) = true ->
  forall j, j < ncols Pt -> emin_den QcS A st Pt j = s0 ->
  let fd := emin_filter A st in
  let po := emin_interpolation nt (fst fd) (snd fd) Pt in
  let R := emin_restriction nt (fst fd) (snd fd) Pt (snd po) in
  (forall i, i < nrows A -> emin_ADAP A st Pt i j = s0) /\
  emin_num QcS A st Pt j = s0 /\ vget (snd po) j = s0 /\
  forall i, i < nrows A -> mget (fst po) i j = mget Pt i j /\ mget R j i = mget Pt i j.
Proof. exact (emin_zero_den_Qc_threads nt A st Pt). Qed.
Print Assumptions C04_emin_zero_denominator_Qc.

(* non-vacuity, non-trivial Omega: 1-D Poisson on 5 points (EminProofs2c.pois5), eps_strong^2 = 1/16: all guards
   hold, two aggregates {0,1} {2,3,4}, the accumulated sums are omega[] = (3, 4), denum[] = (15/4, 27/4), the
   returned vector is Omega = (4/5, 16/27), P <> P_t, the dense formulas hold (oracle emin_formula_ok), and the
   17-thread build (spgemm_rmerge) returns the same P, Omega, R *)
Example C04_emin_full_nonvacuous :
  match plain_aggregates (qc 1 16) pois5 (repeat (qc 0 1) 5) with
  | AggOk count id st =>
      let Pt := tentative_prolongation (S:=QcS) count id in
      let fd := emin_filter pois5 st in
      let po := emin_interpolation 1 (fst fd) (snd fd) Pt in
      let R := emin_restriction 1 (fst fd) (snd fd) Pt (snd po) in
      let po17 := emin_interpolation 17 (fst fd) (snd fd) Pt in
      wf pois5 && Nat.eqb (ncols pois5) (nrows pois5) && emin_regular pois5 st && forallb sorted_strict (rows pois5)
      && Nat.eqb count 2
      && vec_eqb (map (emin_num QcS pois5 st Pt) [0; 1]%nat) [qc 3 1; qc 4 1]
      && vec_eqb (map (emin_den QcS pois5 st Pt) [0; 1]%nat) [qc 15 4; qc 27 4]
      && vec_eqb (snd po) [qc 4 5; qc 16 27]
      && emin_formula_ok pois5 st Pt (fst po) R
      && negb (crs_eqb (fst po) Pt)
      && crs_eqb (fst po17) (fst po) && vec_eqb (snd po17) (snd po)
      && crs_eqb (emin_restriction 17 (fst fd) (snd fd) Pt (snd po17)) R = true
  | _ => False
  end.
Proof. vm_compute. reflexivity. Qed.

(* non-vacuity of the zero-denominator theorem: 1-D Neumann Laplacian on 3 points, one aggregate:
   den_0 = num_0 = 0, Omega_0 = 0, P = P_t *)
Example C04_emin_zero_denominator_nonvacuous : emin_lap3_zero_den_check = true.
Proof. exact emin_lap3_zero_den_check_true. Qed.
