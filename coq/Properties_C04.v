(* Properties_C04.v -- C04: interpolation is exact on the near-null space; aggregates partition
   the grid.  Statements only; proofs live in CoarsenProofs.v.
   "any S": holds for every Scalar record (no algebraic law used; floats with NaN included);
   "ring"/"field": Section hypotheses, closed at Qc below.
   Models: Aggregates.v (plain_aggregates, pointwise_aggregates as coded), Tentative.v,
   Coarsen.v (aggregation, smoothed_aggregation, ruge_stuben as coded). *)
From Amgcl Require Import Scalar QcInst Vec Crs Kernels MatOps MatOps2 Aggregates Tentative Coarsen CoarsenProofs.
Local Open Scope S_scope.

(* ---------------------------------------------------------------- 1. plain_aggregates (any S)
   partition_spec n count id st :=
     length id = n /\
     (forall i < n, id i = removed \/ 0 <= id i < count) /\           ids are in range
     (forall k < count, exists i < n, id i = k) /\                     every aggregate is non-empty:
                                                                       contiguous numbering 0..count-1
                                                                       (the cnt/partial_sum renumbering)
     (forall i < n, 0 <= id i <-> row i has a strong connection)       isolated <-> removed          *)
Theorem C04_plain_aggregates_partition (S : Scalar) eps2 (A : crs S) junk count id st :
  plain_aggregates eps2 A junk = AggOk count id st ->
  0 < count /\ st = strong_connections eps2 A junk /\ partition_spec (nrows A) count id st.
Proof. exact (plain_aggregates_partition eps2 A junk count id st). Qed.
Print Assumptions C04_plain_aggregates_partition.

(* count = 0 => throw empty_level; it happens exactly when no row has a strong connection *)
Theorem C04_plain_aggregates_empty_level (S : Scalar) eps2 (A : crs S) junk :
  plain_aggregates eps2 A junk = AggEmpty <->
  (forall i, i < nrows A -> has_strong (nth i (strong_connections eps2 A junk) []) = false).
Proof. exact (plain_aggregates_empty eps2 A junk). Qed.
Print Assumptions C04_plain_aggregates_empty_level.

(* the boolean oracle evaluated on the implementation's (count, id, strong_connection) is implied by
   the specification: what the harness checks on the real code is the statement proved for the model *)
Theorem C04_partition_oracle_complete (S : Scalar) eps2 (A : crs S) junk count id st :
  plain_aggregates eps2 A junk = AggOk count id st -> partition_ok count id st = true.
Proof. exact (partition_oracle_complete eps2 A junk count id st). Qed.
Print Assumptions C04_partition_oracle_complete.

(* the renumbering pass alone, for ANY valid intermediate state of the greedy pass *)
Theorem C04_renumbering (n count : nat) (id : list Z) (st : flags) : 0 < count ->
  length id = n ->
  (forall i, i < n -> zget id i = removed \/ (0 <= zget id i < Z.of_nat count)%Z) ->
  (forall i, i < n -> (zget id i = removed <-> has_strong (nth i st []) = false)) ->
  partition_spec n (snd (renumber id count)) (fst (renumber id count)) st.
Proof. exact (renumber_spec n count id st). Qed.
Print Assumptions C04_renumbering.

(* ---------------------------------------------------------------- 2. tentative prolongation, no null space *)
(* one unit entry per aggregated row at column id(i), empty row for removed rows (any S) *)
Theorem C04_tentative_structure (S : Scalar) naggr (id : list Z) i :
  nrows (tentative_prolongation (S:=S) naggr id) = length id /\
  nth i (rows (tentative_prolongation (S:=S) naggr id)) [] =
    (if Z.leb 0 (zget id i) then [(Z.to_nat (zget id i), s1)] else []).
Proof. split; [exact (tentative_nrows naggr id) | exact (tentative_row_nth naggr id i)]. Qed.
Print Assumptions C04_tentative_structure.

(* disjoint supports (any S): a row has a non-zero in at most one column *)
Theorem C04_tentative_disjoint_supports (S : Scalar) naggr (id : list Z) i j1 j2 :
  mget (tentative_prolongation (S:=S) naggr id) i j1 <> s0 ->
  mget (tentative_prolongation (S:=S) naggr id) i j2 <> s0 -> j1 = j2.
Proof. exact (tentative_disjoint naggr id i j1 j2). Qed.
Print Assumptions C04_tentative_disjoint_supports.

Section Ring.
Variable S : Scalar.
Hypothesis Srt : Sring S.

(* P_tent * 1 = 1 on aggregated rows, 0 on removed rows *)
Theorem C04_tentative_reproduces_constant naggr (id : list Z) i :
  ((0 <= zget id i < Z.of_nat naggr)%Z ->
     dotrow (nth i (rows (tentative_prolongation (S:=S) naggr id)) []) (repeat s1 naggr) = s1) /\
  ((zget id i < 0)%Z ->
     dotrow (nth i (rows (tentative_prolongation (S:=S) naggr id)) []) (repeat s1 naggr) = s0).
Proof.
  split; [exact (tentative_times_one S Srt naggr id i)
         | exact (tentative_times_one_removed S naggr id i (repeat s1 naggr))].
Qed.

(* the dense entry at (i, id i) is 1 *)
Theorem C04_tentative_unit_entry naggr (id : list Z) i : (0 <= zget id i)%Z ->
  mget (tentative_prolongation (S:=S) naggr id) i (Z.to_nat (zget id i)) = s1.
Proof. exact (tentative_mget_on S Srt naggr id i). Qed.

(* columns are mutually orthogonal *)
Theorem C04_tentative_columns_orthogonal naggr (id : list Z) j1 j2 : j1 <> j2 ->
  sumn (fun i => mget (tentative_prolongation (S:=S) naggr id) i j1 *
                 mget (tentative_prolongation (S:=S) naggr id) i j2) (length id) = s0.
Proof. exact (tentative_orthogonal S Srt naggr id j1 j2). Qed.
End Ring.

Theorem C04_tentative_reproduces_constant_Qc naggr (id : list Z) i : (0 <= zget id i < Z.of_nat naggr)%Z ->
  dotrow (nth i (rows (tentative_prolongation (S:=QcS) naggr id)) []) (repeat s1 naggr) = s1.
Proof. exact (proj1 (C04_tentative_reproduces_constant QcS QcS_ring naggr id i)). Qed.
Print Assumptions C04_tentative_reproduces_constant_Qc.

Theorem C04_tentative_columns_orthogonal_Qc naggr (id : list Z) j1 j2 : j1 <> j2 ->
  sumn (fun i => mget (tentative_prolongation (S:=QcS) naggr id) i j1 *
                 mget (tentative_prolongation (S:=QcS) naggr id) i j2) (length id) = s0.
Proof. exact (C04_tentative_columns_orthogonal QcS QcS_ring naggr id j1 j2). Qed.
Print Assumptions C04_tentative_columns_orthogonal_Qc.

(* ---------------------------------------------------------------- 2b. tentative prolongation WITH a near-null space,
   relative to a QR oracle (amgcl/detail/qr.hpp is hard-wired to double: not modelled).  If the factors
   the oracle returns for the aggregate of row k satisfy Q R = B_aggr (column c), then
   (P_tent * B_coarse)[k][c] = B[k][c]: the supplied near-null-space vectors are reproduced exactly on
   aggregated rows.  B_coarse = the R factors stacked (ns_apply / bnew_entry).
   On the implementation this variant is TESTED (oracle o.tentative_ns in the double build), not tied
   exactly. *)
Section RingNS.
Variable S : Scalar.
Hypothesis Srt : Sring S.
Variable qr : mat (S:=S) -> mat (S:=S) * mat (S:=S).
Theorem C04_tentative_nullspace_reproduces (bs cols naggr : nat) (id : list Z) (B : mat (S:=S)) k c :
  0 < cols -> k < length id -> (0 <= zget id k)%Z ->
  let i := Nat.div (Z.to_nat (zget id k)) bs in
  let mem := members bs id i in
  let QR := qr (map (mrow B) mem) in
  i < Nat.div naggr bs ->
  (forall ii, ii < length mem ->
     sumn (fun jj => mentry (fst QR) ii jj * mentry (snd QR) jj c) cols = mentry B (nth ii mem 0%nat) c) ->
  let PB := tentative_prolongation_ns qr bs cols naggr id B in
  ns_apply S cols (snd PB) (nth k (rows (fst PB)) []) c = mentry B k c.
Proof. exact (tentative_ns_reproduces S Srt qr bs cols naggr id B k c). Qed.
End RingNS.

(* ---------------------------------------------------------------- 3. smoothed aggregation formula (field)
   dense P = (I - omega D^-1 A_F) dense P_tent, row by row:
     sa_formula omega A st Pt i j = sum_{k < n} sa_M i k * Pt[k][j],
     sa_M i k  = delta_ik - omega * D_i^-1 * A_F[i][k],
     A_F[i][k] = sum of the STRONG stored entries (i,k) for k <> i,  A_F[i][i] = D_i,
     D_i       = a_ii + sum of the WEAK off-diagonal entries of row i (what the code lumps into [dia]).
   Guards the code needs (sa_row_regular): D_i <> 0 (the code tests is_zero(dia) and then leaves the
   off-diagonal part out), exactly one stored diagonal entry in row i, flags cover the row.
   Holds for ANY flags [st] and ANY P_tent (so also for the near-null-space variant and for the
   flags pointwise_aggregates produces). *)
Section Field.
Variable S : Scalar.
Hypothesis Sft : Sfield S.
Hypothesis Seqb : seqb_spec S.

Theorem C04_sa_formula (omega : S) (A : crs S) (st : flags) (Pt : crs S) i j :
  wf A = true -> ncols A = nrows A -> i < nrows A ->
  sa_row_regular A st i = true ->
  mget (sa_smooth omega A st Pt) i j = sa_formula omega A st Pt i j.
Proof. exact (sa_formula_holds S Sft Seqb omega A st Pt i j). Qed.
End Field.

Theorem C04_sa_formula_Qc (omega : QcS) (A : crs QcS) (st : flags) (Pt : crs QcS) i j :
  wf A = true -> ncols A = nrows A -> i < nrows A ->
  sa_row_regular A st i = true ->
  mget (sa_smooth omega A st Pt) i j = sa_formula omega A st Pt i j.
Proof. exact (C04_sa_formula QcS QcS_field QcS_eqb omega A st Pt i j). Qed.
Print Assumptions C04_sa_formula_Qc.

(* omega as coded: relax * static_cast<scalar>(2.0/3), resp. relax * (static_cast<scalar>(4.0/3) / rho) *)
Theorem C04_sa_transfer_is_smoothing (S : Scalar) (eps2 relax c23 : S) bs (A : crs S) junk P R :
  sa_transfer eps2 relax c23 bs A junk = TrOk P R ->
  exists count id st, pointwise_aggregates eps2 bs 0 A junk = AggOk count id st /\
    P = sa_smooth (relax * c23) A st (tentative_prolongation count id) /\ R = transpose P.
Proof. exact (sa_transfer_is_smoothing eps2 relax c23 bs A junk P R). Qed.
Print Assumptions C04_sa_transfer_is_smoothing.

(* ---------------------------------------------------------------- 4a. smoothed aggregation row sums (field)
   struct_sym A: every stored entry (i,c,v) has a stored mirror entry (c,i,v) (symmetric matrices
   without duplicate or one-sided explicit-zero entries).  A zero-row-sum row with a strong
   neighbour (and the guards of the formula: D_i <> 0, one stored diagonal entry) is interpolated
   with weights that sum to one -- no order axioms are needed: the strength test of the mirror entry
   compares the same two ring elements. *)
Section FieldRowSum.
Variable S : Scalar.
Hypothesis Sft : Sfield S.
Hypothesis Seqb : seqb_spec S.
Theorem C04_sa_row_sum_one (eps2 omega : S) (A : crs S) junk count id st i :
  wf A = true -> ncols A = nrows A -> i < nrows A ->
  plain_aggregates eps2 A junk = AggOk count id st ->
  struct_sym A ->
  row_sum (nth i (rows A) []) = s0 ->
  has_strong (nth i st []) = true ->
  sa_row_regular A st i = true ->
  row_sum (nth i (rows (sa_smooth omega A st (tentative_prolongation count id))) []) = s1.
Proof. exact (sa_row_sum_one S Sft Seqb eps2 omega A junk count id st i). Qed.
End FieldRowSum.

Theorem C04_sa_row_sum_one_Qc (eps2 omega : QcS) (A : crs QcS) junk count id st i :
  wf A = true -> ncols A = nrows A -> i < nrows A ->
  plain_aggregates eps2 A junk = AggOk count id st ->
  struct_sym A ->
  row_sum (nth i (rows A) []) = s0 ->
  has_strong (nth i st []) = true ->
  sa_row_regular A st i = true ->
  row_sum (nth i (rows (sa_smooth omega A st (tentative_prolongation count id))) []) = s1.
Proof. exact (C04_sa_row_sum_one QcS QcS_field QcS_eqb eps2 omega A junk count id st i). Qed.
Print Assumptions C04_sa_row_sum_one_Qc.

(* the diagonal of A_F in the header comment of smoothed_aggregation.hpp (weak entries SUBTRACTED,
   as printed in Vanek et al. 1996) is not what the code computes (weak entries ADDED: row sums of A
   are preserved); witness with one weak connection, omega = 2/3: P[0][0] = 5/7 = coded formula,
   documented formula gives 17/27.  Documentation finding, see final report. *)
Theorem C04_sa_documented_diagonal_refuted :
  match pointwise_aggregates (qc 1 16) 1 0 sa_doc_A (repeat (qc 0 1) 3) with
  | AggOk count id st =>
      let Pt := tentative_prolongation (S:=QcS) count id in
      let P := sa_smooth (qc 2 3) sa_doc_A st Pt in
      sa_row_regular sa_doc_A st 0 = true /\
      seqb (mget P 0 0) (sa_formula (qc 2 3) sa_doc_A st Pt 0 0) = true /\
      seqb (mget P 0 0) (qc 5 7) = true /\
      seqb (sa_formula_doc (qc 2 3) sa_doc_A st Pt 0 0) (qc 17 27) = true
  | _ => False
  end.
Proof. exact sa_documented_diagonal_refuted. Qed.
Print Assumptions C04_sa_documented_diagonal_refuted.

(* R = transpose P for all three policies, by construction (any S) *)
Theorem C04_restriction_is_transpose (S : Scalar) (eps2 relax c23 eps_strong eps_trunc : S) bs dt (A : crs S) junk junkf P R :
  (aggregation_transfer eps2 bs A junk = TrOk P R -> R = transpose P) /\
  (sa_transfer eps2 relax c23 bs A junk = TrOk P R -> R = transpose P) /\
  (rs_transfer eps_strong eps_trunc dt A junkf = TrOk P R -> R = transpose P).
Proof. exact (restriction_is_transpose eps2 relax c23 eps_strong eps_trunc bs dt A junk junkf P R). Qed.
Print Assumptions C04_restriction_is_transpose.

(* Ruge-Stuben reads no uninitialised memory any more (/repo 8cfa879): the result does not depend on [junk] *)
Theorem C04_rs_transfer_junk_independent (S : Scalar) (eps_strong eps_trunc : S) dt (A : crs S) (j1 j2 : flags) :
  rs_transfer eps_strong eps_trunc dt A j1 = rs_transfer eps_strong eps_trunc dt A j2.
Proof. exact (rs_transfer_junk_independent eps_strong eps_trunc dt A j1 j2). Qed.
Print Assumptions C04_rs_transfer_junk_independent.

(* ---------------------------------------------------------------- 5. pointwise aggregates / lifting *)
(* by construction: the b unknowns of node ip get ids b*pw_id(ip)+k, and they are
   negative exactly for removed nodes -- "the unknowns of one grid node travel together" *)
Theorem C04_pointwise_ids_travel_together b (pwid : list Z) ip k :
  0 < b -> ip < length pwid -> k < b ->
  nth (ip * b + k) (expand_ids b pwid) removed = (Z.of_nat b * nth ip pwid removed + Z.of_nat k)%Z /\
  ((nth ip pwid removed < 0)%Z <-> (nth (ip * b + k) (expand_ids b pwid) removed < 0)%Z).
Proof.
  intros Hb Hip Hk. split; [exact (expand_ids_nth b pwid ip k Hip Hk) | exact (expand_ids_negative b pwid ip k Hb Hip Hk)].
Qed.
Print Assumptions C04_pointwise_ids_travel_together.

(* pointwise_matrix (A (x) I_b, b) is the scalar pattern of A with the norms of its entries
   (any S; rows of A sorted by column without duplicates).  pwm = the current code of
   backend::pointwise_matrix (after /repo 2f75975), modelled in Aggregates.v. *)
Theorem C04_pointwise_matrix_kronecker (S : Scalar) b (A : crs S) :
  0 < b -> forallb sorted_strict (rows A) = true -> pwm (kron_id b A) b = Some (mabs A).
Proof. exact (pwm_kron b A). Qed.
Print Assumptions C04_pointwise_matrix_kronecker.

(* LIFTING (any S): coarsening A (x) I_b with block_size b gives exactly the lifted aggregates
   (count*b, ids b*id+k, every scalar row's strong flags repeated b times) of the scalar problem.
   The scalar problem is mabs A -- the reduced matrix consists of block norms by design; as far
   as strength of connection goes mabs A and A agree whenever the diagonal is positive.
   Holds for the current code (/repo 2f75975 pointwise_matrix, 384f188 pointwise_aggregates); it was
   refuted for the code before those commits (former finding C04-pointwise-lifting, witness
   C04_pointwise_lifting_poisson below, then ids [-4,-3,0,1]). *)
Theorem C04_pointwise_lifting (S : Scalar) eps2 b (A : crs S) junk :
  1 < b -> forallb sorted_strict (rows A) = true ->
  pointwise_aggregates eps2 b 0 (kron_id b A) junk
  = lifted_aggregates b (plain_aggregates eps2 (mabs A) junk).
Proof. exact (pointwise_lifting eps2 b A junk). Qed.
Print Assumptions C04_pointwise_lifting.

(* the former witness: 1-D Poisson on 2 points (x) I_2, eps_strong = 1/4 *)
Theorem C04_pointwise_lifting_poisson :
  pwm (kron_id 2 poisson1d_2) 2 = Some (mabs poisson1d_2) /\
  pointwise_aggregates (qc 1 16) 2 0 (kron_id 2 poisson1d_2) (repeat (qc 0 1) 4)
    = AggOk 2 [0; 1; 0; 1]%Z [[false; true]; [false; true]; [true; false]; [true; false]] /\
  lifted_aggregates 2 (plain_aggregates (qc 1 16) (mabs poisson1d_2) (repeat (qc 0 1) 2))
    = AggOk 2 [0; 1; 0; 1]%Z [[false; true]; [false; true]; [true; false]; [true; false]].
Proof. exact pointwise_lifting_poisson. Qed.
Print Assumptions C04_pointwise_lifting_poisson.
(* NOT PROVED (tested: ops kron_sa): the smoothed P of A (x) I_b equals P (x) I_b (lifted_sa). *)

(* ---------------------------------------------------------------- 4b. Ruge-Stuben row sums
   FULL STATEMENT (unproved; needs the laws of an ordered field for abs/min/max -- tested by the
   oracle o.rs_rowsum = rs_rowsum_ok on every implementation output):
     row i not 'C', zero row sum, a strong negative C neighbour, one positive stored diagonal entry,
     and (no truncation or eps_trunc < 1)  =>  the row of P sums to one.
   Proved instance: the witness of the former finding C04-rs-truncation-tie (entry exactly on the
   truncation threshold; fixed by /repo 8384831): the entry is dropped and the remaining weight is
   rescaled, the row sums to one. *)
Theorem C04_rs_truncation_tie_rescaled :
  is_symmetric rs_tie_A = true /\
  match rs_cf (qc 1 4) rs_tie_A (no_junk rs_tie_A), rs_transfer (qc 1 4) (qc 1 2) true rs_tie_A (no_junk rs_tie_A) with
  | Some (Sv, cf), TrOk P R =>
      rs_row_applicable rs_tie_A Sv cf 2 = true /\
      length (nth 2 (rows P) []) = 1%nat /\
      seqb (row_sum (nth 2 (rows P) [])) (qc 1 1) = true /\
      rs_rowsum_ok true (qc 1 2) rs_tie_A Sv cf P = true
  | _, _ => False
  end.
Proof. exact rs_trunc_tie_rescaled. Qed.
Print Assumptions C04_rs_truncation_tie_rescaled.

(* non-vacuity: a concrete matrix with a vanishing aggregate exercises the renumbering branch *)
Example C04_nonvacuous_renumbering :
  let A : crs QcS := mkCrs 3 [[(0, qc 2 1); (1, qc (-1) 1)];
                              [(0, qc (-1) 1); (1, qc 2 1); (2, qc (-1) 1)];
                              [(1, qc (-1) 1); (2, qc 2 1)]]%nat in
  plain_aggregates (qc 1 16) A (repeat (qc 0 1) 3) = AggOk 1 [0; 0; 0]%Z [[false; true]; [true; false; true]; [true; false]].
Proof. vm_compute. reflexivity. Qed.

(* non-vacuity of the row-sum theorem: 1-D Neumann Laplacian on 3 points, every row qualifies *)
Example C04_sa_row_sum_nonvacuous :
  wf lap3 = true /\ ncols lap3 = nrows lap3 /\ struct_sym lap3 /\
  match plain_aggregates (qc 1 16) lap3 (repeat (qc 0 1) 3) with
  | AggOk count id st =>
      forallb (fun i => is_zero (row_sum (nth i (rows lap3) [])) && has_strong (nth i st []) && sa_row_regular lap3 st i) [0;1;2]%nat = true
  | _ => False
  end.
Proof. split; [reflexivity|]. split; [reflexivity|]. split; [exact lap3_struct_sym|]. vm_compute. reflexivity. Qed.
