(* Properties_C04.v -- C04: interpolation is exact on the near-null space; aggregates partition
   the grid.  Statements only; proofs live in CoarsenProofs.v.
   "any S": holds for every Scalar record (no algebraic law used; floats with NaN included);
   "ring"/"field": Section hypotheses, closed at Qc below.
   Models: Aggregates.v (plain_aggregates, pointwise_aggregates as coded), Tentative.v,
   Coarsen.v (aggregation, smoothed_aggregation, ruge_stuben as coded). *)
From Amgcl Require Import Scalar QcInst Vec Crs Kernels MatOps MatOps2 Aggregates Tentative Coarsen CoarsenProofs.
Local Open Scope S_scope.

(* ---------------------------------------------------------------- 1. plain_aggregates (any S)
   partition_spec n count id st :=
     length id = n /\
     (forall i < n, id i = removed \/ 0 <= id i < count) /\           ids are in range
     (forall k < count, exists i < n, id i = k) /\                     every aggregate is non-empty:
                                                                       contiguous numbering 0..count-1
                                                                       (the cnt/partial_sum renumbering)
     (forall i < n, 0 <= id i <-> row i has a strong connection)       isolated <-> removed          *)
Theorem C04_plain_aggregates_partition (S : Scalar) eps2 (A : crs S) junk count id st :
  plain_aggregates eps2 A junk = AggOk count id st ->
  0 < count /\ st = strong_connections eps2 A junk /\ partition_spec (nrows A) count id st.
Proof. exact (plain_aggregates_partition eps2 A junk count id st). Qed.
Print Assumptions C04_plain_aggregates_partition.

(* count = 0 => throw empty_level; it happens exactly when no row has a strong connection *)
Theorem C04_plain_aggregates_empty_level (S : Scalar) eps2 (A : crs S) junk :
  plain_aggregates eps2 A junk = AggEmpty <->
  (forall i, i < nrows A -> has_strong (nth i (strong_connections eps2 A junk) []) = false).
Proof. exact (plain_aggregates_empty eps2 A junk). Qed.
Print Assumptions C04_plain_aggregates_empty_level.

(* the renumbering pass alone, for ANY valid intermediate state of the greedy pass *)
Theorem C04_renumbering (n count : nat) (id : list Z) (st : flags) : 0 < count ->
  length id = n ->
  (forall i, i < n -> zget id i = removed \/ (0 <= zget id i < Z.of_nat count)%Z) ->
  (forall i, i < n -> (zget id i = removed <-> has_strong (nth i st []) = false)) ->
  partition_spec n (snd (renumber id count)) (fst (renumber id count)) st.
Proof. exact (renumber_spec n count id st). Qed.
Print Assumptions C04_renumbering.

(* ---------------------------------------------------------------- 2. tentative prolongation, no null space *)
(* one unit entry per aggregated row at column id(i), empty row for removed rows (any S) *)
Theorem C04_tentative_structure (S : Scalar) naggr (id : list Z) i :
  nrows (tentative_prolongation (S:=S) naggr id) = length id /\
  nth i (rows (tentative_prolongation (S:=S) naggr id)) [] =
    (if Z.leb 0 (zget id i) then [(Z.to_nat (zget id i), s1)] else []).
Proof. split; [exact (tentative_nrows naggr id) | exact (tentative_row_nth naggr id i)]. Qed.
Print Assumptions C04_tentative_structure.

(* disjoint supports (any S): a row has a non-zero in at most one column *)
Theorem C04_tentative_disjoint_supports (S : Scalar) naggr (id : list Z) i j1 j2 :
  mget (tentative_prolongation (S:=S) naggr id) i j1 <> s0 ->
  mget (tentative_prolongation (S:=S) naggr id) i j2 <> s0 -> j1 = j2.
Proof. exact (tentative_disjoint naggr id i j1 j2). Qed.
Print Assumptions C04_tentative_disjoint_supports.

Section Ring.
Variable S : Scalar.
Hypothesis Srt : Sring S.

(* P_tent * 1 = 1 on aggregated rows, 0 on removed rows *)
Theorem C04_tentative_reproduces_constant naggr (id : list Z) i :
  ((0 <= zget id i < Z.of_nat naggr)%Z ->
     dotrow (nth i (rows (tentative_prolongation (S:=S) naggr id)) []) (repeat s1 naggr) = s1) /\
  ((zget id i < 0)%Z ->
     dotrow (nth i (rows (tentative_prolongation (S:=S) naggr id)) []) (repeat s1 naggr) = s0).
Proof.
  split; [exact (tentative_times_one S Srt naggr id i)
         | exact (tentative_times_one_removed S naggr id i (repeat s1 naggr))].
Qed.

(* the dense entry at (i, id i) is 1 *)
Theorem C04_tentative_unit_entry naggr (id : list Z) i : (0 <= zget id i)%Z ->
  mget (tentative_prolongation (S:=S) naggr id) i (Z.to_nat (zget id i)) = s1.
Proof. exact (tentative_mget_on S Srt naggr id i). Qed.

(* columns are mutually orthogonal *)
Theorem C04_tentative_columns_orthogonal naggr (id : list Z) j1 j2 : j1 <> j2 ->
  sumn (fun i => mget (tentative_prolongation (S:=S) naggr id) i j1 *
                 mget (tentative_prolongation (S:=S) naggr id) i j2) (length id) = s0.
Proof. exact (tentative_orthogonal S Srt naggr id j1 j2). Qed.
End Ring.

Theorem C04_tentative_reproduces_constant_Qc naggr (id : list Z) i : (0 <= zget id i < Z.of_nat naggr)%Z ->
  dotrow (nth i (rows (tentative_prolongation (S:=QcS) naggr id)) []) (repeat s1 naggr) = s1.
Proof. exact (proj1 (C04_tentative_reproduces_constant QcS QcS_ring naggr id i)). Qed.
Print Assumptions C04_tentative_reproduces_constant_Qc.

Theorem C04_tentative_columns_orthogonal_Qc naggr (id : list Z) j1 j2 : j1 <> j2 ->
  sumn (fun i => mget (tentative_prolongation (S:=QcS) naggr id) i j1 *
                 mget (tentative_prolongation (S:=QcS) naggr id) i j2) (length id) = s0.
Proof. exact (C04_tentative_columns_orthogonal QcS QcS_ring naggr id j1 j2). Qed.
Print Assumptions C04_tentative_columns_orthogonal_Qc.

(* ---------------------------------------------------------------- 5. pointwise aggregates / lifting *)
(* the part that holds by construction: the b unknowns of node ip get ids b*pw_id(ip)+k, and they are
   negative exactly for removed nodes -- "the unknowns of one grid node travel together" *)
Theorem C04_pointwise_ids_travel_together_partial b (pwid : list Z) ip k :
  0 < b -> ip < length pwid -> k < b ->
  nth (ip * b + k) (expand_ids b pwid) removed = (Z.of_nat b * nth ip pwid removed + Z.of_nat k)%Z /\
  ((nth ip pwid removed < 0)%Z <-> (nth (ip * b + k) (expand_ids b pwid) removed < 0)%Z).
Proof.
  intros Hb Hip Hk. split; [exact (expand_ids_nth b pwid ip k Hip Hk) | exact (expand_ids_negative b pwid ip k Hb Hip Hk)].
Qed.
Print Assumptions C04_pointwise_ids_travel_together_partial.

(* FULL STATEMENT (unproved -- it is FALSE for the code as it is, see the refutation below):
     forall (A : crs S) eps2 b junk junk', 1 < b -> wf A = true -> ncols A = nrows A ->
       pointwise_aggregates eps2 b 0 (kron_id b A) junk
         = lifted_aggregates b (plain_aggregates eps2 A junk')
   i.e. coarsening A (x) I_b with block_size b gives the lifted scalar aggregates and strong
   flags (and hence the lifted smoothed P).
   Causes in the code (both modelled as they are):
   - backend::pointwise_matrix consumes the entry that ends the scan of a block column
     (builtin.hpp: `c = A.col[beg++]` / `++beg` before the `c >= col_end` test), so that entry is
     missing from the next block's maximum: every off-diagonal block of A (x) I_b reduces to 0;
   - pointwise_aggregates.hpp:145 compares with (ia + k) after ia was advanced by block_size
     in the id loop, so the diagonal entries are flagged strong and the entries in column
     (ip+1)*b+k are never strong. *)
Theorem C04_pointwise_lifting_refuted :
  exists (A : crs QcS) (eps2 : QcS) (b : nat) (junk junk' : vec QcS),
    1 < b /\ wf A = true /\ ncols A = nrows A /\
    aggregates_eqb (pointwise_aggregates eps2 b 0 (kron_id b A) junk)
                   (lifted_aggregates b (plain_aggregates eps2 A junk')) = false.
Proof. exact pointwise_lifting_refuted. Qed.
Print Assumptions C04_pointwise_lifting_refuted.

(* the witness spelled out: 1-D Poisson on 2 points (x) I_2, eps_strong = 1/4 *)
Theorem C04_pointwise_lifting_witness :
  pointwise_aggregates (qc 1 16) 2 0 (kron_id 2 poisson1d_2) (repeat (qc 0 1) 4)
    = AggOk 2 [-4; -3; 0; 1]%Z [[true; false]; [true; false]; [true; true]; [true; true]] /\
  lifted_aggregates 2 (plain_aggregates (qc 1 16) poisson1d_2 (repeat (qc 0 1) 2))
    = AggOk 2 [0; 1; 0; 1]%Z [[false; true]; [false; true]; [true; false]; [true; false]].
Proof. exact pointwise_lifting_witness. Qed.
Print Assumptions C04_pointwise_lifting_witness.

(* ---------------------------------------------------------------- 4b. Ruge-Stuben row sums with truncation *)
(* FULL STATEMENT (unproved -- FALSE for the code as it is when an entry lies exactly on the
   truncation threshold):
     symmetric A, row i not 'C', zero row sum, a strong negative C neighbour, positive diagonal
       => the row of P sums to one (with and without truncation rescaling).
   Refutation: symmetric weighted path, eps_trunc = 1/2, entry -1/2 = eps_trunc * (-1):
   ruge_stuben.hpp drops the entry (`Amin[i] <= v && v <= Amax[i]`) but leaves it out of the
   rescaling sum (`Amin[i] < v`): the row of P sums to 2/3. *)
Theorem C04_rs_row_sum_truncation_tie_refuted :
  is_symmetric rs_tie_A = true /\
  match rs_cf (qc 1 4) rs_tie_A (no_junk rs_tie_A), rs_transfer (qc 1 4) (qc 1 2) true rs_tie_A (no_junk rs_tie_A) with
  | Some (Sv, cf), TrOk P R =>
      rs_row_applicable rs_tie_A Sv cf 2 = true /\
      seqb (row_sum (nth 2 (rows P) [])) (qc 2 3) = true /\
      rs_rowsum_ok rs_tie_A Sv cf P = false
  | _, _ => False
  end.
Proof. exact rs_trunc_tie_refuted. Qed.
Print Assumptions C04_rs_row_sum_truncation_tie_refuted.

(* non-vacuity: a concrete matrix with a vanishing aggregate exercises the renumbering branch *)
Example C04_nonvacuous_renumbering :
  let A : crs QcS := mkCrs 3 [[(0, qc 2 1); (1, qc (-1) 1)];
                              [(0, qc (-1) 1); (1, qc 2 1); (2, qc (-1) 1)];
                              [(1, qc (-1) 1); (2, qc 2 1)]]%nat in
  plain_aggregates (qc 1 16) A (repeat (qc 0 1) 3) = AggOk 1 [0; 0; 0]%Z [[false; true]; [true; false; true]; [true; false]].
Proof. vm_compute. reflexivity. Qed.
