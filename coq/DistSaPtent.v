(* DistSaPtent.v -- C12: the rank-by-rank tentative prolongation of the model (DistSa.dist_ptent) is the
   constructor's split of the global P_tent of the PMIS model (PmisOracle.ptent_of over Pmis.column). *)
From Amgcl Require Import Scalar Vec Crs Kernels MatOps Dist DistProofs Pmis PmisOracle DistSa.
From Coq Require Import Lia List Arith Bool.
Import ListNotations.
Local Open Scope nat_scope.

(* ---------------------------------------------------------------- list / partition helpers *)
Lemma ptent_chunks_map {X Y} (f : X -> Y) (parts : list nat) : forall l : list X,
  chunks parts (map f l) = map (map f) (chunks parts l).
Proof.
  induction parts as [|p ps IH]; intro l; simpl; [reflexivity|].
  rewrite firstn_map, skipn_map, IH. reflexivity.
Qed.

Lemma ptent_nth_map_map {X Y} (f : X -> Y) (l : list (list X)) : forall r,
  nth r (map (map f) l) [] = map f (nth r l []).
Proof. induction l as [|a l IH]; intros [|r]; simpl; auto. Qed.

Lemma ptent_skipn_seq n : forall a m, skipn n (seq a m) = seq (a + n) (m - n).
Proof.
  induction n as [|n IH]; intros a m; simpl.
  - rewrite Nat.add_0_r, Nat.sub_0_r. reflexivity.
  - destruct m as [|m]; simpl; [reflexivity|]. rewrite IH. f_equal. lia.
Qed.

Lemma ptent_firstn_seq n : forall a m, n <= m -> firstn n (seq a m) = seq a n.
Proof.
  induction n as [|n IH]; intros a m H; simpl; [reflexivity|].
  destruct m as [|m]; [lia|]. simpl. f_equal. apply IH. lia.
Qed.

Lemma ptent_chunk_seq (parts : list nat) r : r < length parts ->
  nth r (chunks parts (seq 0 (psum parts))) [] = seq (pbeg parts r) (psize parts r).
Proof.
  intro H. rewrite nth_chunks by exact H. rewrite ptent_skipn_seq. simpl.
  unfold psize. apply ptent_firstn_seq. pose proof (pbeg_le_psum parts r). lia.
Qed.

Lemma ptent_pbeg_mono (nas : list nat) a : forall b, a <= b -> pbeg nas a <= pbeg nas b.
Proof.
  unfold pbeg. revert a. induction nas as [|n ns IH]; intros a b H.
  - rewrite !firstn_nil. simpl. lia.
  - destruct a as [|a]; simpl; [lia|]. destruct b as [|b]; [lia|]. simpl.
    specialize (IH a b). lia.
Qed.

Lemma ptent_in_range_own (nas : list nat) r id : id < nth r nas 0 ->
  in_range (pbeg nas r) (psize nas r) (pbeg nas r + id) = true.
Proof.
  intro H. unfold in_range, psize. apply andb_true_iff. split.
  - apply Nat.leb_le. lia.
  - apply Nat.ltb_lt. lia.
Qed.

Lemma ptent_in_range_other (nas : list nat) r o id :
  r < length nas -> o < length nas -> id < nth o nas 0 -> o <> r ->
  in_range (pbeg nas r) (psize nas r) (pbeg nas o + id) = false.
Proof.
  intros Hr Ho Hid Hne. unfold in_range, psize. apply andb_false_iff.
  destruct (Nat.lt_ge_cases o r) as [Hlt|Hge].
  - left. apply Nat.leb_gt.
    pose proof (pbeg_S nas o Ho). pose proof (ptent_pbeg_mono nas (S o) r ltac:(lia)). lia.
  - right. apply Nat.ltb_ge.
    pose proof (pbeg_S nas r Hr). pose proof (ptent_pbeg_mono nas (S r) o ltac:(lia)). lia.
Qed.

Section Ptent.
Variable S : Scalar.

Definition ptent_grow (oc : option nat) : row S :=
  match oc with None => [] | Some j => [(j, s1)] end.

Lemma ptent_rows_eq (nas : list nat) (w : world) r c :
  w_na w = nas -> r < length nas ->
  (getn (w_st w) c = mkNode Deleted None \/
   exists o id, getn (w_st w) c = mkNode (Agg id) (Some o) /\ o < length nas /\ id < nth o nas 0) ->
  ptent_loc_row (S:=S) r (getn (w_st w) c) = loc_row (pbeg nas r) (psize nas r) (ptent_grow (column w c)) /\
  ptent_rem_row (S:=S) nas r (getn (w_st w) c) = rem_row (pbeg nas r) (psize nas r) (ptent_grow (column w c)).
Proof.
  intros Hn Hr [E|[o [id [E [Ho Hid]]]]]; unfold ptent_loc_row, ptent_rem_row, column; rewrite E; simpl.
  - split; reflexivity.
  - rewrite Hn. unfold loc_row, rem_row; simpl.
    destruct (Nat.eqb_spec o r) as [->|Hne].
    + rewrite ptent_in_range_own by exact Hid. simpl. split; [|reflexivity].
      f_equal. f_equal. lia.
    + rewrite ptent_in_range_other by assumption. simpl. split; reflexivity.
Qed.

(* the rank-by-rank tentative prolongation of the model (DistSa.dist_ptent: own aggregate -> local column id,
   aggregate of rank o -> remote entry with global column pbeg nas o + id) is the constructor's split of the
   global P_tent of the PMIS model *)
Lemma dist_ptent_is_split (parts : list nat) (w : world) :
  length (w_na w) = length parts ->
  (forall c, c < psum parts ->
     getn (w_st w) c = mkNode Deleted None \/
     exists o id, getn (w_st w) c = mkNode (Agg id) (Some o) /\ o < length parts /\ id < nth o (w_na w) 0) ->
  dist_ptent (S:=S) parts w
  = Dist.split (ptent_of S (map (column w) (seq 0 (psum parts))) (psum (w_na w))) parts (w_na w).
Proof.
  intros Hlen Hst. unfold dist_ptent, Dist.split. f_equal. rewrite Hlen.
  apply map_ext_in. intros r Hr. apply in_seq in Hr. simpl in Hr.
  unfold split_rank, split_rows, ptent_of. simpl.
  rewrite !ptent_chunks_map.
  rewrite !ptent_nth_map_map.
  rewrite ptent_chunk_seq by lia.
  rewrite !map_map.
  assert (Hrows : forall c, In c (seq (pbeg parts r) (psize parts r)) ->
            ptent_loc_row (S:=S) r (getn (w_st w) c)
              = loc_row (pbeg (w_na w) r) (psize (w_na w) r) (ptent_grow (column w c)) /\
            ptent_rem_row (S:=S) (w_na w) r (getn (w_st w) c)
              = rem_row (pbeg (w_na w) r) (psize (w_na w) r) (ptent_grow (column w c))).
  { intros c Hc. apply in_seq in Hc. apply ptent_rows_eq; [reflexivity | lia |].
    pose proof (pbeg_le_psum parts r). unfold psize in Hc.
    destruct (Hst c ltac:(lia)) as [E|[o [id [E [Ho Hid]]]]]; [left; exact E|].
    right. exists o, id. split; [exact E|]. split; [lia | exact Hid]. }
  f_equal; f_equal; apply map_ext_in; intros c Hc; apply Hrows in Hc; destruct Hc as [H1 H2];
    [exact H1 | exact H2].
Qed.
End Ptent.
