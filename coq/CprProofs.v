(* CprProofs.v -- C18-A3: the CPR set-up (Cpr.v).
   (1) structure of the block-column scan on rows sorted by column (any Scalar);
   (2) partial_update with an unchanged matrix returns the same operators (term equality);
   (3) the pressure matrix is the weighting  App[ip][jp] = sum_i d_ip[i] * K[ip*B+i][jp*B]  of the
       pressure columns of the active part (dense statement, commutative ring). *)
From Coq Require Import ZifyBool.
From Amgcl Require Import Scalar Vec Crs Kernels KernelsProofs MatOps MatOpsProofs Adapters AdaptersProofs BlockProofs
  Composite Cpr.
From Amgcl Require DirectUtil.

(* ---------------------------------------------------------------- structure (any S) *)
Section Struct.
Context {S : Scalar}.
Local Notation row := (row S).
Local Notation vec := (vec S).

Lemma sorted_weak_cons (a : nat * S) r :
  sorted_weak (a :: r) = true -> Forall (fun x => fst a <= fst x) r /\ sorted_weak r = true.
Proof.
  revert a; induction r as [|x r IH]; intros a H; [split; [constructor|reflexivity]|].
  cbn [sorted_weak] in H. apply andb_prop in H as [H1 H2]. apply Nat.leb_le in H1.
  destruct (IH x H2) as [F _]. split; [|exact H2].
  constructor; [exact H1|]. eapply Forall_impl; [|exact F]. simpl. intros; lia.
Qed.

Lemma sorted_strict_weak (r : row) : sorted_strict r = true -> sorted_weak r = true.
Proof.
  induction r as [|a r IH]; [reflexivity|]. destruct r as [|b r]; [reflexivity|].
  cbn [sorted_strict sorted_weak]. intro H. apply andb_prop in H as [H1 H2].
  apply andb_true_intro. split; [|apply IH; exact H2].
  apply Nat.leb_le. apply Nat.ltb_lt in H1. lia.
Qed.

Lemma span_lt_weak e (r : row) : sorted_weak r = true ->
  sorted_weak (snd (span_lt e r)) = true /\ Forall (fun x => e <= fst x) (snd (span_lt e r)).
Proof.
  induction r as [|x r IH]; intro Hs; [split; constructor|].
  destruct (sorted_weak_cons x r Hs) as [F Hs']. specialize (IH Hs'). simpl.
  destruct (Nat.ltb_spec (fst x) e) as [Hlt|Hge].
  - destruct (span_lt e r) as [t rest] eqn:E. simpl in *. exact IH.
  - simpl. split; [exact Hs|].
    constructor; [exact Hge|]. eapply Forall_impl; [|exact F]. simpl. intros; lia.
Qed.

Lemma sorted_weak_lower (r : row) lo : sorted_weak r = true ->
  match r with [] => True | x :: _ => lo <= fst x end -> Forall (fun x => lo <= fst x) r.
Proof.
  destruct r as [|x r]; intros Hs H; [constructor|].
  destruct (sorted_weak_cons x r Hs) as [F _]. constructor; [exact H|].
  eapply Forall_impl; [|exact F]. simpl. intros; lia.
Qed.

(* rows all of whose entries lie at or after column lo *)
Definition rows_ge (lo : nat) (rs : list row) : Prop := Forall (fun r => Forall (fun x : nat * S => lo <= fst x) r) rs.

Lemma active_head_cases N (r : row) : active_head N r = r \/ active_head N r = [].
Proof. destruct r as [|x r]; [left; reflexivity|]. simpl. destruct (Nat.ltb (fst x) N); auto. Qed.

Lemma active_head_head N (r : row) x tl : active_head N r = x :: tl -> r = x :: tl /\ fst x < N.
Proof.
  destruct r as [|y r]; simpl; [discriminate|].
  destruct (Nat.ltb_spec (fst y) N); [|discriminate]. intro E. injection E as -> ->. split; [reflexivity|assumption].
Qed.

Lemma cpr_heads_min_some B N (rs : list row) c : cpr_heads_min B N rs = Some c ->
  Forall (fun r => match active_head N r with [] => True | x :: _ => c <= fst x / B end) rs /\
  Exists (fun r => match active_head N r with [] => False | x :: _ => fst x / B = c end) rs.
Proof.
  intro H. unfold cpr_heads_min in H. destruct (heads_min_some B _ c H) as [F E].
  split.
  - apply Forall_forall. intros r Hr. rewrite Forall_forall in F. apply (F (active_head N r)).
    apply in_map. exact Hr.
  - apply Exists_exists in E as [r' [Hr' P]]. apply in_map_iff in Hr' as [r [<- Hr]].
    apply Exists_exists. exists r. split; assumption.
Qed.

Lemma cpr_heads_min_none B N (rs : list row) : cpr_heads_min B N rs = None ->
  Forall (fun r => active_head N r = []) rs.
Proof.
  intro H. unfold cpr_heads_min in H. pose proof (heads_min_none B _ H) as F.
  apply Forall_forall. intros r Hr. rewrite Forall_forall in F. apply F. apply in_map. exact Hr.
Qed.

(* the minimum is at least lo when every entry lies at or after lo*B *)
Lemma cpr_heads_min_ge B N (rs : list row) c lo : 0 < B -> cpr_heads_min B N rs = Some c ->
  rows_ge (lo * B) rs -> lo <= c.
Proof.
  intros HB H G. destruct (cpr_heads_min_some B N rs c H) as [_ E].
  apply Exists_exists in E as [r [Hr P]].
  destruct (active_head N r) as [|x tl] eqn:EA; [contradiction|].
  destruct (active_head_head N r x tl EA) as [-> _].
  unfold rows_ge in G. rewrite Forall_forall in G. specialize (G _ Hr).
  apply Forall_cons_iff in G as [G _]. subst c.
  apply Nat.div_le_lower_bound; lia.
Qed.

Lemma rows_ge_step e (rs : list row) : Forall (fun r => sorted_weak r = true) rs ->
  Forall (fun r => sorted_weak r = true) (map snd (map (span_lt e) rs)) /\
  rows_ge e (map snd (map (span_lt e) rs)).
Proof.
  intro Hs. rewrite map_map. split; apply Forall_forall; intros r Hr; apply in_map_iff in Hr as [r0 [<- Hr0]];
    rewrite Forall_forall in Hs; apply (span_lt_weak e r0 (Hs _ Hr0)).
Qed.

Lemma total_len_step B N (rs : list row) c : 0 < B -> cpr_heads_min B N rs = Some c ->
  total_len (map snd (map (span_lt ((c + 1) * B)) rs)) < total_len rs.
Proof.
  intros HB H. rewrite map_map. destruct (cpr_heads_min_some B N rs c H) as [_ E].
  apply total_len_map_lt; [intro; apply span_lt_len|].
  apply Exists_exists. apply Exists_exists in E as [r [Hr P]].
  exists r. split; [exact Hr|].
  destruct (active_head N r) as [|x tl] eqn:EA; [contradiction|].
  destruct (active_head_head N r x tl EA) as [-> _].
  apply span_lt_progress. rewrite <- P. apply div_upper; exact HB.
Qed.

(* ---- partial update: leaving the loop after the diagonal block changes nothing ---- *)
(* once every remaining entry lies after block column ip, the weights are final *)
Lemma cpr_pass1_done B N ip : 0 < B -> forall fuel (rs : list row) (d : vec),
  Forall (fun r => sorted_weak r = true) rs -> rows_ge ((ip + 1) * B) rs ->
  cpr_pass1 fuel B N ip true rs d = d.
Proof.
  intros HB. induction fuel as [|k IH]; intros rs d Hs G; [reflexivity|].
  simpl. destruct (cpr_heads_min B N rs) as [c|] eqn:Hm; [|reflexivity].
  pose proof (cpr_heads_min_ge B N rs c (ip + 1) HB Hm G) as Hc.
  destruct (Nat.eqb_spec c ip); [lia|].
  destruct (rows_ge_step ((c + 1) * B) rs Hs) as [Hs' G'].
  apply IH; [exact Hs'|].
  unfold rows_ge in *. eapply Forall_impl; [|exact G']. intros r Hr.
  eapply Forall_impl; [|exact Hr]. simpl. intros x Hx. nia.
Qed.

Theorem cpr_pass1_get_app B N ip : 0 < B -> forall fuel (rs : list row) (d : vec),
  Forall (fun r => sorted_weak r = true) rs ->
  cpr_pass1 fuel B N ip false rs d = cpr_pass1 fuel B N ip true rs d.
Proof.
  intros HB. induction fuel as [|k IH]; intros rs d Hs; [reflexivity|].
  simpl. destruct (cpr_heads_min B N rs) as [c|] eqn:Hm; [|reflexivity].
  destruct (rows_ge_step ((c + 1) * B) rs Hs) as [Hs' G'].
  destruct (Nat.eqb_spec c ip) as [->|Hne].
  - symmetry. apply cpr_pass1_done; assumption.
  - apply IH. exact Hs'.
Qed.

End Struct.

(* ---------------------------------------------------------------- partial update (any S) *)
Section Update.
Context {S : Scalar}.
Local Notation row := (row S).
Local Notation vec := (vec S).

Lemma block_rows_sorted B (K : crs S) ip : Forall (fun r => sorted_weak r = true) (rows K) ->
  Forall (fun r => sorted_weak r = true) (cpr_block_rows B K ip).
Proof.
  intro H. unfold cpr_block_rows. apply Forall_forall. intros r Hr. apply in_map_iff in Hr as [i [<- _]].
  destruct (Nat.lt_ge_cases (ip * B + i) (length (rows K))) as [Hlt|Hge].
  - rewrite Forall_forall in H. apply H. apply nth_In. exact Hlt.
  - rewrite nth_overflow by exact Hge. reflexivity.
Qed.

Theorem cpr_fpp_get_app B N (K : crs S) (junk : vec) : 0 < B ->
  Forall (fun r => sorted_weak r = true) (rows K) ->
  cpr_fpp B N K false junk = cpr_fpp B N K true junk.
Proof.
  intros HB Hs. unfold cpr_fpp. f_equal. apply map_ext. intro ip.
  unfold cpr_weights. rewrite (cpr_pass1_get_app B N ip HB); [reflexivity|].
  apply block_rows_sorted. exact Hs.
Qed.

(* partial_update(K, true) with the matrix the preconditioner was built from: the same operators *)
Theorem cpr_partial_update_same B active (K : crs S) (junk : vec) : 0 < B ->
  cpr_partial_update B active (cpr_make B active K junk) K true junk = cpr_make B active K junk.
Proof.
  intro HB. unfold cpr_partial_update, cpr_make, cpr_setup. cbn [c_scatter c_app].
  destruct (sort_rows_shape K) as [En _]. rewrite En.
  rewrite cpr_fpp_get_app; [reflexivity|exact HB|apply sort_rows_sorted].
Qed.

Theorem cpr_partial_update_noop B active (ops : cpr_ops) (K : crs S) (junk : vec) :
  cpr_partial_update B active ops K false junk = ops.
Proof. reflexivity. Qed.
End Update.

(* ---------------------------------------------------------------- dense statements (ring) *)
Section Ring.
Context {S : Scalar}.
Local Notation row := (row S).
Local Notation vec := (vec S).
Hypothesis Srt : Sring S.
Add Ring SRingCpr : Srt.
Local Open Scope S_scope.

Lemma combine_app2 {X Y} (l1 l1' : list X) (l2 l2' : list Y) : length l1 = length l2 ->
  combine (l1 ++ l1') (l2 ++ l2') = combine l1 l2 ++ combine l1' l2'.
Proof.
  revert l2; induction l1 as [|a l1 IH]; intros [|b l2] H; simpl in *; try lia; [reflexivity|].
  f_equal. apply IH. lia.
Qed.

Lemma indexed_snoc {X} (l : list X) (x : X) : indexed (l ++ [x]) = indexed l ++ [(length l, x)].
Proof.
  unfold indexed. rewrite app_length. simpl. rewrite seq_app. simpl.
  rewrite combine_app2 by (rewrite seq_length; reflexivity). reflexivity.
Qed.

Lemma fold_indexed_sumn {X} (g : nat -> X -> S) (dflt : X) (l : list X) :
  fold_left (fun a (it : nat * X) => a + g (fst it) (snd it)) (indexed l) s0
  = sumn (fun i => g i (nth i l dflt)) (length l).
Proof.
  induction l as [|x l IH] using rev_ind; [reflexivity|].
  rewrite indexed_snoc, fold_left_app, IH. simpl. rewrite app_length. simpl.
  rewrite Nat.add_1_r. simpl. rewrite app_nth2 by lia. rewrite Nat.sub_diag. simpl.
  f_equal. apply sumn_ext. intros i Hi. rewrite app_nth1 by exact Hi. reflexivity.
Qed.

(* one row of one step: the entries with col % B == 0 among entries of block column c *)
Lemma app_inner_dense B c (di : S) (t : row) : 0 < B ->
  Forall (fun x => c * B <= fst x < (c + 1) * B) t -> forall a,
  fold_left (fun a e => if Nat.eqb (fst e mod B) 0 then a + di * snd e else a) t a = a + di * rget t (c * B).
Proof.
  intros HB HF. induction t as [|x t IH]; intro a; [rewrite rget_nil; simpl; ring|].
  apply Forall_cons_iff in HF as [Hx HF]. simpl fold_left. rewrite (IH HF). rewrite (rget_cons Srt).
  pose proof (blk_range_mod B c (fst x) 0 HB Hx HB) as M. rewrite Nat.add_0_r in M.
  destruct (Nat.eqb_spec (fst x mod B) 0) as [E|E].
  - destruct (Nat.eqb_spec (fst x) (c * B)) as [_|Hn]; [ring|exfalso; apply Hn, M; exact E].
  - destruct (Nat.eqb_spec (fst x) (c * B)) as [Ek|_]; [exfalso; apply E, M; exact Ek|ring].
Qed.

Lemma app_val_dense B c (d : vec) (takens : list row) : 0 < B ->
  Forall (fun t => Forall (fun x : nat * S => c * B <= fst x < (c + 1) * B) t) takens ->
  cpr_app_val B d takens = sumn (fun i => vget d i * rget (nth i takens []) (c * B)) (length takens).
Proof.
  intros HB HF. unfold cpr_app_val.
  rewrite <- (fold_indexed_sumn (fun i t => vget d i * rget t (c * B)) [] takens).
  (* both folds run over the same list; compare step by step *)
  assert (G : forall (l : list (nat * row)) a, Forall (fun it => Forall (fun x : nat * S => c * B <= fst x < (c + 1) * B) (snd it)) l ->
     fold_left (fun a (it : nat * row) => fold_left (fun a e => if Nat.eqb (fst e mod B) 0 then a + vget d (fst it) * snd e else a) (snd it) a) l a
     = fold_left (fun a (it : nat * row) => a + vget d (fst it) * rget (snd it) (c * B)) l a).
  { induction l as [|it l IH]; intros a Hl; [reflexivity|].
    apply Forall_cons_iff in Hl as [H1 Hl]. simpl. rewrite (app_inner_dense B c _ _ HB H1). apply IH. exact Hl. }
  apply G. apply Forall_forall. intros it Hit. rewrite Forall_forall in HF. apply HF.
  unfold indexed in Hit. destruct it as [i0 t0]. apply in_combine_r in Hit. exact Hit.
Qed.

Lemma nth_map_fst_span e (rs : list row) i :
  nth i (map fst (map (span_lt e) rs)) [] = fst (span_lt e (nth i rs [])).
Proof.
  rewrite map_map. change [] with (fst (span_lt e (@nil (nat * S)))) at 1.
  rewrite (map_nth (fun r => fst (span_lt e r))). reflexivity.
Qed.
Lemma nth_map_snd_span e (rs : list row) i :
  nth i (map snd (map (span_lt e) rs)) [] = snd (span_lt e (nth i rs [])).
Proof.
  rewrite map_map. change [] with (snd (span_lt e (@nil (nat * S)))) at 1.
  rewrite (map_nth (fun r => snd (span_lt e r))). reflexivity.
Qed.

(* what one step takes from a row lies inside block column c; inactive rows give nothing *)
Lemma taken_in_block B np (rs : list row) c : 0 < B ->
  Forall (fun r => sorted_weak r = true) rs -> cpr_heads_min B (np * B) rs = Some c ->
  c < np /\ Forall (fun r => Forall (fun x : nat * S => c * B <= fst x < (c + 1) * B) (fst (span_lt ((c + 1) * B) r))) rs.
Proof.
  intros HB Hs Hm. destruct (cpr_heads_min_some B (np * B) rs c Hm) as [F E].
  assert (Hc : c < np).
  { apply Exists_exists in E as [r [_ P]]. destruct (active_head (np * B) r) as [|x tl] eqn:EA; [contradiction|].
    destruct (active_head_head _ r x tl EA) as [_ Hx]. subst c. apply Nat.div_lt_upper_bound; lia. }
  split; [exact Hc|].
  apply Forall_forall. intros r Hr. rewrite Forall_forall in F, Hs. specialize (F r Hr). specialize (Hs r Hr).
  apply Forall_forall. intros x Hx. split.
  - (* lower bound: every entry of r lies at or after c*B *)
    assert (Flo : Forall (fun y => c * B <= fst y) r).
    { apply sorted_weak_lower; [exact Hs|]. destruct r as [|y tl]; [exact I|].
      simpl in F. destruct (Nat.ltb_spec (fst y) (np * B)) as [Hy|Hy].
      - apply div_lower; assumption.
      - nia. }
    rewrite Forall_forall in Flo. apply Flo. rewrite (span_lt_app ((c + 1) * B) r). apply in_or_app. left. exact Hx.
  - pose proof (span_lt_taken ((c + 1) * B) r) as Ft. rewrite Forall_forall in Ft. apply Ft. exact Hx.
Qed.

Lemma rget_below (r : row) j lo : Forall (fun x => lo <= fst x) r -> j < lo -> rget r j = s0.
Proof.
  intros H Hj. apply (rget_notin Srt). eapply Forall_impl; [|exact H]. simpl. intros; lia.
Qed.

(* the invariant of the second traversal: the dense reading of the produced App row *)
Lemma cpr_pass2_dense B np (d : vec) : 0 < B -> forall fuel (rs : list row),
  Forall (fun r => sorted_weak r = true) rs -> total_len rs <= fuel ->
  forall J, J < np ->
  rget (cpr_pass2 fuel B (np * B) rs d) J = sumn (fun i => vget d i * rget (nth i rs []) (J * B)) (length rs).
Proof.
  intros HB. induction fuel as [|k IH]; intros rs Hs Hlen J HJ.
  - simpl. rewrite rget_nil. symmetry. rewrite (sumn_ext _ (fun _ => s0)); [apply (sumn_zero Srt)|].
    intros i _. rewrite total_len_zero by lia. rewrite rget_nil. ring.
  - simpl. destruct (cpr_heads_min B (np * B) rs) as [c|] eqn:Hm.
    + destruct (taken_in_block B np rs c HB Hs Hm) as [Hc Ftk].
      set (e := ((c + 1) * B)%nat) in *. set (sp := map (span_lt e) rs).
      destruct (rows_ge_step e rs Hs) as [Hs' _]. fold sp in Hs'.
      assert (Hlen' : total_len (map snd sp) <= k).
      { pose proof (total_len_step B (np * B) rs c HB Hm) as L. fold e in L. fold sp in L. lia. }
      rewrite (rget_cons Srt). cbn [fst snd].
      rewrite (IH (map snd sp) Hs' Hlen' J HJ).
      unfold sp at 3. rewrite !map_length.
      rewrite (app_val_dense B c d (map fst sp) HB).
      2:{ unfold sp. rewrite map_map. apply Forall_forall. intros t Ht. apply in_map_iff in Ht as [r [<- Hr]].
          rewrite Forall_forall in Ftk. apply Ftk. exact Hr. }
      unfold sp at 2. rewrite !map_length.
      (* row by row *)
      assert (Erow : forall i, i < length rs ->
         vget d i * rget (nth i rs []) (J * B)
         = (if Nat.eqb c J then vget d i * rget (nth i (map fst sp) []) (c * B) else s0)
           + vget d i * rget (nth i (map snd sp) []) (J * B)).
      { intros i Hi. unfold sp. rewrite nth_map_fst_span, nth_map_snd_span.
        set (r := nth i rs []).
        assert (Hr : In r rs) by (apply nth_In; exact Hi).
        rewrite (span_lt_app e r) at 1. rewrite (rget_app Srt).
        rewrite Forall_forall in Ftk. specialize (Ftk r Hr).
        destruct (Nat.eqb_spec c J) as [->|Hne]; [ring|].
        assert (Z : rget (fst (span_lt e r)) (J * B) = s0).
        { apply (rget_notin Srt). eapply Forall_impl; [|exact Ftk]. simpl. intros x Hx Ex. apply Hne.
          apply (blk_in_range B c J 0 HB). lia. }
        rewrite Z. ring. }
      rewrite (sumn_ext _ _ _ Erow). rewrite (sumn_add Srt).
      destruct (Nat.eqb_spec c J) as [->|Hne]; [reflexivity|].
      rewrite (sumn_zero Srt). reflexivity.
    + rewrite rget_nil. symmetry. rewrite (sumn_ext _ (fun _ => s0)); [apply (sumn_zero Srt)|].
      intros i Hi. pose proof (cpr_heads_min_none B (np * B) rs Hm) as Fn.
      set (r := nth i rs []). assert (Hr : In r rs) by (apply nth_In; exact Hi).
      rewrite Forall_forall in Fn, Hs. specialize (Fn r Hr). specialize (Hs r Hr).
      assert (Z : rget r (J * B) = s0).
      { destruct r as [|y tl]; [apply rget_nil|].
        simpl in Fn. destruct (Nat.ltb_spec (fst y) (np * B)) as [Hy|Hy]; [discriminate|].
        apply (rget_below _ _ (np * B)); [|nia].
        apply sorted_weak_lower; [exact Hs|exact Hy]. }
      rewrite Z. ring.
Qed.


Lemma block_rows_length B (K : crs S) ip : length (cpr_block_rows B K ip) = B.
Proof. unfold cpr_block_rows. rewrite map_length, seq_length. reflexivity. Qed.
Lemma block_rows_nth B (K : crs S) ip i : i < B -> nth i (cpr_block_rows B K ip) [] = nth (ip * B + i) (rows K) [].
Proof. intro H. unfold cpr_block_rows. rewrite nth_map_seq by exact H. reflexivity. Qed.

(* A3: the pressure matrix is the weighting of the pressure columns of the active part of K by
   the weights d_ip of the block rows:  App[ip][jp] = sum_{i<B} d_ip[i] * K[ip*B+i][jp*B] *)
Theorem cpr_App_dense B np (K : crs S) (junk : vec) ip jp : 0 < B ->
  Forall (fun r => sorted_weak r = true) (rows K) -> ip < np -> jp < np ->
  mget (cpr_App B (np * B) K junk) ip jp
  = sumn (fun i => vget (cpr_weights B (np * B) K true junk ip) i * mget K (ip * B + i) (jp * B)) B.
Proof.
  intros HB Hs Hip Hjp. unfold mget at 1, cpr_App. cbn [rows].
  rewrite Nat.div_mul by lia. rewrite nth_map_seq by exact Hip.
  rewrite (cpr_pass2_dense B np _ HB); [|apply block_rows_sorted; exact Hs|lia|exact Hjp].
  rewrite block_rows_length. apply sumn_ext. intros i Hi. rewrite block_rows_nth by exact Hi. reflexivity.
Qed.

Theorem cpr_App_shape B N (K : crs S) (junk : vec) :
  nrows (cpr_App B N K junk) = (N / B)%nat /\ ncols (cpr_App B N K junk) = (N / B)%nat.
Proof. unfold cpr_App, nrows. cbn [rows ncols]. rewrite map_length, seq_length. split; reflexivity. Qed.

End Ring.
