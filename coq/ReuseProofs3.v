(* ReuseProofs3.v -- continuation of ReuseProofs2.v (property C15, the composite object
   make_solver = (preconditioner object, solver object) with a STATEFUL preconditioner):
   GMRES(M) and FGMRES(M).

   What is modelled
   * amgcl/solver/gmres.hpp:162-261: P.apply(v[0], r) at 190 (left preconditioning, outer loop),
     preconditioner::spmv(pside, P, A, v[j], v[j+1], r) at 213 (precond_side.hpp:76-93:
     left: spmv(A, F, T); P.apply(T, X)   right: P.apply(F, T); spmv(A, T, X)),
     P.apply(dx, tmp) with dx = r, tmp = v[0] at 254 (right preconditioning, after the cycle).
   * amgcl/solver/fgmres.hpp:155-241: P.apply(v[j], z[j]) at 204.
   * the constructors allocate r and v[0..M] (gmres.hpp:137-142), v[0..M] and z[0..M-1]
     (fgmres.hpp:129-138) with n entries, M = prm.M of the object.

   [gmres_sp], [fgmres_sp] have the text of Krylov.gmres / fgmres with every [P v] replaced by
   [let '(s, ps') := sp ps v (old content of the member vector that receives the result)], the
   preconditioner state threaded in the order of the C++ statements.  Theorems as in ReuseProofs2.v:
   X_sp_simulated, X_object_reuse, make_solver_amg_X_reuse, X_sp_stateless.  No algebraic law;
   is_zero(zero) = true where gmres_junk_independent / the amg theorems need it. *)
From Amgcl Require Import Scalar Vec Crs Kernels KernelsProofs MatOps MatOpsProofs Krylov KrylovProofs KrylovProofs2
  KrylovProofs2Reuse Amg AmgExec AmgProofs AmgProofs2 AmgProofs3 ReuseProofs2.
From Coq Require Import Lia QArith_base.
Local Close Scope Q_scope.
Local Open Scope S_scope.
Local Notation SS := Datatypes.S.

Section StatePassing3.
Context {S : Scalar} {PS : Type}.
Local Notation vec := (vec S).
Local Notation gm_ws := (@gm_ws S).
Local Notation gm_in := (@gm_in S).
Local Notation kprm := (@kprm S).
Local Notation kres := (@kres S).
Local Notation kout := (@kout S).
Local Notation kcall := (@kcall S).
Local Notation sprecond := (@sprecond S PS).

(* ================================================================== *)
(* state-passing GMRES / FGMRES                                        *)

(* spmv(pside, P, A, v[j], v[j+1], r): X = v[j+1], T = r *)
Definition gm_body_sp (A : vec -> vec) (sp : sprecond) (left : bool) (w : gm_ws) (j : nat) (ps : PS)
  : gm_ws * S * PS :=
  let '(vnew0, T, ps') := pspmv_sp left A sp ps (g_v w j) (g_v w (SS j)) (g_r w) in
  (arnoldi_tail (mkGmWs (g_H w) (g_s w) (g_cs w) (g_sn w) T (g_v w) (g_z w)) j vnew0, ps').
(* P.apply(v[j], z[j]); spmv(A, z[j], v[j+1]) *)
Definition fg_body_sp (A : vec -> vec) (sp : sprecond) (w : gm_ws) (j : nat) (ps : PS) : gm_ws * S * PS :=
  let '(zj, ps') := sp ps (g_v w j) (g_z w j) in
  (arnoldi_tail (mkGmWs (g_H w) (g_s w) (g_cs w) (g_sn w) (g_r w) (g_v w) (upd (g_z w) j zj)) j (A zj), ps').

Fixpoint gm_inner_sp (body : gm_ws -> nat -> PS -> gm_ws * S * PS) (maxiter M : nat) (eps : S)
                     (fuel : nat) (w : gm_ws) (j it : nat) (ps : PS) : gm_in * PS :=
  let '(w', inner_res, ps') := body w j ps in
  let j' := SS j in let it' := SS it in
  if Nat.leb maxiter it' || Nat.leb M j' || negb (sltb eps inner_res) then (mkGmIn w' j' it' false, ps')
  else match fuel with
       | O => (mkGmIn w' j' it' true, ps')
       | SS k => gm_inner_sp body maxiter M eps k w' j' it' ps'
       end.

Definition gm_cycle_sp (A : vec -> vec) (sp : sprecond) (prm : kprm) (eps norm_r : S) (x : vec) (w : gm_ws) (it : nat) (ps : PS)
  : vec * gm_in * PS :=
  let left := p_left prm in
  let v0 := k_axpby (sinv norm_r) (g_r w) s0 (g_v w 0) in
  let w1 := mkGmWs (g_H w) (upd (fun _ => sofQ (0 # 1)%Q) 0 norm_r) (g_cs w) (g_sn w) (g_r w) (upd (g_v w) 0 v0) (g_z w) in
  let '(r, ps1) := gm_inner_sp (gm_body_sp A sp left) (p_maxiter prm) (p_M prm) eps (pred (p_M prm)) w1 0 it ps in
  let w2 := n_ws r in
  let sv := backsub (g_H w2) (rev (seq 0 (n_j r))) (g_s w2) in
  let dx := k_lin_comb (cv_of sv (g_v w2) (n_j r)) s0 (g_r w2) in
  if left then
    (k_axpby s1 dx s1 x, mkGmIn (mkGmWs (g_H w2) sv (g_cs w2) (g_sn w2) dx (g_v w2) (g_z w2)) (n_j r) (n_it r) (n_oof r), ps1)
  else
    let '(tmp, ps2) := sp ps1 dx (g_v w2 0) in                      (* P.apply(dx, tmp), tmp = v[0] *)
    (k_axpby s1 tmp s1 x, mkGmIn (mkGmWs (g_H w2) sv (g_cs w2) (g_sn w2) dx (upd (g_v w2) 0 tmp) (g_z w2)) (n_j r) (n_it r) (n_oof r), ps2).

Definition fg_cycle_sp (A : vec -> vec) (sp : sprecond) (prm : kprm) (eps norm_r : S) (x : vec) (w : gm_ws) (it : nat) (ps : PS)
  : vec * gm_in * PS :=
  let v0 := k_axpby (sinv norm_r) (g_v w 0) s0 (g_v w 0) in
  let w1 := mkGmWs (g_H w) (upd (fun _ => sofQ (0 # 1)%Q) 0 norm_r) (g_cs w) (g_sn w) (g_r w) (upd (g_v w) 0 v0) (g_z w) in
  let '(r, ps1) := gm_inner_sp (fg_body_sp A sp) (p_maxiter prm) (p_M prm) eps (pred (p_M prm)) w1 0 it ps in
  let w2 := n_ws r in
  let sv := backsub (g_H w2) (rev (seq 0 (n_j r))) (g_s w2) in
  (k_lin_comb (cv_of sv (g_z w2) (n_j r)) s1 x,
   mkGmIn (mkGmWs (g_H w2) sv (g_cs w2) (g_sn w2) (g_r w2) (g_v w2) (g_z w2)) (n_j r) (n_it r) (n_oof r), ps1).

Fixpoint gm_outer_sp (A : vec -> vec) (sp : sprecond) (prm : kprm) (f : vec) (eps nr : S)
                     (fuel : nat) (x : vec) (w : gm_ws) (it : nat) (oof : bool) (ps : PS) : kres * gm_ws * PS :=
  let '(w0, ps0) :=
      if p_left prm
      then let v0 := k_residual f (A x) in
           let '(r, ps') := sp ps v0 (g_r w) in                     (* P.apply(v[0], r) *)
           (mkGmWs (g_H w) (g_s w) (g_cs w) (g_sn w) r (upd (g_v w) 0 v0) (g_z w), ps')
      else (mkGmWs (g_H w) (g_s w) (g_cs w) (g_sn w) (k_residual f (A x)) (g_v w) (g_z w), ps) in
  let norm_r := norm_b (g_r w0) in
  if sltb norm_r eps || Nat.leb (p_maxiter prm) it then (mkRes it (norm_r / nr) x oof, w0, ps0)
  else match fuel with
       | O => (mkRes it (norm_r / nr) x true, w0, ps0)
       | SS k => let '(x', r, ps1) := gm_cycle_sp A sp prm eps norm_r x w0 it ps0 in
                 gm_outer_sp A sp prm f eps nr k x' (n_ws r) (n_it r) (oof || n_oof r) ps1
       end.

Fixpoint fg_outer_sp (A : vec -> vec) (sp : sprecond) (prm : kprm) (f : vec) (eps nr : S)
                     (fuel : nat) (x : vec) (w : gm_ws) (it : nat) (oof : bool) (ps : PS) : kres * gm_ws * PS :=
  let w0 := mkGmWs (g_H w) (g_s w) (g_cs w) (g_sn w) (g_r w) (upd (g_v w) 0 (k_residual f (A x))) (g_z w) in
  let norm_r := norm_b (g_v w0 0) in
  if sltb norm_r eps || Nat.leb (p_maxiter prm) it then (mkRes it (norm_r / nr) x oof, w0, ps)
  else match fuel with
       | O => (mkRes it (norm_r / nr) x true, w0, ps)
       | SS k => let '(x', r, ps1) := fg_cycle_sp A sp prm eps norm_r x w0 it ps in
                 fg_outer_sp A sp prm f eps nr k x' (n_ws r) (n_it r) (oof || n_oof r) ps1
       end.

Definition gmres_sp (A : vec -> vec) (sp : sprecond) (prm : kprm) (f x0 : vec) (junk : gm_ws) (ps : PS)
  : kout * gm_ws * PS :=
  match k_prologue norm_b prm f with
  | Trivial nr => (k_trivial nr x0, junk, ps)
  | Go nr =>
    let eps := smax (p_tol prm * nr) (p_abstol prm) in
    let '(r, w, ps') := gm_outer_sp A sp prm f eps nr (SS (p_maxiter prm)) x0 junk 0 false ps in
    (KOk r, w, ps')
  end.

Definition fgmres_sp (A : vec -> vec) (sp : sprecond) (prm : kprm) (f x0 : vec) (junk : gm_ws) (ps : PS)
  : kout * gm_ws * PS :=
  match k_prologue norm_b prm f with
  | Trivial nr => (k_trivial nr x0, junk, ps)
  | Go nr =>
    let eps := smax (p_tol prm * nr) (p_abstol prm) in
    let '(r, w, ps') := fg_outer_sp A sp prm f eps nr (SS (p_maxiter prm)) x0 junk 0 false ps in
    (KOk r, w, ps')
  end.

(* the vectors allocated by the constructors for restart length M: gmres r, v[0..M];
   fgmres v[0..M], z[0..M-1] (the other members of the shared record are not touched) *)
Definition gm_sized (n M : nat) (w : gm_ws) : Prop :=
  length (g_r w) = n /\ forall i, i <= M -> length (g_v w i) = n.
Definition fg_sized (n M : nat) (w : gm_ws) : Prop :=
  (forall i, i <= M -> length (g_v w i) = n) /\ forall i, i < M -> length (g_z w i) = n.

(* ================================================================== *)
Section Sim.
Variable n M : nat.                    (* allocated vector length, allocated restart length *)
Variable Inv : PS -> Prop.
Variable sp : sprecond.
Variable pf : vec -> vec.
Hypothesis Hsim : simulates n Inv sp pf.
Variable A : vec -> vec.
Hypothesis A_len : forall v, length v = n -> length (A v) = n.

Let pf_len : forall r, length r = n -> length (pf r) = n := proj1 Hsim.
Let sp_ok : forall st r x, Inv st -> length r = n -> length x = n ->
    fst (sp st r x) = pf r /\ Inv (snd (sp st r x)) := proj2 Hsim.

Lemma mgs_len (v : nat -> vec) j ks : forall H (vnew : vec),
  (forall k, In k ks -> length (v k) = n) -> length vnew = n -> length (snd (mgs v j ks H vnew)) = n.
Proof.
  induction ks as [|k tl IH]; intros H vnew Hv L; simpl; [exact L|].
  apply IH; [intros i Hi; apply Hv; right; exact Hi|].
  apply sp_axpby_n; [apply Hv; left; reflexivity | exact L].
Qed.

(* the Arnoldi tail writes v[j+1] (length n) and nothing else among the vectors *)
Lemma arnoldi_tail_shape (w : gm_ws) j (vnew0 : vec) :
  (forall k, k <= j -> length (g_v w k) = n) -> length vnew0 = n ->
  g_r (fst (arnoldi_tail w j vnew0)) = g_r w /\ g_z (fst (arnoldi_tail w j vnew0)) = g_z w /\
  exists vn : vec, length vn = n /\ g_v (fst (arnoldi_tail w j vnew0)) = upd (g_v w) (SS j) vn.
Proof.
  intros Hv L0. unfold arnoldi_tail.
  assert (L1 : length (snd (mgs (g_v w) j (seq 0 (SS j)) (g_H w) vnew0)) = n).
  { apply mgs_len; [|exact L0]. intros k Hk. apply in_seq in Hk. apply Hv. lia. }
  destruct (mgs (g_v w) j (seq 0 (SS j)) (g_H w) vnew0) as [H1 vnew1]. cbn [snd] in L1.
  destruct (gen_rot _ _) as [c s]. destruct (app_rot _ _ _ _) as [a b]. destruct (app_rot _ _ _ _) as [sa sb].
  cbn [fst g_r g_z g_v]. split; [reflexivity|]. split; [reflexivity|].
  eexists. split; [|reflexivity]. apply sp_axpby_n; exact L1.
Qed.

Definition vinv (w : gm_ws) : Prop := forall i, i <= M -> length (g_v w i) = n.
Definition zinv (w : gm_ws) : Prop := forall i, i < M -> length (g_z w i) = n.
Definition gm_winv (w : gm_ws) : Prop := length (g_r w) = n /\ vinv w.
Definition fg_winv (w : gm_ws) : Prop := vinv w /\ zinv w.

Lemma vinv_upd (v : nat -> vec) i (x : vec) :
  (forall k, k <= M -> length (v k) = n) -> length x = n -> forall k, k <= M -> length (upd v i x k) = n.
Proof.
  intros Hv Lx k Hk. destruct (Nat.eq_dec k i) as [->|N]; [rewrite upd_eq; exact Lx|].
  rewrite upd_neq by exact N. apply Hv, Hk.
Qed.

(* ---- inner loop, generic in the body ---- *)
Lemma gm_inner_sp_sim (Winv : gm_ws -> Prop) (body_sp : gm_ws -> nat -> PS -> gm_ws * S * PS)
  (body : gm_ws -> nat -> gm_ws * S) maxiter Mp eps :
  (forall w j ps, j < Mp -> Winv w -> Inv ps ->
     fst (body_sp w j ps) = body w j /\ Inv (snd (body_sp w j ps)) /\ Winv (fst (body w j))) ->
  forall fuel w j it ps, j < Mp -> Winv w -> Inv ps ->
  fst (gm_inner_sp body_sp maxiter Mp eps fuel w j it ps) = gm_inner body maxiter Mp eps fuel w j it /\
  Inv (snd (gm_inner_sp body_sp maxiter Mp eps fuel w j it ps)) /\
  Winv (n_ws (gm_inner body maxiter Mp eps fuel w j it)) /\
  n_j (gm_inner body maxiter Mp eps fuel w j it) <= Mp.
Proof.
  intros Hb. induction fuel as [|k IH]; intros w j it ps Hj Hw Hi; simpl;
    destruct (Hb w j ps Hj Hw Hi) as (E & I1 & W1);
    destruct (body_sp w j ps) as [[w' ir] ps']; cbn [fst snd] in E, I1; rewrite <- E in *; cbn [fst] in W1;
    destruct (Nat.leb maxiter (SS it) || Nat.leb Mp (SS j) || negb (sltb eps ir)) eqn:Eb; cbn [fst snd n_ws n_j];
    try (split; [reflexivity|]; split; [exact I1|]; split; [exact W1 | lia]).
  apply Bool.orb_false_iff in Eb as [Eb _]. apply Bool.orb_false_iff in Eb as [_ Eb].
  apply Nat.leb_gt in Eb. apply IH; assumption.
Qed.

(* ---- GMRES ---- *)
Lemma gm_body_sp_sim left Mp (w : gm_ws) j ps : Mp <= M -> j < Mp -> gm_winv w -> Inv ps ->
  fst (gm_body_sp A sp left w j ps) = gm_body A pf left w j /\ Inv (snd (gm_body_sp A sp left w j ps)) /\
  gm_winv (fst (gm_body A pf left w j)).
Proof.
  intros HM Hj (Lr & Hv) I0. unfold gm_body_sp, gm_body.
  destruct (pspmv_sp_sim n Inv sp pf Hsim A A_len left ps (g_v w j) (g_v w (SS j)) (g_r w) I0
              (Hv j ltac:(lia)) (Hv (SS j) ltac:(lia)) Lr) as (E & I1 & L1 & L2).
  destruct (pspmv_sp left A sp ps (g_v w j) (g_v w (SS j)) (g_r w)) as [[vnew0 T] ps']. cbn [fst snd] in E, I1.
  rewrite <- E in *. cbn [fst snd] in L1, L2. clear E.
  cbn [fst snd]. split; [reflexivity|]. split; [exact I1|].
  destruct (arnoldi_tail_shape (mkGmWs (g_H w) (g_s w) (g_cs w) (g_sn w) T (g_v w) (g_z w)) j vnew0) as (Er & _ & vn & Lvn & Ev).
  { cbn [g_v]. intros k Hk. apply Hv. lia. }
  { exact L1. }
  unfold gm_winv, vinv. rewrite Er, Ev. cbn [g_r g_v]. split; [exact L2|].
  apply vinv_upd; assumption.
Qed.

Lemma cv_of_cvn (sv : nat -> S) (v : nat -> vec) j : (forall i, i < j -> length (v i) = n) -> cvn n (cv_of sv v j).
Proof.
  intros Hv p Hp. unfold cv_of in Hp. apply in_map_iff in Hp as (i & <- & Hi). apply in_seq in Hi.
  cbn [snd]. apply Hv. lia.
Qed.

Lemma gm_cycle_sp_sim prm eps norm_r (x : vec) (w : gm_ws) it ps :
  1 <= p_M prm <= M -> length x = n -> gm_winv w -> Inv ps ->
  fst (gm_cycle_sp A sp prm eps norm_r x w it ps) = gm_cycle A pf prm eps norm_r x w it /\
  Inv (snd (gm_cycle_sp A sp prm eps norm_r x w it ps)) /\
  length (fst (gm_cycle A pf prm eps norm_r x w it)) = n /\
  gm_winv (n_ws (snd (gm_cycle A pf prm eps norm_r x w it))).
Proof.
  intros HM Lx (Lr & Hv) I0. unfold gm_cycle_sp, gm_cycle. cbv zeta.
  match goal with |- context [gm_inner_sp ?bs ?mx ?Mp eps ?fu ?w1 0 it ps] =>
    assert (W1 : gm_winv w1);
    [| destruct (gm_inner_sp_sim gm_winv bs (gm_body A pf (p_left prm)) mx Mp eps
                   (fun w j ps Hj => gm_body_sp_sim (p_left prm) Mp w j ps (proj2 HM) Hj) fu w1 0 it ps
                   ltac:(lia) W1 I0) as (E & I1 & (Lr2 & Hv2) & Hj2);
       destruct (gm_inner_sp bs mx Mp eps fu w1 0 it ps) as [r ps1] ] end.
  { split; [exact Lr|]. unfold vinv; cbn [g_v]. apply vinv_upd; [exact Hv|]. apply sp_axpby_n; [exact Lr | apply Hv; lia]. }
  cbn [fst snd] in E, I1. subst r.
  set (r := gm_inner (gm_body A pf (p_left prm)) (p_maxiter prm) (p_M prm) eps (pred (p_M prm)) _ 0 it) in *.
  set (sv := backsub (g_H (n_ws r)) (rev (seq 0 (n_j r))) (g_s (n_ws r))).
  assert (Ldx : length (k_lin_comb (cv_of sv (g_v (n_ws r)) (n_j r)) s0 (g_r (n_ws r))) = n).
  { apply k_lin_comb_n; [|exact Lr2]. apply cv_of_cvn. intros i Hi. apply Hv2. lia. }
  destruct (p_left prm).
  - cbn [fst snd n_ws]. split; [reflexivity|]. split; [exact I1|]. split; [apply sp_axpby_n; assumption|].
    split; [exact Ldx | exact Hv2].
  - destruct (sp_ok ps1 _ (g_v (n_ws r) 0) I1 Ldx (Hv2 0 ltac:(lia))) as (E2 & I2).
    destruct (sp ps1 _ (g_v (n_ws r) 0)) as [tmp ps2]. cbn [fst snd] in E2, I2. subst tmp.
    cbn [fst snd n_ws]. split; [reflexivity|]. split; [exact I2|].
    assert (Lt : length (pf (k_lin_comb (cv_of sv (g_v (n_ws r)) (n_j r)) s0 (g_r (n_ws r)))) = n) by (apply pf_len; exact Ldx).
    split; [apply sp_axpby_n; assumption|]. split; [exact Ldx|]. unfold vinv; cbn [g_v]. apply vinv_upd; assumption.
Qed.

Lemma gm_outer_sp_sim prm (f : vec) eps nr fuel : 1 <= p_M prm <= M -> length f = n ->
  forall (x : vec) (w : gm_ws) it oof ps, length x = n -> gm_winv w -> Inv ps ->
  fst (gm_outer_sp A sp prm f eps nr fuel x w it oof ps) = gm_outer A pf prm f eps nr fuel x w it oof /\
  Inv (snd (gm_outer_sp A sp prm f eps nr fuel x w it oof ps)) /\
  gm_winv (snd (gm_outer A pf prm f eps nr fuel x w it oof)).
Proof.
  intros HM Lf.
  (* the first statement of the loop body: residual (and P.apply for left preconditioning) *)
  assert (H0 : forall (x : vec) (w : gm_ws) ps, length x = n -> gm_winv w -> Inv ps ->
    let o := if p_left prm
             then let v0 := k_residual f (A x) in
                  let '(r, ps') := sp ps v0 (g_r w) in
                  (mkGmWs (g_H w) (g_s w) (g_cs w) (g_sn w) r (upd (g_v w) 0 v0) (g_z w), ps')
             else (mkGmWs (g_H w) (g_s w) (g_cs w) (g_sn w) (k_residual f (A x)) (g_v w) (g_z w), ps) in
    let w0 := if p_left prm
              then let v0 := k_residual f (A x) in
                   mkGmWs (g_H w) (g_s w) (g_cs w) (g_sn w) (pf v0) (upd (g_v w) 0 v0) (g_z w)
              else mkGmWs (g_H w) (g_s w) (g_cs w) (g_sn w) (k_residual f (A x)) (g_v w) (g_z w) in
    fst o = w0 /\ Inv (snd o) /\ gm_winv w0).
  { intros x w ps Lx (Lr & Hv) I0. cbv zeta.
    assert (Lres : length (k_residual f (A x)) = n) by (apply sp_residual_n; [exact Lf | apply A_len; exact Lx]).
    destruct (p_left prm).
    - destruct (sp_ok ps (k_residual f (A x)) (g_r w) I0 Lres Lr) as (E & I1).
      destruct (sp ps (k_residual f (A x)) (g_r w)) as [r ps']. cbn [fst snd] in *. subst r.
      split; [reflexivity|]. split; [exact I1|]. split; [apply pf_len; exact Lres|].
      unfold vinv; cbn [g_v]. apply vinv_upd; assumption.
    - cbn [fst snd]. split; [reflexivity|]. split; [exact I0|]. split; [exact Lres | exact Hv]. }
  induction fuel as [|k IH]; intros x w it oof ps Lx Hw I0; simpl;
    destruct (H0 x w ps Lx Hw I0) as (E0 & I1 & W0); cbv zeta in E0, I1, W0;
    match type of E0 with fst ?o = _ => destruct o as [w0 ps0] end; cbn [fst snd] in E0, I1; subst w0;
    match goal with |- context [sltb ?a eps || ?b] => destruct (sltb a eps || b) end; cbn [fst snd];
    try (split; [reflexivity|]; split; [exact I1 | exact W0]).
  match goal with |- context [gm_cycle_sp A sp prm eps ?nrm x ?w0 it ps0] =>
    destruct (gm_cycle_sp_sim prm eps nrm x w0 it ps0 HM Lx W0 I1) as (E & I2 & Lx' & W2);
    destruct (gm_cycle_sp A sp prm eps nrm x w0 it ps0) as [[x' r] ps1];
    cbn [fst snd] in E, I2; rewrite <- E in *; cbn [fst snd] in Lx', W2 end.
  apply IH; assumption.
Qed.

Lemma gmres_sp_sim prm (f x0 : vec) ws ps : 1 <= p_M prm <= M ->
  length f = n -> length x0 = n -> gm_sized n M ws -> Inv ps ->
  fst (fst (gmres_sp A sp prm f x0 ws ps)) = fst (gmres A pf prm f x0 ws) /\
  snd (fst (gmres_sp A sp prm f x0 ws ps)) = snd (gmres A pf prm f x0 ws) /\
  Inv (snd (gmres_sp A sp prm f x0 ws ps)) /\ gm_sized n M (snd (fst (gmres_sp A sp prm f x0 ws ps))).
Proof.
  intros HM Lf Lx Hz I0. unfold gmres_sp, gmres.
  destruct (k_prologue norm_b prm f) as [nr|nr]; [cbn [fst snd]; auto|]. cbv zeta.
  match goal with |- context [gm_outer_sp A sp prm f ?e nr ?fu x0 ws 0 false ps] =>
    destruct (gm_outer_sp_sim prm f e nr fu HM Lf x0 ws 0 false ps Lx Hz I0) as (E & I1 & W1);
    destruct (gm_outer_sp A sp prm f e nr fu x0 ws 0 false ps) as [[r w] ps'];
    cbn [fst snd] in E, I1; rewrite <- E in * end.
  cbn [fst snd] in *. split; [reflexivity|]. split; [reflexivity|]. split; [exact I1 | exact W1].
Qed.

(* ---- FGMRES ---- *)
Lemma fg_body_sp_sim Mp (w : gm_ws) j ps : Mp <= M -> j < Mp -> fg_winv w -> Inv ps ->
  fst (fg_body_sp A sp w j ps) = fg_body A pf w j /\ Inv (snd (fg_body_sp A sp w j ps)) /\
  fg_winv (fst (fg_body A pf w j)).
Proof.
  intros HM Hj (Hv & Hzz) I0. unfold fg_body_sp, fg_body. cbv zeta.
  destruct (sp_ok ps (g_v w j) (g_z w j) I0 (Hv j ltac:(lia)) (Hzz j ltac:(lia))) as (E & I1).
  destruct (sp ps (g_v w j) (g_z w j)) as [zj ps']. cbn [fst snd] in E, I1. subst zj.
  cbn [fst snd]. split; [reflexivity|]. split; [exact I1|].
  assert (Lz : length (pf (g_v w j)) = n) by (apply pf_len, Hv; lia).
  destruct (arnoldi_tail_shape (mkGmWs (g_H w) (g_s w) (g_cs w) (g_sn w) (g_r w) (g_v w) (upd (g_z w) j (pf (g_v w j)))) j
              (A (pf (g_v w j)))) as (_ & Ez & vn & Lvn & Ev).
  { cbn [g_v]. intros k Hk. apply Hv. lia. }
  { apply A_len, Lz. }
  unfold fg_winv, vinv, zinv. rewrite Ez, Ev. cbn [g_z g_v]. split; [apply vinv_upd; assumption|].
  intros i Hi. destruct (Nat.eq_dec i j) as [->|N]; [rewrite upd_eq; exact Lz|].
  rewrite upd_neq by exact N. apply Hzz, Hi.
Qed.

Lemma fg_cycle_sp_sim prm eps norm_r (x : vec) (w : gm_ws) it ps :
  1 <= p_M prm <= M -> length x = n -> fg_winv w -> Inv ps ->
  fst (fg_cycle_sp A sp prm eps norm_r x w it ps) = fg_cycle A pf prm eps norm_r x w it /\
  Inv (snd (fg_cycle_sp A sp prm eps norm_r x w it ps)) /\
  length (fst (fg_cycle A pf prm eps norm_r x w it)) = n /\
  fg_winv (n_ws (snd (fg_cycle A pf prm eps norm_r x w it))).
Proof.
  intros HM Lx (Hv & Hzz) I0. unfold fg_cycle_sp, fg_cycle. cbv zeta.
  match goal with |- context [gm_inner_sp ?bs ?mx ?Mp eps ?fu ?w1 0 it ps] =>
    assert (W1 : fg_winv w1);
    [| destruct (gm_inner_sp_sim fg_winv bs (fg_body A pf) mx Mp eps
                   (fun w j ps Hj => fg_body_sp_sim Mp w j ps (proj2 HM) Hj) fu w1 0 it ps
                   ltac:(lia) W1 I0) as (E & I1 & (Hv2 & Hz2) & Hj2);
       destruct (gm_inner_sp bs mx Mp eps fu w1 0 it ps) as [r ps1] ] end.
  { split; [|exact Hzz]. unfold vinv; cbn [g_v]. apply vinv_upd; [exact Hv|]. apply sp_axpby_n; apply Hv; lia. }
  cbn [fst snd] in E, I1. subst r.
  cbn [fst snd n_ws]. split; [reflexivity|]. split; [exact I1|]. split; [|split; [exact Hv2 | exact Hz2]].
  apply k_lin_comb_n; [|exact Lx]. apply cv_of_cvn. intros i Hi. apply Hz2. lia.
Qed.

Lemma fg_outer_sp_sim prm (f : vec) eps nr fuel : 1 <= p_M prm <= M -> length f = n ->
  forall (x : vec) (w : gm_ws) it oof ps, length x = n -> fg_winv w -> Inv ps ->
  fst (fg_outer_sp A sp prm f eps nr fuel x w it oof ps) = fg_outer A pf prm f eps nr fuel x w it oof /\
  Inv (snd (fg_outer_sp A sp prm f eps nr fuel x w it oof ps)) /\
  fg_winv (snd (fg_outer A pf prm f eps nr fuel x w it oof)).
Proof.
  intros HM Lf.
  assert (H0 : forall (x : vec) (w : gm_ws), length x = n -> fg_winv w ->
    fg_winv (mkGmWs (g_H w) (g_s w) (g_cs w) (g_sn w) (g_r w) (upd (g_v w) 0 (k_residual f (A x))) (g_z w))).
  { intros x w Lx (Hv & Hzz). split; [|exact Hzz]. unfold vinv; cbn [g_v]. apply vinv_upd; [exact Hv|].
    apply sp_residual_n; [exact Lf | apply A_len; exact Lx]. }
  induction fuel as [|k IH]; intros x w it oof ps Lx Hw I0; cbn [fg_outer_sp fg_outer];
    pose proof (H0 x w Lx Hw) as W0;
    match goal with |- context [sltb ?a eps || ?b] => destruct (sltb a eps || b) end; cbn [fst snd];
    try (split; [reflexivity|]; split; [exact I0 | exact W0]).
  match goal with |- context [fg_cycle_sp A sp prm eps ?nrm x ?w0 it ps] =>
    destruct (fg_cycle_sp_sim prm eps nrm x w0 it ps HM Lx W0 I0) as (E & I2 & Lx' & W2);
    destruct (fg_cycle_sp A sp prm eps nrm x w0 it ps) as [[x' r] ps1];
    cbn [fst snd] in E, I2; rewrite <- E in *; cbn [fst snd] in Lx', W2 end.
  apply IH; assumption.
Qed.

Lemma fgmres_sp_sim prm (f x0 : vec) ws ps : 1 <= p_M prm <= M ->
  length f = n -> length x0 = n -> fg_sized n M ws -> Inv ps ->
  fst (fst (fgmres_sp A sp prm f x0 ws ps)) = fst (fgmres A pf prm f x0 ws) /\
  snd (fst (fgmres_sp A sp prm f x0 ws ps)) = snd (fgmres A pf prm f x0 ws) /\
  Inv (snd (fgmres_sp A sp prm f x0 ws ps)) /\ fg_sized n M (snd (fst (fgmres_sp A sp prm f x0 ws ps))).
Proof.
  intros HM Lf Lx Hz I0. unfold fgmres_sp, fgmres.
  destruct (k_prologue norm_b prm f) as [nr|nr]; [cbn [fst snd]; auto|]. cbv zeta.
  match goal with |- context [fg_outer_sp A sp prm f ?e nr ?fu x0 ws 0 false ps] =>
    destruct (fg_outer_sp_sim prm f e nr fu HM Lf x0 ws 0 false ps Lx Hz I0) as (E & I1 & W1);
    destruct (fg_outer_sp A sp prm f e nr fu x0 ws 0 false ps) as [[r w] ps'];
    cbn [fst snd] in E, I1; rewrite <- E in * end.
  cbn [fst snd] in *. split; [reflexivity|]. split; [reflexivity|]. split; [exact I1 | exact W1].
Qed.

End Sim.

(* ---- the simulation theorems; M = restart length the object was allocated for, the call uses
        prm.M (the C++ reads the member prm, so prm.M = M; any 1 <= prm.M <= M is covered) ---- *)
Theorem gmres_sp_simulated n M (Inv : PS -> Prop) (sp : sprecond) (pf A : vec -> vec) prm (f x0 : vec) (ws : gm_ws) (ps : PS) :
  simulates n Inv sp pf -> (forall v, length v = n -> length (A v) = n) -> 1 <= p_M prm <= M ->
  length f = n -> length x0 = n -> gm_sized n M ws -> Inv ps ->
  fst (fst (gmres_sp A sp prm f x0 ws ps)) = fst (gmres A pf prm f x0 ws) /\
  snd (fst (gmres_sp A sp prm f x0 ws ps)) = snd (gmres A pf prm f x0 ws) /\
  Inv (snd (gmres_sp A sp prm f x0 ws ps)) /\ gm_sized n M (snd (fst (gmres_sp A sp prm f x0 ws ps))).
Proof. intros Hs HA. exact (gmres_sp_sim n M Inv sp pf Hs A HA prm f x0 ws ps). Qed.

Theorem fgmres_sp_simulated n M (Inv : PS -> Prop) (sp : sprecond) (pf A : vec -> vec) prm (f x0 : vec) (ws : gm_ws) (ps : PS) :
  simulates n Inv sp pf -> (forall v, length v = n -> length (A v) = n) -> 1 <= p_M prm <= M ->
  length f = n -> length x0 = n -> fg_sized n M ws -> Inv ps ->
  fst (fst (fgmres_sp A sp prm f x0 ws ps)) = fst (fgmres A pf prm f x0 ws) /\
  snd (fst (fgmres_sp A sp prm f x0 ws ps)) = snd (fgmres A pf prm f x0 ws) /\
  Inv (snd (fgmres_sp A sp prm f x0 ws ps)) /\ fg_sized n M (snd (fst (fgmres_sp A sp prm f x0 ws ps))).
Proof. intros Hs HA. exact (fgmres_sp_sim n M Inv sp pf Hs A HA prm f x0 ws ps). Qed.

(* ================================================================== *)
(* the composite object: call histories                                *)
Definition gm_call_ok (n M : nat) (c : kcall) : Prop := call_ok n c /\ 1 <= p_M (kc_prm c) <= M.

Definition gm_obj_call (sp : sprecond) (c : kcall) (o : gm_ws * PS) : kout * (gm_ws * PS) := obj_call gm_ws gmres_sp sp c o.
Definition gm_obj_history (sp : sprecond) (hist : list kcall) (o : gm_ws * PS) : gm_ws * PS := obj_history gm_ws gmres_sp sp hist o.
Definition fg_obj_call (sp : sprecond) (c : kcall) (o : gm_ws * PS) : kout * (gm_ws * PS) := obj_call gm_ws fgmres_sp sp c o.
Definition fg_obj_history (sp : sprecond) (hist : list kcall) (o : gm_ws * PS) : gm_ws * PS := obj_history gm_ws fgmres_sp sp hist o.

Theorem gmres_object_reuse n M (Inv : PS -> Prop) (sp : sprecond) (pf : vec -> vec) hist c (ws0 wsf : gm_ws) (ps0 psf : PS) :
  is_zero (@s0 S) = true ->
  simulates n Inv sp pf -> Forall (gm_call_ok n M) hist -> gm_call_ok n M c ->
  gm_sized n M ws0 -> Inv ps0 -> gm_sized n M wsf -> Inv psf ->
  fst (gm_obj_call sp c (gm_obj_history sp hist (ws0, ps0))) = fst (gm_obj_call sp c (wsf, psf)).
Proof.
  intros Hz Hs Hh Hc Z0 I0 Zf If.
  apply (obj_reuse gm_ws gmres_sp gmres (gm_sized n M) (gm_call_ok n M) Inv sp pf); try assumption; try (split; assumption).
  - intros c0 ws ps ((HA & Lf & Lx) & HM) Zw Ip.
    destruct (gmres_sp_simulated n M Inv sp pf (kc_A c0) (kc_prm c0) (kc_f c0) (kc_x0 c0) ws ps Hs HA HM Lf Lx Zw Ip) as (E1 & _ & E3 & E4).
    split; [exact E1 | split; [exact E3 | exact E4]].
  - intros A prm f x0 j1 j2. apply (gmres_junk_independent Hz).
Qed.

Theorem gmres_object_call_pure n M (Inv : PS -> Prop) (sp : sprecond) (pf : vec -> vec) hist c (ws0 junk : gm_ws) (ps0 : PS) :
  is_zero (@s0 S) = true ->
  simulates n Inv sp pf -> Forall (gm_call_ok n M) hist -> gm_call_ok n M c -> gm_sized n M ws0 -> Inv ps0 ->
  fst (gm_obj_call sp c (gm_obj_history sp hist (ws0, ps0))) = fst (gmres (kc_A c) pf (kc_prm c) (kc_f c) (kc_x0 c) junk).
Proof.
  intros Hz Hs Hh Hc Z0 I0.
  apply (obj_call_pure gm_ws gmres_sp gmres (gm_sized n M) (gm_call_ok n M) Inv sp pf); try assumption; try (split; assumption).
  - intros c0 ws ps ((HA & Lf & Lx) & HM) Zw Ip.
    destruct (gmres_sp_simulated n M Inv sp pf (kc_A c0) (kc_prm c0) (kc_f c0) (kc_x0 c0) ws ps Hs HA HM Lf Lx Zw Ip) as (E1 & _ & E3 & E4).
    split; [exact E1 | split; [exact E3 | exact E4]].
  - intros A prm f x0 j1 j2. apply (gmres_junk_independent Hz).
Qed.

Theorem fgmres_object_reuse n M (Inv : PS -> Prop) (sp : sprecond) (pf : vec -> vec) hist c (ws0 wsf : gm_ws) (ps0 psf : PS) :
  simulates n Inv sp pf -> Forall (gm_call_ok n M) hist -> gm_call_ok n M c ->
  fg_sized n M ws0 -> Inv ps0 -> fg_sized n M wsf -> Inv psf ->
  fst (fg_obj_call sp c (fg_obj_history sp hist (ws0, ps0))) = fst (fg_obj_call sp c (wsf, psf)).
Proof.
  intros Hs Hh Hc Z0 I0 Zf If.
  apply (obj_reuse gm_ws fgmres_sp fgmres (fg_sized n M) (gm_call_ok n M) Inv sp pf); try assumption; try (split; assumption).
  - intros c0 ws ps ((HA & Lf & Lx) & HM) Zw Ip.
    destruct (fgmres_sp_simulated n M Inv sp pf (kc_A c0) (kc_prm c0) (kc_f c0) (kc_x0 c0) ws ps Hs HA HM Lf Lx Zw Ip) as (E1 & _ & E3 & E4).
    split; [exact E1 | split; [exact E3 | exact E4]].
  - intros A prm f x0 j1 j2. apply fgmres_junk_independent.
Qed.

Theorem fgmres_object_call_pure n M (Inv : PS -> Prop) (sp : sprecond) (pf : vec -> vec) hist c (ws0 junk : gm_ws) (ps0 : PS) :
  simulates n Inv sp pf -> Forall (gm_call_ok n M) hist -> gm_call_ok n M c -> fg_sized n M ws0 -> Inv ps0 ->
  fst (fg_obj_call sp c (fg_obj_history sp hist (ws0, ps0))) = fst (fgmres (kc_A c) pf (kc_prm c) (kc_f c) (kc_x0 c) junk).
Proof.
  intros Hs Hh Hc Z0 I0.
  apply (obj_call_pure gm_ws fgmres_sp fgmres (fg_sized n M) (gm_call_ok n M) Inv sp pf); try assumption; try (split; assumption).
  - intros c0 ws ps ((HA & Lf & Lx) & HM) Zw Ip.
    destruct (fgmres_sp_simulated n M Inv sp pf (kc_A c0) (kc_prm c0) (kc_f c0) (kc_x0 c0) ws ps Hs HA HM Lf Lx Zw Ip) as (E1 & _ & E3 & E4).
    split; [exact E1 | split; [exact E3 | exact E4]].
  - intros A prm f x0 j1 j2. apply fgmres_junk_independent.
Qed.

End StatePassing3.

(* ================================================================== *)
(* stateless preconditioner: the state-passing text is the pure text   *)
Section Stateless3.
Context {S : Scalar}.
Local Notation vec := (vec S).
Local Notation gm_ws := (@gm_ws S).
Variables A P : vec -> vec.
Local Notation spP := (fun (_ : unit) (r _ : vec) => (P r, tt)).

Lemma gm_inner_sp_stateless (body_sp : gm_ws -> nat -> unit -> gm_ws * S * unit) (body : gm_ws -> nat -> gm_ws * S)
  maxiter M eps : (forall w j u, body_sp w j u = (body w j, tt)) ->
  forall fuel w j it u, gm_inner_sp body_sp maxiter M eps fuel w j it u = (gm_inner body maxiter M eps fuel w j it, tt).
Proof.
  intro Hb. induction fuel as [|k IH]; intros w j it u; simpl; rewrite Hb; destruct (body w j) as [w' ir];
    destruct (Nat.leb maxiter (SS it) || Nat.leb M (SS j) || negb (sltb eps ir)); try reflexivity.
  apply IH.
Qed.

Lemma gm_body_sp_stateless left (w : gm_ws) j u : gm_body_sp A spP left w j u = (gm_body A P left w j, tt).
Proof.
  unfold gm_body_sp, gm_body. rewrite (pspmv_sp_stateless A P). destruct (pspmv left A P (g_v w j)) as [vnew0 T].
  reflexivity.
Qed.

Lemma fg_body_sp_stateless (w : gm_ws) j u : fg_body_sp A spP w j u = (fg_body A P w j, tt).
Proof. reflexivity. Qed.

Lemma gm_cycle_sp_stateless prm eps norm_r (x : vec) (w : gm_ws) it u :
  gm_cycle_sp A spP prm eps norm_r x w it u = (gm_cycle A P prm eps norm_r x w it, tt).
Proof.
  unfold gm_cycle_sp, gm_cycle. cbv zeta.
  rewrite (gm_inner_sp_stateless _ (gm_body A P (p_left prm))) by (intros; apply gm_body_sp_stateless).
  destruct (p_left prm); reflexivity.
Qed.

Lemma fg_cycle_sp_stateless prm eps norm_r (x : vec) (w : gm_ws) it u :
  fg_cycle_sp A spP prm eps norm_r x w it u = (fg_cycle A P prm eps norm_r x w it, tt).
Proof.
  unfold fg_cycle_sp, fg_cycle. cbv zeta.
  rewrite (gm_inner_sp_stateless _ (fg_body A P)) by (intros; apply fg_body_sp_stateless).
  reflexivity.
Qed.

Lemma gm_outer_sp_stateless prm (f : vec) eps nr fuel : forall (x : vec) (w : gm_ws) it oof u,
  gm_outer_sp A spP prm f eps nr fuel x w it oof u = (gm_outer A P prm f eps nr fuel x w it oof, tt).
Proof.
  induction fuel as [|k IH]; intros x w it oof []; cbn [gm_outer_sp gm_outer];
    destruct (p_left prm) eqn:El; cbv beta iota zeta;
    match goal with |- context [sltb ?a eps || ?b] => destruct (sltb a eps || b) end; try reflexivity;
    rewrite gm_cycle_sp_stateless;
    match goal with |- context [gm_cycle A P prm eps ?nrm x ?w0 it] => destruct (gm_cycle A P prm eps nrm x w0 it) as [x' r] end;
    apply IH.
Qed.

Lemma fg_outer_sp_stateless prm (f : vec) eps nr fuel : forall (x : vec) (w : gm_ws) it oof u,
  fg_outer_sp A spP prm f eps nr fuel x w it oof u = (fg_outer A P prm f eps nr fuel x w it oof, tt).
Proof.
  induction fuel as [|k IH]; intros x w it oof []; cbn [fg_outer_sp fg_outer];
    match goal with |- context [sltb ?a eps || ?b] => destruct (sltb a eps || b) end; try reflexivity;
    rewrite fg_cycle_sp_stateless;
    match goal with |- context [fg_cycle A P prm eps ?nrm x ?w0 it] => destruct (fg_cycle A P prm eps nrm x w0 it) as [x' r] end;
    apply IH.
Qed.

Theorem gmres_sp_stateless prm (f x0 : vec) ws u :
  gmres_sp A (fun (_ : unit) (r _ : vec) => (P r, tt)) prm f x0 ws u = (gmres A P prm f x0 ws, tt).
Proof.
  unfold gmres_sp, gmres. destruct (k_prologue norm_b prm f) as [nr|nr]; [destruct u; reflexivity|].
  cbv zeta. rewrite gm_outer_sp_stateless.
  match goal with |- context [gm_outer A P prm f ?e nr ?fu x0 ws 0 false] => destruct (gm_outer A P prm f e nr fu x0 ws 0 false) end.
  reflexivity.
Qed.

Theorem fgmres_sp_stateless prm (f x0 : vec) ws u :
  fgmres_sp A (fun (_ : unit) (r _ : vec) => (P r, tt)) prm f x0 ws u = (fgmres A P prm f x0 ws, tt).
Proof.
  unfold fgmres_sp, fgmres. destruct (k_prologue norm_b prm f) as [nr|nr]; [destruct u; reflexivity|].
  cbv zeta. rewrite fg_outer_sp_stateless.
  match goal with |- context [fg_outer A P prm f ?e nr ?fu x0 ws 0 false] => destruct (fg_outer A P prm f e nr fu x0 ws 0 false) end.
  reflexivity.
Qed.
End Stateless3.

(* ================================================================== *)
(* the preconditioner object is amgcl::amg                             *)
Section AmgInstance3.
Context {S : Scalar}.
Local Notation vec := (vec S).
Local Notation level := (@level S).
Local Notation scratch := (@scratch S).
Local Notation kcall := (@kcall S).
Local Notation gm_ws := (@gm_ws S).
Variables npre npost ncycle pre_cycles : nat.
Local Notation amg_sp := (amg_sp npre npost ncycle pre_cycles).

(* make_solver<amg, gmres> / make_solver<amg, fgmres>: a call after ANY history of earlier calls
   (other right-hand sides, initial guesses, parameters with 1 <= M' <= M, system matrices) = the same
   call on a fresh object (any sized workspace + any well-formed scratch) *)
Theorem make_solver_amg_gmres_reuse (lvls : list level) M (hist : list kcall) (c : kcall)
  (ws0 wsf : gm_ws) (scr0 scrf : list scratch) :
  is_zero (@s0 S) = true -> hier_wf lvls -> lvls <> [] ->
  Forall (gm_call_ok (top_n lvls) M) hist -> gm_call_ok (top_n lvls) M c ->
  gm_sized (top_n lvls) M ws0 -> scratch_wf lvls scr0 -> gm_sized (top_n lvls) M wsf -> scratch_wf lvls scrf ->
  fst (gm_obj_call (amg_sp lvls) c (gm_obj_history (amg_sp lvls) hist (ws0, scr0))) =
  fst (gm_obj_call (amg_sp lvls) c (wsf, scrf)).
Proof.
  intros Hz Hh Hne HH Hc Z0 W0 Zf Wf.
  exact (gmres_object_reuse (top_n lvls) M (scratch_wf lvls) (amg_sp lvls) _ hist c ws0 wsf scr0 scrf Hz
           (amg_simulates npre npost ncycle pre_cycles lvls scr0 Hz Hh Hne W0) HH Hc Z0 W0 Zf Wf).
Qed.

Theorem make_solver_amg_fgmres_reuse (lvls : list level) M (hist : list kcall) (c : kcall)
  (ws0 wsf : gm_ws) (scr0 scrf : list scratch) :
  is_zero (@s0 S) = true -> hier_wf lvls -> lvls <> [] ->
  Forall (gm_call_ok (top_n lvls) M) hist -> gm_call_ok (top_n lvls) M c ->
  fg_sized (top_n lvls) M ws0 -> scratch_wf lvls scr0 -> fg_sized (top_n lvls) M wsf -> scratch_wf lvls scrf ->
  fst (fg_obj_call (amg_sp lvls) c (fg_obj_history (amg_sp lvls) hist (ws0, scr0))) =
  fst (fg_obj_call (amg_sp lvls) c (wsf, scrf)).
Proof.
  intros Hz Hh Hne HH Hc Z0 W0 Zf Wf.
  exact (fgmres_object_reuse (top_n lvls) M (scratch_wf lvls) (amg_sp lvls) _ hist c ws0 wsf scr0 scrf
           (amg_simulates npre npost ncycle pre_cycles lvls scr0 Hz Hh Hne W0) HH Hc Z0 W0 Zf Wf).
Qed.
End AmgInstance3.
