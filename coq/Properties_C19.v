(* Properties_C19.v -- placeholder while the proofs are being developed (replaced below). *)
From Amgcl Require Import MMFormat BinFormat.
Theorem C19_placeholder : mm_current <> mm_checked.
Proof. discriminate. Qed.
Print Assumptions C19_placeholder.
