(* Properties_C19.v -- C19: matrix/vector files round-trip exactly; bad files fail cleanly.
   Statements only; proofs live in IoProofsMM.v / IoProofsBin.v / IoProofs.v, models in
   MMFormat.v (MatrixMarket, over lines of tokens; value text conversion is an ORACLE pair
   vprint/vread whose only law, vread (vprint v ++ rest) = Some (v, rest), is a hypothesis of
   the round-trip theorems alone) and BinFormat.v (binary, over byte lists, no oracle).

   The readers of /repo are modelled by mm_checked / read_crs true (all preconditions of the
   fix: commits a04dd9c, 7c1d34c, 3c662b9, 6a14a6a).  These are the models the correspondence
   harness (tools/props/C19.py, default flags "1111") runs against the real code, and the
   MAIN SAFETY THEOREMS are about them:
       C19_mm_read_checked_safe, C19_mm_readd_checked_safe, C19_bin_read_checked_safe
   (every file / byte list, every value oracle, every row range: exception or structurally
   valid matrix, never an out-of-bounds access).  Error EOOB is the model-level image of an
   out-of-bounds access (all indexing in the models goes through bounds-checked accessors), so
   "never EOOB" is a theorem, not an artefact.  Round trip, row-range, symmetric-expansion and
   error theorems hold for any flags, hence for the readers as they are.

   HISTORICAL: the theorems named ..._refuted / ..._example at the end of each part are about
   the readers BEFORE the repairs (mm_current = all checks off, read_crs false).  Each is a
   concrete damaged file on which the old reader returned an invalid matrix or indexed out of
   bounds; each was replayed on the old code under AddressSanitizer (findings C19-*, status
   fixed) and is still replayed every run on the current code, which now rejects it
   (C19_mm_read_checked_rejects_damaged, C19_bin_read_checked_rejects_witness). *)
From Coq Require Import List ZArith String.
From Amgcl Require Import IoProofs.
Import ListNotations.

(* integers as text (sizes, indices, integer values): parse (print z) = z -- concrete, no oracle *)
Theorem C19_int_text_roundtrip :
  forall (z : Z) (rest : list string),
         (- two63 <= z < two63)%Z ->
         read_int true (print_Z z :: rest) = Some (z, rest).
Proof. exact read_int_print_signed. Qed.
Print Assumptions C19_int_text_roundtrip.

(* the value-oracle law is a THEOREM for integer matrices *)
Theorem C19_int_value_oracle_law :
  forall (bits z : Z) (rest : list string),
         (0 < bits <= 64)%Z ->
         (- 2 ^ (bits - 1) <= z < 2 ^ (bits - 1))%Z ->
         vread_int bits (vprint_int z ++ rest) = Some (z, rest).
Proof. exact vread_int_vprint_int. Qed.
Print Assumptions C19_int_value_oracle_law.

(* ... and is inherited by complex values from the scalar oracle *)
Theorem C19_complex_value_oracle_law :
  forall (R : Type) (rprint : R -> string)
           (rread : list string -> option (R * list string)),
         (forall (x : R) (rest : list string),
          rread (rprint x :: rest) = Some (x, rest)) ->
         forall (z : R * R) (rest : list string),
         vread_complex R rread (vprint_complex R rprint z ++ rest) =
         Some (z, rest).
Proof. exact vread_complex_vprint_complex. Qed.
Print Assumptions C19_complex_value_oracle_law.

(* detail::sort_row (insertion sort as coded) returns a sorted permutation *)
Theorem C19_sort_row_spec :
  forall (V : Type) (r : list (Z * V)),
         Permutation.Permutation r (sort_row r) /\
         Sorted.StronglySorted (fun a b : Z * V => (fst a <= fst b)%Z)
           (sort_row r).
Proof. exact sort_row_perm_sorted. Qed.
Print Assumptions C19_sort_row_spec.

(* A1: mm_read (mm_write A) = Ok (sort_rows A), any flags (so: the reader as it is) *)
Theorem C19_mm_roundtrip :
  forall (V : Type) (vwidth : Z) (vprint : V -> list string)
           (vread : list string -> option (V * list string)),
         (forall (v : V) (rest : list string),
          vread (vprint v ++ rest) = Some (v, rest)) ->
         forall (fl : mm_flags) (k : kind) (A : crs V),
         wf A = true ->
         nrows A = Z.of_nat (Datatypes.length (rows A)) ->
         (0 <= ncols A < two63)%Z ->
         alloc_ok (nnz A) 8 = true ->
         alloc_ok (nnz A) vwidth = true ->
         alloc_ok (nrows A + 1) 8 = true ->
         mm_read V vwidth vread fl k (mm_write_sparse V vprint k A) (-1) (-1) =
         Ok (sort_rows A).
Proof. exact mm_read_write_roundtrip. Qed.
Print Assumptions C19_mm_roundtrip.

(* A1+A2 on written files *)
Theorem C19_mm_roundtrip_range :
  forall (V : Type) (vwidth : Z) (vprint : V -> list string)
           (vread : list string -> option (V * list string)),
         (forall (v : V) (rest : list string),
          vread (vprint v ++ rest) = Some (v, rest)) ->
         forall (fl : mm_flags) (k : kind) (A : crs V) (r0 r1 : Z),
         wf A = true ->
         nrows A = Z.of_nat (Datatypes.length (rows A)) ->
         (0 <= ncols A < two63)%Z ->
         alloc_ok (nnz A) 8 = true ->
         alloc_ok (nnz A) vwidth = true ->
         alloc_ok (nrows A + 1) 8 = true ->
         (0 <= r0)%Z ->
         (r0 <= r1)%Z ->
         (r1 <= nrows A)%Z ->
         mm_read V vwidth vread fl k (mm_write_sparse V vprint k A) r0 r1 =
         Ok (slice r0 r1 (sort_rows A)).
Proof. exact mm_read_write_range_roundtrip. Qed.
Print Assumptions C19_mm_roundtrip_range.

(* A1 dense vector/array variant *)
Theorem C19_mm_dense_roundtrip :
  forall (V : Type) (vwidth : Z) (vprint : V -> list string)
           (vread : list string -> option (V * list string)),
         (forall (v : V) (rest : list string),
          vread (vprint v ++ rest) = Some (v, rest)) ->
         forall (fl : mm_flags) (k : kind) (nr nc : Z) (data : list V),
         (0 <= nr < two63)%Z ->
         (0 <= nc < two63)%Z ->
         Datatypes.length data = Z.to_nat (nr * nc) ->
         alloc_ok (nr * nc) vwidth = true ->
         exists f : list line,
           mm_write_dense V vprint k nr nc data = Ok f /\
           mm_readd V vwidth vread fl k f (-1) (-1) =
           Ok {| d_rows := nr; d_cols := nc; d_val := map Some data |}.
Proof. exact mm_readd_write_roundtrip. Qed.
Print Assumptions C19_mm_dense_roundtrip.

(* A2: for ANY file and ANY value oracle, a row-range read is the slice of the full read *)
Theorem C19_mm_range_is_slice :
  forall (V : Type) (vwidth : Z)
           (vread : list string -> option (V * list string)) 
           (fl : mm_flags) (vk : kind) (f : list line) 
           (r0 r1 : Z) (A : crs V),
         mm_read V vwidth vread fl vk f (-1) (-1) = Ok A ->
         (0 <= r0)%Z ->
         (r0 <= r1)%Z ->
         (r1 <= nrows A)%Z ->
         mm_read V vwidth vread fl vk f r0 r1 = Ok (slice r0 r1 A).
Proof. exact mm_read_range_is_slice. Qed.
Print Assumptions C19_mm_range_is_slice.

(* A3: symmetric storage is expanded (independent specification expand_row) *)
Theorem C19_mm_symmetric_expands :
  forall (V : Type) (vwidth : Z) (vprint : V -> list string)
           (vread : list string -> option (V * list string)),
         (forall (v : V) (rest : list string),
          vread (vprint v ++ rest) = Some (v, rest)) ->
         forall (fl : mm_flags) (k : kind) (n : Z) (L : list (Z * Z * V)),
         (0 <= n < two63)%Z ->
         good_entries V n n L ->
         alloc_ok (2 * Z.of_nat (Datatypes.length L)) 8 = true ->
         alloc_ok (2 * Z.of_nat (Datatypes.length L)) vwidth = true ->
         alloc_ok (n + 1) 8 = true ->
         mm_read V vwidth vread fl k
           ({|
              l_comment := true;
              l_toks :=
                "%%MatrixMarket"%string
                :: "matrix"%string
                   :: "coordinate"%string
                      :: kind_word k :: "symmetric"%string :: nil
            |}
            :: {|
                 l_comment := false;
                 l_toks :=
                   print_Z n
                   :: print_Z n
                      :: print_Z (Z.of_nat (Datatypes.length L)) :: nil
               |} :: gen_lines V vprint L) (-1) (-1) =
         Ok
           {|
             nrows := n;
             ncols := n;
             rows :=
               map (fun r : nat => sort_row (expand_row V true (Z.of_nat r) L))
                 (seq 0 (Z.to_nat n))
           |}.
Proof. exact mm_read_symmetric_expands. Qed.
Print Assumptions C19_mm_symmetric_expands.

(* A3: off-diagonal entries mirrored, diagonal entries once *)
Theorem C19_mm_symmetric_diag_once :
  forall (V : Type) (i j : Z) (v : V),
         expand_row V true i ((i, i, v) :: nil) = (i, v) :: nil /\
         (i <> j ->
          expand_row V true i ((i, j, v) :: nil) = (j, v) :: nil /\
          expand_row V true j ((i, j, v) :: nil) = (i, v) :: nil) /\
         (forall r : Z,
          r <> i -> r <> j -> expand_row V true r ((i, j, v) :: nil) = nil) /\
         expand_row V false i ((i, j, v) :: nil) = (j, v) :: nil /\
         (i <> j -> expand_row V false j ((i, j, v) :: nil) = nil).
Proof. exact mm_symmetric_diag_once. Qed.
Print Assumptions C19_mm_symmetric_diag_once.

(* A4: fewer data lines than announced => exception (never Ok, never out of bounds), any range, any flags *)
Theorem C19_mm_truncated_is_error :
  forall (V : Type) (vwidth : Z)
           (vread : list string -> option (V * list string)) 
           (fl : mm_flags) (vk : kind) (h : header) 
           (rb re n m nz : Z) (t1 t2 t3 : list string),
         read_int true (h_size h) = Some (n, t1) ->
         read_int true t1 = Some (m, t2) ->
         read_int false t2 = Some (nz, t3) ->
         (Z.of_nat (Datatypes.length (h_body h)) < nz)%Z ->
         exists e : err,
           mm_read_sparse V vwidth vread fl vk h rb re = Error e /\ e <> EOOB.
Proof. exact mm_truncated_is_error. Qed.
Print Assumptions C19_mm_truncated_is_error.

(* A4: a written file cut before its last (any) line => exception *)
Theorem C19_mm_write_truncated_is_error :
  forall (V : Type) (vwidth : Z) (vprint : V -> list string)
           (vread : list string -> option (V * list string)) 
           (fl : mm_flags) (k : kind) (A : crs V) (j : nat) 
           (rb re : Z),
         nrows A = Z.of_nat (Datatypes.length (rows A)) ->
         (0 <= ncols A < two63)%Z ->
         alloc_ok (nnz A) 8 = true ->
         alloc_ok (nrows A + 1) 8 = true ->
         j < Datatypes.length (mm_write_sparse V vprint k A) ->
         is_exception
           (mm_read V vwidth vread fl k
              (firstn j (mm_write_sparse V vprint k A)) rb re) = true.
Proof. exact mm_write_truncated_is_error. Qed.
Print Assumptions C19_mm_write_truncated_is_error.

(* A4: wrong banner word *)
Theorem C19_mm_bad_banner_is_error :
  forall (b : line) (rest : list line)
           (banner mtx coord dtype storage : string) 
           (tl : list string),
         l_toks b = banner :: mtx :: coord :: dtype :: storage :: tl ->
         banner <> "%%MatrixMarket"%string \/
         mtx <> "matrix"%string \/
         storage <> "general"%string /\ storage <> "symmetric"%string \/
         coord <> "coordinate"%string /\ coord <> "array"%string \/
         dtype <> "real"%string /\
         dtype <> "complex"%string /\ dtype <> "integer"%string ->
         mm_open (b :: rest) = Error EFormat.
Proof. exact mm_bad_banner_is_error. Qed.
Print Assumptions C19_mm_bad_banner_is_error.

Theorem C19_mm_short_banner_is_error :
  forall (b : line) (rest : list line),
         Datatypes.length (l_toks b) < 5 -> mm_open (b :: rest) = Error EFormat.
Proof. exact mm_short_banner_is_error. Qed.
Print Assumptions C19_mm_short_banner_is_error.

Theorem C19_mm_empty_file_is_error :
  mm_open nil = Error EFormat.
Proof. exact mm_empty_file_is_error. Qed.
Print Assumptions C19_mm_empty_file_is_error.

(* A4: wrong value kind *)
Theorem C19_mm_wrong_kind_is_error :
  forall (V : Type) (vwidth : Z)
           (vread : list string -> option (V * list string)) 
           (fl : mm_flags) (vk : kind) (h : header) 
           (rb re : Z),
         h_sparse h = true ->
         kind_complex vk <> kind_complex (h_kind h) \/
         kind_integer vk <> kind_integer (h_kind h) ->
         mm_read_sparse V vwidth vread fl vk h rb re = Error EKind.
Proof. exact mm_wrong_kind_is_error. Qed.
Print Assumptions C19_mm_wrong_kind_is_error.

(* A4 (reader as it is): inconsistent sizes -- an index outside the announced shape => exception *)
Theorem C19_mm_checked_index_is_error :
  forall (V : Type) (vread : list string -> option (V * list string))
           (fl : mm_flags) (symm : bool) (n m r0 r1 : Z) 
           (pre : list line) (l : line) (ls : list line) 
           (k : Z) (st st' : list (list (Z * V))) (rest' : list line) 
           (i1 : Z) (t1 : list string) (j1 : Z) (t2 : list string) 
           (v : V) (t3 : list string),
         chk_index fl = true ->
         Datatypes.length st = Z.to_nat (r1 - r0) ->
         (Z.of_nat (Datatypes.length pre) < k)%Z ->
         read_entries V vread fl symm n m r0 r1 pre
           (Z.of_nat (Datatypes.length pre)) st = Ok (st', rest') ->
         read_int true (l_toks l) = Some (i1, t1) ->
         read_int true t1 = Some (j1, t2) ->
         vread t2 = Some (v, t3) ->
         ~ ((0 <= i1 - 1 < n)%Z /\ (0 <= j1 - 1 < m)%Z) ->
         read_entries V vread fl symm n m r0 r1 (pre ++ l :: ls) k st =
         Error EFormat.
Proof. exact mm_checked_index_out_of_range_is_error_at. Qed.
Print Assumptions C19_mm_checked_index_is_error.

(* A4 (reader as it is): more data than announced => exception *)
Theorem C19_mm_checked_trailing_is_error :
  forall (V : Type) (vwidth : Z)
           (vread : list string -> option (V * list string)) 
           (fl : mm_flags) (vk : kind) (h : header) 
           (rb re n m nz r0 r1 : Z) (st : list (list (Z * V)))
           (rest : list line),
         chk_trailing fl = true ->
         sparse_pre vwidth fl vk h rb re = Ok (n, m, nz, r0, r1) ->
         read_entries V vread fl (h_symmetric h) n m r0 r1 
           (h_body h) nz (repeat nil (Z.to_nat (r1 - r0))) = 
         Ok (st, rest) ->
         forallb blank rest = false ->
         mm_read_sparse V vwidth vread fl vk h rb re = Error EFormat.
Proof. exact mm_checked_trailing_is_error. Qed.
Print Assumptions C19_mm_checked_trailing_is_error.

(* A5 MAIN SAFETY THEOREM (reader as it is): every file, every value oracle, every range: exception or wf matrix, never out of bounds *)
Theorem C19_mm_read_checked_safe :
  forall (V : Type) (vwidth : Z)
           (vread : list string -> option (V * list string)) 
           (vk : kind) (f : list line) (r0 r1 : Z),
         match mm_read V vwidth vread mm_checked vk f r0 r1 with
         | Ok A => wf A = true
         | Error e => e <> EOOB
         end.
Proof. exact mm_read_checked_safe. Qed.
Print Assumptions C19_mm_read_checked_safe.

(* A5 MAIN SAFETY THEOREM, dense reader as it is *)
Theorem C19_mm_readd_checked_safe :
  forall (V : Type) (vwidth : Z)
           (vread : list string -> option (V * list string)) 
           (vk : kind) (f : list line) (r0 r1 : Z),
         match mm_readd V vwidth vread mm_checked vk f r0 r1 with
         | Ok d =>
             Datatypes.length (d_val V d) = Z.to_nat (d_rows V d * d_cols V d)
         | Error e => e <> EOOB
         end.
Proof. exact mm_readd_checked_safe. Qed.
Print Assumptions C19_mm_readd_checked_safe.

(* HISTORICAL (pre-repair reader; holds for any flags): no out-of-bounds access for 0 <= row_beg <= row_end *)
Theorem C19_mm_read_no_oob_proper_range :
  forall (V : Type) (vwidth : Z)
           (vread : list string -> option (V * list string)) 
           (fl : mm_flags) (vk : kind) (f : list line) 
           (rb re : Z),
         (0 <= rb)%Z ->
         (rb <= re)%Z -> mm_read V vwidth vread fl vk f rb re <> Error EOOB.
Proof. exact mm_read_no_oob_proper_range. Qed.
Print Assumptions C19_mm_read_no_oob_proper_range.

(* ... and for the default range unless the file announces nrows = -1 *)
Theorem C19_mm_read_current_no_oob_default_range :
  forall (V : Type) (vwidth : Z)
           (vread : list string -> option (V * list string)) 
           (fl : mm_flags) (vk : kind) (f : list line) 
           (rb re : Z),
         (rb < 0)%Z ->
         (re < 0)%Z ->
         mm_read V vwidth vread fl vk f rb re = Error EOOB ->
         exists (h : header) (t1 : list string),
           mm_open f = Ok h /\ read_int true (h_size h) = Some ((-1)%Z, t1).
Proof. exact mm_read_current_no_oob_default_range. Qed.
Print Assumptions C19_mm_read_current_no_oob_default_range.

(* HISTORICAL, reader before a04dd9c (mm_current): damaged file (column digit 2 -> 9) is accepted, result not wf *)
Theorem C19_mm_read_safe_refuted :
  exists (f : list line) (A : crs string),
           mm_read string 8
             (fun ts : list string =>
              match ts with
              | nil => None
              | t :: r => Some (t, r)
              end) mm_current KReal f (-1) (-1) = Ok A /\ 
           wf A = false.
Proof. exact mm_read_safe_refuted. Qed.
Print Assumptions C19_mm_read_safe_refuted.

(* HISTORICAL, reader before a04dd9c / 6a14a6a (mm_current): row index 9 > nrows: entry silently dropped *)
Theorem C19_mm_read_row_dropped_refuted :
  mm_read string 8 vread_tok mm_current KReal mm_damaged_row (-1) (-1) =
         Ok
           {|
             nrows := 3;
             ncols := 3;
             rows :=
               ((0%Z, "1.0"%string) :: nil)
               :: nil :: ((2%Z, "3.0"%string) :: nil) :: nil
           |}.
Proof. exact mm_read_row_dropped_refuted. Qed.
Print Assumptions C19_mm_read_row_dropped_refuted.

(* the reader as it is rejects both historical witnesses *)
Theorem C19_mm_read_checked_rejects_damaged :
  mm_read string 8 vread_tok mm_checked KReal mm_damaged_col (-1) (-1) =
         Error EFormat /\
         mm_read string 8 vread_tok mm_checked KReal mm_damaged_row (-1) (-1) =
         Error EFormat.
Proof. exact mm_read_checked_rejects_damaged. Qed.
Print Assumptions C19_mm_read_checked_rejects_damaged.

(* HISTORICAL, reader before 7c1d34c / 3c662b9 (checks off): row_beg = 4 > n = 3: ptr.back() of an empty vector *)
Theorem C19_mm_read_range_oob_refuted :
  exists f : list line,
           mm_read string 8 vread_tok mm_current KReal f 4 (-1) = Error EOOB.
Proof. exact mm_read_range_oob_refuted. Qed.
Print Assumptions C19_mm_read_range_oob_refuted.

(* HISTORICAL, reader before 7c1d34c / 3c662b9 (checks off): size line '-1 1 0', default range *)
Theorem C19_mm_read_negative_n_oob_refuted :
  exists f : list line,
           mm_read string 8 vread_tok mm_current KReal f (-1) (-1) = Error EOOB.
Proof. exact mm_read_negative_n_oob_refuted. Qed.
Print Assumptions C19_mm_read_negative_n_oob_refuted.

(* HISTORICAL, dense reader before 7c1d34c (mm_current): size line '-3 -2' accepted, 6 never-written values *)
Theorem C19_mm_readd_safe_refuted :
  exists (f : list line) (d : dense string),
           mm_readd string 8 vread_tok mm_current KReal f (-1) (-1) = Ok d /\
           Datatypes.length (d_val string d) <>
           Z.to_nat (d_rows string d * d_cols string d) /\
           d_val string d = repeat None 6.
Proof. exact mm_readd_safe_refuted. Qed.
Print Assumptions C19_mm_readd_safe_refuted.

(* HISTORICAL, reader before a04dd9c / 6a14a6a (mm_current): data beyond the announced count is ignored; the reader as it is throws *)
Theorem C19_mm_trailing_example :
  mm_read string 8 vread_tok mm_current KReal mm_trailing (-1) (-1) =
         Ok
           {|
             nrows := 1;
             ncols := 1;
             rows := ((0%Z, "1.0"%string) :: nil) :: nil
           |} /\
         mm_read string 8 vread_tok mm_checked KReal mm_trailing (-1) (-1) =
         Error EFormat.
Proof. exact mm_trailing_example. Qed.
Print Assumptions C19_mm_trailing_example.

(* little-endian words *)
Theorem C19_bin_word_roundtrip :
  forall x : Z, (- two63 <= x < two63)%Z -> sdec (enc8 x) = x.
Proof. exact sdec_enc8. Qed.
Print Assumptions C19_bin_word_roundtrip.

(* A1 binary: read (write A) = A with every row sorted (read_crs sorts), byte-exact values *)
Theorem C19_bin_roundtrip :
  forall (checked n_signed : bool) (vw : Z) (A : flat),
         (0 < vw)%Z ->
         wf_flat A = true ->
         f_n A = (Z.of_nat (Datatypes.length (f_ptr A)) - 1)%Z ->
         Forall (fun e : Z * list Z => Datatypes.length (snd e) = Z.to_nat vw)
           (f_cv A) ->
         Forall (fun e : Z * list Z => (- two63 <= fst e < two63)%Z) (f_cv A) ->
         alloc_ok (f_n A + 1) 8 = true ->
         alloc_ok (Z.of_nat (Datatypes.length (f_cv A))) 8 = true ->
         alloc_ok (Z.of_nat (Datatypes.length (f_cv A))) vw = true ->
         exists cv' : list (Z * list Z),
           sort_all (f_ptr A) (f_cv A) = Ok cv' /\
           read_crs checked n_signed vw (write_crs A) (-1) (-1) =
           Ok {| f_n := f_n A; f_ptr := f_ptr A; f_cv := cv' |}.
Proof. exact bin_read_write_roundtrip. Qed.
Print Assumptions C19_bin_roundtrip.

(* A1 binary: sorted rows => read (write A) = Ok A *)
Theorem C19_bin_roundtrip_sorted :
  forall (checked n_signed : bool) (vw : Z) (A : flat),
         (0 < vw)%Z ->
         wf_flat A = true ->
         f_n A = (Z.of_nat (Datatypes.length (f_ptr A)) - 1)%Z ->
         Forall (fun e : Z * list Z => Datatypes.length (snd e) = Z.to_nat vw)
           (f_cv A) ->
         Forall (fun e : Z * list Z => (- two63 <= fst e < two63)%Z) (f_cv A) ->
         alloc_ok (f_n A + 1) 8 = true ->
         alloc_ok (Z.of_nat (Datatypes.length (f_cv A))) 8 = true ->
         alloc_ok (Z.of_nat (Datatypes.length (f_cv A))) vw = true ->
         sort_all (f_ptr A) (f_cv A) = Ok (f_cv A) ->
         read_crs checked n_signed vw (write_crs A) (-1) (-1) = Ok A.
Proof. exact bin_read_write_roundtrip_sorted. Qed.
Print Assumptions C19_bin_roundtrip_sorted.

Theorem C19_bin_dense_roundtrip :
  forall (checked n_signed : bool) (vw n m : Z) (v : list (list Z)),
         (0 < vw)%Z ->
         (0 <= n < two63)%Z ->
         (0 <= m < two63)%Z ->
         Datatypes.length v = Z.to_nat (n * m) ->
         Forall (fun g : list Z => Datatypes.length g = Z.to_nat vw) v ->
         alloc_ok (n * m) vw = true ->
         read_dense checked n_signed vw (write_dense n m v) (-1) (-1) =
         Ok {| bd_n := n; bd_m := m; bd_val := v |}.
Proof. exact bin_readd_write_roundtrip. Qed.
Print Assumptions C19_bin_dense_roundtrip.

(* A2 binary (seek-based partial read) *)
Theorem C19_bin_range_is_slice :
  forall (checked n_signed : bool) (vw : Z) (A : flat) (r0 r1 : Z),
         (0 < vw)%Z ->
         wf_flat A = true ->
         f_n A = (Z.of_nat (Datatypes.length (f_ptr A)) - 1)%Z ->
         Forall (fun e : Z * list Z => Datatypes.length (snd e) = Z.to_nat vw)
           (f_cv A) ->
         Forall (fun e : Z * list Z => (- two63 <= fst e < two63)%Z) (f_cv A) ->
         alloc_ok (f_n A + 1) 8 = true ->
         alloc_ok (Z.of_nat (Datatypes.length (f_cv A))) 8 = true ->
         alloc_ok (Z.of_nat (Datatypes.length (f_cv A))) vw = true ->
         (0 <= r0 <= r1)%Z ->
         (r1 <= f_n A)%Z ->
         exists cvf cvr : list (Z * list Z),
           sort_all (f_ptr A) (f_cv A) = Ok cvf /\
           read_crs checked n_signed vw (write_crs A) r0 r1 =
           Ok
             {|
               f_n := f_n A; f_ptr := f_ptr (slice_flat r0 r1 A); f_cv := cvr
             |} /\
           cvr =
           f_cv
             (slice_flat r0 r1
                {| f_n := f_n A; f_ptr := f_ptr A; f_cv := cvf |}).
Proof. exact bin_read_range_is_slice. Qed.
Print Assumptions C19_bin_range_is_slice.

Theorem C19_bin_dense_range_is_slice :
  forall (checked n_signed : bool) (vw n m : Z) 
           (v : list (list Z)) (r0 r1 : Z),
         (0 < vw)%Z ->
         (0 <= n < two63)%Z ->
         (0 <= m < two63)%Z ->
         Datatypes.length v = Z.to_nat (n * m) ->
         Forall (fun g : list Z => Datatypes.length g = Z.to_nat vw) v ->
         alloc_ok (n * m) vw = true ->
         (0 <= r0 <= r1)%Z ->
         (r1 <= n)%Z ->
         read_dense checked n_signed vw (write_dense n m v) r0 r1 =
         Ok
           {|
             bd_n := n;
             bd_m := m;
             bd_val :=
               firstn (Z.to_nat ((r1 - r0) * m)) (skipn (Z.to_nat (r0 * m)) v)
           |}.
Proof. exact bin_readd_range_is_slice. Qed.
Print Assumptions C19_bin_dense_range_is_slice.

(* A4 binary: every truncation of a written file => exception *)
Theorem C19_bin_truncated_is_error :
  forall (checked n_signed : bool) (vw : Z) (A : flat) (k : nat),
         (0 < vw)%Z ->
         wf_flat A = true ->
         f_n A = (Z.of_nat (Datatypes.length (f_ptr A)) - 1)%Z ->
         Forall (fun e : Z * list Z => Datatypes.length (snd e) = Z.to_nat vw)
           (f_cv A) ->
         Forall (fun e : Z * list Z => (- two63 <= fst e < two63)%Z) (f_cv A) ->
         alloc_ok (f_n A + 1) 8 = true ->
         alloc_ok (Z.of_nat (Datatypes.length (f_cv A))) 8 = true ->
         alloc_ok (Z.of_nat (Datatypes.length (f_cv A))) vw = true ->
         k < Datatypes.length (write_crs A) ->
         is_exception
           (read_crs checked n_signed vw (firstn k (write_crs A)) (-1) (-1)) =
         true.
Proof. exact bin_truncated_is_error. Qed.
Print Assumptions C19_bin_truncated_is_error.

Theorem C19_bin_dense_truncated_is_error :
  forall (checked n_signed : bool) (vw n m : Z) 
           (v : list (list Z)) (k : nat),
         (0 < vw)%Z ->
         (0 <= n < two63)%Z ->
         (0 <= m < two63)%Z ->
         Datatypes.length v = Z.to_nat (n * m) ->
         Forall (fun g : list Z => Datatypes.length g = Z.to_nat vw) v ->
         alloc_ok (n * m) vw = true ->
         k < Datatypes.length (write_dense n m v) ->
         is_exception
           (read_dense checked n_signed vw (firstn k (write_dense n m v)) 
              (-1) (-1)) = true.
Proof. exact bin_readd_truncated_is_error. Qed.
Print Assumptions C19_bin_dense_truncated_is_error.

(* A5 MAIN SAFETY THEOREM (read_crs as it is): every byte list, every range *)
Theorem C19_bin_read_checked_safe :
  forall (n_signed : bool) (vw : Z) (f : list Z) (r0 r1 : Z),
         (0 < vw)%Z ->
         match read_crs true n_signed vw f r0 r1 with
         | Ok A => wf_flat A = true
         | Error e => e <> EOOB
         end.
Proof. exact bin_read_checked_safe. Qed.
Print Assumptions C19_bin_read_checked_safe.

(* read_dense never indexes out of bounds (before and after the repairs) *)
Theorem C19_bin_readd_no_oob :
  forall (checked n_signed : bool) (vw : Z) (f : list Z) (r0 r1 : Z),
         read_dense checked n_signed vw f r0 r1 <> Error EOOB.
Proof. exact bin_readd_checked_safe. Qed.
Print Assumptions C19_bin_readd_no_oob.

(* the repairs did not change the result on files the reader accepts *)
Theorem C19_bin_read_current_agrees_on_valid :
  forall (n_signed : bool) (vw : Z) (f : list Z) (r0 r1 : Z) (A : flat),
         read_crs true n_signed vw f r0 r1 = Ok A ->
         read_crs false n_signed vw f r0 r1 = Ok A.
Proof. exact bin_read_current_wf_input_safe. Qed.
Print Assumptions C19_bin_read_current_agrees_on_valid.

(* HISTORICAL, read_crs before 3c662b9 (checked = false): ptr = [0;1000;2;3] => sort_row out of bounds (ASan: heap-buffer-overflow) *)
Theorem C19_bin_read_safe_refuted :
  exists f : list Z, read_crs false false 8 f (-1) (-1) = Error EOOB.
Proof. exact bin_read_safe_refuted. Qed.
Print Assumptions C19_bin_read_safe_refuted.

(* HISTORICAL, reader before 7c1d34c / 3c662b9 (checks off): ptr = [0;2;1;3] returned as is *)
Theorem C19_bin_read_invalid_refuted :
  exists (f : list Z) (A : flat),
           read_crs false false 8 f (-1) (-1) = Ok A /\ wf_flat A = false.
Proof. exact bin_read_invalid_refuted. Qed.
Print Assumptions C19_bin_read_invalid_refuted.

(* HISTORICAL, reader before 7c1d34c / 3c662b9 (checks off): n = 1, row_beg = 2: ptr.front() of an empty vector *)
Theorem C19_bin_read_range_oob_refuted :
  exists f : list Z,
           read_crs false true 8 f 2 (-1) = Error EOOB /\
           read_crs false false 8 f 2 (-1) = Error EOOB /\
           read_crs false true 8 f 2 1 = Error EOOB /\
           read_crs false true 8 f 3 1 = Error EAlloc /\
           read_crs true true 8 f 2 (-1) = Error ERange.
Proof. exact bin_read_range_oob_refuted. Qed.
Print Assumptions C19_bin_read_range_oob_refuted.

Theorem C19_bin_read_checked_rejects_witness :
  read_crs true false 8 wit_oob (-1) (-1) = Error EFormat.
Proof. exact bin_read_safe_refuted_checked_rejects. Qed.
Print Assumptions C19_bin_read_checked_rejects_witness.

