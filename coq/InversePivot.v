(* InversePivot.v -- detail::inverse (Inverse.v), clause A3-B: with partial pivoting by |.| a
   non-singular matrix never meets a zero pivot, so inverse() returns, and A * inverse(A) = I.
   Hypotheses about the order (all TRUE in an ordered field with sabs = |.|, sltb = <):
     Olt_irrefl, Olt_trans : sltb is a strict order (irreflexive, transitive)
     Oabs_0    : sabs 0 = 0
     Oabs_pos  : x <> 0 -> 0 < sabs x
   They are used only to show: the pivot search returns an entry of largest |.| in the remaining
   column, hence a zero pivot means that the whole remaining column is zero.   (C16 / A3-B) *)
From Coq Require Import Permutation.
From Amgcl Require Import Scalar Vec KernelsProofs DirectUtil Inverse DirectProofs StaticMatProofs InverseProofs
     CroutProofs InverseExact.
Local Open Scope S_scope.
Local Open Scope nat_scope.

Section Pivot.
Context {S : Scalar}.
Local Notation vec := (vec S).
Hypothesis Sft : Sfield S.
Hypothesis Seqb : seqb_spec S.
Hypothesis sinv_0 : sinv (@s0 S) = s0.
Hypothesis Olt_irrefl : forall a : S, sltb a a = false.
Hypothesis Olt_trans : forall a b c : S, sltb a b = true -> sltb b c = true -> sltb a c = true.
Hypothesis Oabs_0 : sabs (@s0 S) = s0.
Hypothesis Oabs_pos : forall x : S, x <> s0 -> sltb s0 (sabs x) = true.
Let SrtP : Sring S := F_R Sft.
Add Ring SRingInvPiv : SrtP.
Add Field SFieldInvPiv : Sft.

Variable n : nat.

Lemma eq_dec_S (x : S) : x = s0 \/ x <> s0.
Proof.
  destruct (seqb x s0) eqn:E; [left; apply Seqb; assumption|right].
  intro H. apply Seqb in H. congruence.
Qed.

(* ---------- the pivot search returns an entry of largest magnitude ---------- *)
Lemma find_pivot_max (A : vec) p col : col < n ->
  let m := find_pivot n A p col in
  (forall j, col <= j < n -> sltb (sabs (view n A p m col)) (sabs (view n A p j col)) = false) /\
  (view n A p m col = s0 -> forall j, col <= j < n -> view n A p j col = s0).
Proof.
  intros Hc. cbv zeta. unfold find_pivot.
  pose (cand := fun i => sabs (view n A p i col)).
  pose (J := fun i (pm : nat * S) =>
     (forall j, col <= j < i -> sltb (snd pm) (cand j) = false) /\
     ((snd pm = s0 /\ fst pm = col /\ forall j, col <= j < i -> sltb s0 (cand j) = false) \/
      (snd pm = cand (fst pm) /\ col <= fst pm < i))).
  match goal with |- (forall j, _ -> sltb (sabs (view n A p (fst ?X) col)) _ = false) /\ _ => assert (H : J (col + (n - col)) X) end.
  { apply (for_loop_inv J).
    - split; [intros; lia|]. left. split; [reflexivity|]. split; [reflexivity|intros; lia].
    - intros i [idx mag] Hi (Hmax & Hm). cbn [fst snd] in Hmax, Hm. unfold J. cbv zeta. cbn [fst snd].
      change (sabs (vget A (nth i p 0 * n + col))) with (cand i).
      destruct (sltb mag (cand i)) eqn:Elt; cbn [fst snd].
      + split.
        * intros j Hj. destruct (Nat.eq_dec j i) as [->|Hne]; [apply Olt_irrefl|].
          destruct (sltb (cand i) (cand j)) eqn:E; [|reflexivity].
          exfalso. pose proof (Olt_trans _ _ _ Elt E) as H1. rewrite (Hmax j ltac:(lia)) in H1. discriminate.
        * right. split; [reflexivity|lia].
      + split.
        * intros j Hj. destruct (Nat.eq_dec j i) as [->|Hne]; [assumption|apply Hmax; lia].
        * destruct Hm as [(E0 & Ei & Hz)|(Ec & Hr)].
          -- left. split; [assumption|]. split; [assumption|]. intros j Hj.
             destruct (Nat.eq_dec j i) as [->|Hne]; [rewrite <- E0; assumption|apply Hz; lia].
          -- right. split; [assumption|lia]. }
  replace (col + (n - col)) with n in H by lia. destruct H as (Hmax & Hm).
  set (pm := for_loop col (n - col) _ (col, s0)) in *.
  assert (Hmag : forall j, col <= j < n -> sltb (cand (fst pm)) (cand j) = false).
  { destruct Hm as [(E0 & Ei & Hz)|(Ec & Hr)].
    - intros j Hj. destruct (sltb (cand (fst pm)) (cand j)) eqn:E; [|reflexivity].
      (* no update ever: every candidate has magnitude not above 0, so cand (fst pm) is not below any *)
      pose proof (Hz j Hj) as H0. pose proof (Hz (fst pm) ltac:(lia)) as H1.
      destruct (eq_dec_S (view n A p (fst pm) col)) as [Ez|Enz].
      + unfold cand in E at 1. rewrite Ez, Oabs_0 in E. congruence.
      + apply Oabs_pos in Enz. fold (cand (fst pm)) in Enz. congruence.
    - intros j Hj. rewrite <- Ec. apply Hmax. assumption. }
  split; [exact Hmag|].
  intros Ez j Hj. destruct (eq_dec_S (view n A p j col)) as [E|Enz]; [assumption|].
  apply Oabs_pos in Enz. specialize (Hmag j Hj). unfold cand in Hmag. rewrite Ez, Oabs_0 in Hmag. congruence.
Qed.

(* ---------- small sums ---------- *)
Lemma sumn_app' (f : nat -> S) a b : sumn f (a + b) = (sumn f a + sumn (fun u => f (a + u)%nat) b)%S.
Proof.
  induction b as [|b IH]; [rewrite Nat.add_0_r; simpl; ring|].
  replace (a + Datatypes.S b) with (Datatypes.S (a + b)) by lia. simpl. rewrite IH. ring.
Qed.

Lemma sumn_split3' (f : nat -> S) i k : i < k ->
  sumn f k = (sumn f i + f i + sumn (fun t => f (i + 1 + t)%nat) (k - i - 1))%S.
Proof.
  intro H. replace k with (i + 1 + (k - i - 1)) at 1 by lia.
  rewrite sumn_app'. replace (i + 1) with (Datatypes.S i) at 1 by lia. reflexivity.
Qed.

(* an upper triangular system with non-zero diagonal has a solution *)
Lemma upper_solve (U : nat -> nat -> S) c : forall g : nat -> S, (forall t, t < c -> U t t <> s0) ->
  exists y : nat -> S, forall t, t < c ->
    sumn (fun j => if Nat.leb t j then (U t j * y j)%S else s0) c = g t.
Proof.
  induction c as [|c IH]; intros g Hd; [exists (fun _ => s0); intros; lia|].
  set (yc := (sinv (U c c) * g c)%S).
  destruct (IH (fun t => (g t - U t c * yc)%S) (fun t Ht => Hd t (Nat.lt_lt_succ_r _ _ Ht))) as (y' & Hy').
  exists (fun j => if Nat.eqb j c then yc else y' j). intros t Ht. simpl sumn.
  rewrite Nat.eqb_refl.
  assert (E : sumn (fun j => if Nat.leb t j then (U t j * (if Nat.eqb j c then yc else y' j))%S else s0) c
            = sumn (fun j => if Nat.leb t j then (U t j * y' j)%S else s0) c).
  { apply sumn_ext. intros j Hj. destruct (Nat.eqb_spec j c); [lia|reflexivity]. }
  rewrite E. destruct (Nat.eq_dec t c) as [->|Hne].
  - rewrite (sumn_zero_fun Sft) by (intros j Hj; destruct (Nat.leb_spec c j); [lia|reflexivity]).
    rewrite Nat.leb_refl. unfold yc. field. apply Hd. lia.
  - rewrite Hy' by lia. destruct (Nat.leb_spec t c); [ring|lia].
Qed.

(* ---------- a zero column in the remaining block makes the matrix singular ---------- *)
Lemma FI_singular c (B W : nat -> nat -> S) : c < n -> FI n c B W ->
  (forall t, t < c -> W t t <> s0) -> (forall i, c <= i < n -> W i c = s0) ->
  exists y : nat -> S, y c = s1 /\ forall i, i < n -> sumn (fun j => (B i j * y j)%S) n = s0.
Proof.
  intros Hc HFI Hd Hz.
  pose (U := fun t j => if Nat.eqb t j then sinv (W t t) else W t j).
  destruct (upper_solve U c (fun t => (- W t c)%S)) as (y' & Hy').
  { intros t Ht. unfold U. rewrite Nat.eqb_refl. apply (sinv_nonzero Sft). apply Hd. assumption. }
  pose (y := fun j => if Nat.ltb j c then y' j else if Nat.eqb j c then s1 else @s0 S).
  exists y. split; [unfold y; rewrite Nat.ltb_irrefl, Nat.eqb_refl; reflexivity|].
  (* U y = 0 *)
  assert (HUy : forall t, t < n -> sumn (fun j => (Uc c W t j * y j)%S) n = s0).
  { intros t Ht. destruct (Nat.lt_ge_cases t c) as [Htc|Htc].
    - rewrite (sumn_split3' _ c n Hc).
      assert (E1 : sumn (fun j => (Uc c W t j * y j)%S) c = (- W t c)%S).
      { rewrite <- (Hy' t Htc). apply sumn_ext. intros j Hj. unfold Uc, y, U.
        destruct (Nat.ltb_spec t c); [|lia]. destruct (Nat.ltb_spec j c); [|lia].
        destruct (Nat.ltb_spec t j), (Nat.eqb_spec t j), (Nat.leb_spec t j); try lia; ring. }
      assert (E2 : (Uc c W t c * y c)%S = W t c).
      { unfold Uc, y. destruct (Nat.ltb_spec t c); [|lia]. rewrite Nat.ltb_irrefl, Nat.eqb_refl. ring. }
      assert (E3 : sumn (fun u => (Uc c W t (c + 1 + u) * y (c + 1 + u)%nat)%S) (n - c - 1) = s0).
      { apply (sumn_zero_fun Sft). intros u Hu. unfold y. destruct (Nat.ltb_spec (c + 1 + u) c); [lia|].
        destruct (Nat.eqb_spec (c + 1 + u) c); [lia|]. ring. }
      rewrite E1, E2, E3. ring.
    - apply (sumn_zero_fun Sft). intros j Hj. unfold Uc. destruct (Nat.ltb_spec t c); [lia|]. ring. }
  intros i Hi.
  transitivity (sumn (fun j => (sumn (fun t => Lc c W i t * Uc c W t j) n * y j + Uc c W i j * y j + Rc c W i j * y j)%S) n).
  { apply sumn_ext. intros j Hj. rewrite (HFI i j Hi Hj). ring. }
  rewrite !(sumn_add SrtP). rewrite (HUy i Hi).
  assert (EL : sumn (fun j => (sumn (fun t => Lc c W i t * Uc c W t j) n * y j)%S) n = s0).
  { transitivity (sumn (fun j => sumn (fun t => (Lc c W i t * (Uc c W t j * y j))%S) n) n).
    - apply sumn_ext. intros j Hj. rewrite <- (sumn_scal_r SrtP). apply sumn_ext. intros; ring.
    - rewrite (sumn_swap SrtP). apply (sumn_zero_fun Sft). intros t Ht. rewrite (sumn_scal SrtP), (HUy t Ht). ring. }
  assert (ER : sumn (fun j => (Rc c W i j * y j)%S) n = s0).
  { destruct (Nat.lt_ge_cases i c) as [Hic|Hic].
    - apply (sumn_zero_fun Sft). intros j Hj. unfold Rc. destruct (Nat.ltb_spec i c); [ring|lia].
    - apply (sumn_zero_fun Sft). intros j Hj. unfold Rc, y. destruct (Nat.ltb_spec i c); [lia|].
      destruct (Nat.leb_spec c j); [|ring]. destruct (Nat.ltb_spec j c); [lia|].
      destruct (Nat.eqb_spec j c) as [->|]; [rewrite Hz by lia; ring|ring]. }
  rewrite EL, ER. ring.
Qed.

(* ---------- non-singular matrices ---------- *)
(* the columns are linearly independent *)
Definition nonsingular (A0 : vec) : Prop :=
  forall y : nat -> S, (forall i, i < n -> sumn (fun j => (mat_get n A0 i j * y j)%S) n = s0) ->
  forall j, j < n -> y j = s0.

(* a matrix with a left inverse (in particular: with a two-sided inverse) is non-singular *)
Lemma left_inverse_nonsingular (A0 : vec) (X : nat -> nat -> S) :
  (forall i j, i < n -> j < n -> sumn (fun k => (X i k * mat_get n A0 k j)%S) n = if Nat.eqb i j then s1 else s0) ->
  nonsingular A0.
Proof.
  intros HX y Hy i Hi.
  transitivity (sumn (fun j => ((if Nat.eqb i j then s1 else s0) * y j)%S) n).
  { rewrite (sumn_delta_l SrtP). destruct (Nat.ltb_spec i n); [reflexivity|lia]. }
  transitivity (sumn (fun j => sumn (fun k => (X i k * (mat_get n A0 k j * y j))%S) n) n).
  { apply sumn_ext. intros j Hj. rewrite <- (HX i j Hi Hj). rewrite <- (sumn_scal_r SrtP). apply sumn_ext. intros; ring. }
  rewrite (sumn_swap SrtP). apply (sumn_zero_fun Sft). intros k Hk. rewrite (sumn_scal SrtP), (Hy k Hk). ring.
Qed.

(* the assertion fails only if the whole remaining column is zero *)
Lemma lu_col_none c (A : vec) p : PermOK n p -> c < n -> lu_col n c (A, p) = None ->
  let p' := swap_idx p c (find_pivot n A p c) in
  forall i, c <= i < n -> view n A p' i c = s0.
Proof.
  intros HP Hc H. cbv zeta. unfold lu_col in H.
  pose proof (find_pivot_range n A p c Hc) as Hm. set (m := find_pivot n A p c) in *.
  set (q := swap_idx p c m) in *.
  destruct (is_zero (sinv (vget A (nth c q 0 * n + c)))) eqn:Ez; [|discriminate].
  assert (Epiv : vget A (nth c q 0 * n + c) = view n A p m c).
  { unfold view, mg, q. pose proof HP as (HL & _). rewrite swap_nth by lia.
    destruct (Nat.eqb_spec c m) as [E|E]; [rewrite E; reflexivity|]. rewrite Nat.eqb_refl. reflexivity. }
  assert (Hp0 : view n A p m c = s0).
  { destruct (eq_dec_S (view n A p m c)) as [E|E]; [assumption|exfalso].
    apply (sinv_nonzero Sft) in E. rewrite <- Epiv in E. apply E. apply Seqb. exact Ez. }
  destruct (find_pivot_max A p c Hc) as [_ Hall]. fold m in Hall. specialize (Hall Hp0).
  intros i Hi. unfold q. rewrite (view_swap n A p c m i c HP Hc ltac:(lia)).
  apply Hall. unfold sig. destruct (Nat.eqb i m), (Nat.eqb i c); lia.
Qed.

Theorem lu_factor_some (A0 : vec) : length A0 = n * n -> nonsingular A0 ->
  exists A p, lu_factor n A0 = Some (A, p).
Proof.
  intros HL Hns. unfold lu_factor.
  pose (P := fun c (o : option (vec * list nat)) => exists Ap, o = Some Ap /\ FInv n A0 c Ap).
  assert (H : P (0 + n) (for_loop 0 n (fun col o => match o with None => None | Some Ap => lu_col n col Ap end)
                                  (Some (A0, seq 0 n)))).
  { apply (for_loop_inv P).
    - exists (A0, seq 0 n). split; [reflexivity|]. split; [apply PermOK_seq|]. split; [assumption|]. split; [intros; lia|].
      intros i j Hi Hj. cbn [fst snd]. rewrite (sumn_zero_fun Sft).
      + unfold Uc, Rc. simpl. ring.
      + intros t Ht. unfold Lc. rewrite Bool.andb_false_r. ring.
    - intros c o Hc ([A p] & -> & HI).
      destruct (lu_col n c (A, p)) as [[A2 p2]|] eqn:Ec.
      + exists (A2, p2). split; [reflexivity|]. apply (FInv_step Sft Seqb sinv_0 n A0 HL c A p A2 p2 ltac:(lia) HI Ec).
      + exfalso. destruct HI as (HP & HLA & Hdiag & HFI). cbn [fst snd] in *.
        assert (Hcn : c < n) by lia.
        pose proof (find_pivot_range n A p c Hcn) as Hm. set (m := find_pivot n A p c) in *.
        pose proof (lu_col_none c A p HP Hcn Ec) as Hzero. cbv zeta in Hzero. fold m in Hzero.
        set (p' := swap_idx p c m) in *.
        assert (HP' : PermOK n p') by (apply PermOK_swap; [assumption|lia|lia]).
        assert (HFI' : FI n c (view n A0 p') (view n A p')).
        { eapply FI_ext; [| |apply (FI_swap n c m _ _ (proj1 Hm) (proj2 Hm) HFI)].
          - intros i j. apply view_swap; [assumption|lia|lia].
          - intros i j. apply view_swap; [assumption|lia|lia]. }
        assert (Hdiag' : forall t, t < c -> view n A p' t t <> s0).
        { intros t Ht. unfold p'. rewrite view_swap by (try assumption; lia). unfold sig.
          destruct (Nat.eqb_spec t m); [lia|]. destruct (Nat.eqb_spec t c); [lia|]. apply Hdiag. assumption. }
        destruct (FI_singular c (view n A0 p') (view n A p') Hcn HFI' Hdiag' Hzero) as (y & Hyc & Hy).
        assert (Hy0 : y c = s0).
        { apply (Hns y); [|assumption]. intros r Hr.
          destruct (PermOK_surj n p' r HP' Hr) as (i & Hi & Epi).
          rewrite <- (Hy i Hi). apply sumn_ext. intros j Hj. unfold view, mg, mat_get. rewrite Epi. reflexivity. }
        rewrite Hyc in Hy0. exact (F_1_neq_0 Sft Hy0). }
  destruct H as ([A p] & E & _). exists A, p. exact E.
Qed.

(* A3-B: a non-singular matrix is inverted: inverse() returns and A * inverse(A) = I *)
Theorem inverse_nonsingular (A0 t : vec) : length A0 = n * n -> length t = n * n -> nonsingular A0 ->
  exists B, inverse n A0 t = Some B /\
    forall i j, i < n -> j < n -> mat_mul_get n A0 B i j = if Nat.eqb i j then s1 else s0.
Proof.
  intros HL Ht Hns. destruct (lu_factor_some A0 HL Hns) as (A & p & E).
  unfold inverse at 1. rewrite E. eexists. split; [reflexivity|].
  apply (inverse_exact Sft Seqb sinv_0 n A0 HL t _ Ht). unfold inverse. rewrite E. reflexivity.
Qed.

End Pivot.
