(* DistSolve.v -- C12: (1) the specification-level oracles that are evaluated on the outputs of
   the distributed solver (true residual, Galerkin identity, aggregate partition, direct solve);
   (2) the rank-lifted Krylov model: a solver run on every rank of a world with globally reduced
   inner products.  Definitions only; proofs: DistSolveProofs.v. *)
From Amgcl Require Import Scalar Vec Crs Kernels MatOps Dist.
Local Open Scope S_scope.

Section Oracles.
Context {S : Scalar}.
Local Notation vec := (vec S).
Local Notation crs := (crs S).

Definition within (tol a b : S) : bool := sleb (sabs (a - b)) tol.

(* the reported relative residual [res] is truthful up to [tol]:
   (max(res - tol, 0))^2 <f,f> <= <r,r> <= (res + tol)^2 <f,f>  with r = f - A x  *)
Definition truthful (A : crs) (f x : vec) (res tol : S) : bool :=
  let r := residual f A x (vzero (length f)) in
  let rr := inner_product_serial r r in
  let ff := inner_product_serial f f in
  let lo := smax (res - tol) s0 in
  let hi := res + tol in
  sleb (lo * lo * ff) rr && sleb rr (hi * hi * ff).

(* the exact relative residual squared, for the evidence *)
Definition rel_residual_sq (A : crs) (f x : vec) : S :=
  let r := residual f A x (vzero (length f)) in
  inner_product_serial r r / inner_product_serial f f.

(* max-norm solve check: |f - A x|_i <= tol for every i *)
Definition solves (A : crs) (f x : vec) (tol : S) : bool :=
  forallb (fun ri => sleb (sabs ri) tol) (residual f A x (vzero (length f))).

Definition dense_within (tol : S) (X Y : list (list S)) : bool :=
  Nat.eqb (length X) (length Y) &&
  forallb (fun p => Nat.eqb (length (fst p)) (length (snd p)) &&
                    forallb (fun q => within tol (fst q) (snd q)) (combine (fst p) (snd p)))
          (combine X Y).

(* A_c = scale * R A P, entry by entry up to tol (tol = 0: exactly) *)
Definition galerkin_ok (A P R Ac : crs) (scale tol : S) : bool :=
  let RAP := spgemm_saad R (spgemm_saad A P false) false in
  Nat.eqb (ncols Ac) (ncols RAP) &&
  dense_within tol (mget_dense Ac) (mget_dense (mscale RAP scale)).

Definition same_operator (A B : crs) : bool :=
  Nat.eqb (ncols A) (ncols B) && dense_within s0 (mget_dense A) (mget_dense B).

(* the tentative prolongation of plain aggregation describes a partition of the non-isolated
   unknowns into non-empty aggregates: every row has at most one entry, of value one; every
   coarse column is hit; and the constant vector is reproduced on the aggregated rows *)
Definition partition_ok (P : crs) : bool :=
  forallb (fun r => match r with
                    | [] => true
                    | [(c, v)] => Nat.ltb c (ncols P) && seqb v s1
                    | _ => false
                    end) (rows P) &&
  forallb (fun j => existsb (fun r => existsb (fun e => Nat.eqb (fst e) j) r) (rows P)) (seq 0 (ncols P)).

(* an unknown left out of all aggregates must be isolated in A: no off-diagonal entry at all
   is the strongest form; [strong i j] is supplied by the caller *)
Definition unaggregated_rows (P : crs) : list nat :=
  map fst (filter (fun ir => match snd ir with [] => true | _ => false end) (indexed (rows P))).

(* strength of connection of pmis::conn_strength: j != i and eps^2 a_ii a_jj < a_ij^2.
   "each non-isolated unknown is in exactly one aggregate": a row of P is empty exactly when the
   unknown has no strong off-diagonal connection (partition_ok gives "at most one") *)
Definition strong_row (dia : vec) (eps2 : S) (i : nat) (r : row S) : bool :=
  existsb (fun e => negb (Nat.eqb (fst e) i) &&
                    sltb (eps2 * vget dia i * vget dia (fst e)) (snd e * snd e)) r.
Definition isolated_ok (A P : crs) (eps2 : S) : bool :=
  let dia := diagonal A false (vzero (nrows A)) in
  Nat.eqb (nrows A) (nrows P) &&
  forallb (fun irp => let '(i, (ra, rp)) := irp in
                      Bool.eqb (is_nil rp) (negb (strong_row dia eps2 i ra)))
          (indexed (combine (rows A) (rows P))).

End Oracles.

(* ====================================================================
   Rank-lifted CG.

   Every rank runs its own copy of the solver of amgcl/solver/cg.hpp (model: Krylov.cg) on
   its slices of the vectors; the only things that couple the ranks are
     - the distributed operator  [Aw]  and preconditioner [Pw] (functions of the whole world's
       vectors: they communicate), and
     - mpi::inner_product = local Kahan sum + MPI_Allreduce ([dist_inner_product], which
       hands every rank its own copy of the reduced value).
   The world state is kept as a structure of per-rank lists: [w_x w] is the list of the
   ranks' slices of x, [w_rho1 w] the list of the ranks' private copies of rho1, [w_it w]
   the ranks' private iteration counters, ...  Every rank evaluates the loop condition on ITS
   OWN copies; if the ranks disagree, some of them would enter a collective the others never
   call: the model returns [None] ("stuck").  *)
From Amgcl Require Import Krylov.
From Coq Require Import QArith_base.
Local Close Scope Q_scope.
Local Open Scope S_scope.

Section RankLifted.
Context {S : Scalar}.
Local Notation vec := (vec S).
Variables Aw Pw : list vec -> list vec.

Record wcg := mkWcg {
  w_x : list vec; w_r : list vec; w_s : list vec; w_p : list vec; w_q : list vec;
  w_rho1 : list S; w_rho2 : list S; w_res : list S; w_it : list nat }.

(* norm_a on every rank: sqrt(norm(inner_product(x, x))) with the reduced inner product *)
Definition dist_norm_a (xs : list vec) : list S :=
  map (fun v => ssqrt (sabs v)) (dist_inner_product xs xs).

Definition wcg_step (w : wcg) : wcg :=
  let ss := Pw (w_r w) in
  let rho2s := w_rho1 w in
  let rho1s := dist_inner_product (w_r w) ss in
  let ps := map2 (fun (c : nat * (S * S)) (sp : vec * vec) =>
                    if Nat.eqb (fst c) 0 then fst sp
                    else k_axpby s1 (fst sp) (fst (snd c) / snd (snd c)) (snd sp))
                 (combine (w_it w) (combine rho1s rho2s)) (combine ss (w_p w)) in
  let qs := Aw ps in
  let alphas := map2 (fun rho1 qp => rho1 / qp) rho1s (dist_inner_product qs ps) in
  let xs := map2 (fun a (px : vec * vec) => k_axpby a (fst px) s1 (snd px)) alphas (combine ps (w_x w)) in
  let rs := map2 (fun a (qr : vec * vec) => k_axpby (- a) (fst qr) s1 (snd qr)) alphas (combine qs (w_r w)) in
  mkWcg xs rs ss ps qs rho1s rho2s (dist_norm_a rs) (map Datatypes.S (w_it w)).

(* each rank's own loop test: iter < maxiter && norm(res) > eps *)
Definition wcg_conts (maxiter : nat) (epss : list S) (w : wcg) : list bool :=
  map2 (fun (c : nat * S) eps => Nat.ltb (fst c) maxiter && sltb eps (sabs (snd c)))
       (combine (w_it w) (w_res w)) epss.

Fixpoint wcg_loop (maxiter : nat) (epss : list S) (fuel : nat) (w : wcg) : option wcg :=
  match fuel with
  | O => Some w
  | Datatypes.S k =>
    let cs := wcg_conts maxiter epss w in
    if forallb (fun b => b) cs then wcg_loop maxiter epss k (wcg_step w)
    else if forallb negb cs then Some w
    else None                      (* the ranks disagree: deadlock in the next collective *)
  end.

(* the prologue on every rank (norm_rhs from the reduced inner product) *)
Definition w_prologue (prm : @kprm S) (fs : list vec) : list (@prologue S) :=
  map (fun nr => if sltb nr eps1 then (if p_ns prm then Go s1 else Trivial nr) else Go nr) (dist_norm_a fs).

Definition is_go (p : @prologue S) : bool := match p with Go _ => true | Trivial _ => false end.
Definition pro_val (p : @prologue S) : S := match p with Go v => v | Trivial v => v end.

Definition wcg_init (prm : @kprm S) (nrs : list S) (fs xs0 : list vec) (junk : wcg) : list S * wcg :=
  let epss := map (fun nr => smax (p_tol prm * nr) (p_abstol prm)) nrs in
  let rs := map2 k_residual fs (Aw xs0) in
  (epss, mkWcg xs0 rs (w_s junk) (w_p junk) (w_q junk)
               (map (fun eps => (sofQ (2 # 1)%Q * eps) * s1) epss)
               (map (fun _ => s0) epss) (dist_norm_a rs) (map (fun _ => 0%nat) epss)).

(* per-rank result: (iters, residual, slice of x), or None when the ranks would diverge *)
Definition wcg_run (prm : @kprm S) (fs xs0 : list vec) (junk : wcg) : option (list (@kres S)) :=
  let pros := w_prologue prm fs in
  if forallb is_go pros then
    let nrs := map pro_val pros in
    let '(epss, w0) := wcg_init prm nrs fs xs0 junk in
    match wcg_loop (p_maxiter prm) epss (p_maxiter prm) w0 with
    | None => None
    | Some w => Some (map2 (fun (c : nat * (S * S)) x => mkRes (fst c) (fst (snd c) / snd (snd c)) x false)
                           (combine (w_it w) (combine (w_res w) nrs)) (w_x w))
    end
  else if forallb (fun p => negb (is_go p)) pros then
    Some (map2 (fun p x => mkRes 0 (pro_val p) (k_clear x) false) pros xs0)
  else None.

(* ---- rank-lifted Richardson (amgcl/solver/richardson.hpp, model Krylov.richardson) ---- *)
Record wri := mkWri { v_x : list vec; v_r : list vec; v_s : list vec; v_res : list S; v_it : list nat }.

Definition wri_step (damping : S) (fs : list vec) (w : wri) : wri :=
  let ss := Pw (v_r w) in
  let xs := map (fun sx : vec * vec => k_axpby damping (fst sx) s1 (snd sx)) (combine ss (v_x w)) in
  let rs := map2 k_residual fs (Aw xs) in
  mkWri xs rs ss (dist_norm_a rs) (map Datatypes.S (v_it w)).

Definition wri_conts (maxiter : nat) (epss : list S) (w : wri) : list bool :=
  map2 (fun (c : nat * S) eps => Nat.ltb (fst c) maxiter && sltb eps (sabs (snd c)))
       (combine (v_it w) (v_res w)) epss.

Fixpoint wri_loop (damping : S) (fs : list vec) (maxiter : nat) (epss : list S) (fuel : nat) (w : wri) : option wri :=
  match fuel with
  | O => Some w
  | Datatypes.S k =>
    let cs := wri_conts maxiter epss w in
    if forallb (fun b => b) cs then wri_loop damping fs maxiter epss k (wri_step damping fs w)
    else if forallb negb cs then Some w
    else None
  end.

Definition wri_run (prm : @kprm S) (fs xs0 : list vec) (junk_s : list vec) : option (list (@kres S)) :=
  let pros := w_prologue prm fs in
  if forallb is_go pros then
    let nrs := map pro_val pros in
    let epss := map (fun nr => smax (p_tol prm * nr) (p_abstol prm)) nrs in
    let rs := map2 k_residual fs (Aw xs0) in
    let w0 := mkWri xs0 rs junk_s (dist_norm_a rs) (map (fun _ => 0%nat) epss) in
    match wri_loop (p_damping prm) fs (p_maxiter prm) epss (p_maxiter prm) w0 with
    | None => None
    | Some w => Some (map2 (fun (c : nat * (S * S)) x => mkRes (fst c) (fst (snd c) / snd (snd c)) x false)
                           (combine (v_it w) (combine (v_res w) nrs)) (v_x w))
    end
  else if forallb (fun p => negb (is_go p)) pros then
    Some (map2 (fun p x => mkRes 0 (pro_val p) (k_clear x) false) pros xs0)
  else None.

End RankLifted.
