(* DistSolve.v -- C12: (1) the specification-level oracles that are evaluated on the outputs of
   the distributed solver (true residual, Galerkin identity, aggregate partition, direct solve);
   (2) the rank-lifted Krylov model: a solver run on every rank of a world with globally reduced
   inner products.  Definitions only; proofs: DistSolveProofs.v. *)
From Amgcl Require Import Scalar Vec Crs Kernels MatOps Dist.
Local Open Scope S_scope.

Section Oracles.
Context {S : Scalar}.
Local Notation vec := (vec S).
Local Notation crs := (crs S).

Definition within (tol a b : S) : bool := sleb (sabs (a - b)) tol.

(* the reported relative residual [res] is truthful up to [tol]:
   (max(res - tol, 0))^2 <f,f> <= <r,r> <= (res + tol)^2 <f,f>  with r = f - A x  *)
Definition truthful (A : crs) (f x : vec) (res tol : S) : bool :=
  let r := residual f A x (vzero (length f)) in
  let rr := inner_product_serial r r in
  let ff := inner_product_serial f f in
  let lo := smax (res - tol) s0 in
  let hi := res + tol in
  sleb (lo * lo * ff) rr && sleb rr (hi * hi * ff).

(* the exact relative residual squared, for the evidence *)
Definition rel_residual_sq (A : crs) (f x : vec) : S :=
  let r := residual f A x (vzero (length f)) in
  inner_product_serial r r / inner_product_serial f f.

(* max-norm solve check: |f - A x|_i <= tol for every i *)
Definition solves (A : crs) (f x : vec) (tol : S) : bool :=
  forallb (fun ri => sleb (sabs ri) tol) (residual f A x (vzero (length f))).

Definition dense_within (tol : S) (X Y : list (list S)) : bool :=
  Nat.eqb (length X) (length Y) &&
  forallb (fun p => Nat.eqb (length (fst p)) (length (snd p)) &&
                    forallb (fun q => within tol (fst q) (snd q)) (combine (fst p) (snd p)))
          (combine X Y).

(* A_c = scale * R A P, entry by entry up to tol (tol = 0: exactly) *)
Definition galerkin_ok (A P R Ac : crs) (scale tol : S) : bool :=
  let RAP := spgemm_saad R (spgemm_saad A P false) false in
  Nat.eqb (ncols Ac) (ncols RAP) &&
  dense_within tol (mget_dense Ac) (mget_dense (mscale RAP scale)).

Definition same_operator (A B : crs) : bool :=
  Nat.eqb (ncols A) (ncols B) && dense_within s0 (mget_dense A) (mget_dense B).

(* the tentative prolongation of plain aggregation describes a partition of the non-isolated
   unknowns into non-empty aggregates: every row has at most one entry, of value one; every
   coarse column is hit; and the constant vector is reproduced on the aggregated rows *)
Definition partition_ok (P : crs) : bool :=
  forallb (fun r => match r with
                    | [] => true
                    | [(c, v)] => Nat.ltb c (ncols P) && seqb v s1
                    | _ => false
                    end) (rows P) &&
  forallb (fun j => existsb (fun r => existsb (fun e => Nat.eqb (fst e) j) r) (rows P)) (seq 0 (ncols P)).

(* an unknown left out of all aggregates must be isolated in A: no off-diagonal entry at all
   is the strongest form; [strong i j] is supplied by the caller *)
Definition unaggregated_rows (P : crs) : list nat :=
  map fst (filter (fun ir => match snd ir with [] => true | _ => false end) (indexed (rows P))).

End Oracles.
