(* Extract.v -- extraction of the executable model to OCaml.
   Directives used (all part of the trusted base, see DESIGN.md §6):
   ExtrOcamlBasic (bool, option, unit, list, prod, sumbool -> OCaml types),
   ExtrOcamlNatInt (nat -> int), ExtrOcamlZBigInt (positive, N, Z -> Big_int_Z).
   BlockInst / BlockKernels: the static_matrix<T,b,b> Scalar instance and the block inner products
   (ops_kernels_block.ml); ComplexInst: std::complex<T> as a Scalar instance. *)
From Amgcl Require Import ExtractCommon.
From Coq Require Import QArith Qcanon.
From Amgcl Require Import Scalar QcInst Vec Crs Kernels DirectUtil Inverse StaticMat BlockInst BlockKernels ComplexInst.
Separate Extraction
  QcInst.QcS Scalar.is_zero Scalar.smax Scalar.smin
  Vec Crs Kernels StaticMat BlockInst BlockKernels ComplexInst.
