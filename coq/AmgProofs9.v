(* AmgProofs9.v -- correctness of the exact coarse solve (Gauss-Jordan with search for a non-zero
   pivot, DenseSolve.v) over a field: if it returns y then A y = f.  Consequence: for a
   symmetric matrix the solve is a symmetric operator (solve_sym), the last hypothesis of the
   C02-A3 theorems for hierarchies that end in the direct solver. *)
From Amgcl Require Import Scalar Vec Crs Kernels KernelsProofs MatOps MatOpsProofs Relax DenseSolve
  Amg AmgExec AmgProofs AmgProofs2 AmgProofs3 AmgProofs4 AmgProofs5 AmgProofs6 AmgProofs7 AmgProofs8.
Local Open Scope S_scope.

Section GJ.
Context {S : Scalar}.
Local Notation vec := (vec S).
Local Notation crs := (crs S).
Hypothesis Sft : Sfield S.
Hypothesis Seqb : seqb_spec S.
Let Srt : Sring S := F_R Sft.
Add Ring SRingA9 : Srt.
Local Notation ip := (@ip S).

Variable n : nat.     (* number of unknowns; augmented rows have n + 1 entries *)

Definition sat (y r : vec) : Prop := ip n r y = vget r n.
Definition delta (i j : nat) : S := if Nat.eqb j i then s1 else s0.
(* done row number i after k columns have been eliminated / rows still to do *)
Definition drow (k i : nat) (r : vec) : Prop :=
  length r = Datatypes.S n /\ forall j, j < k -> vget r j = delta i j.
Definition trow (k : nat) (r : vec) : Prop :=
  length r = Datatypes.S n /\ forall j, j < k -> vget r j = s0.

Lemma sat_scale (y p : vec) c d : d * c = s1 -> length p = Datatypes.S n ->
  sat y (scale_row c p) -> sat y p.
Proof.
  intros Hdc Lp H. unfold sat in *. rewrite vget_scale in H by lia.
  assert (E : ip n (scale_row c p) y = c * ip n p y).
  { unfold AmgProofs6.ip. rewrite <- (sumn_scal Srt). apply sumn_ext. intros j Hj.
    rewrite vget_scale by lia. ring. }
  rewrite E in H.
  transitivity (d * (c * ip n p y)).
  { transitivity ((d * c) * ip n p y); [rewrite Hdc; ring|ring]. }
  rewrite H. transitivity ((d * c) * vget p n); [ring|rewrite Hdc; ring].
Qed.

Lemma sat_sub (y r p : vec) m : length r = Datatypes.S n -> length p = Datatypes.S n ->
  sat y p -> sat y (sub_row r m p) -> sat y r.
Proof.
  intros Lr Lp Hp H. unfold sat in *. rewrite vget_sub in H by lia.
  assert (E : ip n (sub_row r m p) y = ip n r y - m * ip n p y).
  { unfold AmgProofs6.ip. rewrite <- (sumn_scal Srt).
    transitivity (sumn (fun i => vget r i * vget y i + (sopp s1) * (m * (vget p i * vget y i))) n).
    - apply sumn_ext. intros j Hj. rewrite vget_sub by lia. ring.
    - rewrite (sumn_add Srt), (sumn_scal Srt). ring. }
  rewrite E, Hp in H.
  transitivity (ip n r y - m * vget p n + m * vget p n); [ring|]. rewrite H. ring.
Qed.

Lemma pick_spec k (l : list vec) p rest : pick_pivot k l = Some (p, rest) ->
  is_zero (vget p k) = false /\ (forall r, In r l <-> r = p \/ In r rest) /\
  length l = Datatypes.S (length rest).
Proof.
  revert p rest; induction l as [|q l IH]; intros p rest H; simpl in H; [discriminate|].
  destruct (is_zero (vget q k)) eqn:Z.
  - destruct (pick_pivot k l) as [[p0 rest0]|]; [|discriminate]. inversion H; subst.
    destruct (IH p rest0 eq_refl) as (H1 & H2 & H3). split; [exact H1|]. split.
    + intro r. simpl. rewrite H2. tauto.
    + simpl. congruence.
  - inversion H; subst. split; [exact Z|]. split; [|reflexivity].
    intro r. simpl. split; intros [E|E]; auto.
Qed.

Lemma Forall2_map_r_in {X Y} (P Q : X -> Y -> Prop) (f : Y -> Y) la lb :
  (forall a b, In a la -> P a b -> Q a (f b)) -> Forall2 P la lb -> Forall2 Q la (map f lb).
Proof.
  intros H HF. induction HF as [|a b la lb Hab HF IH]; simpl; constructor.
  - apply H; [left; reflexivity|exact Hab].
  - apply IH. intros a0 b0 Hin. apply H. right. exact Hin.
Qed.

Lemma Forall2_seq_nth {Y} (Q : nat -> Y -> Prop) m : forall s (l : list Y) d,
  Forall2 Q (seq s m) l -> length l = m /\ forall i, i < m -> Q (s + i)%nat (nth i l d).
Proof.
  induction m as [|m IH]; intros s l d H; simpl in H; inversion H; subst.
  - split; [reflexivity|]. intros i Hi. lia.
  - destruct (IH (Datatypes.S s) _ d H4) as [HL HN]. split; [simpl; congruence|].
    intros [|i] Hi; simpl.
    + rewrite Nat.add_0_r. assumption.
    + replace (s + Datatypes.S i)%nat with (Datatypes.S s + i)%nat by lia. apply HN. lia.
Qed.

(* one elimination step keeps the shape invariants *)
Section Step.
Variables (k : nat) (p : vec).
Hypothesis Hk : k < n.
Hypothesis Hp : trow k p.
Hypothesis Hpk : vget p k <> s0.
Let p' := scale_row (sinv (vget p k)) p.
Let elim := fun r : vec => sub_row r (vget r k) p'.

Lemma p'_len : length p' = Datatypes.S n.
Proof. unfold p', scale_row. rewrite map_length. apply Hp. Qed.

Lemma p'_get j : j < Datatypes.S n -> vget p' j = sinv (vget p k) * vget p j.
Proof. intro Hj. unfold p'. apply vget_scale. destruct Hp as [-> _]. exact Hj. Qed.

Lemma p'_k : vget p' k = s1.
Proof. rewrite p'_get by lia. apply (Finv_l Sft), Hpk. Qed.

Lemma p'_low j : j < k -> vget p' j = s0.
Proof. intro Hj. rewrite p'_get by lia. destruct Hp as [_ H]. rewrite (H j Hj). ring. Qed.

Lemma p'_drow : drow (Datatypes.S k) k p'.
Proof.
  split; [apply p'_len|]. intros j Hj. unfold delta.
  destruct (Nat.eqb_spec j k) as [->|Hne]; [apply p'_k|apply p'_low; lia].
Qed.

Lemma elim_get (r : vec) j : length r = Datatypes.S n -> j < Datatypes.S n ->
  vget (elim r) j = vget r j - vget r k * vget p' j.
Proof. intros Lr Hj. unfold elim. apply vget_sub; rewrite ?p'_len; lia. Qed.

Lemma elim_drow i (r : vec) : i < k -> drow k i r -> drow (Datatypes.S k) i (elim r).
Proof.
  intros Hi [Lr Hr]. split; [unfold elim; rewrite sub_row_length; exact Lr|].
  intros j Hj. rewrite elim_get by lia. unfold delta.
  destruct (Nat.eqb_spec j k) as [->|Hne].
  - rewrite p'_k. destruct (Nat.eqb_spec k i); [lia|]. ring.
  - rewrite p'_low by lia. rewrite (Hr j) by lia. unfold delta. ring.
Qed.

Lemma elim_trow (r : vec) : trow k r -> trow (Datatypes.S k) (elim r).
Proof.
  intros [Lr Hr]. split; [unfold elim; rewrite sub_row_length; exact Lr|].
  intros j Hj. rewrite elim_get by lia.
  destruct (Nat.eqb_spec j k) as [->|Hne].
  - rewrite p'_k. ring.
  - rewrite p'_low by lia. rewrite (Hr j) by lia. ring.
Qed.

Lemma elim_sat y (r : vec) : length r = Datatypes.S n -> sat y p' -> sat y (elim r) -> sat y r.
Proof. intros Lr H1 H2. apply (sat_sub y r p' (vget r k) Lr p'_len H1 H2). Qed.

Lemma p'_sat y : sat y p' -> sat y p.
Proof.
  intro H. apply (sat_scale y p (sinv (vget p k)) (vget p k)); [|apply Hp|exact H].
  rewrite (Rmul_comm Srt). apply (Finv_l Sft), Hpk.
Qed.
End Step.

Lemma is_zero_false (v : S) : is_zero v = false -> v <> s0.
Proof. intros H E. subst v. unfold is_zero in H. rewrite (proj2 (Seqb s0 s0) eq_refl) in H. discriminate. Qed.

Theorem gj_correct steps : forall k (done todo out : list vec),
  (k + steps = n)%nat -> length todo = steps ->
  Forall2 (drow k) (seq 0 k) done -> Forall (trow k) todo ->
  gj steps k done todo = Some out ->
  Forall2 (drow n) (seq 0 n) out /\
  forall y, (forall r, In r out -> sat y r) -> forall r, In r (done ++ todo) -> sat y r.
Proof.
  induction steps as [|steps IH]; intros k done todo out Hk HL HD HT H; simpl in H.
  - inversion H; subst. replace n with k by lia. split; [exact HD|].
    destruct todo; [|discriminate]. rewrite app_nil_r. intros y Hy r Hr. apply Hy, Hr.
  - destruct (pick_pivot k todo) as [[p rest]|] eqn:EP; [|discriminate].
    destruct (pick_spec k todo p rest EP) as (Hz & Hin & Hlen).
    assert (Hk' : k < n) by lia.
    assert (Hp : trow k p) by (rewrite Forall_forall in HT; apply HT, Hin; left; reflexivity).
    assert (Hpk : vget p k <> s0) by (apply is_zero_false, Hz).
    assert (Hrest : Forall (trow k) rest).
    { rewrite Forall_forall in *. intros r Hr. apply HT, Hin. right. exact Hr. }
    set (p' := scale_row (sinv (vget p k)) p) in *.
    set (elim := fun r : vec => sub_row r (vget r k) p') in *.
    destruct (IH (Datatypes.S k) (map elim done ++ [p']) (map elim rest) out) as [HO HS]; try assumption.
    + lia.
    + rewrite map_length. pose proof (eq_trans (eq_sym Hlen) HL) as E. injection E as E'. exact E'.
    + rewrite seq_S. apply Forall2_app.
      * apply (Forall2_map_r_in (drow k) (drow (Datatypes.S k)) elim); [|exact HD].
        intros i r Hi Hr. apply in_seq in Hi. apply (elim_drow k p Hk' Hp Hpk); [lia|exact Hr].
      * constructor; [|constructor]. apply (p'_drow k p Hk' Hp Hpk).
    + rewrite Forall_forall in *. intros r Hr. apply in_map_iff in Hr as (r0 & <- & Hr0).
      apply (elim_trow k p Hk' Hp Hpk). apply Hrest, Hr0.
    + split; [exact HO|]. intros y Hy r Hr.
      specialize (HS y Hy).
      assert (Sp' : sat y p') by (apply HS; apply in_or_app; left; apply in_or_app; right; left; reflexivity).
      assert (Sel : forall r0, In r0 done \/ In r0 rest -> sat y (elim r0)).
      { intros r0 [H0|H0]; apply HS; apply in_or_app.
        - left. apply in_or_app. left. apply in_map, H0.
        - right. apply in_map, H0. }
      assert (Ldone : forall r0, In r0 done -> length r0 = Datatypes.S n).
      { intros r0 H0. destruct (In_nth _ _ [] H0) as (i & Hi & <-).
        destruct (Forall2_seq_nth (drow k) k 0 done [] HD) as [HLd HN].
        apply (HN i). unfold Vec.vec in *. lia. }
      apply in_app_or in Hr. destruct Hr as [Hr|Hr].
      * apply (elim_sat k p Hp y r (Ldone r Hr) Sp'). apply Sel. left. exact Hr.
      * apply Hin in Hr. destruct Hr as [->|Hr].
        -- apply (p'_sat k p Hp Hpk y Sp').
        -- rewrite Forall_forall in Hrest.
           apply (elim_sat k p Hp y r (proj1 (Hrest r Hr)) Sp'). apply Sel. right. exact Hr.
Qed.

(* reading the solution off the final rows *)
Lemma final_sat (out : list vec) : Forall2 (drow n) (seq 0 n) out ->
  forall r, In r out -> sat (map (fun q => vget q n) out) r.
Proof.
  intros HD r Hr. destruct (Forall2_seq_nth (drow n) n 0 out [] HD) as [HL HN].
  destruct (In_nth _ _ [] Hr) as (i & Hi & <-). unfold Vec.vec in *. rewrite HL in Hi.
  destruct (HN i Hi) as [Lr Hu]. simpl in Hu. unfold sat, AmgProofs6.ip.
  rewrite (sumn_ext _ (fun j => if Nat.eqb i j then vget (map (fun q => vget q n) out) i else s0)).
  - rewrite (sumn_delta Srt). replace (i <? n)%nat with true by (symmetry; apply Nat.ltb_lt; exact Hi).
    unfold vget at 1. rewrite (nth_indep _ s0 ((fun q => vget q n) [])) by (rewrite map_length; unfold Vec.vec in *; lia).
    rewrite (map_nth (fun q => vget q n)). reflexivity.
  - intros j Hj. rewrite (Hu j Hj). unfold delta. rewrite (Nat.eqb_sym j i).
    destruct (Nat.eqb_spec i j) as [->|]; [rewrite (Rmul_1_l Srt); reflexivity|ring].
Qed.

End GJ.

Section SolveCorrect.
Context {S : Scalar}.
Local Notation vec := (vec S).
Local Notation crs := (crs S).
Hypothesis Sft : Sfield S.
Hypothesis Seqb : seqb_spec S.
Let Srt : Sring S := F_R Sft.
Add Ring SRingA9b : Srt.

Lemma nth_map_gen {X Y} (h : X -> Y) (l : list X) i d d' : i < length l ->
  nth i (map h l) d = h (nth i l d').
Proof. revert i; induction l as [|a l IH]; intros [|i] H; simpl in *; try lia; auto. apply IH. lia. Qed.

(* if the exact solve returns y then A y = f *)
Theorem dense_solve_correct (A : crs) (f y : vec) :
  ncols A = nrows A -> length f = nrows A -> dense_solve A f = Some y ->
  forall i, i < nrows A -> Ax A y i = vget f i.
Proof.
  intros Hsq Lf H i Hi. unfold dense_solve in H.
  match type of H with context [gj ?a ?b ?c ?d] => destruct (gj a b c d) as [out|] eqn:E end;
    [|discriminate].
  inversion H; subst y. clear H.
  set (n := nrows A) in *.
  set (augm := map (fun rb : vec * S => fst rb ++ [snd rb]) (combine (dense_rows A) f)) in *.
  assert (LD : length (dense_rows A) = n) by (unfold dense_rows; rewrite map_length; reflexivity).
  assert (Laug : length augm = n).
  { unfold augm. rewrite map_length, combine_length, LD, Lf. apply Nat.min_id. }
  assert (Hrow : forall r, In r (dense_rows A) -> length r = n).
  { intros r Hr. pose proof (dense_rows_len A) as HF. rewrite Forall_forall in HF.
    rewrite (HF r Hr). exact Hsq. }
  assert (HT : Forall (trow n 0) augm).
  { apply Forall_forall. intros r Hr. unfold augm in Hr. apply in_map_iff in Hr as ([d b] & <- & Hin).
    apply in_combine_l in Hin. split; [|intros j Hj; lia].
    simpl. rewrite app_length, (Hrow d Hin). simpl. lia. }
  destruct (gj_correct Sft Seqb n n 0 [] augm out eq_refl Laug (Forall2_nil _) HT E) as [HO HS].
  set (y := map (fun q : vec => vget q n) out) in *.
  pose proof (HS y (final_sat Sft n out HO)) as Hsat. simpl in Hsat.
  (* the i-th augmented row *)
  set (di := nth i (dense_rows A) []).
  assert (Hdi : In di (dense_rows A)) by (apply nth_In; rewrite LD; exact Hi).
  assert (Hin : In (di ++ [vget f i]) augm).
  { unfold augm. apply (in_map (fun rb : vec * S => fst rb ++ [snd rb]) _ (di, vget f i)).
    unfold di, vget. rewrite <- combine_nth by (rewrite LD, Lf; reflexivity).
    apply nth_In. rewrite combine_length, LD, Lf, Nat.min_id. exact Hi. }
  specialize (Hsat _ Hin). unfold sat in Hsat.
  assert (Ldi : length di = n) by (apply Hrow, Hdi).
  rewrite <- Ldi in Hsat at 2. rewrite vget_app_last in Hsat. rewrite <- Hsat.
  unfold Ax, AmgProofs6.ip. rewrite Hsq. fold n. apply sumn_ext. intros j Hj.
  rewrite vget_app_l by (rewrite Ldi; exact Hj). f_equal.
  unfold di, dense_rows, mget, vget. symmetry.
  etransitivity.
  { apply (f_equal (fun l => nth j l s0)).
    apply (nth_map_gen (fun r => map (fun j0 => rget r j0) (seq 0 (ncols A))) (rows A) i [] []). exact Hi. }
  cbv beta. apply (nth_map_seq (fun j0 => rget (nth i (rows A) []) j0)). rewrite Hsq. exact Hj.
Qed.

(* the exact solve of a symmetric matrix is a symmetric operator *)
Theorem mk_solve_exact_sym (A : crs) :
  ncols A = nrows A -> solvable A = true -> sym_mat (nrows A) A ->
  solve_sym (nrows A) (mk_solve_exact A).
Proof.
  intros Hsq Hs [HcA HsA] f g x y Lf Lg Lx Ly. unfold mk_solve_exact.
  destruct (solvable_all Srt A f Hsq Lf Hs) as [y1 E1].
  destruct (solvable_all Srt A g Hsq Lg Hs) as [y2 E2]. rewrite E1, E2.
  set (n := nrows A) in *.
  rewrite (ip_sym Srt n y1 g).
  rewrite (ip_Ax n A y2 g y1) by (intros i Hi; symmetry; apply (dense_solve_correct A g y2 Hsq Lg E2 i Hi)).
  rewrite (ip_Ax n A y1 f y2) by (intros i Hi; symmetry; apply (dense_solve_correct A f y1 Hsq Lf E1 i Hi)).
  apply (qA_adj Srt A A n n y2 y1 HcA HcA HsA).
Qed.

(* closed forms of C02-A3 with the exact coarse solve: no assumption on the solver is left
   beyond "it does not break down" *)
Lemma exact_solve_hyp (ls : list (@ldesc S)) :
  (forall A, In (LSolve A) ls -> solvable A = true /\ sym_mat (nrows A) A) ->
  forall A, In (LSolve A) ls -> solve_sym (nrows A) (mk_solve_exact A).
Proof.
  intros H A HA. destruct (H A HA) as [Hs Hm]. apply mk_solve_exact_sym; [apply Hm|exact Hs|exact Hm].
Qed.

Theorem built_apply_sym_exact (sadj_id : forall a : S, sadj a = a) kd ce dc ml sc ts (M : crs) k nc pc :
  sym_kind kd -> wf M = true -> sym_mat (nrows M) M -> ts_sym (nrows M) ts ->
  (forall A, In (LSolve A) (amg_init ce dc ml (coarse_op_of sc) ts M) ->
             solvable A = true /\ sym_mat (nrows A) A) ->
  let lvls := std_levels kd (amg_init ce dc ml (coarse_op_of sc) ts M) in
  (pc = 0 \/ nosolve_top lvls) ->
  forall scr1 scr2 f g x1 x2,
  scratch_wf lvls scr1 -> scratch_wf lvls scr2 ->
  length f = nrows M -> length g = nrows M -> length x1 = nrows M -> length x2 = nrows M ->
  dot (fst (apply k k nc (Datatypes.S pc) lvls scr1 f x1)) g =
  dot f (fst (apply k k nc (Datatypes.S pc) lvls scr2 g x2)).
Proof.
  intros Hk WM SM Hts Hsol.
  apply (built_apply_sym_full Srt Seqb sadj_id kd ce dc ml sc ts M k nc pc Hk WM SM Hts).
  apply exact_solve_hyp, Hsol.
Qed.

Theorem built_apply_sym_exact_gs (sadj_id : forall a : S, sadj a = a) ce dc ml sc ts (M : crs) k nc pc :
  wf M = true -> sym_mat (nrows M) M -> ts_sym (nrows M) ts ->
  (forall A, In (LSolve A) (amg_init ce dc ml (coarse_op_of sc) ts M) ->
             solvable A = true /\ sym_mat (nrows A) A) ->
  (forall l, In l (amg_init ce dc ml (coarse_op_of sc) ts M) -> gs_diag_ok (ld_A l)) ->
  let lvls := std_levels RGS (amg_init ce dc ml (coarse_op_of sc) ts M) in
  (pc = 0 \/ nosolve_top lvls) ->
  forall scr1 scr2 f g x1 x2,
  scratch_wf lvls scr1 -> scratch_wf lvls scr2 ->
  length f = nrows M -> length g = nrows M -> length x1 = nrows M -> length x2 = nrows M ->
  dot (fst (apply k k nc (Datatypes.S pc) lvls scr1 f x1)) g =
  dot f (fst (apply k k nc (Datatypes.S pc) lvls scr2 g x2)).
Proof.
  intros WM SM Hts Hsol.
  apply (built_apply_sym_full_gs Sft Seqb sadj_id ce dc ml sc ts M k nc pc WM SM Hts).
  apply exact_solve_hyp, Hsol.
Qed.

End SolveCorrect.
