(* LowLevelTProofs.v -- C10-A2: the bounds-checked transpose (LowLevelT.ll_transpose, a stable
   counting sort into zero-filled arrays) never leaves an array on well-formed input and
   returns the flat arrays of MatOps.transpose, for every Scalar record. *)
From Coq Require Import Lia.
From Amgcl Require Import Scalar Vec Crs Kernels MatOps LowLevel LowLevelProofs LowLevelT.
Local Open Scope nat_scope.

(* ------------------------------------------------------------------ generic helpers *)
Fixpoint upd {X} (l : list X) (i : nat) (v : X) : list X :=
  match l, i with
  | [], _ => []
  | _ :: t, O => v :: t
  | a :: t, S k => a :: upd t k v
  end.
Lemma wr_upd {X} (l : list X) i v : i < length l -> wr l i v = Ok (upd l i v).
Proof.
  revert i; induction l as [|a l IH]; intros i H; simpl in *; [lia|].
  destruct i as [|k]; [reflexivity|]. rewrite IH by lia. reflexivity.
Qed.
Lemma upd_length {X} (l : list X) i v : length (upd l i v) = length l.
Proof. revert i; induction l as [|a l IH]; intros [|k]; simpl; auto. Qed.
Lemma upd_nth {X} (l : list X) i v k d : i < length l ->
  nth k (upd l i v) d = if Nat.eqb k i then v else nth k l d.
Proof.
  revert i k; induction l as [|a l IH]; intros i k H; simpl in *; [lia|].
  destruct i as [|i]; destruct k as [|k]; simpl; try reflexivity. apply IH. lia.
Qed.

Lemma for_res_inv {St} (P : nat -> St -> Prop) (body : nat -> St -> res St) : forall cnt lo st,
  P lo st ->
  (forall i s, lo <= i < lo + cnt -> P i s -> exists s', body i s = Ok s' /\ P (S i) s') ->
  exists s', for_res lo cnt body st = Ok s' /\ P (lo + cnt) s'.
Proof.
  induction cnt as [|k IH]; intros lo st H0 Hs.
  - exists st. rewrite Nat.add_0_r. split; [reflexivity|exact H0].
  - rewrite for_res_step. destruct (Hs lo st ltac:(lia) H0) as (s1 & E1 & P1). rewrite E1. cbn [bind].
    destruct (IH (S lo) s1 P1) as (s' & E & P').
    + intros i s Hi. apply Hs. lia.
    + exists s'. split; [exact E|]. replace (lo + S k) with (S lo + k) by lia. exact P'.
Qed.

Lemma psum_from_length acc l : length (psum_from acc l) = length l.
Proof. revert acc; induction l as [|a l IH]; intro acc; simpl; auto. Qed.
Lemma psum_from_nth0 acc l : l <> [] -> nth 0 (psum_from acc l) 0 = acc + nth 0 l 0.
Proof. destruct l; [congruence|reflexivity]. Qed.
Lemma psum_from_nthS l : forall acc k, S k < length l ->
  nth (S k) (psum_from acc l) 0 = nth k (psum_from acc l) 0 + nth (S k) l 0.
Proof.
  induction l as [|a t IH]; intros acc k H; simpl in *; [lia|].
  destruct k as [|k].
  - destruct t as [|b t]; simpl in *; [lia|]. reflexivity.
  - rewrite IH by lia. reflexivity.
Qed.

(* ------------------------------------------------------------------ counting keys *)
Section Count.
Variable keys : list nat.
Let N := length keys.
Definition key (j : nat) : nat := nth j keys 0.
(* occurrences of c / of keys below c among the first j keys *)
Definition cntk (c j : nat) : nat := length (filter (Nat.eqb c) (firstn j keys)).
Definition ltc (c j : nat) : nat := length (filter (fun k => Nat.ltb k c) (firstn j keys)).
Definition start (c : nat) : nat := ltc c (length keys).
Definition pos (j : nat) : nat := start (key j) + cntk (key j) j.

Lemma cntk_0 c : cntk c 0 = 0.
Proof. reflexivity. Qed.
Lemma cntk_S c j : j < length keys -> cntk c (S j) = cntk c j + (if Nat.eqb c (key j) then 1 else 0).
Proof.
  intro H. unfold cntk. rewrite (firstn_S_nth keys j 0 H), filter_app, app_length. simpl.
  unfold key. destruct (Nat.eqb c (nth j keys 0)); reflexivity.
Qed.
Lemma cntk_mono c j j' : j <= j' -> j' <= length keys -> cntk c j <= cntk c j'.
Proof.
  intros H H'. induction j' as [|k IH].
  - replace j with 0 by lia. lia.
  - destruct (Nat.eq_dec j (S k)) as [->|Hne]; [lia|].
    rewrite cntk_S by lia. specialize (IH ltac:(lia) ltac:(lia)). lia.
Qed.
Lemma cntk_lt j : j < length keys -> cntk (key j) j < cntk (key j) (length keys).
Proof.
  intro H. pose proof (cntk_S (key j) j H) as E. rewrite Nat.eqb_refl in E.
  pose proof (cntk_mono (key j) (S j) (length keys) ltac:(lia) ltac:(lia)). lia.
Qed.

Lemma ltc_split (l : list nat) c :
  length (filter (fun k => Nat.ltb k (S c)) l) =
  length (filter (fun k => Nat.ltb k c) l) + length (filter (Nat.eqb c) l).
Proof.
  induction l as [|a l IH]; simpl; [reflexivity|].
  destruct (Nat.ltb_spec a (S c)), (Nat.ltb_spec a c), (Nat.eqb_spec c a); simpl; lia.
Qed.
Lemma start_0 : start 0 = 0.
Proof.
  unfold start, ltc. induction (firstn (length keys) keys) as [|a l IH]; simpl; [reflexivity|exact IH].
Qed.
Lemma start_S c : start (S c) = start c + cntk c (length keys).
Proof. unfold start, ltc, cntk. apply ltc_split. Qed.
Lemma start_mono c c' : c <= c' -> start c <= start c'.
Proof.
  induction 1 as [|k _ IH]; [lia|]. rewrite start_S. lia.
Qed.
Lemma start_all m : (forall k, In k keys -> k < m) -> start m = length keys.
Proof.
  intro H. unfold start, ltc. rewrite firstn_all.
  induction keys as [|a l IH]; simpl; [reflexivity|].
  destruct (Nat.ltb_spec a m) as [_|Hge].
  - simpl. f_equal. apply IH. intros k Hk. apply H. right. exact Hk.
  - exfalso. specialize (H a (or_introl eq_refl)). lia.
Qed.

Lemma pos_bounds j : j < length keys -> start (key j) <= pos j < start (S (key j)).
Proof. intro H. unfold pos. rewrite start_S. pose proof (cntk_lt j H). lia. Qed.
Lemma pos_lt m j : (forall k, In k keys -> k < m) -> j < length keys -> pos j < length keys.
Proof.
  intros Hm H. pose proof (pos_bounds j H) as [_ B].
  assert (key j < m) by (apply Hm; apply nth_In; exact H).
  pose proof (start_mono (S (key j)) m ltac:(lia)). rewrite (start_all m Hm) in *. lia.
Qed.
Lemma pos_inj j' j : j' < j -> j < length keys -> pos j' <> pos j.
Proof.
  intros Hlt H. destruct (Nat.eq_dec (key j') (key j)) as [E|Hne].
  - unfold pos. rewrite E.
    pose proof (cntk_S (key j) j' ltac:(lia)) as E1. rewrite <- E, Nat.eqb_refl in E1. rewrite E in E1.
    pose proof (cntk_mono (key j) (S j') j ltac:(lia) ltac:(lia)). lia.
  - pose proof (pos_bounds j' ltac:(lia)) as B'. pose proof (pos_bounds j H) as B.
    destruct (Nat.lt_ge_cases (key j') (key j)) as [L|L].
    + pose proof (start_mono (S (key j')) (key j) ltac:(lia)). lia.
    + pose proof (start_mono (S (key j)) (key j') ltac:(lia)). lia.
Qed.

(* the entries with key k, in order, go to the consecutive cells start k, start k + 1, ... *)
Lemma pos_enum k j : j <= length keys ->
  map pos (filter (fun j' => Nat.eqb k (key j')) (seq 0 j)) = seq (start k) (cntk k j).
Proof.
  induction j as [|j IH]; intro H; [reflexivity|].
  rewrite seq_S, filter_app, map_app, IH by lia. cbn [seq filter plus].
  rewrite cntk_S by lia. destruct (Nat.eqb_spec k (key j)) as [->|Hne].
  - cbn [map]. rewrite Nat.add_1_r, seq_S. reflexivity.
  - cbn [map]. rewrite Nat.add_0_r, app_nil_r. reflexivity.
Qed.

End Count.

(* ------------------------------------------------------------------ list helpers *)
Lemma nth_repeat0 {X} (a : X) n k : nth k (repeat a n) a = a.
Proof. revert k; induction n as [|n IH]; intros [|k]; simpl; auto. Qed.
Lemma nth_firstn_lt {X} (l : list X) i j d : i < j -> nth i (firstn j l) d = nth i l d.
Proof.
  revert i j; induction l as [|a l IH]; intros i j H; [destruct j, i; reflexivity|].
  destruct j as [|j]; [lia|]. destruct i as [|i]; [reflexivity|]. simpl. apply IH. lia.
Qed.
Lemma slice_map {X} (l : list X) d : forall k p, p + k <= length l ->
  firstn k (skipn p l) = map (fun q => nth q l d) (seq p k).
Proof.
  induction k as [|k IH]; intros p H; [reflexivity|].
  rewrite (skipn_cons_nth l p d) by lia. cbn [firstn seq map]. f_equal. apply IH. lia.
Qed.
Lemma combine_map_same {X Y Z} (f : X -> Y) (g : X -> Z) (l : list X) :
  combine (map f l) (map g l) = map (fun x => (f x, g x)) l.
Proof. induction l as [|a l IH]; simpl; [reflexivity|]. rewrite IH. reflexivity. Qed.
Lemma flat_map_map {X Y Z} (h : X -> Y) (G : Y -> list Z) (l : list X) :
  flat_map G (map h l) = flat_map (fun x => G (h x)) l.
Proof. induction l as [|a l IH]; simpl; [reflexivity|]. rewrite IH. reflexivity. Qed.
Lemma filter_map_comm {X Y} (h : X -> Y) (P : Y -> bool) (l : list X) :
  filter P (map h l) = map h (filter (fun x => P (h x)) l).
Proof. induction l as [|a l IH]; simpl; [reflexivity|]. destruct (P (h a)); simpl; rewrite IH; reflexivity. Qed.

(* ------------------------------------------------------------------ the kernel *)
Section Transpose.
Context {S : Scalar}.
Variable F : fcrs S.
Hypothesis W : fwf F.
Let n := fn F.
Let m := fm F.
Let keys := fcol F.
Let N := length (fcol F).
Let ptr (i : nat) : nat := nth i (fptr F) 0.
Let valj (j : nat) : S := nth j (fval F) s0.

Lemma W_len : length (fptr F) = Datatypes.S n.            Proof. apply W. Qed.
Lemma W_0 : ptr 0 = 0.                                    Proof. apply W. Qed.
Lemma W_step i : i < n -> ptr i <= ptr (Datatypes.S i).   Proof. apply W. Qed.
Lemma W_n : ptr n = N.                                    Proof. apply W. Qed.
Lemma W_val : length (fval F) = N.                        Proof. apply W. Qed.
Lemma W_col c : In c keys -> c < m.                       Proof. apply W. Qed.
Lemma W_mono i j : i <= j -> j <= n -> ptr i <= ptr j.
Proof. intros. apply (fptr_mono F W); assumption. Qed.
Lemma key_lt j : j < N -> key keys j < m.
Proof. intro H. apply W_col. apply nth_In. exact H. Qed.

Lemma row_unique i i' j : i < n -> i' < n ->
  ptr i <= j < ptr (Datatypes.S i) -> ptr i' <= j < ptr (Datatypes.S i') -> i = i'.
Proof.
  intros Hi Hi' B B'. destruct (Nat.lt_trichotomy i i') as [L|[E|L]]; [|exact E|].
  - pose proof (W_mono (Datatypes.S i) i' ltac:(lia) ltac:(lia)). lia.
  - pose proof (W_mono (Datatypes.S i') i ltac:(lia) ltac:(lia)). lia.
Qed.
Lemma row_find : forall k j, k <= n -> j < ptr k -> exists i, i < k /\ ptr i <= j < ptr (Datatypes.S i).
Proof.
  induction k as [|k IH]; intros j Hk Hj.
  - rewrite W_0 in Hj. lia.
  - destruct (Nat.lt_ge_cases j (ptr k)) as [L|G].
    + destruct (IH j ltac:(lia) L) as (i & Hi & B). exists i. split; [lia|exact B].
    + exists k. split; [lia|]. split; assumption.
Qed.

(* --- phase 1: counting *)
Lemma count_phase : exists cnts,
  for_res 0 N (count_body F) (repeat 0 (m + 1)) = Ok cnts /\
  length cnts = m + 1 /\ nth 0 cnts 0 = 0 /\
  forall c, c < m -> nth (Datatypes.S c) cnts 0 = cntk keys c N.
Proof.
  pose (P := fun (j : nat) (tp : list nat) =>
    length tp = m + 1 /\ nth 0 tp 0 = 0 /\ forall c, c < m -> nth (Datatypes.S c) tp 0 = cntk keys c j).
  destruct (for_res_inv P (count_body F) N 0 (repeat 0 (m + 1))) as (cnts & E & HP).
  - unfold P. rewrite repeat_length. repeat split; try reflexivity.
    + apply nth_repeat0.
    + intros c Hc. rewrite nth_repeat0. reflexivity.
  - intros j tp Hj (HL & H0 & Hc). unfold count_body.
    assert (Hk : key keys j < m) by (apply key_lt; lia).
    rewrite (rd_ok (fcol F) j 0) by (fold N; lia). cbn [bind]. fold keys. fold (key keys j).
    replace (key keys j + 1) with (Datatypes.S (key keys j)) by lia.
    rewrite (rd_ok tp (Datatypes.S (key keys j)) 0) by lia. cbn [bind].
    rewrite wr_upd by lia. eexists. split; [reflexivity|].
    unfold P. rewrite upd_length. repeat split; [exact HL| |].
    + rewrite upd_nth by lia. cbn [Nat.eqb]. exact H0.
    + intros c Hcm. rewrite upd_nth by lia. cbn [Nat.eqb]. rewrite cntk_S by (change (j < N); lia).
      destruct (Nat.eqb_spec c (key keys j)) as [->|Hne].
      * rewrite Hc by lia. lia.
      * rewrite Hc by lia. lia.
  - exists cnts. split; [exact E|]. exact HP.
Qed.

(* --- phase 2: partial sums give the start offsets *)
Lemma psum_start cnts : length cnts = m + 1 -> nth 0 cnts 0 = 0 ->
  (forall c, c < m -> nth (Datatypes.S c) cnts 0 = cntk keys c N) ->
  length (psum cnts) = m + 1 /\ forall k, k <= m -> nth k (psum cnts) 0 = start keys k.
Proof.
  intros HL H0 Hc. unfold psum. split; [rewrite psum_from_length; exact HL|].
  induction k as [|k IH]; intro Hk.
  - rewrite psum_from_nth0 by (destruct cnts; [simpl in HL; lia|discriminate]).
    rewrite H0, start_0. reflexivity.
  - rewrite psum_from_nthS by lia. rewrite IH by lia. rewrite Hc by lia. rewrite start_S. reflexivity.
Qed.

(* --- phase 3: the fill loop *)
Local Notation St := (list nat * (list nat * vec S))%type.
Definition Inv3 (j : nat) (st : St) : Prop :=
  length (fst st) = m + 1 /\ length (fst (snd st)) = N /\ length (snd (snd st)) = N /\
  (forall c, c < m -> nth c (fst st) 0 = start keys c + cntk keys c j) /\
  nth m (fst st) 0 = N /\
  (forall i' j', i' < n -> ptr i' <= j' < ptr (Datatypes.S i') -> j' < j ->
     nth (pos keys j') (fst (snd st)) 0 = i') /\
  (forall j', j' < j -> nth (pos keys j') (snd (snd st)) s0 = sadj (valj j')).

Lemma fill_inner_step i j (st : St) : i < n -> ptr i <= j < ptr (Datatypes.S i) -> Inv3 j st ->
  exists st', fill_inner F i j st = Ok st' /\ Inv3 (Datatypes.S j) st'.
Proof.
  intros Hi B (L1 & L2 & L3 & Hp & Hm & Hc & Hv).
  destruct st as (tp & tc & tv). cbn [fst snd] in *.
  assert (HjN : j < N). { pose proof (W_mono (Datatypes.S i) n ltac:(lia) ltac:(lia)). rewrite W_n in *. lia. }
  assert (Hk : key keys j < m) by (apply key_lt; exact HjN).
  assert (Hpos : nth (key keys j) tp 0 = pos keys j) by (rewrite Hp by exact Hk; reflexivity).
  assert (HposN : pos keys j < N) by (apply (pos_lt keys m); [exact W_col|exact HjN]).
  unfold fill_inner. cbn [fst snd].
  rewrite (rd_ok (fcol F) j 0) by exact HjN. cbn [bind]. fold keys. fold (key keys j).
  rewrite (rd_ok tp (key keys j) 0) by lia. cbn [bind]. rewrite Hpos.
  rewrite wr_upd by lia. cbn [bind].
  rewrite wr_upd by lia. cbn [bind].
  rewrite (rd_ok (fval F) j s0) by (rewrite W_val; exact HjN). cbn [bind]. fold (valj j).
  rewrite wr_upd by lia. cbn [bind].
  eexists. split; [reflexivity|]. unfold Inv3. cbn [fst snd]. rewrite !upd_length.
  repeat split; try assumption.
  - intros c Hcm. rewrite upd_nth by lia. rewrite cntk_S by exact HjN.
    destruct (Nat.eqb_spec c (key keys j)) as [->|Hne].
    + unfold pos. lia.
    + rewrite Hp by exact Hcm. lia.
  - rewrite upd_nth by lia. replace (Nat.eqb m (key keys j)) with false by (symmetry; apply Nat.eqb_neq; lia).
    exact Hm.
  - intros i' j' Hi' B' Hlt. rewrite upd_nth by lia.
    destruct (Nat.eq_dec j' j) as [->|Hne].
    + rewrite Nat.eqb_refl. apply (row_unique i i' j); assumption.
    + replace (Nat.eqb (pos keys j') (pos keys j)) with false
        by (symmetry; apply Nat.eqb_neq; apply pos_inj; [lia|exact HjN]).
      apply Hc; [assumption|assumption|lia].
  - intros j' Hlt. rewrite upd_nth by lia.
    destruct (Nat.eq_dec j' j) as [->|Hne].
    + rewrite Nat.eqb_refl. reflexivity.
    + replace (Nat.eqb (pos keys j') (pos keys j)) with false
        by (symmetry; apply Nat.eqb_neq; apply pos_inj; [lia|exact HjN]).
      apply Hv. lia.
Qed.

Lemma fill_body_step i (st : St) : i < n -> Inv3 (ptr i) st ->
  exists st', fill_body F i st = Ok st' /\ Inv3 (ptr (Datatypes.S i)) st'.
Proof.
  intros Hi I0. unfold fill_body.
  rewrite (rd_ok (fptr F) i 0) by (rewrite W_len; lia). cbn [bind].
  rewrite Nat.add_1_r. rewrite (rd_ok (fptr F) (Datatypes.S i) 0) by (rewrite W_len; lia). cbn [bind].
  fold (ptr i). fold (ptr (Datatypes.S i)).
  pose proof (W_step i Hi) as Hle.
  destruct (for_res_inv Inv3 (fill_inner F i) (ptr (Datatypes.S i) - ptr i) (ptr i) st I0) as (st' & E & I1).
  - intros j s Hj Ij. apply fill_inner_step; [exact Hi|lia|exact Ij].
  - exists st'. split; [exact E|]. replace (ptr (Datatypes.S i)) with (ptr i + (ptr (Datatypes.S i) - ptr i)) by lia.
    exact I1.
Qed.

Lemma fill_phase (st0 : St) : Inv3 0 st0 ->
  exists st, for_res 0 n (fill_body F) st0 = Ok st /\ Inv3 N st.
Proof.
  intro I0.
  destruct (for_res_inv (fun i st => Inv3 (ptr i) st) (fill_body F) n 0 st0) as (st & E & I1).
  - rewrite W_0. exact I0.
  - intros i s Hi Ii. apply fill_body_step; [lia|exact Ii].
  - exists st. split; [exact E|]. cbn [plus] in I1. rewrite W_n in I1. exact I1.
Qed.


(* --- the rows of the high-level transpose, enumerated by entry index *)
Lemma combine_seq_map {X} (f : nat -> X) (l : list nat) : combine l (map f l) = map (fun x => (x, f x)) l.
Proof. induction l as [|a l IH]; simpl; [reflexivity|]. rewrite IH. reflexivity. Qed.

Lemma frow_enum i : i < n ->
  frow F i = map (fun j => (key keys j, valj j)) (seq (ptr i) (ptr (Datatypes.S i) - ptr i)).
Proof.
  intro Hi. unfold frow, slice. fold (ptr i). fold (ptr (Datatypes.S i)).
  pose proof (W_step i Hi). pose proof (W_mono (Datatypes.S i) n ltac:(lia) ltac:(lia)) as Hn. rewrite W_n in Hn.
  rewrite (slice_map (fcol F) 0) by (fold N; lia).
  rewrite (slice_map (fval F) s0) by (rewrite W_val; lia).
  apply combine_map_same.
Qed.

Lemma rhs_rows (r : nat -> nat) k :
  (forall i j, i < n -> ptr i <= j < ptr (Datatypes.S i) -> r j = i) -> forall i, i <= n ->
  flat_map (fun ir : nat * row S => map (fun e => (fst ir, sadj (snd e)))
                                        (filter (fun e => Nat.eqb (fst e) k) (snd ir)))
           (indexed (map (frow F) (seq 0 i))) =
  map (fun j => (r j, sadj (valj j))) (filter (fun j => Nat.eqb k (key keys j)) (seq 0 (ptr i))).
Proof.
  intros Hr i Hi. unfold indexed. rewrite map_length, seq_length, combine_seq_map, flat_map_map.
  cbn [fst snd].
  induction i as [|i IH].
  - rewrite W_0. reflexivity.
  - pose proof (W_step i ltac:(lia)) as Hle.
    assert (E : seq 0 (ptr (Datatypes.S i)) = seq 0 (ptr i) ++ seq (ptr i) (ptr (Datatypes.S i) - ptr i)).
    { rewrite <- seq_app. f_equal. lia. }
    rewrite E, seq_S, flat_map_app, filter_app, map_app, IH by lia. f_equal.
    cbn [flat_map plus]. rewrite app_nil_r.
    rewrite frow_enum by lia. rewrite filter_map_comm, map_map. cbn [fst snd].
    rewrite (filter_ext _ (fun j => Nat.eqb k (key keys j))) by (intro j; apply Nat.eqb_sym).
    apply map_ext_in. intros j Hj. apply filter_In in Hj. destruct Hj as [Hj _]. apply in_seq in Hj.
    rewrite (Hr i j) by lia. reflexivity.
Qed.

Lemma interval_find : forall mm p, p < start keys mm ->
  exists k, k < mm /\ start keys k <= p < start keys (Datatypes.S k).
Proof.
  induction mm as [|mm IH]; intros p Hp.
  - rewrite start_0 in Hp. lia.
  - destruct (Nat.lt_ge_cases p (start keys mm)) as [L|G].
    + destruct (IH p L) as (k & Hk & B). exists k. split; [lia|exact B].
    + exists mm. split; [lia|]. split; assumption.
Qed.

Lemma rotate_at_length k (l : list nat) : length (rotate_at k l) = length l.
Proof.
  unfold rotate_at. rewrite app_length, skipn_length, firstn_length. lia.
Qed.

(* --- the theorem *)
Theorem ll_transpose_ok :
  exists T, ll_transpose F = Ok T /\ fwf T /\ unflat T = transpose (unflat F).
Proof.
  unfold ll_transpose.
  rewrite (rd_ok (fptr F) (fn F) 0) by (rewrite W_len; unfold n; lia). cbn [bind].
  fold n. fold (ptr n). rewrite W_n. fold m.
  destruct count_phase as (cnts & E1 & L & H0 & Hc). rewrite E1. cbn [bind].
  destruct (psum_start cnts L H0 Hc) as (Lp & Hst).
  assert (HsN : start keys m = N) by (apply (start_all keys m); exact W_col).
  assert (I0 : Inv3 0 (psum cnts, (repeat 0 N, repeat s0 N))).
  { unfold Inv3. cbn [fst snd]. rewrite !repeat_length. repeat split; try assumption; try reflexivity.
    - intros c Hcm. rewrite Hst by lia. rewrite cntk_0. lia.
    - rewrite Hst by lia. exact HsN.
    - intros; lia.
    - intros; lia. }
  destruct (fill_phase _ I0) as (st & E2 & (L1 & L2 & L3 & Hp & Hm & Hcol & Hval)).
  rewrite E2. cbn [bind]. destruct st as (tp & tc & tv). cbn [fst snd] in *.
  rewrite wr_upd by (rewrite rotate_at_length; lia). cbn [bind].
  eexists. split; [reflexivity|].
  set (P' := upd (rotate_at m tp) 0 0).
  assert (HP' : forall k, k <= m -> nth k P' 0 = start keys k).
  { intros k Hk. unfold P'. rewrite upd_nth by (rewrite rotate_at_length; lia).
    destruct k as [|k]; [rewrite start_0; reflexivity|]. cbn [Nat.eqb].
    unfold rotate_at. rewrite app_nth2 by (rewrite skipn_length; lia).
    rewrite skipn_length, L1. replace (Datatypes.S k - (m + 1 - m)) with k by lia.
    rewrite nth_firstn_lt by lia. rewrite Hp by lia. rewrite start_S. reflexivity. }
  assert (HposIn : forall p, p < N -> exists j, j < N /\ pos keys j = p).
  { intros p Hp'. rewrite <- HsN in Hp'. destruct (interval_find m p Hp') as (k & Hk & B).
    assert (Hin : In p (seq (start keys k) (cntk keys k N))).
    { apply in_seq. rewrite start_S in B. exact B. }
    rewrite <- (pos_enum keys k N) in Hin by (unfold N, keys; lia).
    apply in_map_iff in Hin. destruct Hin as (j & Ej & Hj). apply filter_In in Hj. destruct Hj as [Hj _].
    apply in_seq in Hj. exists j. split; [lia|exact Ej]. }
  split.
  - (* the result is a well-formed CRS matrix *)
    unfold fwf. cbn [fn fm fptr fcol fval]. repeat split.
    + unfold P'. rewrite upd_length, rotate_at_length. lia.
    + rewrite HP' by lia. apply start_0.
    + intros i Hi. fold m in Hi. rewrite !HP' by lia. apply start_mono. lia.
    + fold m. rewrite HP' by lia. rewrite HsN. symmetry. exact L2.
    + rewrite L2, L3. reflexivity.
    + intros c Hin. destruct (In_nth tc c 0 Hin) as (p & Hp' & Ep). rewrite L2 in Hp'.
      destruct (HposIn p Hp') as (j & Hj & Ej).
      destruct (row_find n j ltac:(lia) ltac:(rewrite W_n; exact Hj)) as (i & Hi & B).
      rewrite <- Ep, <- Ej. rewrite (Hcol i j Hi B Hj). exact Hi.
  - (* and it is the transpose *)
    unfold unflat, transpose. cbn [fn fm fptr fcol fval ncols rows]. unfold nrows. cbn [rows].
    rewrite map_length, seq_length. fold n. fold m. f_equal.
    apply map_ext_in. intros k Hk. apply in_seq in Hk.
    rewrite (rhs_rows (fun j => nth (pos keys j) tc 0) k) by
      (try (intros i j Hi B; apply Hcol; try assumption;
            pose proof (W_mono (Datatypes.S i) n ltac:(lia) ltac:(lia)) as Q; rewrite W_n in Q; lia); lia).
    rewrite W_n.
    unfold frow, slice. cbn [fptr fcol fval]. rewrite !HP' by lia.
    replace (start keys (Datatypes.S k) - start keys k) with (cntk keys k N) by (rewrite start_S; unfold N, keys; lia).
    assert (Hb : start keys k + cntk keys k N <= N).
    { pose proof (start_mono keys (Datatypes.S k) m ltac:(lia)) as Q. rewrite start_S in Q. unfold N, keys in *. lia. }
    rewrite (slice_map tc 0) by lia. rewrite (slice_map tv s0) by lia.
    rewrite combine_map_same.
    rewrite <- (pos_enum keys k N) by (unfold N, keys; lia). rewrite map_map.
    apply map_ext_in. intros j Hj. apply filter_In in Hj. destruct Hj as [Hj _]. apply in_seq in Hj.
    rewrite Hval by lia. reflexivity.
Qed.

End Transpose.

Corollary ll_transpose_no_oob {S : Scalar} (F : fcrs S) : fwf F -> ll_transpose F <> ErrOOB.
Proof. intro W. destruct (ll_transpose_ok F W) as (T & E & _). rewrite E. discriminate. Qed.

(* ------------------------------------------------------------------ examples (any Scalar) *)
Section Examples.
Context {S : Scalar}.
Variables a b c d : S.
(* degenerate inputs named by the property *)
Example ll_transpose_1x1 : ll_transpose (mkF 1 1 [0; 1] [0] [a]) = Ok (mkF 1 1 [0; 1] [0] [sadj a]).
Proof. vm_compute. reflexivity. Qed.
Example ll_transpose_0x0 : ll_transpose (mkF 0 0 [0] [] [] : fcrs S) = Ok (mkF 0 0 [0] [] []).
Proof. vm_compute. reflexivity. Qed.
Example ll_transpose_diag :
  ll_transpose (mkF 3 3 [0; 1; 2; 3] [0; 1; 2] [a; b; c])
  = Ok (mkF 3 3 [0; 1; 2; 3] [0; 1; 2] [sadj a; sadj b; sadj c]).
Proof. vm_compute. reflexivity. Qed.
(* rectangular 2x4 with an empty column and a duplicate entry: stable order within a column *)
Example ll_transpose_rect :
  ll_transpose (mkF 2 4 [0; 3; 4] [3; 0; 3; 0] [a; b; c; d])
  = Ok (mkF 4 2 [0; 2; 2; 2; 4] [0; 1; 0; 0] [sadj b; sadj d; sadj a; sadj c]).
Proof. vm_compute. reflexivity. Qed.
(* the checks bite: a column index >= m leaves T.ptr *)
Example ll_transpose_bad_col : ll_transpose (mkF 1 1 [0; 1] [1] [a]) = ErrOOB.
Proof. vm_compute. reflexivity. Qed.
End Examples.
