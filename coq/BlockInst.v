(* BlockInst.v -- amgcl::static_matrix<T,b,b> as a value type: a [Scalar] instance.

   [BlockS S0 b] is the Scalar record whose carrier is the row-major buffer of StaticMat.v
   (a [list S0]) TOGETHER WITH the proof that it has b*b cells -- the Coq rendering of
   std::array<T,b*b>.  Extraction erases the proof: in OCaml the carrier is the plain
   row-major list, [blk_list] is the identity and [mk_blk] is the identity.
   Every operation is the StaticMat.v / Inverse.v model of the corresponding C++ operation
   (amgcl/value_type/static_matrix.hpp); nothing is re-defined here:

     s0, s1     math::zero, math::identity            sm_zero b b, sm_id b
     sadd ssub  operator+ / operator-                  sm_add, sm_sub
     sopp       unary operator-                        sm_neg
     smul       operator*(static_matrix, static_matrix) sm_mul b b b  (NOT commutative)
     sinv       math::inverse = detail::inverse(N, A.data(), buf.data(), p.data())
                                                        sm_inverse b a junk (Inverse.v)
                the uninitialised scratch [buf] is junk := zeros (the result does not depend on
                it: InverseProofs.inverse_junk_independent / C16_inverse_junk_independent);
                [assert(!math::is_zero(d))] failing = [None] is mapped to the zero block --
                OUTSIDE the domain of the C++ (the assertion aborts); every theorem about
                BlockS that needs an inverse carries an explicit hypothesis
                [sinv d * d = s1] / [d * sinv d = s1], so no theorem uses this default;
                the model driver (ocaml/relax/ops_relax_block.ml) raises Model_exc
                "singular_block" instead of using it.
     sdiv a c   a * sinv c          (static_matrix has no operator/; only ever used between
                                     embedded scalars, see below)
     sadj       math::adjoint       sm_adjoint b b
     sabs       math::norm          Frobenius norm, embedded:  blk_embed (sm_norm a)
     seqb       cell-wise seqb      (is_zero a = seqb a s0 = math::is_zero)
     sltb       operator<           sm_ltb b b  (compares TRACES, as the C++ does)
     ssqrt      cell-wise ssqrt     (static_matrix has no sqrt; exact on embedded scalars only)
     seps, sofQ                     embedded scalars

   Mixed-type operands of the C++ templates.
   * Base scalars (scalar_type = T): math::norm results, eps, static_cast<scalar_type>(double)
     such as damping, math::identity<scalar_type>() ... are embedded as c*I ([blk_embed c]),
     a central element: (c I) * M = c * M cell by cell (the C++ computes M *= c, i.e. m * c per
     cell; equal in a commutative base ring, and the tie compares canonical exact rationals).
     Consistent: inverse(c I) = c^-1 I (LU of a diagonal matrix), (c I) < (d I) iff b c < b d
     iff c < d (ordered field, b >= 1), is_zero(c I) = is_zero c, sqrt cell-wise.
     NOT consistent: sabs (c I) = sqrt(b) |c| I, not |c| I.  Models that take [sabs] of a
     scalar_type quantity (Kernels.norm2, the Krylov solvers) are therefore NOT faithful at
     BlockS; in the relaxation models (Relax.v, Ilu.v, Cheby.v) [sabs] is only ever applied to
     matrix VALUES (spai0: norm(a_ij); ilut: norm(w_k); gershgorin: norm(a_ij), norm(inverse(dia))).
   * Right-hand-side / solution entries (rhs_type = static_matrix<T,b,1>) are embedded as the
     b x b block whose column 0 is the vector and whose other columns are zero ([blk_col]).
     +, -, unary -, and LEFT multiplication by a block or an embedded scalar preserve this shape
     and act on column 0 as the C++ operation on static_matrix<T,b,1> does
     (NcRingBlock.v: is_col_add / is_col_sub / is_col_neg / is_col_mul_l, blk_add_col / blk_sub_col / blk_mul_col;
     Properties_C06.C06_nc_vector_entries_closed).
     Checked against the C++ for every smoother covered by the C06 tie:
       backend::residual   res[i] = rhs[i] - sum_j A_ij * x[j]        left products only
       backend::vmul       z[i] = a * M[i] * y[i] + b * z[i]           (a I) * M_i * y_i, left
       backend::axpby      y[i] = a * x[i] + b * y[i]                  embedded scalars, left
       gauss_seidel        X -= v * x[c];  x[i] = inverse(D) * X       left
       ilu_solve           x[i] -= L_ij * x[j];  x[i] = D[i] * x[i]    left
       chebyshev           residual, vmul, axpby with scalar_type coefficients (alpha, beta
                           are scalar_type: computed from scalar c, d only)
     No smoother multiplies a vector entry from the right, takes its norm or its adjoint.
     (Krylov solvers do take inner products / norms of vectors: not covered by this embedding.)
   Definitions only (plus the length facts the carrier needs); algebra: NcRing.v, NcRingBlock.v,
   NcRingBlockInv.v, BlockRelaxProofs*.v, BlockIlu0Exact.v, BlockIluClosed.v. *)
From Amgcl Require Import Scalar Vec DirectUtil Inverse StaticMat.
Local Open Scope S_scope.
Local Open Scope nat_scope.

Section BlockInst.
Variable S0 : Scalar.
Variable b : nat.
Local Notation vec := (vec S0).

(* std::array<T, b*b> *)
Definition blk : Type := { l : vec | length l = b * b }.
Definition blk_list (a : blk) : vec := proj1_sig a.
Definition mk_blk (l : vec) (H : length l = b * b) : blk := exist _ l H.

(* ---- the length facts ---- *)
Lemma sm_of_fun_len (f : nat -> nat -> S0) : length (sm_of_fun b b f) = b * b.
Proof. apply tabulate_length. Qed.
Lemma upd2_len (f : S0 -> S0 -> S0) (x y : blk) : length (upd2 f (blk_list x) (blk_list y)) = b * b.
Proof.
  destruct x as [x Hx], y as [y Hy]; simpl. rewrite upd2_length; congruence.
Qed.
Lemma map_len (f : S0 -> S0) (x : blk) : length (map f (blk_list x)) = b * b.
Proof. destruct x as [x Hx]; simpl. rewrite map_length. exact Hx. Qed.
Lemma repeat_len (c : S0) : length (repeat c (b * b)) = b * b.
Proof. apply repeat_length. Qed.
Lemma inverse_len (A t B : vec) : inverse b A t = Some B -> length B = length t.
Proof.
  unfold inverse. destruct (lu_factor b A) as [[A' p]|]; [|discriminate].
  intro H; injection H as <-.
  apply (for_loop_inv (fun _ (s : vec) => length s = length t)); [reflexivity|].
  intros k s _ Hs. unfold solve_col.
  apply (for_down_inv (fun _ (s : vec) => length s = length t)).
  - apply (for_loop_inv (fun _ (s : vec) => length s = length t)); [assumption|].
    intros i s' _ Hs'. rewrite lset_length. assumption.
  - intros i s' _ Hs'. cbv zeta. rewrite lset_length.
    apply (for_loop_inv (fun _ (s : vec) => length s = length t)); [assumption|].
    intros j s'' _ Hs''. rewrite lset_length. assumption.
Qed.

(* ---- constructors ---- *)
Definition blk_of_fun (f : nat -> nat -> S0) : blk := mk_blk (sm_of_fun b b f) (sm_of_fun_len f).
Definition blk_get (a : blk) (i j : nat) : S0 := sm_get b (blk_list a) i j.
(* any list, read as a row-major b x b buffer (missing cells = s0, extra cells dropped) *)
Definition blk_of_list (l : vec) : blk := blk_of_fun (sm_get b l).
Definition blk_zero : blk := mk_blk (sm_zero b b) (repeat_len s0).
Definition blk_id : blk := mk_blk (sm_id b) (sm_of_fun_len _).
(* base scalar c as c*I *)
Definition blk_embed (c : S0) : blk := blk_of_fun (fun i j => if Nat.eqb i j then c else s0).
(* static_matrix<T,b,1> as the block with that column 0, and back *)
Definition blk_col (v : vec) : blk := blk_of_fun (fun i j => if Nat.eqb j 0 then vget v i else s0).
Definition blk_col0 (a : blk) : vec := tabulate b (fun i => blk_get a i 0).
(* shape test used by the model driver: all columns but the first are zero *)
Definition blk_is_col (a : blk) : bool :=
  forallb (fun i => forallb (fun j => is_zero (blk_get a i (Datatypes.S j))) (seq 0 (b - 1))) (seq 0 b).

(* ---- operations ---- *)
Definition blk_add (x y : blk) : blk := mk_blk (sm_add (blk_list x) (blk_list y)) (upd2_len _ y x).
Definition blk_sub (x y : blk) : blk := mk_blk (sm_sub (blk_list x) (blk_list y)) (upd2_len _ y x).
Definition blk_neg (x : blk) : blk := mk_blk (sm_neg (blk_list x)) (map_len _ x).
Definition blk_mul (x y : blk) : blk := mk_blk (sm_mul b b b (blk_list x) (blk_list y)) (sm_of_fun_len _).
Definition blk_adj (x : blk) : blk := mk_blk (sm_adjoint b b (blk_list x)) (sm_of_fun_len _).
Definition blk_sqrt (x : blk) : blk := mk_blk (map ssqrt (blk_list x)) (map_len _ x).

(* math::inverse(static_matrix): Some = the assertion of detail::inverse held *)
Definition blk_inverse (x : blk) : option blk :=
  match sm_inverse b (blk_list x) (sm_zero b b) as o
        return (sm_inverse b (blk_list x) (sm_zero b b) = o -> option blk) with
  | Some y => fun E => Some (mk_blk y (eq_trans (inverse_len _ _ _ E) (repeat_len s0)))
  | None => fun _ => None
  end eq_refl.
Definition blk_inv (x : blk) : blk :=
  match blk_inverse x with Some y => y | None => blk_zero end.
Definition blk_div (x y : blk) : blk := blk_mul x (blk_inv y).

Definition blk_norm (x : blk) : blk := blk_embed (sm_norm (blk_list x)).
Fixpoint list_eqb (x y : vec) : bool :=
  match x, y with
  | [], [] => true
  | a :: x', c :: y' => seqb a c && list_eqb x' y'
  | _, _ => false
  end.
Definition blk_eqb (x y : blk) : bool := list_eqb (blk_list x) (blk_list y).
Definition blk_ltb (x y : blk) : bool := sm_ltb b b (blk_list x) (blk_list y).

Definition BlockS : Scalar :=
  mkScalar blk blk_zero blk_id blk_add blk_mul blk_sub blk_neg blk_div blk_inv
           blk_adj blk_norm blk_sqrt blk_eqb blk_ltb (blk_embed seps) (fun q => blk_embed (sofQ q)).

End BlockInst.

Arguments blk_list {S0 b}. Arguments blk_get {S0 b}. Arguments blk_col0 {S0 b}.
Arguments blk_is_col {S0 b}. Arguments blk_inverse {S0 b}.
