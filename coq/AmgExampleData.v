(* AmgExampleData.v -- a concrete hierarchy over the exact rationals, used by the non-vacuity
   examples of Properties_C02.v / Properties_C03.v. *)
From Coq Require Import QArith Qcanon.
From Amgcl Require Import Scalar QcInst Vec Crs Kernels MatOps Relax DenseSolve Amg AmgExec.
Local Close Scope Qc_scope.
Local Close Scope Q_scope.
Local Open Scope S_scope.

(* ------------------------------------------------------------------ *)
(* a concrete problem over Qc: 1D Laplacian (n = 4, rows stored unsorted), pairwise
   aggregation twice; direct solver on the 1 x 1 coarsest level *)
Definition exq (n : Z) : T QcS := qc n 1.
Definition exM : crs QcS := mkCrs 4
  [[(1, exq (-1)); (0, exq 2)]; [(0, exq (-1)); (1, exq 2); (2, exq (-1))];
   [(3, exq (-1)); (2, exq 2); (1, exq (-1))]; [(2, exq (-1)); (3, exq 2)]]%nat.
Definition exP1 : crs QcS := mkCrs 2 [[(0, exq 1)]; [(0, exq 1)]; [(1, exq 1)]; [(1, exq 1)]]%nat.
Definition exR1 : crs QcS := mkCrs 4 [[(1, exq 1); (0, exq 1)]; [(2, exq 1); (3, exq 1)]]%nat.
Definition exP2 : crs QcS := mkCrs 1 [[(0, exq 1)]; [(0, exq 1)]]%nat.
Definition exR2 : crs QcS := mkCrs 2 [[(0, exq 1); (1, exq 1)]]%nat.
Definition exTs := [Some (exP1, exR1); Some (exP2, exR2)].
(* three levels, direct solver at the bottom *)
Definition exH := amg_init 1 true 10 (@galerkin QcS) exTs exM.
(* three levels, smoother at the bottom *)
Definition exH' := amg_init 1 false 10 (@galerkin QcS) exTs exM.
Definition exJac : @relax_kind QcS := RJacobi (qc 2 3).
Definition exScr0 := map (@fresh_scratch QcS) exH.
(* a "dirty" scratch: same lengths, arbitrary contents *)
Definition exDirty : list (@scratch QcS) :=
  [mkScratch [exq 5; exq 7; exq (-3); exq 1] [exq 1; exq 1; exq 2; exq 9] [exq 4; exq 4; exq 4; exq 4];
   mkScratch [exq 8; exq (-8)] [exq 6; exq 2] [exq 3; exq 1];
   mkScratch [exq 11] [exq 12] [exq 13]].
Definition exF : vec QcS := [exq 1; exq 2; exq 3; exq 4].
Definition exG : vec QcS := [exq 0; exq (-1); exq 5; exq 2].
